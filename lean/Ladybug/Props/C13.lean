/-
  C13 — Validation, hole-filling and resampling preserve the data they are given.
  Property theorems only (helper lemmas: Proofs/C13Lemmas.lean, Proofs/C13Interp.lean).
  The model (Model/Resample.lean, on Model/AP.lean and Model/Cal.lean) is tied to
  ladybug/datacollection.py by the correspondence ops of Drv/C13.lean (harness/props/c13.py).  It
  describes the code with the ten repairs fixes/C13_*.patch.

  Coverage of the statement (clause → status):
    validation, same pairs ................ proved, all four classes, every header   (`*_perm`)
    validation, sorted .................... proved, all four classes: strictly increasing, or for
                                            wrapping headers rotated at the period end
                                            (`C13_validate_hourly_sorted/_rotated`,
                                            `C13_validate_{daily,monthly,mph}_sorted`)
    validation, duplicates rejected ....... proved, hourly (`C13_validate_hourly_rejects_duplicates`)
    validation, a single value ............ proved that the duplicate check cannot reject it
                                            (`C13_validate_single`); acceptance on examples
    validation, period contains the data .. proved at full strength (`AP.Pred` of the OUTPUT period, hence
                                            membership in its enumeration) for every non-wrapping header
                                            (`C13_validate_contains`) and for wrapping headers with the
                                            whole-day window (`C13_validate_contains_wrapping`), data on the
                                            hour or whole-day window; grid + hour level for every header
                                            (`C13_validate_contains_partial`); the two excluded cases are the
                                            recorded findings, with counterexample theorems.  Monthly
                                            class: proved for non-wrapping headers
                                            (`C13_validate_monthly_contains`); daily / monthly-per-hour
                                            classes and wrapping monthly headers: compared + oracle only
    hole filling .......................... proved at full strength (`C13_holes`): length, source values on
                                            their own steps, leading/trailing copies, filled values between
                                            the neighbouring source values – for every whole-day period,
                                            through the year end as well
    refinement ............................ point-in-time `new[k·r] = old[k]`, totals of cumulative data,
                                            means of averaged data: proved (`C13_interp_*`)
    culling ............................... proved (`C13_cull`)
    time aggregation / rate of change ..... factor inverse proved (`C13_rate_of_aggregated`)
    histories on one object (round 3) ..... object machine Model/ResampleObj.lean (hourly classes, mutable and
                                            immutable, with the lazily filled `_datetimes` slot): every answer
                                            after every history is that of a fresh object showing the same
                                            public state (`C13_history_refines_fresh`, `C13_history_slot_free`),
                                            reads are pure (`C13_read_pure`), refused ops change nothing
                                            (`C13_refused_preserves`), validation does not look at the validated
                                            flag and returns the current pairs after any history
                                            (`C13_validate_ignores_flag`, `C13_validate_after_history`), the in-place
                                            cull keeps exactly the pairs on the grid (`C13_convert_cull_in_place`).
                                            Daily / Monthly / MonthlyPerHour histories: oracle only
-/
import Ladybug.Proofs.C13Lemmas
import Ladybug.Proofs.C13Contain
import Ladybug.Proofs.C13Holes
import Ladybug.Proofs.C13Interp
import Ladybug.Proofs.C13Obj
import Ladybug.Props.C04
import Mathlib.Tactic.FieldSimp

open Cal

namespace Resample

/-! ### Validation returns the same pairs -/

/-- **Hourly validation returns the same (datetime, value) pairs**: whenever it succeeds, the output
    pairs are a permutation of the input pairs – for every header (narrow, wrapping, annual, wrong
    timestep or leap flag), every subset of steps in any order, any values. -/
theorem C13_validate_hourly_perm {α : Type} (ap : AP) (dl : Bool) (data : List (Nat × α))
    (v : Validated (Nat × α)) (h : validateHourly ap dl data = .ok v) : v.data.Perm data := by
  obtain ⟨h1, -, -, -⟩ := validateHourly_ok ap dl data v h
  rw [h1]
  exact (reorder_perm _ _ _ _).trans (sortByKey_perm _ _)

/-- **Daily validation returns the same (day, value) pairs.** -/
theorem C13_validate_daily_perm {α : Type} (ap : AP) (data : List (Nat × α))
    (v : Validated (Nat × α)) (h : validateDaily ap data = .ok v) : v.data.Perm data := by
  obtain ⟨h1, -⟩ := validateDaily_ok ap data v h
  rw [h1]
  exact (reorder_perm _ _ _ _).trans (sortByKey_perm _ _)

/-- **Monthly validation returns the same (month, value) pairs.** -/
theorem C13_validate_monthly_perm {α : Type} (ap : AP) (data : List (Nat × α))
    (v : Validated (Nat × α)) (h : validateMonthly ap data = .ok v) : v.data.Perm data := by
  obtain ⟨h1, -⟩ := validateMonthly_ok ap data v h
  rw [h1]
  exact (reorder_perm _ _ _ _).trans (sortByKey_perm _ _)

/-- **Monthly-per-hour validation returns the same ((month, hour, minute), value) pairs.** -/
theorem C13_validate_mph_perm {α : Type} (ap : AP) (data : List (MPH × α))
    (v : Validated (MPH × α)) (h : validateMPH ap data = .ok v) : v.data.Perm data := by
  obtain ⟨h1, -⟩ := validateMPH_ok ap data v h
  rw [h1]
  exact (reorder_perm _ _ _ _).trans (sortByKey_perm _ _)

-- non-vacuity (evaluated): a shuffled three-value collection under a too narrow header
#guard (validateHourly ⟨6, 21, 6, 6, 21, 18, 1, false⟩ false [(246300, 7), (246240, 8), (247560, 9)]).toOption.map
  (fun v => (v.ap, v.data)) = some (⟨6, 21, 0, 6, 21, 22, 1, false⟩, [(246240, 8), (246300, 7), (247560, 9)])

/-! ### Validation sorts -/

/-- **Sorted, non-wrapping headers**: the output datetimes are strictly increasing in the year. -/
theorem C13_validate_hourly_sorted {α : Type} (ap : AP) (dl : Bool) (data : List (Nat × α))
    (v : Validated (Nat × α)) (h : validateHourly ap dl data = .ok v) (hf : ap.isReversed = false) :
    (v.data.map (·.1)).Pairwise (· < ·) := by
  obtain ⟨h1, h2, -, -⟩ := validateHourly_ok ap dl data v h
  rw [hf, reorder_fwd] at h1 h2
  rw [h1]
  apply strict_of_sorted_noAdjDup _ _ h2
  exact List.pairwise_map.mpr (sortByKey_sorted (fun p : Nat × α => p.1) data)

/-- **Sorted, wrapping headers**: either the period was made annual and the output is strictly
    increasing in the year, or the output is the sorted list rotated at the end of the period: first
    the run of datetimes after the end hour of the end day, then the run up to it, both strictly
    increasing. -/
theorem C13_validate_hourly_rotated {α : Type} (ap : AP) (dl : Bool) (data : List (Nat × α))
    (v : Validated (Nat × α)) (h : validateHourly ap dl data = .ok v) :
    (v.data.map (·.1)).Pairwise (· < ·) ∨
    ∃ pre rest, sortByKey (fun p : Nat × α => p.1) data = pre ++ rest ∧ v.data = rest ++ pre ∧
      (rest.map (·.1)).Pairwise (· < ·) ∧ (pre.map (·.1)).Pairwise (· < ·) ∧
      (∀ x ∈ rest, ap.endMoy + 60 ≤ x.1) ∧ (∀ x ∈ pre, x.1 < ap.endMoy + 60) := by
  obtain ⟨h1, h2, -, -⟩ := validateHourly_ok ap dl data v h
  have hs := sortByKey_sorted (fun p : Nat × α => p.1) data
  rcases reorder_cases ap.isReversed (fun p : Nat × α => decide (p.1 < ap.endMoy + 60))
      (fun f : Nat × α => decide (doyOfMoy f.1 > ap.endTime.doy ∧ doyOfMoy f.1 < ap.stTime.doy))
      (sortByKey (fun p : Nat × α => p.1) data) with hc | ⟨-, -, hc⟩
  · left
    rw [hc] at h1 h2
    rw [h1]
    exact strict_of_sorted_noAdjDup _ (List.pairwise_map.mpr hs) h2
  · right
    obtain ⟨pre, rest, e1, e2, e3, e4⟩ := rotateAfterLast_split
      (fun p : Nat × α => decide (p.1 < ap.endMoy + 60)) (sortByKey (fun p : Nat × α => p.1) data)
    rw [hc, e2] at h1 h2
    rw [e1] at hs
    have hsp := List.pairwise_append.mp hs
    rw [List.map_append] at h2
    refine ⟨pre, rest, e1, h1, ?_, ?_, ?_, ?_⟩
    · exact strict_of_sorted_noAdjDup _ (List.pairwise_map.mpr hsp.2.1) (hasAdjDup_append_left _ _ h2)
    · exact strict_of_sorted_noAdjDup _ (List.pairwise_map.mpr hsp.1) (hasAdjDup_append_right _ _ h2)
    · intro x hx
      have := e3 x hx
      simp at this
      exact this
    · intro x hx
      rcases e4 with rfl | ⟨y, hy, hpy⟩
      · simp at hx
      · have hxy := le_getLast_of_sorted (fun p : Nat × α => p.1) pre rest hs y hy x hx
        simp at hpy
        omega

/-- **Daily validation sorts.**  The output days are strictly increasing, or – only for a wrapping
    header that was not made annual – the sorted list rotated at the end day of the header: first
    the run of days after the end day, then the run up to it, both strictly increasing. -/
theorem C13_validate_daily_sorted {α : Type} (ap : AP) (data : List (Nat × α))
    (v : Validated (Nat × α)) (h : validateDaily ap data = .ok v) :
    (v.data.map (·.1)).Pairwise (· < ·) ∨
    (ap.isReversed = true ∧ ∃ pre rest, sortByKey (fun p : Nat × α => p.1) data = pre ++ rest ∧
      v.data = rest ++ pre ∧ (rest.map (·.1)).Pairwise (· < ·) ∧ (pre.map (·.1)).Pairwise (· < ·) ∧
      (∀ x ∈ rest, ap.endTime.doy < x.1) ∧ (∀ x ∈ pre, x.1 ≤ ap.endTime.doy)) := by
  obtain ⟨h1, h2⟩ := validateDaily_ok ap data v h
  have hs := sortByKey_sorted (fun p : Nat × α => p.1) data
  rcases reorder_order (fun k : Nat => k) ap.isReversed _ _ _ (fun a _ b _ hab => hab) hs h2 with
    hc | ⟨hr, pre, rest, e1, e2, s1, s2, b1, b2⟩
  · left; rw [h1]; exact hc
  · right
    refine ⟨hr, pre, rest, e1, by rw [h1, e2], s1, s2, ?_, ?_⟩
    · intro x hx
      have := b1 x hx
      simp at this
      exact this
    · intro x hx
      rcases b2 with rfl | ⟨y, hy, hpy⟩
      · simp at hx
      · have hxy := le_getLast_of_sorted (fun p : Nat × α => p.1) pre rest (e1 ▸ hs) y hy x hx
        simp at hpy
        omega

/-- **Monthly validation sorts**: strictly increasing months, or – wrapping header, not made annual –
    the sorted list rotated at the end month of the header. -/
theorem C13_validate_monthly_sorted {α : Type} (ap : AP) (data : List (Nat × α))
    (v : Validated (Nat × α)) (h : validateMonthly ap data = .ok v) :
    (v.data.map (·.1)).Pairwise (· < ·) ∨
    (ap.isReversed = true ∧ ∃ pre rest, sortByKey (fun p : Nat × α => p.1) data = pre ++ rest ∧
      v.data = rest ++ pre ∧ (rest.map (·.1)).Pairwise (· < ·) ∧ (pre.map (·.1)).Pairwise (· < ·) ∧
      (∀ x ∈ rest, ap.end_month < x.1) ∧ (∀ x ∈ pre, x.1 ≤ ap.end_month)) := by
  obtain ⟨h1, h2⟩ := validateMonthly_ok ap data v h
  have hs := sortByKey_sorted (fun p : Nat × α => p.1) data
  rcases reorder_order (fun k : Nat => k) ap.isReversed _ _ _ (fun a _ b _ hab => hab) hs h2 with
    hc | ⟨hr, pre, rest, e1, e2, s1, s2, b1, b2⟩
  · left; rw [h1]; exact hc
  · right
    refine ⟨hr, pre, rest, e1, by rw [h1, e2], s1, s2, ?_, ?_⟩
    · intro x hx
      have := b1 x hx
      simp at this
      exact this
    · intro x hx
      rcases b2 with rfl | ⟨y, hy, hpy⟩
      · simp at hx
      · have hxy := le_getLast_of_sorted (fun p : Nat × α => p.1) pre rest (e1 ▸ hs) y hy x hx
        simp at hpy
        omega

/-- **Monthly-per-hour validation sorts** (keys with hour and minute below 100, as every real key):
    the output is strictly increasing in (month, hour, minute) – `mphKey` is the lexicographic
    rank – or, for a wrapping header that was not made annual, the sorted list rotated after the
    last key with `month ≤ end month ∧ hour ≤ end hour`: both runs strictly increasing, no key of
    the first run passes that test, the last key of the second run does.  (The test is not monotone
    in the key, so the second run may contain keys that fail it: recorded finding
    C13-mph-wrapping-header-with-hour-window.) -/
theorem C13_validate_mph_sorted {α : Type} (ap : AP) (data : List (MPH × α))
    (v : Validated (MPH × α)) (h : validateMPH ap data = .ok v)
    (hb : ∀ x ∈ data, x.1.2.1 < 100 ∧ x.1.2.2 < 100) :
    (v.data.map fun x => mphKey x.1).Pairwise (· < ·) ∨
    (ap.isReversed = true ∧ ∃ pre rest, sortByKey (fun p : MPH × α => mphKey p.1) data = pre ++ rest ∧
      v.data = rest ++ pre ∧ (rest.map fun x => mphKey x.1).Pairwise (· < ·) ∧
      (pre.map fun x => mphKey x.1).Pairwise (· < ·) ∧
      (∀ x ∈ rest, ¬ (x.1.1 ≤ ap.end_month ∧ x.1.2.1 ≤ ap.end_hour)) ∧
      (pre = [] ∨ ∃ y, pre.getLast? = some y ∧ y.1.1 ≤ ap.end_month ∧ y.1.2.1 ≤ ap.end_hour)) := by
  obtain ⟨h1, h2⟩ := validateMPH_ok ap data v h
  have hs := sortByKey_sorted (fun p : MPH × α => mphKey p.1) data
  have hmem : ∀ x ∈ sortByKey (fun p : MPH × α => mphKey p.1) data, x ∈ data :=
    fun x hx => (sortByKey_perm _ data).mem_iff.mp hx
  have hinj : ∀ a ∈ sortByKey (fun p : MPH × α => mphKey p.1) data,
      ∀ b ∈ sortByKey (fun p : MPH × α => mphKey p.1) data, mphKey a.1 = mphKey b.1 → a.1 = b.1 := by
    intro a ha b hb' hab
    have ba := hb a (hmem a ha)
    have bb := hb b (hmem b hb')
    unfold mphKey at hab
    obtain ⟨⟨a1, a2, a3⟩, _⟩ := a
    obtain ⟨⟨b1, b2, b3⟩, _⟩ := b
    simp only at hab ba bb ⊢
    have : a1 = b1 ∧ a2 = b2 ∧ a3 = b3 := by omega
    rw [this.1, this.2.1, this.2.2]
  rcases reorder_order mphKey ap.isReversed _ _ _ hinj hs h2 with
    hc | ⟨hr, pre, rest, e1, e2, s1, s2, b1, b2⟩
  · left; rw [h1]; exact hc
  · right
    refine ⟨hr, pre, rest, e1, by rw [h1, e2], s1, s2, ?_, ?_⟩
    · intro x hx
      have := b1 x hx
      simpa using this
    · rcases b2 with rfl | ⟨y, hy, hpy⟩
      · left; rfl
      · right
        refine ⟨y, hy, ?_⟩
        simpa using hpy

#guard (validateMPH ⟨12, 1, 0, 2, 28, 23, 1, false⟩ [((1, 5, 0), 1), ((12, 3, 0), 2), ((2, 4, 30), 3)]).toOption.map
  (fun v => (v.ap, v.data.map (·.1))) = some (⟨12, 1, 0, 2, 28, 23, 2, false⟩, [(12, 3, 0), (1, 5, 0), (2, 4, 30)])

/-- **Duplicates are rejected**: a successful hourly validation means that no datetime occurred
    twice in the input. -/
theorem C13_validate_hourly_rejects_duplicates {α : Type} (ap : AP) (dl : Bool) (data : List (Nat × α))
    (v : Validated (Nat × α)) (h : validateHourly ap dl data = .ok v) : (data.map (·.1)).Nodup := by
  have hp := (C13_validate_hourly_perm ap dl data v h).map (·.1)
  rw [← hp.nodup_iff]
  rcases C13_validate_hourly_rotated ap dl data v h with hs | ⟨pre, rest, -, e2, s1, s2, b1, b2⟩
  · exact hs.imp (by intro a b hab; omega)
  · rw [e2, List.map_append]
    refine List.nodup_append.mpr ⟨s1.imp (by intro a b hab; omega), s2.imp (by intro a b hab; omega), ?_⟩
    intro a ha b hb
    obtain ⟨x, hx, rfl⟩ := List.mem_map.mp ha
    obtain ⟨y, hy, rfl⟩ := List.mem_map.mp hb
    have := b1 x hx
    have := b2 y hy
    omega

/-- **A single value is not a duplicate of itself** (the repaired check starts at the second item;
    the pinned code compared item 0 with item −1, i.e. with itself). -/
theorem C13_validate_single {κ : Type} [DecidableEq κ] (k : κ) : hasAdjDup [k] = false := rfl

-- a single value is accepted under an annual, a narrow and a wrapping header, and by the coarser classes
#guard (validateHourly (AP.annual false 1) false [(246960, 1)]).toOption.map (·.data) = some [(246960, 1)]
#guard (validateHourly ⟨6, 21, 6, 6, 21, 18, 1, false⟩ false [(246240 + 1380, 1)]).toOption.map (·.ap)
  = some ⟨6, 21, 6, 6, 21, 23, 1, false⟩
#guard (validateHourly ⟨12, 30, 0, 1, 2, 23, 2, false⟩ false [(150, 1)]).toOption.map (·.ap)
  = some ⟨12, 30, 0, 1, 2, 23, 2, false⟩
#guard (validateDaily (AP.annual false 1) [(5, 1)]).toOption.map (·.data) = some [(5, 1)]
#guard (validateMonthly (AP.annual false 1) [(3, 1)]).toOption.map (·.data) = some [(3, 1)]
#guard (validateMPH (AP.annual false 1) [((3, 4, 0), 1)]).toOption.map (·.data) = some [((3, 4, 0), 1)]
-- duplicates are rejected
#guard validateHourly (AP.annual false 1) false [(60, 1), (120, 2), (60, 3)] matches .error .assert

/-! ### The output period contains the data (in part) -/

/-- **Containment, grid and hour window** (partial).  For every header – narrow, wrapping, annual,
    wrong timestep – every output datetime lies on the grid of the *output* timestep, and its hour
    lies between the output start hour and end hour.  These are the `m % step = 0` clause of the C04
    membership predicate `AP.Pred` and its hour-window clause at hour level.
    Missing for the full statement: (a) the date-range clause of `AP.Pred` (compared with the code and
    checked by the oracle on every run; it fails for the recorded findings on wrapping headers with an
    hour window); (b) the window of a period closes at `end_hour:00`, so a datetime with minute > 0 in
    the last hour is inside at hour level but not a step of the period (recorded finding
    C13-hourly-minute-after-end-hour). -/
theorem C13_validate_contains_partial {α : Type} (ap : AP) (dl : Bool) (data : List (Nat × α))
    (v : Validated (Nat × α)) (h : validateHourly ap dl data = .ok v) :
    ∀ x ∈ v.data, x.1 % v.ap.step = 0 ∧
      v.ap.st_hour ≤ hourOfMoy x.1 ∧ hourOfMoy x.1 ≤ v.ap.end_hour := by
  have hann : ap.isAnnual = true → ap.st_hour = 0 ∧ ap.end_hour = 23 := by
    intro hA
    unfold AP.isAnnual at hA
    simp at hA
    omega
  obtain ⟨h1, -, -, stMD, endMD, leap, hmk⟩ := validateHourly_ok ap dl data v h
  intro x hx
  rw [h1] at hx
  have hwf := AP.C04_mk_wf _ _ _ _ _ _ _ _ _ hmk
  obtain ⟨-, -, -, -, hst, -, hen, hts, -⟩ := hwf
  have hxm : x.1 ∈ List.map (fun p : Nat × α => p.1) _ := List.mem_map_of_mem hx
  have hxh : hourOfMoy x.1 ∈ List.map (fun p : Nat × α => hourOfMoy p.1) _ := List.mem_map.mpr ⟨x, hx, rfl⟩
  have hfit := fitTimestep_fits ap.timestep _ x.1 hxm
  have h23 : hourOfMoy x.1 ≤ 23 := by unfold hourOfMoy; omega
  refine ⟨?_, ?_, ?_⟩
  · unfold AP.step
    simp only [AP.orD] at hts
    split at hts
    next h0 =>
      have h0' : fitTimestep ap.timestep (List.map (fun p : Nat × α => p.1)
        (reorder ap.isReversed (fun p : Nat × α => decide (p.1 < ap.endMoy + 60))
          (fun f : Nat × α => decide (doyOfMoy f.1 > ap.endTime.doy ∧ doyOfMoy f.1 < ap.stTime.doy))
          (sortByKey (fun p : Nat × α => p.1) data)).1) = 0 := by omega
      rw [h0'] at hfit
      simp at hfit
      rw [hfit]; simp
    next h0 =>
      have : v.ap.timestep = fitTimestep ap.timestep (List.map (fun p : Nat × α => p.1)
        (reorder ap.isReversed (fun p : Nat × α => decide (p.1 < ap.endMoy + 60))
          (fun f : Nat × α => decide (doyOfMoy f.1 > ap.endTime.doy ∧ doyOfMoy f.1 < ap.stTime.doy))
          (sortByKey (fun p : Nat × α => p.1) data)).1) := by omega
      rw [this]; exact hfit
  · have hmin := minHour_le ap.st_hour (List.map (fun p : Nat × α => hourOfMoy p.1)
        (reorder ap.isReversed (fun p : Nat × α => decide (p.1 < ap.endMoy + 60))
          (fun f : Nat × α => decide (doyOfMoy f.1 > ap.endTime.doy ∧ doyOfMoy f.1 < ap.stTime.doy))
          (sortByKey (fun p : Nat × α => p.1) data)).1)
    have hm2 := hmin.2 _ hxh
    by_cases hc : ap.isAnnual = false ∧ ap.st_hour ≠ 0
    · rw [if_pos hc] at hst
      simp only [AP.orD] at hst
      split at hst <;> omega
    · rw [if_neg hc] at hst
      have h0 : ap.st_hour = 0 := by
        cases hA : ap.isAnnual
        · rw [hA] at hc; simp at hc; exact hc
        · exact (hann hA).1
      simp only [AP.orD] at hst
      split at hst <;> omega
  · have hmax := le_maxHour ap.end_hour (List.map (fun p : Nat × α => hourOfMoy p.1)
        (reorder ap.isReversed (fun p : Nat × α => decide (p.1 < ap.endMoy + 60))
          (fun f : Nat × α => decide (doyOfMoy f.1 > ap.endTime.doy ∧ doyOfMoy f.1 < ap.stTime.doy))
          (sortByKey (fun p : Nat × α => p.1) data)).1)
    have hm2 := hmax.2 _ hxh
    by_cases hc : ap.isAnnual = false ∧ ap.end_hour ≠ 23
    · rw [if_pos hc] at hen
      simp only [Option.getD] at hen
      omega
    · rw [if_neg hc] at hen
      have h0 : ap.end_hour = 23 := by
        cases hA : ap.isAnnual
        · rw [hA] at hc; simp at hc; exact hc
        · exact (hann hA).2
      simp only [Option.getD] at hen
      omega

/-- **The output period contains every datum – non-wrapping headers, at full strength.**
    Header `ap` well-formed and not wrapping the year end (narrow, wide, annual, any hour window
    incl. overnight, wrong timestep); the `DateTime`s carry the header's leap flag and lie in that
    year; and either the header's hour window is the whole day or every datum is on the hour
    (exactly the side condition of the recorded finding C13-hourly-minute-after-end-hour).  Then the
    output period is well-formed and every output datetime satisfies the C04 membership predicate
    `AP.Pred` of the OUTPUT period – hence (by `C04_mem_moys`) is one of its enumerated steps. -/
theorem C13_validate_contains {α : Type} (ap : AP) (data : List (Nat × α))
    (v : Validated (Nat × α)) (h : validateHourly ap ap.leap data = .ok v) (hwf : ap.WF)
    (hyr : ∀ x ∈ data, x.1 < minutesInYear ap.leap) (hf : ap.isReversed = false)
    (hmin : (ap.st_hour = 0 ∧ ap.end_hour = 23) ∨ ∀ x ∈ data, x.1 % 60 = 0) :
    v.ap.WF ∧ (∀ x ∈ v.data, v.ap.Pred x.1) ∧ ∀ x ∈ v.data, x.1 ∈ v.ap.moys := by
  have hpart := C13_validate_contains_partial ap ap.leap data v h
  obtain ⟨h1, -, -, -⟩ := validateHourly_ok ap ap.leap data v h
  obtain ⟨first, last, hfst, hlst, hmk⟩ := validateHourly_mk ap ap.leap data v h
  have hg2 : (reorder ap.isReversed (fun p : Nat × α => decide (p.1 < ap.endMoy + 60))
      (fun f : Nat × α => decide (doyOfMoy f.1 > ap.endTime.doy ∧ doyOfMoy f.1 < ap.stTime.doy))
      (sortByKey (fun p : Nat × α => p.1) data)).2 = false := by
    rw [hf]; simp [reorder]
  have hg1 : (reorder ap.isReversed (fun p : Nat × α => decide (p.1 < ap.endMoy + 60))
      (fun f : Nat × α => decide (doyOfMoy f.1 > ap.endTime.doy ∧ doyOfMoy f.1 < ap.stTime.doy))
      (sortByKey (fun p : Nat × α => p.1) data)).1 = sortByKey (fun p : Nat × α => p.1) data := by
    rw [hf]; exact reorder_fwd _ _ _
  rw [hg1] at h1
  have hs := sortByKey_sorted (fun p : Nat × α => p.1) data
  have hmemS : ∀ x ∈ sortByKey (fun p : Nat × α => p.1) data, x ∈ data :=
    fun x hx => (sortByKey_perm _ data).mem_iff.mp hx
  have hfm : first ∈ sortByKey (fun p : Nat × α => p.1) data := List.mem_of_mem_head? hfst
  have hlm : last ∈ sortByKey (fun p : Nat × α => p.1) data := List.mem_of_mem_getLast? hlst
  have hfy := hyr first (hmemS first hfm)
  have hly := hyr last (hmemS last hlm)
  have hfle := head_le_of_sorted (fun p : Nat × α => p.1) _ hs first hfst
  have hlle : ∀ x ∈ sortByKey (fun p : Nat × α => p.1) data, x.1 ≤ last.1 := by
    intro x hx
    have := le_getLast_of_sorted (fun p : Nat × α => p.1) (sortByKey (fun p : Nat × α => p.1) data) []
      (by simpa using hs) last hlst x hx
    simpa using this
  obtain ⟨⟨w1, w2, w3, w4, w5, -⟩, ⟨w6, w7, w8, w9, w10, -⟩, -⟩ := hwf
  simp only [AP.stTime, AP.endTime] at w1 w2 w3 w4 w5 w6 w7 w8 w9 w10
  have hann : ap.isAnnual = true → ap.st_month = 1 ∧ ap.st_day = 1 ∧ ap.end_month = 12 ∧ ap.end_day = 31 := by
    intro hA; unfold AP.isAnnual at hA; simp at hA; omega
  -- the start date argument
  have hS : ∃ sm sd, (1 ≤ sm ∧ sm ≤ 12 ∧ 1 ≤ sd ∧ sd ≤ monthLen ap.leap sm ∧
        daysBefore ap.leap sm + sd ≤ first.1 / 1440 + 1) ∧
      (if (ap.isReversed = false ∧ ap.isAnnual = false) ∧ doyOfMoy first.1 < ap.stTime.doy
        then mdOf ap.leap first.1 else (ap.st_month, ap.st_day)) = (sm, sd) := by
    by_cases c1 : (ap.isReversed = false ∧ ap.isAnnual = false) ∧ doyOfMoy first.1 < ap.stTime.doy
    · obtain ⟨m1, m2, m3, m4, m5, -⟩ := mdOf_spec ap.leap first.1 hfy
      exact ⟨_, _, ⟨m1, m2, m3, m4, by omega⟩, by rw [if_pos c1]⟩
    · refine ⟨ap.st_month, ap.st_day, ⟨w1, w2, w3, w4, ?_⟩, by rw [if_neg c1]⟩
      cases hA : ap.isAnnual
      · have : ¬ doyOfMoy first.1 < ap.stTime.doy := fun hh => c1 ⟨⟨hf, hA⟩, hh⟩
        unfold doyOfMoy at this
        simp only [AP.stTime, doy_of_fields] at this
        omega
      · obtain ⟨a1, a2, -, -⟩ := hann hA
        rw [a1, a2]; simp [daysBefore]
  have hE : ∃ em ed, (1 ≤ em ∧ em ≤ 12 ∧ 1 ≤ ed ∧ ed ≤ monthLen ap.leap em ∧
        last.1 / 1440 + 1 ≤ daysBefore ap.leap em + ed) ∧
      (if (ap.isReversed = false ∧ ap.isAnnual = false) ∧ doyOfMoy last.1 > ap.endTime.doy
        then mdOf ap.leap last.1 else (ap.end_month, ap.end_day)) = (em, ed) := by
    by_cases c2 : (ap.isReversed = false ∧ ap.isAnnual = false) ∧ doyOfMoy last.1 > ap.endTime.doy
    · obtain ⟨m1, m2, m3, m4, m5, -⟩ := mdOf_spec ap.leap last.1 hly
      exact ⟨_, _, ⟨m1, m2, m3, m4, by omega⟩, by rw [if_pos c2]⟩
    · refine ⟨ap.end_month, ap.end_day, ⟨w6, w7, w8, w9, ?_⟩, by rw [if_neg c2]⟩
      cases hA : ap.isAnnual
      · have : ¬ doyOfMoy last.1 > ap.endTime.doy := fun hh => c2 ⟨⟨hf, hA⟩, hh⟩
        unfold doyOfMoy at this
        simp only [AP.endTime, doy_of_fields] at this
        omega
      · obtain ⟨-, -, a3, a4⟩ := hann hA
        rw [a3, a4]
        have : last.1 / 1440 < daysInYear ap.leap := by unfold minutesInYear at hly; omega
        cases hL : ap.leap <;> rw [hL] at this <;> simp [daysBefore, monthLens, daysInYear] at this ⊢ <;> omega
  obtain ⟨sm, sd, ⟨s1, s2, s3, s4, s5⟩, hse⟩ := hS
  obtain ⟨em, ed, ⟨t1, t2, t3, t4, t5⟩, hee⟩ := hE
  -- the leap flag stays the header's
  have hleap : (ap.leap || (sortByKey (fun p : Nat × α => p.1) data).any
      fun p => decide (mdOf ap.leap p.1 = (2, 29))) = ap.leap := by
    by_cases hL : ap.leap = true
    · rw [hL]; rfl
    · have hL' : ap.leap = false := by simpa using hL
      rw [Bool.or_eq_left_iff_imp]  -- placeholder, replaced below
      intro hany
      exfalso
      obtain ⟨x, hx, hdx⟩ := List.any_eq_true.mp hany
      have := (mdOf_spec ap.leap x.1 (hyr x (hmemS x hx))).2.2.2.2.2 hL'
      exact this (by simpa using hdx)
  rw [hg2, hg1] at hmk
  simp only [Bool.false_eq_true, if_false] at hmk
  rw [hse, hee, hleap] at hmk
  dsimp only at hmk
  have hwf' := AP.C04_mk_wf _ _ _ _ _ _ _ _ _ hmk
  obtain ⟨hWF, hlp, hsm, hsd, -, hem, -, -, hed⟩ := hwf'
  have e1 : v.ap.st_month = sm := by simp only [AP.orD] at hsm; split at hsm <;> omega
  have e2 : v.ap.st_day = sd := by simp only [AP.orD] at hsd; split at hsd <;> omega
  have e3 : v.ap.end_month = em := by simp only [AP.orD] at hem; split at hem <;> omega
  have e4 : v.ap.end_day = ed := by
    rcases hed with hed | ⟨hlt, heq⟩
    · simp only [AP.orD] at hed; split at hed <;> omega
    · exfalso
      simp only [AP.orD] at hlt
      rw [e3] at heq
      split at hlt <;> omega
  have hpred : ∀ x ∈ v.data, v.ap.Pred x.1 := by
    intro x hx
    obtain ⟨p1, p2, p3⟩ := hpart x hx
    rw [h1] at hx
    have hxy := hyr x (hmemS x hx)
    have hxf := hfle x hx
    have hxl := hlle x hx
    unfold hourOfMoy at p2 p3
    have h23 : v.ap.end_hour ≤ 23 := hWF.2.1.2.2.2.2.1
    have hmin' : (v.ap.st_hour = 0 ∧ v.ap.end_hour = 23) ∨ x.1 % 60 = 0 := by
      rcases hmin with ⟨a, b⟩ | hm
      · left
        obtain ⟨-, -, -, -, hst, -, hen, -, -⟩ := AP.C04_mk_wf _ _ _ _ _ _ _ _ _ hmk
        rw [if_neg (by intro hc; exact hc.2 a)] at hst
        rw [if_neg (by intro hc; exact hc.2 b)] at hen
        simp only [AP.orD, Option.getD] at hst hen
        constructor
        · split at hst <;> omega
        · omega
      · right; exact hm x (hmemS x hx)
    unfold AP.Pred
    refine ⟨by rw [hlp]; exact hxy, p1, ?_, ?_⟩
    · unfold AP.inWindow
      rw [if_pos (by omega)]
      rcases hmin' with hfull | hm0
      · right; exact hfull
      · left; omega
    · left
      simp only [AP.stMoy, AP.endMoy, AP.stTime, AP.endTime, moy_of_fields, e1, e2, e3, e4, hlp]
      refine ⟨?_, ?_, ?_⟩ <;> omega
  refine ⟨hWF, hpred, ?_⟩
  intro x hx
  exact (AP.C04_mem_moys v.ap hWF x.1).mpr (hpred x hx)

#guard (validateHourly ⟨6, 21, 22, 6, 23, 4, 1, false⟩ false [(246240 + 600, 1), (246240 - 1440, 2), (246240 + 3960, 3)]).toOption.map
  (fun v => (v.ap, v.data.map fun p => v.ap.includesMoy p.1)) = some (⟨6, 20, 0, 6, 23, 18, 1, false⟩, [true, true, true])

/-- **The output period contains every datum – wrapping headers with the whole-day window.**
    Header well-formed, wrapping the year end, hour window 0..23 (the side condition of the recorded
    finding C13-hourly-wrapping-header-with-hour-window), data in the header's year.  Whether the
    period is kept or made annual, it is well-formed and every output datetime satisfies `AP.Pred`
    of the output period, i.e. is one of its steps. -/
theorem C13_validate_contains_wrapping {α : Type} (ap : AP) (data : List (Nat × α))
    (v : Validated (Nat × α)) (h : validateHourly ap ap.leap data = .ok v) (hwf : ap.WF)
    (hyr : ∀ x ∈ data, x.1 < minutesInYear ap.leap) (hr : ap.isReversed = true)
    (hfull : ap.st_hour = 0 ∧ ap.end_hour = 23) :
    v.ap.WF ∧ (∀ x ∈ v.data, v.ap.Pred x.1) ∧ ∀ x ∈ v.data, x.1 ∈ v.ap.moys := by
  have hpart := C13_validate_contains_partial ap ap.leap data v h
  obtain ⟨h1, -, -, -⟩ := validateHourly_ok ap ap.leap data v h
  obtain ⟨first, last, hfst, hlst, hmk⟩ := validateHourly_mk ap ap.leap data v h
  rw [hr] at h1 hmk
  have hs := sortByKey_sorted (fun p : Nat × α => p.1) data
  have hmemS : ∀ x ∈ sortByKey (fun p : Nat × α => p.1) data, x ∈ data :=
    fun x hx => (sortByKey_perm _ data).mem_iff.mp hx
  obtain ⟨⟨w1, w2, w3, w4, w5, -⟩, ⟨w6, w7, w8, w9, w10, -⟩, -⟩ := hwf
  simp only [AP.stTime, AP.endTime] at w1 w2 w3 w4 w5 w6 w7 w8 w9 w10
  obtain ⟨f0, f23⟩ := hfull
  have hleap : ∀ (l : List (Nat × α)), (∀ x ∈ l, x ∈ data) →
      (ap.leap || l.any fun p => decide (mdOf ap.leap p.1 = (2, 29))) = ap.leap := by
    intro l hl
    by_cases hL : ap.leap = true
    · rw [hL]; rfl
    · have hL' : ap.leap = false := by simpa using hL
      rw [Bool.or_eq_left_iff_imp]
      intro hany
      exfalso
      obtain ⟨x, hx, hdx⟩ := List.any_eq_true.mp hany
      have := (mdOf_spec ap.leap x.1 (hyr x (hl x hx))).2.2.2.2.2 hL'
      exact this (by simpa using hdx)
  have hmemR : ∀ x ∈ (reorder true (fun p : Nat × α => decide (p.1 < ap.endMoy + 60))
      (fun f : Nat × α => decide (doyOfMoy f.1 > ap.endTime.doy ∧ doyOfMoy f.1 < ap.stTime.doy))
      (sortByKey (fun p : Nat × α => p.1) data)).1, x ∈ data :=
    fun x hx => hmemS x ((reorder_perm _ _ _ _).mem_iff.mp hx)
  rw [hleap _ hmemR] at hmk
  rw [f0, f23] at hmk
  simp only [Bool.true_eq_false, false_and, if_false, ne_eq, not_true_eq_false, and_false] at hmk
  have hEnd : ap.endMoy + 60 = (daysBefore ap.leap ap.end_month + ap.end_day) * 1440 := by
    simp only [AP.endMoy, AP.endTime, moy_of_fields, f23]; omega
  have hSt : ap.stMoy = (daysBefore ap.leap ap.st_month + ap.st_day - 1) * 1440 := by
    simp only [AP.stMoy, AP.stTime, moy_of_fields, f0]; omega
  have hrevm : ap.endMoy < ap.stMoy := by
    unfold AP.isReversed at hr
    simp only [decide_eq_true_eq] at hr
    simp only [AP.stMoy, AP.endMoy, DT.moy, AP.stTime, AP.endTime] at hr ⊢
    omega
  cases hgap : (reorder true (fun p : Nat × α => decide (p.1 < ap.endMoy + 60))
      (fun f : Nat × α => decide (doyOfMoy f.1 > ap.endTime.doy ∧ doyOfMoy f.1 < ap.stTime.doy))
      (sortByKey (fun p : Nat × α => p.1) data)).2
  · -- the period is kept
    rw [hgap] at hmk
    simp only [Bool.false_eq_true, if_false] at hmk
    have hwf' := AP.C04_mk_wf _ _ _ _ _ _ _ _ _ hmk
    obtain ⟨hWF, hlp, hsm, hsd, hsh, hem, heh, -, hed⟩ := hwf'
    have e1 : v.ap.st_month = ap.st_month := by simp only [AP.orD] at hsm; split at hsm <;> omega
    have e2 : v.ap.st_day = ap.st_day := by simp only [AP.orD] at hsd; split at hsd <;> omega
    have e3 : v.ap.end_month = ap.end_month := by simp only [AP.orD] at hem; split at hem <;> omega
    have e5 : v.ap.st_hour = 0 := by simp only [AP.orD] at hsh; split at hsh <;> omega
    have e6 : v.ap.end_hour = 23 := by simp only [Option.getD] at heh; omega
    have e4 : v.ap.end_day = ap.end_day := by
      rcases hed with hed | ⟨hlt, heq⟩
      · simp only [AP.orD] at hed; split at hed <;> omega
      · exfalso
        simp only [AP.orD] at hlt
        rw [e3] at heq
        split at hlt <;> omega
    have hrot : (reorder true (fun p : Nat × α => decide (p.1 < ap.endMoy + 60))
        (fun f : Nat × α => decide (doyOfMoy f.1 > ap.endTime.doy ∧ doyOfMoy f.1 < ap.stTime.doy))
        (sortByKey (fun p : Nat × α => p.1) data)).1 =
        rotateAfterLast (fun p : Nat × α => decide (p.1 < ap.endMoy + 60))
          (sortByKey (fun p : Nat × α => p.1) data) := by
      exact reorder_rev_nogap _ _ _ hgap
    obtain ⟨pre, rest, q1, q2, q3, q4⟩ := rotateAfterLast_split
      (fun p : Nat × α => decide (p.1 < ap.endMoy + 60)) (sortByKey (fun p : Nat × α => p.1) data)
    have hgapOf : gapOf (fun f : Nat × α => decide (doyOfMoy f.1 > ap.endTime.doy ∧ doyOfMoy f.1 < ap.stTime.doy))
        (rest ++ pre) = false := by
      simp only [reorder, Bool.true_and, if_true] at hgap
      rw [q2] at hgap
      exact hgap
    have hpre : ∀ x ∈ pre, x.1 < ap.endMoy + 60 := by
      intro x hx
      rcases q4 with rfl | ⟨y, hy, hpy⟩
      · simp at hx
      · have := le_getLast_of_sorted (fun p : Nat × α => p.1) pre rest (q1 ▸ hs) y hy x hx
        simp at hpy
        omega
    have hrest : ∀ x ∈ rest, ap.stMoy ≤ x.1 := by
      intro x hx
      cases hrl : rest with
      | nil => rw [hrl] at hx; simp at hx
      | cons r0 rt =>
        rw [hrl] at hgapOf hx q3
        simp only [gapOf, List.cons_append, List.head?_cons] at hgapOf
        have hr0 : ap.endMoy + 60 ≤ r0.1 := by
          have := q3 r0 (by simp)
          simp at this; exact this
        have hsr : (r0 :: rt).Pairwise (fun a b => a.1 ≤ b.1) := by
          rw [← hrl]; exact (List.pairwise_append.mp (q1 ▸ hs)).2.1
        have hr0x : r0.1 ≤ x.1 := by
          rcases List.mem_cons.mp hx with rfl | hx'
          · exact Nat.le_refl _
          · exact (List.pairwise_cons.mp hsr).1 x hx'
        simp only [doyOfMoy, AP.endTime, AP.stTime, doy_of_fields] at hgapOf
        have hgo := of_decide_eq_false hgapOf
        omega
    have hpred : ∀ x ∈ v.data, v.ap.Pred x.1 := by
      intro x hx
      obtain ⟨p1, -, -⟩ := hpart x hx
      rw [h1, hrot, q2] at hx
      have hxS : x ∈ sortByKey (fun p : Nat × α => p.1) data := by
        rw [q1]
        rcases List.mem_append.mp hx with hx' | hx'
        · exact List.mem_append_right _ hx'
        · exact List.mem_append_left _ hx'
      have hxy := hyr x (hmemS x hxS)
      have hst' : v.ap.stMoy = ap.stMoy := by
        simp only [AP.stMoy, AP.stTime, moy_of_fields, e1, e2, e5, hlp, f0]
      have hen' : v.ap.endMoy = ap.endMoy := by
        simp only [AP.endMoy, AP.endTime, moy_of_fields, e3, e4, e6, hlp, f23]
      unfold AP.Pred
      refine ⟨by rw [hlp]; exact hxy, p1, ?_, ?_⟩
      · unfold AP.inWindow
        rw [if_pos (by omega)]
        right; exact ⟨e5, e6⟩
      · right
        rw [hst', hen']
        refine ⟨hrevm, ?_⟩
        rcases List.mem_append.mp hx with hx | hx
        · left; exact hrest x hx
        · right; exact hpre x hx
    refine ⟨hWF, hpred, ?_⟩
    intro x hx
    exact (AP.C04_mem_moys v.ap hWF x.1).mpr (hpred x hx)
  · -- the period is made annual
    rw [hgap] at hmk
    simp only [if_true] at hmk
    have hwf' := AP.C04_mk_wf _ _ _ _ _ _ _ _ _ hmk
    obtain ⟨hWF, hlp, hsm, hsd, hsh, hem, heh, -, hed⟩ := hwf'
    have e1 : v.ap.st_month = 1 := by simp only [AP.orD] at hsm; split at hsm <;> omega
    have e2 : v.ap.st_day = 1 := by simp only [AP.orD] at hsd; split at hsd <;> omega
    have e3 : v.ap.end_month = 12 := by simp only [AP.orD] at hem; split at hem <;> omega
    have e5 : v.ap.st_hour = 0 := by simp only [AP.orD] at hsh; split at hsh <;> omega
    have e6 : v.ap.end_hour = 23 := by simp only [Option.getD] at heh; omega
    have e4 : v.ap.end_day = 31 := by
      rcases hed with hed | ⟨hlt, heq⟩
      · simp only [AP.orD] at hed; split at hed <;> omega
      · exfalso
        simp only [AP.orD] at hlt
        rw [e3] at heq
        have : monthLen ap.leap 12 = 31 := by cases ap.leap <;> rfl
        split at hlt <;> omega
    have hpred : ∀ x ∈ v.data, v.ap.Pred x.1 := by
      intro x hx
      obtain ⟨p1, -, -⟩ := hpart x hx
      rw [h1] at hx
      have hxy := hyr x (hmemR x hx)
      unfold AP.Pred
      refine ⟨by rw [hlp]; exact hxy, p1, ?_, ?_⟩
      · unfold AP.inWindow
        rw [if_pos (by omega)]
        right; exact ⟨e5, e6⟩
      · left
        simp only [AP.stMoy, AP.endMoy, AP.stTime, AP.endTime, moy_of_fields, e1, e2, e3, e4, e5, e6, hlp]
        unfold minutesInYear at hxy
        cases hL : ap.leap <;> rw [hL] at hxy <;> simp [daysBefore, monthLens, daysInYear] at hxy ⊢ <;> omega
    refine ⟨hWF, hpred, ?_⟩
    intro x hx
    exact (AP.C04_mem_moys v.ap hWF x.1).mpr (hpred x hx)

#guard (validateHourly ⟨12, 30, 0, 1, 2, 23, 2, false⟩ false [(2 * 1440 - 30, 1), (363 * 1440, 2), (60, 3)]).toOption.map
  (fun v => (v.ap, v.data, v.data.map fun p => v.ap.includesMoy p.1)) =
  some (⟨12, 30, 0, 1, 2, 23, 2, false⟩, [(363 * 1440, 2), (60, 3), (2 * 1440 - 30, 1)], [true, true, true])

-- the recorded finding: the window of the output period closes at 19:00, the datum is at 19:45
#guard (validateHourly ⟨6, 21, 0, 6, 21, 12, 4, false⟩ false [(246840, 1), (247425, 2)]).toOption.map
  (fun v => (v.ap, v.ap.includesMoy 247425)) = some (⟨6, 21, 0, 6, 21, 19, 4, false⟩, false)

/-- **Recorded finding (counterexample to full containment)**: under the header 6/21 0..12 @4 a value
    at 19:45 yields the period 6/21 0..19 @4; 19:45 (minute 247425 of the year) is on its grid and
    within its hours, but is not a step of it (`AP.Pred` fails: the window closes at 19:00). -/
theorem C13_validate_contains_counterexample :
    247425 % (⟨6, 21, 0, 6, 21, 19, 4, false⟩ : AP).step = 0 ∧ hourOfMoy 247425 = 19 ∧
    ¬ (⟨6, 21, 0, 6, 21, 19, 4, false⟩ : AP).Pred 247425 := by decide

/-- **Recorded finding (wrapping header with an hour window)**: under the header 12/30 – 1/2 0..12
    the values at 2 Jan 15:00 and 1 Jun 00:00 yield the period 12/30 – 1/2 0..15 (evaluated below);
    1 Jun 00:00 (minute 217440 of the year) is not a step of it. -/
theorem C13_validate_wrapping_window_counterexample :
    ¬ (⟨12, 30, 0, 1, 2, 15, 1, false⟩ : AP).Pred 217440 := by decide

#guard (validateHourly ⟨12, 30, 0, 1, 2, 12, 1, false⟩ false [(2340, 1), (217440, 2)]).toOption.map (·.ap)
  = some ⟨12, 30, 0, 1, 2, 15, 1, false⟩

/-! ### Culling -/

/-- **Culling keeps exactly the steps on the coarser grid**: a datum is kept iff its minute of the
    year is a multiple of `60 / timestep`; the kept data are a sublist of the input (order and
    multiplicity preserved); the header period is the old one with the new timestep. -/
theorem C13_cull {α : Type} (ap : AP) (ts : Nat) (data : List (Nat × α)) (v : Validated (Nat × α))
    (h : cull ap ts data = .ok v) (hts : ts ≠ 0) :
    v.data = data.filter (fun p => p.1 % (60 / ts) = 0) ∧ v.data.Sublist data ∧
    (∀ p, p ∈ v.data ↔ p ∈ data ∧ p.1 % (60 / ts) = 0) ∧
    v.ap.timestep = ts ∧ ts ∈ Gen.Ap.validTimesteps := by
  unfold cull at h
  split at h
  next hv =>
    dsimp only at h
    split at h
    next => cases h
    next =>
      split at h
      next => cases h
      next nap hn =>
        injection h with h
        subst h
        unfold liftAP at hn
        split at hn
        next a ha =>
          injection hn with hn
          subst hn
          have hwf := AP.C04_mk_wf _ _ _ _ _ _ _ _ _ ha
          obtain ⟨-, -, -, -, -, -, -, hts', -⟩ := hwf
          refine ⟨rfl, List.filter_sublist, ?_, ?_, hv⟩
          · intro p; simp [List.mem_filter]
          · show a.timestep = ts
            simp only [AP.orD] at hts'; split at hts' <;> omega
        next => cases hn
  next => cases h

/-- **Culling a continuous collection**: the same holds when the source is continuous – the kept
    pairs are exactly the (step, value) pairs of the period whose minute of the year is a multiple of
    `60 / timestep`, in order – for every target timestep, whether or not it divides the current
    one (6 → 4 keeps :00 and :30 only; there is no "every n-th item" shortcut). -/
theorem C13_cull_continuous {α : Type} (ap : AP) (ts : Nat) (vals : List α) (v : Validated (Nat × α))
    (h : cullContinuous ap ts vals = .ok v) (hts : ts ≠ 0) :
    v.data = (ap.moys.zip vals).filter (fun p => p.1 % (60 / ts) = 0) ∧
    (∀ p, p ∈ v.data ↔ p ∈ ap.moys.zip vals ∧ p.1 % (60 / ts) = 0) ∧ v.ap.timestep = ts := by
  obtain ⟨h1, -, h3, h4, -⟩ := C13_cull ap ts (ap.moys.zip vals) v h hts
  exact ⟨h1, h3, h4⟩

#guard (cullContinuous ⟨7, 14, 0, 7, 14, 23, 6, false⟩ 4 (List.range 144)).toOption.map
  (fun v => (v.data.length, v.data.all fun p => p.1 % 15 = 0)) = some (48, true)

#guard (cull ⟨6, 21, 0, 6, 21, 23, 4, false⟩ 2 [(246240, 1), (246255, 2), (246270, 3), (246300, 4)]).toOption.map
  (fun v => (v.ap.timestep, v.data)) = some (2, [(246240, 1), (246270, 3), (246300, 4)])

/-! ### Hole filling -/

/-- **Hole filling** (partial).  For a validated collection (flag set) whose data are `data` in
    collection order, `interpolate_holes` returns – whenever it returns – a list that
    * has one value per step of the period (`length = len(period)`, and the period has the hour
      window 0..23),
    * starts with copies of the first source value (leading hole), ends with copies of the last
      source value (trailing hole),
    * and in between consists of one block per source value, in order: the block ends with the
      source value itself, and every filled value before it lies between the previous source value
      and this one (`Filled`; the first block has no filled values when the data start on their
      own step).
    Missing for the full statement: that each source value lands on *its own* step of the period
    (i.e. that the block lengths equal the hole lengths).  This depends on the period's steps being
    equally spaced through the year end and is compared with the code / checked by the oracle on
    every run, not proved. -/
theorem C13_holes_partial (ap : AP) (data : List (Nat × Rat)) (r : List Rat)
    (h : interpolateHoles ap true data = .ok r) :
    r.length = ap.len ∧ ap.st_hour = 0 ∧ ap.end_hour = 23 ∧
    ∃ (lead k : Nat) (mid : List Rat) (m0 : Nat) (v0 : Rat) (ml : Nat) (vl : Rat),
      data.head? = some (m0, v0) ∧ data.getLast? = some (ml, vl) ∧
      r = List.replicate lead v0 ++ mid ++ List.replicate k vl ∧ Filled vl data mid := by
  obtain ⟨lead, k, mid, m0, v0, ml, vl, h1, h2, h3, h4, h5, h6, h7⟩ := interpolateHoles_ok ap data r h
  exact ⟨h5, h6, h7, lead, k, mid, m0, v0, ml, vl, h1, h2, h3, h4⟩

/-- **Hole filling at full strength.**  `ap` any well-formed period with the hour window 0..23 –
    wrapping the year end or not, any timestep, leap or not.  The collection holds the values
    `p.2` at the step numbers `p.1` of the period (`idx`: any non-empty strictly increasing
    selection of steps, i.e. any validated collection of that period; `dataOf ap idx` are its
    (datetime, value) pairs).  Then `interpolate_holes` succeeds and its result `r`
    * has one value per step of the period (`r.length = len(period)`),
    * equals the source at every source step (`r[p.1] = p.2`),
    * copies the first source value over a leading hole and the last one over a trailing hole,
    * and at every step strictly between two consecutive source steps holds a value between the
      two neighbouring source values.
    Values are rationals (any ordered field would do); the year-end case is the one the repaired
    modulo arithmetic (fixes/C13_interpolate_holes_year_wrap.patch) makes work. -/
theorem C13_holes (ap : AP) (hwf : ap.WF) (h0 : ap.st_hour = 0) (h23 : ap.end_hour = 23)
    (idx : List (Nat × Rat)) (hinc : (idx.map (·.1)).Pairwise (· < ·))
    (hlt : ∀ p ∈ idx, p.1 < ap.len) (first last : Nat × Rat)
    (hfirst : idx.head? = some first) (hlast : idx.getLast? = some last) :
    ∃ r, interpolateHoles ap true (dataOf ap idx) = .ok r ∧ r.length = ap.len ∧
      (∀ p ∈ idx, r[p.1]? = some p.2) ∧
      (∀ k, k < first.1 → r[k]? = some first.2) ∧
      (∀ k, last.1 < k → k < ap.len → r[k]? = some last.2) ∧
      (∀ q ∈ idx.zip idx.tail, ∀ k, q.1.1 < k → k < q.2.1 →
        ∃ x, r[k]? = some x ∧ min q.1.2 q.2.2 ≤ x ∧ x ≤ max q.1.2 q.2.2) :=
  holes_full ap hwf h0 h23 idx hinc (fun p hp => by rw [← AP.C04_len ap hwf]; exact hlt p hp)
    first last hfirst hlast

/-- **The steps of a whole-day period are equally spaced** (what `C13_holes` rests on, from the C04
    theorems): step number `i` is `(start + i · step) mod year`, through the year end as well. -/
theorem C13_period_steps_equally_spaced (ap : AP) (hwf : ap.WF) (h0 : ap.st_hour = 0)
    (h23 : ap.end_hour = 23) (i : Nat) (hi : i < ap.moys.length) :
    ap.moys[i]? = some ((ap.stMoy + i * ap.step) % minutesInYear ap.leap) :=
  (moys_grid ap hwf h0 h23).2.2.2.1 i hi

-- `dataOf`: steps 22 (31 Dec 22:00) and 26 (1 Jan 02:00) of the period 12/31 – 1/1
#guard dataOf ⟨12, 31, 0, 1, 1, 23, 1, false⟩ [(22, 10), (26, 40)] = [(364 * 1440 + 1320, 10), (120, 40)]

/-- **Filled values lie between their neighbours** (the fact behind `Filled`): every value of
    `_xxrange(a, b, n)` is between `a` and `b`, in any ordered field of values (here `Rat`). -/
theorem C13_holes_between (a b : Rat) (n : Nat) (x : Rat) (hx : x ∈ xxrange a b n) :
    min a b ≤ x ∧ x ≤ max a b := xxrange_between a b n x hx

/-- **Un-validated collections are refused.** -/
theorem C13_holes_needs_validation (ap : AP) (data : List (Nat × Rat)) :
    interpolateHoles ap false data = .error .assert := by
  simp [interpolateHoles]

-- evaluated examples: data from the period start with an interior hole (the repaired defect), a
-- leading and a trailing hole, a hole through the year end
#guard interpolateHoles ⟨1, 1, 0, 1, 1, 23, 1, false⟩ true [(0, 0), (60, 10), (240, 40), (300, 50), (1380, 230)]
  = .ok ((List.range 24).map fun (i : Nat) => ((10 * i : Nat) : Rat))
#guard interpolateHoles ⟨12, 31, 0, 1, 1, 23, 1, false⟩ true [(364 * 1440 + 1320, 10), (120, 40)]
  = .ok (List.replicate 22 10 ++ [10, 35/2, 25, 65/2, 40] ++ List.replicate 21 40)

/-! ### Interpolation to a finer timestep -/

/-- **What `interpolate_to_timestep` returns**: the target must be a multiple of the current
    timestep; the values are `refine vals r divide shift` with `r = target / current`, `divide` for
    cumulative data (argument, or data type default) and `shift` for data that are not
    point-in-time; the period is the old one rebuilt with the target timestep and the number of
    values is its length. -/
theorem C13_interp_result (ap : AP) (vals : List Rat) (ts : Nat) (cum : Option Bool) (nc pit : Bool)
    (nap : AP) (out : List Rat) (h : interpolateToTimestep ap vals ts cum nc pit = .ok (nap, out)) :
    ts % ap.timestep = 0 ∧
    out = refine vals (ts / ap.timestep) (decide (cum = some true ∨ (cum = none ∧ nc = true))) (!pit) ∧
    out.length = nap.len ∧ out.length = vals.length * (ts / ap.timestep) := by
  obtain ⟨h1, h2, h3, -⟩ := interpolateToTimestep_ok ap vals ts cum nc pit nap out h
  refine ⟨h1, h2, h3, ?_⟩
  rw [h2, length_refine]

/-- **Point-in-time data keep their values at the original steps**: `new[k·r] = old[k]` for every
    source index `k`, every ratio `r ≥ 1`, every value list. -/
theorem C13_interp_point (vals : List Rat) (r : Nat) (hr : 0 < r) (k : Nat) (hk : k < vals.length) :
    (refine vals r false false)[k * r]? = vals[k]? :=
  refine_point vals r hr k hk

/-- **Cumulative data keep their total**: `Σ new = Σ old` over the rationals, with or without the
    half-step rotation, for every ratio `r ≥ 1` (the cyclic sum of the differences telescopes to 0). -/
theorem C13_interp_total (vals : List Rat) (r : Nat) (hr : 0 < r) (shift : Bool) :
    (refine vals r true shift).sum = vals.sum := by
  rw [sum_refine vals r hr]; rfl

/-- **Averaged data keep their mean**: `Σ new = r · Σ old` with `r · len(old)` new values, hence
    `mean new = mean old` (for a non-empty collection), with or without the half-step rotation. -/
theorem C13_interp_mean (vals : List Rat) (r : Nat) (hr : 0 < r) (shift : Bool) (hne : vals ≠ []) :
    (refine vals r false shift).sum / ((refine vals r false shift).length : Rat) =
      vals.sum / (vals.length : Rat) := by
  rw [sum_refine vals r hr, length_refine]
  simp only [Bool.false_eq_true, if_false]
  have h1 : (vals.length : Rat) ≠ 0 := by
    have : vals.length ≠ 0 := by intro h0; exact hne (List.length_eq_zero_iff.mp h0)
    exact_mod_cast this
  have h2 : (r : Rat) ≠ 0 := by exact_mod_cast (by omega : r ≠ 0)
  push_cast
  field_simp

#guard refine [0, 60, 120] 2 true true = [30, 0, 15, 30, 45, 60]
#guard (refine [0, 60, 120] 2 true true).sum = 180
#guard interpolateToTimestep ⟨1, 1, 0, 1, 1, 23, 2, false⟩ (List.replicate 48 4) 4 none true false
  = .ok (⟨1, 1, 0, 1, 1, 23, 4, false⟩, List.replicate 96 2)

/-! ### Time aggregation and rate of change -/

/-- **The rate of change of the aggregated data is the data**: dividing by `factor / timestep` undoes
    multiplying by it (factor and timestep non-zero). -/
theorem C13_rate_of_aggregated (factor ts v : Rat) (hf : factor ≠ 0) (ht : ts ≠ 0) :
    timeRate factor ts (timeAggregated factor ts v) = v := by
  unfold timeRate timeAggregated
  field_simp


/-! ### Monthly validation: the output period contains every month (round 3 upgrade) -/

/-- **Monthly validation, containment** (non-wrapping headers, annual included): for months in
    1..12, every month of the validated collection lies between the start month and the end month of
    the OUTPUT period (the header's months, widened to the smallest / largest month of the data).
    Wrapping headers: compared + oracle only (the rotation / make-annual logic is the same as for the
    hourly class, `C13_validate_hourly_rotated`). -/
theorem C13_validate_monthly_contains {α : Type} (ap : AP) (data : List (Nat × α))
    (v : Validated (Nat × α)) (h : validateMonthly ap data = .ok v) (hf : ap.isReversed = false)
    (hm : ∀ p ∈ data, 1 ≤ p.1 ∧ p.1 ≤ 12) (hap : 1 ≤ ap.st_month ∧ ap.end_month ≤ 12) :
    ∀ p ∈ v.data, v.ap.st_month ≤ p.1 ∧ p.1 ≤ v.ap.end_month := by
  have hs := sortByKey_sorted (fun p : Nat × α => p.1) data
  have hperm := sortByKey_perm (fun p : Nat × α => p.1) data
  unfold validateMonthly at h
  dsimp only at h
  rw [hf, reorder_fwd] at h
  simp only [reorder, Bool.false_and, Bool.false_eq_true, if_false] at h
  split at h
  next first last hfi hla =>
    split at h
    next => cases h
    next hd =>
      split at h
      next => cases h
      next nap hn =>
        injection h with h
        subst h
        unfold liftAP at hn
        split at hn
        next a ha =>
          injection hn with hn
          subst hn
          obtain ⟨-, -, hst, -, -, hen, -, -, -⟩ := AP.C04_mk_wf _ _ _ _ _ _ _ _ _ ha
          intro p hp
          show a.st_month ≤ p.1 ∧ p.1 ≤ a.end_month
          have hp : p ∈ sortByKey (fun p : Nat × α => p.1) data := hp
          have hpd : p ∈ data := hperm.mem_iff.mp hp
          obtain ⟨hp1, hp12⟩ := hm p hpd
          have hfirst : first.1 ≤ p.1 := head_le_of_sorted (fun p : Nat × α => p.1) _ hs first hfi p hp
          have hlast : p.1 ≤ last.1 := by
            have := le_getLast_of_sorted (fun p : Nat × α => p.1) (sortByKey (fun p : Nat × α => p.1) data) []
              (by simpa using hs) last hla p hp
            exact this
          have hf1 : 1 ≤ first.1 := (hm first (hperm.mem_iff.mp (List.mem_of_mem_head? hfi))).1
          have hl12 : last.1 ≤ 12 := (hm last (hperm.mem_iff.mp (List.mem_of_mem_getLast? hla))).2
          simp only [AP.orD] at hst hen
          by_cases hann : ap.isAnnual = true
          · have h1 : ap.st_month = 1 ∧ ap.end_month = 12 := by
              simp only [AP.isAnnual, Bool.and_eq_true, beq_iff_eq] at hann
              exact ⟨hann.1.1.1.1.1, hann.1.1.2⟩
            simp only [hann] at hst hen
            simp at hst hen
            constructor
            · split_ifs at hst <;> omega
            · split_ifs at hen <;> omega
          · have hann' : ap.isAnnual = false := by simpa using hann
            simp only [hann'] at hst hen
            simp at hst hen
            constructor
            · split_ifs at hst <;> omega
            · split_ifs at hen <;> omega
        next => cases hn
  next => cases h

-- non-vacuity (evaluated: merge sort does not reduce in the kernel)
#guard (validateMonthly ⟨3, 1, 0, 6, 30, 23, 1, false⟩ [(7, 1), (2, 2), (4, 3)]).toOption.map
    (fun v => (v.ap.st_month, v.ap.end_month, v.data.map (·.1))) = some (2, 7, [2, 4, 7])

/-! ### Histories on one object (round 3; machine: Model/ResampleObj.lean) -/

/-- **After every history an object answers like a fresh one**: run any list of operations `h` on
    one object `o` (reads, refused and successful in-place operations, derived collections adopted or
    not).  Then every further operation gets the answer – and leaves the public state – that a FRESH
    object showing the same public state (class, mutability, period, values, datetimes, flag) gets.
    Nothing the history did, in particular whether and when the `datetimes` slot of a continuous
    collection was filled, can be observed. -/
theorem C13_history_refines_fresh (o : Obj) (h : List Op) (op : Op) :
    (step (run o h).1 op).2 = (step (run o h).1.pub.fresh op).2 ∧
    (step (run o h).1 op).1.pub = (step (run o h).1.pub.fresh op).1.pub :=
  step_congr _ _ (pub_fresh _).symm op

/-- **The whole history is that of the slot-free specification machine** `runPub`, whose state is
    the public state alone: same answers step by step, same final public state. -/
theorem C13_history_slot_free (o : Obj) (ops : List Op) :
    (run o ops).2 = (runPub o.pub ops).2 ∧ (run o ops).1.pub = (runPub o.pub ops).1 :=
  run_runPub ops o

/-- **A refused operation leaves every observation unchanged**: when a step answers `refused e`
    (the code raises), the stored object – slot included – is the one before the step. -/
theorem C13_refused_preserves (o : Obj) (op : Op) (e : OErr) (h : (step o op).2 = .refused e) :
    (step o op).1 = o ∧ (step o op).1.pub = o.pub := by
  have := step_refused o op e h
  exact ⟨this, by rw [this]⟩

/-- **Reads are pure**: a read (of the values, the period, the flag, or of `datetimes`, which fills
    the slot) answers `done`, leaves the public state as it is, and every history that follows gets
    the same answers and ends in the same public state as without the read.  Hence reads commute
    with each other and may be repeated. -/
theorem C13_read_pure (o : Obj) (fill : Bool) (ops : List Op) :
    (step o (.read fill)).2 = .done ∧ (step o (.read fill)).1.pub = o.pub ∧
    (run (step o (.read fill)).1 ops).2 = (run o ops).2 ∧
    (run (step o (.read fill)).1 ops).1.pub = (run o ops).1.pub := by
  have hp : (step o (.read fill)).1.pub = o.pub := by cases fill <;> simp [step, fill_pub]
  exact ⟨by simp [step], hp, (run_congr ops _ _ hp).1, (run_congr ops _ _ hp).2⟩

/-- **Validation does not look at the validated flag**: a discontinuous collection is sorted and
    its period repaired whatever the flag says (the flag may come from `cull_to_timestep`, from a
    dictionary, from a copy – none of which sorts). -/
theorem C13_validate_ignores_flag (p : Pub) (b : Bool) (hc : p.cont = false) :
    validateP { p with validated := b } = validateP p := by
  simp [validateP, hc, Pub.pairs, mkDisc]

/-- **Validation after any history returns the pairs the object holds then**: whatever was done to
    a discontinuous collection before, when `validate_analysis_period()` answers a collection `r`, its
    (datetime, value) pairs are a permutation of the current pairs of the object, it is flagged as
    validated, discontinuous and mutable.  (Order and containment of `r`: the `C13_validate_hourly_*`
    theorems applied to the current pairs.) -/
theorem C13_validate_after_history (o : Obj) (h : List Op) (adopt : Bool) (r : Pub)
    (hc : (run o h).1.cont = false)
    (hr : (step (run o h).1 (.validate adopt)).2 = .result r) :
    r.pairs.Perm (run o h).1.pub.pairs ∧ r.validated = true ∧ r.cont = false ∧ r.imm = false ∧
    ∃ v, validateHourly (run o h).1.ap (run o h).1.ap.leap (run o h).1.pub.pairs = .ok v ∧
      r.pairs = v.data ∧ r.ap = v.ap := by
  generalize (run o h).1 = c at hc hr
  have hc' : c.pub.cont = false := hc
  simp only [step, validateP, hc'] at hr
  simp only [Bool.false_eq_true, if_false] at hr
  split at hr
  · simp [derive] at hr
  · split at hr
    · simp [derive] at hr
    · next v hv =>
      unfold mkDisc at hr
      split at hr
      · simp [derive] at hr
      · split at hr
        · simp [derive] at hr
        · simp only [derive] at hr
          injection hr with hr
          subst hr
          have hz : (Obj.pub ⟨false, false, v.ap, v.data.map (·.2), some (v.data.map (·.1)), true,
              c.pub.nativeCum, c.pub.pit⟩).pairs = v.data := by
            simp [Obj.pub, Obj.moys, Pub.pairs, zip_map_fst_snd]
          refine ⟨?_, rfl, rfl, rfl, v, hv, hz, rfl⟩
          rw [hz]
          exact C13_validate_hourly_perm _ _ _ v hv

/-- **The in-place cull keeps exactly the pairs on the coarser grid**: when
    `convert_to_culled_timestep(ts)` is not refused, the object afterwards holds the pairs it held
    whose minute of the year is a multiple of `60 / ts`, in order, under the old period with
    timestep `ts`; class, mutability and flag are unchanged.  (When it is refused:
    `C13_refused_preserves`.) -/
theorem C13_convert_cull_in_place (o : Obj) (ts : Nat) (h : (step o (.convCull ts)).2 = .done) :
    (step o (.convCull ts)).1.pub.pairs = o.pub.pairs.filter (fun q => q.1 % (60 / ts) = 0) ∧
    (step o (.convCull ts)).1.ap.timestep = ts ∧ ts ∈ Gen.Ap.validTimesteps ∧
    (step o (.convCull ts)).1.validated = o.validated ∧ (step o (.convCull ts)).1.cont = o.cont ∧
    o.imm = false := by
  simp only [step] at h ⊢
  cases hcv : convCullP o.pub ts with
  | error e => rw [hcv] at h; simp at h
  | ok r =>
    simp only []
    unfold convCullP convCullWith at hcv
    split at hcv
    · cases hcv
    · next himm =>
      split at hcv
      · next hv =>
        split at hcv
        · cases hcv
        · split at hcv
          · cases hcv
          · next nap hn =>
            injection hcv with hcv
            subst hcv
            unfold liftAP at hn
            split at hn
            · next a ha =>
              injection hn with hn
              subst hn
              have hwf := AP.C04_mk_wf _ _ _ _ _ _ _ _ _ ha
              obtain ⟨-, -, -, -, -, -, -, hts', -⟩ := hwf
              have hts0 : ts ≠ 0 := by
                intro h0; subst h0; revert hv; decide
              refine ⟨?_, ?_, hv, ?_, ?_, ?_⟩
              · simp [Obj.pub, Obj.moys, Pub.pairs, zip_map_fst_snd]
              · show a.timestep = ts
                simp only [AP.orD] at hts'; split at hts' <;> omega
              · trivial
              · trivial
              · simpa [Obj.pub] using himm
            · cases hn
      · cases hcv

/-- Non-vacuity of `C13_validate_after_history` / `C13_refused_preserves`: an object and a history
    for which the hypotheses hold (evaluated by `#guard`: merge sort does not reduce in the kernel). -/
def exObj : Obj := ⟨false, false, ⟨6, 21, 0, 6, 21, 23, 1, false⟩, [3, 1, 2], some [247560, 246960, 248040],
  false, false, true⟩

-- "cull (sets the flag, does not sort) – validate – read" on unsorted data ends with the sorted pairs
#guard (run exObj [.cull 1 true, .validate true, .read true]).1.pub.pairs = [(246960, 1), (247560, 3), (248040, 2)]
#guard (run exObj [.cull 1 true]).1.validated = true ∧ (run exObj [.cull 1 true]).1.cont = false
#guard (match (step (run exObj [.cull 1 true]).1 (.validate false)).2 with | .result r => r.validated | _ => false)
-- a refused in-place cull and a refused assignment
#guard (step exObj (.convCull 7)).2 = .refused .assert ∧ (step exObj (.setValues (some [1]))).2 = .refused .assert

example (e : OErr) (h : (step exObj (.convCull 7)).2 = .refused e) : (step exObj (.convCull 7)).1 = exObj :=
  (C13_refused_preserves exObj _ e h).1

/-- A continuous 10-minute collection over one day (144 values). -/
def exCont6 : Obj := ⟨true, false, ⟨7, 14, 0, 7, 14, 23, 6, false⟩, (List.range 144).map (fun (k : Nat) => (k : Rat)), none,
  true, false, true⟩

-- a dividing in-place cull of a continuous collection (6 -> 2) keeps :00 and :30, whatever the strictness
example : ((step exCont6 (.convCull 2)).1.pub.pairs.take 3) = [(194 * 1440, 0), (194 * 1440 + 30, 3), (194 * 1440 + 60, 6)] := by
  decide +kernel

/-! ### Sibling classes and branches (round 4) -/

/-- **The mutable and the immutable twin get the same derived collections**: `cull_to_timestep`,
    `interpolate_to_timestep`, and – for discontinuous collections – `validate_analysis_period` and
    `interpolate_holes` answer the same collection whether the source is mutable or immutable (the
    answer is a new mutable collection in every case). -/
theorem C13_twins_agree (p : Pub) (b : Bool) :
    (∀ ts, cullP { p with imm := b } ts = cullP p ts) ∧
    (∀ ts cum, interpP { p with imm := b } ts cum = interpP p ts cum) ∧
    (p.cont = false → validateP { p with imm := b } = validateP p ∧ holesP { p with imm := b } = holesP p) := by
  refine ⟨fun ts => ?_, fun ts cum => ?_, fun hc => ⟨?_, ?_⟩⟩
  · simp [cullP, Pub.pairs, mkDisc]
  · simp [interpP, mkCont]
  · simp [validateP, hc, Pub.pairs, mkDisc]
  · simp [holesP, hc, Pub.pairs, mkCont]

/-- **A continuous collection and its copies**: validation and hole filling of a continuous collection
    are the copy operation of its class (the overrides of `HourlyContinuousCollection`), so they keep
    period, values and mutability. -/
theorem C13_continuous_overrides_copy (p : Pub) (hc : p.cont = true) :
    validateP p = copyP p p.imm ∧ holesP p = copyP p p.imm := by
  simp [validateP, holesP, hc]

/-- **The `cumulative` argument overrides the data type**: when the caller passes True or False the
    cumulative flag of the data type plays no role; with the default it alone decides whether the
    refined values are divided by the number of sub-steps. -/
theorem C13_interp_cumulative_branches (ap : AP) (vals : List Rat) (ts : Nat) (b nc nc' pit : Bool) :
    interpolateToTimestep ap vals ts (some b) nc pit = interpolateToTimestep ap vals ts (some b) nc' pit ∧
    interpolateToTimestep ap vals ts none nc pit = interpolateToTimestep ap vals ts (some nc) nc' pit := by
  constructor
  · simp [interpolateToTimestep]
  · cases nc <;> simp [interpolateToTimestep]

/-- **Refining to the same timestep changes nothing** (branch `n_sub = 1`): one sub-step per step,
    division by one, shift by `int(1 / 2) = 0`. -/
theorem C13_interp_same_timestep (vals : List Rat) (divide shift : Bool) : refine vals 1 divide shift = vals := by
  have hx : ∀ a b : Rat, xxrange a b 1 = [a] := by
    intro a b; simp [xxrange, List.range_succ]
  have hraw : ((List.range vals.length).flatMap fun d =>
      xxrange (vals.getD d 0) (vals.getD ((d + 1) % vals.length) 0) 1) = vals := by
    simp only [hx]
    have hf : ∀ (l : List Nat) (f : Nat → Rat), l.flatMap (fun d => [f d]) = l.map f := by
      intro l f
      induction l with
      | nil => rfl
      | cons a t ih => simp [List.flatMap_cons, ih]
    rw [hf]
    apply List.ext_getElem
    · simp
    · intro i h1 h2
      simp at h1
      simp [List.getD_eq_getElem?_getD, h1]
  unfold refine
  simp only [hraw]
  have hdiv : (if divide = true then vals.map (· / ((1 : Nat) : Rat)) else vals) = vals := by
    cases divide <;> simp
  rw [hdiv]
  cases shift
  · rfl
  · have hc0 : Py.clampIdx vals.length 0 = 0 := by simp [Py.clampIdx]
    have hcn : Py.clampIdx vals.length (vals.length : Int) = vals.length := by simp [Py.clampIdx]
    simp [shiftRight, Py.slice, hc0, hcn]

/-! ### In-place cull of a continuous collection to a timestep that does not divide its own
    (round 4; finding C02-cont-cull-nondividing-timestep, repair
    fixes/C13_continuous_cull_in_place_divisor.patch) -/

/-- **The defect (code without the repair)**: without the divisibility assertion the in-place cull
    6 -> 4 of a coherent continuous collection is accepted and leaves 48 values (:00 and :30 of every
    hour) under a header period of 96 steps – the object is no longer coherent. -/
theorem C13_convert_cull_nondividing_counterexample :
    exCont6.Coherent ∧
    (convCullWith false exCont6.pub 4).toOption.map (fun r => (r.2.length, r.1.len, r.2.take 3)) =
      some (48, 96, [(194 * 1440, 0), (194 * 1440 + 30, 3), (194 * 1440 + 60, 6)]) := by
  decide +kernel

/-- **The repaired behaviour**: with the divisibility assertion (`strict = true`) the in-place cull of
    a continuous collection answers only when the target timestep divides the current one; any other
    target is refused with an AssertionError (after the validity check of the timestep and after the
    AttributeError of an immutable collection), and discontinuous collections are culled as before. -/
theorem C13_convert_cull_strict (p : Pub) (ts : Nat) :
    (p.cont = true → p.imm = false → ts ∈ Gen.Ap.validTimesteps → p.ap.timestep % ts ≠ 0 →
      convCullWith true p ts = .error .assert) ∧
    (∀ r, convCullWith true p ts = .ok r → p.cont = true → p.ap.timestep % ts = 0) ∧
    (p.cont = false ∨ p.ap.timestep % ts = 0 → convCullWith true p ts = convCullWith false p ts) := by
  refine ⟨?_, ?_, ?_⟩
  · intro hc hi hv hd
    simp [convCullWith, contCullRefused, hc, hi, hv, hd]
  · intro r h hc
    by_cases hd : p.ap.timestep % ts = 0
    · exact hd
    · exfalso
      unfold convCullWith at h
      split at h
      · cases h
      · split at h
        · simp [contCullRefused, hc, hd] at h
        · cases h
  · intro h
    have h1 : contCullRefused true p ts = false := by
      rcases h with h | h <;> simp [contCullRefused, h]
    have h0 : contCullRefused false p ts = false := by simp [contCullRefused]
    unfold convCullWith
    simp only [h1, h0]

/-- **A refused in-place cull changes nothing, an accepted one is the cull of the unrepaired code**:
    the machine of the code under test (`step`, strictness read off the source) either refuses
    `convert_to_culled_timestep` and keeps the object, or does what `convCullWith false` does. -/
theorem C13_convert_cull_refines (o : Obj) (ts : Nat) :
    ((step o (.convCull ts)).2 = .done → convCullP o.pub ts = convCullWith false o.pub ts) ∧
    (∀ e, (step o (.convCull ts)).2 = .refused e → (step o (.convCull ts)).1 = o) := by
  refine ⟨?_, fun e h => (C13_refused_preserves o _ e h).1⟩
  intro h
  have h0 : contCullRefused false o.pub ts = false := by simp [contCullRefused]
  by_cases hr : contCullRefused Gen.ResampleSrc.contCullStrict o.pub ts = true
  · exfalso
    have he : ∃ e, convCullP o.pub ts = .error e := by
      unfold convCullP convCullWith
      split
      · exact ⟨_, rfl⟩
      · split
        · first | exact ⟨_, rfl⟩ | (rw [if_pos hr]; exact ⟨_, rfl⟩)
        · exact ⟨_, rfl⟩
    obtain ⟨e, he⟩ := he
    simp [step, he] at h
  · have hr' : contCullRefused Gen.ResampleSrc.contCullStrict o.pub ts = false := by simpa using hr
    unfold convCullP convCullWith
    simp only [hr', h0]

/-! #### Coherence of continuous objects along a history -/

/-- The arithmetic fact the coherence of an accepted in-place cull rests on (NOT proved here; it is
    what the `cull` / `hist` correspondence compares on every run and what the `#guard`s below
    evaluate on samples): for a coherent continuous object and a timestep that divides its own, the
    kept pairs are exactly one per step of the period with the new timestep. -/
def DividingCullFits : Prop :=
  ∀ (o : Obj) (ts : Nat) (r : AP × List (Nat × Rat)), o.Coherent → o.cont = true → o.ap.timestep % ts = 0 →
    convCullWith true o.pub ts = .ok r → r.2.length = r.1.len ∧ r.2.map (·.1) = r.1.moys

/-- **Continuous collections stay coherent along every history** (partial: rests on the hypothesis
    `DividingCullFits`, see there).  With the repaired in-place cull (`strict`: the source asserts
    divisibility) every operation of the machine – reads, derived collections adopted or not, setters,
    refused calls, copies, in-place culls – leaves a continuous object with one value per step of its
    header period and with datetimes that are the steps of that period.  Without the repair this is
    false: `C13_convert_cull_nondividing_counterexample`. -/
theorem C13_history_continuous_coherent_partial (hstrict : Gen.ResampleSrc.contCullStrict = true)
    (hfit : DividingCullFits) (o : Obj) (ho : o.Coherent) (h : List Op) : (run o h).1.Coherent := by
  induction h generalizing o with
  | nil => exact ho
  | cons op rest ih =>
    show (run (step o op).1 rest).1.Coherent
    apply ih
    cases op with
    | read fill =>
      cases fill
      · exact ho
      · simp only [step]
        intro hc
        have hc' : o.cont = true := hc
        have hco := ho hc'
        exact ⟨hco.1, by simpa [Obj.fill, Obj.moys] using hco.2⟩
    | validate adopt => exact derive_coherent o adopt _ ho (fun n hn => validateP_coherent hn)
    | cull ts adopt => exact derive_coherent o adopt _ ho (fun n hn => cullP_coherent hn)
    | holes adopt => exact derive_coherent o adopt _ ho (fun n hn => holesP_coherent hn)
    | interp ts cum adopt => exact derive_coherent o adopt _ ho (fun n hn => interpP_coherent hn)
    | toImmutable => exact derive_coherent o true _ ho (fun n hn => copyP_coherent hn)
    | toMutable => exact derive_coherent o true _ ho (fun n hn => copyP_coherent hn)
    | duplicate => exact derive_coherent o true _ ho (fun n hn => copyP_coherent hn)
    | dictRoundTrip => exact derive_coherent o true _ ho (fun n hn => copyP_coherent hn)
    | toDiscontinuous => exact derive_coherent o true _ ho (fun n hn => toDiscP_coherent hn)
    | setValues vs =>
      simp only [step]
      cases hs : setValuesP o.pub vs with
      | error e => exact ho
      | ok w =>
        intro hc
        have hc' : o.cont = true := hc
        have hco := ho hc'
        exact ⟨setValuesP_len hs hc', hco.2⟩
    | setItem i v =>
      simp only [step]
      cases hs : setItemP o.pub i v with
      | error e => exact ho
      | ok w =>
        intro hc
        have hc' : o.cont = true := hc
        have hco := ho hc'
        exact ⟨(setItemP_len hs).trans hco.1, hco.2⟩
    | convCull ts =>
      simp only [step]
      cases hcv : convCullP o.pub ts with
      | error e => exact ho
      | ok r =>
        intro hc
        have hc' : o.cont = true := hc
        unfold convCullP at hcv
        rw [hstrict] at hcv
        have hdiv : o.ap.timestep % ts = 0 := (C13_convert_cull_strict o.pub ts).2.1 r hcv hc'
        obtain ⟨h1, h2⟩ := hfit o ts r ho hc' hdiv hcv
        refine ⟨by simpa using h1, ?_⟩
        simpa [Obj.moys] using h2

-- `DividingCullFits` on samples: 6 -> 3, 6 -> 2, 6 -> 1, 12 -> 4 (wrapping, leap) keep one pair per step of the new period
#guard (convCullWith true exCont6.pub 3).toOption.map (fun r => decide (r.2.length = r.1.len ∧ r.2.map (·.1) = r.1.moys)) = some true
#guard (convCullWith true exCont6.pub 2).toOption.map (fun r => decide (r.2.length = r.1.len ∧ r.2.map (·.1) = r.1.moys)) = some true
#guard (convCullWith true exCont6.pub 1).toOption.map (fun r => decide (r.2.length = r.1.len ∧ r.2.map (·.1) = r.1.moys)) = some true
#guard (convCullWith true (Obj.pub ⟨true, false, ⟨12, 31, 0, 1, 1, 23, 12, true⟩, (List.range 576).map (fun (k : Nat) => (k : Rat)),
    none, true, false, true⟩) 4).toOption.map (fun r => decide (r.2.length = r.1.len ∧ r.2.map (·.1) = r.1.moys)) = some true

-- the repaired code refuses 6 -> 4 and 6 -> 12 on the continuous collection, accepts 6 -> 3
#guard convCullWith true exCont6.pub 4 = .error .assert
#guard convCullWith true exCont6.pub 12 = .error .assert
#guard (convCullWith true exCont6.pub 3).toOption.map (fun r => (r.1.timestep, r.2.length)) = some (3, 72)
#guard convCullWith true exCont6.pub 7 = .error .assert

/-! ### Header with the wrong leap flag (round 6)

The steps of an hourly collection carry a leap flag of their own (`dl`); the header period carries
another (`ap.leap`).  The model has no hidden year: it decides on days of the year (each side counted in
its own kind of year), exactly as the code does; a comparison through the rich ordering of the `DateTime`
objects (which carries the year 2016 / 2017) would not be a function of these numbers. -/

/-- **The leap flag of the validated period**, for every header and every leap flag of the steps:
    the output period is a leap year exactly when the header was one or a step lies on 29 Feb.  So leap
    steps with 29 Feb among them under a header that is not flagged leap give a leap period. -/
theorem C13_validate_leap_mix_flag {α : Type} (ap : AP) (dl : Bool) (data : List (Nat × α))
    (v : Validated (Nat × α)) (h : validateHourly ap dl data = .ok v) :
    v.ap.leap = (ap.leap || data.any fun p => decide (mdOf dl p.1 = (2, 29))) := by
  obtain ⟨h1, -, -, -⟩ := validateHourly_ok ap dl data v h
  obtain ⟨first, last, -, -, hmk⟩ := validateHourly_mk ap dl data v h
  have hlp := (AP.C04_mk_wf _ _ _ _ _ _ _ _ _ hmk).2.1
  have hperm := C13_validate_hourly_perm ap dl data v h
  rw [hlp, ← h1, hperm.any_eq]

/-- **Widening of a non-wrapping, non-annual header is decided on days of the year and takes the date of
    the step**, whatever the leap flags of header and steps (`dl` need not be `ap.leap`): when the day of
    the year of the earliest step is below that of the header start, the output period starts on the
    month and day of that step; when the day of the year of the latest step is above that of the header
    end, the output period ends in the month of that step, on its day. -/
theorem C13_validate_leap_mix_widens {α : Type} (ap : AP) (dl : Bool) (data : List (Nat × α))
    (v : Validated (Nat × α)) (h : validateHourly ap dl data = .ok v)
    (hf : ap.isReversed = false) (hA : ap.isAnnual = false)
    (hyr : ∀ x ∈ data, x.1 < minutesInYear dl) :
    ∃ first last,
      (sortByKey (fun p : Nat × α => p.1) data).head? = some first ∧
      (sortByKey (fun p : Nat × α => p.1) data).getLast? = some last ∧
      (doyOfMoy first.1 < ap.stTime.doy → (v.ap.st_month, v.ap.st_day) = mdOf dl first.1) ∧
      (doyOfMoy last.1 > ap.endTime.doy → v.ap.end_month = (mdOf dl last.1).1 ∧
        (v.ap.end_day = (mdOf dl last.1).2 ∨
          (v.ap.end_day < (mdOf dl last.1).2 ∧ v.ap.end_day = monthLen v.ap.leap v.ap.end_month))) := by
  obtain ⟨first, last, hfst, hlst, hmk⟩ := validateHourly_mk ap dl data v h
  have hg2 : (reorder ap.isReversed (fun p : Nat × α => decide (p.1 < ap.endMoy + 60))
      (fun f : Nat × α => decide (doyOfMoy f.1 > ap.endTime.doy ∧ doyOfMoy f.1 < ap.stTime.doy))
      (sortByKey (fun p : Nat × α => p.1) data)).2 = false := by
    rw [hf]; simp [reorder]
  rw [hg2] at hmk
  simp only [Bool.false_eq_true, if_false] at hmk
  have hmemS : ∀ x ∈ sortByKey (fun p : Nat × α => p.1) data, x ∈ data :=
    fun x hx => (sortByKey_perm _ data).mem_iff.mp hx
  have hfy := hyr first (hmemS first (List.mem_of_mem_head? hfst))
  have hly := hyr last (hmemS last (List.mem_of_mem_getLast? hlst))
  obtain ⟨m1, -, m3, -, -, -⟩ := mdOf_spec dl first.1 hfy
  obtain ⟨n1, -, n3, -, -, -⟩ := mdOf_spec dl last.1 hly
  obtain ⟨-, -, hsm, hsd, -, hem, -, -, hed⟩ := AP.C04_mk_wf _ _ _ _ _ _ _ _ _ hmk
  refine ⟨first, last, hfst, hlst, ?_, ?_⟩
  · intro c
    rw [if_pos ⟨⟨hf, hA⟩, c⟩] at hsm hsd
    simp only [AP.orD] at hsm hsd
    have e1 : v.ap.st_month = (mdOf dl first.1).1 := by split at hsm <;> omega
    have e2 : v.ap.st_day = (mdOf dl first.1).2 := by split at hsd <;> omega
    rw [e1, e2]
  · intro c
    rw [if_pos ⟨⟨hf, hA⟩, c⟩] at hem hed
    simp only [AP.orD] at hem hed
    have e3 : v.ap.end_month = (mdOf dl last.1).1 := by split at hem <;> omega
    refine ⟨e3, ?_⟩
    rcases hed with hed | ⟨hlt, heq⟩
    · left; split at hed <;> omega
    · right
      refine ⟨by split at hlt <;> omega, ?_⟩
      rw [(AP.C04_mk_wf _ _ _ _ _ _ _ _ _ hmk).2.1]
      exact heq

-- leap steps with 29 Feb under a common-year header that ends before the last step: the period becomes a leap
-- year, ends on the day of the last step (4 Jul) and contains every step
#guard (validateHourly ⟨6, 21, 0, 6, 21, 23, 1, false⟩ true
    [(((31 + 29 + 31 + 30 + 31 + 30 + 3) * 24 + 12) * 60, 4), ((59 * 24 + 12) * 60, 1),
     (((31 + 29 + 31 + 30 + 31 + 20) * 24 + 12) * 60, 2)]).toOption.map
  (fun v => (v.ap, v.data.map fun p => v.ap.includesMoy p.1)) = some (⟨2, 29, 0, 7, 4, 23, 1, true⟩, [true, true, true])
-- mirror: common-year steps under a leap header that starts after the first step
#guard (validateHourly ⟨6, 21, 0, 6, 23, 23, 1, true⟩ false
    [(((31 + 28 + 31 + 29) * 24 + 23) * 60, 1), (((31 + 28 + 31 + 30 + 31 + 21) * 24 + 12) * 60, 2)]).toOption.map
  (fun v => (v.ap.st_month, v.ap.st_day, v.ap.end_month, v.ap.end_day, v.ap.leap)) = some (4, 30, 6, 23, true)

-- the recorded finding C13-hourly-leap-mix-day-of-year evaluated: header 3/1 - 3/31 of a common year, leap steps on
-- 29 Feb 22:00 (day 60 of the leap year = day of the year of the header start, 1 Mar of a common year) and 15 Mar
#guard (validateHourly ⟨3, 1, 0, 3, 31, 23, 1, false⟩ true [(106560 + 720, 2), (86280, 1)]).toOption.map
  (fun v => (v.ap, v.data.map fun p => v.ap.includesMoy p.1)) = some (⟨3, 1, 0, 3, 31, 23, 1, true⟩, [false, true])

/-- A month of a common year is never longer than the same month of any year. -/
theorem C13_common_year_month_le (b : Bool) (m : Nat) : monthLen false m ≤ monthLen b m := by
  cases b
  · exact Nat.le_refl _
  · unfold monthLen monthLens
    rcases m with _ | _ | _ | _ | _ | _ | _ | _ | _ | _ | _ | _ | _ | _ | m <;> simp

/-- **The widened end is exactly the date of the latest step** (no clamping to the month's end), for every
    pair of leap flags: when the day of the year of the latest step is above that of the end of a
    non-wrapping, non-annual header, the output period ends on the month and day of that step. -/
theorem C13_validate_leap_mix_end {α : Type} (ap : AP) (dl : Bool) (data : List (Nat × α))
    (v : Validated (Nat × α)) (h : validateHourly ap dl data = .ok v)
    (hf : ap.isReversed = false) (hA : ap.isAnnual = false)
    (hyr : ∀ x ∈ data, x.1 < minutesInYear dl) :
    ∃ last, (sortByKey (fun p : Nat × α => p.1) data).getLast? = some last ∧
      (doyOfMoy last.1 > ap.endTime.doy → (v.ap.end_month, v.ap.end_day) = mdOf dl last.1) := by
  obtain ⟨first, last, hfst, hlst, hw1, hw2⟩ := C13_validate_leap_mix_widens ap dl data v h hf hA hyr
  refine ⟨last, hlst, ?_⟩
  intro c
  obtain ⟨e3, hd⟩ := hw2 c
  have hflag := C13_validate_leap_mix_flag ap dl data v h
  have hmemS : ∀ x ∈ sortByKey (fun p : Nat × α => p.1) data, x ∈ data :=
    fun x hx => (sortByKey_perm _ data).mem_iff.mp hx
  have hlmem : last ∈ data := hmemS last (List.mem_of_mem_getLast? hlst)
  have hly := hyr last hlmem
  obtain ⟨n1, n2, n3, n4, -, -⟩ := mdOf_spec dl last.1 hly
  -- the day of the step exists in its month of the output year
  have hle : (mdOf dl last.1).2 ≤ monthLen v.ap.leap (mdOf dl last.1).1 := by
    cases hdl : dl
    · rw [hdl] at n4
      exact Nat.le_trans n4 (C13_common_year_month_le _ _)
    · cases hvl : v.ap.leap
      · -- no step on 29 Feb, so the day also exists in the common year
        rw [hvl] at hflag
        have hany : (data.any fun p => decide (mdOf dl p.1 = (2, 29))) = false := by
          cases hx : (data.any fun p => decide (mdOf dl p.1 = (2, 29)))
          · rfl
          · rw [hx] at hflag; simp at hflag
        have hne : mdOf dl last.1 ≠ (2, 29) := by
          intro he
          have : (data.any fun p => decide (mdOf dl p.1 = (2, 29))) = true :=
            List.any_eq_true.mpr ⟨last, hlmem, by simp [he]⟩
          rw [hany] at this; cases this
        rw [hdl] at n1 n2 n3 n4 hne
        revert n4 hne n3
        generalize (mdOf true last.1) = md at n1 n2 ⊢
        obtain ⟨mm, dd⟩ := md
        simp only at n1 n2 ⊢
        unfold monthLen monthLens
        rcases mm with _ | _ | _ | _ | _ | _ | _ | _ | _ | _ | _ | _ | _ | _ | mm <;> simp <;> omega
      · rw [hdl] at n4; exact n4
  rcases hd with hd | hd
  · rw [e3, hd]
  · -- clamped: impossible, the constructor only clamps a day that does not exist in the month
    obtain ⟨hlt, heq⟩ := hd
    rw [e3] at heq
    omega

-- the daily analogue (recorded finding C13-daily-leap-mix-day-of-year): day 366 makes the period a leap year, whose
-- start 6/26 is day 178; day 177 (25 Jun) is not one of its days
#guard (validateDaily ⟨6, 26, 1, 6, 26, 22, 1, false⟩ [(177, 1), (366, 2)]).toOption.map
  (fun v => (v.ap, v.ap.stTime.doy, v.ap.doysInt.contains 177, v.ap.doysInt.contains 366)) =
  some (⟨6, 26, 1, 12, 31, 22, 1, true⟩, 178, false, true)

/-- **Recorded finding (daily collection, day 366 under a header that is not flagged leap)**: the header start
    6/26 is day 177 when counted in the common year of the header, so day 177 does not move the start; the
    output period is a leap year (day 366), where 6/26 is day 178: day 177 is not among its days. -/
theorem C13_validate_daily_leap_mix_counterexample :
    (⟨6, 26, 1, 6, 26, 22, 1, false⟩ : AP).stTime.doy = 177 ∧
    (⟨6, 26, 1, 12, 31, 22, 1, true⟩ : AP).stTime.doy = 178 ∧
    177 ∉ (⟨6, 26, 1, 12, 31, 22, 1, true⟩ : AP).doysInt := by decide +kernel

/-- **Recorded finding (header with the wrong leap flag, day-of-year tie)**: the day of the year of a leap
    step after February is one more than that of the same calendar date in a common year, so 29 Feb (day 60)
    is not below the start 1 Mar of a common-year header (day 60): the start is kept, the period (now a leap
    year, because of 29 Feb) is 3/1 – 3/31, and 29 Feb 22:00 (minute 86280 of the leap year) is not a step
    of it. -/
theorem C13_validate_leap_mix_counterexample :
    doyOfMoy 86280 = 60 ∧ (⟨3, 1, 0, 3, 31, 23, 1, false⟩ : AP).stTime.doy = 60 ∧ mdOf true 86280 = (2, 29) ∧
    ¬ (⟨3, 1, 0, 3, 31, 23, 1, true⟩ : AP).Pred 86280 := by decide

end Resample
