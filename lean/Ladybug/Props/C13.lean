/-
  C13 — Validation, hole-filling and resampling preserve the data they are given.
  Property theorems only (helper lemmas: Proofs/C13Lemmas.lean, Proofs/C13Interp.lean).
  The model (Model/Resample.lean, on Model/AP.lean and Model/Cal.lean) is tied to
  ladybug/datacollection.py by the correspondence ops of Drv/C13.lean (harness/props/c13.py).  It
  describes the code with the seven repairs fixes/C13_*.patch.

  Coverage of the statement (clause → status):
    validation, same pairs ................ proved, all four classes, every header   (`*_perm`)
    validation, sorted .................... proved for hourly: strictly increasing for non-wrapping
                                            headers, rotated at the period end for wrapping ones
                                            (`C13_validate_hourly_sorted`, `_rotated`); the coarser
                                            classes: compared + oracle only
    validation, duplicates rejected ....... proved, hourly (`C13_validate_hourly_rejects_duplicates`)
    validation, a single value ............ proved that the duplicate check cannot reject it
                                            (`C13_validate_single`); acceptance on examples
    validation, period contains the data .. proved in part (`C13_validate_contains_partial`: grid of the
                                            output timestep and hour window at hour level, every header);
                                            the date range is compared + oracle only; recorded findings
                                            (known_findings.d/C13.json) show where the code breaks it
    hole filling .......................... proved in part (`C13_holes_partial`: one output block per
                                            source value that ends with the source value, filled values
                                            between the neighbouring source values, leading/trailing
                                            copies, length = len(period)); that each source value lands
                                            on its own step: compared + oracle only
    refinement ............................ point-in-time `new[k·r] = old[k]`, totals of cumulative data,
                                            means of averaged data: proved (`C13_interp_*`)
    culling ............................... proved (`C13_cull`)
    time aggregation / rate of change ..... factor inverse proved (`C13_rate_of_aggregated`)
-/
import Ladybug.Proofs.C13Lemmas
import Ladybug.Proofs.C13Interp
import Ladybug.Props.C04
import Mathlib.Tactic.FieldSimp

open Cal

namespace Resample

/-! ### Validation returns the same pairs -/

/-- **Hourly validation returns the same (datetime, value) pairs**: whenever it succeeds, the output
    pairs are a permutation of the input pairs – for every header (narrow, wrapping, annual, wrong
    timestep or leap flag), every subset of steps in any order, any values. -/
theorem C13_validate_hourly_perm {α : Type} (ap : AP) (dl : Bool) (data : List (Nat × α))
    (v : Validated (Nat × α)) (h : validateHourly ap dl data = .ok v) : v.data.Perm data := by
  obtain ⟨h1, -, -, -⟩ := validateHourly_ok ap dl data v h
  rw [h1]
  exact (reorder_perm _ _ _ _).trans (sortByKey_perm _ _)

/-- **Daily validation returns the same (day, value) pairs.** -/
theorem C13_validate_daily_perm {α : Type} (ap : AP) (data : List (Nat × α))
    (v : Validated (Nat × α)) (h : validateDaily ap data = .ok v) : v.data.Perm data := by
  obtain ⟨h1, -⟩ := validateDaily_ok ap data v h
  rw [h1]
  exact (reorder_perm _ _ _ _).trans (sortByKey_perm _ _)

/-- **Monthly validation returns the same (month, value) pairs.** -/
theorem C13_validate_monthly_perm {α : Type} (ap : AP) (data : List (Nat × α))
    (v : Validated (Nat × α)) (h : validateMonthly ap data = .ok v) : v.data.Perm data := by
  obtain ⟨h1, -⟩ := validateMonthly_ok ap data v h
  rw [h1]
  exact (reorder_perm _ _ _ _).trans (sortByKey_perm _ _)

/-- **Monthly-per-hour validation returns the same ((month, hour, minute), value) pairs.** -/
theorem C13_validate_mph_perm {α : Type} (ap : AP) (data : List (MPH × α))
    (v : Validated (MPH × α)) (h : validateMPH ap data = .ok v) : v.data.Perm data := by
  obtain ⟨h1, -⟩ := validateMPH_ok ap data v h
  rw [h1]
  exact (reorder_perm _ _ _ _).trans (sortByKey_perm _ _)

-- non-vacuity (evaluated): a shuffled three-value collection under a too narrow header
#guard (validateHourly ⟨6, 21, 6, 6, 21, 18, 1, false⟩ false [(246300, 7), (246240, 8), (247560, 9)]).toOption.map
  (fun v => (v.ap, v.data)) = some (⟨6, 21, 0, 6, 21, 22, 1, false⟩, [(246240, 8), (246300, 7), (247560, 9)])

/-! ### Validation sorts -/

/-- **Sorted, non-wrapping headers**: the output datetimes are strictly increasing in the year. -/
theorem C13_validate_hourly_sorted {α : Type} (ap : AP) (dl : Bool) (data : List (Nat × α))
    (v : Validated (Nat × α)) (h : validateHourly ap dl data = .ok v) (hf : ap.isReversed = false) :
    (v.data.map (·.1)).Pairwise (· < ·) := by
  obtain ⟨h1, h2, -, -⟩ := validateHourly_ok ap dl data v h
  rw [hf, reorder_fwd] at h1 h2
  rw [h1]
  apply strict_of_sorted_noAdjDup _ _ h2
  exact List.pairwise_map.mpr (sortByKey_sorted (fun p : Nat × α => p.1) data)

/-- **Sorted, wrapping headers**: either the period was made annual and the output is strictly
    increasing in the year, or the output is the sorted list rotated at the end of the period: first
    the run of datetimes after the end hour of the end day, then the run up to it, both strictly
    increasing. -/
theorem C13_validate_hourly_rotated {α : Type} (ap : AP) (dl : Bool) (data : List (Nat × α))
    (v : Validated (Nat × α)) (h : validateHourly ap dl data = .ok v) :
    (v.data.map (·.1)).Pairwise (· < ·) ∨
    ∃ pre rest, sortByKey (fun p : Nat × α => p.1) data = pre ++ rest ∧ v.data = rest ++ pre ∧
      (rest.map (·.1)).Pairwise (· < ·) ∧ (pre.map (·.1)).Pairwise (· < ·) ∧
      (∀ x ∈ rest, ap.endMoy + 60 ≤ x.1) ∧ (∀ x ∈ pre, x.1 < ap.endMoy + 60) := by
  obtain ⟨h1, h2, -, -⟩ := validateHourly_ok ap dl data v h
  have hs := sortByKey_sorted (fun p : Nat × α => p.1) data
  rcases reorder_cases ap.isReversed (fun p : Nat × α => decide (p.1 < ap.endMoy + 60))
      (fun f : Nat × α => decide (doyOfMoy f.1 > ap.endTime.doy ∧ doyOfMoy f.1 < ap.stTime.doy))
      (sortByKey (fun p : Nat × α => p.1) data) with hc | ⟨-, -, hc⟩
  · left
    rw [hc] at h1 h2
    rw [h1]
    exact strict_of_sorted_noAdjDup _ (List.pairwise_map.mpr hs) h2
  · right
    obtain ⟨pre, rest, e1, e2, e3, e4⟩ := rotateAfterLast_split
      (fun p : Nat × α => decide (p.1 < ap.endMoy + 60)) (sortByKey (fun p : Nat × α => p.1) data)
    rw [hc, e2] at h1 h2
    rw [e1] at hs
    have hsp := List.pairwise_append.mp hs
    rw [List.map_append] at h2
    refine ⟨pre, rest, e1, h1, ?_, ?_, ?_, ?_⟩
    · exact strict_of_sorted_noAdjDup _ (List.pairwise_map.mpr hsp.2.1) (hasAdjDup_append_left _ _ h2)
    · exact strict_of_sorted_noAdjDup _ (List.pairwise_map.mpr hsp.1) (hasAdjDup_append_right _ _ h2)
    · intro x hx
      have := e3 x hx
      simp at this
      exact this
    · intro x hx
      rcases e4 with rfl | ⟨y, hy, hpy⟩
      · simp at hx
      · have hxy := le_getLast_of_sorted (fun p : Nat × α => p.1) pre rest hs y hy x hx
        simp at hpy
        omega

/-- **Duplicates are rejected**: a successful hourly validation means that no datetime occurred
    twice in the input. -/
theorem C13_validate_hourly_rejects_duplicates {α : Type} (ap : AP) (dl : Bool) (data : List (Nat × α))
    (v : Validated (Nat × α)) (h : validateHourly ap dl data = .ok v) : (data.map (·.1)).Nodup := by
  have hp := (C13_validate_hourly_perm ap dl data v h).map (·.1)
  rw [← hp.nodup_iff]
  rcases C13_validate_hourly_rotated ap dl data v h with hs | ⟨pre, rest, -, e2, s1, s2, b1, b2⟩
  · exact hs.imp (by intro a b hab; omega)
  · rw [e2, List.map_append]
    refine List.nodup_append.mpr ⟨s1.imp (by intro a b hab; omega), s2.imp (by intro a b hab; omega), ?_⟩
    intro a ha b hb
    obtain ⟨x, hx, rfl⟩ := List.mem_map.mp ha
    obtain ⟨y, hy, rfl⟩ := List.mem_map.mp hb
    have := b1 x hx
    have := b2 y hy
    omega

/-- **A single value is not a duplicate of itself** (the repaired check starts at the second item;
    the pinned code compared item 0 with item −1, i.e. with itself). -/
theorem C13_validate_single {κ : Type} [DecidableEq κ] (k : κ) : hasAdjDup [k] = false := rfl

-- a single value is accepted under an annual, a narrow and a wrapping header, and by the coarser classes
#guard (validateHourly (AP.annual false 1) false [(246960, 1)]).toOption.map (·.data) = some [(246960, 1)]
#guard (validateHourly ⟨6, 21, 6, 6, 21, 18, 1, false⟩ false [(246240 + 1380, 1)]).toOption.map (·.ap)
  = some ⟨6, 21, 6, 6, 21, 23, 1, false⟩
#guard (validateHourly ⟨12, 30, 0, 1, 2, 23, 2, false⟩ false [(150, 1)]).toOption.map (·.ap)
  = some ⟨12, 30, 0, 1, 2, 23, 2, false⟩
#guard (validateDaily (AP.annual false 1) [(5, 1)]).toOption.map (·.data) = some [(5, 1)]
#guard (validateMonthly (AP.annual false 1) [(3, 1)]).toOption.map (·.data) = some [(3, 1)]
#guard (validateMPH (AP.annual false 1) [((3, 4, 0), 1)]).toOption.map (·.data) = some [((3, 4, 0), 1)]
-- duplicates are rejected
#guard validateHourly (AP.annual false 1) false [(60, 1), (120, 2), (60, 3)] matches .error .assert

/-! ### The output period contains the data (in part) -/

/-- **Containment, grid and hour window** (partial).  For every header – narrow, wrapping, annual,
    wrong timestep – every output datetime lies on the grid of the *output* timestep, and its hour
    lies between the output start hour and end hour.  These are the `m % step = 0` clause of the C04
    membership predicate `AP.Pred` and its hour-window clause at hour level.
    Missing for the full statement: (a) the date-range clause of `AP.Pred` (compared with the code and
    checked by the oracle on every run; it fails for the recorded findings on wrapping headers with an
    hour window); (b) the window of a period closes at `end_hour:00`, so a datetime with minute > 0 in
    the last hour is inside at hour level but not a step of the period (recorded finding
    C13-hourly-minute-after-end-hour). -/
theorem C13_validate_contains_partial {α : Type} (ap : AP) (dl : Bool) (data : List (Nat × α))
    (v : Validated (Nat × α)) (h : validateHourly ap dl data = .ok v) :
    ∀ x ∈ v.data, x.1 % v.ap.step = 0 ∧
      v.ap.st_hour ≤ hourOfMoy x.1 ∧ hourOfMoy x.1 ≤ v.ap.end_hour := by
  have hann : ap.isAnnual = true → ap.st_hour = 0 ∧ ap.end_hour = 23 := by
    intro hA
    unfold AP.isAnnual at hA
    simp at hA
    omega
  obtain ⟨h1, -, -, stMD, endMD, leap, hmk⟩ := validateHourly_ok ap dl data v h
  intro x hx
  rw [h1] at hx
  have hwf := AP.C04_mk_wf _ _ _ _ _ _ _ _ _ hmk
  obtain ⟨-, -, -, -, hst, -, hen, hts, -⟩ := hwf
  have hxm : x.1 ∈ List.map (fun p : Nat × α => p.1) _ := List.mem_map_of_mem hx
  have hxh : hourOfMoy x.1 ∈ List.map (fun p : Nat × α => hourOfMoy p.1) _ := List.mem_map.mpr ⟨x, hx, rfl⟩
  have hfit := fitTimestep_fits ap.timestep _ x.1 hxm
  have h23 : hourOfMoy x.1 ≤ 23 := by unfold hourOfMoy; omega
  refine ⟨?_, ?_, ?_⟩
  · unfold AP.step
    simp only [AP.orD] at hts
    split at hts
    next h0 =>
      have h0' : fitTimestep ap.timestep (List.map (fun p : Nat × α => p.1)
        (reorder ap.isReversed (fun p : Nat × α => decide (p.1 < ap.endMoy + 60))
          (fun f : Nat × α => decide (doyOfMoy f.1 > ap.endTime.doy ∧ doyOfMoy f.1 < ap.stTime.doy))
          (sortByKey (fun p : Nat × α => p.1) data)).1) = 0 := by omega
      rw [h0'] at hfit
      simp at hfit
      rw [hfit]; simp
    next h0 =>
      have : v.ap.timestep = fitTimestep ap.timestep (List.map (fun p : Nat × α => p.1)
        (reorder ap.isReversed (fun p : Nat × α => decide (p.1 < ap.endMoy + 60))
          (fun f : Nat × α => decide (doyOfMoy f.1 > ap.endTime.doy ∧ doyOfMoy f.1 < ap.stTime.doy))
          (sortByKey (fun p : Nat × α => p.1) data)).1) := by omega
      rw [this]; exact hfit
  · have hmin := minHour_le ap.st_hour (List.map (fun p : Nat × α => hourOfMoy p.1)
        (reorder ap.isReversed (fun p : Nat × α => decide (p.1 < ap.endMoy + 60))
          (fun f : Nat × α => decide (doyOfMoy f.1 > ap.endTime.doy ∧ doyOfMoy f.1 < ap.stTime.doy))
          (sortByKey (fun p : Nat × α => p.1) data)).1)
    have hm2 := hmin.2 _ hxh
    by_cases hc : ap.isAnnual = false ∧ ap.st_hour ≠ 0
    · rw [if_pos hc] at hst
      simp only [AP.orD] at hst
      split at hst <;> omega
    · rw [if_neg hc] at hst
      have h0 : ap.st_hour = 0 := by
        cases hA : ap.isAnnual
        · rw [hA] at hc; simp at hc; exact hc
        · exact (hann hA).1
      simp only [AP.orD] at hst
      split at hst <;> omega
  · have hmax := le_maxHour ap.end_hour (List.map (fun p : Nat × α => hourOfMoy p.1)
        (reorder ap.isReversed (fun p : Nat × α => decide (p.1 < ap.endMoy + 60))
          (fun f : Nat × α => decide (doyOfMoy f.1 > ap.endTime.doy ∧ doyOfMoy f.1 < ap.stTime.doy))
          (sortByKey (fun p : Nat × α => p.1) data)).1)
    have hm2 := hmax.2 _ hxh
    by_cases hc : ap.isAnnual = false ∧ ap.end_hour ≠ 23
    · rw [if_pos hc] at hen
      simp only [Option.getD] at hen
      omega
    · rw [if_neg hc] at hen
      have h0 : ap.end_hour = 23 := by
        cases hA : ap.isAnnual
        · rw [hA] at hc; simp at hc; exact hc
        · exact (hann hA).2
      simp only [Option.getD] at hen
      omega

-- the recorded finding: the window of the output period closes at 19:00, the datum is at 19:45
#guard (validateHourly ⟨6, 21, 0, 6, 21, 12, 4, false⟩ false [(246840, 1), (247425, 2)]).toOption.map
  (fun v => (v.ap, v.ap.includesMoy 247425)) = some (⟨6, 21, 0, 6, 21, 19, 4, false⟩, false)

/-- **Recorded finding (counterexample to full containment)**: under the header 6/21 0..12 @4 a value
    at 19:45 yields the period 6/21 0..19 @4; 19:45 (minute 247425 of the year) is on its grid and
    within its hours, but is not a step of it (`AP.Pred` fails: the window closes at 19:00). -/
theorem C13_validate_contains_counterexample :
    247425 % (⟨6, 21, 0, 6, 21, 19, 4, false⟩ : AP).step = 0 ∧ hourOfMoy 247425 = 19 ∧
    ¬ (⟨6, 21, 0, 6, 21, 19, 4, false⟩ : AP).Pred 247425 := by decide

/-! ### Culling -/

/-- **Culling keeps exactly the steps on the coarser grid**: a datum is kept iff its minute of the
    year is a multiple of `60 / timestep`; the kept data are a sublist of the input (order and
    multiplicity preserved); the header period is the old one with the new timestep. -/
theorem C13_cull {α : Type} (ap : AP) (ts : Nat) (data : List (Nat × α)) (v : Validated (Nat × α))
    (h : cull ap ts data = .ok v) (hts : ts ≠ 0) :
    v.data = data.filter (fun p => p.1 % (60 / ts) = 0) ∧ v.data.Sublist data ∧
    (∀ p, p ∈ v.data ↔ p ∈ data ∧ p.1 % (60 / ts) = 0) ∧
    v.ap.timestep = ts ∧ ts ∈ Gen.Ap.validTimesteps := by
  unfold cull at h
  split at h
  next hv =>
    dsimp only at h
    split at h
    next => cases h
    next =>
      split at h
      next => cases h
      next nap hn =>
        injection h with h
        subst h
        unfold liftAP at hn
        split at hn
        next a ha =>
          injection hn with hn
          subst hn
          have hwf := AP.C04_mk_wf _ _ _ _ _ _ _ _ _ ha
          obtain ⟨-, -, -, -, -, -, -, hts', -⟩ := hwf
          refine ⟨rfl, List.filter_sublist, ?_, ?_, hv⟩
          · intro p; simp [List.mem_filter]
          · show a.timestep = ts
            simp only [AP.orD] at hts'; split at hts' <;> omega
        next => cases hn
  next => cases h

#guard (cull ⟨6, 21, 0, 6, 21, 23, 4, false⟩ 2 [(246240, 1), (246255, 2), (246270, 3), (246300, 4)]).toOption.map
  (fun v => (v.ap.timestep, v.data)) = some (2, [(246240, 1), (246270, 3), (246300, 4)])

/-! ### Hole filling -/

/-- **Hole filling** (partial).  For a validated collection (flag set) whose data are `data` in
    collection order, `interpolate_holes` returns – whenever it returns – a list that
    * has one value per step of the period (`length = len(period)`, and the period has the hour
      window 0..23),
    * starts with copies of the first source value (leading hole), ends with copies of the last
      source value (trailing hole),
    * and in between consists of one block per source value, in order: the block ends with the
      source value itself, and every filled value before it lies between the previous source value
      and this one (`Filled`; the first block has no filled values when the data start on their
      own step).
    Missing for the full statement: that each source value lands on *its own* step of the period
    (i.e. that the block lengths equal the hole lengths).  This depends on the period's steps being
    equally spaced through the year end and is compared with the code / checked by the oracle on
    every run, not proved. -/
theorem C13_holes_partial (ap : AP) (data : List (Nat × Rat)) (r : List Rat)
    (h : interpolateHoles ap true data = .ok r) :
    r.length = ap.len ∧ ap.st_hour = 0 ∧ ap.end_hour = 23 ∧
    ∃ (lead k : Nat) (mid : List Rat) (m0 : Nat) (v0 : Rat) (ml : Nat) (vl : Rat),
      data.head? = some (m0, v0) ∧ data.getLast? = some (ml, vl) ∧
      r = List.replicate lead v0 ++ mid ++ List.replicate k vl ∧ Filled vl data mid := by
  obtain ⟨lead, k, mid, m0, v0, ml, vl, h1, h2, h3, h4, h5, h6, h7⟩ := interpolateHoles_ok ap data r h
  exact ⟨h5, h6, h7, lead, k, mid, m0, v0, ml, vl, h1, h2, h3, h4⟩

/-- **Filled values lie between their neighbours** (the fact behind `Filled`): every value of
    `_xxrange(a, b, n)` is between `a` and `b`, in any ordered field of values (here `Rat`). -/
theorem C13_holes_between (a b : Rat) (n : Nat) (x : Rat) (hx : x ∈ xxrange a b n) :
    min a b ≤ x ∧ x ≤ max a b := xxrange_between a b n x hx

/-- **Un-validated collections are refused.** -/
theorem C13_holes_needs_validation (ap : AP) (data : List (Nat × Rat)) :
    interpolateHoles ap false data = .error .assert := by
  simp [interpolateHoles]

-- evaluated examples: data from the period start with an interior hole (the repaired defect), a
-- leading and a trailing hole, a hole through the year end
#guard interpolateHoles ⟨1, 1, 0, 1, 1, 23, 1, false⟩ true [(0, 0), (60, 10), (240, 40), (300, 50), (1380, 230)]
  = .ok ((List.range 24).map fun (i : Nat) => ((10 * i : Nat) : Rat))
#guard interpolateHoles ⟨12, 31, 0, 1, 1, 23, 1, false⟩ true [(364 * 1440 + 1320, 10), (120, 40)]
  = .ok (List.replicate 22 10 ++ [10, 35/2, 25, 65/2, 40] ++ List.replicate 21 40)

/-! ### Interpolation to a finer timestep -/

/-- **What `interpolate_to_timestep` returns**: the target must be a multiple of the current
    timestep; the values are `refine vals r divide shift` with `r = target / current`, `divide` for
    cumulative data (argument, or data type default) and `shift` for data that are not
    point-in-time; the period is the old one rebuilt with the target timestep and the number of
    values is its length. -/
theorem C13_interp_result (ap : AP) (vals : List Rat) (ts : Nat) (cum : Option Bool) (nc pit : Bool)
    (nap : AP) (out : List Rat) (h : interpolateToTimestep ap vals ts cum nc pit = .ok (nap, out)) :
    ts % ap.timestep = 0 ∧
    out = refine vals (ts / ap.timestep) (decide (cum = some true ∨ (cum = none ∧ nc = true))) (!pit) ∧
    out.length = nap.len ∧ out.length = vals.length * (ts / ap.timestep) := by
  obtain ⟨h1, h2, h3, -⟩ := interpolateToTimestep_ok ap vals ts cum nc pit nap out h
  refine ⟨h1, h2, h3, ?_⟩
  rw [h2, length_refine]

/-- **Point-in-time data keep their values at the original steps**: `new[k·r] = old[k]` for every
    source index `k`, every ratio `r ≥ 1`, every value list. -/
theorem C13_interp_point (vals : List Rat) (r : Nat) (hr : 0 < r) (k : Nat) (hk : k < vals.length) :
    (refine vals r false false)[k * r]? = vals[k]? :=
  refine_point vals r hr k hk

/-- **Cumulative data keep their total**: `Σ new = Σ old` over the rationals, with or without the
    half-step rotation, for every ratio `r ≥ 1` (the cyclic sum of the differences telescopes to 0). -/
theorem C13_interp_total (vals : List Rat) (r : Nat) (hr : 0 < r) (shift : Bool) :
    (refine vals r true shift).sum = vals.sum := by
  rw [sum_refine vals r hr]; rfl

/-- **Averaged data keep their mean**: `Σ new = r · Σ old` with `r · len(old)` new values, hence
    `mean new = mean old` (for a non-empty collection), with or without the half-step rotation. -/
theorem C13_interp_mean (vals : List Rat) (r : Nat) (hr : 0 < r) (shift : Bool) (hne : vals ≠ []) :
    (refine vals r false shift).sum / ((refine vals r false shift).length : Rat) =
      vals.sum / (vals.length : Rat) := by
  rw [sum_refine vals r hr, length_refine]
  simp only [Bool.false_eq_true, if_false]
  have h1 : (vals.length : Rat) ≠ 0 := by
    have : vals.length ≠ 0 := by intro h0; exact hne (List.length_eq_zero_iff.mp h0)
    exact_mod_cast this
  have h2 : (r : Rat) ≠ 0 := by exact_mod_cast (by omega : r ≠ 0)
  push_cast
  field_simp

#guard refine [0, 60, 120] 2 true true = [30, 0, 15, 30, 45, 60]
#guard (refine [0, 60, 120] 2 true true).sum = 180
#guard interpolateToTimestep ⟨1, 1, 0, 1, 1, 23, 2, false⟩ (List.replicate 48 4) 4 none true false
  = .ok (⟨1, 1, 0, 1, 1, 23, 4, false⟩, List.replicate 96 2)

/-! ### Time aggregation and rate of change -/

/-- **The rate of change of the aggregated data is the data**: dividing by `factor / timestep` undoes
    multiplying by it (factor and timestep non-zero). -/
theorem C13_rate_of_aggregated (factor ts v : Rat) (hf : factor ≠ 0) (ht : ts ≠ 0) :
    timeRate factor ts (timeAggregated factor ts v) = v := by
  unfold timeRate timeAggregated
  field_simp


end Resample
