/-
  C15 — Values map to legend colours monotonically and legends describe their data.
  Property theorems only (helper lemmas: Proofs/C15Lemmas.lean, Proofs/C15Obj.lean).
  Round 4: graphic containers with a data type (Model/C15Graphic.lean): C15_typed_* at the end
  (dictionary-order independence, least / greatest key, kept user dictionary / categorised parameters).
  Round 3: object state machines (Model/C15Obj.lean) for histories on one ColorRange / parameters
  object / legend; theorems C15_refused_preserves, C15_read_pure, C15_history_refines_fresh at the end.
  The model (Model/Color.lean, Model/Legend.lean) is tied to ladybug/color.py and legend.py by the
  correspondence ops of Drv/C15.lean (harness/props/c15.py).  Numbers are exact rationals; the
  float-vs-exact gap is measured by the correspondence run, not proved.
-/
import Ladybug.Proofs.C15Lemmas
import Ladybug.Proofs.C15Obj
import Ladybug.Proofs.C15Graphic

namespace Col

/-! ## Colour ranges (color.py `ColorRange.color`, `_cal_color`, `domain` setter) -/

/-- Stop exactness: on a strictly increasing domain with at least two stops (and a colour for
    every stop), the value of stop `k` gets exactly colour `k` — for every colour list, every
    domain and every stop, whichever interval the first-match search stops at. -/
theorem C15_stop_exact (cr : ColorRange) (hs : cr.domain.Pairwise (· < ·))
    (hc : cr.continuous = true) (h2 : 2 ≤ cr.domain.length)
    (hlen : cr.domain.length ≤ cr.colors.length) (k : Nat) (hk : k < cr.domain.length) :
    cr.color cr.domain[k] = .ok cr.colors[k] := by
  by_cases hk1 : k + 1 < cr.domain.length
  · have h := color_eq cr hs hc (k := k) (v := cr.domain[k])
      (List.getElem?_eq_getElem hk) (List.getElem?_eq_getElem hk1)
      (List.getElem?_eq_getElem (by omega)) (List.getElem?_eq_getElem (by omega))
      (le_refl _) (le_of_lt (strict_lt_of_lt hs (List.getElem?_eq_getElem hk)
        (List.getElem?_eq_getElem hk1) (Nat.lt_succ_self _)))
    rw [h, factor_lo, blendRGB_zero]
  · obtain ⟨j, rfl⟩ : ∃ j, k = j + 1 := ⟨k - 1, by omega⟩
    have hj : j < cr.domain.length := by omega
    have hlt := strict_lt_of_lt hs (List.getElem?_eq_getElem hj) (List.getElem?_eq_getElem hk)
      (Nat.lt_succ_self _)
    have h := color_eq cr hs hc (k := j) (v := cr.domain[j + 1])
      (List.getElem?_eq_getElem hj) (List.getElem?_eq_getElem hk)
      (List.getElem?_eq_getElem (by omega)) (List.getElem?_eq_getElem (by omega))
      (le_of_lt hlt) (le_refl _)
    rw [h, factor_hi hlt, blendRGB_one]

/-- Betweenness: a value in the closed interval between stops `k` and `k + 1` gets a colour whose
    every channel lies between the channels of the two stop colours. -/
theorem C15_between (cr : ColorRange) (hs : cr.domain.Pairwise (· < ·))
    (hc : cr.continuous = true) (hlen : cr.domain.length ≤ cr.colors.length)
    (k : Nat) (hk : k + 1 < cr.domain.length) (v : Rat)
    (hav : cr.domain[k] ≤ v) (hvb : v ≤ cr.domain[k + 1]) :
    ∃ c, cr.color v = .ok c ∧
      min cr.colors[k].r cr.colors[k + 1].r ≤ c.r ∧ c.r ≤ max cr.colors[k].r cr.colors[k + 1].r ∧
      min cr.colors[k].g cr.colors[k + 1].g ≤ c.g ∧ c.g ≤ max cr.colors[k].g cr.colors[k + 1].g ∧
      min cr.colors[k].b cr.colors[k + 1].b ≤ c.b ∧ c.b ≤ max cr.colors[k].b cr.colors[k + 1].b := by
  have h := color_eq cr hs hc (k := k) (v := v)
    (List.getElem?_eq_getElem (by omega)) (List.getElem?_eq_getElem hk)
    (List.getElem?_eq_getElem (by omega)) (List.getElem?_eq_getElem (by omega)) hav hvb
  have hab : cr.domain[k] ≤ cr.domain[k + 1] := le_trans hav hvb
  have f0 := factor_nonneg hab hav
  have f1 := factor_le_one hab hvb
  refine ⟨_, h, ?_⟩
  simp only [blendRGB]
  exact ⟨(blend_between _ _ f0 f1).1, (blend_between _ _ f0 f1).2, (blend_between _ _ f0 f1).1,
    (blend_between _ _ f0 f1).2, (blend_between _ _ f0 f1).1, (blend_between _ _ f0 f1).2⟩

/-- Monotone movement: for two values `v ≤ w` in the same interval, every channel of the colour of
    `w` is at least as far along the way from stop colour `k` to stop colour `k + 1` as that of `v`
    (non-decreasing when the channel rises, non-increasing when it falls). -/
theorem C15_monotone (cr : ColorRange) (hs : cr.domain.Pairwise (· < ·))
    (hc : cr.continuous = true) (hlen : cr.domain.length ≤ cr.colors.length)
    (k : Nat) (hk : k + 1 < cr.domain.length) (v w : Rat)
    (hav : cr.domain[k] ≤ v) (hvw : v ≤ w) (hwb : w ≤ cr.domain[k + 1]) :
    ∃ c c', cr.color v = .ok c ∧ cr.color w = .ok c' ∧
      (cr.colors[k].r ≤ cr.colors[k + 1].r → c.r ≤ c'.r) ∧
      (cr.colors[k + 1].r ≤ cr.colors[k].r → c'.r ≤ c.r) ∧
      (cr.colors[k].g ≤ cr.colors[k + 1].g → c.g ≤ c'.g) ∧
      (cr.colors[k + 1].g ≤ cr.colors[k].g → c'.g ≤ c.g) ∧
      (cr.colors[k].b ≤ cr.colors[k + 1].b → c.b ≤ c'.b) ∧
      (cr.colors[k + 1].b ≤ cr.colors[k].b → c'.b ≤ c.b) := by
  have hv := color_eq cr hs hc (k := k) (v := v)
    (List.getElem?_eq_getElem (by omega)) (List.getElem?_eq_getElem hk)
    (List.getElem?_eq_getElem (by omega)) (List.getElem?_eq_getElem (by omega)) hav (le_trans hvw hwb)
  have hw := color_eq cr hs hc (k := k) (v := w)
    (List.getElem?_eq_getElem (by omega)) (List.getElem?_eq_getElem hk)
    (List.getElem?_eq_getElem (by omega)) (List.getElem?_eq_getElem (by omega)) (le_trans hav hvw) hwb
  have hab : cr.domain[k] ≤ cr.domain[k + 1] := le_trans hav (le_trans hvw hwb)
  have hf := factor_mono hab hvw
  refine ⟨_, _, hv, hw, ?_⟩
  simp only [blendRGB]
  exact ⟨blend_mono_up hf, blend_mono_down hf, blend_mono_up hf, blend_mono_down hf,
    blend_mono_up hf, blend_mono_down hf⟩

/-- Clamping below: a value under the first stop gets the first colour (continuous or segmented,
    any domain). -/
theorem C15_clamp_low (cr : ColorRange) (hd : cr.domain ≠ []) (hcol : cr.colors ≠ []) (v : Rat)
    (hv : v < cr.domain.head hd) : cr.color v = .ok (cr.colors.head hcol) := by
  have h0 : cr.domain[0]? = some (cr.domain.head hd) := by
    rw [List.head_eq_getElem]; exact List.getElem?_eq_getElem _
  have hl : cr.domain.getLast? = some (cr.domain.getLast hd) := List.getLast?_eq_some_getLast hd
  have hc0 : cr.colors[0]? = some (cr.colors.head hcol) := by
    rw [List.head_eq_getElem]; exact List.getElem?_eq_getElem _
  unfold ColorRange.color
  simp only [h0, hl]
  rw [if_pos hv]
  simp [getE, hc0]

/-- Clamping above: a value over the last stop gets the last colour (continuous or segmented;
    `first ≤ last` holds for every domain the setter produces because it sorts). -/
theorem C15_clamp_high (cr : ColorRange) (hd : cr.domain ≠ []) (hcol : cr.colors ≠ []) (v : Rat)
    (hsorted : cr.domain.head hd ≤ cr.domain.getLast hd)
    (hv : cr.domain.getLast hd < v) : cr.color v = .ok (cr.colors.getLast hcol) := by
  have h0 : cr.domain[0]? = some (cr.domain.head hd) := by
    rw [List.head_eq_getElem]; exact List.getElem?_eq_getElem _
  have hl : cr.domain.getLast? = some (cr.domain.getLast hd) := List.getLast?_eq_some_getLast hd
  have hcl : cr.colors[cr.colors.length - 1]? = some (cr.colors.getLast hcol) := by
    rw [← List.getLast?_eq_getElem?]; exact List.getLast?_eq_some_getLast hcol
  unfold ColorRange.color
  simp only [h0, hl]
  rw [if_neg (by intro h; linarith), if_pos hv]
  simp [getE, hcl]

/-- Segmented ranges: on a strictly increasing domain a value in the half-open interval
    `(d k, d (k+1)]` — and, for the first interval, also the first stop itself — gets the colour of
    that interval, `colors[k + 1]` (colour 0 is the one below the first stop, see `C15_clamp_low`). -/
theorem C15_segmented (cr : ColorRange) (hs : cr.domain.Pairwise (· < ·))
    (hc : cr.continuous = false) (hlen : cr.domain.length < cr.colors.length)
    (k : Nat) (hk : k + 1 < cr.domain.length) (v : Rat)
    (hav : cr.domain[k] < v ∨ (k = 0 ∧ cr.domain[k] ≤ v)) (hvb : v ≤ cr.domain[k + 1]) :
    cr.color v = .ok cr.colors[k + 1] := by
  have hk0 : cr.domain[k]? = some cr.domain[k] := List.getElem?_eq_getElem (by omega)
  have hk1 : cr.domain[k + 1]? = some cr.domain[k + 1] := List.getElem?_eq_getElem hk
  have hav' : cr.domain[k] ≤ v := by
    rcases hav with h | h
    · exact le_of_lt h
    · exact h.2
  have h0 : cr.domain[0]? = some cr.domain[0] := List.getElem?_eq_getElem (by omega)
  have hl : cr.domain.getLast? = some cr.domain[cr.domain.length - 1] := by
    rw [List.getLast?_eq_getElem?]
    exact List.getElem?_eq_getElem (by omega)
  have hl' : cr.domain[cr.domain.length - 1]? = some cr.domain[cr.domain.length - 1] :=
    List.getElem?_eq_getElem (by omega)
  have hd0 : cr.domain[0] ≤ cr.domain[k] := strict_le_of_le hs h0 hk0 (Nat.zero_le _)
  have hdl : cr.domain[k + 1] ≤ cr.domain[cr.domain.length - 1] := strict_le_of_le hs hk1 hl' (by omega)
  have hck : cr.colors[k + 1]? = some cr.colors[k + 1] := List.getElem?_eq_getElem (by omega)
  unfold ColorRange.color
  simp only [h0, hl]
  rw [if_neg (by intro h; linarith), if_neg (by intro h; linarith)]
  rcases findInterval_strict v cr.domain 0 k _ _ hs hk0 hk1 hav' hvb with h | ⟨k', hk', hva, h⟩
  · rw [h]
    simp [hc, getE, hck]
  · exfalso
    rcases hav with h' | h'
    · rw [hva] at h'; exact lt_irrefl _ h'
    · omega

/-- Zero-width domain: when all stops coincide (`[a, a]` re-mapped, or `[a, a, …]`), the value `a`
    itself hits the first interval, whose width is 0; the `ZeroDivisionError` fallback gives
    factor 0, hence the first colour.  (Values below / above `a` clamp: `C15_clamp_low/high`.) -/
theorem C15_zero_width (c0 c1 : RGB) (cs : List RGB) (a : Rat) (m : Nat) (cont : Bool) :
    (⟨c0 :: c1 :: cs, a :: a :: List.replicate m a, true⟩ : ColorRange).color a = .ok c0 ∧
    (⟨c0 :: c1 :: cs, a :: a :: List.replicate m a, false⟩ : ColorRange).color a = .ok c1 ∧
    (ColorRange.make (c0 :: c1 :: cs) [a, a] true).map (·.domain) =
      .ok (List.replicate (cs.length + 2) a) ∧
    (∀ cr, ColorRange.make (c0 :: c1 :: cs) [a, a] cont = .ok cr → cont = true →
      cr.color a = .ok c0) := by
  have hlast : (a :: a :: List.replicate m a).getLast? = some a := by
    have : a :: a :: List.replicate m a = List.replicate (m + 2) a := by simp [List.replicate_succ]
    rw [this, List.getLast?_replicate]; simp
  have key : (⟨c0 :: c1 :: cs, a :: a :: List.replicate m a, true⟩ : ColorRange).color a = .ok c0 := by
    unfold ColorRange.color
    simp only [hlast]
    simp [findInterval, factor, blendRGB_zero]
  refine ⟨key, ?_, ?_, ?_⟩
  · unfold ColorRange.color
    simp only [hlast]
    simp [findInterval, getE]
  · simp [ColorRange.make, mkDomain, sortDom_pair, remap_const, Except.map]
  · intro cr hcr hcont
    subst hcont
    simp [ColorRange.make, mkDomain, sortDom_pair, remap_const] at hcr
    subst hcr
    have hrep : List.replicate (cs.length + 1 + 1) a = a :: a :: List.replicate cs.length a := by
      simp [List.replicate_succ]
    have hlast' : (a :: a :: List.replicate cs.length a).getLast? = some a := by
      rw [← hrep, List.getLast?_replicate]; simp
    unfold ColorRange.color
    simp only [hrep, hlast']
    simp [findInterval, factor, blendRGB_zero]

/-- Domain re-map: a continuous range over `n ≥ 2` colours with a 2-value domain (given in any
    order) gets one stop per colour, evenly spaced: stop `k` is `lo + k (hi - lo) / (n - 1)`, the
    first is `lo`, the last is `hi`, and for `lo < hi` the stops are strictly increasing (so the
    theorems above apply to every such range). -/
theorem C15_domain_remap (n : Nat) (hn : 2 ≤ n) (x y : Rat) :
    mkDomain n [x, y] true = .ok (remap n (min x y) (max x y)) ∧
    (remap n (min x y) (max x y)).length = n ∧
    (∀ k, k < n → (remap n (min x y) (max x y))[k]? =
      some (min x y + (k : Rat) * ((max x y - min x y) / ((n : Rat) - 1)))) ∧
    (remap n (min x y) (max x y))[0]? = some (min x y) ∧
    (remap n (min x y) (max x y))[n - 1]? = some (max x y) ∧
    (x ≠ y → (remap n (min x y) (max x y)).Pairwise (· < ·)) := by
  have hn1 : ((n : Rat) - 1) ≠ 0 := by
    have : (2 : Rat) ≤ (n : Rat) := by exact_mod_cast hn
    intro h; linarith
  refine ⟨?_, remap_length _ _ _, fun k hk => remap_getElem? _ _ _ k hk, ?_, ?_, ?_⟩
  · have hne : n ≠ 1 := by omega
    rcases le_total x y with h | h
    · simp [mkDomain, sortDom_pair, h, hne]
    · by_cases hxy : x ≤ y
      · have : x = y := le_antisymm hxy h
        subst this
        simp [mkDomain, sortDom_pair, hne]
      · simp [mkDomain, sortDom_pair, hxy, hne, min_eq_right h, max_eq_left h]
  · rw [remap_getElem? _ _ _ 0 (by omega)]
    simp
  · rw [remap_getElem? _ _ _ (n - 1) (by omega)]
    congr 1
    have : ((n - 1 : Nat) : Rat) = (n : Rat) - 1 := by
      rw [Nat.cast_sub (by omega)]; simp
    rw [this]
    field_simp
    ring
  · intro hxy
    apply remap_strict n hn
    rcases lt_or_gt_of_ne hxy with h | h
    · rw [min_eq_left (le_of_lt h), max_eq_right (le_of_lt h)]; exact h
    · rw [min_eq_right (le_of_lt h), max_eq_left (le_of_lt h)]; exact h

/-- Multi-stop and segmented domains are kept as given, sorted; distinct stops give a strictly
    increasing domain (so the theorems above apply to every range built from distinct stops). -/
theorem C15_domain_sorted (n : Nat) (dom : List Rat) (cont : Bool) (d : List Rat)
    (h : mkDomain n dom cont = .ok d) (h3 : dom.length ≠ 2 ∨ cont = false) (hne : dom ≠ []) :
    d = sortDom dom ∧ d.Pairwise (· ≤ ·) ∧ (dom.Nodup → d.Pairwise (· < ·)) := by
  have hlen : (sortDom dom).length = dom.length := by simp [sortDom]
  have hd : d = sortDom dom := by
    have hemp : (if dom.isEmpty = true then [0, 1] else sortDom dom) = sortDom dom := by
      have : dom.isEmpty = false := by simpa using hne
      simp [this]
    unfold mkDomain at h
    simp only [hemp] at h
    cases cont with
    | false =>
      simp only [Bool.false_eq_true, if_false] at h
      split at h
      · injection h with h; exact h.symm
      · simp at h
    | true =>
      simp at h3
      simp only [if_true] at h
      split at h
      · rename_i lo hi heq
        have : (sortDom dom).length = 2 := by rw [heq]; rfl
        omega
      · split at h
        · injection h with h; exact h.symm
        · simp at h
  subst hd
  exact ⟨rfl, sortDom_sorted dom, sortDom_strict dom⟩

/-- One-boundary domains (documented for `LegendParametersCategorized`; after fix
    "C15_single_boundary_color" — the pinned code raised IndexError here): the value equal to the
    single boundary gets the last colour, i.e. the boundary belongs to the upper category, as at
    every first stop of a segmented range (`C15_segmented`); below / above it clamps. -/
theorem C15_single_boundary (cols : List RGB) (hcol : cols ≠ []) (d : Rat) (cont : Bool) (v : Rat) :
    (⟨cols, [d], cont⟩ : ColorRange).color v =
      if v < d then .ok (cols.head hcol) else .ok (cols.getLast hcol) := by
  have hc0 : cols[0]? = some (cols.head hcol) := by
    rw [List.head_eq_getElem]; exact List.getElem?_eq_getElem _
  have hcl : cols[cols.length - 1]? = some (cols.getLast hcol) := by
    rw [← List.getLast?_eq_getElem?]; exact List.getLast?_eq_some_getLast hcol
  unfold ColorRange.color
  by_cases h1 : v < d
  · simp [h1, getE, hc0]
  · by_cases h2 : d < v
    · simp [h1, h2, getE, hcl]
    · simp [h1, h2, findInterval, getE, hcl]

/-! ### Weakly increasing domains: duplicated stops (a zero-width interval inside the domain) -/

/-- Every value above the first stop and at most the last stop lies in a half-open interval
    `(d k, d (k+1)]` of the domain — so `C15_between_weak` (or `C15_segmented_weak`) together with
    `C15_stop_first_of_equals` for the first stop describe the colour of *every* in-range value of
    *every* sorted domain, duplicated stops included. -/
theorem C15_interval_exists (cr : ColorRange) (hd : cr.domain ≠ []) (v : Rat)
    (h1 : cr.domain.head hd < v) (h2 : v ≤ cr.domain.getLast hd) :
    ∃ k, ∃ hk : k + 1 < cr.domain.length, cr.domain[k] < v ∧ v ≤ cr.domain[k + 1] := by
  have h0 : cr.domain[0]? = some (cr.domain.head hd) := by
    rw [List.head_eq_getElem]; exact List.getElem?_eq_getElem _
  obtain ⟨k, a, b, ha, hb, hav, hvb⟩ := interval_exists v cr.domain _ _ h0
    (List.getLast?_eq_some_getLast hd) h1 h2
  obtain ⟨hk1, rfl⟩ := List.getElem?_eq_some_iff.mp hb
  obtain ⟨hk0, rfl⟩ := List.getElem?_eq_some_iff.mp ha
  exact ⟨k, hk1, hav, hvb⟩

/-- Betweenness on weakly increasing domains: a value in `(d k, d (k+1)]` gets exactly the blend of
    colours `k` and `k + 1` with the factor of that interval (the first-match search cannot stop
    earlier, zero-width intervals before it included), hence every channel lies between the two
    stop channels. -/
theorem C15_between_weak (cr : ColorRange) (hs : cr.domain.Pairwise (· ≤ ·))
    (hc : cr.continuous = true) (hlen : cr.domain.length ≤ cr.colors.length)
    (k : Nat) (hk : k + 1 < cr.domain.length) (v : Rat)
    (hav : cr.domain[k] < v) (hvb : v ≤ cr.domain[k + 1]) :
    ∃ c, cr.color v = .ok c ∧
      c = blendRGB (factor cr.domain[k] cr.domain[k + 1] v) cr.colors[k] cr.colors[k + 1] ∧
      min cr.colors[k].r cr.colors[k + 1].r ≤ c.r ∧ c.r ≤ max cr.colors[k].r cr.colors[k + 1].r ∧
      min cr.colors[k].g cr.colors[k + 1].g ≤ c.g ∧ c.g ≤ max cr.colors[k].g cr.colors[k + 1].g ∧
      min cr.colors[k].b cr.colors[k + 1].b ≤ c.b ∧ c.b ≤ max cr.colors[k].b cr.colors[k + 1].b := by
  have h := color_eq_weak cr hs hc (k := k) (v := v)
    (List.getElem?_eq_getElem (by omega)) (List.getElem?_eq_getElem hk)
    (List.getElem?_eq_getElem (by omega)) (List.getElem?_eq_getElem (by omega)) hav hvb
  have hab : cr.domain[k] ≤ cr.domain[k + 1] := le_trans (le_of_lt hav) hvb
  have f0 := factor_nonneg hab (le_of_lt hav)
  have f1 := factor_le_one hab hvb
  refine ⟨_, h, rfl, ?_⟩
  simp only [blendRGB]
  exact ⟨(blend_between _ _ f0 f1).1, (blend_between _ _ f0 f1).2, (blend_between _ _ f0 f1).1,
    (blend_between _ _ f0 f1).2, (blend_between _ _ f0 f1).1, (blend_between _ _ f0 f1).2⟩

/-- Monotone movement on weakly increasing domains, for `v ≤ w` in the same `(d k, d (k+1)]`. -/
theorem C15_monotone_weak (cr : ColorRange) (hs : cr.domain.Pairwise (· ≤ ·))
    (hc : cr.continuous = true) (hlen : cr.domain.length ≤ cr.colors.length)
    (k : Nat) (hk : k + 1 < cr.domain.length) (v w : Rat)
    (hav : cr.domain[k] < v) (hvw : v ≤ w) (hwb : w ≤ cr.domain[k + 1]) :
    ∃ c c', cr.color v = .ok c ∧ cr.color w = .ok c' ∧
      (cr.colors[k].r ≤ cr.colors[k + 1].r → c.r ≤ c'.r) ∧
      (cr.colors[k + 1].r ≤ cr.colors[k].r → c'.r ≤ c.r) ∧
      (cr.colors[k].g ≤ cr.colors[k + 1].g → c.g ≤ c'.g) ∧
      (cr.colors[k + 1].g ≤ cr.colors[k].g → c'.g ≤ c.g) ∧
      (cr.colors[k].b ≤ cr.colors[k + 1].b → c.b ≤ c'.b) ∧
      (cr.colors[k + 1].b ≤ cr.colors[k].b → c'.b ≤ c.b) := by
  have hv := color_eq_weak cr hs hc (k := k) (v := v)
    (List.getElem?_eq_getElem (by omega)) (List.getElem?_eq_getElem hk)
    (List.getElem?_eq_getElem (by omega)) (List.getElem?_eq_getElem (by omega)) hav (le_trans hvw hwb)
  have hw := color_eq_weak cr hs hc (k := k) (v := w)
    (List.getElem?_eq_getElem (by omega)) (List.getElem?_eq_getElem hk)
    (List.getElem?_eq_getElem (by omega)) (List.getElem?_eq_getElem (by omega))
    (lt_of_lt_of_le hav hvw) hwb
  have hab : cr.domain[k] ≤ cr.domain[k + 1] := le_trans (le_of_lt hav) (le_trans hvw hwb)
  have hf := factor_mono hab hvw
  refine ⟨_, _, hv, hw, ?_⟩
  simp only [blendRGB]
  exact ⟨blend_mono_up hf, blend_mono_down hf, blend_mono_up hf, blend_mono_down hf,
    blend_mono_up hf, blend_mono_down hf⟩

/-- Stop exactness with duplicated stops: the value of stop `k` gets colour `k` whenever stop `k` is
    the *first* of its equals (it is the first stop, or its predecessor is strictly smaller).  So a
    value shared by several stops gets the colour of the first of them: the first-match search
    stops in the interval that *ends* there (factor 1), never in the zero-width interval. -/
theorem C15_stop_first_of_equals (cr : ColorRange) (hs : cr.domain.Pairwise (· ≤ ·))
    (hc : cr.continuous = true) (h2 : 2 ≤ cr.domain.length)
    (hlen : cr.domain.length ≤ cr.colors.length) (k : Nat) (hk : k < cr.domain.length)
    (hfirst : k = 0 ∨ ∃ h : k - 1 < cr.domain.length, cr.domain[k - 1] < cr.domain[k]) :
    cr.color cr.domain[k] = .ok cr.colors[k] := by
  rcases Nat.eq_zero_or_pos k with rfl | hpos
  · obtain ⟨d0, d1, h0, h1, h01, hfind, hl, hle⟩ := color_first_stop cr hs h2
    have e0 : cr.domain[0] = d0 := by
      have := List.getElem?_eq_getElem (l := cr.domain) (i := 0) (by omega)
      rw [h0] at this; injection this with h; exact h.symm
    have hc0 : cr.colors[0]? = some cr.colors[0] := List.getElem?_eq_getElem (by omega)
    have hc1 : cr.colors[1]? = some cr.colors[1] := List.getElem?_eq_getElem (by omega)
    rw [e0]
    unfold ColorRange.color
    simp only [h0, hl]
    rw [if_neg (lt_irrefl _), if_neg (by intro h; linarith), hfind]
    simp only [hc, if_true, h0, h1, hc0, hc1, Nat.zero_add]
    rw [factor_lo, blendRGB_zero]
  · rcases hfirst with h | ⟨hj, hlt⟩
    · omega
    · obtain ⟨j, rfl⟩ : ∃ j, k = j + 1 := ⟨k - 1, by omega⟩
      simp only [Nat.add_sub_cancel] at hj hlt
      have h := color_eq_weak cr hs hc (k := j) (v := cr.domain[j + 1])
        (List.getElem?_eq_getElem hj) (List.getElem?_eq_getElem hk)
        (List.getElem?_eq_getElem (by omega)) (List.getElem?_eq_getElem (by omega))
        hlt (le_refl _)
      rw [h, factor_hi hlt, blendRGB_one]

/-- … and the later ones of a group of equal stops are *not* returned at the shared value: with
    stops `[0, 5, 5, 10]` the value 5 gets colour 1, not colour 2 (colour 2 is approached from
    above: the blend jumps across the zero-width interval). -/
theorem C15_duplicate_stop_counterexample :
    let cr : ColorRange := ⟨[⟨0, 0, 0⟩, ⟨100, 0, 0⟩, ⟨200, 0, 0⟩, ⟨250, 0, 0⟩], [0, 5, 5, 10], true⟩
    cr.domain.Pairwise (· ≤ ·) ∧ cr.color 5 = .ok ⟨100, 0, 0⟩ ∧ cr.color 5 ≠ .ok ⟨200, 0, 0⟩ ∧
    cr.color (5 + 1 / 10) = .ok ⟨201, 0, 0⟩ := by
  decide +kernel

/-- Segmented ranges on weakly increasing domains: a value in `(d k, d (k+1)]` gets `colors[k+1]`;
    the first stop itself gets `colors[1]` (the first interval is closed on the left). -/
theorem C15_segmented_weak (cr : ColorRange) (hs : cr.domain.Pairwise (· ≤ ·))
    (hc : cr.continuous = false) (hlen : cr.domain.length < cr.colors.length)
    (k : Nat) (hk : k + 1 < cr.domain.length) :
    (∀ v, cr.domain[k] < v → v ≤ cr.domain[k + 1] → cr.color v = .ok cr.colors[k + 1]) ∧
    cr.color cr.domain[0] = .ok cr.colors[1] := by
  refine ⟨fun v hav hvb => color_seg_weak cr hs hc (k := k)
    (List.getElem?_eq_getElem (by omega)) (List.getElem?_eq_getElem hk)
    (List.getElem?_eq_getElem (by omega)) hav hvb, ?_⟩
  obtain ⟨d0, d1, h0, h1, h01, hfind, hl, hle⟩ := color_first_stop cr hs (by omega)
  have e0 : cr.domain[0] = d0 := by
    have := List.getElem?_eq_getElem (l := cr.domain) (i := 0) (by omega)
    rw [h0] at this; injection this with h; exact h.symm
  have hc1 : cr.colors[1]? = some cr.colors[1] := List.getElem?_eq_getElem (by omega)
  rw [e0]
  unfold ColorRange.color
  simp only [h0, hl]
  rw [if_neg (lt_irrefl _), if_neg (by intro h; linarith), hfind]
  simp [hc, getE, hc1]

/-- Continuous range with fewer stops than colours (accepted by the setter when the domain has not
    exactly 2 values): inside the domain only the first `len(domain)` colours are used (the theorems
    above), the last stop gets colour `len(domain) - 1`, but every value above it jumps to the
    *last colour of the list* — the clamp reads `colors[-1]`, not the colour of the last stop. -/
theorem C15_fewer_stops (cr : ColorRange) (hs : cr.domain.Pairwise (· < ·))
    (hc : cr.continuous = true) (h2 : 2 ≤ cr.domain.length)
    (hlen : cr.domain.length < cr.colors.length) :
    cr.color cr.domain[cr.domain.length - 1] = .ok cr.colors[cr.domain.length - 1] ∧
    ∀ v, cr.domain[cr.domain.length - 1] < v → cr.color v = .ok cr.colors[cr.colors.length - 1] := by
  refine ⟨C15_stop_exact cr hs hc h2 (by omega) _ (by omega), ?_⟩
  intro v hv
  have hd : cr.domain ≠ [] := by intro h; simp [h] at h2
  have hcol : cr.colors ≠ [] := by intro h; simp [h] at hlen
  have hlast : cr.domain.getLast hd = cr.domain[cr.domain.length - 1] := List.getLast_eq_getElem _
  have hhead : cr.domain.head hd = cr.domain[0] := List.head_eq_getElem _
  have hle : cr.domain[0] ≤ cr.domain[cr.domain.length - 1] :=
    strict_le_of_le hs (List.getElem?_eq_getElem (by omega)) (List.getElem?_eq_getElem (by omega))
      (Nat.zero_le _)
  have := C15_clamp_high cr hd hcol v (by rw [hhead, hlast]; exact hle) (by rw [hlast]; exact hv)
  rw [this, List.getLast_eq_getElem]

/-! Non-vacuity: the docstring range of color.py satisfies the hypotheses and the conclusions are
    the documented colours. -/

private def exRange : ColorRange :=
  ⟨[⟨75, 107, 169⟩, ⟨245, 239, 103⟩, ⟨234, 38, 0⟩], [100, 1050, 2000], true⟩

example : mkDomain 3 [2000, 100] true = .ok (remap 3 (min 2000 100) (max 2000 100)) :=
  (C15_domain_remap 3 (by decide) 2000 100).1
example : remap 3 (min 2000 100) (max 2000 100) = exRange.domain := by decide +kernel
example : exRange.domain.Pairwise (· < ·) := by decide +kernel
example : exRange.color 1050 = .ok ⟨245, 239, 103⟩ :=
  C15_stop_exact exRange (by decide +kernel) rfl (by decide) (by decide) 1 (by decide)
example : exRange.color 575 = .ok ⟨160, 173, 136⟩ := by decide +kernel
example : exRange.color 99 = .ok ⟨75, 107, 169⟩ :=
  C15_clamp_low exRange (by decide) (by decide) 99 (by decide +kernel)
example : (⟨[⟨0, 0, 255⟩, ⟨0, 255, 0⟩, ⟨255, 0, 0⟩], [300, 2000], false⟩ : ColorRange).color 500 = .ok ⟨0, 255, 0⟩ :=
  C15_segmented _ (by decide +kernel) rfl (by decide) 0 (by decide) 500 (by decide +kernel) (by decide +kernel)

end Col

namespace Leg

open Col

/-! ## Legends (legend.py `Legend`, `LegendParameters`, `LegendParametersCategorized`) -/

/-- Segment numbers run evenly from the minimum to the maximum: there are `segment_count` of them,
    number `i` is `min + i (max - min) / (n - 1)`, the first is `min` and the last is `max`; a
    one-segment legend shows `[min]`. -/
theorem C15_segment_numbers (l : Legend) :
    l.segmentNumbers.length = l.segCount ∧
    (l.segCount = 1 → l.segmentNumbers = [l.min]) ∧
    (2 ≤ l.segCount →
      (∀ i, i < l.segCount → l.segmentNumbers[i]? =
        some (l.min + (i : Rat) * ((l.max - l.min) / ((l.segCount : Rat) - 1)))) ∧
      l.segmentNumbers[0]? = some l.min ∧ l.segmentNumbers[l.segCount - 1]? = some l.max) := by
  refine ⟨by simp [Legend.segmentNumbers], ?_, ?_⟩
  · intro h1
    simp [Legend.segmentNumbers, h1, List.range_succ]
  · intro h2
    have hne : l.segCount ≠ 1 := by omega
    have hn1 : ((l.segCount : Rat) - 1) ≠ 0 := by
      have : (2 : Rat) ≤ (l.segCount : Rat) := by exact_mod_cast h2
      intro h; linarith
    have hget : ∀ i, i < l.segCount → l.segmentNumbers[i]? =
        some (l.min + (i : Rat) * ((l.max - l.min) / ((l.segCount : Rat) - 1))) := by
      intro i hi
      simp [Legend.segmentNumbers, hne, hi]
    refine ⟨hget, ?_, ?_⟩
    · rw [hget 0 (by omega)]; simp
    · rw [hget (l.segCount - 1) (by omega)]
      congr 1
      have : ((l.segCount - 1 : Nat) : Rat) = (l.segCount : Rat) - 1 := by
        rw [Nat.cast_sub (by omega)]; simp
      rw [this]
      field_simp
      ring

/-- The value colours are the colour-range colours of the values, in order. -/
theorem C15_value_colors (l : Legend) (cr : ColorRange) (hcr : l.colorRange = .ok cr) :
    l.valueColors = l.values.mapM cr.color ∧
    ∀ vc : List RGB, l.valueColors = .ok vc → vc.length = l.values.length ∧
      ∀ (i : Nat) (v : Rat), l.values[i]? = some v → ∃ c : RGB, vc[i]? = some c ∧ cr.color v = .ok c := by
  have h : l.valueColors = l.values.mapM cr.color := by simp [Legend.valueColors, hcr]
  refine ⟨h, ?_⟩
  intro vc hvc
  rw [h] at hvc
  exact ⟨mapM_ok_length _ _ _ hvc, mapM_ok_getElem _ _ _ hvc⟩

/-- Plain legends: segment colour `i` is the colour-range colour of segment number `i`, one per
    segment; the colour range is the 2-value range `(min, max)` over the legend colours. -/
theorem C15_segment_colors (l : Legend) (hplain : l.par.cat = none) :
    l.colorRange = ColorRange.make l.par.colors [l.min, l.max] true ∧
    ∀ cr, l.colorRange = .ok cr → ∀ sc : List RGB, l.segmentColors = .ok sc →
      sc.length = l.segCount ∧
      ∀ (i : Nat) (x : Rat), l.segmentNumbers[i]? = some x → ∃ c : RGB, sc[i]? = some c ∧ cr.color x = .ok c := by
  refine ⟨by simp [Legend.colorRange, hplain], ?_⟩
  intro cr hcr sc hsc
  have h : l.segmentColors = l.segmentNumbers.mapM cr.color := by
    simp [Legend.segmentColors, hplain, hcr]
  rw [h] at hsc
  refine ⟨?_, mapM_ok_getElem _ _ _ hsc⟩
  rw [mapM_ok_length _ _ _ hsc]
  exact (C15_segment_numbers l).1

/-- Categorised legends use their own domain, colours, colour mode and names. -/
theorem C15_categorised (l : Legend) (c : Cat) (hc : l.par.cat = some c) :
    l.colorRange = ColorRange.make l.par.colors c.domain c.continuousColors ∧
    l.segmentColors = .ok l.par.colors ∧
    (∀ ns, c.names = some ns → l.segmentText = ns) ∧
    (c.names = none → l.segmentText = catNames c.domain l.par.decimalCount l.par.includeLS) := by
  refine ⟨by simp [Legend.colorRange, hc], by simp [Legend.segmentColors, hc], ?_, ?_⟩
  · intro ns hns; simp [Legend.segmentText, hc, hns]
  · intro hns; simp [Legend.segmentText, hc, hns]

/-- Counts: a legend has one label, one colour, one number and one text position per segment, and
    its mesh has one cell per segment (one fewer for gradient legends).  The text-position clause is
    about exact arithmetic: the pinned code accumulates *floats* in `_frange` and can yield one
    position too many (recorded finding C15-text-positions-float-accumulation, repaired by
    fixes/C15_text_positions_frange.patch, after which the count is `segment_count` for all floats). -/
theorem C15_counts (l : Legend) (wf : l.WF) :
    l.segmentNumbers.length = l.segCount ∧
    l.segmentText.length = l.segCount ∧
    (∀ sc : List RGB, l.segmentColors = .ok sc → sc.length = l.segCount) ∧
    l.textPoints.length = l.segCount ∧
    l.segmentLength = (if l.par.continuousLegend then l.segCount - 1 else l.segCount) ∧
    (∀ m, l.mesh = .ok m → m.1 = l.segmentLength ∧ m.2.1 = 2 * (l.segmentLength + 1) ∧
      (m.2.2.length = m.1 ∨ m.2.2.length = m.2.1)) := by
  have hnum := (C15_segment_numbers l).1
  refine ⟨hnum, ?_, ?_, ?_, rfl, ?_⟩
  · -- labels
    unfold Legend.segmentText
    cases hcat : l.par.cat with
    | some c =>
      obtain ⟨hne, hlen, _, hnames⟩ := wf.cat c hcat
      cases hn : c.names with
      | some ns => simp only [hn]; exact hnames ns hn
      | none => simp only [hn]; rw [catNames_length _ _ _ hne]; exact hlen
    | none =>
      cases hord : l.par.ordinal with
      | none =>
        simp only []
        split_ifs
        · rw [markEnds_length]; simpa using hnum
        · simpa using hnum
      | some d => simpa using hnum
  · -- colours
    intro sc hsc
    cases hcat : l.par.cat with
    | some c =>
      simp [Legend.segmentColors, hcat] at hsc
      rw [← hsc]; exact (wf.cat c hcat).2.2.1
    | none =>
      cases hcr : l.colorRange with
      | error e => simp [Legend.segmentColors, hcat, hcr] at hsc
      | ok cr => exact ((C15_segment_colors l hcat).2 cr hcr sc hsc).1
  · -- text positions
    unfold Legend.textPoints
    split_ifs
    · rw [List.length_map, frange_length _ _ wf.segH_pos]
    · simp only [List.length_map]; rw [frange_length _ _ wf.segW_pos]
  · -- mesh
    intro m hm
    unfold Legend.mesh at hm
    split at hm
    · simp at hm
    · split at hm
      · simp at hm
      · split at hm
        · rename_i h1
          injection hm with hm
          subst hm
          exact ⟨rfl, rfl, h1⟩
        · simp at hm

/-- Defaults derive from the data: a missing minimum / maximum is the least / greatest value of
    the data set (a given one is kept), and a legend whose data are a single value — with no
    bounds and no segment count given — has exactly one segment showing that value. -/
theorem C15_defaults (vals : List Rat) (p : Par) (l : Legend) (h : Legend.make vals p = .ok l) :
    l.values = vals ∧ l.par = p ∧
    (∀ m, p.min = some m → l.min = m) ∧ (∀ m, p.max = some m → l.max = m) ∧
    (p.min = none → l.min ∈ vals ∧ ∀ v ∈ vals, l.min ≤ v) ∧
    (p.max = none → l.max ∈ vals ∧ ∀ v ∈ vals, v ≤ l.max) ∧
    l.segCount = (if l.min = l.max ∧ p.cat.isNone ∧ p.segCountDefault then 1 else p.segCount) ∧
    (∀ v, (∀ x ∈ vals, x = v) → p.min = none → p.max = none → p.cat = none →
      p.segCountDefault = true → l.segCount = 1 ∧ l.segmentNumbers = [v]) := by
  unfold Legend.make at h
  cases hmin : minList vals with
  | none => simp [hmin] at h
  | some vmin =>
    cases hmax : maxList vals with
    | none => simp [hmin, hmax] at h
    | some vmax =>
      simp only [hmin, hmax] at h
      split at h
      · simp at h
      split at h
      · simp at h
      injection h with h
      subst h
      have hsmin := minList_spec hmin
      have hsmax := maxList_spec hmax
      refine ⟨rfl, rfl, ?_, ?_, ?_, ?_, ?_, ?_⟩
      · intro m hm; simp [hm]
      · intro m hm; simp [hm]
      · intro hm; simp only [hm, Option.getD_none]; exact hsmin
      · intro hm; simp only [hm, Option.getD_none]; exact hsmax
      · simp
      · intro v hall hmn hmx hcat hdef
        have e1 : vmin = v := hall _ hsmin.1
        have e2 : vmax = v := hall _ hsmax.1
        have hsc : (⟨vals, p, p.min.getD vmin, p.max.getD vmax,
            if p.min.getD vmin = p.max.getD vmax ∧ p.cat.isNone ∧ p.segCountDefault then 1
            else p.segCount, p.min.isNone, p.max.isNone⟩ : Legend).segCount = 1 := by
          simp [hmn, hmx, hcat, hdef, e1, e2]
        refine ⟨hsc, ?_⟩
        have := ((C15_segment_numbers _).2.1 hsc)
        rw [this]
        simp [hmn, e1]

/-- Every legend the constructors accept is well formed (plain parameters): at least one segment,
    positive segment dimensions — so `C15_counts` applies to it. -/
theorem C15_wf_plain (mn mx : Option Rat) (sc : Option Nat) (cols : Option (List RGB))
    (cl vert : Bool) (dc : Nat) (ils : Bool) (ord : Option (List (Int × String)))
    (sh sw th : Option Rat) (p : Par)
    (hp : Par.mkPlain mn mx sc cols cl vert dc ils ord sh sw th = .ok p)
    (vals : List Rat) (l : Legend) (hl : Legend.make vals p = .ok l) : l.WF := by
  unfold Par.mkPlain at hp
  simp only at hp
  split_ifs at hp with h1 h2 h3 h4
  injection hp with hp
  subst hp
  obtain ⟨hv, hpar, _, _, _, _, hcount, _⟩ := C15_defaults _ _ _ hl
  have hd := dims_pos sh sw th vert h4
  refine ⟨?_, ?_, ?_, ?_⟩
  · rw [hcount]
    split_ifs
    · exact le_refl 1
    · cases sc with
      | none => simp
      | some n => simp at h2 ⊢; omega
  · simp only [Legend.segH, hpar]; exact hd.1
  · simp only [Legend.segW, Legend.textH, Legend.segH, hpar]; exact hd.2.2
  · intro c hc; simp [hpar] at hc

/-- Every legend the constructors accept is well formed (categorised parameters): the segment
    count is one more than the number of boundaries and equals the number of colours and names. -/
theorem C15_wf_cat (dom : List Rat) (cols : List RGB) (names : Option (List String))
    (cc : Option Bool) (cl vert : Bool) (dc : Nat) (ils : Option Bool)
    (sh sw th : Option Rat) (p : Par)
    (hp : Par.mkCat dom cols names cc cl vert dc ils sh sw th = .ok p)
    (vals : List Rat) (l : Legend) (hl : Legend.make vals p = .ok l) : l.WF := by
  unfold Par.mkCat at hp
  simp only at hp
  split_ifs at hp with h1 h2 h3 h4
  injection hp with hp
  subst hp
  obtain ⟨hv, hpar, _, _, _, _, hcount, _⟩ := C15_defaults _ _ _ hl
  have hd := dims_pos sh sw th vert h4
  have hcount' : l.segCount = (sortDom dom).length + 1 := by rw [hcount]; simp
  refine ⟨by omega, ?_, ?_, ?_⟩
  · simp only [Legend.segH, hpar]; exact hd.1
  · simp only [Legend.segW, Legend.textH, Legend.segH, hpar]; exact hd.2.2
  · intro c hc
    simp only [hpar, Option.some.injEq] at hc
    subst hc
    refine ⟨by simpa using h1, ?_, ?_, ?_⟩
    · show (sortDom dom).length + 1 = l.segCount
      rw [hcount']
    · show l.par.colors.length = l.segCount
      rw [hcount', hpar]
      simp at h2
      exact h2
    · intro ns hns
      have hns' : names = some ns := hns
      subst hns'
      rw [hcount']
      simp at h3
      exact h3

/-- Label content, plain numeric legends (no ordinal dictionary): label `i` is the `%.nf` form of
    segment number `i` at `decimal_count` digits; with `include_larger_smaller` the first label gets
    a leading `<` and the last a leading `>` (a one-label legend gets both, `><…`: the code applies
    them one after the other).  Token level: the formatted number is a sign and a magnitude in
    units of `10^-n`, and it denotes exactly `round(number, n)` (half to even) — the rendering of
    the token into characters is tied by correspondence (`fmt` op) only. -/
theorem C15_segment_text_numeric (l : Legend) (hplain : l.par.cat = none)
    (hord : l.par.ordinal = none) :
    (l.par.includeLS = false →
      l.segmentText = l.segmentNumbers.map (fmtFixed · l.par.decimalCount)) ∧
    (l.par.includeLS = true →
      l.segmentText = markEnds (l.segmentNumbers.map (fmtFixed · l.par.decimalCount))) ∧
    (∀ x n, fmtFixed x n = renderToken (fmtToken x n) n ∧
      tokenValue (fmtToken x n) n = Py.roundN x n) ∧
    (∀ (x y : String) (mid : List String),
      markEnds (x :: (mid ++ [y])) = ("<" ++ x) :: (mid ++ [">" ++ y])) ∧
    (∀ x : String, markEnds [x] = [">" ++ ("<" ++ x)]) := by
  refine ⟨?_, ?_, fun x n => ⟨rfl, tokenValue_fmtToken x n⟩, markEnds_ends, markEnds_single⟩
  · intro h; simp [Legend.segmentText, hplain, hord, h]
  · intro h; simp [Legend.segmentText, hplain, hord, h]

/-- Label content, ordinal dictionaries: label `i` is the text mapped to segment number `i` when
    that number equals an integer key, and the empty string otherwise. -/
theorem C15_segment_text_ordinal (l : Legend) (hplain : l.par.cat = none)
    (d : List (Int × String)) (hord : l.par.ordinal = some d) :
    l.segmentText = l.segmentNumbers.map (ordLookup d) ∧
    (∀ x : Rat, (∀ kv ∈ d, (kv.1 : Rat) ≠ x) → ordLookup d x = "") ∧
    (∀ (x : Rat) (k : Int) (t : String), (k, t) ∈ d → (k : Rat) = x →
      (∀ kv ∈ d, kv.1 = k → kv.2 = t) → ordLookup d x = t) := by
  refine ⟨by simp [Legend.segmentText, hplain, hord], ordLookup_none d, ordLookup_some d⟩

/-- graphic.py: a `GraphicContainer` (without data type) colours its values exactly as the `Legend`
    built from the same values and parameters does — the container only fills in default 3D
    dimensions, which no colour depends on; numbers, segment colours and labels agree as well. -/
theorem C15_graphic_value_colors (vals : List Rat) (p : Par) (x0 y0 x1 y1 : Rat) (g : Graphic)
    (hg : Graphic.make vals p x0 y0 x1 y1 = .ok g) :
    ∃ l, Legend.make vals p = .ok l ∧
      g.valueColors = l.valueColors ∧ g.legend.colorRange = l.colorRange ∧
      g.legend.segmentNumbers = l.segmentNumbers ∧ g.legend.segmentColors = l.segmentColors ∧
      g.legend.segmentText = l.segmentText ∧ g.legend.segCount = l.segCount ∧
      g.legend.values = l.values := by
  unfold Graphic.make at hg
  cases hl : Legend.make vals p with
  | error e => simp [hl] at hg
  | ok l =>
    simp only [hl] at hg
    by_cases hh : graphicSegH p l.segCount x0 y0 x1 y1 ≤ 0
    · rw [if_pos hh] at hg; simp at hg
    · rw [if_neg hh] at hg
      injection hg with hg
      subst hg
      exact ⟨l, rfl, rfl, rfl, rfl, rfl, rfl, rfl, rfl⟩

/-! Non-vacuity: the docstring legends of legend.py. -/

private def exPlain : Except Err Legend :=
  (Par.mkPlain none none (some 6) none false true 2 false none none none none).bind
    (Legend.make [0, 1, 2, 3, 4, 5, 6, 7, 8, 9])

example : exPlain.map (fun l => (l.min, l.max, l.segCount, l.segmentNumbers)) =
    .ok (0, 9, 6, [0, 9 / 5, 18 / 5, 27 / 5, 36 / 5, 9]) := by decide +kernel
example : exPlain.map (fun l => l.segmentText.length) = .ok 6 := by decide +kernel
example : exPlain.map (fun l => l.textPoints.length) = .ok 6 := by decide +kernel
example : exPlain.map (fun l => l.segmentLength) = .ok 6 := by decide +kernel

end Leg

namespace Obj15

open Col Leg

/-! ## Histories on one object (Model/C15Obj.lean) -/

/-- A refused operation leaves the object as it was: when a step of the colour-range machine or of
    the parameters/legend session answers `refused` (the setter, constructor or copy raised), the
    state after the step is the state before it — hence every later observation (colours, segment
    numbers, labels, value colours, mesh) is what it would have been without the refused call. -/
theorem C15_refused_preserves :
    (∀ (cr : ColorRange) (op : CROp) (e : Rej),
      (crStep cr op).2 = .refused e → (crStep cr op).1 = cr) ∧
    (∀ (s : Sess) (op : LOp) (e : Rej),
      (lStep s op).2 = .refused e → (lStep s op).1 = s) := by
  constructor
  · intro cr op e h
    cases op with
    | setColors cols => simp only [crStep] at h ⊢; split <;> simp_all
    | setDomain dom => simp only [crStep] at h ⊢; split <;> simp_all
    | readColor v => rfl
    | readState => rfl
    | duplicate => simp only [crStep] at h ⊢; split <;> simp_all
  · intro s op e h
    cases op with
    | setP f => simp only [lStep] at h ⊢; split <;> simp_all
    | setL f =>
      simp only [lStep] at h ⊢
      split
      · rfl
      · split <;> simp_all
    | build vals => simp only [lStep] at h ⊢; split <;> simp_all
    | buildG x0 y0 x1 y1 vals => simp only [lStep] at h ⊢; split <;> simp_all
    | obsL => simp only [lStep] at h ⊢; split <;> rfl
    | obsP => rfl
    | dupP => rfl
    | dupL =>
      simp only [lStep] at h ⊢
      split
      · rfl
      · split <;> simp_all
    | dictP => simp [lStep] at h
    | dictL =>
      simp only [lStep] at h ⊢
      split
      · rfl
      · split <;> simp_all

/-- Reads are pure: reading a colour, the public state, the legend's observables or the parameters
    changes nothing, so reads can be repeated and re-ordered freely — the answer of a read does not
    depend on which reads came before it. -/
theorem C15_read_pure :
    (∀ (cr : ColorRange) (op : CROp), op.isRead = true → (crStep cr op).1 = cr) ∧
    (∀ (s : Sess) (op : LOp), op.isRead = true → (lStep s op).1 = s) ∧
    (∀ (s : Sess) (r1 r2 : LOp), r1.isRead = true → r2.isRead = true →
      (lStep (lStep s r1).1 r2).2 = (lStep s r2).2 ∧ (lStep (lStep s r2).1 r1).2 = (lStep s r1).2) := by
  have hl : ∀ (s : Sess) (op : LOp), op.isRead = true → (lStep s op).1 = s := by
    intro s op h
    cases op with
    | obsL => simp only [lStep]; split <;> rfl
    | obsP => rfl
    | setP f => simp [LOp.isRead] at h
    | setL f => simp [LOp.isRead] at h
    | build vals => simp [LOp.isRead] at h
    | buildG x0 y0 x1 y1 vals => simp [LOp.isRead] at h
    | dupP => simp [LOp.isRead] at h
    | dupL => simp [LOp.isRead] at h
    | dictP => simp [LOp.isRead] at h
    | dictL => simp [LOp.isRead] at h
  refine ⟨?_, hl, ?_⟩
  · intro cr op h
    cases op with
    | readColor v => rfl
    | readState => rfl
    | setColors cols => simp [CROp.isRead] at h
    | setDomain dom => simp [CROp.isRead] at h
    | duplicate => simp [CROp.isRead] at h
  · intro s r1 r2 h1 h2
    rw [hl s r1 h1, hl s r2 h2]
    exact ⟨rfl, rfl⟩

/-- History refines fresh (plain `LegendParameters`): start from any parameters the constructor
    accepts, run ANY history of session operations — accepted and refused assignments to the
    parameters or to the live legend's parameters, builds of legends and graphic containers,
    duplicates, dictionary round trips, reads, in any order and number.  The parameters object then
    equals the object built in one go (constructor + setters) from its final public attributes, so
    every legend built from it — and every segment number, label, colour, value colour and mesh of
    that legend — is the one a fresh object with the same public state gives.  There is no hidden
    state a history could leave behind.
    Not covered by this theorem (compared step by step by the `lhist` / `crhist` correspondence and
    judged by the history oracle only): categorised parameters, the live legend's own parameters
    (a defaulted segment count resolved to 1 is kept by later assignments), colour-range objects. -/
theorem C15_history_refines_fresh (mn mx : Option Rat) (sc : Option Nat) (cols : Option (List RGB))
    (cl vert : Bool) (dc : Nat) (ils : Bool) (ord : Option (List (Int × String)))
    (sh sw th : Option Rat) (p0 : Par)
    (hp : Par.mkPlain mn mx sc cols cl vert dc ils ord sh sw th = .ok p0)
    (live : Option Live) (ops : List LOp) :
    freshPlain (lRun ⟨p0, live⟩ ops).1.par = .ok (lRun ⟨p0, live⟩ ops).1.par ∧
    ∀ vals : List Rat,
      (freshPlain (lRun ⟨p0, live⟩ ops).1.par).bind (Legend.make vals) =
        Legend.make vals (lRun ⟨p0, live⟩ ops).1.par := by
  have wf := lRun_par_wf ops ⟨p0, live⟩ (mkPlain_wf hp)
  have h := freshPlain_eq _ wf
  refine ⟨h, ?_⟩
  intro vals
  rw [h]
  rfl

/-! Non-vacuity: a rejected minimum, a rejected colour list and a re-coloured range. -/

private def p010 : Par :=
  match Par.mkPlain (some 0) (some 10) (some 6) none false true 2 false none none none none with
  | .ok p => p
  | .error _ => ⟨none, none, 0, false, [], false, false, 0, false, none, none, none, none, none⟩

example : (lStep ⟨p010, none⟩ (.setP (.min (some 50)))).1.par = p010 := by decide +kernel
example : (parSet p010 (.colors (some [⟨1, 2, 3⟩]))).toOption = none := by decide +kernel
example : (parSet p010 (.min (some 10))).toOption.map (·.min) = some (some 10) := by decide +kernel
example : ((lRun ⟨p010, none⟩ [.setP (.min (some 50)), .build [0, 5, 10], .setL (.max (some (-5))),
    .obsL]).1.live.map (fun o => (o.par.min, o.par.max))) = some (some 0, some 10) := by decide +kernel

end Obj15


/-! ## Round 4: graphic containers with a data type (graphic.py 66-94, Model/C15Graphic.lean) -/

namespace Leg

open Col

/-- Without a data type (or with a data type that has no categories) the typed constructor is the
    plain `GraphicContainer` of `C15_graphic_value_colors`: all earlier theorems apply to it. -/
theorem C15_typed_no_datatype (vals : List Rat) (p : Par) (a b c d : Rat) :
    Graphic.makeTyped vals p none a b c d = Graphic.make vals p a b c d := by
  unfold Graphic.makeTyped Graphic.make
  cases h : Legend.make vals p with
  | error e => rfl
  | ok l =>
    have hp : l.par = p := (C15_defaults vals p l h).2.1
    simp only [hp]

/-- A user-given ordinal dictionary and categorised parameters are left alone: the data type's
    categories then change nothing (the sibling classes of parameters agree with the untyped
    container). -/
theorem C15_typed_kept (vals : List Rat) (p : Par) (ud : Option (List (Int × String))) (a b c d : Rat)
    (h : p.ordinal.isSome ∨ p.cat.isSome) :
    Graphic.makeTyped vals p ud a b c d = Graphic.make vals p a b c d := by
  unfold Graphic.makeTyped Graphic.make
  cases hm : Legend.make vals p with
  | error e => rfl
  | ok l =>
    have hp : l.par = p := (C15_defaults vals p l hm).2.1
    have happ : ordinalApplies l = false := by
      unfold ordinalApplies
      rw [hp]
      rcases h with h | h
      · cases ho : p.ordinal with
        | none => rw [ho] at h; simp at h
        | some _ => simp
      · cases hc : p.cat with
        | none => rw [hc] at h; simp at h
        | some _ => simp
    cases ud with
    | none => simp only [hp]
    | some dd => simp only [happ, hp, Bool.false_eq_true, if_false]

/-- Aliasing / iteration order (seeded class f): the bounds and the segment count that an ordinal
    data type contributes depend only on the SET of its keys — two dictionaries whose keys are a
    permutation of each other (any insertion order) give the same minimum, maximum and count, and
    are refused alike. -/
theorem C15_typed_dict_order_independent (l : Legend) (d1 d2 : List (Int × String))
    (h : (d1.map (·.1)).Perm (d2.map (·.1))) :
    (l.applyOrdinal d1).map (fun r => (r.min, r.max, r.segCount)) =
    (l.applyOrdinal d2).map (fun r => (r.min, r.max, r.segCount)) := by
  unfold Legend.applyOrdinal
  rw [sortKeys_perm h]
  generalize ordinalBounds l.isMinDefault l.isMaxDefault l.par.segCountDefault l.min l.max
    (sortKeys (d2.map (·.1))) = r
  rcases r with e | ⟨mn, mx, _ | n⟩ <;> rfl

/-- ... and so do the labels: looking a segment number up gives the same text for every order of
    the dictionary entries (distinct keys). -/
theorem C15_typed_labels_order_independent (d1 d2 : List (Int × String)) (h : d1.Perm d2)
    (hnd : (d1.map (·.1)).Nodup) (nums : List Rat) :
    nums.map (ordLookup d1) = nums.map (ordLookup d2) := by
  apply List.map_congr_left
  intro x _
  exact ordLookup_perm h hnd x

/-- Defaults derive from the data type: a defaulted minimum is the LEAST key of the unit
    description and a defaulted maximum the GREATEST key (not the first / last entry as written);
    given bounds are kept; the result always has min ≤ max. -/
theorem C15_typed_bounds (imn imx cd : Bool) (mn0 mx0 : Rat) (ks : List Int) (mn mx : Rat)
    (o : Option Nat) (h : ordinalBounds imn imx cd mn0 mx0 (sortKeys ks) = .ok (mn, mx, o)) :
    (imn = true → ∃ k ∈ ks, (k : Rat) = mn ∧ ∀ j ∈ ks, k ≤ j) ∧ (imn = false → mn = mn0) ∧
    (imx = true → ∃ k ∈ ks, (k : Rat) = mx ∧ ∀ j ∈ ks, j ≤ k) ∧ (imx = false → mx = mx0) ∧
    mn ≤ mx := by
  unfold ordinalBounds at h
  split at h
  · rename_i a b ha hb
    have hres : a = mn ∧ b = mx ∧ ¬ b < a := by
      split at h
      · simp at h
      · rename_i hlt
        split at h
        · split at h
          · injection h with h; injection h with h1 h2; injection h2 with h2 h3
            exact ⟨h1, h2, hlt⟩
          · simp at h
          · simp at h
        · injection h with h; injection h with h1 h2; injection h2 with h2 h3
          exact ⟨h1, h2, hlt⟩
    obtain ⟨rfl, rfl, hle⟩ := hres
    refine ⟨?_, ?_, ?_, ?_, not_lt.mp hle⟩
    · intro hi
      simp only [hi, if_true, Option.map_eq_some_iff] at ha
      obtain ⟨k, hk, rfl⟩ := ha
      exact ⟨k, (sortKeys_head hk).1, rfl, (sortKeys_head hk).2⟩
    · intro hi
      simp only [hi, Bool.false_eq_true, if_false] at ha
      injection ha with ha; exact ha.symm
    · intro hi
      simp only [hi, if_true, Option.map_eq_some_iff] at hb
      obtain ⟨k, hk, rfl⟩ := hb
      exact ⟨k, (sortKeys_last hk).1, rfl, (sortKeys_last hk).2⟩
    · intro hi
      simp only [hi, Bool.false_eq_true, if_false] at hb
      injection hb with hb; exact hb.symm
  · simp at h

/-- Non-vacuity: the built-in `ThermalComfort` description is written `{1: .., 0: ..}`; with all
    defaults its container runs from 0 to 1 in two segments (the whole constructor is evaluated on
    this input by the `#guard`s of Model/C15Graphic.lean). -/
example : ordinalBounds true true true 1 1 (sortKeys [1, 0]) = .ok (0, 1, some 2) := by
  rw [sortKeys_one_zero]; decide +kernel

/-- The recorded defect (finding C15-graphic-ordinal-bound-not-a-key): a given bound that is not a
    key of the unit description makes the container raise `ValueError` instead of keeping the
    default segment count (the `except IndexError` of graphic.py:93 never matches). -/
theorem C15_typed_bound_not_a_key_counterexample :
    ordinalBounds false true true (1 / 2) 1 (sortKeys [1, 0]) = .error .value := by
  rw [sortKeys_one_zero]; decide +kernel

end Leg
