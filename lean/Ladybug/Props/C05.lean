/-
  C05 — Sun positions agree with an independent astronomical ephemeris.
  Property theorems only (helper lemmas in Proofs/C05Real.lean, Proofs/C05Lemmas.lean).

  The model (Model/Sun.lean) is ONE set of polymorphic definitions: its `Float` instance is executed
  by Drv/C05.lean and compared with ladybug/sunpath.py on every run (harness/props/c05.py); the
  theorems below are about its real-number instance (or, for the integer / date-time logic, about
  every instance).  PARTIAL BY NATURE (DESIGN.md section 9): that the NOAA series lies within 0.05°
  of an independent ephemeris, time-zone shift invariance and the noon claim on the real code are
  sampled sub-claims of the check, not theorems.  What is proved here: everything in the statement
  that is algebra, trigonometric identity or branch logic.
-/
import Ladybug.Proofs.C05Lemmas
import Ladybug.Proofs.C05Obj
import Ladybug.Model.SunExt

open Real

namespace Sun


/-! ### The day count since 1900 -/

/-- The literal fast paths of `_days_from_010119` for 2017 (42734) and 2016 (42368) are the values
    of the general loop: the function as coded equals the general day count for every date. -/
theorem C05_days_from_1900 (y m d : Nat) : daysFrom010119 y m d = daysFrom010119General y m d := by
  unfold daysFrom010119 daysFrom010119General daysInPrecedingYears
  have h17 : daysInPrecedingYearsGeneral 2017 = 42734 := by decide +kernel
  have h16 : daysInPrecedingYearsGeneral 2016 = 42368 := by decide +kernel
  split
  · next h => rw [h, h17]
  · split
    · next h => rw [h, h16]
    · rfl

/-- Closed form of the general loop: 365 days per year since 1900 plus the Gregorian leap years in
    between (`leapsBefore y` counts leap years among 1..y-1; 460 of them precede 1900). -/
theorem C05_days_closed_form (y : Nat) (h : 1900 ≤ y) :
    daysInPrecedingYearsGeneral y + 460 = 365 * (y - 1900) + leapsBefore y := by
  obtain ⟨n, rfl⟩ := Nat.exists_eq_add_of_le h
  rw [sub1900]
  exact daysInPrecedingYearsGeneral_closed n

/-! ### The three entry points -/

section Entry

variable {α : Type} [Add α] [Sub α] [Mul α] [Div α] [Neg α] [OfScientific α] [LT α] [LE α]
  [DecidableLT α] [DecidableLE α] [Transc α]

/-- For one instant — a valid date-time `d` of the sunpath's year — asking by minute of the year
    (`d.moy`), by hour of the year (`d.moy / 60`, passed as the product `hoy * 60`) or by
    month/day/hour (`hour = d.hour + d.minute / 60`, passed as `int(hour)` and the product
    `(hour - int(hour)) * 60`) builds the same date-time `d` (C08) and therefore the same sun:
    all three equal `calculate_sun_from_date_time(d)`.  Holds for every numeric instance (Float, ℝ).
    The float formation of `hoy * 60` and `(hour - int hour) * 60` is exact on the minute grid
    by comparison only (ops `hm`, `sun_mdh`, `sun_hoy`). -/
theorem C05_entry_points (ofN : Nat → α) (c : Cfg α) (d : Cal.DT) (hv : d.valid)
    (hl : d.leap = c.leap) (solar : Bool) :
    calcSunFromMoy ofN c (d.moy : Int) solar = liftSun (sunOfDT ofN c d solar) ∧
    calcSunFromHoy ofN c (((d.moy : Nat) : Int) : Rat) solar = liftSun (sunOfDT ofN c d solar) ∧
    calcSun ofN c d.month d.day (d.hour : Int) (((d.minute : Nat) : Int) : Rat) solar
      = liftSun (sunOfDT ofN c d solar) := by
  have hmoy : Cal.fromMoy c.leap (d.moy : Int) = .ok d := by rw [← hl]; exact Cal.C08_moy_fromMoy d hv
  refine ⟨?_, ?_, ?_⟩
  · unfold calcSunFromMoy withDT; rw [hmoy]
  · unfold calcSunFromHoy withDT; rw [Cal.C08_fromHoy_grid, hmoy]
  · have hv' := hv
    obtain ⟨_, _, _, _, _, h6⟩ := hv
    have hm : ¬ ((60 : Int) ≤ (d.minute : Int)) := by omega
    have hneg : ¬ (((d.hour : Int) < 0) ∨ ((d.minute : Int) < 0)) := by omega
    unfold calcSun withDT dtOfMDH hmOfFloatHour
    simp only [round_intCast, hm, if_false, hneg, Int.toNat_natCast]
    rw [← hl, Cal.make_of_valid d hv']

/-- The month/day/hour entry point splits an exact fractional hour `h + m/60` into `(h, m)`:
    `int()` truncates to `h` and the product `(hour - h) * 60` is the integer `m`. -/
theorem C05_hour_split (h m : Nat) (hm : m < 60) :
    Py.truncRat ((h : Rat) + (m : Rat) / 60) = h ∧
    (((h : Rat) + (m : Rat) / 60) - (h : Rat)) * 60 = ((m : Int) : Rat) := by
  constructor
  · unfold Py.truncRat
    have hnn : (0 : Rat) ≤ (h : Rat) + (m : Rat) / 60 := by positivity
    rw [if_pos hnn]
    have hm0 : (0 : Rat) ≤ (m : Rat) / 60 := by positivity
    have hm1 : (m : Rat) / 60 < 1 := by
      rw [div_lt_one (by norm_num)]
      exact_mod_cast hm
    apply Int.le_antisymm
    · apply Int.lt_add_one_iff.mp
      rw [Rat.floor_lt_iff]
      push_cast
      linarith
    · rw [Rat.le_floor_iff]
      push_cast
      linarith
  · push_cast; ring

end Entry

/-! ### The Sun object: vector, day flag -/

/-- The reversed sun vector is the unit vector of the altitude and azimuth,
    `(sin az · cos alt, cos az · cos alt, sin alt)`, rotated counter-clockwise about the z axis by
    the north angle (no rotation when the north angle is 0 — the code's `!= 0` test). -/
theorem C05_vector_formula (alt az north : ℝ) :
    sunVectorReversed alt az north =
      (Real.cos (rad north) * (Real.sin (rad az) * Real.cos (rad alt))
          - Real.sin (rad north) * (Real.cos (rad az) * Real.cos (rad alt)),
       Real.sin (rad north) * (Real.sin (rad az) * Real.cos (rad alt))
          + Real.cos (rad north) * (Real.cos (rad az) * Real.cos (rad alt)),
       Real.sin (rad alt)) := by
  unfold sunVectorReversed
  rw [rotate3_north]
  simp only [rotateXY_eq, lit0, Real.cos_neg, Real.sin_neg]
  by_cases hn : north < 0 ∨ 0 < north
  · rw [if_pos hn]
    ext <;> simp
  · rw [if_neg hn]
    have h0 : north = 0 := by
      rw [not_or, not_lt, not_lt] at hn
      exact le_antisymm hn.2 hn.1
    rw [h0, rad_zero]
    ext <;> simp

/-- `sun_vector` is the reversed vector negated (it points from the sun down to the scene). -/
theorem C05_vector_reversed (alt az north : ℝ) :
    sunVector alt az north =
      (-(sunVectorReversed alt az north).1, -(sunVectorReversed alt az north).2.1,
       -(sunVectorReversed alt az north).2.2) := rfl

/-- The sun vector is a unit vector, for every altitude, azimuth and north angle. -/
theorem C05_vector_unit (alt az north : ℝ) :
    (sunVector alt az north).1 ^ 2 + (sunVector alt az north).2.1 ^ 2
      + (sunVector alt az north).2.2 ^ 2 = 1 := by
  rw [C05_vector_reversed, C05_vector_formula]
  simp only
  have h1 := Real.sin_sq_add_cos_sq (rad north)
  have h2 := Real.sin_sq_add_cos_sq (rad az)
  have h3 := Real.sin_sq_add_cos_sq (rad alt)
  have e : (-(Real.cos (rad north) * (Real.sin (rad az) * Real.cos (rad alt))
          - Real.sin (rad north) * (Real.cos (rad az) * Real.cos (rad alt)))) ^ 2
      + (-(Real.sin (rad north) * (Real.sin (rad az) * Real.cos (rad alt))
          + Real.cos (rad north) * (Real.cos (rad az) * Real.cos (rad alt)))) ^ 2
      + (-Real.sin (rad alt)) ^ 2
      = (Real.sin (rad north) ^ 2 + Real.cos (rad north) ^ 2)
          * ((Real.sin (rad az) ^ 2 + Real.cos (rad az) ^ 2) * Real.cos (rad alt) ^ 2)
        + Real.sin (rad alt) ^ 2 := by ring
  rw [e, h1, h2]
  linarith

/-- The sun vector points down (z < 0) exactly when the altitude is positive, i.e. in (0, 90]. -/
theorem C05_vector_down_by_day (alt az north : ℝ) (h1 : -90 ≤ alt) (h2 : alt ≤ 90) :
    (sunVector alt az north).2.2 < 0 ↔ 0 < alt := by
  rw [C05_vector_reversed, C05_vector_formula]
  simp only
  obtain ⟨r1, r2⟩ := rad_mem alt h1 h2
  rw [neg_lt_zero, sin_pos_iff _ r1 r2, rad_pos_iff]

/-- A sun is reported as up (`is_during_day`, i.e. `sun_vector.z <= 0`) exactly when its altitude
    is not negative (altitudes are in [-90, 90] by the constructor's assertion). -/
theorem C05_is_during_day (alt az north : ℝ) (h1 : -90 ≤ alt) (h2 : alt ≤ 90) :
    isDuringDay alt az north = true ↔ 0 ≤ alt := by
  unfold isDuringDay
  rw [decide_eq_true_iff, C05_vector_reversed, C05_vector_formula]
  simp only
  obtain ⟨r1, r2⟩ := rad_mem alt h1 h2
  rw [lit0, neg_nonpos, sin_nonneg_iff _ r1 r2, rad_nonneg_iff]

/-- `azimuth_from_y_axis` is the azimuth minus the north angle brought back into [0, 360]
    (for azimuths in [0, 360] and north angles in [-360, 360]). -/
theorem C05_azimuth_from_y_axis (az north : ℝ) (ha : 0 ≤ az ∧ az ≤ 360)
    (hn : -360 ≤ north ∧ north ≤ 360) :
    0 ≤ azimuthFromYAxis az north ∧ azimuthFromYAxis az north ≤ 360 ∧
      ∃ k : ℤ, azimuthFromYAxis az north = az - north + 360 * k := by
  unfold azimuthFromYAxis
  simp only [lit0, lit360]
  split_ifs with h1 h2
  · exact ⟨by linarith, by linarith, -1, by push_cast; ring⟩
  · exact ⟨by linarith, by linarith, 1, by push_cast; ring⟩
  · exact ⟨by linarith, by linarith, 0, by push_cast; ring⟩

/-- Every Sun object the model builds (`Sun.__init__`, hence every sun returned by the entry
    points): it exists only for altitudes in [-90, 90]; it is reported as up exactly when its
    altitude is not negative; its vector is a unit vector, the negated reversed vector, pointing
    down exactly when the altitude is positive. -/
theorem C05_sun_object (d : Cal.DT) (alt az north : ℝ) (s : SunOut ℝ)
    (h : mkSun d alt az north = .ok s) :
    s.altitude = alt ∧ s.azimuth = az ∧ -90 ≤ alt ∧ alt ≤ 90 ∧
    (s.duringDay = true ↔ 0 ≤ s.altitude) ∧
    s.vec.1 ^ 2 + s.vec.2.1 ^ 2 + s.vec.2.2 ^ 2 = 1 ∧
    (s.vec.2.2 < 0 ↔ 0 < s.altitude) ∧
    s.vec = (-s.rev.1, -s.rev.2.1, -s.rev.2.2) ∧
    s.rev = sunVectorReversed alt az north := by
  unfold mkSun at h
  have e90 : (90.0 : ℝ) = 90 := by norm_num
  split_ifs at h with h1 h2
  rw [e90] at h1
  injection h with h
  subst h
  exact ⟨rfl, rfl, h1.1, h1.2, C05_is_during_day alt az north h1.1 h1.2, C05_vector_unit alt az north,
    C05_vector_down_by_day alt az north h1.1 h1.2, rfl, rfl⟩

/-- ... in particular every sun returned by `calculate_sun_from_date_time` (real instance). -/
theorem C05_sun_of_date_time (ofN : Nat → ℝ) (c : Cfg ℝ) (d : Cal.DT) (solar : Bool) (s : SunOut ℝ)
    (h : sunOfDT ofN c d solar = .ok s) :
    (s.duringDay = true ↔ 0 ≤ s.altitude) ∧
    s.vec.1 ^ 2 + s.vec.2.1 ^ 2 + s.vec.2.2 ^ 2 = 1 ∧
    (s.vec.2.2 < 0 ↔ 0 < s.altitude) ∧
    s.rev = sunVectorReversed s.altitude s.azimuth (deg (rad c.north)) ∧
    deg (rad c.north) = c.north := by
  unfold sunOfDT at h
  obtain ⟨ha, hz, _, _, h5, h6, h7, _, h9⟩ := C05_sun_object _ _ _ _ s h
  exact ⟨h5, h6, h7, by rw [ha, hz]; exact h9, deg_rad _⟩

/-! ### Hour angle and azimuth quadrant -/

/-- Clock-time suns: the solar time lies in [0, 24) hours, whatever the longitude, time zone and
    equation of time (Python's `% 1440`), and the hour angle in [-180, 180). -/
theorem C05_hour_angle_range (hour eot lonRad tz : ℝ) :
    0 ≤ solarTime hour eot lonRad tz false ∧ solarTime hour eot lonRad tz false < 24 ∧
    -180 ≤ hourAngle (solarTime hour eot lonRad tz false * 60.0) ∧
    hourAngle (solarTime hour eot lonRad tz false * 60.0) < 180 := by
  have e1440 : (1440.0 : ℝ) = 1440 := by norm_num
  have e60 : (60.0 : ℝ) = 60 := by norm_num
  have e4 : (4.0 : ℝ) = 4 := by norm_num
  have hst : solarTime hour eot lonRad tz false
      = pyMod (hour * 60.0 + eot + 4.0 * deg lonRad - 60.0 * tz) 1440 / 60 := by
    unfold solarTime; simp [e1440, e60]
  set x := hour * 60.0 + eot + 4.0 * deg lonRad - 60.0 * tz
  have p0 := pyMod_nonneg x 1440 (by norm_num)
  have p1 := pyMod_lt x 1440 (by norm_num)
  have s0 : 0 ≤ solarTime hour eot lonRad tz false := by rw [hst]; positivity
  have s1 : solarTime hour eot lonRad tz false < 24 := by
    rw [hst, div_lt_iff₀ (by norm_num)]; linarith
  refine ⟨s0, s1, ?_, ?_⟩
  · unfold hourAngle
    simp only [lit0, lit180, e60, e4]
    split_ifs with h
    · linarith
    · linarith
  · unfold hourAngle
    simp only [lit0, lit180, e60, e4]
    split_ifs with h
    · linarith
    · linarith

/-- The hour angle is 15° per hour of solar time counted from noon: solar time `t ≥ 0` hours gives
    `15 t - 180`; in particular solar noon (`t = 12`) has hour angle 0. -/
theorem C05_hour_angle_noon (t : ℝ) (ht : 0 ≤ t) : hourAngle (t * 60.0) = 15 * t - 180 := by
  have e60 : (60.0 : ℝ) = 60 := by norm_num
  have e4 : (4.0 : ℝ) = 4 := by norm_num
  unfold hourAngle
  simp only [lit0, lit180, e60, e4]
  have : ¬ (t * 60 < 0) := by rw [not_lt]; positivity
  rw [if_neg this]; ring

/-- Azimuth quadrant logic, `az_init ∈ [-1, 1]`:
    afternoon (hour angle > 0) ⇒ azimuth = (arccos° + 180) mod 360 ∈ [180, 360) ∪ {0} (west half);
    morning (hour angle ≤ 0) ⇒ azimuth = (540 − arccos°) mod 360 ∈ [0, 180] (east half). -/
theorem C05_azimuth_quadrant (ha a : ℝ) (h1 : -1 ≤ a) (h2 : a ≤ 1) :
    (0 < ha → (180 ≤ azimuthOf ha a ∧ azimuthOf ha a < 360) ∨ azimuthOf ha a = 0) ∧
    (ha ≤ 0 → 0 ≤ azimuthOf ha a ∧ azimuthOf ha a ≤ 180) := by
  have hp := Real.pi_pos
  have hin : ¬ (a < -1.0 ∨ 1.0 < a) := by
    rw [lit1]; rintro (h | h) <;> linarith
  have d0 : 0 ≤ deg (Real.arccos a) := by
    rw [deg_eq]; exact mul_nonneg (Real.arccos_nonneg a) (by positivity)
  have d1 : deg (Real.arccos a) ≤ 180 := by
    rw [deg_eq]
    have := Real.arccos_le_pi a
    calc Real.arccos a * (180 / π) ≤ π * (180 / π) := mul_le_mul_of_nonneg_right this (by positivity)
      _ = 180 := by field_simp
  constructor
  · intro hpos
    unfold azimuthOf
    rw [if_neg hin]
    simp only [lit0, t_acos, lit180, lit360]
    rw [if_pos hpos]
    rcases d1.lt_or_eq with hlt | heq
    · left
      rw [pyMod_of_mem _ 360 (by norm_num) (by linarith) (by linarith)]
      constructor <;> linarith
    · right
      rw [heq, pyMod_sub_of_mem _ 360 (by norm_num) (by norm_num) (by norm_num)]
      norm_num
  · intro hneg
    unfold azimuthOf
    rw [if_neg hin]
    simp only [lit0, t_acos, lit540, lit360]
    rw [if_neg (not_lt.mpr hneg)]
    rw [pyMod_sub_of_mem _ 360 (by norm_num) (by linarith) (by linarith)]
    constructor <;> linarith

/-- The `ValueError` branch (|az_init| > 1 by round-off at perfect solar noon), as repaired by
    fixes/C05_noon_azimuth_north.patch: due south for `az_init > 1`, due north for `az_init < -1`
    — the values the in-range formula takes at `az_init = 1` and `az_init = -1`, for morning and
    afternoon alike (so the branch continues the formula instead of jumping by 180°). -/
theorem C05_azimuth_valueerror_branch (ha a : ℝ) :
    (1 < a → azimuthOf ha a = 180) ∧ (a < -1 → azimuthOf ha a = 0) ∧
    azimuthOf ha 1 = 180 ∧ azimuthOf ha (-1) = 0 := by
  refine ⟨?_, ?_, ?_, ?_⟩
  · intro h
    unfold azimuthOf
    simp only [lit1, lit0, lit180]
    rw [if_pos (Or.inr h), if_pos (by linarith)]
  · intro h
    unfold azimuthOf
    simp only [lit1, lit0, lit180]
    rw [if_pos (Or.inl h), if_neg (by linarith)]
  · unfold azimuthOf
    simp only [lit1, lit0, lit180, lit360, lit540, t_acos, Real.arccos_one]
    have hin : ¬ ((1 : ℝ) < -1 ∨ (1 : ℝ) < 1) := by norm_num
    have dz : deg (0 : ℝ) = 0 := by rw [deg_eq]; simp
    rw [if_neg hin, dz]
    split_ifs
    · rw [pyMod_of_mem _ 360 (by norm_num) (by norm_num) (by norm_num)]; norm_num
    · rw [pyMod_sub_of_mem _ 360 (by norm_num) (by norm_num) (by norm_num)]; norm_num
  · unfold azimuthOf
    simp only [lit1, lit0, lit180, lit360, lit540, t_acos, Real.arccos_neg_one]
    have hin : ¬ ((-1 : ℝ) < -1 ∨ (1 : ℝ) < -1) := by norm_num
    have hp := Real.pi_pos
    have dz : deg π = 180 := by rw [deg_eq]; field_simp
    rw [if_neg hin, dz]
    split_ifs
    · rw [pyMod_sub_of_mem _ 360 (by norm_num) (by norm_num) (by norm_num)]; norm_num
    · rw [pyMod_sub_of_mem _ 360 (by norm_num) (by norm_num) (by norm_num)]; norm_num

/-! ### Time zone and clock shifted together -/

/-- Shifting the time zone by `s` hours together with the clock (hour + s, day fraction + s/24)
    leaves the Julian day, the solar time and therefore the whole position unchanged — over the
    reals and WITHOUT the code's rounding of the day fraction to two decimals (PARTIAL: with the
    rounding the Julian day moves by up to 0.005 day, i.e. the declination by < 0.003°; the shift
    invariance of the real code is a sampled sub-claim, tolerance 0.01°). -/
theorem C05_tz_shift_partial (latRad lonRad tz hour days frac s : ℝ) :
    julianDay days (frac + s / 24) (tz + s) = julianDay days frac tz ∧
    solarTime (hour + s) (solarGeometry (julianDay days frac tz)).2 lonRad (tz + s) false
      = solarTime hour (solarGeometry (julianDay days frac tz)).2 lonRad tz false ∧
    position latRad lonRad (tz + s) (hour + s) (julianDay days (frac + s / 24) (tz + s)) false
      = position latRad lonRad tz hour (julianDay days frac tz) false := by
  have e24 : (24.0 : ℝ) = 24 := by norm_num
  have hj : julianDay days (frac + s / 24) (tz + s) = julianDay days frac tz := by
    unfold julianDay; rw [e24]
    generalize (2415018.5 : ℝ) = c
    ring
  have hs : ∀ eot : ℝ, solarTime (hour + s) eot lonRad (tz + s) false = solarTime hour eot lonRad tz false := by
    intro eot
    unfold solarTime
    simp only [Bool.false_eq_true, if_false]
    have e60 : (60.0 : ℝ) = 60 := by norm_num
    have e4 : (4.0 : ℝ) = 4 := by norm_num
    rw [e60, e4]
    congr 2
    ring
  refine ⟨hj, hs _, ?_⟩
  rw [hj]
  unfold position
  simp only [hs]

/-! ### The zenith angle: clamp and zero-division branch (repaired behaviour) -/

/-- `max(-1.0, min(1.0, x))` lands in [-1, 1] and is the identity there: `acos` never raises. -/
theorem C05_clamp_unit (x : ℝ) :
    -1 ≤ clampUnit x ∧ clampUnit x ≤ 1 ∧ (-1 ≤ x → x ≤ 1 → clampUnit x = x) := by
  unfold clampUnit
  simp only [lit1]
  refine ⟨?_, ?_, ?_⟩
  · split_ifs <;> linarith
  · split_ifs <;> linarith
  · intro h1 h2
    split_ifs <;> linarith

/-- Over the reals the cosine of the zenith angle is always in [-1, 1] (it is a convex combination
    of cos(lat − dec) and −cos(lat + dec)), so the clamp only ever absorbs floating-point round-off. -/
theorem C05_cos_zenith_range (lat dec ha : ℝ) :
    -1 ≤ cosZenith lat dec ha ∧ cosZenith lat dec ha ≤ 1 ∧
    clampUnit (cosZenith lat dec ha) = cosZenith lat dec ha := by
  have c1 := Real.cos_le_one (rad ha)
  have c2 := Real.neg_one_le_cos (rad ha)
  have a1 := Real.cos_le_one (lat - dec)
  have a2 := Real.neg_one_le_cos (lat - dec)
  have b1 := Real.cos_le_one (lat + dec)
  have b2 := Real.neg_one_le_cos (lat + dec)
  rw [Real.cos_sub] at a1 a2
  rw [Real.cos_add] at b1 b2
  have key : -1 ≤ cosZenith lat dec ha ∧ cosZenith lat dec ha ≤ 1 := by
    unfold cosZenith
    simp only [t_sin, t_cos]
    rcases le_total 0 (Real.cos lat * Real.cos dec) with hB | hB
    · constructor <;> nlinarith
    · constructor <;> nlinarith
  exact ⟨key.1, key.2, (C05_clamp_unit _).2.2 key.1 key.2⟩

/-- Sun exactly at the zenith (`cos(lat)·sin(zenith) = 0`, Python's `ZeroDivisionError`): the
    azimuth is reported as 180 instead of raising; otherwise it is the quadrant formula. -/
theorem C05_zenith_branch (latRad dec zenith ha : ℝ) :
    (Real.cos latRad * Real.sin zenith = 0 → azimuthAt latRad dec zenith ha = 180) ∧
    (Real.cos latRad * Real.sin zenith ≠ 0 →
      azimuthAt latRad dec zenith ha = azimuthOf ha (azInit latRad dec zenith)) := by
  unfold azimuthAt
  simp only [t_sin, t_cos, lit0, lit180]
  constructor
  · intro h; rw [if_pos ⟨h.le, h.ge⟩]
  · intro h
    rw [if_neg]
    rintro ⟨h1, h2⟩
    exact h (le_antisymm h1 h2)

/-! ### Altitude range and solar noon -/

/-- The geometric altitude `90 − arccos°(…)` always lies in [-90, 90]. -/
theorem C05_altitude_range (cz : ℝ) :
    -90 ≤ 90.0 - deg (Transc.acos cz) ∧ 90.0 - deg (Transc.acos cz) ≤ 90 := by
  have hp := Real.pi_pos
  rw [t_acos, lit90, deg_eq]
  have a0 := Real.arccos_nonneg cz
  have a1 := Real.arccos_le_pi cz
  have : Real.arccos cz * (180 / π) ≤ 180 := by
    calc Real.arccos cz * (180 / π) ≤ π * (180 / π) := mul_le_mul_of_nonneg_right a1 (by positivity)
      _ = 180 := by field_simp
  have : 0 ≤ Real.arccos cz * (180 / π) := mul_nonneg a0 (by positivity)
  constructor <;> linarith

/-- Solar noon, as far as real analysis goes (PARTIAL): for a FIXED declination `dec` and latitude
    `lat` (radians, within ±π/2) the geometric altitude `90 − arccos°(cosZenith)` at hour angle 0 is
    at least the altitude at any other hour angle `ha`, and equals `90° − |lat − dec|`.
    Not closed here: over a real day the declination drifts (≤ 0.017°/h), so the maximum of the
    real sun is only near noon; and the refraction added by the code is not monotone at its branch
    point 85° (it drops by 5″ there), so the statement is about the geometric altitude.  The noon
    claim on the real code is a sampled sub-claim of the check. -/
theorem C05_solar_noon_partial (lat dec ha : ℝ) (hl : -(π / 2) ≤ lat ∧ lat ≤ π / 2)
    (hd : -(π / 2) ≤ dec ∧ dec ≤ π / 2) :
    90.0 - deg (Transc.acos (cosZenith lat dec ha)) ≤ 90.0 - deg (Transc.acos (cosZenith lat dec 0)) ∧
    cosZenith lat dec 0 = Real.cos (lat - dec) ∧
    90.0 - deg (Transc.acos (cosZenith lat dec 0)) = 90 - deg |lat - dec| := by
  have hp := Real.pi_pos
  have cl : 0 ≤ Real.cos lat := Real.cos_nonneg_of_neg_pi_div_two_le_of_le hl.1 hl.2
  have cd : 0 ≤ Real.cos dec := Real.cos_nonneg_of_neg_pi_div_two_le_of_le hd.1 hd.2
  have hz : cosZenith lat dec 0 = Real.cos (lat - dec) := by
    unfold cosZenith
    simp only [t_sin, t_cos, rad_zero, Real.cos_zero, Real.cos_sub]
    ring
  have hle : cosZenith lat dec ha ≤ cosZenith lat dec 0 := by
    unfold cosZenith
    simp only [t_sin, t_cos, rad_zero, Real.cos_zero]
    have := Real.cos_le_one (rad ha)
    have : Real.cos lat * Real.cos dec * Real.cos (rad ha) ≤ Real.cos lat * Real.cos dec * 1 :=
      mul_le_mul_of_nonneg_left this (mul_nonneg cl cd)
    linarith
  have hdeg : ∀ x y : ℝ, x ≤ y → deg x ≤ deg y := by
    intro x y h; rw [deg_eq, deg_eq]; exact mul_le_mul_of_nonneg_right h (by positivity)
  refine ⟨?_, hz, ?_⟩
  · have := hdeg _ _ (Real.arccos_le_arccos hle)
    simp only [t_acos, lit90]
    linarith
  · rw [hz, t_acos, lit90, ← Real.cos_abs (lat - dec), Real.arccos_cos (abs_nonneg _)]
    rw [abs_le]; constructor <;> linarith [hl.1, hl.2, hd.1, hd.2]

/-- Solar noon direction: at hour angle 0, away from the poles and the zenith, `az_init` is exactly
    +1 when the latitude exceeds the declination and −1 when it is below, so the azimuth is due
    south (180) resp. due north (0) — both hemispheres, whichever branch round-off selects
    (`C05_azimuth_valueerror_branch`). -/
theorem C05_solar_noon_direction (lat dec : ℝ) (hl : -(π / 2) < lat ∧ lat < π / 2)
    (hd : -(π / 2) ≤ dec ∧ dec ≤ π / 2) :
    let zen := Real.arccos (cosZenith lat dec 0)
    (dec < lat → azInit lat dec zen = 1 ∧ azimuthOf 0 (azInit lat dec zen) = 180) ∧
    (lat < dec → azInit lat dec zen = -1 ∧ azimuthOf 0 (azInit lat dec zen) = 0) := by
  intro zen
  have hp := Real.pi_pos
  have cl : 0 < Real.cos lat := Real.cos_pos_of_mem_Ioo ⟨hl.1, hl.2⟩
  have hz : cosZenith lat dec 0 = Real.cos (lat - dec) := by
    unfold cosZenith
    simp only [t_sin, t_cos, rad_zero, Real.cos_zero, Real.cos_sub]
    ring
  have hzen : zen = |lat - dec| := by
    show Real.arccos (cosZenith lat dec 0) = _
    rw [hz, ← Real.cos_abs (lat - dec), Real.arccos_cos (abs_nonneg _)]
    rw [abs_le]; constructor <;> linarith [hl.1, hl.2, hd.1, hd.2]
  have key : ∀ z : ℝ, Real.sin lat * Real.cos z - Real.sin (lat - z) = Real.cos lat * Real.sin z := by
    intro z; rw [Real.sin_sub]; ring
  have b := C05_azimuth_valueerror_branch 0
  constructor
  · intro h
    have hz2 : zen = lat - dec := by rw [hzen, abs_of_pos (by linarith)]
    have spos : 0 < Real.sin (lat - dec) :=
      Real.sin_pos_of_pos_of_lt_pi (by linarith) (by linarith [hl.2, hd.1])
    have e : azInit lat dec zen = 1 := by
      unfold azInit
      simp only [t_sin, t_cos, hz2]
      have : Real.sin dec = Real.sin (lat - (lat - dec)) := by congr 1; ring
      rw [this, key]
      exact div_self (mul_pos cl spos).ne'
    exact ⟨e, by rw [e]; exact (b 1).2.2.1⟩
  · intro h
    have hz2 : zen = dec - lat := by rw [hzen, abs_of_neg (by linarith)]; ring
    have spos : 0 < Real.sin (dec - lat) :=
      Real.sin_pos_of_pos_of_lt_pi (by linarith) (by linarith [hl.1, hd.2])
    have e : azInit lat dec zen = -1 := by
      unfold azInit
      simp only [t_sin, t_cos, hz2]
      have h1 : Real.cos (dec - lat) = Real.cos (lat - dec) := by rw [← Real.cos_neg]; congr 1; ring
      have h2 : Real.sin (dec - lat) = -Real.sin (lat - dec) := by rw [← Real.sin_neg]; congr 1; ring
      have : Real.sin dec = Real.sin (lat - (lat - dec)) := by congr 1; ring
      rw [h1, this, key, h2]
      rw [h2] at spos
      have hne0 : Real.cos lat * Real.sin (lat - dec) ≠ 0 := by
        apply mul_ne_zero cl.ne'; linarith
      rw [mul_neg, div_neg, div_self hne0]
    exact ⟨e, by rw [e]; exact (b 1).2.2.2⟩

/-- The model's declination is an `asin`, hence within ±π/2, and the latitude stored by the
    `Sunpath.latitude` setter is strictly inside ±π/2 for every latitude in [-90, 90] (the poles
    are nudged by 1e-9): the hypotheses of the noon theorems hold for every configuration. -/
theorem C05_lat_dec_ranges (latDeg T : ℝ) (h1 : -90 ≤ latDeg) (h2 : latDeg ≤ 90) :
    (-(π / 2) ≤ solDec T ∧ solDec T ≤ π / 2) ∧
    (-(π / 2) < latitudeRad latDeg ∧ latitudeRad latDeg < π / 2) := by
  have hp := Real.two_le_pi
  constructor
  · unfold solDec
    rw [t_asin]
    exact ⟨Real.neg_pi_div_two_le_arcsin _, Real.arcsin_le_pi_div_two _⟩
  · obtain ⟨r1, r2⟩ := rad_mem latDeg h1 h2
    unfold latitudeRad
    have e9 : (0.000000001 : ℝ) = 1 / 1000000000 := by norm_num
    simp only [pi_eq, lit2, e9]
    split_ifs with c1 c2
    · have : rad latDeg = π / 2 := le_antisymm c1.1 c1.2
      rw [this]; constructor <;> linarith
    · have : rad latDeg = -(π / 2) := le_antisymm c2.1 c2.2
      rw [this]; constructor <;> linarith
    · constructor
      · rcases r1.lt_or_eq with h | h
        · exact h
        · exact absurd ⟨h.symm.le, h.le⟩ c2
      · rcases r2.lt_or_eq with h | h
        · exact h
        · exact absurd ⟨h.le, h.symm.le⟩ c1

/-- For a fixed declination the geometric altitude falls monotonically as the hour angle moves
    away from 0 (noon) towards ±180° (midnight): `0 ≤ h₁ ≤ h₂ ≤ 180 ⇒ alt(h₂) ≤ alt(h₁)`, and the
    altitude is the same for `+h` and `−h` (morning/afternoon symmetry). -/
theorem C05_altitude_monotone_partial (lat dec h₁ h₂ : ℝ) (hl : -(π / 2) ≤ lat ∧ lat ≤ π / 2)
    (hd : -(π / 2) ≤ dec ∧ dec ≤ π / 2) (a : 0 ≤ h₁) (b : h₁ ≤ h₂) (c : h₂ ≤ 180) :
    90.0 - deg (Transc.acos (cosZenith lat dec h₂)) ≤ 90.0 - deg (Transc.acos (cosZenith lat dec h₁)) ∧
    cosZenith lat dec (-h₁) = cosZenith lat dec h₁ := by
  have hp := Real.pi_pos
  have cl : 0 ≤ Real.cos lat := Real.cos_nonneg_of_neg_pi_div_two_le_of_le hl.1 hl.2
  have cd : 0 ≤ Real.cos dec := Real.cos_nonneg_of_neg_pi_div_two_le_of_le hd.1 hd.2
  have r0 : 0 ≤ rad h₁ := (rad_nonneg_iff h₁).mpr a
  have r1 : rad h₁ ≤ rad h₂ := by
    rw [rad_eq, rad_eq]; exact mul_le_mul_of_nonneg_right b (by positivity)
  have r2 : rad h₂ ≤ π := by
    rw [rad_eq]
    calc h₂ * (π / 180) ≤ 180 * (π / 180) := mul_le_mul_of_nonneg_right c (by positivity)
      _ = π := by ring
  have hcos : Real.cos (rad h₂) ≤ Real.cos (rad h₁) := Real.cos_le_cos_of_nonneg_of_le_pi r0 r2 r1
  have hle : cosZenith lat dec h₂ ≤ cosZenith lat dec h₁ := by
    unfold cosZenith
    simp only [t_sin, t_cos]
    have := mul_le_mul_of_nonneg_left hcos (mul_nonneg cl cd)
    linarith
  constructor
  · have h := Real.arccos_le_arccos hle
    simp only [t_acos, lit90]
    rw [deg_eq, deg_eq]
    have := mul_le_mul_of_nonneg_right h (show (0 : ℝ) ≤ 180 / π by positivity)
    linarith
  · unfold cosZenith
    have : rad (-h₁) = -rad h₁ := by rw [rad_eq, rad_eq]; ring
    simp only [t_sin, t_cos, this, Real.cos_neg]

/-- End to end for solar-time noon (`is_solar_time=True`, hour 12): the hour angle is exactly 0,
    and away from the zenith the modelled `calculate_sun_from_date_time` body reports azimuth 180
    (due south) when the latitude exceeds the declination of that Julian day and 0 (due north) when
    it is below; the altitude is the refracted `90° − |lat − dec|`.  (Real instance; with
    `C05_lat_dec_ranges` the hypotheses hold for every latitude in [-90, 90].) -/
theorem C05_solar_noon_position (lat lonRad tz jd : ℝ) (hl : -(π / 2) < lat ∧ lat < π / 2) :
    let dec := (solarGeometry jd).1
    hourAngle ((12.0 : ℝ) * 60.0) = 0 ∧
    (position lat lonRad tz 12.0 jd true).1 = apparentAltitude (90 - deg |lat - dec|) ∧
    (dec < lat → (position lat lonRad tz 12.0 jd true).2 = 180) ∧
    (lat < dec → (position lat lonRad tz 12.0 jd true).2 = 0) := by
  intro dec
  have hp := Real.pi_pos
  have hd : -(π / 2) ≤ dec ∧ dec ≤ π / 2 := by
    show -(π / 2) ≤ (solarGeometry jd).1 ∧ (solarGeometry jd).1 ≤ π / 2
    unfold solarGeometry
    exact (C05_lat_dec_ranges 0 _ (by norm_num) (by norm_num)).1
  have hha : hourAngle ((12.0 : ℝ) * 60.0) = 0 := by
    unfold hourAngle
    norm_num
  have hst : solarTime (12.0 : ℝ) (solarGeometry jd).2 lonRad tz true = 12.0 := by
    unfold solarTime; simp
  have cl : 0 < Real.cos lat := Real.cos_pos_of_mem_Ioo ⟨hl.1, hl.2⟩
  obtain ⟨_, hcz, halt⟩ := C05_solar_noon_partial lat dec 0 ⟨hl.1.le, hl.2.le⟩ hd
  have hclamp := (C05_cos_zenith_range lat dec 0).2.2
  have hzen : Real.arccos (cosZenith lat dec 0) = |lat - dec| := by
    rw [hcz, ← Real.cos_abs (lat - dec), Real.arccos_cos (abs_nonneg _)]
    rw [abs_le]; constructor <;> linarith [hl.1, hl.2, hd.1, hd.2]
  have hpos : position lat lonRad tz 12.0 jd true =
      (apparentAltitude (90.0 - deg (Real.arccos (cosZenith lat dec 0))),
       azimuthAt lat dec (Real.arccos (cosZenith lat dec 0)) 0) := by
    unfold position
    simp only [hst, hha, t_acos]
    change (apparentAltitude (90.0 - deg (Real.arccos (clampUnit (cosZenith lat dec 0)))),
      azimuthAt lat dec (Real.arccos (clampUnit (cosZenith lat dec 0))) 0) = _
    rw [hclamp]
  have dir := C05_solar_noon_direction lat dec hl hd
  simp only at dir
  refine ⟨hha, ?_, ?_, ?_⟩
  · rw [hpos]; simp only [hzen, lit90]
  · intro h
    rw [hpos]
    have sp : 0 < Real.sin (Real.arccos (cosZenith lat dec 0)) := by
      rw [hzen, abs_of_pos (by linarith)]
      exact Real.sin_pos_of_pos_of_lt_pi (by linarith) (by linarith [hl.2, hd.1])
    rw [((C05_zenith_branch lat dec _ 0).2 (mul_pos cl sp).ne')]
    exact (dir.1 h).2
  · intro h
    rw [hpos]
    have sp : 0 < Real.sin (Real.arccos (cosZenith lat dec 0)) := by
      rw [hzen, abs_of_neg (by linarith)]
      exact Real.sin_pos_of_pos_of_lt_pi (by linarith) (by linarith [hl.1, hd.2])
    rw [((C05_zenith_branch lat dec _ 0).2 (mul_pos cl sp).ne')]
    exact (dir.2 h).2

/-! ### One object, many operations (round 3) -/

section Object

variable {α : Type} [Add α] [Sub α] [Mul α] [Div α] [Neg α] [OfScientific α] [LT α] [LE α]
  [DecidableLT α] [DecidableLE α] [Transc α]

/-- Reads, getters and every other public method leave the five slots as they are, whatever they
    answer (a sun, an error): in the model nothing is remembered between calls. -/
theorem C05_read_pure (V : Validate) (ofN : Nat → α) (o : Obj α) (op : Op α) (h : op.isPassive = true) :
    (step V ofN o op).1 = o := by
  cases op <;> simp [Op.isPassive] at h <;> rfl

/-- Reads in any order and any number of repetitions: after a history made only of reads, getters
    and other methods the object is the same, so every later read reports what it would have
    reported before them (the same question asked twice, or after other questions, has one answer). -/
theorem C05_reads_any_order (V : Validate) (ofN : Nat → α) (o : Obj α) (ops : List (Op α))
    (h : ∀ op ∈ ops, op.isPassive = true) (q : Query) :
    (run V ofN o ops).1 = o ∧
    (step V ofN (run V ofN o ops).1 (.read q)).2 = .sun (observe ofN o q) := by
  have h1 : (run V ofN o ops).1 = o := by
    induction ops generalizing o with
    | nil => rfl
    | cons op rest ih =>
      have hop := C05_read_pure V ofN o op (h op (List.mem_cons_self))
      show (run V ofN (step V ofN o op).1 rest).1 = o
      rw [hop]
      exact ih o (fun op' hm => h op' (List.mem_cons_of_mem _ hm))
  exact ⟨h1, by rw [h1]; rfl⟩

/-- A refused operation that does not reach a slot assignment — a read the code refuses (invalid
    date, hour or minute of the year outside the year), a setter argument `float()` cannot
    convert, `None` for latitude / longitude / north — leaves the object unchanged.  (The numeric
    setter calls that ARE refused after the assignment are the subject of
    `C05_refused_setter_counterexample`.) -/
theorem C05_refused_preserves (V : Validate) (ofN : Nat → α) (o : Obj α) (op : Op α)
    (hr : (step V ofN o op).2.isRefused = true) (hn : op.assigns = false) :
    (step V ofN o op).1 = o := by
  cases op with
  | setLat a => cases a <;> first | rfl | simp [Op.assigns] at hn
  | setLon a => cases a <;> first | rfl | simp [Op.assigns] at hn
  | setTz a => cases a <;> first | rfl | simp [Op.assigns] at hn
  | setNorth a => cases a <;> first | rfl | simp [Op.assigns] at hn
  | setLeap b => simp [step, Out.isRefused] at hr
  | read q => rfl
  | get => rfl
  | other => rfl

/-- HISTORY REFINES FRESH.  For every configuration the constructor accepts and every history of
    operations in which no numeric setter call is refused (reads that are refused, unconvertible
    arguments, other methods that raise are all allowed), the object after the history is exactly
    the object a FRESH `Sunpath` built from the established configuration would be; hence every
    sun read after the history — by date-time, and through it by the three entry points — is the
    sun `sunOfDT` of Model/Sun.lean gives for the established configuration, the function all the
    other theorems of this file are about.  No order or repetition of operations can make the
    object answer for anything but the state the user has established. -/
theorem C05_history_refines_fresh (V : Validate) (ofN : Nat → α) (c : Cfg α) (ops : List (Op α))
    (h : Clean c ops) :
    (run V ofN (Obj.ofCfg c) ops).1 = Obj.ofCfg (c.estabAll ops) ∧
    (∀ q, (step V ofN (run V ofN (Obj.ofCfg c) ops).1 (.read q)).2 =
        .sun (observe ofN (Obj.ofCfg (c.estabAll ops)) q)) ∧
    (∀ d s, observe ofN (run V ofN (Obj.ofCfg c) ops).1 (.dt d s) =
        liftSun (Sun.sunOfDT ofN (c.estabAll ops) d s)) := by
  have h1 : (run V ofN (Obj.ofCfg c) ops).1 = Obj.ofCfg (c.estabAll ops) := by
    induction ops generalizing c with
    | nil => rfl
    | cons op rest ih =>
      obtain ⟨h0, hrest⟩ := h
      show (run V ofN (step V ofN (Obj.ofCfg c) op).1 rest).1 = _
      rw [step_ofCfg V ofN c op h0]
      exact ih (c.estab op) hrest
  refine ⟨h1, fun q => by rw [h1]; rfl, fun d s => by rw [h1]; rfl⟩

/-- REFUSED PRESERVES, full strength, for setters that check before they store
    (`Validate.first`, the repaired order; which order the source has is read off on every run):
    EVERY refused operation — a refused numeric setter call included — leaves the object as it
    was. -/
theorem C05_refused_setter_preserves (ofN : Nat → α) (o : Obj α) (op : Op α)
    (hr : (step Validate.first ofN o op).2.isRefused = true) :
    (step Validate.first ofN o op).1 = o := by
  cases op with
  | setLat a =>
    cases a with
    | num v =>
      by_cases hk : latOk (rad v) = true
      · simp [step, hk, Out.isRefused] at hr
      · simp [step, hk, Validate.first]
    | none => rfl
    | bad e => rfl
  | setLon a =>
    cases a with
    | num v =>
      by_cases hk : lonOk (rad v) = true
      · simp [step, hk, Out.isRefused] at hr
      · simp [step, hk, Validate.first]
    | none => rfl
    | bad e => rfl
  | setTz a =>
    cases a with
    | num v =>
      by_cases hk : tzOk v = true
      · simp [step, hk, Out.isRefused] at hr
      · simp [step, hk, Validate.first]
    | none =>
      by_cases hk : tzOk (deg o.lonRad / 15.0) = true
      · simp [step, hk, Out.isRefused] at hr
      · simp [step, hk, Validate.first]
    | bad e => rfl
  | setNorth a =>
    cases a with
    | num v =>
      by_cases hk : northOk (rad v) = true
      · simp [step, hk, Out.isRefused] at hr
      · simp [step, hk, Validate.first]
    | none => rfl
    | bad e => rfl
  | setLeap b => simp [step, Out.isRefused] at hr
  | read q => rfl
  | get => rfl
  | other => rfl

/-- HISTORY REFINES FRESH, full strength, for setters that check before they store: for EVERY
    history (refused setter calls included, no hypothesis on the operations) the object is the fresh
    object of the established configuration and every read is `sunOfDT` of that configuration. -/
theorem C05_history_refines_fresh_validating (ofN : Nat → α) (c : Cfg α) (ops : List (Op α)) :
    (run Validate.first ofN (Obj.ofCfg c) ops).1 = Obj.ofCfg (c.estabAll ops) ∧
    (∀ d s, observe ofN (run Validate.first ofN (Obj.ofCfg c) ops).1 (.dt d s) =
        liftSun (Sun.sunOfDT ofN (c.estabAll ops) d s)) := by
  have h1 : (run Validate.first ofN (Obj.ofCfg c) ops).1 = Obj.ofCfg (c.estabAll ops) := by
    induction ops generalizing c with
    | nil => rfl
    | cons op rest ih =>
      show (run Validate.first ofN (step Validate.first ofN (Obj.ofCfg c) op).1 rest).1 = _
      rw [step_ofCfg_first ofN c op]
      exact ih (c.estab op)
  exact ⟨h1, fun d s => by rw [h1]; rfl⟩

end Object

/-- COUNTEREXAMPLE (the pinned code, `Validate.asCoded`; known finding
    C05-refused-setter-applied): the numeric setters assign before they assert.  On the object `Sunpath(0, 0, 0, 0)` the call
    `latitude = 100` is refused with an AssertionError and yet the latitude slot afterwards holds
    `radians(100)`, not the latitude of the established configuration: a refused setter does NOT
    leave the object unchanged, and later suns are computed for a place the user never set. -/
theorem C05_refused_setter_counterexample (ofN : Nat → ℝ) :
    let c : Cfg ℝ := ⟨0, 0, some 0, 0, false⟩
    let r := step Validate.asCoded ofN (Obj.ofCfg c) (.setLat (.num 100))
    cfgOk c = true ∧ r.2.isRefused = true ∧ r.1.latRad = rad 100 ∧
      r.1.latRad ≠ (Obj.ofCfg c).latRad := by
  have hpi := Real.pi_pos
  have h100 : ¬ (rad (100 : ℝ) ≤ (pi : ℝ) / 2.0) := by
    rw [rad_eq, pi_eq]; norm_num; nlinarith
  have hlat0 : latitudeRad (0 : ℝ) = 0 := by
    unfold latitudeRad
    simp only [rad_zero, pi_eq]
    have a : ¬ ((0 : ℝ) ≤ π / 2.0 ∧ π / 2.0 ≤ 0) := by
      intro h; have := h.2; norm_num at this; linarith
    have b : ¬ ((0 : ℝ) ≤ -(π / 2.0) ∧ -(π / 2.0) ≤ 0) := by
      intro h; have := h.1; norm_num at this; linarith
    have hp : (0:ℝ) < π / 2.0 := by norm_num; exact hpi
    rw [if_neg (by intro h; linarith [h.2]), if_neg (by intro h; linarith [h.1])]
  have hbad : latOk (rad (100 : ℝ)) = false := by
    unfold latOk; simp only [decide_eq_false_iff_not]; intro h; exact h100 h.2
  refine ⟨?_, ?_, ?_, ?_⟩
  · simp only [cfgOk, latOk, lonOk, tzOk, northOk, timeZoneOf, rad_zero, pi_eq, Bool.and_eq_true,
      decide_eq_true_eq]
    norm_num
    refine ⟨⟨?_, ?_⟩, ?_⟩ <;> linarith
  · simp [step, hbad, Out.isRefused]
  · simp [step, hbad, Validate.asCoded]
  · simp only [step, hbad, Obj.ofCfg, hlat0, Validate.asCoded]
    intro h
    have : (0:ℝ) < rad (100 : ℝ) := by rw [rad_eq]; positivity
    simp at h
    linarith

/-- The public getters determine the object: rebuilding a `Sunpath` from what the getters of a
    constructed object show (`latitude, longitude, time_zone, north_angle, is_leap_year`) gives the
    same five slots (over the reals; the pole nudge of 1e-9 survives because the nudged latitude is
    no longer a pole).  So "the state the user has established" and "the public state of the
    object" are the same thing, and `C05_history_refines_fresh` may be read with either. -/
theorem C05_getters_determine_object (c : Cfg ℝ) :
    let o := Obj.ofCfg c
    Obj.ofCfg ⟨deg o.latRad, deg o.lonRad, some o.tz, deg o.northRad, o.leap⟩ = o := by
  intro o
  have hl := latitudeRad_ne_pole c.lat
  show Obj.ofCfg ⟨deg (latitudeRad c.lat), deg (rad c.lon), some (timeZoneOf (rad c.lon) c.tz),
    deg (rad c.north), c.leap⟩ = Obj.ofCfg c
  unfold Obj.ofCfg
  simp only [rad_deg, timeZoneOf]
  rw [latitudeRad_deg _ hl.1 hl.2]


/-! ### Round 4: every class of date-time argument, daylight-saving hours, the arms of the hour angle -/

section AnyDateTimeClass

variable {α : Type} [Add α] [Sub α] [Mul α] [Div α] [Neg α] [OfScientific α] [LT α] [LE α]
  [DecidableLT α] [DecidableLE α] [Transc α]

/-- THE CLASS OF THE DATE-TIME ARGUMENT DOES NOT MATTER.  A native `datetime.datetime` of the year a
    ladybug `DateTime` stands for (2016 when the DateTime or the sunpath is a leap-year one, else 2017)
    with the same month, day, hour and minute gives exactly the sun of that `DateTime` — although the
    code takes another path for it (`except AttributeError` for the float hour, no `leap_year`
    attribute).  Every numeric instance (Float as executed, ℝ). -/
theorem C05_native_datetime_same_sun (ofN : Nat → α) (c : Cfg α) (d : Cal.DT) (s : Bool) :
    sunOfNative ofN c (if d.leap || c.leap then 2016 else 2017) d.month d.day d.hour d.minute s false
      = sunOfDT ofN c d s := by
  have l16 : isLeapYear 2016 = true := by decide
  have l17 : isLeapYear 2017 = false := by decide
  obtain ⟨la, lo, tz, no, cl⟩ := c
  obtain ⟨mo, da, h, mi, lp⟩ := d
  cases cl <;> cases lp <;>
    simp [sunOfNative, yearUsed, l16, l17, sunOfDT_eq_instant, sunOfDTDst]

/-- On a leap-year sunpath EVERY native date-time, whatever its year, is answered with the sun of the
    leap-year `DateTime` of the same month, day, hour and minute (the `datetime.year != 2016 and
    self.is_leap_year` conversion). -/
theorem C05_native_on_leap_sunpath (ofN : Nat → α) (c : Cfg α) (hc : c.leap = true)
    (y mo da h mi : Nat) (s : Bool) :
    sunOfNative ofN c y mo da h mi s false = sunOfDT ofN c ⟨mo, da, h, mi, true⟩ s := by
  obtain ⟨la, lo, tz, no, cl⟩ := c
  simp only at hc
  subst hc
  have hy : yearUsed true y = 2016 := by
    unfold yearUsed
    by_cases h : y = 2016 <;> simp [h]
  have l16 : isLeapYear 2016 = true := by decide
  simp [sunOfNative, hy, l16, sunOfDT_eq_instant, sunOfDTDst]

/-- Four ways to name one instant — minute of the year, hour of the year, month/day/hour, and a
    native date-time of the sunpath's year — give the same sun (extends `C05_entry_points`). -/
theorem C05_entry_points_native (ofN : Nat → α) (c : Cfg α) (d : Cal.DT) (hv : d.valid)
    (hl : d.leap = c.leap) (solar : Bool) :
    calcSunFromMoy ofN c (d.moy : Int) solar
      = liftSun (sunOfNative ofN c (if c.leap then 2016 else 2017) d.month d.day d.hour d.minute solar false) := by
  rw [(C05_entry_points ofN c d hv hl solar).1, ← C05_native_datetime_same_sun ofN c d solar, hl, Bool.or_self]

end AnyDateTimeClass

/-- A DAYLIGHT-SAVING HOUR IS THE STANDARD-TIME HOUR OF THE ZONE ONE HOUR FURTHER EAST: for clock-time
    suns, taking one hour off the reading (`hour - 1`, what the code does in a daylight-saving hour) gives
    the solar time — hence hour angle, altitude, azimuth for the same declination — of the unshifted
    reading in the time zone `tz + 1`. -/
theorem C05_dst_is_zone_one_hour_east (hour eot lonRad tz : ℝ) :
    solarTime (hour - 1.0) eot lonRad tz false = solarTime hour eot lonRad (tz + 1) false := by
  have e60 : (60.0 : ℝ) = 60 := by norm_num
  have e4 : (4.0 : ℝ) = 4 := by norm_num
  have e1440 : (1440.0 : ℝ) = 1440 := by norm_num
  unfold solarTime
  simp only [Bool.false_eq_true, if_false, lit1, e60, e4, e1440]
  have : (hour - 1) * 60 + eot + 4 * deg lonRad - 60 * tz
      = hour * 60 + eot + 4 * deg lonRad - 60 * (tz + 1) := by ring
  rw [this]

/-- THE TWO ARMS OF THE HOUR-ANGLE LINE (`sol_time / 4 + 180 if sol_time < 0 else sol_time / 4 - 180`),
    for a solar time within a day either side of midnight (minutes in [-1440, 1440)): the result lies in
    [-180, 180), it is `t/4 - 180` or that plus a full turn, and the cosine — all the altitude sees — is
    the same on both arms; only the sign test `hour_angle > 0` of the azimuth depends on the arm. -/
theorem C05_hour_angle_arms (t : ℝ) (h0 : -1440 ≤ t) (h1 : t < 1440) :
    -180 ≤ hourAngle t ∧ hourAngle t < 180 ∧
      (hourAngle t = t / 4 - 180 ∨ hourAngle t = t / 4 - 180 + 360) ∧
      Real.cos (rad (hourAngle t)) = Real.cos (rad (t / 4 - 180)) := by
  have e4 : (4.0 : ℝ) = 4 := by norm_num
  unfold hourAngle
  simp only [lit0, lit180, e4]
  split_ifs with h
  · refine ⟨by linarith, by linarith, Or.inr (by ring), ?_⟩
    have : rad (t / 4 + 180) = rad (t / 4 - 180) + 2 * π := by
      rw [rad_eq, rad_eq]; field_simp; ring
    rw [this, Real.cos_add_two_pi]
  · exact ⟨by linarith, by linarith, Or.inl rfl, rfl⟩

/-- THE `sol_time < 0` ARM NEEDS DAYLIGHT SAVING: for clock-time suns the solar time is never negative
    (`% 1440`), for solar-time suns it is the reading itself; so with a non-negative reading — every
    reading without a daylight-saving period — the hour angle is always computed by the second arm. -/
theorem C05_negative_solar_time_needs_dst (hour eot lonRad tz : ℝ) (solar : Bool)
    (hh : solar = true → 0 ≤ hour) :
    hourAngle (solarTime hour eot lonRad tz solar * 60.0)
      = solarTime hour eot lonRad tz solar * 60.0 / 4.0 - 180.0 := by
  have e60 : (60.0 : ℝ) = 60 := by norm_num
  have hs : 0 ≤ solarTime hour eot lonRad tz solar := by
    cases solar
    · exact (C05_hour_angle_range hour eot lonRad tz).1
    · simpa [solarTime] using hh rfl
  unfold hourAngle
  have : ¬ (solarTime hour eot lonRad tz solar * 60.0 < 0.0) := by
    rw [lit0, e60, not_lt]; positivity
  rw [if_neg this]

/-- … and it IS taken in a daylight-saving hour: solar-time flag, reading 0:30, one hour off → solar
    time −30 minutes, hour angle 172.5° (half an hour before the previous midnight), not −187.5°. -/
theorem C05_negative_solar_time_in_dst_hour :
    hourAngle (solarTime ((0.5 : ℝ) - 1.0) 0 0 0 true * 60.0) = 172.5 := by
  unfold hourAngle solarTime
  norm_num

/-! ### Non-vacuity -/

example : (⟨2, 29, 13, 30, true⟩ : Cal.DT).valid := by decide
example : daysFrom010119 2016 2 29 = 42429 := by decide +kernel
example : daysFrom010119General 2017 12 31 = 43100 := by decide +kernel
example : (⟨12, 22, 12, 0, false⟩ : Cal.DT).moy = 511920 := by decide
/-- the hypotheses of the noon theorems are met by Sydney at the December solstice (radians) -/
example : (-(π / 2) < (-0.59 : ℝ) ∧ (-0.59 : ℝ) < π / 2) ∧ ((-0.59 : ℝ) < -0.409 ) := by
  have := Real.two_le_pi
  refine ⟨⟨by linarith, by linarith⟩, by norm_num⟩
example : azimuthOf (5 : ℝ) 2 = 180 := (C05_azimuth_valueerror_branch 5 2).1 (by norm_num)
example : azimuthOf (0 : ℝ) (-2) = 0 := (C05_azimuth_valueerror_branch 0 (-2)).2.1 (by norm_num)
example : isDuringDay (0 : ℝ) 180 0 = true := (C05_is_during_day 0 180 0 (by norm_num) (by norm_num)).mpr le_rfl
example : ¬ isDuringDay (-1 : ℝ) 180 90 = true := by
  rw [C05_is_during_day (-1) 180 90 (by norm_num) (by norm_num)]; norm_num

/-- a history with a leap switch, reads, an accepted zone, another method, an unconvertible
    argument and the getters meets the hypothesis of `C05_history_refines_fresh` -/
example : Clean (⟨0, 0, some 0, 0, false⟩ : Cfg ℝ)
    [.setLeap true, .read (.moy 0 false), .setTz (.num 5), .other, .setLat (.bad .value), .get] := by
  simp only [Clean, refusedSetter, tzOk, and_true, Bool.not_eq_false', decide_eq_true_eq]
  norm_num
/-- … and establishes latitude 0, longitude 0, zone 5, north 0 in the leap year -/
example : (⟨0, 0, some 0, 0, false⟩ : Cfg ℝ).estabAll
    [.setLeap true, .read (.moy 0 false), .setTz (.num 5), .other, .setLat (.bad .value), .get]
    = ⟨0, 0, some 5, 0, true⟩ := by
  have : tzOk (5 : ℝ) = true := by simp only [tzOk, decide_eq_true_eq]; norm_num
  simp [Cfg.estabAll, Cfg.estab, this]
example : (Op.read (.moy 0 false) : Op ℝ).isPassive = true := rfl
/-- a minute of the year before the previous day is a refused read -/
example : (step Validate.first (fun n => (n : ℝ)) (Obj.ofCfg ⟨0, 0, some 0, 0, false⟩) (.read (.moy (-5000) false))).2.isRefused
    = true := by
  simp [step, observe, Obj.withDT, Cal.fromMoy, Out.isRefused, Obj.ofCfg]

/-- a native 2021 date-time on a leap-year sunpath is answered for 2016 -/
example : yearUsed true 2021 = 2016 := by decide
/-- Sydney's southern daylight-saving period (start after end): 0:20 on 1 January is inside, 1 July is not -/
example : dstHour 398040 136980 20 = true ∧ dstHour 398040 136980 262080 = false := by decide

end Sun
