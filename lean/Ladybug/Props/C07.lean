/-
  C07 — Every serial form reads back to an object equal to the one written.

  Theorems about the codec model (Model/Codec.lean, Model/Serial/*.lean).  `Law enc dec wf` is
  `∀ a, wf a → dec (jsonRT (enc a)) = some a`: the dictionary written by `to_dict`, passed through
  JSON, read by `from_dict`, is the original object.  `wf` is the normal form the class's own
  constructor establishes.  The fixed point of `to_dict` follows from the law (`Law.fixed`);
  independence of key order and of unknown keys is proved once for all record decoders.

  Proved here: DateTime, Date, Time, AnalysisPeriod (dict, duplicate, token-level text), Location,
  Color, DataType (standard and generic), Header, the five data-collection classes (mutable and
  immutable).  Not modelled (oracle only): ColorRange, legends, design days, DDY, Wea, EPW,
  psychrometric charts, CSV/PKL files.
-/
import Ladybug.Model.Serial.Coll
import Ladybug.Model.Serial.Files
import Ladybug.Proofs.C07Loc
import Ladybug.Proofs.C07Basic
import Ladybug.Proofs.C07Legend
import Ladybug.Proofs.C07DesignDay
import Ladybug.Proofs.C07Wea
import Ladybug.Proofs.C07Csv
import Ladybug.Proofs.C07Hist
import Ladybug.Props.C08

namespace Codec
open Cal

/-! ### json.loads ∘ json.dumps -/

theorem keyStr_idem (k : Key) : keyStr (keyStr k) = keyStr k := by cases k <;> rfl

mutual
theorem jsonRT_idem : ∀ v : PyVal, jsonRT (jsonRT v) = jsonRT v
  | .none => rfl
  | .bool _ => rfl
  | .int _ => rfl
  | .flt _ => rfl
  | .str _ => rfl
  | .list l => by simp only [jsonRT, jsonRTList_idem l]
  | .tuple l => by simp only [jsonRT, jsonRTList_idem l]
  | .dict kv => by simp only [jsonRT, jsonRTKV_idem kv]
theorem jsonRTList_idem : ∀ l : List PyVal, jsonRTList (jsonRTList l) = jsonRTList l
  | [] => rfl
  | x :: xs => by simp only [jsonRTList, jsonRT_idem x, jsonRTList_idem xs]
theorem jsonRTKV_idem : ∀ kv : List (Key × PyVal), jsonRTKV (jsonRTKV kv) = jsonRTKV kv
  | [] => rfl
  | (k, v) :: r => by simp only [jsonRTKV, jsonRT_idem v, jsonRTKV_idem r, keyStr_idem]
end

/-- What JSON does to a value it does only once: a value that came out of JSON goes through
    unchanged (`jsonRT` is a normal-form map; "JSON-stable" = "is its own image"). -/
theorem C07_jsonRT_idempotent (v : PyVal) : jsonRT (jsonRT v) = jsonRT v := jsonRT_idem v

example : jsonRT (.tuple [.int 1, .tuple [.flt 5], .dict []]) = .list [.int 1, .list [.flt 5], .dict []] := by
  simp

/-! ### once for every record decoder -/

/-- Reading a dictionary does not depend on the order of its keys (any record decoder, hence
    every `from_dict` modelled below). -/
theorem C07_key_order {α : Type} (r : RecDec α) {a b : List (Key × PyVal)} (hp : a.Perm b)
    (hn : (strKeys a).Nodup) : r.dec (.dict a) = r.dec (.dict b) := r.dec_perm hp hn

/-- Reading ignores keys the reader does not know. -/
theorem C07_unknown_key {α : Type} (r : RecDec α) (a : List (Key × PyVal)) (k : String) (v : PyVal)
    (hk : k ∉ r.keys) : r.dec (.dict ((.str k, v) :: a)) = r.dec (.dict a) :=
  r.dec_unknown_key a k v hk

/-- `to_dict` fixed point: the object read back writes the dictionary that was written. -/
theorem C07_fixed_point {α : Type} {enc : α → PyVal} {dec : PyVal → Option α} {wf : α → Prop}
    (h : Law enc dec wf) (a : α) (ha : wf a) : (dec (jsonRT (enc a))).map enc = some (enc a) :=
  h.fixed a ha

example : AP.rd.dec (.dict [kv "timestep" (natV 4), kv "zz" .none, kv "st_month" (natV 3)]) =
    some ⟨3, 1, 0, 12, 31, 23, 4, false⟩ := by decide

/-! ### dt.py -/

/-- A valid DateTime written to its dictionary (the writer omits `leap_year` unless set), sent
    through JSON and read back is the same DateTime — 29 Feb included. -/
theorem C07_DateTime : Law DTc.enc DTc.rd.dec (fun d => d.valid) := by
  intro d hv
  have hm := make_of_valid d hv
  cases hl : d.leap <;>
    simp [DTc.enc, DTc.rd, RecDec.dec, PyVal.env?, jsonRT_dict, kv, DTc.run, natOr, truthOr,
      PyVal.truthy, hl] <;> rw [← hl, hm] <;> rfl

example : (DT.mk 2 29 13 30 true).valid := by decide

theorem C07_Date : Law Dc.enc Dc.rd.dec (fun d => d.valid) := by
  intro d hv
  have hm := date_make_of_valid d hv
  cases hl : d.leap <;>
    simp [Dc.enc, Dc.rd, RecDec.dec, PyVal.env?, jsonRT_dict, kv, Dc.run, intOr, truthOr,
      PyVal.truthy, natV, PyVal.int?, hl] <;> rw [← hl, hm] <;> rfl

theorem C07_Time : Law Tc.enc Tc.rd.dec (fun t => t.valid) := by
  intro t hv
  have hm : T.make t.hour t.minute = .ok t := by
    obtain ⟨h1, h2⟩ := hv
    have e1 : t.minute / 60 = 0 := by omega
    have e2 : t.minute % 60 = t.minute := by omega
    simp [T.make, normHM, T.valid, e1, e2, h1, h2]
  simp [Tc.enc, Tc.rd, RecDec.dec, PyVal.env?, jsonRT_dict, kv, Tc.run, natOr, hm, okOpt]

/-! ### AnalysisPeriod -/

/-- AnalysisPeriod: dictionary → JSON → `from_dict` gives the period back, for every period in
    the constructor's normal form (any months/days/hours incl. reversed and overnight periods,
    all 12 timesteps, both leap flags). -/
theorem C07_AnalysisPeriod : Law AP.enc AP.rd.dec AP.wf := by
  intro a h
  have hm := AP.make_of_wf a h
  cases hl : a.leap <;>
    simp [AP.enc, AP.rd, RecDec.dec, PyVal.env?, jsonRT_dict, kv, AP.run, argNat, truthOr,
      PyVal.truthy, natV, PyVal.nat?, hl] <;> rw [← hl] <;> simpa using hm

/-- `duplicate()` / `__copy__` of a well-formed period equals the period. -/
theorem C07_AnalysisPeriod_duplicate (a : AP) (h : a.wf) : a.copy = some a := AP.make_of_wf a h

/-- Text form at token level: the seven printed numbers and the `*` marker parse back to the
    period (`from_string` never clips: a well-formed period needs no clipping).  The character
    level (`replace` chain, `%d` printing) is compared with the code by correspondence only. -/
theorem C07_AnalysisPeriod_string_partial (a : AP) (h : a.wf) :
    AP.parseTokens a.strTokens = some a := by
  have hm := AP.make_of_wf a h
  obtain ⟨_, he, _⟩ := h
  simp only [DT.valid] at he
  have e4 := orD_pos a.endM 12 he.1
  have e5 := orD_pos a.endD 31 he.2.2.1
  have hclip : ¬ (monthLen a.leap a.endM < a.endD) := by omega
  simp only [AP.strTokens, AP.parseTokens, e4, e5, hclip, if_false]
  exact hm

example : (AP.mk 12 1 22 2 29 3 4 true).wf := by decide

/-! ### Color -/

theorem C07_Color : Law Col.enc Col.rd.dec Col.wf := by
  intro c h
  obtain ⟨h1, h2, h3, h4⟩ := h
  simp [Col.enc, Col.rd, RecDec.dec, PyVal.env?, jsonRT_dict, kv, Col.run, chan, h1, h2, h3, h4]

example : (Col.mk 0 255 7 255).wf := by decide

/-! ### Location -/

/-- Location (time zone given, i.e. a float after `float(tz)`): dictionary → JSON → `from_dict`
    gives the location back.  Covers the constructor's normal forms: `'-'` for missing names,
    integer 0 for a falsy latitude/longitude, float elevation, `None` station id. -/
theorem C07_Location : Law Loc.enc Loc.rd.dec Loc.wf := Loc.law

/-- A location whose time zone was left to the constructor carries the *integer*
    `round(longitude / 15)`; the reader applies `float()` to it.  The read-back object holds the
    float of that integer (equal to it as a Python number, which is outside this model: floats are
    opaque bit patterns), every other field is unchanged. -/
theorem C07_Location_autotz_partial (l : Loc) (i : Int)
    (h : Loc.wf { l with tz := .flt (floatBitsOfInt i) }) (hl : l.tz = .int i) :
    Loc.rd.dec (jsonRT l.enc) = some { l with tz := .flt (floatBitsOfInt i) } := Loc.law_autotz l i h hl

example : Loc.wf ⟨"Boston", "-", "USA", .flt 0x40452F5C28F5C28F, .int 0, .flt 0xC014000000000000,
    .flt 0, none, .str "TMY3"⟩ := by
  refine ⟨by decide, by decide, by decide, Or.inr ⟨_, rfl, by decide +kernel, by decide +kernel⟩,
    Or.inl rfl, ⟨_, rfl, by decide +kernel⟩, ⟨_, rfl, Or.inr rfl⟩, by simp, by simp, by simp [PyVal.isTag]⟩

/-! ### Data types -/

/-- Data types.  Standard type: class name and name are written; the reader recreates the class
    and keeps the default name (`_name` None) exactly when the written name title-cases to the
    class name – which is why the normal form asks a custom name *not* to do so (see the
    counterexample below).  Generic type: every optional key the writer omits (infinite bounds,
    abbreviation equal to the name, no unit description, point-in-time, not cumulative) is the
    reader's default. -/
theorem C07_DataType : Law DType.enc DType.rd.dec DType.wf := by
  intro d h
  cases d with
  | std cls name =>
    cases name with
    | none =>
      obtain ⟨h1, h2, h3⟩ := h
      have hg : (cls == "GenericType") = false := by simpa using h2
      simp [DType.enc, DType.name, RecDec.dec_dict, DType.rd, DType.run, jsonRT_dict, kv, DType.make,
        PyVal.str?, h3]
      exact ⟨h2, by simpa using h1⟩
    | some n =>
      obtain ⟨h1, h2, h3⟩ := h
      have hg : (cls == "GenericType") = false := by simpa using h2
      have ht : (cls == titleKey n) = false := by
        simp only [beq_eq_false_iff_ne, ne_eq]; exact fun e => h3 e.symm
      simp [DType.enc, DType.name, RecDec.dec_dict, DType.rd, DType.run, jsonRT_dict, kv, DType.make,
        PyVal.str?]
      exact ⟨h2, by simpa using h1, fun e => h3 e.symm⟩
  | generic name unit mn mx abbr ud pit cum =>
    obtain ⟨ha, hpc, hud, _⟩ := h
    have bnd : ∀ m : Num, boundOf (some m.enc) = some (some m) := by
      intro m; cases m <;> simp [boundOf, Num.enc, PyVal.isTag, PyVal.num?]
    have hab : (PyVal.str abbr).truthy = true := by simp [PyVal.truthy, ha]
    have hudd : ∀ dd, ud = some dd → jsonRT (.dict dd) = .dict dd := hud
    by_cases hn : abbr = name
    · subst hn
      cases mn <;> cases mx <;> cases ud <;> cases pit <;> cases cum <;>
        simp_all [DType.enc, RecDec.dec_dict, DType.rd, DType.run, jsonRT_dict, kv, DType.make,
          PyVal.str?, boolOr, PyVal.bool?, boundOf]
    · have hne : (abbr != name) = true := by simpa using hn
      cases mn <;> cases mx <;> cases ud <;> cases pit <;> cases cum <;>
        simp_all [DType.enc, RecDec.dec_dict, DType.rd, DType.run, jsonRT_dict, kv, DType.make,
          PyVal.str?, boolOr, PyVal.bool?, boundOf]

example : DType.wf (.std "DryBulbTemperature" none) := by
  refine ⟨by decide +kernel, by decide, by decide +kernel⟩
example : DType.wf (.generic "Foo" "bar" (some (.int 0)) none "F" none false true) := by
  refine ⟨by decide, rfl, by simp, rfl⟩

/-- The side condition on custom names is needed: `Temperature('temperature')` is written as
    name 'temperature' / class 'Temperature' and read back as the default-named Temperature
    (`_name` None), which `DataTypeBase.__eq__` distinguishes from the original.
    Finding C07-datatype-name-titles-to-class. -/
theorem C07_DataType_name_counterexample :
    DType.rd.dec (jsonRT (DType.std "Temperature" (some "temperature")).enc) =
      some (DType.std "Temperature" none) := by
  have h1 : titleKey "temperature" = "Temperature" := by decide +kernel
  have h2 : Gen.DataTypes.names.contains "Temperature" = true := by decide +kernel
  have h2' : "Temperature" ∈ Gen.DataTypes.names := by simpa using h2
  simp [DType.enc, DType.name, RecDec.dec_dict, DType.rd, DType.run, jsonRT_dict, kv, DType.make,
    PyVal.str?, h1, h2']

/-! ### Header -/

/-- Header: data type, unit, analysis period and metadata all come back, for every well-formed
    data type and period and every metadata dictionary that JSON leaves unchanged (string keys,
    JSON values).  An empty or missing metadata reads as `{}`. -/
theorem C07_Header : Law Hdr.enc Hdr.rd.dec Hdr.wf := by
  intro h hw
  obtain ⟨hd, ha, hu, hm⟩ := hw
  have l1 := C07_DataType h.dataType hd
  have l2 := C07_AnalysisPeriod h.ap ha
  simp [Hdr.enc, RecDec.dec_dict, Hdr.rd, Hdr.run, jsonRT_dict, kv, Hdr.make, l1, l2, hm, hu,
    PyVal.str?]

/-! ### Data collections -/

theorem toTuple_jsonRT (v : PyVal) (h : ∃ t, v = .tuple t ∧ ∀ x ∈ t, jsonRT x = x) :
    toTuple (jsonRT v) = some v := by
  obtain ⟨t, rfl, ht⟩ := h
  simp [toTuple, map_jsonRT_stable t ht]

/-- Every data-collection class, mutable or immutable: header, values, time keys and the
    `validated_a_period` flag come back.  HourlyDiscontinuous: the DateTime arrays (a trailing 1 for
    leap years) are rebuilt into DateTimes; Daily / Monthly: integer keys are kept;
    MonthlyPerHour: the (month, hour, minute) tuples, which JSON delivers as lists, are turned back
    into tuples (the behaviour of fixes/C07_mph_from_dict.patch); HourlyContinuous: no time keys
    are written, the flag is always True, the value count must match the period. -/
theorem C07_Collection : ∀ c : Coll, c.wf → (Coll.rd c.kind c.imm).dec (jsonRT c.enc) = some c := by
  intro c hw
  rcases c with ⟨kind, hdr, vals, times, valid, imm⟩
  obtain ⟨hh, hv, ⟨vb, hvb⟩, hk⟩ := hw
  simp only at hh hv hvb hk
  subst hvb
  have lh := C07_Header hdr hh
  have lv := map_jsonRT_stable vals hv
  cases kind <;> cases times <;> simp only at hk
  · -- HourlyDiscontinuous
    rename_i l
    obtain ⟨hd, hlen, hne⟩ := hk
    have hl : decList dtOfArray (l.map (jsonRT ∘ dtArray)) = some l :=
      decList_map _ _ _ (fun a ha => dtOfArray_roundtrip a (hd a ha))
    have hne' : vals.length ≠ 0 := by
      intro e; exact hne (List.eq_nil_of_length_eq_zero e)
    cases imm <;>
      simp [Coll.enc, Times.enc, RecDec.dec_dict, Coll.rd, Coll.run, jsonRT_dict, kv, Coll.make, lh,
        lv, hl, CollKind.tag, PyVal.str?, PyVal.list?, hlen, hne, hne', (hlen ▸ hne' : l.length ≠ 0)]
  · -- HourlyContinuous
    obtain ⟨h0, h23, hlen, hvt⟩ := hk
    cases hvt
    cases imm <;>
      simp [Coll.enc, Times.enc, RecDec.dec_dict, Coll.rd, Coll.run, jsonRT_dict, kv, Coll.make, lh,
        lv, CollKind.tag, PyVal.str?, PyVal.list?, h0, h23, hlen]
  · -- Daily
    rename_i l
    obtain ⟨hd, hlen, hne⟩ := hk
    have ll := map_jsonRT_stable l hd
    have hne' : vals.length ≠ 0 := by
      intro e; exact hne (List.eq_nil_of_length_eq_zero e)
    cases imm <;>
      simp [Coll.enc, Times.enc, RecDec.dec_dict, Coll.rd, Coll.run, jsonRT_dict, kv, Coll.make, lh,
        lv, ll, CollKind.tag, PyVal.str?, PyVal.list?, hlen, hne, hne', (hlen ▸ hne' : l.length ≠ 0)]
  · -- Monthly
    rename_i l
    obtain ⟨hd, hlen, hne⟩ := hk
    have ll := map_jsonRT_stable l hd
    have hne' : vals.length ≠ 0 := by
      intro e; exact hne (List.eq_nil_of_length_eq_zero e)
    cases imm <;>
      simp [Coll.enc, Times.enc, RecDec.dec_dict, Coll.rd, Coll.run, jsonRT_dict, kv, Coll.make, lh,
        lv, ll, CollKind.tag, PyVal.str?, PyVal.list?, hlen, hne, hne', (hlen ▸ hne' : l.length ≠ 0)]
  · -- MonthlyPerHour (repaired reader)
    rename_i l
    obtain ⟨hd, hlen, hne⟩ := hk
    have hl : decList toTuple (l.map jsonRT) = some l :=
      decList_map _ _ _ (fun a ha => toTuple_jsonRT a (hd a ha))
    have hne' : vals.length ≠ 0 := by
      intro e; exact hne (List.eq_nil_of_length_eq_zero e)
    cases imm <;>
      simp [Coll.enc, Times.enc, RecDec.dec_dict, Coll.rd, Coll.run, jsonRT_dict, kv, Coll.make, lh,
        lv, hl, CollKind.tag, PyVal.str?, PyVal.list?, hlen, hne, hne', (hlen ▸ hne' : l.length ≠ 0)]

/-- Why the MonthlyPerHour reader has to rebuild tuples: JSON turns the (month, hour, minute)
    key into a list, and a reader that keeps what it is given (the pinned `BaseCollection.from_dict`)
    returns a key that is not the one written. -/
theorem C07_mph_keys_need_tuples_counterexample :
    jsonRT (.tuple [.int 2, .int 0, .int 0]) = .list [.int 2, .int 0, .int 0] ∧
    (PyVal.list [.int 2, .int 0, .int 0]) ≠ (PyVal.tuple [.int 2, .int 0, .int 0]) := by
  refine ⟨by simp, fun h => by cases h⟩

/-- Non-vacuity: a MonthlyPerHour collection with tuple keys, a float and an int value and
    string metadata is well formed (so `C07_Collection` and `C07_Header` say something). -/
example : Coll.wf ⟨.mph, ⟨.std "Temperature" none, "C", ⟨1, 1, 0, 12, 31, 23, 1, false⟩,
    [(.str "city", .str "Boston")]⟩, [.flt 5, .int 2],
    .raw [.tuple [.int 2, .int 0, .int 0], .tuple [.int 3, .int 23, .int 30]], .bool false, true⟩ := by
  refine ⟨⟨⟨by decide +kernel, by decide, by decide +kernel⟩, by decide, rfl, ?_⟩, ?_, ⟨false, rfl⟩, ?_⟩
  · simp [jsonRT_dict]
  · simp
  · simp

/-! ## Round 2: colour ranges, legends, design days, DDY, Wea, text forms -/

/-! ### ColorRange, LegendParameters, LegendParametersCategorized, Legend -/

/-- ColorRange: colours, domain stops and the continuous flag come back, for every range whose
    domain was given as floats in order and fits the colour count.  The reader re-maps a 2-stop
    domain of a continuous range by float arithmetic (`lo + c * (hi - lo) / (n - 1)`); for a range
    with exactly two colours this touches the written stops again, and the law needs – as an
    explicit clause of `CRange.wf` – that this re-mapping reproduces them (IEEE arithmetic is
    opaque here; the written stops are themselves the output of the same re-mapping, and no
    random pair was found on which the real arithmetic is not idempotent). -/
theorem C07_ColorRange : Law CRange.enc CRange.rd.dec CRange.wf := CRange.law

example : CRange.wf ⟨[⟨0, 0, 0, 255⟩, ⟨9, 9, 9, 255⟩, ⟨255, 0, 0, 7⟩],
    [.flt 0, .flt 0x3FE0000000000000, .flt 0x3FF0000000000000], true⟩ := by
  refine ⟨by simp, by decide, by simp, by simp, ?_, ?_⟩
  · exact ⟨by decide +kernel, by decide +kernel, trivial⟩
  · simp

/-- LegendParameters (default 3D / 2D properties): every optional key the writer omits (min, max,
    segment count, colours, title, user data) is the reader's default, the integer keys of the
    ordinal dictionary – text after JSON – are turned back into integers. -/
theorem C07_LegendParameters : Law LP.enc LP.rd.dec LP.wf := LP.law

example : LP.wf ⟨some (.int 0), some (.flt 0x4024000000000000), some 7, Option.none, some "C", true,
    some [(-1, .str "Cold"), (0, .str "Neutral"), (1, .str "Hot")], 1, false, false, "Arial",
    Option.none⟩ := by
  refine ⟨by decide +kernel, by simp, by simp, ?_, ?_, by simp⟩
  · intro o ho q hq
    cases ho
    simp only [List.mem_cons, List.not_mem_nil, or_false] at hq
    rcases hq with rfl | rfl | rfl <;> simp
  · exact ordinal_notTag_of_length _ (by decide)

/-- LegendParametersCategorized with explicit category names (whatever text `gen` the writer
    would generate otherwise). -/
theorem C07_LegendParametersCategorized (gen : LPC → List String) :
    Law (LPC.enc gen) LPC.rd.dec LPC.wf := LPC.law gen

/-- Categorized parameters created *without* category names do not read back equal: the writer
    emits the generated names, the reader stores them as explicit names, and `__eq__` compares
    `_category_names` (None before, a tuple after).  Finding C07-legend-categorized-default-names. -/
theorem C07_LegendParametersCategorized_default_names_counterexample (gen : LPC → List String)
    (p : LPC) (h : p.wfBase) (hn : p.names = Option.none) (hg : (gen p).length = p.domain.length + 1) :
    LPC.rd.dec (jsonRT (LPC.enc gen p)) = some { p with names := some (gen p) } ∧
    ({ p with names := some (gen p) } : LPC).names ≠ p.names := by
  refine ⟨LPC.default_names gen p h hn hg, ?_⟩
  simp [hn]

example : LPC.wfBase ⟨[.flt 0], [⟨0, 0, 0, 255⟩, ⟨9, 9, 9, 255⟩], Option.none, Option.none, false, false,
    2, true, true, "Arial", Option.none⟩ := by
  refine ⟨by simp, by simp, trivial, rfl, by decide, by simp⟩

/-- Legend with plain parameters: the values, the parameters (which a constructed legend always
    holds with both bounds filled in) and the two `is_*_default` flags come back. -/
theorem C07_Legend : Law Leg.enc Leg.rd.dec Leg.wf := Leg.law

/-! ### design days -/

theorem C07_DryBulbCondition : Law DryBulb.enc DryBulb.rd.dec DryBulb.wf := DryBulb.law
theorem C07_HumidityCondition : Law Humidity.enc Humidity.rd.dec Humidity.wf := Humidity.law
theorem C07_WindCondition : Law Wind.enc Wind.rd.dec Wind.wf := Wind.law
/-- The three sky conditions, read through `_SkyCondition.from_dict`'s dispatch on `type`;
    leap-year dates (29 Feb) included. -/
theorem C07_SkyCondition : Law Sky.enc Sky.rd.dec Sky.wf := Sky.law
/-- DesignDay = name, day type, location and the four conditions: composition of their laws. -/
theorem C07_DesignDay : Law DDay.enc DDay.rd.dec DDay.wf := DDay.law
/-- DDY = a location and any number of design days that carry this location (list lift). -/
theorem C07_DDY : Law DDYc.enc DDYc.rd.dec DDYc.wf := DDYc.law

example : DryBulb.wf ⟨.flt 0x4041800000000000, .int 10, "MultiplierSchedule", "Sched 1"⟩ := by
  show Num.geRat (.int 10) 0 = true
  decide +kernel
example : Sky.wf (.clear ⟨2, 29, true⟩ (.int 1) true) := by
  refine ⟨by decide, by decide +kernel⟩
example : Wind.wf ⟨.flt 0x400C000000000000, .int 360⟩ := by
  show (Num.geRat (.int 360) 0 && Num.leRat (.int 360) 360) = true
  decide +kernel

/-! ### Wea -/

/-- An annual Wea: composition of the Location law with the analysis-period constructor. -/
theorem C07_Wea_annual : Law WeaC.enc WeaC.rd.dec WeaC.wfAnnual := WeaC.law_annual

/-- A Wea with discontinuous collections whose period is spanned by its datetimes (what
    `filter_by_analysis_period` with a part-of-day window gives): everything comes back except
    the collections' `validated_a_period`, which `from_dict` always leaves False. -/
theorem C07_Wea_discontinuous_partial (w : WeaC) (h : w.wfDisc) :
    WeaC.rd.dec (jsonRT w.enc) = some { w with validated := false } := WeaC.read_disc w h

/-- … so a filtered Wea (`validated_a_period` True) does not read back equal.
    Finding C07-wea-discontinuous-validated-flag. -/
theorem C07_Wea_discontinuous_counterexample (w : WeaC) (h : w.wfDisc) (hv : w.validated = true) :
    WeaC.rd.dec (jsonRT w.enc) ≠ some w := by
  rw [WeaC.read_disc w h]
  intro e
  have := congrArg WeaC.validated (Option.some.inj e)
  simp [hv] at this

/-! #### Round 5: the reader keeps what the writer wrote, in the order written

The class of change behind seeded C07-15: a reader that NORMALISES (sorts the steps, validates them
against a period, removes duplicates).  In the model the Wea reader takes the datetime arrays as
listed; `WeaC.wfScattered` puts no condition on the order of the steps. -/

/-- A Wea over unflagged discontinuous collections whose steps - in ANY order: December before January,
    the order the hours were picked in, descending - do not fill the period spanned by the first and the
    last step reads back equal: location, both value lists, the datetimes as listed, timestep, year
    kind, the annual header.  (Full law; no hypothesis relates the order of the steps to the calendar.) -/
theorem C07_Wea_steps_in_any_order : Law WeaC.enc WeaC.rd.dec WeaC.wfScattered := WeaC.law_scattered

/-- … and writes the same dictionary again. -/
theorem C07_Wea_steps_in_any_order_fixed (w : WeaC) (h : w.wfScattered) :
    (WeaC.rd.dec (jsonRT w.enc)).map WeaC.enc = some w.enc := Law.fixed WeaC.law_scattered w h

/-- The reader neither sorts nor drops: the datetimes and the two value lists that come back are the
    lists that were written, element by element. -/
theorem C07_Wea_reader_keeps_order (w : WeaC) (h : w.wfScattered) :
    (WeaC.rd.dec (jsonRT w.enc)).map (fun r => (r.times, r.dni, r.dhi)) = some (w.times, w.dni, w.dhi) := by
  rw [WeaC.law_scattered w h]; rfl

/-- The dictionary of a Wea does not carry the header period: the same steps under another header
    period (every second step of a period, the sun-up hours of a wrapping period) write the same
    dictionary and therefore read back with the annual header, not equal to the Wea written.
    Finding C07-wea-dict-rederives-period. -/
theorem C07_Wea_period_rederived_counterexample (w : WeaC) (h : w.wfScattered) (ap' : AP)
    (h1 : ap'.ts = w.ap.ts) (h2 : ap'.leap = w.ap.leap) (hne : ap' ≠ w.ap) :
    WeaC.rd.dec (jsonRT ({ w with ap := ap' } : WeaC).enc) ≠ some { w with ap := ap' } := by
  have henc : ({ w with ap := ap' } : WeaC).enc = w.enc := by
    obtain ⟨_, _, _, _, ⟨l, _, _, ht, _⟩, _⟩ := h
    simp [WeaC.enc, WeaC.isAnnual, ht, h1, h2]
  rw [henc, WeaC.law_scattered w h]
  intro e
  exact hne (congrArg WeaC.ap (Option.some.inj e)).symm

/-- Non-vacuity: 30 December, then 2 January, then 1 January. -/
example : WeaC.wfScattered ⟨⟨"Boston", "-", "USA", .flt 0x40452F5C28F5C28F, .int 0, .flt 0xC014000000000000,
    .flt 0, none, .str "TMY3"⟩, AP.annual 1 false, [.int 1, .int 2, .int 3], [.int 4, .int 5, .int 6],
    some [⟨12, 30, 5, 0, false⟩, ⟨1, 2, 9, 0, false⟩, ⟨1, 1, 6, 0, false⟩], false⟩ := by
  refine ⟨⟨by decide, by decide, by decide, Or.inr ⟨_, rfl, by decide +kernel, by decide +kernel⟩,
    Or.inl rfl, ⟨_, rfl, by decide +kernel⟩, ⟨_, rfl, Or.inr rfl⟩, by simp, by simp, by simp [PyVal.isTag]⟩,
    rfl, by decide, rfl, ⟨_, _, _, rfl, rfl, rfl, by decide, ⟨⟨12, 30, 5, 1, 1, 6, 1, false⟩, by decide +kernel,
      by decide +kernel⟩, rfl, rfl⟩, by simp [jsonRT], by simp [jsonRT]⟩

/-! ### text forms -/

/-- CSV header strings, token level: a header with a default-named standard data type and text
    metadata reads back from its CSV strings in both layouts (one cell per entry / one joined
    row), *given* the character-level facts `SplitsBack md` (splitting the joined row at `' | '`
    and each item at `': '` gives the pieces back).  That hypothesis is the guard "no `' | '`,
    `': '` (nor `','` in files) inside metadata text"; it is compared with the code by the
    correspondence ops `split` / `hdr_csv`, not proved from a condition on the characters. -/
theorem C07_HeaderCsv_partial (num : Option Num → String) (descr : Option (List (Key × PyVal)) → String)
    (perRow : Bool) (cls unit : String) (md : List (String × String))
    (hc : Gen.DataTypes.names.contains cls = true) (ht : titleKey (spaced cls) = cls)
    (hs : SplitsBack md) :
    CsvHdr.read (CsvHdr.write num descr perRow ⟨.std cls Option.none, unit, md⟩) =
      some ⟨.std cls Option.none, unit, md⟩ := CsvHdr.law num descr perRow cls unit md hc ht hs

/-- The guard is satisfiable (evaluated at character level). -/
example : SplitsBack [("city", "Boston"), ("Zone", "LIVING ROOM")] :=
  ⟨fun _ => by decide +kernel, by decide +kernel, by decide +kernel, by decide +kernel⟩

/-- Outside the guard the CSV strings do not read back: a value containing `' | '` is cut in two
    and the second piece has no `': '` (IndexError in the code); a value containing `': '` is
    truncated.  Finding C07-csv-metadata-separators. -/
theorem C07_HeaderCsv_separator_counterexample :
    readCells (metaCells false [("b", "p | q")]) = Option.none ∧
    readCells (metaCells true [("k", "v: w")]) = some [("k", "v")] := by
  refine ⟨by decide +kernel, by decide +kernel⟩

/-- Round 6 (cross-talk between the members of one series).  In the header block of a CSV file that several
    collections share, the column of member `i` is that member's OWN CSV strings under the layout flag; the
    flag (one metadata item per row / one joined row) is computed from the metadata SIZES of the members and
    is the only thing they share - no sibling's keys, data type or unit enter the column. -/
theorem C07_csv_column_is_members_own (num : Option Num → String) (descr : Option (List (Key × PyVal)) → String)
    (hs : List CsvHdr) (i : Nat) (hi : i < hs.length) :
    (csvColumns num descr hs)[i]'(by simpa [csvColumns] using hi) =
      CsvHdr.write num descr (csvLayout (hs.map (·.md.length))) hs[i] :=
  csvColumns_getElem num descr hs i hi

/-- Round 6.  A series of headers (default-named standard data types, text metadata inside the guard
    `SplitsBack`) written side by side into one CSV header block reads back, column by column, to the series
    itself: in number, in order, and every member with its own metadata - whatever the metadata sizes and
    keys of the members are (same size and other keys, other sizes, none).  Token level (as
    C07_HeaderCsv_partial); the transposition `zip(*columns)` / `zip(*rows)` of the file is compared
    (correspondence `csv_series`), not modelled; the value and datetime cells are not part of the statement. -/
theorem C07_csv_series_partial (num : Option Num → String) (descr : Option (List (Key × PyVal)) → String)
    (hs : List CsvHdr)
    (h : ∀ x ∈ hs, ∃ cls, x.dataType = .std cls Option.none ∧ Gen.DataTypes.names.contains cls = true ∧
      titleKey (spaced cls) = cls ∧ SplitsBack x.md) :
    csvReadColumns (csvColumns num descr hs) = some hs := by
  apply mapM_read_write
  intro x hx
  obtain ⟨cls, hd, hc, ht, hsb⟩ := h x hx
  obtain ⟨d, u, md⟩ := x
  simp only at hd hsb
  subst hd
  exact CsvHdr.law num descr _ cls u md hc ht hsb

/-- Non-vacuity, in the shape "two members with as many items under other keys": the hypotheses hold
    (evaluated at character level), so both members read back with their own keys. -/
example : csvReadColumns (csvColumns (fun _ => "") (fun _ => "")
    [⟨.std "Temperature" Option.none, "C", [("type", "Zone Air"), ("Zone", "LIVING")]⟩,
     ⟨.std "Temperature" Option.none, "C", [("type", "Chiller"), ("System", "Plant 1")]⟩]) =
    some [⟨.std "Temperature" Option.none, "C", [("type", "Zone Air"), ("Zone", "LIVING")]⟩,
          ⟨.std "Temperature" Option.none, "C", [("type", "Chiller"), ("System", "Plant 1")]⟩] := by
  apply C07_csv_series_partial
  intro x hx
  simp only [List.mem_cons, List.mem_nil_iff, or_false] at hx
  rcases hx with rfl | rfl
  · exact ⟨"Temperature", rfl, by decide +kernel, by decide +kernel,
      ⟨fun _ => by decide +kernel, by decide +kernel, by decide +kernel, by decide +kernel⟩⟩
  · exact ⟨"Temperature", rfl, by decide +kernel, by decide +kernel,
      ⟨fun _ => by decide +kernel, by decide +kernel, by decide +kernel, by decide +kernel⟩⟩

#guard (csvColumns (fun _ => "") (fun _ => "")
    [⟨.std "Temperature" Option.none, "C", [("type", "Zone Air"), ("Zone", "LIVING")]⟩,
     ⟨.std "Temperature" Option.none, "C", [("type", "Chiller"), ("System", "Plant 1")]⟩]) =
  [["Temperature", "C", "type: Zone Air", "Zone: LIVING"], ["Temperature", "C", "type: Chiller", "System: Plant 1"]]

/-- Round 6, recorded finding C07-csv-one-period-per-file (the model follows the code): the CSV file of a series
    has ONE analysis-period cell, the first member's.  Two aligned members whose headers name different periods
    (possible for every non-continuous class: alignment looks at class and datetimes only) both come back under
    the first member's period - the second one is not the header that was written. -/
theorem C07_csv_series_period_counterexample :
    let ap1 : AP := ⟨1, 1, 0, 3, 31, 23, 1, false⟩
    let ap2 : AP := ⟨1, 1, 0, 6, 30, 23, 1, false⟩
    let h (a : AP) : Hdr := ⟨.std "Temperature" Option.none, "C", a, []⟩
    ap1 ≠ ap2 ∧
    (Hdr.csvSeries [h ap1, h ap2]).map (fun r => r.2.map (fun o => o.map (·.ap))) = some [some ap1, some ap1] := by
  refine ⟨by decide, by decide +kernel⟩

/-- The layout flag: per-row exactly when all members have the same number of items and that number is not 1. -/
theorem C07_csv_layout (n : Nat) (r : List Nat) :
    csvLayout (n :: r) = true ↔ (∀ m ∈ r, m = n) ∧ n ≠ 1 := by
  simp [csvLayout]

/-- The text form of a *generic* data type never reads back (`GenericType.from_string` hands the
    eight `' | '`-separated fields to the constructor as text, which rejects text for `min`);
    hence neither do the CSV strings of a header or collection with a generic data type.
    Finding C07-generic-type-text-form. -/
theorem C07_GenericType_string_counterexample (num : Option Num → String)
    (descr : Option (List (Key × PyVal)) → String) (name unit : String) (mn mx : Option Num)
    (abbr : String) (ud : Option (List (Key × PyVal))) (pit cum : Bool) :
    DType.ofParts ((DType.generic name unit mn mx abbr ud pit cum).textParts num descr) = Option.none :=
  generic_text_rejected num descr name unit mn mx abbr ud pit cum

/-- A default-named standard data type reads back from its text (its name). -/
theorem C07_DataType_string (num : Option Num → String) (descr : Option (List (Key × PyVal)) → String)
    (cls : String) (hc : Gen.DataTypes.names.contains cls = true) (ht : titleKey (spaced cls) = cls) :
    DType.ofParts ((DType.std cls Option.none).textParts num descr) = some (.std cls Option.none) :=
  std_text_roundtrip num descr cls hc ht

/-! ## Round 3 — histories on one object (object state machines of Model/Serial/Hist.lean)

  The state of a machine is the public state of the object; a refused operation returns the
  unchanged state.  The real objects are compared with the machines step by step on every run
  (driver op `hist`: accepted / refused, dictionary after every step, value of every read). -/

open Hist

/-- A refused operation (the code raises) leaves the object as it was: the state, and therefore
    every observation (dictionary form, read-back, copy), is unchanged.  For every machine. -/
theorem C07_refused_preserves {σ ω ρ : Type} (m : Machine σ ω ρ) (s : σ) (o : Op ω ρ)
    (h : (m.step s o).2 = .refused) :
    (m.step s o).1 = s ∧ ∀ r, m.read (m.step s o).1 r = m.read s r := by
  have := step_refused m s o h
  exact ⟨this, fun r => by rw [this]⟩

/-- non-vacuity: a latitude that is not a number is refused -/
example : locM.apply ⟨"a", "b", "c", .int 0, .int 0, .flt 0, .flt 0, Option.none, .none⟩
    (.lat (.bool true)) = Option.none := rfl

/-- Reads are pure: a read does not change the object, asking twice gives the same answer, the
    order of two reads does not matter, and any number of reads leaves the state as it was. -/
theorem C07_read_pure {σ ω ρ : Type} (m : Machine σ ω ρ) (s : σ) (a b : ρ) (rs : List ρ) :
    (m.step s (.read a)).1 = s ∧
    (m.step (m.step s (.read a)).1 (.read a)).2 = (m.step s (.read a)).2 ∧
    (m.step (m.step s (.read a)).1 (.read b)).2 = (m.step s (.read b)).2 ∧
    m.run s (rs.map Op.read) = s :=
  ⟨rfl, rfl, rfl, run_reads m s rs⟩

/-- Histories refine fresh objects (abstract form): when every accepted assignment of the domain
    keeps the constructor's normal form `inv`, and the constructor applied to the public state of
    a normal object gives that object (`fresh`), then after EVERY history every observation of
    the object equals the observation of a fresh object built from its final public state. -/
theorem C07_history_refines_fresh {σ ω ρ : Type} (m : Machine σ ω ρ) (inv : σ → Prop)
    (dom : ω → Prop) (fresh : σ → Option σ)
    (hp : ∀ s o s', inv s → dom o → m.apply s o = some s' → inv s')
    (hf : ∀ s, inv s → fresh s = some s)
    (ops : List (Op ω ρ)) (s : σ) (hs : inv s) (hd : ∀ o, Op.asg o ∈ ops → dom o) (r : ρ) :
    (fresh (m.run s ops)).bind (fun t => m.read t r) = m.read (m.run s ops) r := by
  rw [hf _ (run_inv m inv dom hp ops s hs hd)]; rfl

/-- Location: after every history of assignments (accepted or refused: latitude, longitude, time
    zone, elevation, the plain text attributes) and reads, starting from a constructed Location,
    the object (1) equals the fresh object the constructor builds from its public fields
    (`duplicate()`), (2) reads back from its dictionary, sent through JSON, equal to itself, and
    (3) every read answers what the fresh object answers.  Domain of the assignments: see
    `LocSet.modelled` (numbers arrive as floats, the time zone is given, text is non-empty). -/
theorem C07_history_refines_fresh_Location (l : Loc) (hw : l.wf) (ops : List (Op LocSet Read))
    (hd : ∀ o, Op.asg o ∈ ops → o.modelled) (r : Read) :
    (locM.run l ops).copy = some (locM.run l ops) ∧
    Loc.rd.dec (jsonRT (locM.run l ops).enc) = some (locM.run l ops) ∧
    locM.read (locM.run l ops) r = some (locM.run l ops).enc := by
  have hi : (locM.run l ops).wf :=
    run_inv locM Loc.wf LocSet.modelled (fun s o s' a b c => locApply_wf s o s' a b c) ops l hw hd
  refine ⟨Loc.copy_of_wf _ hi, Loc.law _ hi, ?_⟩
  cases r with
  | dict => rfl
  | roundTrip =>
    show (Loc.rd.dec (jsonRT (locM.run l ops).enc)).map Loc.enc = _
    rw [Loc.law _ hi]; rfl
  | copy =>
    show ((locM.run l ops).copy).map Loc.enc = _
    rw [Loc.copy_of_wf _ hi]; rfl

/-- non-vacuity: an accepted and a refused assignment in one history -/
example : (locM.run ⟨"a", "b", "c", .int 0, .int 0, .flt 0, .flt 0, Option.none, .none⟩
    [.asg (.city "Lisbon"), .asg (.lat (.bool true)), .read .dict]).city = "Lisbon" := rfl

/-- Data collections (all five classes, mutable and immutable): after every history of
    `values = …`, `coll[i] = …`, `header.metadata = …` (accepted or refused; the immutable twins
    refuse the first two) and reads, starting from a constructed collection, the object keeps its
    class, reads back from its dictionary, sent through JSON, equal to itself, and every read
    answers the dictionary of that read-back object.  Domain: the assigned values are
    JSON-stable Python values (numbers, text, …; see `CollSet.modelled`). -/
theorem C07_history_refines_fresh_Collection (c : Coll) (hw : c.wf) (ops : List (Op CollSet Read))
    (hd : ∀ o, Op.asg o ∈ ops → o.modelled) (r : Read) :
    (Coll.rd (collM.run c ops).kind (collM.run c ops).imm).dec (jsonRT (collM.run c ops).enc)
      = some (collM.run c ops) ∧
    collM.read (collM.run c ops) r = some (collM.run c ops).enc := by
  have hi : (collM.run c ops).wf :=
    run_inv collM Coll.wf CollSet.modelled (fun s o s' a b c => collApply_wf s o s' a b c) ops c hw hd
  have hl := C07_Collection _ hi
  refine ⟨hl, ?_⟩
  cases r with
  | dict => rfl
  | roundTrip =>
    show ((Coll.rd (collM.run c ops).kind (collM.run c ops).imm).dec
      (jsonRT (collM.run c ops).enc)).map Coll.enc = _
    rw [hl]; rfl
  | copy =>
    show ((Coll.rd (collM.run c ops).kind (collM.run c ops).imm).dec
      (jsonRT (collM.run c ops).enc)).map Coll.enc = _
    rw [hl]; rfl

/-- The immutable twins refuse every assignment of values (and the object stays as it was). -/
theorem C07_immutable_refuses (c : Coll) (hi : c.imm = true) (v : PyVal) (i : Int) :
    (collM.step c (.asg (.values v))).2 = .refused ∧ (collM.step c (.asg (.item i v))).2 = .refused ∧
    (collM.step c (.asg (.values v))).1 = c ∧ (collM.step c (.asg (.item i v))).1 = c := by
  simp [collM, Machine.step, collApply, hi]

/-! ### Round 4: sibling classes, series of collections in files -/

/-- The normal form of a collection does not mention which twin it is. -/
theorem Coll.wf_toMutable (c : Coll) (h : c.wf) : c.toMutable.wf := h
theorem Coll.wf_toImmutable (c : Coll) (h : c.wf) : c.toImmutable.wf := h

/-- Sibling classes agree: the mutable and the immutable twin of a collection write the SAME
    dictionary (`to_dict` exports `list(self._values)`, a list copy, for both twins), before JSON already. -/
theorem C07_twins_same_dictionary (c : Coll) : c.toImmutable.enc = c.toMutable.enc := rfl

/-- ... hence also after JSON. -/
theorem C07_twins_same_json (c : Coll) : jsonRT c.toImmutable.enc = jsonRT c.toMutable.enc := by
  rw [C07_twins_same_dictionary]

/-- The two conversions are inverse to each other on either twin, and idempotent. -/
theorem C07_twin_conversions (c : Coll) :
    c.toImmutable.toMutable = c.toMutable ∧ c.toMutable.toImmutable = c.toImmutable ∧
    c.toMutable.toMutable = c.toMutable ∧ c.toImmutable.toImmutable = c.toImmutable ∧
    (c.imm = false → c.toMutable = c) ∧ (c.imm = true → c.toImmutable = c) := by
  rcases c with ⟨k, h, v, t, va, i⟩
  simp [Coll.toMutable, Coll.toImmutable]

/-- Reading the dictionary of EITHER twin with the mutable class (what the file readers of `datautil`
    do) gives the mutable twin; with the immutable class, the immutable twin. -/
theorem C07_read_as_mutable (c : Coll) (h : c.wf) :
    (Coll.rd c.kind false).dec (jsonRT c.enc) = some c.toMutable := by
  have hm := C07_Collection c.toMutable (Coll.wf_toMutable c h)
  rcases c with ⟨k, hd, v, t, va, i⟩
  cases i
  · exact hm
  · have e := C07_twins_same_json ⟨k, hd, v, t, va, true⟩
    simp only [Coll.toImmutable, Coll.toMutable] at e hm ⊢
    rw [e]; exact hm

theorem C07_read_as_immutable (c : Coll) (h : c.wf) :
    (Coll.rd c.kind true).dec (jsonRT c.enc) = some c.toImmutable := by
  have hm := C07_Collection c.toImmutable (Coll.wf_toImmutable c h)
  rcases c with ⟨k, hd, v, t, va, i⟩
  cases i
  · have e := C07_twins_same_json ⟨k, hd, v, t, va, false⟩
    simp only [Coll.toImmutable, Coll.toMutable] at e hm ⊢
    rw [← e]; exact hm
  · exact hm

theorem decList_map' {α : Type} (f : PyVal → Option α) (g : α → PyVal) (t : α → α) (l : List α)
    (h : ∀ a ∈ l, f (g a) = some (t a)) : decList f (l.map g) = some (l.map t) := by
  induction l with
  | nil => rfl
  | cons x xs ih =>
    simp only [List.map, decList, h x (by simp), ih (fun a ha => h a (by simp [ha]))]
    rfl

/-- JSON / pickle file of a series of collections: every collection written is read back, in the order
    written, as its mutable twin - for every reader `rd` that reads single dictionaries back (the
    dispatch of `_dict_to_collection` on the `type` key is the hypothesis; `C07_json_file` below
    discharges it for series of one class).  In particular the number of collections read is the
    number written, whatever container the series was handed over in: the model of the writers takes
    the list of the elements. -/
theorem C07_json_file_partial (rd : PyVal → Option Coll)
    (hrd : ∀ c : Coll, c.wf → rd (jsonRT c.enc) = some c.toMutable)
    (xs : List Coll) (hw : ∀ c ∈ xs, c.wf) :
    decFileOf rd (jsonRT (encFile xs)) = some (xs.map Coll.toMutable) := by
  simp only [encFile, jsonRT_list, List.map_map, decFileOf]
  show decList rd (xs.map (jsonRT ∘ Coll.enc)) = _
  exact decList_map' rd (jsonRT ∘ Coll.enc) Coll.toMutable xs (fun c hc => hrd c (hw c hc))

/-- Series of collections of one class `k` (mutable and immutable twins mixed): the file reads back to
    the mutable twins of all of them, in order. -/
theorem C07_json_file (k : CollKind) (xs : List Coll) (hk : ∀ c ∈ xs, c.kind = k) (hw : ∀ c ∈ xs, c.wf) :
    decFileOf (Coll.rd k false).dec (jsonRT (encFile xs)) = some (xs.map Coll.toMutable) := by
  simp only [encFile, jsonRT_list, List.map_map, decFileOf]
  show decList (Coll.rd k false).dec (xs.map (jsonRT ∘ Coll.enc)) = _
  refine decList_map' _ (jsonRT ∘ Coll.enc) Coll.toMutable xs (fun c hc => ?_)
  have := C07_read_as_mutable c (hw c hc)
  rw [hk c hc] at this
  exact this

/-- The number of collections read from a file is the number written. -/
theorem C07_json_file_count (k : CollKind) (xs : List Coll) (hk : ∀ c ∈ xs, c.kind = k) (hw : ∀ c ∈ xs, c.wf) :
    (decFileOf (Coll.rd k false).dec (jsonRT (encFile xs))).map List.length = some xs.length := by
  rw [C07_json_file k xs hk hw]; simp

example : decFileOf (Coll.rd .monthly false).dec (jsonRT (encFile [])) = some [] := rfl

end Codec
