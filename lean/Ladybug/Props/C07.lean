/-
  C07 — Every serial form reads back to an object equal to the one written.

  Theorems about the codec model (Model/Codec.lean, Model/Serial/*.lean).  `Law enc dec wf` is
  `∀ a, wf a → dec (jsonRT (enc a)) = some a`: the dictionary written by `to_dict`, passed through
  JSON, read by `from_dict`, is the original object.  `wf` is the normal form the class's own
  constructor establishes.  The fixed point of `to_dict` follows from the law (`Law.fixed`);
  independence of key order and of unknown keys is proved once for all record decoders.

  Proved here: DateTime, Date, Time, AnalysisPeriod (dict, duplicate, token-level text), Location,
  Color, DataType (standard and generic), Header, the five data-collection classes (mutable and
  immutable).  Not modelled (oracle only): ColorRange, legends, design days, DDY, Wea, EPW,
  psychrometric charts, CSV/PKL files.
-/
import Ladybug.Model.Serial.Coll
import Ladybug.Props.C08

namespace Codec
open Cal

/-! ### json.loads ∘ json.dumps -/

theorem keyStr_idem (k : Key) : keyStr (keyStr k) = keyStr k := by cases k <;> rfl

mutual
theorem jsonRT_idem : ∀ v : PyVal, jsonRT (jsonRT v) = jsonRT v
  | .none => rfl
  | .bool _ => rfl
  | .int _ => rfl
  | .flt _ => rfl
  | .str _ => rfl
  | .list l => by simp only [jsonRT, jsonRTList_idem l]
  | .tuple l => by simp only [jsonRT, jsonRTList_idem l]
  | .dict kv => by simp only [jsonRT, jsonRTKV_idem kv]
theorem jsonRTList_idem : ∀ l : List PyVal, jsonRTList (jsonRTList l) = jsonRTList l
  | [] => rfl
  | x :: xs => by simp only [jsonRTList, jsonRT_idem x, jsonRTList_idem xs]
theorem jsonRTKV_idem : ∀ kv : List (Key × PyVal), jsonRTKV (jsonRTKV kv) = jsonRTKV kv
  | [] => rfl
  | (k, v) :: r => by simp only [jsonRTKV, jsonRT_idem v, jsonRTKV_idem r, keyStr_idem]
end

/-- What JSON does to a value it does only once: a value that came out of JSON goes through
    unchanged (`jsonRT` is a normal-form map; "JSON-stable" = "is its own image"). -/
theorem C07_jsonRT_idempotent (v : PyVal) : jsonRT (jsonRT v) = jsonRT v := jsonRT_idem v

example : jsonRT (.tuple [.int 1, .tuple [.flt 5], .dict []]) = .list [.int 1, .list [.flt 5], .dict []] := by
  simp

/-! ### once for every record decoder -/

/-- Reading a dictionary does not depend on the order of its keys (any record decoder, hence
    every `from_dict` modelled below). -/
theorem C07_key_order {α : Type} (r : RecDec α) {a b : List (Key × PyVal)} (hp : a.Perm b)
    (hn : (strKeys a).Nodup) : r.dec (.dict a) = r.dec (.dict b) := r.dec_perm hp hn

/-- Reading ignores keys the reader does not know. -/
theorem C07_unknown_key {α : Type} (r : RecDec α) (a : List (Key × PyVal)) (k : String) (v : PyVal)
    (hk : k ∉ r.keys) : r.dec (.dict ((.str k, v) :: a)) = r.dec (.dict a) :=
  r.dec_unknown_key a k v hk

/-- `to_dict` fixed point: the object read back writes the dictionary that was written. -/
theorem C07_fixed_point {α : Type} {enc : α → PyVal} {dec : PyVal → Option α} {wf : α → Prop}
    (h : Law enc dec wf) (a : α) (ha : wf a) : (dec (jsonRT (enc a))).map enc = some (enc a) :=
  h.fixed a ha

example : AP.rd.dec (.dict [kv "timestep" (natV 4), kv "zz" .none, kv "st_month" (natV 3)]) =
    some ⟨3, 1, 0, 12, 31, 23, 4, false⟩ := by decide

/-! ### dt.py -/

/-- A valid DateTime written to its dictionary (the writer omits `leap_year` unless set), sent
    through JSON and read back is the same DateTime — 29 Feb included. -/
theorem C07_DateTime : Law DTc.enc DTc.rd.dec (fun d => d.valid) := by
  intro d hv
  have hm := make_of_valid d hv
  cases hl : d.leap <;>
    simp [DTc.enc, DTc.rd, RecDec.dec, PyVal.env?, jsonRT_dict, kv, DTc.run, natOr, truthOr,
      PyVal.truthy, hl] <;> rw [← hl, hm] <;> rfl

example : (DT.mk 2 29 13 30 true).valid := by decide

theorem C07_Date : Law Dc.enc Dc.rd.dec (fun d => d.valid) := by
  intro d hv
  have hm := date_make_of_valid d hv
  cases hl : d.leap <;>
    simp [Dc.enc, Dc.rd, RecDec.dec, PyVal.env?, jsonRT_dict, kv, Dc.run, intOr, truthOr,
      PyVal.truthy, natV, PyVal.int?, hl] <;> rw [← hl, hm] <;> rfl

theorem C07_Time : Law Tc.enc Tc.rd.dec (fun t => t.valid) := by
  intro t hv
  have hm : T.make t.hour t.minute = .ok t := by
    obtain ⟨h1, h2⟩ := hv
    have e1 : t.minute / 60 = 0 := by omega
    have e2 : t.minute % 60 = t.minute := by omega
    simp [T.make, normHM, T.valid, e1, e2, h1, h2]
  simp [Tc.enc, Tc.rd, RecDec.dec, PyVal.env?, jsonRT_dict, kv, Tc.run, natOr, hm, okOpt]

/-! ### AnalysisPeriod -/

theorem make_hour0 (m d h : Nat) (leap : Bool) (hv : (DT.mk m d h 0 leap).valid) :
    DT.make m d h 0 leap = .ok ⟨m, d, h, 0, leap⟩ := make_of_valid ⟨m, d, h, 0, leap⟩ hv

theorem orD_pos (n d : Nat) (h : 1 ≤ n) : orD (some n) d = n := by
  cases n with
  | zero => omega
  | succ k => rfl

/-- The constructor applied to the fields of a well-formed period rebuilds it (constructor
    idempotence): no `or`-default fires, no end-day clipping, both DateTimes are accepted. -/
theorem AP.make_of_wf (a : AP) (h : a.wf) :
    AP.make (some a.stM) (some a.stD) (some a.stH) (some a.endM) (some a.endD) (some a.endH)
      (some a.ts) a.leap = some a := by
  obtain ⟨hs, he, ht⟩ := h
  have hs' := hs
  have he' := he
  simp only [DT.valid] at hs' he'
  have e1 := orD_pos a.stM 1 hs'.1
  have e2 := orD_pos a.stD 1 hs'.2.2.1
  have e4 := orD_pos a.endM 12 he'.1
  have e5 := orD_pos a.endD 31 he'.2.2.1
  have e7 : orD (some a.ts) 1 = a.ts := by
    apply orD_pos
    simp only [validTimesteps, List.mem_cons, List.not_mem_nil, or_false] at ht
    omega
  have e3 : orD (some a.stH) 0 = a.stH := by cases h3 : a.stH <;> rfl
  have hclip : ¬ (monthLen a.leap a.endM < a.endD) := by omega
  have h12 : ¬ (12 < a.endM) := by omega
  simp only [AP.make, e1, e2, e3, e4, e5, e7, make_hour0 _ _ _ _ hs, make_hour0 _ _ _ _ he, okOpt,
    hclip, h12, ht, if_true, if_false, Option.bind_eq_bind, Option.bind_some]

/-- AnalysisPeriod: dictionary → JSON → `from_dict` gives the period back, for every period in
    the constructor's normal form (any months/days/hours incl. reversed and overnight periods,
    all 12 timesteps, both leap flags). -/
theorem C07_AnalysisPeriod : Law AP.enc AP.rd.dec AP.wf := by
  intro a h
  have hm := AP.make_of_wf a h
  cases hl : a.leap <;>
    simp [AP.enc, AP.rd, RecDec.dec, PyVal.env?, jsonRT_dict, kv, AP.run, argNat, truthOr,
      PyVal.truthy, natV, PyVal.nat?, hl] <;> rw [← hl] <;> simpa using hm

/-- `duplicate()` / `__copy__` of a well-formed period equals the period. -/
theorem C07_AnalysisPeriod_duplicate (a : AP) (h : a.wf) : a.copy = some a := AP.make_of_wf a h

/-- Text form at token level: the seven printed numbers and the `*` marker parse back to the
    period (`from_string` never clips: a well-formed period needs no clipping).  The character
    level (`replace` chain, `%d` printing) is compared with the code by correspondence only. -/
theorem C07_AnalysisPeriod_string_partial (a : AP) (h : a.wf) :
    AP.parseTokens a.strTokens = some a := by
  have hm := AP.make_of_wf a h
  obtain ⟨_, he, _⟩ := h
  simp only [DT.valid] at he
  have e4 := orD_pos a.endM 12 he.1
  have e5 := orD_pos a.endD 31 he.2.2.1
  have hclip : ¬ (monthLen a.leap a.endM < a.endD) := by omega
  simp only [AP.strTokens, AP.parseTokens, e4, e5, hclip, if_false]
  exact hm

example : (AP.mk 12 1 22 2 29 3 4 true).wf := by decide

/-! ### Color -/

theorem C07_Color : Law Col.enc Col.rd.dec Col.wf := by
  intro c h
  obtain ⟨h1, h2, h3, h4⟩ := h
  simp [Col.enc, Col.rd, RecDec.dec, PyVal.env?, jsonRT_dict, kv, Col.run, chan, h1, h2, h3, h4]

example : (Col.mk 0 255 7 255).wf := by decide

/-! ### Location -/

theorem locArg_str (s : String) : locArg (some (.str s)) = .str s := by simp [locArg, PyVal.isTag]
theorem locArg_num (n : Num) : locArg (some n.enc) = n.enc := by
  cases n <;> simp [locArg, PyVal.isTag, Num.enc]
theorem locArg_optStr (o : Option String) : locArg (some (optStr o)) = optStr o := by
  cases o <;> simp [locArg, PyVal.isTag, optStr]

theorem dashStr_str (s : String) (h : s ≠ "") : dashStr (.str s) = some s := by
  simp [dashStr, PyVal.truthy, h]

theorem angle_wf (n : Num) (lo hi : Int)
    (h : n = .int 0 ∨ ∃ b, n = .flt b ∧ n.truthy = true ∧ n.inRange lo hi = true) :
    angle n.enc lo hi = some n := by
  rcases h with rfl | ⟨b, rfl, ht, hr⟩
  · simp [angle, Num.enc, PyVal.truthy]
  · simp only [Num.truthy, Num.enc] at ht
    simp [angle, Num.enc, ht, PyVal.num?, Num.toFloat, hr]

/-- Location (time zone given, i.e. a float after `float(tz)`): dictionary → JSON → `from_dict`
    gives the location back.  Covers the constructor's normal forms: `'-'` for missing names,
    integer 0 for a falsy latitude/longitude, float elevation, `None` station id. -/
theorem C07_Location : Law Loc.enc Loc.rd.dec Loc.wf := by
  intro l h
  rcases l with ⟨city, state, country, lat, lon, tz, elev, sid, source⟩
  obtain ⟨hc, hs, hco, hlat, hlon, ⟨tb, htz, htzr⟩, ⟨eb, hel, hel2⟩, hsid, hsrc, hsrc2⟩ := h
  simp only at hc hs hco hlat hlon htz htzr hel hel2 hsid hsrc hsrc2
  subst htz hel
  have a1 := angle_wf lat (-90) 90 hlat
  have a2 := angle_wf lon (-180) 180 hlon
  have t1 : tzOf (Num.flt tb).enc lon = some (.flt tb) := by
    simp [tzOf, Num.enc, PyVal.num?, Num.toFloat, htzr]
  have e1 : elevOf (Num.flt eb).enc = some (.flt eb) := by
    rcases hel2 with ht | rfl
    · simp only [Num.truthy, Num.enc] at ht
      simp [elevOf, Num.enc, ht, PyVal.num?, Num.toFloat]
    · simp [elevOf, Num.enc, PyVal.truthy]
  have s1 : sidOf (optStr sid) = some sid := by
    cases sid with
    | none => simp [sidOf, optStr, PyVal.truthy]
    | some s =>
      have : s ≠ "" := hsid s rfl
      simp [sidOf, optStr, PyVal.truthy, this, dashStr]
  have src : locArg (some (jsonRT source)) = source := by
    rw [hsrc]; simp [locArg, hsrc2]
  simp only [Loc.enc, Loc.rd, RecDec.dec, PyVal.env?, jsonRT_dict, kv, Loc.run, List.map,
    keyStr_str, jsonRT_str, jsonRT_num, lookupKV_cons_str]
  have jo : jsonRT (optStr sid) = optStr sid := by cases sid <;> simp [optStr]
  simp [jo, locArg_str, locArg_num, locArg_optStr, src, Loc.make, dashStr_str, hc, hs, hco, a1, a2,
    t1, e1, s1]

/-- A location whose time zone was left to the constructor carries the *integer*
    `round(longitude / 15)`; the reader applies `float()` to it.  The read-back object holds the
    float of that integer (equal to it as a Python number, which is outside this model: floats are
    opaque bit patterns), every other field is unchanged. -/
theorem C07_Location_autotz_partial (l : Loc) (i : Int)
    (h : Loc.wf { l with tz := .flt (floatBitsOfInt i) }) (hl : l.tz = .int i) :
    Loc.rd.dec (jsonRT l.enc) = some { l with tz := .flt (floatBitsOfInt i) } := by
  have := C07_Location _ h
  rcases l with ⟨city, state, country, lat, lon, tz, elev, sid, source⟩
  simp only at hl
  subst hl
  simp only [Loc.enc, Loc.rd, RecDec.dec, PyVal.env?, jsonRT_dict, kv, Loc.run, List.map,
    keyStr_str, jsonRT_str, jsonRT_num, lookupKV_cons_str, Num.enc] at this ⊢
  simp only [locArg, PyVal.isTag, Loc.make, tzOf, PyVal.num?, Num.toFloat, Option.map] at this ⊢
  exact this

example : Loc.wf ⟨"Boston", "-", "USA", .flt 0x40452F5C28F5C28F, .int 0, .flt 0xC014000000000000,
    .flt 0, none, .str "TMY3"⟩ := by
  refine ⟨by decide, by decide, by decide, Or.inr ⟨_, rfl, by decide +kernel, by decide +kernel⟩,
    Or.inl rfl, ⟨_, rfl, by decide +kernel⟩, ⟨_, rfl, Or.inr rfl⟩, by simp, by simp, by simp [PyVal.isTag]⟩

/-! ### Data types -/

/-- Data types.  Standard type: class name and name are written; the reader recreates the class
    and keeps the default name (`_name` None) exactly when the written name title-cases to the
    class name – which is why the normal form asks a custom name *not* to do so (see the
    counterexample below).  Generic type: every optional key the writer omits (infinite bounds,
    abbreviation equal to the name, no unit description, point-in-time, not cumulative) is the
    reader's default. -/
theorem C07_DataType : Law DType.enc DType.rd.dec DType.wf := by
  intro d h
  cases d with
  | std cls name =>
    cases name with
    | none =>
      obtain ⟨h1, h2, h3⟩ := h
      have hg : (cls == "GenericType") = false := by simpa using h2
      simp [DType.enc, DType.name, RecDec.dec_dict, DType.rd, DType.run, jsonRT_dict, kv, DType.make,
        PyVal.str?, h3]
      exact ⟨h2, by simpa using h1⟩
    | some n =>
      obtain ⟨h1, h2, h3⟩ := h
      have hg : (cls == "GenericType") = false := by simpa using h2
      have ht : (cls == titleKey n) = false := by
        simp only [beq_eq_false_iff_ne, ne_eq]; exact fun e => h3 e.symm
      simp [DType.enc, DType.name, RecDec.dec_dict, DType.rd, DType.run, jsonRT_dict, kv, DType.make,
        PyVal.str?]
      exact ⟨h2, by simpa using h1, fun e => h3 e.symm⟩
  | generic name unit mn mx abbr ud pit cum =>
    obtain ⟨ha, hpc, hud, _⟩ := h
    have bnd : ∀ m : Num, boundOf (some m.enc) = some (some m) := by
      intro m; cases m <;> simp [boundOf, Num.enc, PyVal.isTag, PyVal.num?]
    have hab : (PyVal.str abbr).truthy = true := by simp [PyVal.truthy, ha]
    have hudd : ∀ dd, ud = some dd → jsonRT (.dict dd) = .dict dd := hud
    by_cases hn : abbr = name
    · subst hn
      cases mn <;> cases mx <;> cases ud <;> cases pit <;> cases cum <;>
        simp_all [DType.enc, RecDec.dec_dict, DType.rd, DType.run, jsonRT_dict, kv, DType.make,
          PyVal.str?, boolOr, PyVal.bool?, boundOf]
    · have hne : (abbr != name) = true := by simpa using hn
      cases mn <;> cases mx <;> cases ud <;> cases pit <;> cases cum <;>
        simp_all [DType.enc, RecDec.dec_dict, DType.rd, DType.run, jsonRT_dict, kv, DType.make,
          PyVal.str?, boolOr, PyVal.bool?, boundOf]

example : DType.wf (.std "DryBulbTemperature" none) := by
  refine ⟨by decide +kernel, by decide, by decide +kernel⟩
example : DType.wf (.generic "Foo" "bar" (some (.int 0)) none "F" none false true) := by
  refine ⟨by decide, rfl, by simp, rfl⟩

/-- The side condition on custom names is needed: `Temperature('temperature')` is written as
    name 'temperature' / class 'Temperature' and read back as the default-named Temperature
    (`_name` None), which `DataTypeBase.__eq__` distinguishes from the original.
    Finding C07-datatype-name-titles-to-class. -/
theorem C07_DataType_name_counterexample :
    DType.rd.dec (jsonRT (DType.std "Temperature" (some "temperature")).enc) =
      some (DType.std "Temperature" none) := by
  have h1 : titleKey "temperature" = "Temperature" := by decide +kernel
  have h2 : Gen.DataTypes.names.contains "Temperature" = true := by decide +kernel
  have h2' : "Temperature" ∈ Gen.DataTypes.names := by simpa using h2
  simp [DType.enc, DType.name, RecDec.dec_dict, DType.rd, DType.run, jsonRT_dict, kv, DType.make,
    PyVal.str?, h1, h2']

/-! ### Header -/

/-- Header: data type, unit, analysis period and metadata all come back, for every well-formed
    data type and period and every metadata dictionary that JSON leaves unchanged (string keys,
    JSON values).  An empty or missing metadata reads as `{}`. -/
theorem C07_Header : Law Hdr.enc Hdr.rd.dec Hdr.wf := by
  intro h hw
  obtain ⟨hd, ha, hu, hm⟩ := hw
  have l1 := C07_DataType h.dataType hd
  have l2 := C07_AnalysisPeriod h.ap ha
  simp [Hdr.enc, RecDec.dec_dict, Hdr.rd, Hdr.run, jsonRT_dict, kv, Hdr.make, l1, l2, hm, hu,
    PyVal.str?]

/-! ### Data collections -/

theorem dtOfArray_roundtrip (d : DT) (hv : d.valid) : dtOfArray (jsonRT (dtArray d)) = some d := by
  have h := C08_array_roundtrip d hv
  have hl : decList PyVal.nat? (d.toArray.map natV) = some d.toArray :=
    decList_map _ _ _ (fun a _ => nat?_natV a)
  simp [dtOfArray, dtArray, PyVal.list?, List.map_map, Function.comp_def, hl, h, okOpt]

theorem toTuple_jsonRT (v : PyVal) (h : ∃ t, v = .tuple t ∧ ∀ x ∈ t, jsonRT x = x) :
    toTuple (jsonRT v) = some v := by
  obtain ⟨t, rfl, ht⟩ := h
  simp [toTuple, map_jsonRT_stable t ht]

/-- Every data-collection class, mutable or immutable: header, values, time keys and the
    `validated_a_period` flag come back.  HourlyDiscontinuous: the DateTime arrays (a trailing 1 for
    leap years) are rebuilt into DateTimes; Daily / Monthly: integer keys are kept;
    MonthlyPerHour: the (month, hour, minute) tuples, which JSON delivers as lists, are turned back
    into tuples (the behaviour of fixes/C07_mph_from_dict.patch); HourlyContinuous: no time keys
    are written, the flag is always True, the value count must match the period. -/
theorem C07_Collection : ∀ c : Coll, c.wf → (Coll.rd c.kind c.imm).dec (jsonRT c.enc) = some c := by
  intro c hw
  rcases c with ⟨kind, hdr, vals, times, valid, imm⟩
  obtain ⟨hh, hv, ⟨vb, hvb⟩, hk⟩ := hw
  simp only at hh hv hvb hk
  subst hvb
  have lh := C07_Header hdr hh
  have lv := map_jsonRT_stable vals hv
  cases kind <;> cases times <;> simp only at hk
  · -- HourlyDiscontinuous
    rename_i l
    obtain ⟨hd, hlen, hne⟩ := hk
    have hl : decList dtOfArray (l.map (jsonRT ∘ dtArray)) = some l :=
      decList_map _ _ _ (fun a ha => dtOfArray_roundtrip a (hd a ha))
    have hne' : vals.length ≠ 0 := by
      intro e; exact hne (List.eq_nil_of_length_eq_zero e)
    cases imm <;>
      simp [Coll.enc, Times.enc, RecDec.dec_dict, Coll.rd, Coll.run, jsonRT_dict, kv, Coll.make, lh,
        lv, hl, CollKind.tag, PyVal.str?, PyVal.list?, hlen, hne, hne', (hlen ▸ hne' : l.length ≠ 0)]
  · -- HourlyContinuous
    obtain ⟨h0, h23, hlen, hvt⟩ := hk
    cases hvt
    cases imm <;>
      simp [Coll.enc, Times.enc, RecDec.dec_dict, Coll.rd, Coll.run, jsonRT_dict, kv, Coll.make, lh,
        lv, CollKind.tag, PyVal.str?, PyVal.list?, h0, h23, hlen]
  · -- Daily
    rename_i l
    obtain ⟨hd, hlen, hne⟩ := hk
    have ll := map_jsonRT_stable l hd
    have hne' : vals.length ≠ 0 := by
      intro e; exact hne (List.eq_nil_of_length_eq_zero e)
    cases imm <;>
      simp [Coll.enc, Times.enc, RecDec.dec_dict, Coll.rd, Coll.run, jsonRT_dict, kv, Coll.make, lh,
        lv, ll, CollKind.tag, PyVal.str?, PyVal.list?, hlen, hne, hne', (hlen ▸ hne' : l.length ≠ 0)]
  · -- Monthly
    rename_i l
    obtain ⟨hd, hlen, hne⟩ := hk
    have ll := map_jsonRT_stable l hd
    have hne' : vals.length ≠ 0 := by
      intro e; exact hne (List.eq_nil_of_length_eq_zero e)
    cases imm <;>
      simp [Coll.enc, Times.enc, RecDec.dec_dict, Coll.rd, Coll.run, jsonRT_dict, kv, Coll.make, lh,
        lv, ll, CollKind.tag, PyVal.str?, PyVal.list?, hlen, hne, hne', (hlen ▸ hne' : l.length ≠ 0)]
  · -- MonthlyPerHour (repaired reader)
    rename_i l
    obtain ⟨hd, hlen, hne⟩ := hk
    have hl : decList toTuple (l.map jsonRT) = some l :=
      decList_map _ _ _ (fun a ha => toTuple_jsonRT a (hd a ha))
    have hne' : vals.length ≠ 0 := by
      intro e; exact hne (List.eq_nil_of_length_eq_zero e)
    cases imm <;>
      simp [Coll.enc, Times.enc, RecDec.dec_dict, Coll.rd, Coll.run, jsonRT_dict, kv, Coll.make, lh,
        lv, hl, CollKind.tag, PyVal.str?, PyVal.list?, hlen, hne, hne', (hlen ▸ hne' : l.length ≠ 0)]

/-- Why the MonthlyPerHour reader has to rebuild tuples: JSON turns the (month, hour, minute)
    key into a list, and a reader that keeps what it is given (the pinned `BaseCollection.from_dict`)
    returns a key that is not the one written. -/
theorem C07_mph_keys_need_tuples_counterexample :
    jsonRT (.tuple [.int 2, .int 0, .int 0]) = .list [.int 2, .int 0, .int 0] ∧
    (PyVal.list [.int 2, .int 0, .int 0]) ≠ (PyVal.tuple [.int 2, .int 0, .int 0]) := by
  refine ⟨by simp, fun h => by cases h⟩

/-- Non-vacuity: a MonthlyPerHour collection with tuple keys, a float and an int value and
    string metadata is well formed (so `C07_Collection` and `C07_Header` say something). -/
example : Coll.wf ⟨.mph, ⟨.std "Temperature" none, "C", ⟨1, 1, 0, 12, 31, 23, 1, false⟩,
    [(.str "city", .str "Boston")]⟩, [.flt 5, .int 2],
    .raw [.tuple [.int 2, .int 0, .int 0], .tuple [.int 3, .int 23, .int 30]], .bool false, true⟩ := by
  refine ⟨⟨⟨by decide +kernel, by decide, by decide +kernel⟩, by decide, rfl, ?_⟩, ?_, ⟨false, rfl⟩, ?_⟩
  · simp [jsonRT_dict]
  · simp
  · simp

end Codec
