/-
  Python semantics used by the models (DESIGN.md section 4).  No Mathlib.

  Every helper here mirrors one CPython behaviour that ladybug relies on:
    * `//` and `%`           -> `Py.floordiv`, `Py.mod`       (floor semantics, sign of divisor)
    * `int(x)` on a real     -> `Py.truncRat`                  (toward zero)
    * `round(x)`             -> `Py.round`                     (half to even)
    * `round(x, n)`          -> `Py.roundN`
    * `l[i]` with negative i -> `Py.getIdx?`
    * `l[a:b]`               -> `Py.slice`
  They are differential-tested against CPython by the C08 check (op `py_*`).
-/

deriving instance DecidableEq for Except

namespace Py

/-- Python `a // b` on integers (floor division). `b = 0` is an error in Python; callers guard. -/
def floordiv (a b : Int) : Int := Int.fdiv a b

/-- Python `a % b` on integers (result has the sign of `b`). -/
def mod (a b : Int) : Int := Int.fmod a b

/-- Python `int(x)` for a real number: truncation toward zero. -/
def truncRat (x : Rat) : Int := if 0 ≤ x then x.floor else x.ceil

/-- Python 3 `round(x)`: nearest integer, ties to the even one. -/
def round (x : Rat) : Int :=
  let f := x.floor
  let r := x - (f : Rat)
  if r < (1 : Rat) / 2 then f
  else if (1 : Rat) / 2 < r then f + 1
  else if f % 2 = 0 then f else f + 1

/-- `10 ^ n` as a rational. -/
def pow10 (n : Nat) : Rat := ((10 ^ n : Nat) : Rat)

/-- Python 3 `round(x, n)` on an exact real (ties to even at the `n`-th decimal). -/
def roundN (x : Rat) (n : Nat) : Rat := (round (x * pow10 n) : Rat) / pow10 n

/-- `l[i]` with Python index semantics (negative counts from the end); `none` = IndexError. -/
def getIdx? {α : Type} (l : List α) (i : Int) : Option α :=
  if 0 ≤ i then l[i.toNat]?
  else if (-i).toNat ≤ l.length then l[l.length - (-i).toNat]? else none

/-- Clamp a Python slice bound to `[0, n]`. -/
def clampIdx (n : Nat) (i : Int) : Nat :=
  if 0 ≤ i then min i.toNat n
  else if (-i).toNat ≤ n then n - (-i).toNat else 0

/-- `l[a:b]` (step 1) with Python clamping. -/
def slice {α : Type} (l : List α) (a b : Int) : List α :=
  let s := clampIdx l.length a
  let e := clampIdx l.length b
  (l.drop s).take (e - s)

/-- Exact value of an IEEE-754 binary64 given by its bit pattern; `none` for inf/nan. -/
def ratOfFloatBits (b : UInt64) : Option Rat :=
  let n : Nat := b.toNat
  let neg : Bool := n / 2 ^ 63 == 1
  let e : Nat := (n / 2 ^ 52) % 2 ^ 11
  let m : Nat := n % 2 ^ 52
  let mag : Option Rat :=
    if e = 2047 then none
    else if e = 0 then some ((m : Rat) / ((2 ^ 1074 : Nat) : Rat))
    else if 1075 ≤ e then some (((m + 2 ^ 52) * 2 ^ (e - 1075) : Nat) : Rat)
    else some (((m + 2 ^ 52 : Nat) : Rat) / ((2 ^ (1075 - e) : Nat) : Rat))
  mag.map fun q => if neg then -q else q

/-- Zero-padded decimal of width 2 (the `%02d` / `%H` / `%M` / `%d` of `strftime`). -/
def pad2 (n : Nat) : String := if n < 10 then "0" ++ toString n else toString n

#guard round (5 / 2) = 2
#guard round (7 / 2) = 4
#guard round (-5 / 2) = -2
#guard round (13 / 5) = 3
#guard truncRat (-7 / 2) = -3
#guard floordiv (-7) 2 = -4
#guard mod (-7) 3 = 2
#guard getIdx? [1, 2, 3] (-1) = some 3
#guard getIdx? [1, 2, 3] (-4) = none
#guard slice [1, 2, 3, 4] 1 (-1) = [2, 3]
#guard ratOfFloatBits 0x3FE0000000000000 = some (1/2)
#guard ratOfFloatBits 0xC008000000000000 = some (-3)
#guard ratOfFloatBits 0x3FB999999999999A = some (3602879701896397 / 36028797018963968)

end Py
