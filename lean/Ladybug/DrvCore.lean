/-
  Line protocol shared by all model drivers (DESIGN.md 2.2).
  One request per input line (space separated tokens), one response line per request.
  A driver is `Drv.run handle` where `handle : List String → String` is total:
  unknown or malformed requests answer `bad-op` (never a default value).
-/
import Ladybug.Py

namespace Drv

def tokens (line : String) : List String :=
  (line.splitOn " ").filter (· ≠ "") |>.map fun s =>
    (s.replace "\n" "").replace "\r" ""

partial def loop (h : IO.FS.Stream) (out : IO.FS.Stream) (handle : List String → String) : IO Unit := do
  let line ← h.getLine
  if line.isEmpty then return ()
  let toks := (tokens line).filter (· ≠ "")
  if toks.isEmpty then
    out.putStrLn ""
  else
    out.putStrLn (handle toks)
  loop h out handle

def run (handle : List String → String) : IO Unit := do
  let i ← IO.getStdin
  let o ← IO.getStdout
  loop i o handle
  o.flush

/-- Parse all tokens as integers; `none` if one is malformed. -/
def ints (l : List String) : Option (List Int) := l.mapM String.toInt?

def nats (l : List String) : Option (List Nat) := l.mapM String.toNat?

def bool? (s : String) : Option Bool :=
  if s = "1" then some true else if s = "0" then some false else none

def showBool (b : Bool) : String := if b then "1" else "0"

def joinSp (l : List String) : String := " ".intercalate l

def showInts (l : List Int) : String := joinSp (l.map toString)
def showNats (l : List Nat) : String := joinSp (l.map toString)

/-- A rational `p/q` token (also plain integers). -/
def rat? (s : String) : Option Rat :=
  match s.splitOn "/" with
  | [p] => (fun (n : Int) => (n : Rat)) <$> p.toInt?
  | [p, q] => do
      let n ← p.toInt?
      let d ← q.toNat?
      if d = 0 then none else some (mkRat n d)
  | _ => none

def showRat (r : Rat) : String :=
  if r.den = 1 then toString r.num else toString r.num ++ "/" ++ toString r.den

/-- 16-hex-digit IEEE bit pattern of a float (or decimal UInt64); used for float arguments. -/
def hexDigit? (c : Char) : Option Nat :=
  if '0' ≤ c ∧ c ≤ '9' then some (c.toNat - '0'.toNat)
  else if 'a' ≤ c ∧ c ≤ 'f' then some (c.toNat - 'a'.toNat + 10)
  else if 'A' ≤ c ∧ c ≤ 'F' then some (c.toNat - 'A'.toNat + 10)
  else none

def hex? (s : String) : Option Nat :=
  s.toList.foldlM (fun acc c => (fun d => acc * 16 + d) <$> hexDigit? c) 0

def floatBits? (s : String) : Option Float :=
  (fun n => Float.ofBits (UInt64.ofNat n)) <$> hex? s

def hexOfNat (n : Nat) (width : Nat) : String :=
  let rec go (fuel : Nat) (n : Nat) (acc : List Char) : List Char :=
    match fuel with
    | 0 => acc
    | fuel + 1 =>
      let d := n % 16
      let c := if d < 10 then Char.ofNat ('0'.toNat + d) else Char.ofNat ('a'.toNat + d - 10)
      go fuel (n / 16) (c :: acc)
  String.ofList (go width n [])

def showFloatBits (f : Float) : String := hexOfNat f.toBits.toNat 16

end Drv
