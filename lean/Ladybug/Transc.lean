/-
  Generic numeric interface for the transcendental-formula models (DESIGN.md section 4, regime iii).

  A numeric model is written ONCE, polymorphically, under

    variable {α : Type} [Add α] [Sub α] [Mul α] [Div α] [Neg α] [OfScientific α]
      [LT α] [LE α] [DecidableLT α] [DecidableLE α] [Transc α]

  with every constant a scientific literal (`2.0`, `273.15`, `5.6745359E+03`), so that only
  `OfScientific α` is needed.  `instance : Transc Float` (below, Mathlib-free) is what the model
  drivers execute; `Ladybug/RealInst.lean` gives the noncomputable `Transc ℝ` the theorems are about.
  The classes are deliberately *unbundled*: a bundled class extending `Add`, `Mul`, … creates a
  second path to `+`, `<` on ℝ that Mathlib lemmas do not unify with.

  Python ↔ field: `math.sin/cos/tan/asin/acos/atan/atan2/exp/log/log10/sqrt/floor` are the fields of
  the same name; `math.pow(x, y)` and float `x ** y` are `pow` (CPython calls libm `pow` for both);
  `math.pi` is `pi`; `math.e ** x` is `pow 2.718281828459045 x`; `math.radians(x)` is
  `x * (pi / 180.0)` and `math.degrees(x)` is `x * (180.0 / pi)` (CPython's definitions).
-/

class Transc (α : Type) where
  sin : α → α
  cos : α → α
  tan : α → α
  asin : α → α
  acos : α → α
  atan : α → α
  /-- `atan2 y x` (argument order of C / Python). -/
  atan2 : α → α → α
  exp : α → α
  /-- natural logarithm -/
  log : α → α
  /-- `pow x y` = x to the power y (libm `pow`; `Real.rpow` over ℝ). -/
  pow : α → α → α
  sqrt : α → α
  /-- round toward −∞, result in the same type -/
  floor : α → α
  /-- base-10 logarithm (`math.log10`) -/
  log10 : α → α
  /-- the constant π (`math.pi`) -/
  pi : α

instance : Transc Float where
  sin := Float.sin
  cos := Float.cos
  tan := Float.tan
  asin := Float.asin
  acos := Float.acos
  atan := Float.atan
  atan2 := Float.atan2
  exp := Float.exp
  log := Float.log
  pow := Float.pow
  sqrt := Float.sqrt
  floor := Float.floor
  log10 := Float.log10
  pi := 3.141592653589793

namespace Transc

/-- `math.fabs` for the generic interface (sign of zero is not observable through `<`/`≤`). -/
@[inline] def fabs {α : Type} [Neg α] [OfScientific α] [LT α] [DecidableLT α] (x : α) : α :=
  if x < 0.0 then -x else x

end Transc
