/-
  C07 — round-trip laws of the design-day codecs (Model/Serial/DesignDay.lean).  No Mathlib.
-/
import Ladybug.Model.Serial.DesignDay
import Ladybug.Proofs.C07Loc

namespace Codec
open Cal

theorem reqNum_enc (n : Num) : reqNum (some (jsonRT n.enc)) = some n := by
  cases n <;> simp [reqNum, Num.enc, PyVal.num?]

@[simp] theorem reqNum_enc' (n : Num) : reqNum (some n.enc) = some n := by
  cases n <;> simp [reqNum, Num.enc, PyVal.num?]

theorem orVal_some (v d : PyVal) : orVal (some v) d = v := rfl

theorem DryBulb.law : Law DryBulb.enc DryBulb.rd.dec DryBulb.wf := by
  intro c h
  rcases c with ⟨mx, rng, mt, ms⟩
  simp only [DryBulb.wf] at h
  simp [DryBulb.enc, RecDec.dec_dict, DryBulb.rd, DryBulb.run, jsonRT_dict, kv, DryBulb.make,
    orVal, pyStr, h]

theorem Humidity.law : Law Humidity.enc Humidity.rd.dec Humidity.wf := by
  intro c h
  rcases c with ⟨ht, hv, bp, rain, snow, sch, wbr⟩
  obtain ⟨h1, h2, h3⟩ := h
  simp only at h1 h2 h3
  have e1 : reqNum (some (jsonRT hv.enc)) = some hv := reqNum_enc hv
  have e2 : (jsonRT bp.enc).num? = some bp := by cases bp <;> simp [Num.enc, PyVal.num?]
  have h1' : ht ∈ humidityTypes := by simpa using h1
  simp only [Humidity.enc, jsonRT_dict, kv, List.map_cons, List.map_nil, keyStr_str, jsonRT_str,
    jsonRT_bool, h2, h3]
  rw [RecDec.dec_dict]
  simp only [Humidity.rd, Humidity.run]
  simp [Humidity.make, PyVal.str?, h1', orVal, PyVal.truthy]

theorem Wind.law : Law Wind.enc Wind.rd.dec Wind.wf := by
  intro c h
  rcases c with ⟨sp, dir⟩
  simp only [Wind.wf] at h
  have e1 : reqNum (some (jsonRT sp.enc)) = some sp := reqNum_enc sp
  have e2 : (jsonRT dir.enc).num? = some dir := by cases dir <;> simp [Num.enc, PyVal.num?]
  simp only [Wind.enc, jsonRT_dict, kv, List.map_cons, List.map_nil, keyStr_str, jsonRT_str]
  rw [RecDec.dec_dict]
  simp only [Wind.rd, Wind.run]
  have h' : dir.geRat 0 = true ∧ dir.leRat 360 = true := by simpa using h
  simp [Wind.make, orVal, h']

theorem dateOfArray_roundtrip (d : D) (hv : d.valid) :
    dateOfArray (some (jsonRT (dateArray d))) = some d := by
  have hl : decList PyVal.nat? (d.toArray.map natV) = some d.toArray :=
    decList_map _ _ _ (fun a _ => nat?_natV a)
  have hm : D.fromArray d.toArray = .ok d := by
    have := D.make_of_valid' d hv
    cases hl' : d.leap <;> simp [D.toArray, D.fromArray, hl'] <;> rw [← hl'] <;> simpa using this
  simp [dateOfArray, dateArray, PyVal.list?, List.map_map, Function.comp_def, hl, hm, okOpt]

theorem Sky.law : Law Sky.enc Sky.rd.dec Sky.wf := by
  intro c h
  cases c with
  | plain d dst b f =>
    obtain ⟨hv, hb, hf⟩ := h
    have ed := dateOfArray_roundtrip d hv
    simp only [Sky.enc, jsonRT_dict, kv, List.map_cons, List.map_nil, keyStr_str, jsonRT_str,
      jsonRT_bool, hb, hf]
    rw [RecDec.dec_dict]
    simp only [Sky.rd, Sky.run]
    simp [Sky.make, ed, orVal, PyVal.truthy]
  | clear d c dst =>
    obtain ⟨hv, hc⟩ := h
    have ed := dateOfArray_roundtrip d hv
    have hc' : c.geRat 0 = true ∧ c.leRat (6 / 5) = true := by simpa using hc
    simp only [Sky.enc, jsonRT_dict, kv, List.map_cons, List.map_nil, keyStr_str, jsonRT_str,
      jsonRT_bool]
    rw [RecDec.dec_dict]
    simp only [Sky.rd, Sky.run]
    simp [Sky.make, ed, orVal, PyVal.truthy, hc']
  | tau d tb td u dst =>
    have hv : d.valid := h
    have ed := dateOfArray_roundtrip d hv
    simp only [Sky.enc, jsonRT_dict, kv, List.map_cons, List.map_nil, keyStr_str, jsonRT_str,
      jsonRT_bool]
    rw [RecDec.dec_dict]
    simp only [Sky.rd, Sky.run]
    simp [Sky.make, ed, orVal, PyVal.truthy]

theorem enc_ne_none_Loc (l : Loc) : ∃ kvs, jsonRT l.enc = .dict kvs := ⟨_, jsonRT_dict _⟩

theorem DDay.law : Law DDay.enc DDay.rd.dec DDay.wf := by
  intro d h
  rcases d with ⟨name, dt, loc, db, hum, wind, sky⟩
  obtain ⟨hdt, hl, hdb, hh, hw, hs⟩ := h
  simp only at hdt hl hdb hh hw hs
  have l1 := Loc.law loc hl
  have l2 := DryBulb.law db hdb
  have l3 := Humidity.law hum hh
  have l4 := Wind.law wind hw
  have l5 := Sky.law sky hs
  obtain ⟨kvs, hk⟩ := enc_ne_none_Loc loc
  rw [hk] at l1
  have hdt' : dt ∈ dayTypes := by simpa using hdt
  simp only [DDay.enc, jsonRT_dict, kv, List.map_cons, List.map_nil, keyStr_str, jsonRT_str, hk]
  rw [RecDec.dec_dict]
  simp only [DDay.rd, DDay.run]
  simp [DDay.make, pyStr, PyVal.str?, hdt', l1, l2, l3, l4, l5]

theorem decDays_roundtrip (l : List DDay) (h : ∀ x ∈ l, x.wf) :
    decList DDay.rd.dec (l.map (jsonRT ∘ DDay.enc)) = some l :=
  decList_map _ _ _ (fun a ha => DDay.law a (h a ha))

theorem map_setLoc (l : List DDay) (loc : Loc) (h : ∀ x ∈ l, x.location = loc) :
    l.map (fun d => { d with location := loc }) = l := by
  induction l with
  | nil => rfl
  | cons x xs ih =>
    have hx := h x (by simp)
    rcases x with ⟨n, t, lo, a, b, c, s⟩
    simp only at hx
    subst hx
    simp [ih (fun y hy => h y (by simp [hy]))]

theorem DDYc.law : Law DDYc.enc DDYc.rd.dec DDYc.wf := by
  intro d h
  rcases d with ⟨loc, days⟩
  obtain ⟨hl, hd⟩ := h
  simp only at hl hd
  have l1 := Loc.law loc hl
  have l2 := decDays_roundtrip days (fun x hx => (hd x hx).1)
  have l3 := map_setLoc days loc (fun x hx => (hd x hx).2)
  simp only [DDYc.enc, jsonRT_dict, kv, List.map_cons, List.map_nil, keyStr_str, jsonRT_str,
    jsonRT_list, List.map_map]
  rw [RecDec.dec_dict]
  simp only [DDYc.rd, DDYc.run]
  simp [DDYc.make, l1, PyVal.list?, l2, l3]

end Codec
