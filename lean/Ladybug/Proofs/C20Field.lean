/-
  Helper lemmas for C20 over a field of characteristic zero: the patch areas telescope.
  (Single Mathlib tactic modules only.)
-/
import Mathlib.Tactic.Ring
import Mathlib.Tactic.FieldSimp
import Mathlib.Tactic.Linarith
import Mathlib.Algebra.CharZero.Defs
import Mathlib.Tactic.NormNum
import Ladybug.Model.Dome

namespace Dome

variable {α : Type} [Field α]

theorem sum_replicate_field (k : Nat) (x : α) : (List.replicate k x).sum = (k : α) * x := by
  induction k with
  | zero => simp
  | succ k ih => simp [List.replicate_succ, ih]; ring

theorem sum_map_div (l : List α) (d : α) : (l.map (· / d)).sum = l.sum / d := by
  induction l with
  | nil => simp
  | cons x rest ih => simp [ih, add_div]

theorem foldl_add_eq (l : List α) (a : α) : l.foldl (· + ·) a = a + l.sum := by
  induction l generalizing a with
  | nil => simp
  | cons x rest ih => simp [List.foldl_cons, ih, add_assoc]

/-- Python's left-to-right `sum` is the list sum. -/
theorem sumL_eq_sum (l : List α) : sumL l = l.sum := by
  simp [sumL, foldl_add_eq]

variable [CharZero α]

/-- Telescoping: the quad rows from row `i` on add up to `cap i − cap (i + number of rows)`,
for any sequence `s` and any positive row counts. -/
theorem sum_rowsAreas (twoPi : α) (s : Nat → α) (rows : List Nat) (i : Nat) (h : ∀ c ∈ rows, 0 < c) :
    (rowsAreas twoPi s rows i).sum = capAt twoPi s i - capAt twoPi s (i + rows.length) := by
  induction rows generalizing i with
  | nil => simp [rowsAreas]
  | cons c rest ih =>
    have hc : (c : α) ≠ 0 := by
      have := h c (by simp)
      exact_mod_cast (Nat.pos_iff_ne_zero.mp this)
    have hrest : ∀ c ∈ rest, 0 < c := fun d hd => h d (by simp [hd])
    simp only [rowsAreas, List.sum_append, sum_replicate_field, ih (i + 1) hrest, List.length_cons]
    rw [mul_div_cancel₀ _ hc]
    have : i + 1 + rest.length = i + (rest.length + 1) := by omega
    rw [this]
    ring

omit [CharZero α] in
theorem length_rowsAreas (twoPi : α) (s : Nat → α) (rows : List Nat) (i : Nat) :
    (rowsAreas twoPi s rows i).length = rows.sum := by
  induction rows generalizing i with
  | nil => simp [rowsAreas]
  | cons c rest ih => simp [rowsAreas, ih]

/-- The sum of a run-length table: Σ count · coefficient. -/
theorem sum_zip_replicate (coeffs : List Rat) (l : List Nat) :
    (List.zipWith (fun (a : Rat) (c : Nat) => List.replicate c a) coeffs l).flatten.sum =
      (List.zipWith (fun (a : Rat) (c : Nat) => (c : Rat) * a) coeffs l).sum := by
  induction coeffs generalizing l with
  | nil => simp
  | cons a rest ih =>
    cases l with
    | nil => simp
    | cons c l' => simp [List.zipWith_cons_cons, List.sum_append, sum_replicate_field, ih l']

theorem sum_solidAngles (coeffs : List Rat) (rows : List Nat) :
    (solidAngles coeffs rows).sum =
      (List.zipWith (fun (a : Rat) (c : Nat) => (c : Rat) * a) coeffs (rows ++ [1])).sum :=
  sum_zip_replicate coeffs (rows ++ [1])

end Dome
