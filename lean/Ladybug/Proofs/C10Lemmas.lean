/-
  Helper lemmas for Props/C10: the real-number reading of the generic helpers of Model/Sky.lean
  (radians, Python max/min/abs, literals) and facts about the regenerated monthly tables.
-/
import Ladybug.RealInst
import Ladybug.Model.Sky
import Mathlib.Tactic.Linarith
import Mathlib.Tactic.IntervalCases
import Mathlib.Tactic.FieldSimp
import Mathlib.Analysis.SpecialFunctions.Pow.Real

namespace Sky
open Real

theorem radians_real (x : ℝ) : radians x = x * (π / 180) := by
  unfold radians; simp; norm_num

theorem zero_lit : (0.0 : ℝ) = 0 := by norm_num

theorem pmax_real (a b : ℝ) : pmax a b = max a b := by
  unfold pmax
  split_ifs with h
  · exact (max_eq_right (le_of_lt h)).symm
  · exact (max_eq_left (not_lt.mp h)).symm

theorem pmin_real (a b : ℝ) : pmin a b = min a b := by
  unfold pmin
  split_ifs with h
  · exact (min_eq_right (le_of_lt h)).symm
  · exact (min_eq_left (not_lt.mp h)).symm

theorem night_clear_sky (alt cl : ℝ) (month : Int) (h : alt ≤ 0) :
    clearSky1 alt month cl = .ok (0, 0) := by
  unfold clearSky1
  rw [if_neg (by norm_num; exact h)]
  norm_num

theorem clearSky1_day (alt cl : ℝ) (month : Int) (a b : ℝ) (h0 : 0 < alt)
    (ha : Py.getIdx? (Gen.Sky.monthlyA (α := ℝ)) (month - 1) = some a)
    (hb : Py.getIdx? (Gen.Sky.monthlyB (α := ℝ)) (month - 1) = some b) :
    clearSky1 alt month cl = .ok (clearSkyAt a b alt cl) := by
  unfold clearSky1
  rw [if_pos (by norm_num; exact h0), ha, hb]

theorem sin_radians_pos (alt : ℝ) (h0 : 0 < alt) (h90 : alt ≤ 90) : 0 < Real.sin (alt * (π / 180)) := by
  apply Real.sin_pos_of_pos_of_lt_pi
  · positivity
  · have := Real.pi_pos
    nlinarith

theorem clearSkyAt_day (a b alt cl : ℝ) (h : 0 < alt) :
    clearSkyAt a b alt cl =
      (a / Real.exp (b / Real.sin (alt * (π / 180))) * cl,
       0.17 * (a / Real.exp (b / Real.sin (alt * (π / 180)))) * Real.sin (alt * (π / 180)) * cl) := by
  unfold clearSkyAt
  rw [if_pos (by norm_num; exact h)]
  simp [radians_real]

theorem monthly_some (month : Int) (h1 : 1 ≤ month) (h12 : month ≤ 12) :
    ∃ a b : ℝ, Py.getIdx? (Gen.Sky.monthlyA (α := ℝ)) (month - 1) = some a ∧
      Py.getIdx? (Gen.Sky.monthlyB (α := ℝ)) (month - 1) = some b := by
  interval_cases month <;> simp [Py.getIdx?, Gen.Sky.monthlyA, Gen.Sky.monthlyB]

theorem monthly_facts (month : Int) (h1 : 1 ≤ month) (h12 : month ≤ 12) (a b : ℝ)
    (ha : Py.getIdx? (Gen.Sky.monthlyA (α := ℝ)) (month - 1) = some a)
    (hb : Py.getIdx? (Gen.Sky.monthlyB (α := ℝ)) (month - 1) = some b) :
    0 < a ∧ a ≤ 1204 ∧ 0.141 ≤ b := by
  interval_cases month <;>
    (simp [Py.getIdx?, Gen.Sky.monthlyA, Gen.Sky.monthlyB] at ha hb; subst ha hb; norm_num)


/-! ### clear sky: monotone, bounds; extraterrestrial -/


/-- sin of an altitude in (0, 90] degrees is monotone -/
theorem sin_radians_mono (a1 a2 : ℝ) (h0 : 0 < a1) (h : a1 ≤ a2) (h90 : a2 ≤ 90) :
    Real.sin (a1 * (π / 180)) ≤ Real.sin (a2 * (π / 180)) := by
  have hp := Real.pi_pos
  apply Real.sin_le_sin_of_le_of_le_pi_div_two
  · nlinarith
  · nlinarith
  · nlinarith

theorem dni_mono (a b cl a1 a2 : ℝ) (ha : 0 ≤ a) (hb : 0 ≤ b) (hcl : 0 ≤ cl)
    (h0 : 0 < a1) (h : a1 ≤ a2) (h90 : a2 ≤ 90) :
    (clearSkyAt a b a1 cl).1 ≤ (clearSkyAt a b a2 cl).1 := by
  rw [clearSkyAt_day _ _ _ _ h0, clearSkyAt_day _ _ _ _ (lt_of_lt_of_le h0 h)]
  simp only
  have s1 := sin_radians_pos a1 h0 (le_trans h h90)
  have s2 := sin_radians_pos a2 (lt_of_lt_of_le h0 h) h90
  have hs := sin_radians_mono a1 a2 h0 h h90
  have hdiv : b / Real.sin (a2 * (π / 180)) ≤ b / Real.sin (a1 * (π / 180)) :=
    div_le_div_of_nonneg_left hb s1 hs
  have hexp := Real.exp_le_exp.mpr hdiv
  have : a / Real.exp (b / Real.sin (a1 * (π / 180))) ≤ a / Real.exp (b / Real.sin (a2 * (π / 180))) :=
    div_le_div_of_nonneg_left ha (Real.exp_pos _) hexp
  exact mul_le_mul_of_nonneg_right this hcl

theorem dni_le (a b cl alt : ℝ) (ha : 0 ≤ a) (hb : 0 ≤ b) (hcl : 0 ≤ cl)
    (h0 : 0 < alt) (h90 : alt ≤ 90) :
    (clearSkyAt a b alt cl).1 ≤ a / (1 + b) * cl := by
  rw [clearSkyAt_day _ _ _ _ h0]
  simp only
  have s1 := sin_radians_pos alt h0 h90
  have hs1 : Real.sin (alt * (π / 180)) ≤ 1 := Real.sin_le_one _
  have hdiv : b ≤ b / Real.sin (alt * (π / 180)) := by
    rw [le_div_iff₀ s1]; nlinarith
  have h1 : 1 + b ≤ Real.exp (b / Real.sin (alt * (π / 180))) := by
    have := Real.add_one_le_exp (b / Real.sin (alt * (π / 180)))
    linarith
  have : a / Real.exp (b / Real.sin (alt * (π / 180))) ≤ a / (1 + b) :=
    div_le_div_of_nonneg_left ha (by linarith) h1
  exact mul_le_mul_of_nonneg_right this hcl

theorem extra_lower (doy sc : ℝ) (hsc : 0 ≤ sc) : sc * 0.963813 ≤ extraRadiation doy sc := by
  unfold extraRadiation
  simp only [Transc.real_cos, Transc.real_sin, Transc.real_pi]
  apply mul_le_mul_of_nonneg_left _ hsc
  set B : ℝ := (2.0 * π / 365.0) * (doy - 1.0)
  have c1 := Real.neg_one_le_cos B
  have s1 := Real.neg_one_le_sin B
  have c2 := Real.neg_one_le_cos (2.0 * B)
  have s2 := Real.neg_one_le_sin (2.0 * B)
  norm_num at *
  nlinarith


/-! ### branch logic, clamps, linearity, closure -/


theorem extra_within (doy sc : ℝ) (hsc : 0 ≤ sc) :
    |extraRadiation doy sc - sc| ≤ 0.04 * sc := by
  unfold extraRadiation
  simp only [Transc.real_cos, Transc.real_sin, Transc.real_pi]
  set B : ℝ := (2.0 * π / 365.0) * (doy - 1.0)
  have c1 := Real.neg_one_le_cos B
  have s1 := Real.neg_one_le_sin B
  have c2 := Real.neg_one_le_cos (2.0 * B)
  have s2 := Real.neg_one_le_sin (2.0 * B)
  have c1' := Real.cos_le_one B
  have s1' := Real.sin_le_one B
  have c2' := Real.cos_le_one (2.0 * B)
  have s2' := Real.sin_le_one (2.0 * B)
  rw [abs_le]
  norm_num at *
  constructor <;> nlinarith

theorem night_revised (alt tb td : ℝ) (u : Bool) (h : alt ≤ 0) :
    revisedClearSky1 alt tb td u = .ok (0, 0) := by
  unfold revisedClearSky1
  rw [if_neg (by norm_num; exact h)]
  norm_num

theorem night_zh (alt cc rh t t3 ws irr0 : ℝ) (h : alt ≤ 0) :
    zhangHuangSolar alt cc rh t t3 ws irr0 = 0 := by
  unfold zhangHuangSolar
  rw [if_neg (by norm_num; exact h)]
  norm_num

theorem zh_nonneg (alt cc rh t t3 ws irr0 : ℝ) :
    0 ≤ zhangHuangSolar alt cc rh t t3 ws irr0 := by
  unfold zhangHuangSolar
  by_cases h : alt > (0.0 : ℝ)
  · rw [if_pos h]
    simp only
    split_ifs with h2
    · norm_num
    · rw [zero_lit] at h2; exact not_lt.mp h2
  · rw [if_neg h]; norm_num

theorem night_disc (ghi alt doy : ℝ) (p : Option ℝ) (minSin minAlt maxAm : ℝ)
    (h : alt ≤ minAlt ∨ ghi ≤ 0) :
    disc ghi alt doy p minSin minAlt maxAm = .ok (0, 0, none) := by
  unfold disc
  rw [if_neg]
  · norm_num
  · rintro ⟨h1, h2⟩
    norm_num at h2
    rcases h with h | h <;> linarith

theorem disc_nonneg (ghi alt doy : ℝ) (p : Option ℝ) (minSin minAlt maxAm : ℝ) (r : ℝ × ℝ × Option ℝ)
    (h : disc ghi alt doy p minSin minAlt maxAm = .ok r) : 0 ≤ r.1 := by
  unfold disc at h
  split_ifs at h with hc
  · revert h
    cases relativeAirmass alt .kasten1966 with
    | error e => simp
    | ok am0 =>
      simp only
      split
      · simp
      · intro h
        injection h with h
        rw [← h]
        simp only [pmax_real]
        norm_num
  · injection h with h
    rw [← h]; norm_num

theorem night_illum (alt ghi dni dhi dew : ℝ) (am : Option ℝ) (h : alt ≤ 0) :
    illuminance alt ghi dni dhi dew am = .ok (0, 0, 0, 0) := by
  unfold illuminance
  simp only [zero_lit]
  simp [h]
  rfl

theorem abs_linear (am p k : ℝ) :
    absoluteAirmass (some am) (k * p) = (absoluteAirmass (some am) p).map (k * ·) := by
  unfold absoluteAirmass
  simp only [Option.map]
  rw [show (101325.0 : ℝ) = 101325 by norm_num]
  congr 1
  ring

theorem abs_std (am : ℝ) : absoluteAirmass (some am) 101325 = some am := by
  unfold absoluteAirmass
  norm_num

theorem closure (alt dnr dhr : ℝ) :
    globalHorizontal alt dnr dhr = dhr + dnr * Real.sin (alt * (π / 180)) ∧
    globalHorizontal alt dnr dhr = dhr + directHorizontal alt dnr := by
  unfold globalHorizontal directHorizontal
  simp [radians_real]


/-! ### sky temperature, directional irradiance, air mass at the zenith -/


theorem skytemp_inverse (ε T : ℝ) (hε : 0 < ε) (hT : 0 ≤ T) :
    skyTemperature (ε * 5.6697e-8 * Transc.pow T 4.0) ε = .ok (T - 273.15) := by
  unfold skyTemperature
  have hs : (0 : ℝ) < ε * 5.6697e-8 := by positivity
  rw [if_neg]
  · congr 2
    rw [Transc.real_pow_four, mul_div_cancel_left₀ _ (ne_of_gt hs)]
    show (T ^ 4) ^ (0.25 : ℝ) = T
    rw [show (0.25 : ℝ) = ((4 : ℕ) : ℝ)⁻¹ by norm_num]
    exact Real.pow_rpow_inv_natCast hT (by norm_num)
  · unfold IsZero
    rw [zero_lit]
    intro h
    linarith [h.1]

theorem skytemp_hir (sc db dp h : ℝ) (hh : horizontalInfrared sc db dp = .ok h)
    (he : 0 < skyEmissivity sc dp) (hdb : -273.15 ≤ db) :
    skyTemperature h (skyEmissivity sc dp) = .ok db := by
  unfold horizontalInfrared at hh
  split_ifs at hh
  injection hh with hh
  rw [← hh, skytemp_inverse _ _ he (by linarith)]
  congr 1
  ring

theorem mag_pol2cart (phi theta : ℝ) : mag3 (pol2cart phi theta) = 1 := by
  unfold mag3 pol2cart
  simp only [Transc.real_pow_two, Transc.real_sqrt, Transc.real_sin, Transc.real_cos]
  have : (Real.sin phi * Real.cos theta) ^ 2 + (Real.cos phi * Real.cos theta) ^ 2 + Real.sin theta ^ 2 = 1 := by
    have h1 := Real.sin_sq_add_cos_sq phi
    have h2 := Real.sin_sq_add_cos_sq theta
    nlinarith
  rw [this, Real.sqrt_one]

theorem vecAngle_pol (p1 t1 p2 t2 : ℝ) :
    vecAngle (pol2cart p1 t1) (pol2cart p2 t2) =
      .ok (Real.arccos (dot3 (pol2cart p1 t1) (pol2cart p2 t2))) := by
  unfold vecAngle
  simp only [mag_pol2cart, mul_one, div_one]
  rw [if_neg]
  · split_ifs with hq hd
    · simp only [Transc.real_acos]
      congr 1
      rcases hq with hq | hq
      · rw [zero_lit] at hd
        norm_num at hq; linarith
      · norm_num at hq
        rw [show (-1.0 : ℝ) = -1 by norm_num]
        rw [Real.arccos_neg_one, Real.arccos_eq_pi.mpr (le_of_lt hq)]
    · simp only [Transc.real_acos]
      congr 1
      rcases hq with hq | hq
      · norm_num at hq
        rw [show (1.0 : ℝ) = 1 by norm_num, Real.arccos_one, Real.arccos_eq_zero.mpr (le_of_lt hq)]
      · rw [zero_lit] at hd
        norm_num at hq; linarith
    · rfl
  · unfold IsZero
    rw [zero_lit]
    intro h
    linarith [h.1]

/-- `directional` after the (never failing) angle computation. -/
theorem directional_eq (sunAlt sunAz dnr dhr altitude azimuth refl : ℝ) (iso : Bool) :
    ∃ ang : ℝ, ang = Real.arccos (dot3 (pol2cart (radians sunAz) (radians sunAlt))
        (pol2cart (radians azimuth) (radians altitude))) ∧
      directional sunAlt sunAz dnr dhr altitude azimuth refl iso =
      .ok (let srfDir : ℝ := if sunAlt > 0.0 ∧ ang < π / 2.0 then dnr * Real.cos ang else 0.0
           let srfDif : ℝ := if iso then dhr * ((Real.sin (radians altitude) / 2.0) + 0.5)
             else dhr * (pmax 0.45 (0.55 + (0.437 * Real.cos ang) + 0.313 * Real.cos ang * 0.313 * Real.cos ang)
               * (Real.sin (radians (pabs (90.0 - altitude)))) + Real.cos (radians (pabs (90.0 - altitude))))
           let srfRef : ℝ := (dhr + dnr * Real.cos (radians (90.0 - sunAlt))) * refl *
             (0.5 - (Real.sin (radians altitude) / 2.0))
           (srfDir + srfDif + srfRef, srfDir, srfDif, srfRef)) := by
  refine ⟨_, rfl, ?_⟩
  unfold directional
  simp only [vecAngle_pol]
  rfl

theorem total_sum (sunAlt sunAz dnr dhr altitude azimuth refl : ℝ) (iso : Bool) (r : ℝ × ℝ × ℝ × ℝ)
    (h : directional sunAlt sunAz dnr dhr altitude azimuth refl iso = .ok r) :
    r.1 = r.2.1 + r.2.2.1 + r.2.2.2 := by
  obtain ⟨ang, _, he⟩ := directional_eq sunAlt sunAz dnr dhr altitude azimuth refl iso
  rw [he] at h
  injection h with h
  rw [← h]

theorem radians_90 : radians (90.0 : ℝ) = π / 2 := by
  rw [radians_real]; norm_num; ring

theorem dot_up (p t az : ℝ) : dot3 (pol2cart p t) (pol2cart az (π / 2)) = Real.sin t := by
  unfold dot3 pol2cart
  simp

theorem up_surface (sunAlt sunAz dnr dhr az refl : ℝ) (iso : Bool) (h0 : 0 < sunAlt) (h90 : sunAlt ≤ 90) :
    directional sunAlt sunAz dnr dhr 90.0 az refl iso =
      .ok (globalHorizontal sunAlt dnr dhr, directHorizontal sunAlt dnr, dhr, 0) := by
  obtain ⟨ang, hang, he⟩ := directional_eq sunAlt sunAz dnr dhr 90.0 az refl iso
  rw [he]
  rw [radians_90, dot_up] at hang
  have hs := sin_radians_pos sunAlt h0 h90
  rw [← radians_real] at hs
  have hlt : ang < π / 2 := by rw [hang]; exact Real.arccos_lt_pi_div_two.mpr hs
  have hcos : Real.cos ang = Real.sin (radians sunAlt) := by
    rw [hang]; exact Real.cos_arccos (Real.neg_one_le_sin _) (Real.sin_le_one _)
  have hp : pabs ((90.0 : ℝ) - 90.0) = 0 := by
    unfold pabs; norm_num
  simp only [radians_90, Real.sin_pi_div_two, hp, hcos]
  rw [if_pos ⟨by norm_num; exact h0, by norm_num; exact hlt⟩]
  unfold globalHorizontal directHorizontal
  simp only [Transc.real_sin]
  have hr0 : radians (0 : ℝ) = 0 := by rw [radians_real]; ring
  cases iso <;> simp [hr0] <;> norm_num <;> ring

theorem dot_self (p t : ℝ) : dot3 (pol2cart p t) (pol2cart p t) = 1 := by
  unfold dot3 pol2cart
  simp only [Transc.real_sin, Transc.real_cos]
  have h1 := Real.sin_sq_add_cos_sq p
  have h2 := Real.sin_sq_add_cos_sq t
  nlinarith

theorem facing_sun (sunAlt sunAz dnr dhr refl : ℝ) (iso : Bool) (h0 : 0 < sunAlt) :
    ∃ r, directional sunAlt sunAz dnr dhr sunAlt sunAz refl iso = .ok r ∧ r.2.1 = dnr := by
  obtain ⟨ang, hang, he⟩ := directional_eq sunAlt sunAz dnr dhr sunAlt sunAz refl iso
  rw [dot_self, Real.arccos_one] at hang
  refine ⟨_, he, ?_⟩
  subst hang
  simp only [Real.cos_zero, mul_one]
  rw [if_pos ⟨by norm_num; exact h0, by norm_num; exact Real.pi_pos⟩]

theorem designday_closure (alt cl : ℝ) (month : Int) (r : ℝ × ℝ × ℝ)
    (h : designDayClearSky1 alt month cl = .ok r) :
    r.2.2 = r.2.1 + r.1 * Real.sin (alt * (π / 180)) ∧ clearSky1 alt month cl = .ok (r.1, r.2.1) := by
  unfold designDayClearSky1 at h
  cases hc : clearSky1 alt month cl with
  | error e => rw [hc] at h; cases h
  | ok q =>
    rw [hc] at h
    injection h with h
    rw [← h]
    simp [radians_real]

theorem designday_tau_closure (alt tb td : ℝ) (u : Bool) (r : ℝ × ℝ × ℝ)
    (h : designDayTau1 alt tb td u = .ok r) :
    r.2.2 = r.2.1 + r.1 * Real.sin (alt * (π / 180)) ∧ revisedClearSky1 alt tb td u = .ok (r.1, r.2.1) := by
  unfold designDayTau1 at h
  cases hc : revisedClearSky1 alt tb td u with
  | error e => rw [hc] at h; cases h
  | ok q =>
    rw [hc] at h
    injection h with h
    rw [← h]
    simp [radians_real]

theorem simple_day (alt : ℝ) (h0 : 0 < alt) (h90 : alt ≤ 90) :
    relativeAirmass alt .simple = .ok (some (1 / Real.sin (alt * (π / 180)))) := by
  have hs := sin_radians_pos alt h0 h90
  unfold relativeAirmass
  rw [if_neg (by norm_num; linarith)]
  simp only [radians_real, Transc.real_sin]
  rw [if_neg]
  · norm_num
  · unfold IsZero; rw [zero_lit]; intro h; linarith [h.1]

theorem simple_zenith : relativeAirmass (90 : ℝ) .simple = .ok (some 1) := by
  rw [simple_day 90 (by norm_num) (by norm_num)]
  rw [show (90 : ℝ) * (π / 180) = π / 2 by ring, Real.sin_pi_div_two]
  norm_num

theorem gueymard_zenith : relativeAirmass (90 : ℝ) .gueymard1993 = .ok (some 1) := by
  unfold relativeAirmass
  rw [if_neg (by norm_num)]
  simp only [radians_real, Transc.real_sin]
  rw [show (90 : ℝ) * (π / 180) = π / 2 by ring, Real.sin_pi_div_two]
  have h0 : (90.0 : ℝ) - 90 = 0 := by norm_num
  rw [h0, mul_zero, zero_mul, add_zero]
  norm_num

theorem youngirvine_zenith : relativeAirmass (90 : ℝ) .youngirvine1967 = .ok (some 1) := by
  unfold relativeAirmass
  rw [if_neg (by norm_num)]
  simp only [radians_real, Transc.real_sin]
  rw [show (90 : ℝ) * (π / 180) = π / 2 by ring, Real.sin_pi_div_two]
  rw [if_neg]
  · norm_num
  · unfold IsZero; norm_num

theorem young1994_zenith : ∃ v : ℝ, relativeAirmass (90 : ℝ) .young1994 = .ok (some v) ∧ |v - 1| ≤ 1e-6 := by
  unfold relativeAirmass
  rw [if_neg (by norm_num)]
  simp only [radians_real, Transc.real_sin, Transc.real_pow_two, Transc.real_pow_three]
  rw [show (90 : ℝ) * (π / 180) = π / 2 by ring, Real.sin_pi_div_two]
  refine ⟨_, rfl, ?_⟩
  rw [abs_le]
  norm_num

theorem kt_bounds (ghi alt ex minSin maxKt : ℝ) (hm : 0 ≤ maxKt) :
    0 ≤ clearnessIndex ghi alt ex minSin maxKt ∧ clearnessIndex ghi alt ex minSin maxKt ≤ maxKt := by
  unfold clearnessIndex
  simp only [pmin_real, pmax_real, zero_lit]
  exact ⟨le_min (le_max_right _ _) hm, min_le_right _ _⟩


theorem illum_dn_nonneg (alt ghi dni dhi dew : ℝ) (am : Option ℝ) (r : ℝ × ℝ × ℝ × ℝ)
    (h : illuminance alt ghi dni dhi dew am = .ok r) : 0 ≤ r.2.1 := by
  unfold illuminance at h
  simp only [bind, Except.bind, pure, Except.pure] at h
  repeat' split at h
  all_goals (try cases h)
  all_goals (dsimp only; first | (rw [pmax_real, zero_lit]; exact le_max_left _ _) | norm_num)


theorem revised_nonneg (alt tb td : ℝ) (u : Bool) (r : ℝ × ℝ)
    (h : revisedClearSky1 alt tb td u = .ok r) : 0 ≤ r.1 ∧ 0 ≤ r.2 := by
  unfold revisedClearSky1 at h
  repeat' split at h
  all_goals (try cases h)
  all_goals (dsimp only [Transc.real_exp]; constructor <;> positivity)

end Sky
