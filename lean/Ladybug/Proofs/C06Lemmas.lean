/-
  C06 — lifting lemmas: from the kernel-checked certificate of a data type (`Cert.Valid`, produced
  per type by the generated modules `Gen/UnitsProofs*.lean`) to statements about the conversion
  functions for *every* rational value.
-/
import Mathlib.Tactic.Ring
import Mathlib.Tactic.Linarith
import Mathlib.Tactic.NormNum
import Mathlib.Algebra.Order.AbsoluteValue.Basic
import Ladybug.Model.Units

namespace Units

theorem rabs_eq_abs (x : Rat) : rabs x = |x| := by
  unfold rabs
  split
  · rename_i h; rw [abs_of_neg h]
  · rename_i h; rw [abs_of_nonneg (not_lt.mp h)]

theorem closeTo_iff (tol x ref : Rat) : closeTo tol x ref = true ↔ |x - ref| ≤ tol * |ref| := by
  simp [closeTo, rabs_eq_abs]

namespace Aff

theorem eval_comp (g f : Aff) (x : Rat) : (comp g f).eval x = g.eval (f.eval x) := by
  simp only [eval, comp]; ring

@[simp] theorem eval_idn (x : Rat) : idn.eval x = x := by simp [eval, idn]

/-- Placeholder leg of the base unit. -/
theorem eval_one_zero : ∀ x : Rat, (fun x => x) x = (⟨1, 0⟩ : Aff).eval x := by
  intro x; simp [eval]

end Aff

theorem LegsMatch.length_eq : ∀ (fs : List (Rat → Rat)) (cs : List Aff), LegsMatch fs cs → fs.length = cs.length
  | [], [], _ => rfl
  | [], _ :: _, h => h.elim
  | _ :: _, [], h => h.elim
  | _ :: fs, _ :: cs, h => by simp [LegsMatch.length_eq fs cs h.2]

theorem LegsMatch.getD_eval : ∀ (fs : List (Rat → Rat)) (cs : List Aff), LegsMatch fs cs →
    ∀ i, i < fs.length → ∀ x, (fs.getD i id) x = (cs.getD i Aff.idn).eval x
  | [], _, _, i, hi, _ => by simp at hi
  | _ :: _, [], h, _, _, _ => h.elim
  | f :: fs, c :: cs, h, 0, _, x => by simpa using h.1 x
  | f :: fs, c :: cs, h, i + 1, hi, x => by
    have := LegsMatch.getD_eval fs cs h.2 i (by simpa using hi) x
    simpa using this

theorem findIdx_eq_none {u : String} : ∀ {l : List String}, findIdx u l = none ↔ u ∉ l
  | [] => by simp [findIdx]
  | a :: as => by
    by_cases h : a = u
    · simp [findIdx, h]
    · have ih := @findIdx_eq_none u as
      have h' : ¬ u = a := fun e => h e.symm
      simp [findIdx, h, h', ih]

theorem findIdx_some {u : String} : ∀ {l : List String} {i : Nat}, findIdx u l = some i → l[i]? = some u
  | [], i, h => by simp [findIdx] at h
  | a :: as, i, h => by
    by_cases ha : a = u
    · simp [findIdx, ha] at h; subst h; simp [ha]
    · simp only [findIdx, ha, if_false, Option.map_eq_some_iff] at h
      obtain ⟨k, hk, rfl⟩ := h
      simpa using findIdx_some hk

theorem findIdx_lt {u : String} {l : List String} {i : Nat} (h : findIdx u l = some i) : i < l.length := by
  have := findIdx_some h
  exact (List.getElem?_eq_some_iff.1 this).1

theorem findIdx_zero_iff {u a : String} {as : List String} {i : Nat} (h : findIdx u (a :: as) = some i) :
    i = 0 ↔ u = a := by
  by_cases ha : a = u
  · simp [findIdx, ha] at h; simp [← h, ha]
  · simp only [findIdx, ha, if_false, Option.map_eq_some_iff] at h
    obtain ⟨k, _, rfl⟩ := h
    constructor
    · intro h0; omega
    · intro e; exact absurd e.symm ha

theorem findIdx_of_mem {u : String} {l : List String} (h : u ∈ l) : ∃ i, findIdx u l = some i := by
  cases hf : findIdx u l with
  | none => exact absurd h (findIdx_eq_none.1 hf)
  | some i => exact ⟨i, rfl⟩

namespace UType

theorem wf_iff (T : UType) : T.wf = true ↔
    (T.baseIdx = 0 ∧ 0 < T.n ∧ T.toBase.length = T.n ∧ T.fromBase.length = T.n ∧
      T.ipTarget.length = T.n ∧ T.siTarget.length = T.n ∧ noDup T.units = true) := by
  simp [wf, and_assoc]

end UType

namespace UType

theorem base_mem (T : UType) (h : T.wf = true) : T.base ∈ T.units := by
  obtain ⟨hb, hn, _⟩ := (wf_iff T).1 h
  unfold base n at *
  rw [hb]
  cases hu : T.units with
  | nil => simp [hu] at hn
  | cons a as => simp

/-- The first leg of the dispatch. -/
def leg1 (T : UType) (i : Nat) (x : Rat) : Rat := if i = T.baseIdx then x else (T.toBase.getD i id) x
def leg2 (T : UType) (j : Nat) (y : Rat) : Rat := if j = T.baseIdx then y else (T.fromBase.getD j id) y

theorem convIdx_legs (T : UType) (i j : Nat) (x : Rat) : T.convIdx i j x = T.leg2 j (T.leg1 i x) := rfl

theorem idx_base_iff (T : UType) (h : T.wf = true) {u : String} {i : Nat} (hi : T.idx? u = some i) :
    u = T.base ↔ i = T.baseIdx := by
  obtain ⟨hb, hn, _⟩ := (wf_iff T).1 h
  unfold base idx? n at *
  rw [hb]
  cases hu : T.units with
  | nil => simp [hu] at hn
  | cons a as =>
    rw [hu] at hi
    simpa using (findIdx_zero_iff hi).symm

theorem legFrom_listed (T : UType) (h : T.wf = true) {u : String} {i : Nat} (hu : T.idx? u = some i)
    (xs : List Rat) : T.legFrom u xs = .ok (xs.map (T.leg1 i)) := by
  obtain ⟨_, _, hlt, _, _, _⟩ := (wf_iff T).1 h
  have hi : i < T.toBase.length := by rw [hlt]; exact findIdx_lt hu
  have b1 := idx_base_iff T h hu
  unfold legFrom
  by_cases c1 : u = T.base
  · have i0 := b1.1 c1
    rw [if_pos c1]
    have : T.leg1 i = id := by funext x; simp [leg1, i0]
    rw [this]; simp
  · have i0 : ¬ i = T.baseIdx := fun e => c1 (b1.2 e)
    rw [if_neg c1, hu]
    have : T.leg1 i = T.toBase.getD i id := by funext x; simp [leg1, i0]
    rw [this]
    simp [List.getD, List.getElem?_eq_getElem hi]

theorem legTo_listed (T : UType) (h : T.wf = true) {v : String} {j : Nat} (hv : T.idx? v = some j)
    (xs : List Rat) : T.legTo v xs = .ok (xs.map (T.leg2 j)) := by
  obtain ⟨_, _, _, hlf, _, _⟩ := (wf_iff T).1 h
  have hj : j < T.fromBase.length := by rw [hlf]; exact findIdx_lt hv
  have b1 := idx_base_iff T h hv
  unfold legTo
  by_cases c1 : v = T.base
  · have i0 := b1.1 c1
    rw [if_pos c1]
    have : T.leg2 j = id := by funext x; simp [leg2, i0]
    rw [this]; simp
  · have i0 : ¬ j = T.baseIdx := fun e => c1 (b1.2 e)
    rw [if_neg c1, hv]
    have : T.leg2 j = T.fromBase.getD j id := by funext x; simp [leg2, i0]
    rw [this]
    simp [List.getD, List.getElem?_eq_getElem hj]

/-- `_to_unit_base` on two listed units is the index-level composite, element by element. -/
theorem toUnit_listed (T : UType) (h : T.wf = true) {u v : String} {i j : Nat}
    (hu : T.idx? u = some i) (hv : T.idx? v = some j) (xs : List Rat) :
    T.toUnit xs v u = .ok (xs.map (T.convIdx i j)) := by
  unfold toUnit
  rw [legFrom_listed T h hu]
  show T.legTo v (List.map (T.leg1 i) xs) = _
  rw [legTo_listed T h hv]
  simp [List.map_map, Function.comp_def, convIdx_legs]

/-- A `from_unit` the type does not list is rejected with a ValueError, whatever the target. -/
theorem toUnit_reject_from (T : UType) (h : T.wf = true) {u : String} (hu : u ∉ T.units) (v : String)
    (xs : List Rat) : T.toUnit xs v u = .error Err.value := by
  have hb : ¬ u = T.base := fun e => hu (e ▸ base_mem T h)
  have hn : T.idx? u = none := findIdx_eq_none.2 hu
  unfold toUnit legFrom
  rw [if_neg hb, hn]

/-- A target unit the type does not list is rejected (after a listed `from_unit`). -/
theorem toUnit_reject_to (T : UType) (h : T.wf = true) {u v : String} (hu : u ∈ T.units) (hv : v ∉ T.units)
    (xs : List Rat) : T.toUnit xs v u = .error Err.value := by
  have hb : ¬ v = T.base := fun e => hv (e ▸ base_mem T h)
  have hn : T.idx? v = none := findIdx_eq_none.2 hv
  obtain ⟨i, hi⟩ := findIdx_of_mem hu
  unfold toUnit
  rw [legFrom_listed T h hi]
  show T.legTo v (List.map (T.leg1 i) xs) = _
  unfold legTo
  rw [if_neg hb, hn]

theorem findIdx_of_noDup : ∀ {l : List String} {j : Nat} {t : String}, noDup l = true → l[j]? = some t →
    findIdx t l = some j
  | [], j, t, _, h => by simp at h
  | a :: as, 0, t, _, h => by
    simp at h; simp [findIdx, h]
  | a :: as, k + 1, t, hn, h => by
    simp only [noDup, Bool.and_eq_true, Bool.not_eq_true', List.getElem?_cons_succ] at hn h
    have hmem : t ∈ as := List.mem_of_getElem? h
    have hne : ¬ a = t := by
      intro e; subst e
      have := hn.1
      simp at this
      exact this hmem
    simp [findIdx, hne, findIdx_of_noDup hn.2 h]

theorem getD_of_getElem? {l : List String} {i : Nat} {u : String} (h : l[i]? = some u) : l.getD i "" = u := by
  simp [List.getD, h]

theorem targetOk_spec (T : UType) (targets : List Nat) (sys : List String)
    (h : T.targetOk targets sys = true) {i : Nat} (hi : i < T.n) :
    ∃ j, targets[i]? = some j ∧ j < T.n ∧ T.units.getD j "" ∈ sys ∧ targets[j]? = some j ∧
      (T.units.getD i "" ∈ sys → j = i) := by
  simp only [targetOk, List.all_eq_true, List.mem_range] at h
  have := h i hi
  cases ht : targets[i]? with
  | none => simp [ht] at this
  | some j =>
    simp only [ht, Bool.and_eq_true, decide_eq_true_eq, List.contains_iff_mem, beq_iff_eq,
      Bool.or_eq_true, Bool.not_eq_true', beq_iff_eq] at this
    refine ⟨j, rfl, this.1.1.1, this.1.1.2, this.1.2, ?_⟩
    intro hm
    rcases this.2 with hf | he
    · exact absurd (List.contains_iff_mem.2 hm) (by rw [hf]; simp)
    · exact he

/-- `to_ip` / `to_si` on a listed unit, at the level of unit *names*. -/
theorem toSys_listed (T : UType) (h : T.wf = true) (targets : List Nat) (sys : List String) (strict : Bool)
    (ht : T.targetOk targets sys = true) {u : String} (hu : u ∈ T.units) (xs : List Rat) :
    ∃ i j tgt ys, T.idx? u = some i ∧ i < T.n ∧ j < T.n ∧ T.units[j]? = some tgt ∧ T.idx? tgt = some j ∧
      tgt ∈ sys ∧ T.toSys targets strict xs u = .ok (ys, tgt) ∧
      ((j = i ∧ ys = xs ∧ tgt = u) ∨ (j ≠ i ∧ ys = xs.map (T.convIdx i j))) ∧
      (∀ zs, T.toSys targets strict zs tgt = .ok (zs, tgt)) ∧
      (u ∈ sys → tgt = u ∧ ys = xs) := by
  obtain ⟨i, hi⟩ := findIdx_of_mem hu
  have hin : i < T.n := findIdx_lt hi
  obtain ⟨j, htj, hjn, hjs, hjj, hfix⟩ := targetOk_spec T targets sys ht hin
  have hnd : noDup T.units = true := ((wf_iff T).1 h).2.2.2.2.2.2
  have hui : T.units.getD i "" = u := getD_of_getElem? (findIdx_some hi)
  have hjt : T.units[j]? = some (T.units.getD j "") := by
    have : j < T.units.length := hjn
    simp [List.getD, List.getElem?_eq_getElem this]
  have hidxt : T.idx? (T.units.getD j "") = some j := findIdx_of_noDup hnd hjt
  have hidem : ∀ zs, T.toSys targets strict zs (T.units.getD j "") = .ok (zs, T.units.getD j "") := by
    intro zs
    unfold toSys
    rw [hidxt]
    simp only [hjj, if_pos]
  have hi' : T.idx? u = some i := hi
  by_cases hji : j = i
  · refine ⟨i, j, T.units.getD j "", xs, hi, hin, hjn, hjt, hidxt, hjs, ?_, Or.inl ⟨hji, rfl, by rw [hji, hui]⟩,
      hidem, fun _ => ⟨by rw [hji, hui], rfl⟩⟩
    unfold toSys
    rw [hi']
    simp only [htj, hji, if_pos, hui]
  · refine ⟨i, j, T.units.getD j "", xs.map (T.convIdx i j), hi, hin, hjn, hjt, hidxt, hjs, ?_,
      Or.inr ⟨hji, rfl⟩, hidem, fun hm => absurd (hfix (hui ▸ hm)) hji⟩
    unfold toSys
    rw [hi']
    simp only [htj, hji, if_false, toUnit_listed T h hi' hidxt xs]

theorem forall2_map_left {R : Rat → Rat → Prop} {f : Rat → Rat} (h : ∀ x, R (f x) x) :
    ∀ l : List Rat, List.Forall₂ R (l.map f) l
  | [] => List.Forall₂.nil
  | a :: as => List.Forall₂.cons (h a) (forall2_map_left h as)

/-- `to_ip`/`to_si` of a type that checks units (`strict`) reject an unlisted unit. -/
theorem toSys_reject (T : UType) (targets : List Nat) {u : String} (hu : u ∉ T.units) (xs : List Rat) :
    T.toSys targets true xs u = .error Err.value := by
  have hn : T.idx? u = none := findIdx_eq_none.2 hu
  simp [toSys, hn]

/-! Round 4: each leg of the dispatch is one function applied to every element (or a refusal that does not
    depend on the values). -/

theorem legFrom_pointwise (T : UType) (u : String) (xs ys : List Rat) (h : T.legFrom u xs = .ok ys) :
    ∃ g : Rat → Rat, ys = xs.map g ∧ ∀ zs, T.legFrom u zs = .ok (zs.map g) := by
  by_cases hb : u = T.base
  · refine ⟨id, ?_, fun zs => by simp [UType.legFrom, hb]⟩
    simp [UType.legFrom, hb] at h
    simp [h]
  · cases hi : T.idx? u with
    | none => simp [UType.legFrom, hb, hi] at h
    | some i =>
      cases hf : T.toBase[i]? with
      | none => simp [UType.legFrom, hb, hi, hf] at h
      | some f =>
        refine ⟨f, ?_, fun zs => by simp [UType.legFrom, hb, hi, hf]⟩
        simp [UType.legFrom, hb, hi, hf] at h
        exact h.symm

theorem legTo_pointwise (T : UType) (v : String) (xs ys : List Rat) (h : T.legTo v xs = .ok ys) :
    ∃ g : Rat → Rat, ys = xs.map g ∧ ∀ zs, T.legTo v zs = .ok (zs.map g) := by
  by_cases hb : v = T.base
  · refine ⟨id, ?_, fun zs => by simp [UType.legTo, hb]⟩
    simp [UType.legTo, hb] at h
    simp [h]
  · cases hi : T.idx? v with
    | none => simp [UType.legTo, hb, hi] at h
    | some j =>
      cases hf : T.fromBase[j]? with
      | none => simp [UType.legTo, hb, hi, hf] at h
      | some f =>
        refine ⟨f, ?_, fun zs => by simp [UType.legTo, hb, hi, hf]⟩
        simp [UType.legTo, hb, hi, hf] at h
        exact h.symm

end UType

namespace Cert

variable (c : Cert)

/-- The composite the dispatch performs on listed units is the certificate's affine map. -/
theorem convIdx_eq (h : c.LegsOK) {i j : Nat} (hi : i < c.n) (hj : j < c.n) (x : Rat) :
    c.T.convIdx i j x = (c.pair i j).eval x := by
  obtain ⟨hwf, hto, hfrom⟩ := h
  obtain ⟨_, _, hlt, hlf, _, _⟩ := (UType.wf_iff c.T).1 hwf
  have hi' : i < c.T.toBase.length := by rw [hlt]; exact hi
  have hj' : j < c.T.fromBase.length := by rw [hlf]; exact hj
  simp only [UType.convIdx, pair, Aff.eval_comp]
  by_cases h1 : i = c.T.baseIdx <;> by_cases h2 : j = c.T.baseIdx <;>
    simp [h1, h2, LegsMatch.getD_eval _ _ hto i hi', LegsMatch.getD_eval _ _ hfrom j hj']

theorem nearId_spec (r : Aff) (h : nearId r = true) (x : Rat) :
    |r.eval x - x| ≤ (1 / 50000) * |x| := by
  simp only [nearId, Bool.and_eq_true, beq_iff_eq, decide_eq_true_eq, rabs_eq_abs] at h
  obtain ⟨hb, ha⟩ := h
  have e : r.eval x - x = (r.a - 1) * x := by simp only [Aff.eval, hb]; ring
  rw [e, abs_mul]
  exact mul_le_mul_of_nonneg_right ha (abs_nonneg x)

theorem rtOk_spec (h : c.rtOk = true) {i j : Nat} (hi : i < c.n) (hj : j < c.n) :
    nearId (c.pair i i) = true ∧ nearId (Aff.comp (c.pair j i) (c.pair i j)) = true := by
  simp only [rtOk, List.all_eq_true, List.mem_range, Bool.and_eq_true] at h
  exact ⟨(h i hi).1, (h i hi).2 j hj⟩

theorem siOk_spec (h : c.siOk = true) {i j : Nat} (hi : i < c.n) (hj : j < c.n) :
    c.si.map (·.1) = c.T.units ∧ (∀ s ∈ c.si, 0 < s.2.a) ∧
    |(c.pair i j).a - (siPair (c.siOf i) (c.siOf j)).a| ≤ (1 / 500) * |(siPair (c.siOf i) (c.siOf j)).a| ∧
    |(c.pair i j).b - (siPair (c.siOf i) (c.siOf j)).b| ≤ (1 / 500) * |(siPair (c.siOf i) (c.siOf j)).b| := by
  simp only [siOk, List.all_eq_true, List.mem_range, Bool.and_eq_true, beq_iff_eq, decide_eq_true_eq,
    closeTo_iff] at h
  exact ⟨h.1.1, h.1.2, (h.2 i hi j hj).1, (h.2 i hi j hj).2⟩


theorem siOf_pos (h : c.siOk = true) {i : Nat} (hi : i < c.n) : 0 < (c.siOf i).a := by
  obtain ⟨hmap, hpos, _, _⟩ := siOk_spec c h hi hi
  have hlen : c.si.length = c.n := by
    have := congrArg List.length hmap
    simpa [n] using this
  have hi' : i < c.si.length := by rw [hlen]; exact hi
  unfold siOf
  have e : c.si.getD i ("", Aff.idn) = c.si[i] := by simp [List.getD, List.getElem?_eq_getElem hi']
  rw [e]
  exact hpos _ (List.getElem_mem hi')

/-- Every conversion between listed units has a positive factor (it is within 0.2 % of a positive
    SI factor), so conversions preserve order. -/
theorem pair_slope_pos (h : c.Valid) {i j : Nat} (hi : i < c.n) (hj : j < c.n) : 0 < (c.pair i j).a := by
  obtain ⟨_, _, ha, _⟩ := siOk_spec c h.2.1 hi hj
  have hs : 0 < (siPair (c.siOf i) (c.siOf j)).a := by
    simp only [siPair]; exact div_pos (siOf_pos c h.2.1 hi) (siOf_pos c h.2.1 hj)
  rw [abs_of_pos hs] at ha
  have := abs_le.1 ha
  nlinarith [this.1]

theorem convIdx_mono (h : c.Valid) {i j : Nat} (hi : i < c.n) (hj : j < c.n) {x y : Rat} (hxy : x ≤ y) :
    c.T.convIdx i j x ≤ c.T.convIdx i j y := by
  rw [convIdx_eq c h.1 hi hj, convIdx_eq c h.1 hi hj]
  simp only [Aff.eval]
  have := pair_slope_pos c h hi hj
  nlinarith

end Cert

end Units
