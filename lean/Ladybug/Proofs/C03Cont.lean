/-
  Helper lemmas for C03: the slice arithmetic of HourlyContinuousCollection.group_by_day equals the
  datetime-keyed grouping of the same data.  No Mathlib.
-/
import Ladybug.Proofs.C03Dict
import Ladybug.Props.C04

open Cal

namespace Grp

variable {α : Type}

/-! ### Generic list facts -/

/-- Keeping the entries whose index lies in `[lo, hi)` is a slice. -/
theorem filter_index_interval (lo hi : Nat) : ∀ (l : List α) (o : Nat),
    (((List.range' o l.length).zip l).filter fun x => decide (lo ≤ x.1 ∧ x.1 < hi)).map (·.2)
      = (l.drop (lo - o)).take (hi - max lo o) := by
  intro l
  induction l with
  | nil => intro o; simp
  | cons v l ih =>
    intro o
    simp only [List.length_cons, List.range'_succ, List.zip_cons_cons, List.filter_cons]
    by_cases h1 : lo ≤ o
    · by_cases h2 : o < hi
      · have hd : lo - o = 0 := by omega
        have hd' : lo - (o + 1) = 0 := by omega
        have hm : hi - max lo o = (hi - max lo (o + 1)) + 1 := by omega
        simp only [h1, h2, and_self, decide_true, ↓reduceIte, List.map_cons, ih (o + 1), hd, hd',
          List.drop_zero, hm, List.take_succ_cons]
      · have hm : hi - max lo o = 0 := by omega
        have hm' : hi - max lo (o + 1) = 0 := by omega
        have : ¬ (lo ≤ o ∧ o < hi) := fun h => h2 h.2
        simp only [this, decide_false, Bool.false_eq_true, ↓reduceIte, ih (o + 1), hm, hm',
          List.take_zero]
    · have : ¬ (lo ≤ o ∧ o < hi) := fun h => h1 h.1
      have hd : lo - o = (lo - (o + 1)) + 1 := by omega
      have hm : max lo o = max lo (o + 1) := by omega
      simp only [this, decide_false, Bool.false_eq_true, ↓reduceIte, ih (o + 1), hd, hm,
        List.drop_succ_cons]

/-- Grouping data whose `i`-th key is `kf i`: when the indices with key `k` form the interval
    `[lo, hi)`, the group is the slice `vals[lo:hi]`. -/
theorem groupOf_index [DecidableEq κ] (kf : Nat → κ) (vals : List α) (k : κ) (lo hi : Nat)
    (h : ∀ i, i < vals.length → (kf i = k ↔ lo ≤ i ∧ i < hi)) :
    groupOf id (((List.range vals.length).map kf).zip vals) k = (vals.drop lo).take (hi - lo) := by
  have hz : ((List.range vals.length).map kf).zip vals
      = ((List.range' 0 vals.length).zip vals).map fun x => (kf x.1, x.2) := by
    rw [List.range_eq_range', List.zip_map_left]
    apply List.map_congr_left
    intro x _
    rfl
  rw [groupOf, hz, List.filter_map, List.map_map]
  have hf : ((List.range' 0 vals.length).zip vals).filter ((fun x => decide (id x.1 = k)) ∘ fun x => (kf x.1, x.2))
      = ((List.range' 0 vals.length).zip vals).filter fun x => decide (lo ≤ x.1 ∧ x.1 < hi) := by
    apply List.filter_congr
    intro x hx
    have hx1 : x.1 < vals.length := by
      have := (List.of_mem_zip hx).1
      simp [List.mem_range'] at this
      omega
    simp only [Function.comp, id, decide_eq_decide]
    exact h x.1 hx1
  rw [hf]
  have := filter_index_interval lo hi vals 0
  simp only [Nat.sub_zero, Nat.max_zero] at this
  rw [← this]
  apply List.map_congr_left
  intro x _
  rfl

/-- Two strictly increasing lists with the same members are equal. -/
theorem eq_of_sorted_of_mem_iff : ∀ (l₁ l₂ : List Nat), l₁.Pairwise (· < ·) → l₂.Pairwise (· < ·) →
    (∀ m, m ∈ l₁ ↔ m ∈ l₂) → l₁ = l₂ := by
  intro l₁
  induction l₁ with
  | nil =>
    intro l₂ _ _ h
    cases l₂ with
    | nil => rfl
    | cons b bs => exact absurd ((h b).mpr List.mem_cons_self) (by simp)
  | cons a as ih =>
    intro l₂ h1 h2 h
    cases l₂ with
    | nil => exact absurd ((h a).mp List.mem_cons_self) (by simp)
    | cons b bs =>
      have h1' := List.pairwise_cons.mp h1
      have h2' := List.pairwise_cons.mp h2
      have hab : a = b := by
        have ha := (h a).mp List.mem_cons_self
        have hb := (h b).mpr List.mem_cons_self
        rcases List.mem_cons.mp ha with e | e
        · exact e
        · rcases List.mem_cons.mp hb with e' | e'
          · exact e'.symm
          · have := h2'.1 a e
            have := h1'.1 b e'
            omega
      subst hab
      congr 1
      apply ih bs h1'.2 h2'.2
      intro m
      constructor
      · intro hm
        have := (h m).mp (List.mem_cons_of_mem _ hm)
        rcases List.mem_cons.mp this with e | e
        · have := h1'.1 m hm; omega
        · exact e
      · intro hm
        have := (h m).mpr (List.mem_cons_of_mem _ hm)
        rcases List.mem_cons.mp this with e | e
        · have := h2'.1 m hm; omega
        · exact e

theorem range'_sorted (a n S : Nat) (hS : 0 < S) : (List.range' a n S).Pairwise (· < ·) := by
  induction n generalizing a with
  | zero => simp
  | succ n ih =>
    rw [List.range'_succ, List.pairwise_cons]
    refine ⟨?_, ih (a + S)⟩
    intro m hm
    rw [List.mem_range'] at hm
    obtain ⟨i, _, rfl⟩ := hm
    have : 0 ≤ S * i := Nat.zero_le _
    omega

/-- Members of the grid `a, a + S, …` below `E` (all multiples of `S`). -/
theorem mem_grid (a E S m : Nat) (hS : 0 < S) (ha : a % S = 0) (hE : E % S = 0) (haE : a ≤ E) :
    m ∈ List.range' a ((E - a) / S) S ↔ a ≤ m ∧ m < E ∧ m % S = 0 := by
  rw [List.mem_range']
  have hd : (E - a) % S = 0 := by
    have : S ∣ E - a := Nat.dvd_sub (Nat.dvd_of_mod_eq_zero hE) (Nat.dvd_of_mod_eq_zero ha)
    exact Nat.mod_eq_zero_of_dvd this
  have hq : (E - a) / S * S = E - a := Nat.div_mul_cancel (Nat.dvd_of_mod_eq_zero hd)
  constructor
  · rintro ⟨i, hi, rfl⟩
    have h1 : (i + 1) * S ≤ (E - a) / S * S := Nat.mul_le_mul_right S hi
    have h2 : (i + 1) * S = S * i + S := by rw [Nat.add_mul, Nat.mul_comm]; simp
    refine ⟨by omega, by omega, ?_⟩
    rw [Nat.add_mul_mod_self_left]; exact ha
  · rintro ⟨h1, h2, h3⟩
    have hd' : (m - a) % S = 0 := by
      have : S ∣ m - a := Nat.dvd_sub (Nat.dvd_of_mod_eq_zero h3) (Nat.dvd_of_mod_eq_zero ha)
      exact Nat.mod_eq_zero_of_dvd this
    have hq' : (m - a) / S * S = m - a := Nat.div_mul_cancel (Nat.dvd_of_mod_eq_zero hd')
    refine ⟨(m - a) / S, ?_, ?_⟩
    · apply Nat.lt_of_mul_lt_mul_right (a := S)
      rw [hq, hq']; omega
    · rw [Nat.mul_comm, hq']; omega

/-! ### The `assignDays` loop in closed form -/

theorem assignDays_tab (ipd : Nat) (vals : List α) (keys : List Nat) (hnd : keys.Nodup) :
    ∀ (cnt i0 s : Nat) (g : Nat → List α), (∀ j, j < cnt → s + j ∈ keys) →
      assignDays ipd vals (List.range' i0 cnt ipd) s (tab keys g)
        = tab keys fun k => if s ≤ k ∧ k < s + cnt then sliceLen vals (i0 + (k - s) * ipd) ipd else g k := by
  intro cnt
  induction cnt with
  | zero =>
    intro i0 s g _
    simp only [List.range'_zero, assignDays]
    apply List.map_congr_left
    intro k _
    have : ¬ (s ≤ k ∧ k < s + 0) := by omega
    simp only [this, ↓reduceIte]
  | succ cnt ih =>
    intro i0 s g hk
    simp only [List.range'_succ, assignDays]
    rw [set_tab keys hnd g s _ (by simpa using hk 0 (by omega))]
    rw [ih (i0 + ipd) (s + 1) _ (fun j hj => by have := hk (j + 1) (by omega); rwa [Nat.add_assoc, Nat.add_comm 1 j])]
    apply List.map_congr_left
    intro k _
    by_cases h1 : s + 1 ≤ k ∧ k < s + 1 + cnt
    · have h2 : s ≤ k ∧ k < s + (cnt + 1) := by omega
      have h3 : i0 + ipd + (k - (s + 1)) * ipd = i0 + (k - s) * ipd := by
        have : k - s = (k - (s + 1)) + 1 := by omega
        rw [this, Nat.add_mul]; omega
      simp only [h1, h2, and_self, ↓reduceIte, h3]
    · by_cases h4 : k = s
      · subst h4
        have h2 : k ≤ k ∧ k < k + (cnt + 1) := by omega
        simp [h1, h2, sliceLen]
      · have h2 : ¬ (s ≤ k ∧ k < s + (cnt + 1)) := by omega
        simp [h1, h2, h4]

theorem pyRange_eq (a b s : Nat) (hs : 0 < s) : pyRange a b s = List.range' a ((b - a + s - 1) / s) s := by
  unfold pyRange
  have : s ≠ 0 := by omega
  simp [this]

/-! ### Whole-day periods -/

open AP

/-- Arithmetic of a whole-day period: `S * c = 1440` for `S = step`, `c = 24 * timestep`. -/
theorem step_ipd (ap : AP) (hwf : ap.WF) : ap.step * (24 * ap.timestep) = 1440 ∧ 0 < ap.step ∧
    0 < 24 * ap.timestep := by
  have h := (ts_facts ap hwf.2.2 0 0 (by omega) (by omega)).2.2.2.2.2
  have hS := step_pos ap hwf.2.2
  have : 0 < ap.timestep := by
    rcases Nat.eq_zero_or_pos ap.timestep with h0 | h0
    · rw [h0] at h; omega
    · exact h0
  refine ⟨?_, hS, by omega⟩
  calc ap.step * (24 * ap.timestep) = 24 * (ap.timestep * ap.step) := by
        rw [Nat.mul_comm ap.timestep, ← Nat.mul_assoc, ← Nat.mul_assoc, Nat.mul_comm ap.step 24]
    _ = 1440 := by rw [h]

/-- The moments of a whole-day period in minutes. -/
theorem wholeday_moments (ap : AP) (hwf : ap.WF) (h0 : ap.st_hour = 0) (h23 : ap.end_hour = 23) :
    ap.stMoy = (ap.stTime.doy - 1) * 1440 ∧ ap.endMoy + 60 = ap.endTime.doy * 1440 ∧
    1 ≤ ap.stTime.doy ∧ ap.stTime.doy ≤ daysInYear ap.leap ∧
    1 ≤ ap.endTime.doy ∧ ap.endTime.doy ≤ daysInYear ap.leap ∧
    (ap.isReversed = false ↔ ap.stTime.doy ≤ ap.endTime.doy) := by
  obtain ⟨a1, a2, a3, a4, a5, a6, _⟩ := doy_facts ap hwf
  refine ⟨by rw [a5, h0]; omega, by rw [a6, h23]; omega, a1, a2, a3, a4, ?_⟩
  have e1 : ap.stTime.intHoy = (ap.stTime.doy - 1) * 24 + ap.st_hour := rfl
  have e2 : ap.endTime.intHoy = (ap.endTime.doy - 1) * 24 + ap.end_hour := rfl
  unfold isReversed
  rw [e1, e2, h0, h23]
  simp only [decide_eq_false_iff_not]
  omega

/-- Membership in the enumeration of a whole-day period. -/
theorem mem_moys_wholeday (ap : AP) (hwf : ap.WF) (h0 : ap.st_hour = 0) (h23 : ap.end_hour = 23) (m : Nat) :
    m ∈ ap.moys ↔ m % ap.step = 0 ∧
      ((ap.stTime.doy ≤ ap.endTime.doy ∧ (ap.stTime.doy - 1) * 1440 ≤ m ∧ m < ap.endTime.doy * 1440) ∨
       (ap.endTime.doy < ap.stTime.doy ∧
         (((ap.stTime.doy - 1) * 1440 ≤ m ∧ m < daysInYear ap.leap * 1440) ∨ m < ap.endTime.doy * 1440))) := by
  obtain ⟨e1, e2, b1, b2, b3, b4, _⟩ := wholeday_moments ap hwf h0 h23
  rw [C04_mem_moys ap hwf m]
  unfold Pred inWindow
  have hy : minutesInYear ap.leap = 1440 * daysInYear ap.leap := rfl
  rw [hy, e1, h0, h23]
  have e2' : ap.endMoy = ap.endTime.doy * 1440 - 60 := by omega
  rw [e2']
  simp only [Nat.zero_le, ↓reduceIte, and_self, or_true, true_and, Nat.zero_mul]
  omega

/-- The enumeration of a whole-day, non-wrapping period is the grid from the first midnight to the
    midnight after the last day. -/
theorem moys_wholeday (ap : AP) (hwf : ap.WF) (h0 : ap.st_hour = 0) (h23 : ap.end_hour = 23)
    (hr : ap.isReversed = false) :
    ap.moys = List.range' ((ap.stTime.doy - 1) * 1440)
      ((ap.endTime.doy * 1440 - (ap.stTime.doy - 1) * 1440) / ap.step) ap.step := by
  obtain ⟨_, _, b1, b2, b3, b4, b5⟩ := wholeday_moments ap hwf h0 h23
  have hse := b5.mp hr
  obtain ⟨_, hS, _⟩ := step_ipd ap hwf
  apply eq_of_sorted_of_mem_iff _ _ (C04_moys_sorted ap hwf hr) (range'_sorted _ _ _ hS)
  intro m
  rw [mem_moys_wholeday ap hwf h0 h23 m,
    mem_grid _ _ _ m hS (step_dvd_of_60 ap hwf.2.2 _ (by omega)) (step_dvd_of_60 ap hwf.2.2 _ (by omega))
      (by omega)]
  constructor
  · rintro ⟨h1, h2 | h2⟩
    · exact ⟨h2.2.1, h2.2.2, h1⟩
    · omega
  · rintro ⟨h1, h2, h3⟩
    exact ⟨h3, Or.inl ⟨hse, h1, h2⟩⟩

theorem drop_ge_nil (l : List α) (n : Nat) (h : l.length ≤ n) : l.drop n = [] :=
  List.drop_eq_nil_of_le h

/-- Day number of the `i`-th step of the grid that starts at the midnight of day `s`. -/
theorem day_of_grid (S c s i : Nat) (hSc : S * c = 1440) (hS : 0 < S) (hs : 1 ≤ s) :
    ((s - 1) * 1440 + S * i) / 1440 + 1 = s + i / c := by
  have h1 : ((s - 1) * 1440 + S * i) / 1440 = (s - 1) + (S * i) / 1440 := by
    rw [Nat.mul_comm (s - 1) 1440, Nat.mul_add_div (by omega)]
  have h2 : (S * i) / 1440 = i / c := by
    rw [← hSc, Nat.mul_div_mul_left _ _ hS]
  rw [h1, h2]; omega

/-- **Non-wrapping whole-day periods**: the slices of the continuous `group_by_day` are the groups of
    the values by the day number of their own step. -/
theorem contDay_nonrev (ap : AP) (hwf : ap.WF) (h0 : ap.st_hour = 0) (h23 : ap.end_hour = 23)
    (hr : ap.isReversed = false) (vals : List α) (hlen : vals.length = ap.moys.length) :
    contDay ap vals = tab (dayKeys ap.leap) (groupOf id ((ap.moys.map (· / 1440 + 1)).zip vals)) := by
  obtain ⟨_, _, b1, b2, b3, b4, b5⟩ := wholeday_moments ap hwf h0 h23
  have hse := b5.mp hr
  obtain ⟨hSc, hS, hc⟩ := step_ipd ap hwf
  have hm := moys_wholeday ap hwf h0 h23 hr
  -- abbreviations
  generalize hs : ap.stTime.doy = s at *
  generalize he : ap.endTime.doy = e at *
  generalize hcc : 24 * ap.timestep = c at *
  generalize hSS : ap.step = S at *
  have hN : (e * 1440 - (s - 1) * 1440) / S = (e - s + 1) * c := by
    have : e * 1440 - (s - 1) * 1440 = S * ((e - s + 1) * c) := by
      rw [← Nat.mul_assoc, Nat.mul_comm S, Nat.mul_assoc, hSc, ← Nat.sub_mul]
      congr 1; omega
    rw [this, Nat.mul_div_cancel_left _ hS]
  rw [hN] at hm
  have hlen' : vals.length = (e - s + 1) * c := by rw [hlen, hm]; simp
  -- the key of every step
  have hkeys : ap.moys.map (· / 1440 + 1) = (List.range vals.length).map fun i => s + i / c := by
    rw [hm, hlen']
    apply List.ext_getElem
    · simp
    · intro i h1 h2
      simp only [List.getElem_map, List.getElem_range', List.getElem_range]
      exact day_of_grid S c s i hSc hS b1
  rw [hkeys]
  -- the algorithm
  unfold contDay
  simp only [hr, ↓reduceIte, hcc]
  have hdo : doyOf ap.leap ap.st_month ap.st_day = s := by rw [doyOf_eq]; exact hs
  rw [hdo, pyRange_eq _ _ _ hc, init_eq_tab]
  have hcnt : (vals.length - 0 + c - 1) / c = e - s + 1 := by
    rw [hlen', Nat.sub_zero]
    have : (e - s + 1) * c + c - 1 = (c - 1) + c * (e - s + 1) := by rw [Nat.mul_comm]; omega
    rw [this, Nat.add_mul_div_left _ _ hc, Nat.div_eq_of_lt (by omega)]; omega
  rw [hcnt]
  have hnd : (dayKeys ap.leap).Nodup := List.nodup_range' (step := 1) (by omega)
  rw [assignDays_tab c vals _ hnd (e - s + 1) 0 s _ (by
    intro j hj
    simp only [dayKeys, List.mem_range'_1]
    omega)]
  apply List.map_congr_left
  intro k _
  simp only [Nat.zero_add]
  by_cases hk : s ≤ k
  · rw [groupOf_index (fun i => s + i / c) vals k ((k - s) * c) ((k - s) * c + c) (by
      intro i _
      have : s + i / c = k ↔ i / c = k - s := by omega
      rw [this, Nat.div_eq_iff hc]
      omega)]
    by_cases hk2 : k < s + (e - s + 1)
    · simp [hk, hk2, sliceLen]
    · simp only [hk, hk2, and_false, ↓reduceIte]
      rw [drop_ge_nil]
      · simp
      · rw [hlen']
        apply Nat.mul_le_mul_right
        omega
  · rw [groupOf_index (fun i => s + i / c) vals k 0 0 (by
      intro i _
      generalize i / c = q
      omega)]
    simp [hk]

/-! ### Whole-day periods that wrap the year end -/

/-- The enumeration of a whole-day wrapping period: from the first midnight to the end of the year,
    then from 1 Jan to the midnight after the last day. -/
theorem moys_wholeday_rev (ap : AP) (hwf : ap.WF) (h0 : ap.st_hour = 0) (h23 : ap.end_hour = 23)
    (hr : ap.isReversed = true) :
    ap.moys = List.range' ((ap.stTime.doy - 1) * 1440)
        ((daysInYear ap.leap * 1440 - (ap.stTime.doy - 1) * 1440) / ap.step) ap.step ++
      List.range' 0 ((ap.endTime.doy * 1440 - 0) / ap.step) ap.step := by
  obtain ⟨e1, e2, b1, b2, b3, b4, b5⟩ := wholeday_moments ap hwf h0 h23
  have hes : ap.endTime.doy < ap.stTime.doy := by
    rcases Nat.lt_or_ge ap.endTime.doy ap.stTime.doy with h | h
    · exact h
    · have := b5.mpr h; rw [hr] at this; cases this
  obtain ⟨_, hS, _⟩ := step_ipd ap hwf
  obtain ⟨l₁, l₂, hm, s1, s2, g1, g2, g3⟩ := AP.C04_moys_segments ap hwf hr
  have hmem := mem_moys_wholeday ap hwf h0 h23
  rw [hm] at hmem ⊢
  congr 1
  · apply eq_of_sorted_of_mem_iff _ _ s1 (range'_sorted _ _ _ hS)
    intro m
    rw [mem_grid _ _ _ m hS (step_dvd_of_60 ap hwf.2.2 _ (by omega)) (step_dvd_of_60 ap hwf.2.2 _ (by omega))
      (by omega)]
    constructor
    · intro h
      have h1 := g1 m h
      have h2 := (hmem m).mp (List.mem_append_left _ h)
      omega
    · intro h
      have h2 := (hmem m).mpr ⟨h.2.2, Or.inr ⟨hes, Or.inl ⟨h.1, h.2.1⟩⟩⟩
      rcases List.mem_append.mp h2 with h3 | h3
      · exact h3
      · have := g2 m h3; omega
  · apply eq_of_sorted_of_mem_iff _ _ s2 (range'_sorted _ _ _ hS)
    intro m
    rw [mem_grid _ _ _ m hS (by simp) (step_dvd_of_60 ap hwf.2.2 _ (by omega)) (by omega)]
    constructor
    · intro h
      have h1 := g2 m h
      have h2 := (hmem m).mp (List.mem_append_right _ h)
      omega
    · intro h
      have h2 := (hmem m).mpr ⟨h.2.2, Or.inr ⟨hes, Or.inr h.2.1⟩⟩
      rcases List.mem_append.mp h2 with h3 | h3
      · have := g1 m h3; omega
      · exact h3

/-- **Year-wrapping whole-day periods**: the two slice loops of the continuous `group_by_day` give the
    groups of the values by the day number of their own step. -/
theorem contDay_rev (ap : AP) (hwf : ap.WF) (h0 : ap.st_hour = 0) (h23 : ap.end_hour = 23)
    (hr : ap.isReversed = true) (vals : List α) (hlen : vals.length = ap.moys.length) :
    contDay ap vals = tab (dayKeys ap.leap) (groupOf id ((ap.moys.map (· / 1440 + 1)).zip vals)) := by
  obtain ⟨_, _, b1, b2, b3, b4, b5⟩ := wholeday_moments ap hwf h0 h23
  have hes : ap.endTime.doy < ap.stTime.doy := by
    rcases Nat.lt_or_ge ap.endTime.doy ap.stTime.doy with h | h
    · exact h
    · have := b5.mpr h; rw [hr] at this; cases this
  obtain ⟨hSc, hS, hc⟩ := step_ipd ap hwf
  have hm := moys_wholeday_rev ap hwf h0 h23 hr
  generalize hs : ap.stTime.doy = s at *
  generalize he : ap.endTime.doy = e at *
  generalize hY : daysInYear ap.leap = Y at *
  generalize hcc : 24 * ap.timestep = c at *
  generalize hSS : ap.step = S at *
  have hN1 : (Y * 1440 - (s - 1) * 1440) / S = (Y - s + 1) * c := by
    have : Y * 1440 - (s - 1) * 1440 = S * ((Y - s + 1) * c) := by
      rw [← Nat.mul_assoc, Nat.mul_comm S, Nat.mul_assoc, hSc, ← Nat.sub_mul]
      congr 1; omega
    rw [this, Nat.mul_div_cancel_left _ hS]
  have hN2 : (e * 1440 - 0) / S = e * c := by
    have : e * 1440 - 0 = S * (e * c) := by
      rw [Nat.sub_zero, ← Nat.mul_assoc, Nat.mul_comm S, Nat.mul_assoc, hSc]
    rw [this, Nat.mul_div_cancel_left _ hS]
  rw [hN1, hN2] at hm
  generalize hn1 : (Y - s + 1) * c = N1 at *
  have hlen' : vals.length = N1 + e * c := by rw [hlen, hm]; simp
  -- the key of every step
  have hkeys : ap.moys.map (· / 1440 + 1)
      = (List.range vals.length).map fun i => if i < N1 then s + i / c else 1 + (i - N1) / c := by
    rw [hm, hlen']
    apply List.ext_getElem
    · simp
    · intro i h1 h2
      simp only [List.getElem_map, List.getElem_range, List.getElem_append, List.length_range',
        List.getElem_range']
      by_cases hi : i < N1
      · simp only [hi, ↓reduceDIte, ↓reduceIte]
        exact day_of_grid S c s i hSc hS b1
      · simp only [hi, ↓reduceDIte, ↓reduceIte]
        have := day_of_grid S c 1 (i - N1) hSc hS (by omega)
        simpa using this
  rw [hkeys]
  -- the algorithm
  unfold contDay
  simp only [hr, Bool.true_eq_false, ↓reduceIte, hcc, hY]
  have hdo : doyOf ap.leap ap.st_month ap.st_day = s := by rw [doyOf_eq]; exact hs
  rw [hdo, pyRange_eq _ _ _ hc, pyRange_eq _ _ _ hc, init_eq_tab]
  have hend : c * (Y - s + 1) = N1 := by rw [Nat.mul_comm]; exact hn1
  rw [hend]
  have hcnt1 : (N1 - 0 + c - 1) / c = Y - s + 1 := by
    rw [← hn1, Nat.sub_zero]
    have : (Y - s + 1) * c + c - 1 = (c - 1) + c * (Y - s + 1) := by rw [Nat.mul_comm]; omega
    rw [this, Nat.add_mul_div_left _ _ hc, Nat.div_eq_of_lt (by omega)]; omega
  have hcnt2 : (vals.length - N1 + c - 1) / c = e := by
    rw [hlen']
    have : N1 + e * c - N1 + c - 1 = (c - 1) + c * e := by rw [Nat.mul_comm]; omega
    rw [this, Nat.add_mul_div_left _ _ hc, Nat.div_eq_of_lt (by omega)]; omega
  rw [hcnt1, hcnt2]
  have hnd : (dayKeys ap.leap).Nodup := List.nodup_range' (step := 1) (by omega)
  have hkeysmem : ∀ k, k ∈ dayKeys ap.leap ↔ 1 ≤ k ∧ k ≤ Y := by
    intro k; simp only [dayKeys, List.mem_range'_1, hY]; omega
  rw [assignDays_tab c vals _ hnd (Y - s + 1) 0 s _ (by intro j hj; rw [hkeysmem]; omega)]
  rw [assignDays_tab c vals _ hnd e N1 1 _ (by intro j hj; rw [hkeysmem]; omega)]
  apply List.map_congr_left
  intro k hk
  rw [hkeysmem] at hk
  simp only [Nat.zero_add]
  -- facts about the second block
  have hsecond : ∀ i, i < vals.length → ¬ i < N1 → (i - N1) / c < e := by
    intro i hi hi'
    rw [Nat.div_lt_iff_lt_mul hc]
    omega
  by_cases hk1 : k ≤ e
  · -- a day of the new year: the second loop
    have hcond : 1 ≤ k ∧ k < 1 + e := by omega
    rw [groupOf_index _ vals k (N1 + (k - 1) * c) (N1 + (k - 1) * c + c) (by
      intro i hi
      by_cases hi' : i < N1
      · simp only [hi', ↓reduceIte]
        generalize i / c = q
        constructor
        · intro h; omega
        · intro h; omega
      · simp only [hi', ↓reduceIte]
        have : 1 + (i - N1) / c = k ↔ (i - N1) / c = k - 1 := by omega
        rw [this, Nat.div_eq_iff hc]
        omega)]
    simp [hcond, sliceLen]
  · by_cases hk2 : s ≤ k
    · have hc1 : ¬ (1 ≤ k ∧ k < 1 + e) := by omega
      have hc2 : s ≤ k ∧ k < s + (Y - s + 1) := by omega
      have hmono : (k - s) * c + c ≤ N1 := by
        rw [← hn1]
        have := Nat.mul_le_mul_right c (show k - s + 1 ≤ Y - s + 1 by omega)
        rw [Nat.add_mul, Nat.one_mul] at this
        exact this
      rw [groupOf_index _ vals k ((k - s) * c) ((k - s) * c + c) (by
        intro i hi
        by_cases hi' : i < N1
        · simp only [hi', ↓reduceIte]
          have : s + i / c = k ↔ i / c = k - s := by omega
          rw [this, Nat.div_eq_iff hc]
          omega
        · simp only [hi', ↓reduceIte]
          have := hsecond i hi hi'
          generalize (i - N1) / c = q at *
          constructor
          · intro h; omega
          · intro h; omega)]
      simp [hc1, hc2, sliceLen]
    · -- a day outside the period
      have hc1 : ¬ (1 ≤ k ∧ k < 1 + e) := by omega
      have hc2 : ¬ (s ≤ k ∧ k < s + (Y - s + 1)) := by omega
      rw [groupOf_index _ vals k 0 0 (by
        intro i hi
        by_cases hi' : i < N1
        · simp only [hi', ↓reduceIte]
          generalize i / c = q
          omega
        · simp only [hi', ↓reduceIte]
          have := hsecond i hi hi'
          generalize (i - N1) / c = q at *
          omega)]
      simp [hc1, hc2]

/-- Both cases together. -/
theorem contDay_eq (ap : AP) (hwf : ap.WF) (h0 : ap.st_hour = 0) (h23 : ap.end_hour = 23)
    (vals : List α) (hlen : vals.length = ap.moys.length) :
    contDay ap vals = tab (dayKeys ap.leap) (groupOf id ((ap.moys.map (· / 1440 + 1)).zip vals)) := by
  cases hr : ap.isReversed
  · exact contDay_nonrev ap hwf h0 h23 hr vals hlen
  · exact contDay_rev ap hwf h0 h23 hr vals hlen

/-! ### Small bridges used by the property theorems -/

theorem eq_of_nodup_map {β γ : Type} (f : β → γ) : ∀ (l : List β), (l.map f).Nodup →
    ∀ x ∈ l, ∀ y ∈ l, f x = f y → x = y := by
  intro l
  induction l with
  | nil => intro _ x hx; cases hx
  | cons a as ih =>
    intro hnd x hx y hy hxy
    simp only [List.map_cons, List.nodup_cons, List.mem_map, not_exists, not_and] at hnd
    rcases List.mem_cons.mp hx with rfl | hx' <;> rcases List.mem_cons.mp hy with rfl | hy'
    · rfl
    · exact absurd hxy.symm (hnd.1 y hy')
    · exact absurd hxy (hnd.1 x hx')
    · exact ih hnd.2 x hx' y hy' hxy

theorem groupOf_zip_key {κ τ α : Type} [DecidableEq κ] (key : τ → κ) (ds : List τ) (vals : List α) (k : κ) :
    groupOf key (ds.zip vals) k = groupOf id ((ds.map key).zip vals) k := by
  simp only [groupOf, List.zip_map_left, List.filter_map, List.map_map]
  rfl

/-- Day number of a valid date-time from its minute of the year. -/
theorem doy_of_moy (d : DT) (hv : d.valid) : d.doy = d.moy / 1440 + 1 := by
  obtain ⟨d', h1, _, _, _, _, h6, _⟩ := C08_fromMoy_moy d.leap d.moy (C08_moy_lt d hv)
  rw [C08_moy_fromMoy d hv] at h1
  cases h1
  exact h6

end Grp
