/-
  Calendar lemmas for C16 (Mathlib-free; built on the C08 theorems about Model/Cal.lean).
-/
import Ladybug.Props.C08
import Ladybug.Model.DesignDay

namespace DD

open Cal

/-- A valid date has a positive day of the year. -/
theorem doy_pos (d : Cal.D) (hv : d.valid) : 1 ≤ d.doy := by
  obtain ⟨_, _, h3, _⟩ := hv
  unfold Cal.D.doy; omega

/-- The date-time of minute `n` (< 1440) of a valid date. -/
def atMinute (d : Cal.D) (n : Nat) : Cal.DT := ⟨d.month, d.day, n / 60, n % 60, d.leap⟩

theorem atMinute_valid (d : Cal.D) (hv : d.valid) (n : Nat) (h : n < 1440) : (atMinute d n).valid := by
  obtain ⟨h1, h2, h3, h4⟩ := hv
  refine ⟨h1, h2, h3, h4, ?_, ?_⟩ <;> simp only [atMinute] <;> omega

theorem atMinute_moy (d : Cal.D) (hv : d.valid) (n : Nat) (_h : n < 1440) :
    ((atMinute d n).moy : Int) = ((d.doy : Int) - 1) * 1440 + n := by
  have hp := doy_pos d hv
  have e : (atMinute d n).doy = d.doy := rfl
  simp only [Cal.DT.moy, Cal.DT.intHoy, e]
  simp only [atMinute]
  omega

/-- `from_moy` of any minute inside the day that starts at `(doy - 1) * 1440` is the date-time of that
    minute on that very date. -/
theorem fromMoy_in_day (d : Cal.D) (hv : d.valid) (n : Nat) (h : n < 1440) :
    Cal.fromMoy d.leap (((d.doy : Int) - 1) * 1440 + n) = .ok (atMinute d n) := by
  have := C08_moy_fromMoy (atMinute d n) (atMinute_valid d hv n h)
  rw [atMinute_moy d hv n h] at this
  exact this

theorem collect_map_ok {β : Type} (l : List β) (f : β → Except Cal.Err Cal.DT) (g : β → Cal.DT)
    (h : ∀ x ∈ l, f x = .ok (g x)) : collect (l.map f) = .ok (l.map g) := by
  induction l with
  | nil => rfl
  | cons a r ih =>
    have ha := h a (by simp)
    have hr := ih (fun x hx => h x (by simp [hx]))
    simp only [List.map_cons, collect, ha, hr]

theorem mapM_ok_of_forall {β γ : Type} (f : β → Except DD.Err γ) (g : β → γ) (l : List β)
    (h : ∀ x ∈ l, f x = .ok (g x)) : l.mapM f = .ok (l.map g) := by
  induction l with
  | nil => rfl
  | cons a r ih =>
    have ha := h a (by simp)
    have hr := ih (fun x hx => h x (by simp [hx]))
    simp [List.mapM_cons, ha, hr, bind, Except.bind, pure, Except.pure]


end DD
