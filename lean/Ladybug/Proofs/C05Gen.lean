/-
  C05 — the translator tie.  `Gen/SunFormulas.lean` is regenerated from ladybug/sunpath.py on every
  check run by tools/extract/sun_formulas.py.  Each theorem below states that a generated definition
  IS the hand-written model definition of Model/Sun.lean that the property theorems (Props/C05.lean,
  and through the import Props/C11.lean) are about — for every numeric type `α` of the generic
  interface at once (so for `Float`, which the driver runs, and for `ℝ`).  A change of a translated
  source line therefore either regenerates a definition that is still equal to the model (harmless
  rewrite) or breaks exactly the theorem of the piece it is in (tie broken → failing-input search).
  No Mathlib.  (Comments above the theorems are line comments on purpose: a failing `rfl` is then
  reported on the line of the theorem it belongs to.)

  Not translated (hand-modelled, correspondence only): see the header of tools/extract/sun_formulas.py.
-/
import Ladybug.Gen.SunFormulas
import Ladybug.Model.Sun

set_option linter.unusedSectionVars false

namespace Sun

variable {α : Type} [Add α] [Sub α] [Mul α] [Div α] [Neg α] [OfScientific α]
  [LT α] [LE α] [DecidableLT α] [DecidableLE α] [Transc α]

/-! ### `_calculate_solar_geometry` -/

-- `julian_day = days + 2415018.5 + round(…) - float(tz) / 24` (day count and rounded day fraction
-- are the hand-modelled integer parts).
theorem C05_gen_eq_julian_day (days frac tz : α) :
    Gen.Sun.julian_day days frac tz = julianDay days frac tz := rfl

-- Everything from `julian_century` to `eq_of_time` (the NOAA series): declination in radians and
-- equation of time in minutes as functions of the Julian day.
theorem C05_gen_eq_solar_geometry (jd : α) : Gen.Sun.solar_geometry jd = solarGeometry jd := rfl

/-! ### `_calculate_solar_time`, `_calculate_sunrise_hour_angle` -/

theorem C05_gen_eq_calculate_solar_time (lonRad tz hour eot : α) (isSolar : Bool) :
    Gen.Sun.calculate_solar_time lonRad tz hour eot isSolar = solarTime hour eot lonRad tz isSolar := rfl

theorem C05_gen_eq_calculate_sunrise_hour_angle (latRad dec depRad : α) :
    Gen.Sun.calculate_sunrise_hour_angle latRad dec depRad = sunriseHourAngleRaw latRad dec depRad := rfl

/-! ### blocks of `calculate_sun_from_date_time` -/

theorem C05_gen_eq_sol_time_minutes (lonRad tz hour eot : α) (isSolar : Bool) :
    Gen.Sun.sol_time_minutes lonRad tz hour eot isSolar = solarTime hour eot lonRad tz isSolar * 60.0 := by
  simp only [Gen.Sun.sol_time_minutes, C05_gen_eq_calculate_solar_time]

theorem C05_gen_eq_hour_angle (solTime : α) : Gen.Sun.hour_angle solTime = hourAngle solTime := rfl

-- `cos_zenith`, the clamped `acos`, `altitude = 90 - degrees(zenith)`.
theorem C05_gen_eq_zenith_altitude (latRad dec ha : α) :
    Gen.Sun.zenith_altitude latRad dec ha =
      (Transc.acos (clampUnit (cosZenith latRad dec ha)),
       90.0 - deg (Transc.acos (clampUnit (cosZenith latRad dec ha)))) := rfl

-- The four refraction branches (arc seconds).
theorem C05_gen_eq_refraction (alt : α) : Gen.Sun.refraction alt = refraction alt := rfl

-- `atmos_refraction /= 3600; altitude += atmos_refraction`.
theorem C05_gen_eq_apply_refraction (alt : α) :
    Gen.Sun.apply_refraction alt (refraction alt) = apparentAltitude alt := rfl

theorem C05_gen_eq_az_init (latRad dec zenith : α) :
    Gen.Sun.az_init latRad dec zenith = azInit latRad dec zenith := rfl

-- The `if hour_angle > 0 … else …` inside the `try`.
theorem C05_gen_eq_azimuth_branches (ha a : α) : Gen.Sun.azimuth_branches ha a = azimuthTry ha a := rfl

-- The two `except` bodies are the values the model gives where Python raises: 180 for
-- `ZeroDivisionError` (`azimuthAt`), `180 if az_init > 0 else 0` for `ValueError` (`azimuthOf`).
theorem C05_gen_eq_azimuth_handlers (latRad dec zenith ha a : α) :
    azimuthAt latRad dec zenith ha =
      (if Transc.cos latRad * Transc.sin zenith ≤ 0.0 ∧ 0.0 ≤ Transc.cos latRad * Transc.sin zenith
        then Gen.Sun.azimuth_zero_division else azimuthOf ha (azInit latRad dec zenith)) ∧
    azimuthOf ha a =
      (if a < -1.0 ∨ 1.0 < a then Gen.Sun.azimuth_value_error a else azimuthTry ha a) :=
  ⟨rfl, rfl⟩

/-! ### Sun properties -/

theorem C05_gen_eq_azimuth_from_y_axis (az north : α) :
    Gen.Sun.azimuth_from_y_axis az north = azimuthFromYAxis az north := rfl

theorem C05_gen_eq_in_radians (x : α) :
    Gen.Sun.altitude_in_radians x = rad x ∧ Gen.Sun.azimuth_in_radians x = rad x := ⟨rfl, rfl⟩

theorem C05_gen_eq_is_during_day (alt az north : α) :
    isDuringDay alt az north = true ↔ Gen.Sun.is_during_day_test (sunVector alt az north).2.2 := by
  unfold isDuringDay Gen.Sun.is_during_day_test
  exact decide_eq_true_iff

end Sun
