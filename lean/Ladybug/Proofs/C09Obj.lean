/-
  Lemmas about the design-day object state machine (Model/PsychroObj.lean) for Props/C09.lean.
  Generic in the numeric type (they hold for the Float instantiation the driver runs as well as for ℝ).
  No Mathlib needed.
-/
import Ladybug.Model.PsychroObj

namespace Psychro

open Transc

section generic

variable {α : Type} [Add α] [Sub α] [Mul α] [Div α] [Neg α] [OfScientific α]
  [LT α] [LE α] [DecidableLT α] [DecidableLE α] [Transc α]

theorem DDObj.after_nil (o : DDObj α) : o.after [] = o := rfl

theorem DDObj.after_cons (o : DDObj α) (op : DDOp α) (rest : List (DDOp α)) :
    o.after (op :: rest) = (o.step op).1.after rest := rfl

theorem DDObj.run_cons_snd (o : DDObj α) (op : DDOp α) (rest : List (DDOp α)) :
    (o.run (op :: rest)).2 = (o.step op).2 :: ((o.step op).1.run rest).2 := rfl

/-- a read leaves the state alone -/
theorem DDObj.step_read (o : DDObj α) (r : DDRead α) : o.step (.read r) = (o, .vals (o.observe r)) := rfl

/-- The state after a history is the state established by its accepted setters. -/
theorem DDObj.after_eq_established (o : DDObj α) (ops : List (DDOp α)) : o.after ops = o.established ops := by
  induction ops generalizing o with
  | nil => rfl
  | cons op rest ih =>
    rw [DDObj.after_cons, ih]
    cases op with
    | setType t => cases t <;> simp [DDObj.step, DDObj.established, lastType, lastValue, lastPressure, lastDbMax, lastDbRange]
    | setValue t => cases t <;> simp [DDObj.step, DDObj.established, lastType, lastValue, lastPressure, lastDbMax, lastDbRange]
    | setPressure t => cases t <;> simp [DDObj.step, DDObj.established, lastType, lastValue, lastPressure, lastDbMax, lastDbRange]
    | setDbMax t => cases t <;> simp [DDObj.step, DDObj.established, lastType, lastValue, lastPressure, lastDbMax, lastDbRange]
    | setDbRange t =>
      cases t with
      | none => simp [DDObj.step, DDObj.established, lastType, lastValue, lastPressure, lastDbMax, lastDbRange]
      | some v =>
        by_cases h : rangeOk v <;>
          simp [DDObj.step, DDObj.established, lastType, lastValue, lastPressure, lastDbMax, lastDbRange, h]
    | read r => simp [DDObj.step, DDObj.established, lastType, lastValue, lastPressure, lastDbMax, lastDbRange]

/-- a refused operation returns the very same state -/
theorem DDObj.step_refused (o : DDObj α) (op : DDOp α) (h : (o.step op).2 = .refused) : (o.step op).1 = o := by
  cases op with
  | setType t => cases t <;> simp_all [DDObj.step]
  | setValue t => cases t <;> simp_all [DDObj.step]
  | setPressure t => cases t <;> simp_all [DDObj.step]
  | setDbMax t => cases t <;> simp_all [DDObj.step]
  | setDbRange t =>
    cases t with
    | none => rfl
    | some v => by_cases hv : rangeOk v <;> simp_all [DDObj.step]
  | read r => rfl

/-- a history of reads only: the state is untouched and the k-th answer is the pure observation -/
theorem DDObj.run_reads (o : DDObj α) (rs : List (DDRead α)) :
    o.run (rs.map .read) = (o, rs.map fun r => .vals (o.observe r)) := by
  induction rs with
  | nil => rfl
  | cons r rest ih =>
    have h : o.run (List.map DDOp.read (r :: rest)) =
        ((o.run (rest.map .read)).1, .vals (o.observe r) :: (o.run (rest.map .read)).2) := rfl
    rw [h, ih]
    rfl

end generic

end Psychro
