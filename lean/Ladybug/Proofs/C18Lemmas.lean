/-
  Helper lemmas for C18 (generic memo objects, WindProfile invariant).  Mathlib-free.
-/
import Ladybug.Model.Lazy
import Ladybug.Model.WindProfile

namespace Lazy
variable {Cfg Slot Val Field FVal : Type} [DecidableEq Slot]

theorem coh_fresh (S : Spec Cfg Slot Val Field FVal) (c : Cfg) : Coh S (fresh c : Obj Cfg Slot Val) := by
  intro i v h; simp [fresh] at h

theorem read_spec (S : Spec Cfg Slot Val Field FVal) (o : Obj Cfg Slot Val) (i : Slot) (h : Coh S o) :
    (read S o i).1 = S.f i o.cfg ∧ Coh S (read S o i).2 ∧ (read S o i).2.cfg = o.cfg := by
  unfold read
  cases hc : o.cache i with
  | some v => exact ⟨h i v hc, h, rfl⟩
  | none =>
    refine ⟨rfl, ?_, rfl⟩
    intro j w hj
    simp only at hj
    by_cases e : j = i
    · subst e; simp at hj; exact hj.symm
    · simp [e] at hj; exact h j w hj

/-- Frame condition: a slot that a setter does not clear does not depend on that setter's field. -/
def Frame (S : Spec Cfg Slot Val Field FVal) : Prop :=
  ∀ k x i c, i ∉ S.resets k → S.f i (S.upd k x c) = S.f i c

theorem set_coh (S : Spec Cfg Slot Val Field FVal) (o : Obj Cfg Slot Val) (k : Field) (x : FVal)
    (H : Frame S) (h : Coh S o) : Coh S (set S o k x) := by
  intro j v hj
  simp only [set] at hj ⊢
  by_cases e : j ∈ S.resets k
  · simp [e] at hj
  · simp [e] at hj
    rw [H k x j o.cfg e]; exact h j v hj

theorem run_spec (S : Spec Cfg Slot Val Field FVal) (H : Frame S) :
    ∀ (ops : List (Op Slot Field FVal)) (o : Obj Cfg Slot Val), Coh S o →
      (run S o ops).1 = expected S o.cfg ops ∧ Coh S (run S o ops).2 ∧
      (run S o ops).2.cfg = finalCfg S o.cfg ops := by
  intro ops
  induction ops with
  | nil => intro o h; exact ⟨rfl, h, rfl⟩
  | cons op ops ih =>
    intro o h
    cases op with
    | read i =>
      obtain ⟨h1, h2, h3⟩ := read_spec S o i h
      obtain ⟨r1, r2, r3⟩ := ih (read S o i).2 h2
      simp only [run, expected, finalCfg]
      refine ⟨?_, r2, ?_⟩
      · rw [h1, r1, h3]
      · rw [r3, h3]
    | set k x =>
      have hs := set_coh S o k x H h
      obtain ⟨r1, r2, r3⟩ := ih (set S o k x) hs
      simp only [run, expected, finalCfg]
      exact ⟨r1, r2, r3⟩

/-- read-only histories need no frame condition -/
theorem reads_spec (S : Spec Cfg Slot Val Field FVal) :
    ∀ (is : List Slot) (o : Obj Cfg Slot Val), Coh S o →
      (run S o (is.map Op.read)).1 = is.map (fun i => S.f i o.cfg) ∧
      Coh S (run S o (is.map Op.read)).2 := by
  intro is
  induction is with
  | nil => intro o h; exact ⟨rfl, h⟩
  | cons i is ih =>
    intro o h
    obtain ⟨h1, h2, h3⟩ := read_spec S o i h
    obtain ⟨r1, r2⟩ := ih (read S o i).2 h2
    simp only [List.map, run]
    refine ⟨?_, r2⟩
    rw [h1, r1, h3]

end Lazy

namespace Wind
variable {α : Type} [Div α] [Mul α] [LT α] [DecidableLT α] [OfNat α 0] [OfNat α 1]
variable (pw : α → α → α) (lg : α → α) (tp : Nat → Option (α × α × α))

/-- The invariant: both cached denominators are what a fresh object would compute. -/
def Inv (s : St α) : Prop := s.powDen = powDenOf pw s.cfg ∧ s.logDen = logDenOf lg s.cfg

theorem inv_iff_fresh (s : St α) : Inv pw lg s ↔ s = fresh pw lg s.cfg := by
  constructor
  · intro ⟨h1, h2⟩; cases s; simp_all [fresh]
  · intro h; rw [h]; exact ⟨rfl, rfl⟩

end Wind

namespace Wind
variable {α : Type} [Div α] [Mul α] [LT α] [DecidableLT α] [OfNat α 0] [OfNat α 1]
variable (pw : α → α → α) (lg : α → α) (tp : Nat → Option (α × α × α))

theorem tableOk_pow {tbl : RecTable} (h : TableOk tbl = true) (k : Kind) (hk : k.needsPow = true) :
    (tbl k).1 = true := by
  cases k <;> simp_all [TableOk, Kind.all, Kind.needsPow, Kind.needsLog]

theorem tableOk_log {tbl : RecTable} (h : TableOk tbl = true) (k : Kind) (hk : k.needsLog = true) :
    (tbl k).2 = true := by
  cases k <;> simp_all [TableOk, Kind.all, Kind.needsPow, Kind.needsLog]

theorem cfgset_pow_frame {c c' : Cfg α} {x : Call α} (h : c.set tp x = .ok c')
    (hk : x.kind.needsPow = false) : powDenOf pw c' = powDenOf pw c := by
  unfold Cfg.set at h
  cases hx : x.kind <;> simp only [hx, Kind.needsPow] at h hk <;>
    first
      | contradiction
      | (split at h <;> first | (cases h; rfl) | cases h)
      | (cases h; rfl)

theorem cfgset_log_frame {c c' : Cfg α} {x : Call α} (h : c.set tp x = .ok c')
    (hk : x.kind.needsLog = false) : logDenOf lg c' = logDenOf lg c := by
  unfold Cfg.set at h
  cases hx : x.kind <;> simp only [hx, Kind.needsLog] at h hk <;>
    first
      | contradiction
      | (split at h <;> first | (cases h; rfl) | cases h)
      | (cases h; rfl)

end Wind

namespace Wind
variable {α : Type} [Div α] [Mul α] [LT α] [DecidableLT α] [OfNat α 0] [OfNat α 1]
variable (pw : α → α → α) (lg : α → α) (tp : Nat → Option (α × α × α))

theorem set_inv {tbl : RecTable} (hT : TableOk tbl = true) {s s' : St α} {x : Call α}
    (hi : Inv pw lg s) (h : s.set pw lg tp tbl x = .ok s') :
    Inv pw lg s' ∧ s.cfg.set tp x = .ok s'.cfg := by
  unfold St.set at h
  cases hc : s.cfg.set tp x with
  | error e => rw [hc] at h; cases h
  | ok c =>
    rw [hc] at h
    simp only at h
    cases h
    refine ⟨⟨?_, ?_⟩, rfl⟩
    · by_cases hp : (tbl x.kind).1 = true
      · simp [hp]
      · have hk : x.kind.needsPow = false := by
          cases hn : x.kind.needsPow with
          | false => rfl
          | true => exact absurd (tableOk_pow hT x.kind hn) hp
        simp only [hp]
        rw [cfgset_pow_frame pw tp hc hk]; exact hi.1
    · by_cases hp : (tbl x.kind).2 = true
      · simp [hp]
      · have hk : x.kind.needsLog = false := by
          cases hn : x.kind.needsLog with
          | false => rfl
          | true => exact absurd (tableOk_log hT x.kind hn) hp
        simp only [hp]
        rw [cfgset_log_frame lg tp hc hk]; exact hi.2

theorem set_error {tbl : RecTable} {s : St α} {x : Call α} {e : Err}
    (h : s.set pw lg tp tbl x = .error e) : s.cfg.set tp x = .error e := by
  unfold St.set at h
  cases hc : s.cfg.set tp x with
  | error e' => rw [hc] at h; simpa using h
  | ok c => rw [hc] at h; cases h

theorem run_inv {tbl : RecTable} (hT : TableOk tbl = true) :
    ∀ (calls : List (Call α)) (s : St α), Inv pw lg s →
      Inv pw lg (run pw lg tp tbl s calls) ∧
      (run pw lg tp tbl s calls).cfg = finalCfg tp s.cfg calls := by
  intro calls
  induction calls with
  | nil => intro s h; exact ⟨h, rfl⟩
  | cons x xs ih =>
    intro s h
    simp only [run, finalCfg]
    cases hs : s.set pw lg tp tbl x with
    | ok s' =>
      obtain ⟨hi, hc⟩ := set_inv pw lg tp hT h hs
      obtain ⟨r1, r2⟩ := ih s' hi
      simp only [hc]
      exact ⟨r1, r2⟩
    | error e =>
      have hc := set_error pw lg tp hs
      obtain ⟨r1, r2⟩ := ih s h
      simp only [hc]
      exact ⟨r1, r2⟩

end Wind
