/-
  Helper lemmas for the round-4 theorems of C04 (dictionary re-read, sparse dictionary, text
  arguments).  No Mathlib.
-/
import Ladybug.Model.APForms
import Ladybug.Proofs.C04Listings

open Cal

namespace AP

theorem lookupV_fillKey (d : DictV) (k' k : String) : lookupV (fillKey d k') k = lookupV d k := by
  unfold fillKey
  split
  · rfl
  · rename_i hk
    unfold lookupV
    rw [List.find?_append]
    cases hf : d.find? (·.1 == k) with
    | some x => simp
    | none =>
      simp only [Option.none_or, Option.map_none, Option.join_none]
      by_cases hkk : k' == k
      · simp [List.find?, hkk]
      · simp [List.find?, hkk]

theorem lookupV_foldl (ks : List String) : ∀ (d : DictV) (k : String),
    lookupV (ks.foldl fillKey d) k = lookupV d k := by
  induction ks with
  | nil => intro d k; rfl
  | cons k' ks ih =>
    intro d k
    rw [List.foldl_cons, ih, lookupV_fillKey]

theorem lookupV_fillNone (d : DictV) (k : String) : lookupV (fillNone d) k = lookupV d k :=
  lookupV_foldl dictKeys d k

theorem lookupV_ofInts (kv : List (String × Int)) (k : String) :
    lookupV (DictV.ofInts kv) k = lookup? kv k := by
  unfold lookupV lookup? DictV.ofInts
  induction kv with
  | nil => rfl
  | cons p kv ih =>
    simp only [List.map_cons, List.find?_cons]
    by_cases h : p.1 == k
    · simp [h]
    · simp only [h]
      exact ih

end AP

namespace AP

theorem orD_ne (v d : Int) (h : v ≠ 0) : orD (some v) d = v := by
  show (if v = 0 then d else v) = v
  rw [if_neg h]

theorem orD_zero' (v : Int) : orD (some v) 0 = v := by
  show (if v = 0 then 0 else v) = v
  split <;> simp_all

/-- Text arguments against integer arguments: same accepted periods (errors differ only in class:
    the text path re-raises everything as ValueError). -/
theorem text_args_agree (stM stD stH endM endD endH ts : Int) (leap : Bool) (ap : AP)
    (h1 : stM ≠ 0) (h2 : stD ≠ 0) (h3 : endM ≠ 0) (h4 : endD ≠ 0)
    (hclip : ∀ t, Py.getIdx? (numDaysTable leap) (endM - 1) = some t → endD ≤ (t : Int)) :
    mkText? stM stD stH endM endD endH ts leap = .ok ap ↔ mk? stM stD stH endM endD endH ts leap = .ok ap := by
  unfold mkText? fromTokens mk? mkOpt?
  simp only [orD_ne _ _ h1, orD_ne _ _ h2, orD_ne _ _ h3, orD_ne _ _ h4, orD_zero', Option.getD_some,
    Option.isSome_some, and_true]
  have hts : (if ts = 0 then 1 else ts) = orD (some ts) 1 := rfl
  rw [hts]
  cases hst : makeDT stM stD stH leap with
  | error e => simp
  | ok st =>
    simp only []
    cases hidx : Py.getIdx? (numDaysTable leap) (endM - 1) with
    | none => simp
    | some t =>
      have hc : ¬ endD > (t : Int) := by have := hclip t hidx; omega
      simp only [hc, if_false]
      cases hen : makeDT endM endD endH leap with
      | error e => simp
      | ok en => simp only []

theorem lookup_none_of_keys (kv : List (String × Int)) (k : String) (h : ∀ p ∈ kv, p.1 ≠ k) :
    lookup? kv k = none := by
  unfold lookup?
  rw [List.find?_eq_none.mpr]
  · rfl
  · intro p hp
    simpa using h p hp

/-- Lookup in a filtered association list with pairwise distinct keys. -/
theorem lookup_filter (q : String × Int → Bool) (k : String) : ∀ (kv : List (String × Int)),
    kv.Pairwise (fun a b => a.1 ≠ b.1) →
    lookup? (kv.filter q) k = (lookup? kv k).bind fun v => if q (k, v) then some v else none := by
  intro kv
  induction kv with
  | nil => intro _; rfl
  | cons p kv ih =>
    intro hpw
    obtain ⟨hp, hrest⟩ := List.pairwise_cons.mp hpw
    by_cases hk : p.1 = k
    · have hpk : p = (k, p.2) := by rw [← hk]
      have hnone : lookup? (kv.filter q) k = none := by
        apply lookup_none_of_keys
        intro r hr
        have := hp r (List.mem_filter.mp hr).1
        rw [hk] at this
        exact fun h => this h.symm
      by_cases hq : q p = true
      · rw [List.filter_cons_of_pos hq]
        rw [hpk] at hq
        simp [lookup?, List.find?, hk, hq]
      · rw [List.filter_cons_of_neg hq, hnone]
        rw [hpk] at hq
        simp [lookup?, List.find?, hk, hq]
    · have hb : (p.1 == k) = false := by simpa using hk
      have e1 : lookup? (p :: kv) k = lookup? kv k := by simp [lookup?, List.find?, hb]
      rw [e1, ← ih hrest]
      by_cases hq : q p = true
      · rw [List.filter_cons_of_pos hq]; simp [lookup?, List.find?, hb]
      · rw [List.filter_cons_of_neg hq]

theorem mkOpt_congr (a a' b b' c c' d d' e e' f f' g g' : Option Int) (leap : Bool)
    (h1 : orD a 1 = orD a' 1) (h2 : orD b 1 = orD b' 1) (h3 : orD c 0 = orD c' 0)
    (h4 : orD d 12 = orD d' 12) (h5 : orD e 31 = orD e' 31) (h6 : f.getD 23 = f'.getD 23)
    (h7 : orD g 1 = orD g' 1) :
    mkOpt? a b c d e f g leap = mkOpt? a' b' c' d' e' f' g' leap := by
  unfold mkOpt?
  simp only [h1, h2, h3, h4, h5, h6, h7]

theorem toDict_keys (ap : AP) : ap.toDict.Pairwise (fun a b => a.1 ≠ b.1) := by
  unfold toDict
  simp

theorem sparse_lookup (ap : AP) (k : String) :
    lookup? (sparseDict ap) k =
      (lookup? ap.toDict k).bind fun v => if !(dictDefaults.contains (k, v)) then some v else none :=
  lookup_filter _ k _ (toDict_keys ap)

theorem orD_sparse (k : String) (v d : Int) (h : dictDefaults.contains (k, v) = true → v = d) :
    orD ((some v).bind fun v => if !(dictDefaults.contains (k, v)) then some v else none) d = orD (some v) d := by
  simp only [Option.bind_some]
  cases hc : dictDefaults.contains (k, v) with
  | true =>
    have := h hc
    subst this
    simp only [Bool.not_true, Bool.false_eq_true, if_false]
    show v = (if v = 0 then v else v)
    split <;> rfl
  | false => simp only [Bool.not_false, if_true]

theorem getD_sparse (k : String) (v d : Int) (h : dictDefaults.contains (k, v) = true → v = d) :
    ((some v).bind fun v => if !(dictDefaults.contains (k, v)) then some v else none).getD d = (some v).getD d := by
  simp only [Option.bind_some]
  cases hc : dictDefaults.contains (k, v) with
  | true =>
    have := h hc
    subst this
    simp only [Bool.not_true, Bool.false_eq_true, if_false, Option.getD_none, Option.getD_some]
  | false => simp only [Bool.not_false, if_true]

theorem sparse_roundtrip (ap : AP) (hwf : ap.WF) : fromDict (sparseDict ap) = .ok ap := by
  rw [← dict_roundtrip ap hwf]
  unfold fromDict
  have L : ∀ k, lookup? ap.toDict k = (ap.toDict.find? (·.1 == k)).map (·.2) := fun _ => rfl
  have K : ∀ (k : String) (v d : Int), dictDefaults.contains (k, v) = true → lookup? dictDefaults k = some d → v = d := by
    intro k v d hc hl
    simp only [dictDefaults, List.contains_eq_mem, List.mem_cons, Prod.mk.injEq, List.mem_nil_iff, or_false,
      decide_eq_true_eq] at hc
    rcases hc with ⟨rfl, rfl⟩ | ⟨rfl, rfl⟩ | ⟨rfl, rfl⟩ | ⟨rfl, rfl⟩ | ⟨rfl, rfl⟩ | ⟨rfl, rfl⟩ | ⟨rfl, rfl⟩ | ⟨rfl, rfl⟩ <;>
      simp [lookup?, dictDefaults, List.find?] at hl <;> exact hl
  have V : lookup? ap.toDict "st_month" = some (ap.st_month : Int) ∧ lookup? ap.toDict "st_day" = some (ap.st_day : Int) ∧
      lookup? ap.toDict "st_hour" = some (ap.st_hour : Int) ∧ lookup? ap.toDict "end_month" = some (ap.end_month : Int) ∧
      lookup? ap.toDict "end_day" = some (ap.end_day : Int) ∧ lookup? ap.toDict "end_hour" = some (ap.end_hour : Int) ∧
      lookup? ap.toDict "timestep" = some (ap.timestep : Int) ∧
      lookup? ap.toDict "is_leap_year" = some (if ap.leap then 1 else 0) := by
    simp [lookup?, toDict, List.find?]
  obtain ⟨v1, v2, v3, v4, v5, v6, v7, v8⟩ := V
  have e8 : orD (lookup? (sparseDict ap) "is_leap_year") 0 = orD (lookup? ap.toDict "is_leap_year") 0 := by
    rw [sparse_lookup, v8]; exact orD_sparse _ _ _ (fun hc => K _ _ _ hc (by simp [lookup?, dictDefaults, List.find?]))
  rw [e8]
  apply mkOpt_congr
  · rw [sparse_lookup, v1]; exact orD_sparse _ _ _ (fun hc => K _ _ _ hc (by simp [lookup?, dictDefaults, List.find?]))
  · rw [sparse_lookup, v2]; exact orD_sparse _ _ _ (fun hc => K _ _ _ hc (by simp [lookup?, dictDefaults, List.find?]))
  · rw [sparse_lookup, v3]; exact orD_sparse _ _ _ (fun hc => K _ _ _ hc (by simp [lookup?, dictDefaults, List.find?]))
  · rw [sparse_lookup, v4]; exact orD_sparse _ _ _ (fun hc => K _ _ _ hc (by simp [lookup?, dictDefaults, List.find?]))
  · rw [sparse_lookup, v5]; exact orD_sparse _ _ _ (fun hc => K _ _ _ hc (by simp [lookup?, dictDefaults, List.find?]))
  · rw [sparse_lookup, v6]; exact getD_sparse _ _ _ (fun hc => K _ _ _ hc (by simp [lookup?, dictDefaults, List.find?]))
  · rw [sparse_lookup, v7]; exact orD_sparse _ _ _ (fun hc => K _ _ _ hc (by simp [lookup?, dictDefaults, List.find?]))

theorem text_zero_rejected (stM stD stH endM endD endH ts : Int) (leap : Bool)
    (h : stM = 0 ∨ stD = 0 ∨ endM = 0 ∨ endD = 0) :
    ∃ e, mkText? stM stD stH endM endD endH ts leap = .error e := by
  cases hr : mkText? stM stD stH endM endD endH ts leap with
  | error e => exact ⟨e, rfl⟩
  | ok ap =>
    exfalso
    unfold mkText? fromTokens at hr
    simp only [Option.getD_some, Option.isSome_some, and_true] at hr
    cases hst : makeDT stM stD stH leap with
    | error e => rw [hst] at hr; simp at hr
    | ok st =>
      rw [hst] at hr
      simp only [] at hr
      obtain ⟨hv, _, _, hm, hd, _⟩ := makeDT_ok _ _ _ _ _ hst
      have h1 : 1 ≤ st.month := hv.1
      have h2 : 1 ≤ st.day := hv.2.2.1
      cases hidx : Py.getIdx? (numDaysTable leap) (endM - 1) with
      | none => rw [hidx] at hr; simp at hr
      | some t =>
        rw [hidx] at hr
        simp only [] at hr
        split at hr
        · cases hr
        · rename_i hc
          cases hen : makeDT endM endD endH leap with
          | error e => rw [hen] at hr; simp at hr
          | ok en =>
            obtain ⟨hv2, _, _, hm2, hd2, _⟩ := makeDT_ok _ _ _ _ _ hen
            have h3 : 1 ≤ en.month := hv2.1
            have h4 : 1 ≤ en.day := hv2.2.2.1
            omega

end AP
