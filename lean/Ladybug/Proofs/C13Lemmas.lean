/-
  Helper lemmas for C13 (Props/C13.lean): sorting, rotation, duplicate check, extraction of the
  result of the four validations.  Mathlib-free.
-/
import Ladybug.Model.Resample

open Cal

namespace Resample

variable {β : Type}

/-! ### sort -/

theorem sortByKey_perm (key : β → Nat) (l : List β) : (sortByKey key l).Perm l := by
  unfold sortByKey; exact List.mergeSort_perm l _

theorem sortByKey_sorted (key : β → Nat) (l : List β) :
    (sortByKey key l).Pairwise (fun a b => key a ≤ key b) := by
  unfold sortByKey
  have h := List.pairwise_mergeSort (le := fun a b => decide (key a ≤ key b))
    (by intro a b c hab hbc; simp at *; omega)
    (by intro a b; simp; omega) l
  exact h.imp (by intro a b hab; simpa using hab)

/-! ### rotation -/

theorem rotateAt_perm (l : List β) (k : Nat) : (rotateAt l k).Perm l := by
  unfold rotateAt
  exact (List.perm_append_comm).trans (by rw [List.take_append_drop])

/-- Specification of the `last_ind` loop with an accumulator. -/
theorem lastIdxGo_spec (p : β → Bool) :
    ∀ (l : List β) (i : Nat) (acc : Option Nat),
      (lastIdxGo p l i acc = acc ∧ ∀ x ∈ l, p x = false) ∨
      ∃ j, lastIdxGo p l i acc = some (i + j) ∧ j < l.length ∧
        (∀ h : j < l.length, p l[j] = true) ∧ ∀ x ∈ l.drop (j + 1), p x = false := by
  intro l
  induction l with
  | nil => intro i acc; left; simp [lastIdxGo]
  | cons x xs ih =>
    intro i acc
    unfold lastIdxGo
    rcases ih (i + 1) (if p x = true then some i else acc) with ⟨h1, h2⟩ | ⟨j, h1, h2, h3, h4⟩
    · by_cases hx : p x = true
      · right
        refine ⟨0, ?_, by simp, by intro _; simpa using hx, by simpa using h2⟩
        rw [h1]; simp [hx]
      · left
        refine ⟨?_, ?_⟩
        · rw [h1]; simp [hx]
        · intro y hy
          rcases List.mem_cons.mp hy with rfl | hy
          · simpa using hx
          · exact h2 y hy
    · right
      refine ⟨j + 1, ?_, by simp; omega, ?_, by simpa using h4⟩
      · rw [h1]; congr 1; omega
      · intro _; simpa using h3 h2

/-- The rotated list is `rest ++ pre` where `pre ++ rest` is the input, every item of `rest`
    fails `p`, and (unless `pre` is empty) the last item of `pre` satisfies `p`. -/
theorem rotateAfterLast_split (p : β → Bool) (l : List β) :
    ∃ pre rest, l = pre ++ rest ∧ rotateAfterLast p l = rest ++ pre ∧
      (∀ x ∈ rest, p x = false) ∧ (pre = [] ∨ ∃ y, pre.getLast? = some y ∧ p y = true) := by
  unfold rotateAfterLast lastIdx
  rcases lastIdxGo_spec p l 0 none with ⟨h1, h2⟩ | ⟨j, h1, h2, h3, h4⟩
  · rw [h1]
    exact ⟨[], l, by simp, by simp, h2, Or.inl rfl⟩
  · rw [h1]
    simp only [Nat.zero_add]
    refine ⟨l.take (j + 1), l.drop (j + 1), by simp, rfl, h4, Or.inr ⟨l[j], ?_, h3 h2⟩⟩
    rw [List.getLast?_take]
    simp [h2]

theorem rotateAfterLast_perm (p : β → Bool) (l : List β) : (rotateAfterLast p l).Perm l := by
  obtain ⟨pre, rest, h1, h2, -, -⟩ := rotateAfterLast_split p l
  rw [h2, h1]; exact List.perm_append_comm

/-- Not a wrapping header: the list is left as sorted. -/
theorem reorder_fwd (p g : β → Bool) (l : List β) : (reorder false p g l).1 = l := by
  simp [reorder]

theorem reorder_gap (rev : Bool) (p g : β → Bool) (l : List β) (h : (reorder rev p g l).2 = true) :
    (reorder rev p g l).1 = l := by
  simp only [reorder] at h ⊢
  rw [if_pos h]

theorem reorder_rev_nogap (p g : β → Bool) (l : List β) (h : (reorder true p g l).2 = false) :
    (reorder true p g l).1 = rotateAfterLast p l := by
  simp [reorder] at h ⊢
  simp [h]

/-- The re-ordered list is the sorted list itself, or (wrapping header, no "make annual") its
    rotation after the last item satisfying `p`. -/
theorem reorder_cases (rev : Bool) (p g : β → Bool) (l : List β) :
    (reorder rev p g l).1 = l ∨
    (rev = true ∧ (reorder rev p g l).2 = false ∧ (reorder rev p g l).1 = rotateAfterLast p l) := by
  cases rev
  · left; exact reorder_fwd p g l
  · cases h : (reorder true p g l).2
    · right; exact ⟨rfl, rfl, reorder_rev_nogap p g l h⟩
    · left; exact reorder_gap true p g l h

theorem reorder_perm (rev : Bool) (p g : β → Bool) (l : List β) : (reorder rev p g l).1.Perm l := by
  rcases reorder_cases rev p g l with h | ⟨_, _, h⟩
  · rw [h]
  · rw [h]; exact rotateAfterLast_perm p l

/-! ### duplicates -/

/-- A sorted key list that passes the adjacent-duplicate check is strictly increasing. -/
theorem strict_of_sorted_noAdjDup : ∀ (l : List Nat), l.Pairwise (· ≤ ·) → hasAdjDup l = false →
    l.Pairwise (· < ·)
  | [], _, _ => List.Pairwise.nil
  | [_], _, _ => by simp
  | a :: b :: rest, hs, hd => by
    unfold hasAdjDup at hd
    simp only [Bool.or_eq_false_iff, decide_eq_false_iff_not] at hd
    have hs' := List.pairwise_cons.mp hs
    have ih := strict_of_sorted_noAdjDup (b :: rest) hs'.2 hd.2
    refine List.pairwise_cons.mpr ⟨?_, ih⟩
    intro c hc
    have hab : a ≤ b := hs'.1 b (by simp)
    have hab' : a < b := by omega
    rcases List.mem_cons.mp hc with rfl | hc
    · exact hab'
    · have := (List.pairwise_cons.mp ih).1 c hc; omega

theorem hasAdjDup_append_left {κ : Type} [DecidableEq κ] : ∀ (l r : List κ),
    hasAdjDup (l ++ r) = false → hasAdjDup l = false
  | [], _, _ => by simp [hasAdjDup]
  | [_], _, _ => by simp [hasAdjDup]
  | a :: b :: rest, r, h => by
    simp only [List.cons_append] at h
    unfold hasAdjDup at h ⊢
    simp only [Bool.or_eq_false_iff] at h ⊢
    exact ⟨h.1, hasAdjDup_append_left (b :: rest) r (by simpa using h.2)⟩

theorem hasAdjDup_append_right {κ : Type} [DecidableEq κ] : ∀ (l r : List κ),
    hasAdjDup (l ++ r) = false → hasAdjDup r = false
  | [], _, h => by simpa using h
  | [a], r, h => by
    cases r with
    | nil => simp [hasAdjDup]
    | cons b rest =>
      simp only [List.cons_append, List.nil_append] at h
      unfold hasAdjDup at h
      simp only [Bool.or_eq_false_iff] at h
      exact h.2
  | a :: b :: rest, r, h => by
    simp only [List.cons_append] at h
    unfold hasAdjDup at h
    simp only [Bool.or_eq_false_iff] at h
    exact hasAdjDup_append_right (b :: rest) r (by simpa using h.2)

/-! ### extraction of the validation results -/

/-- What a successful hourly validation returns: the re-ordered sorted data, which passed the
    duplicate check, and a period built by the `AnalysisPeriod` constructor. -/
theorem validateHourly_ok {α : Type} (ap : AP) (dl : Bool) (data : List (Nat × α))
    (v : Validated (Nat × α)) (h : validateHourly ap dl data = .ok v) :
    let sorted := sortByKey (fun p : Nat × α => p.1) data
    let ro := reorder ap.isReversed (fun p : Nat × α => decide (p.1 < ap.endMoy + 60))
      (fun f : Nat × α => decide (doyOfMoy f.1 > ap.endTime.doy ∧ doyOfMoy f.1 < ap.stTime.doy)) sorted
    v.data = ro.1 ∧ hasAdjDup (ro.1.map fun p => p.1) = false ∧ data ≠ [] ∧
    ∃ (stMD endMD : Nat × Nat) (leap : Bool),
      AP.mk? stMD.1 stMD.2
        (if ap.isAnnual = false ∧ ap.st_hour ≠ 0 then minHour ap.st_hour (ro.1.map fun p => hourOfMoy p.1)
          else ap.st_hour : Nat)
        endMD.1 endMD.2
        (if ap.isAnnual = false ∧ ap.end_hour ≠ 23 then maxHour ap.end_hour (ro.1.map fun p => hourOfMoy p.1)
          else ap.end_hour : Nat)
        (fitTimestep ap.timestep (ro.1.map fun p => p.1)) leap = .ok v.ap := by
  intro sorted ro
  unfold validateHourly at h
  dsimp only at h
  split at h
  next first last hf hl =>
    split at h
    next => cases h
    next hd =>
      split at h
      next => cases h
      next nap hn =>
        injection h with h
        subst h
        refine ⟨rfl, (Bool.not_eq_true _).mp hd, ?_, ?_⟩
        · intro he
          subst he
          simp [sortByKey] at hf
        · unfold liftAP at hn
          split at hn
          next a ha => injection hn with hn; subst hn; exact ⟨_, _, _, ha⟩
          next => cases hn
  next => cases h

end Resample

namespace Resample

/-- What a successful daily validation returns. -/
theorem validateDaily_ok {α : Type} (ap : AP) (data : List (Nat × α))
    (v : Validated (Nat × α)) (h : validateDaily ap data = .ok v) :
    let sorted := sortByKey (fun p : Nat × α => p.1) data
    let ro := reorder ap.isReversed (fun p : Nat × α => decide (p.1 ≤ ap.endTime.doy))
      (fun f : Nat × α => decide (f.1 > ap.endTime.doy ∧ f.1 < ap.stTime.doy)) sorted
    v.data = ro.1 ∧ hasAdjDup (ro.1.map fun p => p.1) = false := by
  intro sorted ro
  unfold validateDaily at h
  dsimp only at h
  split at h
  next first last hf hl =>
    split at h
    next => cases h
    next =>
      split at h
      next => cases h
      next =>
        split at h
        next => cases h
        next hd =>
          split at h
          next => cases h
          next nap hn =>
            injection h with h
            subst h
            exact ⟨rfl, (Bool.not_eq_true _).mp hd⟩
  next => cases h

/-- What a successful monthly validation returns. -/
theorem validateMonthly_ok {α : Type} (ap : AP) (data : List (Nat × α))
    (v : Validated (Nat × α)) (h : validateMonthly ap data = .ok v) :
    let sorted := sortByKey (fun p : Nat × α => p.1) data
    let ro := reorder ap.isReversed (fun p : Nat × α => decide (p.1 ≤ ap.end_month))
      (fun f : Nat × α => decide (ap.st_month = ap.end_month ∨ (f.1 > ap.end_month ∧ f.1 < ap.st_month))) sorted
    v.data = ro.1 ∧ hasAdjDup (ro.1.map fun p => p.1) = false := by
  intro sorted ro
  unfold validateMonthly at h
  dsimp only at h
  split at h
  next first last hf hl =>
    split at h
    next => cases h
    next hd =>
      split at h
      next => cases h
      next nap hn =>
        injection h with h
        subst h
        exact ⟨rfl, (Bool.not_eq_true _).mp hd⟩
  next => cases h

/-- What a successful monthly-per-hour validation returns. -/
theorem validateMPH_ok {α : Type} (ap : AP) (data : List (MPH × α))
    (v : Validated (MPH × α)) (h : validateMPH ap data = .ok v) :
    let sorted := sortByKey (fun p : MPH × α => mphKey p.1) data
    let ro := reorder ap.isReversed (fun p : MPH × α => decide (p.1.1 ≤ ap.end_month ∧ p.1.2.1 ≤ ap.end_hour))
      (fun f : MPH × α => decide (ap.st_month = ap.end_month ∨ (f.1.1 > ap.end_month ∧ f.1.1 < ap.st_month))) sorted
    v.data = ro.1 ∧ hasAdjDup (ro.1.map fun p => p.1) = false := by
  intro sorted ro
  unfold validateMPH at h
  dsimp only at h
  split at h
  next first last hf hl =>
    split at h
    next => cases h
    next hd =>
      split at h
      next => cases h
      next nap hn =>
        injection h with h
        subst h
        exact ⟨rfl, (Bool.not_eq_true _).mp hd⟩
  next => cases h

/-! ### order facts -/

/-- In a list sorted by key, every item of a prefix is at most the last item of the prefix. -/
theorem le_getLast_of_sorted {β : Type} (key : β → Nat) (pre rest : List β)
    (hs : (pre ++ rest).Pairwise (fun a b => key a ≤ key b)) (y : β) (hy : pre.getLast? = some y) :
    ∀ x ∈ pre, key x ≤ key y := by
  intro x hx
  have hp : pre.Pairwise (fun a b => key a ≤ key b) := (List.pairwise_append.mp hs).1
  obtain ⟨init, rfl⟩ : ∃ init, pre = init ++ [y] := by
    refine ⟨pre.dropLast, ?_⟩
    have hne : pre ≠ [] := by intro h; simp [h] at hy
    rw [List.getLast?_eq_some_getLast hne] at hy
    injection hy with hy
    rw [← hy]; exact (List.dropLast_concat_getLast hne).symm
  rcases List.mem_append.mp hx with hx | hx
  · exact (List.pairwise_append.mp hp).2.2 x hx y (by simp)
  · simp at hx; subst hx; exact Nat.le_refl _

theorem minHour_le (h0 : Nat) (hours : List Nat) :
    minHour h0 hours ≤ h0 ∧ ∀ h ∈ hours, minHour h0 hours ≤ h := by
  unfold minHour
  induction hours generalizing h0 with
  | nil => simp
  | cons x xs ih =>
    simp only [List.foldl_cons]
    by_cases hx : x < h0
    · rw [if_pos hx]
      have := ih x
      refine ⟨by omega, ?_⟩
      intro h hh
      rcases List.mem_cons.mp hh with rfl | hh
      · exact this.1
      · exact this.2 h hh
    · rw [if_neg hx]
      have := ih h0
      refine ⟨this.1, ?_⟩
      intro h hh
      rcases List.mem_cons.mp hh with rfl | hh
      · omega
      · exact this.2 h hh

theorem le_maxHour (h0 : Nat) (hours : List Nat) :
    h0 ≤ maxHour h0 hours ∧ ∀ h ∈ hours, h ≤ maxHour h0 hours := by
  unfold maxHour
  induction hours generalizing h0 with
  | nil => simp
  | cons x xs ih =>
    simp only [List.foldl_cons]
    by_cases hx : x > h0
    · rw [if_pos hx]
      have := ih x
      refine ⟨by omega, ?_⟩
      intro h hh
      rcases List.mem_cons.mp hh with rfl | hh
      · exact this.1
      · exact this.2 h hh
    · rw [if_neg hx]
      have := ih h0
      refine ⟨this.1, ?_⟩
      intro h hh
      rcases List.mem_cons.mp hh with rfl | hh
      · omega
      · exact this.2 h hh

theorem fitTimestep_fits (ts : Nat) (moys : List Nat) :
    ∀ m ∈ moys, m % (60 / fitTimestep ts moys) = 0 := by
  unfold fitTimestep
  split
  next h => intro m hm; simpa using (List.all_eq_true.mp h) m hm
  next h =>
    split
    next t ht =>
      intro m hm
      have := List.find?_some ht
      simpa using (List.all_eq_true.mp this) m hm
    next hnone =>
      exfalso
      have h60 : (60 : Nat) ∈ sortedTimesteps :=
        (List.mergeSort_perm Gen.Ap.validTimesteps _).mem_iff.mpr (by decide)
      have := List.find?_eq_none.mp hnone 60 h60
      apply this
      apply List.all_eq_true.mpr
      intro m _
      simp [Nat.mod_one]

end Resample

namespace Resample

/-! ### order of the re-ordered list, generically -/

/-- A list sorted by an injective key that passes the adjacent-duplicate check is strictly
    increasing in the key. -/
theorem strict_of_sorted_noAdjDup_key {κ : Type} [DecidableEq κ] (key : κ → Nat) : ∀ (l : List κ),
    (∀ a ∈ l, ∀ b ∈ l, key a = key b → a = b) → l.Pairwise (fun a b => key a ≤ key b) →
    hasAdjDup l = false → l.Pairwise (fun a b => key a < key b)
  | [], _, _, _ => List.Pairwise.nil
  | [_], _, _, _ => by simp
  | a :: b :: rest, hinj, hs, hd => by
    unfold hasAdjDup at hd
    simp only [Bool.or_eq_false_iff, decide_eq_false_iff_not] at hd
    have hs' := List.pairwise_cons.mp hs
    have ih := strict_of_sorted_noAdjDup_key key (b :: rest)
      (fun x hx y hy => hinj x (List.mem_cons_of_mem _ hx) y (List.mem_cons_of_mem _ hy)) hs'.2 hd.2
    refine List.pairwise_cons.mpr ⟨?_, ih⟩
    intro c hc
    have hab : key a ≤ key b := hs'.1 b (by simp)
    have hne : key a ≠ key b := fun h => hd.1 (hinj a (by simp) b (by simp) h)
    have hab' : key a < key b := by omega
    rcases List.mem_cons.mp hc with rfl | hc
    · exact hab'
    · have := (List.pairwise_cons.mp ih).1 c hc; omega

/-- Order of `reorder`'s output for data `(k, value)` sorted by `key k` (injective on the keys that
    occur) when the output passed the duplicate check: strictly increasing, or – wrapping header,
    not made annual – the rotation `rest ++ pre` of the sorted list `pre ++ rest`, both runs
    strictly increasing, every item of `rest` failing `p`, the last item of `pre` satisfying it. -/
theorem reorder_order {κ α : Type} [DecidableEq κ] (key : κ → Nat) (rev : Bool)
    (p g : κ × α → Bool) (l : List (κ × α))
    (hinj : ∀ a ∈ l, ∀ b ∈ l, key a.1 = key b.1 → a.1 = b.1)
    (hs : l.Pairwise (fun a b => key a.1 ≤ key b.1))
    (hd : hasAdjDup ((reorder rev p g l).1.map fun x => x.1) = false) :
    ((reorder rev p g l).1.map fun x => key x.1).Pairwise (· < ·) ∨
    (rev = true ∧ ∃ pre rest, l = pre ++ rest ∧ (reorder rev p g l).1 = rest ++ pre ∧
      (rest.map fun x => key x.1).Pairwise (· < ·) ∧ (pre.map fun x => key x.1).Pairwise (· < ·) ∧
      (∀ x ∈ rest, p x = false) ∧ (pre = [] ∨ ∃ y, pre.getLast? = some y ∧ p y = true)) := by
  have hinj' : ∀ (m : List (κ × α)), (∀ x ∈ m, x ∈ l) →
      ∀ a ∈ m.map (fun x => x.1), ∀ b ∈ m.map (fun x => x.1), key a = key b → a = b := by
    intro m hm a ha b hb hab
    obtain ⟨x, hx, rfl⟩ := List.mem_map.mp ha
    obtain ⟨y, hy, rfl⟩ := List.mem_map.mp hb
    exact hinj x (hm x hx) y (hm y hy) hab
  have strict : ∀ (m : List (κ × α)), (∀ x ∈ m, x ∈ l) → m.Pairwise (fun a b => key a.1 ≤ key b.1) →
      hasAdjDup (m.map fun x => x.1) = false → (m.map fun x => key x.1).Pairwise (· < ·) := by
    intro m hm hsm hdm
    have := strict_of_sorted_noAdjDup_key key (m.map fun x => x.1) (hinj' m hm)
      (List.pairwise_map.mpr hsm) hdm
    have h2 := List.pairwise_map.mp this
    exact List.pairwise_map.mpr h2
  rcases reorder_cases rev p g l with hc | ⟨hr, -, hc⟩
  · left
    rw [hc] at hd ⊢
    exact strict l (fun x hx => hx) hs hd
  · right
    obtain ⟨pre, rest, e1, e2, e3, e4⟩ := rotateAfterLast_split p l
    rw [hc, e2] at hd
    rw [List.map_append] at hd
    have hsp := List.pairwise_append.mp (e1 ▸ hs)
    refine ⟨hr, pre, rest, e1, by rw [hc, e2], ?_, ?_, e3, e4⟩
    · exact strict rest (fun x hx => by rw [e1]; exact List.mem_append_right _ hx) hsp.2.1
        (hasAdjDup_append_left _ _ hd)
    · exact strict pre (fun x hx => by rw [e1]; exact List.mem_append_left _ hx) hsp.1
        (hasAdjDup_append_right _ _ hd)

end Resample

namespace Resample

/-- The period built by a successful hourly validation, with every constructor argument spelled
    out (`first` / `last` are the earliest / latest datum). -/
theorem validateHourly_mk {α : Type} (ap : AP) (dl : Bool) (data : List (Nat × α))
    (v : Validated (Nat × α)) (h : validateHourly ap dl data = .ok v) :
    ∃ first last,
      (sortByKey (fun p : Nat × α => p.1) data).head? = some first ∧
      (sortByKey (fun p : Nat × α => p.1) data).getLast? = some last ∧
      AP.mk?
        ((if (reorder ap.isReversed (fun p : Nat × α => decide (p.1 < ap.endMoy + 60))
              (fun f : Nat × α => decide (doyOfMoy f.1 > ap.endTime.doy ∧ doyOfMoy f.1 < ap.stTime.doy))
              (sortByKey (fun p : Nat × α => p.1) data)).2 = true then ((1 : Nat), (1 : Nat))
          else if (ap.isReversed = false ∧ ap.isAnnual = false) ∧ doyOfMoy first.1 < ap.stTime.doy
            then mdOf dl first.1 else (ap.st_month, ap.st_day)).1 : Nat)
        ((if (reorder ap.isReversed (fun p : Nat × α => decide (p.1 < ap.endMoy + 60))
              (fun f : Nat × α => decide (doyOfMoy f.1 > ap.endTime.doy ∧ doyOfMoy f.1 < ap.stTime.doy))
              (sortByKey (fun p : Nat × α => p.1) data)).2 = true then ((1 : Nat), (1 : Nat))
          else if (ap.isReversed = false ∧ ap.isAnnual = false) ∧ doyOfMoy first.1 < ap.stTime.doy
            then mdOf dl first.1 else (ap.st_month, ap.st_day)).2 : Nat)
        (if ap.isAnnual = false ∧ ap.st_hour ≠ 0 then minHour ap.st_hour
            ((reorder ap.isReversed (fun p : Nat × α => decide (p.1 < ap.endMoy + 60))
              (fun f : Nat × α => decide (doyOfMoy f.1 > ap.endTime.doy ∧ doyOfMoy f.1 < ap.stTime.doy))
              (sortByKey (fun p : Nat × α => p.1) data)).1.map fun p => hourOfMoy p.1)
          else ap.st_hour : Nat)
        ((if (reorder ap.isReversed (fun p : Nat × α => decide (p.1 < ap.endMoy + 60))
              (fun f : Nat × α => decide (doyOfMoy f.1 > ap.endTime.doy ∧ doyOfMoy f.1 < ap.stTime.doy))
              (sortByKey (fun p : Nat × α => p.1) data)).2 = true then ((12 : Nat), (31 : Nat))
          else if (ap.isReversed = false ∧ ap.isAnnual = false) ∧ doyOfMoy last.1 > ap.endTime.doy
            then mdOf dl last.1 else (ap.end_month, ap.end_day)).1 : Nat)
        ((if (reorder ap.isReversed (fun p : Nat × α => decide (p.1 < ap.endMoy + 60))
              (fun f : Nat × α => decide (doyOfMoy f.1 > ap.endTime.doy ∧ doyOfMoy f.1 < ap.stTime.doy))
              (sortByKey (fun p : Nat × α => p.1) data)).2 = true then ((12 : Nat), (31 : Nat))
          else if (ap.isReversed = false ∧ ap.isAnnual = false) ∧ doyOfMoy last.1 > ap.endTime.doy
            then mdOf dl last.1 else (ap.end_month, ap.end_day)).2 : Nat)
        (if ap.isAnnual = false ∧ ap.end_hour ≠ 23 then maxHour ap.end_hour
            ((reorder ap.isReversed (fun p : Nat × α => decide (p.1 < ap.endMoy + 60))
              (fun f : Nat × α => decide (doyOfMoy f.1 > ap.endTime.doy ∧ doyOfMoy f.1 < ap.stTime.doy))
              (sortByKey (fun p : Nat × α => p.1) data)).1.map fun p => hourOfMoy p.1)
          else ap.end_hour : Nat)
        (fitTimestep ap.timestep
          ((reorder ap.isReversed (fun p : Nat × α => decide (p.1 < ap.endMoy + 60))
              (fun f : Nat × α => decide (doyOfMoy f.1 > ap.endTime.doy ∧ doyOfMoy f.1 < ap.stTime.doy))
              (sortByKey (fun p : Nat × α => p.1) data)).1.map fun p => p.1))
        (ap.leap ||
          (reorder ap.isReversed (fun p : Nat × α => decide (p.1 < ap.endMoy + 60))
              (fun f : Nat × α => decide (doyOfMoy f.1 > ap.endTime.doy ∧ doyOfMoy f.1 < ap.stTime.doy))
              (sortByKey (fun p : Nat × α => p.1) data)).1.any fun p => decide (mdOf dl p.1 = (2, 29)))
        = .ok v.ap := by
  unfold validateHourly at h
  dsimp only at h
  split at h
  next first last hf hl =>
    split at h
    next => cases h
    next hd =>
      split at h
      next => cases h
      next nap hn =>
        injection h with h
        subst h
        unfold liftAP at hn
        split at hn
        next a ha => injection hn with hn; subst hn; exact ⟨first, last, hf, hl, ha⟩
        next => cases hn
  next => cases h

/-- In a list sorted by key the head has the smallest key. -/
theorem head_le_of_sorted {β : Type} (key : β → Nat) (l : List β)
    (hs : l.Pairwise (fun a b => key a ≤ key b)) (f : β) (hf : l.head? = some f) :
    ∀ x ∈ l, key f ≤ key x := by
  intro x hx
  cases l with
  | nil => simp at hf
  | cons a t =>
    simp at hf; subst hf
    rcases List.mem_cons.mp hx with rfl | hx
    · exact Nat.le_refl _
    · exact (List.pairwise_cons.mp hs).1 x hx

end Resample
