/-
  Helper lemmas for Props/C10 about the list-level functions (DIRINT, Zhang-Huang split):
  `mapM` in `Except`, night-zero and non-negativity per time step, closure of the split.
-/
import Ladybug.Proofs.C10Lemmas
namespace Sky
open Real


/-- `mapM` in `Except`: a successful run produces, position by position, the successful results. -/
theorem mapM_ok {α β ε : Type} (f : α → Except ε β) :
    ∀ (l : List α) (out : List β), l.mapM f = .ok out →
      out.length = l.length ∧ ∀ (i : Nat) (x : α), l[i]? = some x → ∃ y, out[i]? = some y ∧ f x = .ok y
  | [], out, h => by
      rw [List.mapM_nil] at h
      injection h with h
      subst h
      simp
  | a :: l, out, h => by
      rw [List.mapM_cons] at h
      cases hfa : f a with
      | error e => rw [hfa] at h; cases h
      | ok b =>
        rw [hfa] at h
        cases hl : l.mapM f with
        | error e => rw [hl] at h; cases h
        | ok bs =>
          rw [hl] at h
          injection h with h
          subst h
          obtain ⟨hlen, hall⟩ := mapM_ok f l bs hl
          refine ⟨by simp [hlen], ?_⟩
          intro i x hx
          cases i with
          | zero => simp at hx; subst hx; exact ⟨b, by simp, hfa⟩
          | succ i => simp at hx; simpa using hall i x hx
theorem step1_night (minSin minAlt : ℝ) (r : DRow ℝ) (s : ℝ × ℝ)
    (hn : r.2.1 ≤ minAlt ∨ r.1 ≤ 0) (h : dirintStep1 minSin minAlt r = .ok s) : s.1 = 0 := by
  unfold dirintStep1 at h
  rw [night_disc _ _ _ _ _ _ _ hn] at h
  simp only [ktPrime] at h
  injection h with h
  rw [← h]

theorem step2_val (rows : List (DRow ℝ)) (step1 : List (ℝ × ℝ)) (ud : Bool) (td : Option (List ℝ))
    (i : Nat) (s : ℝ × ℝ) (r : DRow ℝ) (y : ℝ) (hs : step1[i]? = some s) (hr : rows[i]? = some r)
    (h : dirintStep2 rows step1 ud td i = .ok y) : ∃ c, y = s.1 * c := by
  unfold dirintStep2 at h
  rw [hs, hr] at h
  simp only at h
  cases hc : dirintCoefAt step1 ud td i s r with
  | error e => rw [hc] at h; cases h
  | ok c =>
    rw [hc] at h
    injection h with h
    exact ⟨c, h.symm⟩

theorem dirint_night (rows : List (DRow ℝ)) (ud : Bool) (td : Option (List ℝ)) (minSin minAlt : ℝ)
    (out : List ℝ) (h : dirint rows ud td minSin minAlt = .ok out) :
    out.length = rows.length ∧
    ∀ (i : Nat) (r : DRow ℝ), rows[i]? = some r → (r.2.1 ≤ minAlt ∨ r.1 ≤ 0) → out[i]? = some 0 := by
  unfold dirint at h
  cases h1 : rows.mapM (dirintStep1 minSin minAlt) with
  | error e => rw [h1] at h; cases h
  | ok step1 =>
    rw [h1] at h
    have h2 : (List.range rows.length).mapM (dirintStep2 rows step1 ud td) = .ok out := h
    obtain ⟨hl1, ha1⟩ := mapM_ok _ _ _ h1
    obtain ⟨hl2, ha2⟩ := mapM_ok _ _ _ h2
    refine ⟨by simpa using hl2, ?_⟩
    intro i r hr hn
    have hi : i < rows.length := by
      rcases Nat.lt_or_ge i rows.length with hlt | hge
      · exact hlt
      · rw [List.getElem?_eq_none hge] at hr; cases hr
    obtain ⟨s, hs, hfs⟩ := ha1 i r hr
    obtain ⟨y, hy, hfy⟩ := ha2 i i (by simp [hi])
    obtain ⟨c, hc⟩ := step2_val rows step1 ud td i s r y hs hr hfy
    rw [hy, hc, step1_night minSin minAlt r s hn hfs]
    simp

theorem zhDisc_val (r : ZRow ℝ) (o : ℝ × ℝ) (h : zhDiscStep r = .ok o) :
    o.2 = zhGlob r - o.1 * Real.sin (radians r.alt) ∧ (zhGlob r ≤ 0 → o.1 = 0) := by
  unfold zhDiscStep at h
  cases hd : disc (zhGlob r) r.alt r.doy (some r.p) 0.065 3.0 12.0 with
  | error e => rw [hd] at h; cases h
  | ok d =>
    rw [hd] at h
    injection h with h
    rw [← h]
    refine ⟨rfl, ?_⟩
    intro hg
    rw [night_disc _ _ _ _ _ _ _ (Or.inr hg)] at hd
    injection hd with hd
    rw [← hd]

theorem zhSplit_rows (rows : List (ZRow ℝ)) (tempDew : List ℝ) (useDisc : Bool) (out : List (ℝ × ℝ))
    (h : zhSplit rows tempDew useDisc = .ok out) :
    out.length = rows.length ∧
    ∀ (i : Nat) (r : ZRow ℝ), rows[i]? = some r → ∃ o, out[i]? = some o ∧
      o.2 = zhGlob r - o.1 * Real.sin (radians r.alt) ∧ (zhGlob r ≤ 0 → o.1 = 0) := by
  unfold zhSplit at h
  cases useDisc with
  | true =>
    simp only [if_true] at h
    obtain ⟨hl, ha⟩ := mapM_ok _ _ _ h
    refine ⟨hl, ?_⟩
    intro i r hr
    obtain ⟨o, ho, hf⟩ := ha i r hr
    exact ⟨o, ho, zhDisc_val r o hf⟩
  | false =>
    simp only [Bool.false_eq_true, if_false] at h
    cases hd : dirint (rows.map fun r => (zhGlob r, r.alt, r.doy, r.p)) true (some tempDew) 0.065 3.0 with
    | error e => rw [hd] at h; cases h
    | ok dni =>
      rw [hd] at h
      injection h with h
      obtain ⟨hl, hn⟩ := dirint_night _ _ _ _ _ _ hd
      rw [List.length_map] at hl
      subst h
      refine ⟨by simp [hl], ?_⟩
      intro i r hr
      have hi : i < rows.length := by
        rcases Nat.lt_or_ge i rows.length with hlt | hge
        · exact hlt
        · rw [List.getElem?_eq_none hge] at hr; cases hr
      have hdi : dni[i]? = some (dni[i]'(by omega)) := List.getElem?_eq_getElem (by omega)
      refine ⟨(dni[i]'(by omega), zhGlob r - dni[i]'(by omega) * Real.sin (radians r.alt)), ?_, rfl, ?_⟩
      · have hz : (rows.zip dni)[i]? = some (r, dni[i]'(by omega)) :=
          List.getElem?_zip_eq_some.mpr ⟨hr, hdi⟩
        rw [List.getElem?_map, hz]
        rfl
      · intro hg
        have := hn i (zhGlob r, r.alt, r.doy, r.p) (by rw [List.getElem?_map, hr]; rfl) (Or.inr hg)
        rw [hdi] at this
        injection this



theorem coeffs_nonneg : ∀ l1 ∈ (Gen.Sky.dirintCoeffs (α := ℝ)), ∀ l2 ∈ l1, ∀ l3 ∈ l2, ∀ c ∈ l3, (0:ℝ) ≤ c := by
  unfold Gen.Sky.dirintCoeffs
  simp only [List.forall_mem_cons, List.not_mem_nil, false_imp_iff, implies_true, and_true]
  norm_num

theorem getIdx_mem {α : Type} (l : List α) (i : Int) (x : α) (h : Py.getIdx? l i = some x) : x ∈ l := by
  unfold Py.getIdx? at h
  split_ifs at h
  · exact List.mem_of_getElem? h
  · exact List.mem_of_getElem? h

theorem dirintCoeff_nonneg (kb ab db wb : Int) (c : ℝ) (h : dirintCoeff kb ab db wb = .ok c) : 0 ≤ c := by
  unfold dirintCoeff at h
  split at h
  · cases h
  · rename_i l1 h1
    split at h
    · cases h
    · rename_i l2 h2
      split at h
      · cases h
      · rename_i l3 h3
        split at h
        · cases h
        · rename_i c' h4
          injection h with h
          subst h
          exact coeffs_nonneg l1 (getIdx_mem _ _ _ h1) l2 (getIdx_mem _ _ _ h2) l3 (getIdx_mem _ _ _ h3) _
            (getIdx_mem _ _ _ h4)

theorem dirintCoefAt_nonneg (step1 : List (ℝ × ℝ)) (ud : Bool) (td : Option (List ℝ)) (i : Nat)
    (s : ℝ × ℝ) (r : DRow ℝ) (c : ℝ) (h : dirintCoefAt step1 ud td i s r = .ok c) : 0 ≤ c := by
  unfold dirintCoefAt at h
  simp only [bind, Except.bind] at h
  repeat' split at h
  all_goals first | cases h | exact dirintCoeff_nonneg _ _ _ _ _ h


theorem step1_nonneg (minSin minAlt : ℝ) (r : DRow ℝ) (s : ℝ × ℝ)
    (h : dirintStep1 minSin minAlt r = .ok s) : 0 ≤ s.1 := by
  unfold dirintStep1 at h
  cases hd : disc r.1 r.2.1 r.2.2.1 (some r.2.2.2) minSin minAlt 12.0 with
  | error e => rw [hd] at h; cases h
  | ok d =>
    rw [hd] at h
    simp only at h
    cases hk : ktPrime d.2.1 d.2.2 1.0 with
    | error e => rw [hk] at h; cases h
    | ok kp =>
      rw [hk] at h
      injection h with h
      rw [← h]
      exact disc_nonneg _ _ _ _ _ _ _ _ hd

theorem step2_val' (rows : List (DRow ℝ)) (step1 : List (ℝ × ℝ)) (ud : Bool) (td : Option (List ℝ))
    (i : Nat) (s : ℝ × ℝ) (r : DRow ℝ) (y : ℝ) (hs : step1[i]? = some s) (hr : rows[i]? = some r)
    (h : dirintStep2 rows step1 ud td i = .ok y) : ∃ c, 0 ≤ c ∧ y = s.1 * c := by
  unfold dirintStep2 at h
  rw [hs, hr] at h
  simp only at h
  cases hc : dirintCoefAt step1 ud td i s r with
  | error e => rw [hc] at h; cases h
  | ok c =>
    rw [hc] at h
    injection h with h
    exact ⟨c, dirintCoefAt_nonneg _ _ _ _ _ _ _ hc, h.symm⟩

theorem dirint_nonneg (rows : List (DRow ℝ)) (ud : Bool) (td : Option (List ℝ)) (minSin minAlt : ℝ)
    (out : List ℝ) (h : dirint rows ud td minSin minAlt = .ok out) : ∀ y ∈ out, 0 ≤ y := by
  unfold dirint at h
  cases h1 : rows.mapM (dirintStep1 minSin minAlt) with
  | error e => rw [h1] at h; cases h
  | ok step1 =>
    rw [h1] at h
    have h2 : (List.range rows.length).mapM (dirintStep2 rows step1 ud td) = .ok out := h
    obtain ⟨hl1, ha1⟩ := mapM_ok _ _ _ h1
    obtain ⟨hl2, ha2⟩ := mapM_ok _ _ _ h2
    intro y hy
    obtain ⟨i, hi, hyi⟩ := List.mem_iff_getElem.mp hy
    have hlen : out.length = rows.length := by simpa using hl2
    have hir : i < rows.length := by omega
    obtain ⟨s, hs, hfs⟩ := ha1 i rows[i] (List.getElem?_eq_getElem hir)
    obtain ⟨y', hy', hfy⟩ := ha2 i i (by simp [hir])
    obtain ⟨c, hc0, hc⟩ := step2_val' rows step1 ud td i s rows[i] y' hs (List.getElem?_eq_getElem hir) hfy
    have : y' = y := by
      rw [List.getElem?_eq_getElem hi] at hy'
      injection hy' with hy'
      rw [← hy', hyi]
    rw [← this, hc]
    exact mul_nonneg (step1_nonneg _ _ _ _ hfs) hc0

end Sky
