/-
  C14 helper lemmas, part 3: live objects of any kind (collections, plain lists held by the caller,
  argument lists) as one footprint system `anyFP`; lifting of collection-level steps.  No Mathlib.
-/
import Ladybug.Proofs.C14Spec

namespace LbHeap

/-- What a composite object (Wea, EPW) reads: its own cell, its metadata dict with the nested lists, the
    cells it only looks at (Location) and everything its member collections read. -/
def compReads (h : Heap) (c : Nat) (x : Comp) : List Nat :=
  [c, x.md] ++ mdRefsAt h x.md ++ x.shared ++ x.members.flatMap (reads h)

def compOwned (h : Heap) (c : Nat) (x : Comp) : List Nat :=
  [c, x.md] ++ mdRefsAt h x.md ++ x.members.flatMap (owned h)

/-- A well-formed composite: its metadata dict and Location exist, its members are well-formed
    collections that are separated from each other and from the composite's own metadata dict. -/
def CompTyped (h : Heap) (x : Comp) : Prop :=
  (∃ m, h.cells x.md = some (.md m) ∧ ∀ r ∈ mdRefs m, ∃ l, h.cells r = some (.mlist l)) ∧
  (∀ s ∈ x.shared, ∃ t, h.cells s = some (.loc t)) ∧
  (∀ mb ∈ x.members, Typed h mb) ∧
  Sep collFP h x.members ∧
  (∀ mb ∈ x.members, x.md ∉ reads h mb ∧ ∀ r ∈ mdRefsAt h x.md, r ∉ reads h mb)

def readsA (h : Heap) (c : Nat) : List Nat :=
  match h.cells c with
  | some (.coll _) => reads h c
  | some (.vals _ false) => [c]
  | some (.args _) => [c]
  | some (.comp x) => compReads h c x
  | _ => []

def ownedA (h : Heap) (c : Nat) : List Nat :=
  match h.cells c with
  | some (.coll _) => owned h c
  | some (.vals _ false) => [c]
  | some (.args _) => [c]
  | some (.comp x) => compOwned h c x
  | _ => []

def TypedA (h : Heap) (c : Nat) : Prop :=
  match h.cells c with
  | some (.coll _) => Typed h c
  | some (.vals _ false) => True
  | some (.args _) => True
  | some (.comp x) => CompTyped h x
  | _ => False

theorem flatMap_congr' {α β : Type} {l : List α} {f g : α → List β} (hfg : ∀ a ∈ l, f a = g a) :
    l.flatMap f = l.flatMap g := by
  induction l with
  | nil => rfl
  | cons a t ih =>
    simp only [List.flatMap_cons]
    rw [hfg a (by simp), ih (fun b hb => hfg b (List.mem_cons_of_mem _ hb))]

theorem mem_compReads {h : Heap} {c : Nat} {x : Comp} {r : Nat} :
    r ∈ compReads h c x ↔ r = c ∨ r = x.md ∨ r ∈ mdRefsAt h x.md ∨ r ∈ x.shared ∨
      ∃ mb ∈ x.members, r ∈ reads h mb := by
  simp only [compReads, List.mem_append, List.mem_cons, List.not_mem_nil, or_false, List.mem_flatMap]
  constructor
  · rintro ((((h1 | h1) | h1) | h1) | h1)
    · exact Or.inl h1
    · exact Or.inr (Or.inl h1)
    · exact Or.inr (Or.inr (Or.inl h1))
    · exact Or.inr (Or.inr (Or.inr (Or.inl h1)))
    · exact Or.inr (Or.inr (Or.inr (Or.inr h1)))
  · rintro (h1 | h1 | h1 | h1 | h1)
    · exact Or.inl (Or.inl (Or.inl (Or.inl h1)))
    · exact Or.inl (Or.inl (Or.inl (Or.inr h1)))
    · exact Or.inl (Or.inl (Or.inr h1))
    · exact Or.inl (Or.inr h1)
    · exact Or.inr h1

theorem mem_compOwned {h : Heap} {c : Nat} {x : Comp} {r : Nat} :
    r ∈ compOwned h c x ↔ r = c ∨ r = x.md ∨ r ∈ mdRefsAt h x.md ∨
      ∃ mb ∈ x.members, r ∈ owned h mb := by
  simp only [compOwned, List.mem_append, List.mem_cons, List.not_mem_nil, or_false, List.mem_flatMap]
  constructor
  · rintro (((h1 | h1) | h1) | h1)
    · exact Or.inl h1
    · exact Or.inr (Or.inl h1)
    · exact Or.inr (Or.inr (Or.inl h1))
    · exact Or.inr (Or.inr (Or.inr h1))
  · rintro (h1 | h1 | h1 | h1)
    · exact Or.inl (Or.inl (Or.inl h1))
    · exact Or.inl (Or.inl (Or.inr h1))
    · exact Or.inl (Or.inr h1)
    · exact Or.inr h1

theorem self_mem_reads {h : Heap} {c : Nat} (ty : Typed h c) : c ∈ reads h c := by
  obtain ⟨k, hd, m, a, v, t, e1, e2, e3, _⟩ := ty
  exact (mem_reads e1 e2 e3).2 (Or.inl rfl)

/-- The kinds of live objects. -/
theorem typedA_cases {h : Heap} {c : Nat} (ty : TypedA h c) :
    (∃ k, h.cells c = some (.coll k) ∧ Typed h c) ∨ (∃ v, h.cells c = some (.vals v false)) ∨
    (∃ l, h.cells c = some (.args l)) ∨ (∃ x, h.cells c = some (.comp x) ∧ CompTyped h x) := by
  unfold TypedA at ty
  split at ty
  · rename_i k hk; exact Or.inl ⟨k, hk, ty⟩
  · rename_i v hk; exact Or.inr (Or.inl ⟨v, hk⟩)
  · rename_i l hk; exact Or.inr (Or.inr (Or.inl ⟨l, hk⟩))
  · rename_i x hk; exact Or.inr (Or.inr (Or.inr ⟨x, hk, ty⟩))
  · exact ty.elim

theorem self_mem_readsA {h : Heap} {c : Nat} (ty : TypedA h c) : c ∈ readsA h c := by
  rcases typedA_cases ty with ⟨k, hk, ty'⟩ | ⟨v, hk⟩ | ⟨l, hk⟩ | ⟨x, hk, _⟩
  · simp only [readsA, hk]; exact self_mem_reads ty'
  · simp [readsA, hk]
  · simp [readsA, hk]
  · simp only [readsA, hk]; exact mem_compReads.2 (Or.inl rfl)

theorem congrA {h h' : Heap} {c : Nat} (ty : TypedA h c)
    (same : ∀ r ∈ readsA h c, h'.cells r = h.cells r) :
    obsA h' c = obsA h c ∧ readsA h' c = readsA h c ∧ ownedA h' c = ownedA h c ∧ TypedA h' c := by
  have hc := same c (self_mem_readsA ty)
  rcases typedA_cases ty with ⟨k, hk, ty'⟩ | ⟨v, hk⟩ | ⟨l, hk⟩ | ⟨x, hk, ty'⟩
  · have hk' : h'.cells c = some (.coll k) := by rw [hc]; exact hk
    have same' : ∀ r ∈ reads h c, h'.cells r = h.cells r := by
      intro r hr; apply same; simp only [readsA, hk]; exact hr
    obtain ⟨o1, o2, o3, o4⟩ := obs_congr ty' same'
    simp only [obsA, readsA, ownedA, TypedA, hk, hk']
    exact ⟨by rw [o1], o2, o3, o4⟩
  · have hk' : h'.cells c = some (.vals v false) := by rw [hc]; exact hk
    simp [obsA, readsA, ownedA, TypedA, hk, hk']
  · have hk' : h'.cells c = some (.args l) := by rw [hc]; exact hk
    simp [obsA, readsA, ownedA, TypedA, hk, hk']
  · have hk' : h'.cells c = some (.comp x) := by rw [hc]; exact hk
    have same' : ∀ r ∈ compReads h c x, h'.cells r = h.cells r := by
      intro r hr; apply same; simp only [readsA, hk]; exact hr
    obtain ⟨⟨m, hm, hn⟩, hsh, hmem, hsep, hmd⟩ := ty'
    have smd : h'.cells x.md = some (.md m) := by
      rw [same' x.md (mem_compReads.2 (Or.inr (Or.inl rfl)))]; exact hm
    have mra : mdRefsAt h x.md = mdRefs m := by simp [mdRefsAt, hm]
    have mra' : mdRefsAt h' x.md = mdRefs m := by simp [mdRefsAt, smd]
    have sn : ∀ r ∈ mdRefs m, h'.cells r = h.cells r :=
      fun r hr => same' r (mem_compReads.2 (Or.inr (Or.inr (Or.inl (by rw [mra]; exact hr)))))
    have ssh : ∀ r ∈ x.shared, h'.cells r = h.cells r :=
      fun r hr => same' r (mem_compReads.2 (Or.inr (Or.inr (Or.inr (Or.inl hr)))))
    have smem : ∀ mb ∈ x.members, obs h' mb = obs h mb ∧ reads h' mb = reads h mb ∧
        owned h' mb = owned h mb ∧ Typed h' mb :=
      fun mb hmb => obs_congr (hmem mb hmb) fun r hr =>
        same' r (mem_compReads.2 (Or.inr (Or.inr (Or.inr (Or.inr ⟨mb, hmb, hr⟩)))))
    have ro : compReads h' c x = compReads h c x ∧ compOwned h' c x = compOwned h c x := by
      simp only [compReads, compOwned, mra, mra']
      rw [flatMap_congr' (fun mb hmb => (smem mb hmb).2.1), flatMap_congr' (fun mb hmb => (smem mb hmb).2.2.1)]
      exact ⟨rfl, rfl⟩
    have ob : obsComp h' x = obsComp h x := by
      simp only [obsComp, hm, smd, obsMeta_congr sn]
      congr 1
      · apply List.map_congr_left
        intro r hr; simp only [getLoc, ssh r hr]
      · apply List.map_congr_left
        intro mb hmb; exact (smem mb hmb).1
    simp only [obsA, readsA, ownedA, TypedA, hk, hk']
    refine ⟨by rw [ob], ro.1, ro.2, ⟨m, smd, fun r hr => ?_⟩, fun r hr => ?_, fun mb hmb => (smem mb hmb).2.2.2,
      ?_, fun mb hmb => ?_⟩
    · obtain ⟨l, hl⟩ := hn r hr; exact ⟨l, by rw [sn r hr]; exact hl⟩
    · obtain ⟨t, ht⟩ := hsh r hr; exact ⟨t, by rw [ssh r hr]; exact ht⟩
    · intro a ha b hb nab r hr hr'
      change r ∈ owned h' a at hr
      change r ∈ reads h' b at hr'
      rw [(smem a ha).2.2.1] at hr
      rw [(smem b hb).2.1] at hr'
      exact hsep a ha b hb nab r hr hr'
    · rw [(smem mb hmb).2.1, mra']
      rw [mra] at hmd
      exact hmd mb hmb

theorem ltA {h : Heap} {c : Nat} (wf : WF h) (ty : TypedA h c) : ∀ r ∈ readsA h c, r < h.next := by
  rcases typedA_cases ty with ⟨k, hk, ty'⟩ | ⟨v, hk⟩ | ⟨l, hk⟩ | ⟨x, hk, ty'⟩
  · simp only [readsA, hk]; exact reads_lt wf ty'
  · simp only [readsA, hk]; intro r hr
    simp only [List.mem_cons, List.not_mem_nil, or_false] at hr; subst hr; exact lt_next_of_some wf hk
  · simp only [readsA, hk]; intro r hr
    simp only [List.mem_cons, List.not_mem_nil, or_false] at hr; subst hr; exact lt_next_of_some wf hk
  · simp only [readsA, hk]; intro r hr
    obtain ⟨⟨m, hm, hn⟩, hsh, hmem, _, _⟩ := ty'
    rcases mem_compReads.1 hr with h1 | h1 | h1 | h1 | ⟨mb, hmb, h1⟩
    · rw [h1]; exact lt_next_of_some wf hk
    · rw [h1]; exact lt_next_of_some wf hm
    · simp only [mdRefsAt, hm] at h1
      obtain ⟨l, hl⟩ := hn r h1; exact lt_next_of_some wf hl
    · obtain ⟨t, ht⟩ := hsh r h1; exact lt_next_of_some wf ht
    · exact reads_lt wf (hmem mb hmb) r h1

theorem subA {h : Heap} {c : Nat} : ∀ r ∈ ownedA h c, r ∈ readsA h c := by
  unfold ownedA readsA
  split
  · exact owned_sub_reads
  · exact fun _ hr => hr
  · exact fun _ hr => hr
  · intro r hr
    rcases mem_compOwned.1 hr with h1 | h1 | h1 | ⟨mb, hmb, h1⟩
    · exact mem_compReads.2 (Or.inl h1)
    · exact mem_compReads.2 (Or.inr (Or.inl h1))
    · exact mem_compReads.2 (Or.inr (Or.inr (Or.inl h1)))
    · exact mem_compReads.2 (Or.inr (Or.inr (Or.inr (Or.inr ⟨mb, hmb, owned_sub_reads r h1⟩))))
  · exact fun _ hr => hr

theorem kindA {h : Heap} {c : Nat} (ty : TypedA h c) : ∀ r ∈ ownedA h c, ¬ Shareable h r := by
  rcases typedA_cases ty with ⟨k, hk, ty'⟩ | ⟨v, hk⟩ | ⟨l, hk⟩ | ⟨x, hk, ty'⟩
  rotate_right
  · simp only [ownedA, hk]; intro r hr sh
    obtain ⟨⟨m, hm, hn⟩, _, hmem, _, _⟩ := ty'
    rcases mem_compOwned.1 hr with h1 | h1 | h1 | ⟨mb, hmb, h1⟩
    · subst h1; rcases sh with ⟨_, e⟩ | ⟨_, e⟩ | ⟨_, e⟩ <;> rw [hk] at e <;> cases e
    · subst h1; rcases sh with ⟨_, e⟩ | ⟨_, e⟩ | ⟨_, e⟩ <;> rw [hm] at e <;> cases e
    · simp only [mdRefsAt, hm] at h1
      obtain ⟨l, hl⟩ := hn r h1
      rcases sh with ⟨_, e⟩ | ⟨_, e⟩ | ⟨_, e⟩ <;> rw [hl] at e <;> cases e
    · exact owned_kind (hmem mb hmb) r h1 sh
  · simp only [ownedA, hk]; exact owned_kind ty'
  · simp only [ownedA, hk]; intro r hr sh
    simp only [List.mem_cons, List.not_mem_nil, or_false] at hr; subst hr
    rcases sh with ⟨_, e⟩ | ⟨_, e⟩ | ⟨_, e⟩ <;> rw [hk] at e <;> cases e
  · simp only [ownedA, hk]; intro r hr sh
    simp only [List.mem_cons, List.not_mem_nil, or_false] at hr; subst hr
    rcases sh with ⟨_, e⟩ | ⟨_, e⟩ | ⟨_, e⟩ <;> rw [hk] at e <;> cases e

/-- The footprint system of all live objects. -/
def anyFP : FP ObsAny where
  reads := readsA
  owned := ownedA
  Typed := TypedA
  obs := obsA
  congr := fun ty same => congrA ty same
  lt := fun wf ty => ltA wf ty
  sub := subA
  kind := fun ty => kindA ty

/-! ### lifting collection-level facts -/

theorem anyA_of_coll {h : Heap} {c : Nat} (ty : Typed h c) :
    readsA h c = reads h c ∧ ownedA h c = owned h c ∧ TypedA h c ∧ obsA h c = .coll (obs h c) := by
  obtain ⟨k, hd, m, a, v, t, e1, _⟩ := id ty
  exact ⟨by simp [readsA, e1], by simp [ownedA, e1], by simpa [TypedA, e1] using ty, by simp [obsA, e1]⟩

/-- A typed object of `anyFP` that is a collection is a typed collection. -/
theorem typed_of_typedA {h : Heap} {c : Nat} {k : Coll} (hk : h.cells c = some (.coll k))
    (ty : TypedA h c) : Typed h c := by
  simpa only [TypedA, hk] using ty

theorem localA_of_coll {h h' : Heap} {a : Nat} (ty : Typed h a) (loc : Local collFP h h' a) :
    Local anyFP h h' a := by
  have A := anyA_of_coll ty
  have A' := anyA_of_coll (h := h') (c := a) loc.typed
  refine ⟨loc.wf, ?_, A'.2.2.1, ?_, ?_⟩
  · intro r hr ho; exact loc.frame r hr (by change r ∉ owned h a; rw [← A.2.1]; exact ho)
  · intro r hr
    have : r ∈ owned h' a := by rw [← A'.2.1]; exact hr
    rcases loc.owned_sub r this with h1 | h1
    · left; change r ∈ ownedA h a; rw [A.2.1]; exact h1
    · exact Or.inr h1
  · intro r hr
    have : r ∈ reads h' a := by rw [← A'.1]; exact hr
    rcases loc.reads_sub r this with h1 | h1
    · left; change r ∈ readsA h a; rw [A.1]; exact h1
    · exact Or.inr h1

theorem freshA_of_coll {h h' : Heap} {c : Nat} (fr : Fresh collFP h h' c) : Fresh anyFP h h' c := by
  have A' := anyA_of_coll (h := h') (c := c) fr.typed
  refine ⟨fr.ext, fr.wf, A'.2.2.1, fr.self_new, ?_, ?_⟩
  · intro r hr; exact fr.owned_new r (by change r ∈ owned h' c; rw [← A'.2.1]; exact hr)
  · intro r hr; exact fr.reads_new r (by change r ∈ reads h' c; rw [← A'.1]; exact hr)

/-- A new plain cell (a list the caller creates, an argument list) is a fresh object. -/
theorem freshA_alloc {h : Heap} (wf : WF h) (x : Cell)
    (hx : (∃ v, x = .vals v false) ∨ (∃ l, x = .args l)) :
    Fresh anyFP h (h.alloc x).1 (h.alloc x).2 := by
  have g := alloc_get h x
  have rd : readsA (h.alloc x).1 (h.alloc x).2 = [(h.alloc x).2] ∧
      ownedA (h.alloc x).1 (h.alloc x).2 = [(h.alloc x).2] ∧ TypedA (h.alloc x).1 (h.alloc x).2 := by
    rcases hx with ⟨v, rfl⟩ | ⟨l, rfl⟩ <;> simp [readsA, ownedA, TypedA, g]
  refine ⟨alloc_ext h x, alloc_wf wf x, rd.2.2, Nat.le_refl _, ?_, ?_⟩
  · intro r hr
    change r ∈ ownedA _ _ at hr
    rw [rd.2.1] at hr
    simp only [List.mem_cons, List.not_mem_nil, or_false] at hr
    rw [hr]; exact Nat.le_refl _
  · intro r hr
    change r ∈ readsA _ _ at hr
    rw [rd.1] at hr
    simp only [List.mem_cons, List.not_mem_nil, or_false] at hr
    left; rw [hr]; exact Nat.le_refl _

/-- The caller editing his own list is a local step on that list. -/
theorem mutList_local {h h' : Heap} {c : Nat} {op : LOp} (wf : WF h) (e : mutList h c op = .ok h') :
    Local anyFP h h' c := by
  unfold mutList at e
  split at e
  · rename_i v hk
    have own : ownedA h c = [c] ∧ readsA h c = [c] := by simp [ownedA, readsA, hk]
    have key : ∀ v', h' = h.write c (.vals v' false) → Local anyFP h h' c := by
      intro v' e'
      subst e'
      have g := write_same h c (.vals v' false)
      refine ⟨write_wf wf _ (lt_next_of_some wf hk), ?_, ?_, ?_, ?_⟩
      · intro r _ ho
        have : r ≠ c := by
          intro e''; apply ho; change r ∈ ownedA h c; rw [own.1, e'']; simp
        exact write_other h _ this
      · simp [anyFP, TypedA, g]
      · intro r hr
        change r ∈ ownedA _ _ at hr
        simp only [ownedA, g, List.mem_cons, List.not_mem_nil, or_false] at hr
        left; change r ∈ ownedA h c; rw [own.1, hr]; simp
      · intro r hr
        change r ∈ readsA _ _ at hr
        simp only [readsA, g, List.mem_cons, List.not_mem_nil, or_false] at hr
        left; change r ∈ readsA h c; rw [own.2, hr]; simp
    cases op with
    | append x => exact key _ (Except.ok.inj e).symm
    | set i x =>
      simp only at e
      repeat' (split at e)
      all_goals first | exact key _ (Except.ok.inj e).symm | cases e
  · cases e

end LbHeap
