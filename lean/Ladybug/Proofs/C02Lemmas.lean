/-
  Helper lemmas for C02, part 1 (no Mathlib): the search loops are `List.filter`; whole-day
  analysis periods enumerate an arithmetic progression (cyclic through the year end), derived from
  the C04 theorems (membership ↔ `Pred`, strict order) by uniqueness of strictly increasing lists.
-/
import Ladybug.Model.Filter
import Ladybug.Proofs.C04Lemmas

open Cal

namespace Filter

/-! ### The loops are filters -/

theorem slow_eq_filter {α : Type} (req : List Int) (ps : List (Nat × α)) :
    slow req ps = ps.filter fun p => decide ((p.1 : Int) ∈ req) := by
  induction ps with
  | nil => rfl
  | cons p ps ih =>
    unfold slow
    by_cases h : (p.1 : Int) ∈ req <;> simp [h, ih]

theorem keyFilter_eq_filter {κ α : Type} [DecidableEq κ] (req : List κ) (ps : List (κ × α)) :
    keyFilter req ps = ps.filter fun p => decide (p.1 ∈ req) := by
  induction ps with
  | nil => rfl
  | cons p ps ih =>
    unfold keyFilter
    by_cases h : p.1 ∈ req <;> simp [h, ih]

theorem patternKeep_eq {β : Type} (pat : List Bool) (l : List β) : ∀ i,
    patternKeep pat i l =
      ((l.zipIdx i).filter fun x => pat.getD (x.2 % pat.length) false).map Prod.fst := by
  induction l with
  | nil => intro i; rfl
  | cons x xs ih =>
    intro i
    unfold patternKeep
    rw [List.zipIdx_cons]
    by_cases h : pat.getD (i % pat.length) false = true
    · rw [if_pos h, List.filter_cons, if_pos (by exact h), List.map_cons, ih]
    · rw [if_neg h, List.filter_cons, if_neg (by exact h), ih]

/-! ### Strictly increasing lists are determined by their members -/

theorem eq_of_sorted_of_mem_iff : ∀ (l₁ l₂ : List Nat), l₁.Pairwise (· < ·) → l₂.Pairwise (· < ·) →
    (∀ m, m ∈ l₁ ↔ m ∈ l₂) → l₁ = l₂
  | [], [], _, _, _ => rfl
  | [], b :: _, _, _, h => by have := (h b).mpr (by simp); simp at this
  | a :: _, [], _, _, h => by have := (h a).mp (by simp); simp at this
  | a :: t₁, b :: t₂, s₁, s₂, h => by
    rw [List.pairwise_cons] at s₁ s₂
    have hab : a = b := by
      have h1 := (h a).mp (by simp)
      have h2 := (h b).mpr (by simp)
      rw [List.mem_cons] at h1 h2
      rcases h1 with h1 | h1
      · exact h1
      · rcases h2 with h2 | h2
        · exact h2.symm
        · have := s₂.1 a h1
          have := s₁.1 b h2
          omega
    subst hab
    congr 1
    apply eq_of_sorted_of_mem_iff t₁ t₂ s₁.2 s₂.2
    intro m
    constructor
    · intro hm
      have := (h m).mp (List.mem_cons_of_mem _ hm)
      rw [List.mem_cons] at this
      rcases this with e | e
      · have := s₁.1 m hm; omega
      · exact e
    · intro hm
      have := (h m).mpr (List.mem_cons_of_mem _ hm)
      rw [List.mem_cons] at this
      rcases this with e | e
      · have := s₂.1 m hm; omega
      · exact e

/-! ### Whole-day periods are arithmetic progressions -/

theorem inWindow_wholeDay (ap : AP) (h0 : ap.st_hour = 0) (h23 : ap.end_hour = 23) (x : Nat) :
    ap.inWindow x := by
  unfold AP.inWindow
  rw [if_pos (by omega)]
  exact Or.inr ⟨h0, h23⟩

/-- Facts about the 12 valid steps, with the step as a literal for `omega`. -/
theorem step_cases (ap : AP) (hts : ap.timestep ∈ Gen.Ap.validTimesteps) :
    (ap.timestep = 1 ∧ ap.step = 60) ∨ (ap.timestep = 2 ∧ ap.step = 30) ∨ (ap.timestep = 3 ∧ ap.step = 20) ∨
    (ap.timestep = 4 ∧ ap.step = 15) ∨ (ap.timestep = 5 ∧ ap.step = 12) ∨ (ap.timestep = 6 ∧ ap.step = 10) ∨
    (ap.timestep = 10 ∧ ap.step = 6) ∨ (ap.timestep = 12 ∧ ap.step = 5) ∨ (ap.timestep = 15 ∧ ap.step = 4) ∨
    (ap.timestep = 20 ∧ ap.step = 3) ∨ (ap.timestep = 30 ∧ ap.step = 2) ∨ (ap.timestep = 60 ∧ ap.step = 1) := by
  unfold AP.step
  rcases AP.ts_cases hts with h | h | h | h | h | h | h | h | h | h | h | h <;> simp [h]

/-- A segment of a whole-day period that starts and ends on the hour (end hour 23) is the
    arithmetic progression from the start to the end of the end hour. -/
theorem segment_eq_range' (ap : AP) (hwf : ap.WF) (h0 : ap.st_hour = 0) (h23 : ap.end_hour = 23)
    (st en : Nat) (hst : st % 60 = 0) (hen : en % 60 = 0) (hle : st ≤ en) (hh : en / 60 % 24 = 23) :
    ap.segment st en = List.range' st ((en + 60 - st) / ap.step) ap.step := by
  have hS := AP.step_pos ap hwf.2.2
  apply eq_of_sorted_of_mem_iff _ _ (AP.segment_sorted ap hwf st en) (List.pairwise_lt_range' ap.step hS)
  intro m
  rw [AP.mem_segment ap hwf st en hst hen hle (Or.inl hh), List.mem_range']
  have hw := inWindow_wholeDay ap h0 h23 (m % 1440)
  rcases step_cases ap hwf.2.2 with h | h | h | h | h | h | h | h | h | h | h | h <;>
    obtain ⟨_, hT⟩ := h <;> rw [hT] <;> constructor
  all_goals first
    | (rintro ⟨h1, h2, h3, _⟩; refine ⟨(m - st) / ap.step, ?_, ?_⟩ <;> rw [hT] <;> omega)
    | (rintro ⟨i, hi, rfl⟩; exact ⟨by omega, by omega, by omega, hw⟩)

/-- Number of steps and the enumeration of a whole-day period, non-wrapping. -/
theorem moys_wholeDay_fwd (ap : AP) (hwf : ap.WF) (h0 : ap.st_hour = 0) (h23 : ap.end_hour = 23)
    (hr : ap.isReversed = false) :
    ap.moys = List.range' ap.stMoy ((ap.endMoy + 60 - ap.stMoy) / ap.step) ap.step := by
  obtain ⟨hs, he, m1, m2, m3, m4, m5, m6, hrev⟩ := AP.moment_facts ap hwf
  unfold AP.moys
  rw [if_pos hr]
  exact segment_eq_range' ap hwf h0 h23 _ _ m1 m2 (hrev.mp hr) (by omega)

/-- … and wrapping the year end: the run to the end of the year, then the run from its start. -/
theorem moys_wholeDay_rev (ap : AP) (hwf : ap.WF) (h0 : ap.st_hour = 0) (h23 : ap.end_hour = 23)
    (hr : ap.isReversed = true) :
    ap.moys = List.range' ap.stMoy ((minutesInYear ap.leap - ap.stMoy) / ap.step) ap.step ++
      List.range' 0 ((ap.endMoy + 60) / ap.step) ap.step := by
  obtain ⟨hs, he, m1, m2, m3, m4, m5, m6, hrev⟩ := AP.moment_facts ap hwf
  obtain ⟨l1, l2, l3, l4⟩ := AP.lastHour_facts ap.leap
  have hnr : ¬ ap.isReversed = false := by simp [hr]
  unfold AP.moys
  rw [if_neg hnr, segment_eq_range' ap hwf h0 h23 _ _ m1 l1 (by omega) l2,
    segment_eq_range' ap hwf h0 h23 _ _ (by rw [l4]) m2 (by rw [l4]; omega) (by omega), l4, l3,
    Nat.sub_zero]

/-- The steps of a whole-day period, by position: step `k` is minute `(start + k·step) mod year`;
    the number of steps times the step is the span of the period. -/
theorem moys_getElem (ap : AP) (hwf : ap.WF) (h0 : ap.st_hour = 0) (h23 : ap.end_hour = 23) :
    (ap.moys.length * ap.step =
        if ap.stMoy ≤ ap.endMoy then ap.endMoy + 60 - ap.stMoy
        else minutesInYear ap.leap - ap.stMoy + (ap.endMoy + 60)) ∧
    ∀ k, k < ap.moys.length → ap.moys[k]? = some ((ap.stMoy + k * ap.step) % minutesInYear ap.leap) := by
  obtain ⟨hs, he, m1, m2, m3, m4, m5, m6, hrev⟩ := AP.moment_facts ap hwf
  have hN : minutesInYear ap.leap = 525600 ∨ minutesInYear ap.leap = 527040 := by
    unfold minutesInYear daysInYear; cases ap.leap <;> simp
  by_cases hr : ap.isReversed = false
  · have hle := hrev.mp hr
    rw [moys_wholeDay_fwd ap hwf h0 h23 hr, List.length_range', if_pos hle]
    rcases step_cases ap hwf.2.2 with h | h | h | h | h | h | h | h | h | h | h | h <;> rw [h.2] <;>
      refine ⟨by omega, ?_⟩ <;> intro k hk <;> rw [List.getElem?_range' hk] <;> congr 1 <;>
      rw [Nat.mod_eq_of_lt (by omega)] <;> omega
  · have hr' : ap.isReversed = true := by simpa using hr
    have hlt : ¬ ap.stMoy ≤ ap.endMoy := fun h => hr (hrev.mpr h)
    rw [moys_wholeDay_rev ap hwf h0 h23 hr', List.length_append, List.length_range', List.length_range',
      if_neg hlt]
    rcases hN with hN | hN <;> simp only [hN] at m5 m6 ⊢ <;>
    rcases step_cases ap hwf.2.2 with h | h | h | h | h | h | h | h | h | h | h | h <;> rw [h.2] <;>
      refine ⟨by omega, ?_⟩ <;> intro k hk <;> rw [List.getElem?_append, List.length_range'] <;>
      split <;> rename_i hk1
    all_goals first
      | (rw [List.getElem?_range' hk1]; congr 1; rw [Nat.mod_eq_of_lt (by omega)]; omega)
      | (rw [List.getElem?_range' (by omega)]; congr 1; omega)

end Filter
