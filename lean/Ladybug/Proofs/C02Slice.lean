/-
  Helper lemmas for C02, part 3 (no Mathlib): the slice of the continuous period filter.
  Cyclic coordinates: the offset of a minute `m` from the start `S` of a whole-day period is
  `(m + N − S) mod N`; the period holds the minutes on its grid whose offset is below its span.
-/
import Ladybug.Proofs.C02Index
import Ladybug.Proofs.C02Cyclic

open Cal

namespace Filter

/-- The integer part of the slice bounds: `int(x / t_s − src_ind) % yr_len` is the cyclic offset of
    the minute `x` from the start of the collection, in steps. -/
theorem arith_idx (x S T ts N : Nat) (Y : Int)
    (hT : (ts = 1 ∧ T = 60) ∨ (ts = 2 ∧ T = 30) ∨ (ts = 3 ∧ T = 20) ∨ (ts = 4 ∧ T = 15) ∨ (ts = 5 ∧ T = 12) ∨
      (ts = 6 ∧ T = 10) ∨ (ts = 10 ∧ T = 6) ∨ (ts = 12 ∧ T = 5) ∨ (ts = 15 ∧ T = 4) ∨ (ts = 20 ∧ T = 3) ∨
      (ts = 30 ∧ T = 2) ∨ (ts = 60 ∧ T = 1))
    (hN : N = 525600 ∨ N = 527040) (hY : Y * (T : Int) = (N : Int)) (hx : x % 60 = 0) (hS : S % 60 = 0)
    (hxN : x < N) (hSN : S < N) :
    ((x : Int) - (S : Int)) / (T : Int) % Y = (((x + N - S) % N / T : Nat) : Int) ∧
    (x : Int) - (S : Int) = ((x : Int) - (S : Int)) / (T : Int) * (T : Int) := by
  have hYv : Y = (N : Int) / (T : Int) := by
    rcases hT with h | h | h | h | h | h | h | h | h | h | h | h <;> obtain ⟨h1, h2⟩ := h <;> subst h1 h2 <;>
      rcases hN with hN | hN <;> subst hN <;> omega
  rcases hT with h | h | h | h | h | h | h | h | h | h | h | h <;> obtain ⟨h1, h2⟩ := h <;> subst h1 h2 <;>
    rcases hN with hN | hN <;> subst hN <;> simp at hYv <;>
    subst hYv <;> constructor <;> omega

theorem slice_idx (src f : AP) (hs : src.WF) (hf : f.WF) (hl : f.leap = src.leap) (x : Nat)
    (hx : x % 60 = 0) (hxN : x < minutesInYear f.leap) :
    Py.mod (Py.truncRat (((x : Int) : Rat) / tS f - (src.stMoy : Rat) / tS f)) (yearSteps f) =
      (((x + minutesInYear f.leap - src.stMoy) % minutesInYear f.leap / f.step : Nat) : Int) := by
  obtain ⟨_, _, s1, _, _, _, s5, _, _⟩ := AP.moment_facts src hs
  obtain ⟨htS, hpos⟩ := tS_eq f hf.2.2
  obtain ⟨hY, hYpos⟩ := yearSteps_mul f hf.2.2
  have hN : minutesInYear f.leap = 525600 ∨ minutesInYear f.leap = 527040 := by
    unfold minutesInYear daysInYear; cases f.leap <;> simp
  rw [← hl] at s5
  obtain ⟨e1, e2⟩ := arith_idx x src.stMoy f.step f.timestep (minutesInYear f.leap) (yearSteps f)
    (step_cases f hf.2.2) hN hY hx s1 hxN (by omega)
  rw [idx_sub (x : Int) src.stMoy _ (f.step : Int) _ htS hpos e2]
  unfold Py.mod
  rw [Int.fmod_eq_emod_of_nonneg _ (Int.le_of_lt hYpos)]
  exact e1

/-- **The whole-day continuous period filter.**  Proof: positions in the collection are counted in
    steps around the year (`cyc`); the filter's step `k` sits at position `(a + k) mod Y` where `a` is the
    position of the filter's first step; the rational index arithmetic computes `a` and the position
    of the filter's last hour (`slice_idx`, `cyc_offset`); `sliceVals_cyc` does the rest. -/
theorem cont_period {α : Type} (c : Cont α) (hc : c.WF) (f : AP) (hchk : checkAP c.ap f = true)
    (hday : (apSubset c.ap f).st_hour = 0 ∧ (apSubset c.ap f).end_hour = 23)
    (hwf : (apSubset c.ap f).WF) (hin : ∀ m ∈ (apSubset c.ap f).moys, m ∈ c.ap.moys) :
    ∃ vs : List α, Cont.filterByAP f c = .ok (.cont ⟨apSubset c.ap f, vs⟩) ∧
      vs.length = (apSubset c.ap f).moys.length ∧
      ∀ (k m : Nat) (v : α), (apSubset c.ap f).moys[k]? = some m → vs[k]? = some v → (m, v) ∈ c.pairs := by
  have hkeep : (apSubset c.ap f).leap = c.ap.leap ∧ (apSubset c.ap f).timestep = c.ap.timestep := by
    have h1 : (apSubset c.ap f).leap = f.leap ∧ (apSubset c.ap f).timestep = f.timestep := by
      unfold apSubset; split <;> exact ⟨rfl, rfl⟩
    unfold checkAP at hchk
    simp at hchk
    exact ⟨by rw [h1.1, hchk.2], by rw [h1.2, hchk.1]⟩
  have hred : Cont.filterByAP f c = (Cont.mk? (apSubset c.ap f) (sliceVals c.vals
      (sliceStart c.ap (apSubset c.ap f)) (sliceEnd c.ap (apSubset c.ap f)))).map Res.cont := by
    unfold Cont.filterByAP
    rw [if_neg (by simp [hchk])]
    simp only []
    rw [if_pos hday]
  rw [hred]
  generalize apSubset c.ap f = f' at hday hwf hin hkeep ⊢
  obtain ⟨hleap, htseq⟩ := hkeep
  obtain ⟨hwfs, h0s, h23s, hlen⟩ := hc
  have hstep : f'.step = c.ap.step := by unfold AP.step; rw [htseq]
  obtain ⟨sp_s, get_s⟩ := moys_getElem c.ap hwfs h0s h23s
  obtain ⟨sp_f, get_f⟩ := moys_getElem f' hwf hday.1 hday.2
  rw [hleap, hstep] at sp_f get_f
  obtain ⟨_, _, s1, s2, _, _, s5, s6, _⟩ := AP.moment_facts c.ap hwfs
  obtain ⟨_, _, f1, f2, _, _, f5, f6, _⟩ := AP.moment_facts f' hwf
  rw [hleap] at f5 f6
  have hT : 0 < c.ap.step := AP.step_pos c.ap hwfs.2.2
  have tsT : c.ap.timestep * c.ap.step = 60 := (AP.ts_facts c.ap hwfs.2.2 0 0 rfl (Nat.le_refl _)).2.2.2.2.2
  have hts0 : 0 < c.ap.timestep := by
    apply Nat.pos_of_ne_zero; intro h; rw [h] at tsT; simp at tsT
  have hN1440 := AP.minutesInYear_mod c.ap.leap
  have hlenV : c.vals.length = c.ap.moys.length := by rw [hlen, AP.len_eq_length c.ap hwfs]
  -- names
  generalize hNdef : minutesInYear c.ap.leap = N at *
  generalize hTdef : c.ap.step = T at *
  generalize hSdef : c.ap.stMoy = S at *
  generalize hEdef : c.ap.endMoy = E at *
  generalize hSfdef : f'.stMoy = Sf at *
  generalize hEfdef : f'.endMoy = Ef at *
  generalize hndef : c.ap.moys.length = n at *
  generalize hLdef : f'.moys.length = L at *
  generalize htsdef : c.ap.timestep = ts at *
  let Y := 24 * daysInYear c.ap.leap * ts
  have hN : N = Y * T := by
    show N = 24 * daysInYear c.ap.leap * ts * T
    rw [Nat.mul_assoc (24 * daysInYear c.ap.leap) ts T, tsT, ← hNdef]
    unfold minutesInYear; omega
  -- spans
  have hW : n * T ≤ N := by split at sp_s <;> omega
  have hWf : L * T ≤ N ∧ 60 ≤ L * T ∧ (Sf + L * T = Ef + 60 ∨ Sf + L * T = Ef + 60 + N) := by
    split at sp_f <;> omega
  have hnY : n ≤ Y := Nat.le_of_mul_le_mul_right (by rw [← hN]; exact hW) hT
  have hLY : L ≤ Y := Nat.le_of_mul_le_mul_right (by rw [← hN]; exact hWf.1) hT
  have htsL : ts ≤ L := Nat.le_of_mul_le_mul_right (by rw [tsT]; exact hWf.2.1) hT
  have hSN : S < N := by omega
  -- position of the first filter step
  have hSfmem : Sf ∈ c.ap.moys := by rw [← hSfdef]; exact hin _ (stMoy_mem f' hwf)
  obtain ⟨a, ha, _, hSfa⟩ := pos_of_mem c.ap hwfs h0s h23s Sf hSfmem
  rw [hndef] at ha
  rw [hSdef, hTdef, hNdef] at hSfa
  have hSfa' : Sf = cyc S T N a := hSfa
  have haY : a < Y := Nat.lt_of_lt_of_le ha hnY
  have hfk : ∀ k, k < L → f'.moys[k]? = some (cyc S T N (a + k)) := by
    intro k hk
    rw [get_f k hk, ← cyc_shift, ← hSfa']
  have hgs : ∀ j, j < n → c.ap.moys[j]? = some (cyc S T N j) := fun j hj => get_s j hj
  have hidx : ∀ k, k < L → (a + k) % Y < n := by
    intro k hk
    have hm : cyc S T N (a + k) ∈ c.ap.moys := hin _ (List.mem_of_getElem? (hfk k hk))
    obtain ⟨j, hj, _, hjm⟩ := pos_of_mem c.ap hwfs h0s h23s _ hm
    rw [hndef] at hj
    rw [hSdef, hTdef, hNdef] at hjm
    have hYpos : 0 < Y := by omega
    have : (a + k) % Y = j :=
      cyc_inj S T N Y _ _ hN hSN hT (Nat.mod_lt _ hYpos) (by omega)
        (by rw [← cyc_mod S T N Y (a + k) hN]; exact hjm)
    omega
  -- whole hours are not split by the end of the cycle
  have hoffa := cyc_offset S T N Y a hN hSN haY hT
  rw [← hSfa'] at hoffa
  have haT60 : a * T % 60 = 0 := by
    rw [← hoffa]
    by_cases hle : S ≤ Sf
    · have : Sf + N - S = Sf - S + N := by omega
      rw [this, Nat.add_mod_right, Nat.mod_eq_of_lt (show Sf - S < N by omega)]; omega
    · rw [Nat.mod_eq_of_lt (show Sf + N - S < N by omega)]; omega
  have hsplit : a + L ≤ Y ∨ Y + ts ≤ a + L := by
    have h1 : (a + L) * T = a * T + L * T := Nat.add_mul _ _ _
    have h2 : (Y + ts) * T = N + 60 := by rw [Nat.add_mul, ← hN, tsT]
    have h3 : a * T + L * T ≤ N ∨ N + 60 ≤ a * T + L * T := by omega
    rcases h3 with h3 | h3
    · exact Or.inl (Nat.le_of_mul_le_mul_right (by rw [h1, ← hN]; exact h3) hT)
    · exact Or.inr (Nat.le_of_mul_le_mul_right (by rw [h1, h2]; exact h3) hT)
  -- the slice
  obtain ⟨hvl, hvk⟩ := sliceVals_cyc c.vals Y a L ts (by rw [hlenV]; exact hnY) hLY hts0 htsL haY hsplit
    (by rw [hlenV]; exact hidx)
  -- the computed bounds
  have hst : sliceStart c.ap f' = (a : Int) := by
    unfold sliceStart
    rw [slice_idx c.ap f' hwfs hwf hleap f'.stMoy (by rw [hSfdef]; exact f1) (by rw [hleap, hNdef, hSfdef]; omega),
      hleap, hstep, hSfdef, hSdef, hNdef, hoffa, Nat.mul_div_cancel _ hT]
  have hEf : Ef = cyc S T N ((a + L - ts) % Y) := by
    rw [← cyc_mod S T N Y _ hN]
    have hk : a + L - ts = a + (L - ts) := by omega
    rw [hk, ← cyc_shift, ← hSfa', Nat.sub_mul, tsT]
    rcases hWf.2.2 with h | h
    · have : Sf + (L * T - 60) = Ef := by omega
      rw [this, Nat.mod_eq_of_lt (by omega)]
    · have : Sf + (L * T - 60) = Ef + N := by omega
      rw [this, Nat.add_mod_right, Nat.mod_eq_of_lt (by omega)]
  have hYpos : 0 < Y := by omega
  have hoffe := cyc_offset S T N Y ((a + L - ts) % Y) hN hSN (Nat.mod_lt _ hYpos) hT
  rw [← hEf] at hoffe
  have hen : sliceEnd c.ap f' = (((a + L - ts) % Y + ts : Nat) : Int) := by
    unfold sliceEnd
    rw [slice_idx c.ap f' hwfs hwf hleap f'.endMoy (by rw [hEfdef]; exact f2) (by rw [hleap, hNdef, hEfdef]; omega),
      hleap, hstep, hEfdef, hSdef, hNdef, hoffe, Nat.mul_div_cancel _ hT, htseq]
    omega
  rw [hst, hen]
  refine ⟨_, ?_, hvl, ?_⟩
  · unfold Cont.mk?
    rw [if_pos ⟨hday.1, hday.2, by rw [hvl, AP.len_eq_length f' hwf, hLdef]⟩]
    rfl
  · intro k m v hm hv
    have hk : k < L := by
      rcases Nat.lt_or_ge k L with h | h
      · exact h
      · rw [List.getElem?_eq_none (by rw [hLdef]; exact h)] at hm; cases hm
    have hm' := hfk k hk
    rw [hm] at hm'
    injection hm' with hm'
    rw [hvk k hk] at hv
    have hpos := hgs _ (hidx k hk)
    rw [← cyc_mod S T N Y (a + k) hN, ← hm'] at hpos
    unfold Cont.pairs
    rw [List.mem_iff_getElem?]
    exact ⟨(a + k) % Y, by rw [List.getElem?_zip_eq_some]; exact ⟨hpos, hv⟩⟩

end Filter
