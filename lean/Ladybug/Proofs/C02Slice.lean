/-
  Helper lemmas for C02, part 3 (no Mathlib): the slice of the continuous period filter.
  Cyclic coordinates: the offset of a minute `m` from the start `S` of a whole-day period is
  `(m + N − S) mod N`; the period holds the minutes on its grid whose offset is below its span.
-/
import Ladybug.Proofs.C02Index

open Cal

namespace Filter

/-- Membership in a whole-day period in cyclic coordinates. -/
theorem mem_cyc (ap : AP) (hwf : ap.WF) (h0 : ap.st_hour = 0) (h23 : ap.end_hour = 23) (m : Nat) :
    m ∈ ap.moys ↔ m < minutesInYear ap.leap ∧ m % ap.step = 0 ∧
      (m + minutesInYear ap.leap - ap.stMoy) % minutesInYear ap.leap < ap.moys.length * ap.step := by
  obtain ⟨hs, he, m1, m2, m3, m4, m5, m6, hrev⟩ := AP.moment_facts ap hwf
  obtain ⟨hspan, _⟩ := moys_getElem ap hwf h0 h23
  have hN : minutesInYear ap.leap = 525600 ∨ minutesInYear ap.leap = 527040 := by
    unfold minutesInYear daysInYear; cases ap.leap <;> simp
  rw [AP.mem_moys ap hwf]
  unfold AP.Pred
  have hw := inWindow_wholeDay ap h0 h23 (m % 1440)
  rcases hN with hN | hN <;> simp only [hN] at m5 m6 hspan ⊢ <;> split at hspan <;>
    constructor <;> (try rintro ⟨a1, a2, _, a4⟩) <;> (try rintro ⟨a1, a2, a4⟩) <;>
    refine ⟨a1, a2, ?_⟩ <;> (try refine ⟨hw, ?_⟩) <;> omega

/-- The integer part of the slice bounds: `int(x / t_s − src_ind) % yr_len` is the cyclic offset of
    the minute `x` from the start of the collection, in steps. -/
theorem arith_idx (x S T ts N : Nat) (Y : Int)
    (hT : (ts = 1 ∧ T = 60) ∨ (ts = 2 ∧ T = 30) ∨ (ts = 3 ∧ T = 20) ∨ (ts = 4 ∧ T = 15) ∨ (ts = 5 ∧ T = 12) ∨
      (ts = 6 ∧ T = 10) ∨ (ts = 10 ∧ T = 6) ∨ (ts = 12 ∧ T = 5) ∨ (ts = 15 ∧ T = 4) ∨ (ts = 20 ∧ T = 3) ∨
      (ts = 30 ∧ T = 2) ∨ (ts = 60 ∧ T = 1))
    (hN : N = 525600 ∨ N = 527040) (hY : Y * (T : Int) = (N : Int)) (hx : x % 60 = 0) (hS : S % 60 = 0)
    (hxN : x < N) (hSN : S < N) :
    ((x : Int) - (S : Int)) / (T : Int) % Y = (((x + N - S) % N / T : Nat) : Int) ∧
    (x : Int) - (S : Int) = ((x : Int) - (S : Int)) / (T : Int) * (T : Int) := by
  have hYv : Y = (N : Int) / (T : Int) := by
    rcases hT with h | h | h | h | h | h | h | h | h | h | h | h <;> obtain ⟨h1, h2⟩ := h <;> subst h1 h2 <;>
      rcases hN with hN | hN <;> subst hN <;> omega
  rcases hT with h | h | h | h | h | h | h | h | h | h | h | h <;> obtain ⟨h1, h2⟩ := h <;> subst h1 h2 <;>
    rcases hN with hN | hN <;> subst hN <;> simp at hYv <;>
    subst hYv <;> constructor <;> omega

theorem slice_idx (src f : AP) (hs : src.WF) (hf : f.WF) (hl : f.leap = src.leap) (x : Nat)
    (hx : x % 60 = 0) (hxN : x < minutesInYear f.leap) :
    Py.mod (Py.truncRat (((x : Int) : Rat) / tS f - (src.stMoy : Rat) / tS f)) (yearSteps f) =
      (((x + minutesInYear f.leap - src.stMoy) % minutesInYear f.leap / f.step : Nat) : Int) := by
  obtain ⟨_, _, s1, _, _, _, s5, _, _⟩ := AP.moment_facts src hs
  obtain ⟨htS, hpos⟩ := tS_eq f hf.2.2
  obtain ⟨hY, hYpos⟩ := yearSteps_mul f hf.2.2
  have hN : minutesInYear f.leap = 525600 ∨ minutesInYear f.leap = 527040 := by
    unfold minutesInYear daysInYear; cases f.leap <;> simp
  rw [← hl] at s5
  obtain ⟨e1, e2⟩ := arith_idx x src.stMoy f.step f.timestep (minutesInYear f.leap) (yearSteps f)
    (step_cases f hf.2.2) hN hY hx s1 hxN (by omega)
  rw [idx_sub (x : Int) src.stMoy _ (f.step : Int) _ htS hpos e2]
  unfold Py.mod
  rw [Int.fmod_eq_emod_of_nonneg _ (Int.le_of_lt hYpos)]
  exact e1

/-! ### Python slices with natural bounds -/

theorem slice_nat {β : Type} (l : List β) (a b : Nat) (hab : a ≤ b) (hb : b ≤ l.length) :
    Py.slice l (a : Int) (b : Int) = (l.drop a).take (b - a) := by
  unfold Py.slice Py.clampIdx
  rw [if_pos (Int.natCast_nonneg a), if_pos (Int.natCast_nonneg b)]
  simp only [Int.toNat_natCast]
  rw [Nat.min_eq_left (show a ≤ l.length by omega), Nat.min_eq_left hb]

theorem slice_zero {β : Type} (l : List β) (b : Nat) (hb : b ≤ l.length) :
    Py.slice l 0 (b : Int) = l.take b := by
  have := slice_nat l 0 b (Nat.zero_le _) hb
  simpa using this

end Filter
