/-
  Helper lemmas for C03: the dictionary model, the datetime-keyed grouping and the loop of
  `_time_interval_operation`.  No Mathlib needed.
-/
import Ladybug.Model.Group

namespace Grp

variable {κ τ α β : Type} [DecidableEq κ]

/-- The dictionary whose keys are `keys` (in order) and whose value at `k` is `g k`. -/
def tab (keys : List κ) (g : κ → List α) : Dict κ α := keys.map fun k => (k, g k)

/-- Specification of one group: the values whose datetime has key `k`, in the order of the data. -/
def groupOf (key : τ → κ) (data : List (τ × α)) (k : κ) : List α :=
  (data.filter fun x => decide (key x.1 = k)).map (·.2)

omit [DecidableEq κ] in
theorem init_eq_tab (keys : List κ) : (Dict.init keys : Dict κ α) = tab keys (fun _ => []) := rfl

theorem get_tab (keys : List κ) (g : κ → List α) (k : κ) (hk : k ∈ keys) :
    (tab keys g).get? k = some (g k) := by
  induction keys with
  | nil => cases hk
  | cons a as ih =>
    simp only [tab, List.map_cons, Dict.get?]
    by_cases h : a = k
    · simp [h]
    · simp only [h, ↓reduceIte]
      rcases List.mem_cons.mp hk with h' | h'
      · exact absurd h'.symm h
      · exact ih h'

theorem get_tab_none (keys : List κ) (g : κ → List α) (k : κ) (hk : k ∉ keys) :
    (tab keys g).get? k = none := by
  induction keys with
  | nil => rfl
  | cons a as ih =>
    simp only [tab, List.map_cons, Dict.get?]
    have h1 : a ≠ k := fun h => hk (h ▸ List.mem_cons_self)
    simp only [h1, ↓reduceIte]
    exact ih (fun h => hk (List.mem_cons_of_mem _ h))

theorem getD_tab (keys : List κ) (g : κ → List α) (k : κ) (hk : k ∈ keys) :
    (tab keys g).getD k = g k := by
  simp [Dict.getD, get_tab keys g k hk]

theorem append_tab (keys : List κ) (hnd : keys.Nodup) (g : κ → List α) (k0 : κ) (v : α)
    (hk : k0 ∈ keys) :
    (tab keys g).append k0 v = some (tab keys fun k => if k = k0 then g k ++ [v] else g k) := by
  induction keys with
  | nil => cases hk
  | cons a as ih =>
    have hnd' := List.nodup_cons.mp hnd
    simp only [tab, List.map_cons, Dict.append]
    by_cases h : a = k0
    · subst h
      simp only [↓reduceIte, Option.some.injEq, List.cons.injEq, true_and]
      apply List.map_congr_left
      intro k hk'
      have : k ≠ a := fun e => hnd'.1 (e ▸ hk')
      simp [this]
    · simp only [h, ↓reduceIte]
      rcases List.mem_cons.mp hk with h' | h'
      · exact absurd h'.symm h
      · have := ih hnd'.2 h'
        simp only [tab] at this
        rw [this]
        simp

theorem append_tab_none (keys : List κ) (g : κ → List α) (k0 : κ) (v : α) (hk : k0 ∉ keys) :
    (tab keys g).append k0 v = none := by
  induction keys with
  | nil => rfl
  | cons a as ih =>
    simp only [tab, List.map_cons, Dict.append]
    have h1 : a ≠ k0 := fun h => hk (h ▸ List.mem_cons_self)
    simp only [h1, ↓reduceIte]
    have := ih (fun h => hk (List.mem_cons_of_mem _ h))
    simp only [tab] at this
    rw [this]; rfl

theorem set_tab (keys : List κ) (hnd : keys.Nodup) (g : κ → List α) (k0 : κ) (l : List α)
    (hk : k0 ∈ keys) :
    (tab keys g).set k0 l = tab keys fun k => if k = k0 then l else g k := by
  induction keys with
  | nil => cases hk
  | cons a as ih =>
    have hnd' := List.nodup_cons.mp hnd
    simp only [tab, List.map_cons, Dict.set]
    by_cases h : a = k0
    · subst h
      simp only [↓reduceIte, List.cons.injEq, true_and]
      apply List.map_congr_left
      intro k hk'
      have : k ≠ a := fun e => hnd'.1 (e ▸ hk')
      simp [this]
    · simp only [h, ↓reduceIte]
      rcases List.mem_cons.mp hk with h' | h'
      · exact absurd h'.symm h
      · have := ih hnd'.2 h'
        simp only [tab] at this
        rw [this]

/-- The fold of `keyed` started from any table. -/
theorem keyed_fold (keys : List κ) (hnd : keys.Nodup) (key : τ → κ) :
    ∀ (data : List (τ × α)) (g : κ → List α), (∀ x ∈ data, key x.1 ∈ keys) →
      data.foldlM (keyedStep key) (tab keys g)
        = .ok (tab keys fun k => g k ++ groupOf key data k) := by
  intro data
  induction data with
  | nil => intro g _; simp [groupOf, tab]; rfl
  | cons x xs ih =>
    intro g hall
    simp only [List.foldlM_cons, keyedStep]
    rw [append_tab keys hnd g (key x.1) x.2 (hall x List.mem_cons_self)]
    simp only [bind, Except.bind]
    rw [ih _ (fun y hy => hall y (List.mem_cons_of_mem _ hy))]
    congr 1
    apply List.map_congr_left
    intro k _
    simp only [groupOf, List.filter_cons]
    by_cases h : key x.1 = k
    · simp [h]
    · have h' : ¬ k = key x.1 := fun e => h e.symm
      simp [h, h']

/-- **The keyed algorithm computes the specification**: when every datetime has a key of the
    dictionary, the result lists – in key order – for each key the values of that key. -/
theorem keyed_ok (keys : List κ) (hnd : keys.Nodup) (key : τ → κ) (data : List (τ × α))
    (hall : ∀ x ∈ data, key x.1 ∈ keys) :
    keyed keys key data = .ok (tab keys (groupOf key data)) := by
  unfold keyed
  rw [init_eq_tab, keyed_fold keys hnd key data _ hall]
  simp

/-- A datetime whose key is not in the dictionary raises `KeyError`. -/
theorem keyed_error (keys : List κ) (hnd : keys.Nodup) (key : τ → κ) (data : List (τ × α))
    (hbad : ∃ x ∈ data, key x.1 ∉ keys) : keyed keys key data = .error .key := by
  unfold keyed
  rw [init_eq_tab]
  generalize (fun _ => ([] : List α)) = g
  induction data generalizing g with
  | nil => obtain ⟨x, hx, _⟩ := hbad; cases hx
  | cons y ys ih =>
    simp only [List.foldlM_cons, keyedStep]
    by_cases hy : key y.1 ∈ keys
    · rw [append_tab keys hnd g _ _ hy]
      simp only [bind, Except.bind]
      apply ih
      obtain ⟨x, hx, hxk⟩ := hbad
      rcases List.mem_cons.mp hx with h | h
      · exact absurd (h ▸ hy) hxk
      · exact ⟨x, h, hxk⟩
    · rw [append_tab_none keys g _ _ hy]
      rfl

/-! ### The groups partition the data -/

theorem mem_groupOf (key : τ → κ) (data : List (τ × α)) (k : κ) (v : α) :
    v ∈ groupOf key data k ↔ ∃ x ∈ data, x.2 = v ∧ key x.1 = k := by
  simp only [groupOf, List.mem_map, List.mem_filter, decide_eq_true_eq]
  constructor
  · rintro ⟨x, ⟨hx, hk⟩, hv⟩; exact ⟨x, hx, hv, hk⟩
  · rintro ⟨x, hx, hv, hk⟩; exact ⟨x, ⟨hx, hk⟩, hv⟩

theorem groupOf_sublist (key : τ → κ) (data : List (τ × α)) (k : κ) :
    (groupOf key data k).Sublist (data.map (·.2)) :=
  List.Sublist.map _ List.filter_sublist

theorem groupOf_append (key : τ → κ) (d₁ d₂ : List (τ × α)) (k : κ) :
    groupOf key (d₁ ++ d₂) k = groupOf key d₁ k ++ groupOf key d₂ k := by
  simp [groupOf]

/-- Concatenating the groups in key order gives a permutation of the values. -/
theorem groups_perm (key : τ → κ) : ∀ (keys : List κ), keys.Nodup → ∀ (data : List (τ × α)),
    (∀ x ∈ data, key x.1 ∈ keys) → (keys.flatMap (groupOf key data)).Perm (data.map (·.2)) := by
  intro keys
  induction keys with
  | nil =>
    intro _ data hall
    cases data with
    | nil => simp
    | cons x xs => exact absurd (hall x List.mem_cons_self) (by simp)
  | cons a as ih =>
    intro hnd data hall
    have hnd' := List.nodup_cons.mp hnd
    simp only [List.flatMap_cons]
    -- split the data into the pairs of key `a` and the others
    let rest := data.filter fun x => !decide (key x.1 = a)
    have hrest : ∀ k ∈ as, groupOf key data k = groupOf key rest k := by
      intro k hk
      have hka : k ≠ a := fun e => hnd'.1 (e ▸ hk)
      simp only [groupOf, rest, List.filter_filter]
      congr 1
      apply List.filter_congr
      intro x _
      by_cases h : key x.1 = k
      · subst h
        simp [hka]
      · simp [h]
    have h1 : (as.flatMap (groupOf key data)) = as.flatMap (groupOf key rest) := by
      simp only [List.flatMap_def]
      rw [List.map_congr_left hrest]
    rw [h1]
    have hall' : ∀ x ∈ rest, key x.1 ∈ as := by
      intro x hx
      simp only [rest, List.mem_filter, Bool.not_eq_eq_eq_not, Bool.not_true,
        decide_eq_false_iff_not] at hx
      rcases List.mem_cons.mp (hall x hx.1) with h | h
      · exact absurd h hx.2
      · exact h
    have h2 := ih hnd'.2 rest hall'
    have h3 : (groupOf key data a ++ rest.map (·.2)).Perm (data.map (·.2)) := by
      simp only [groupOf, rest, ← List.map_append]
      exact List.Perm.map _ (List.filter_append_perm _ _)
    exact (List.Perm.append_left _ h2).trans h3

/-! ### The loop of `_time_interval_operation` -/

theorem intervalOp_fold (keys : List κ) (g : κ → List α) (f : List α → β)
    (funct : List α → Except Err β) (hf : ∀ l, l ≠ [] → funct l = .ok (f l)) :
    ∀ (dates : List κ) (acc : List (κ × β)), (∀ i ∈ dates, i ∈ keys) →
      dates.foldlM (intervalStep (tab keys g) funct) acc
      = .ok (acc ++ (dates.filter fun i => !(g i).isEmpty).map fun i => (i, f (g i))) := by
  intro dates
  induction dates with
  | nil => intro acc _; simp; rfl
  | cons i is ih =>
    intro acc hall
    simp only [List.foldlM_cons, intervalStep]
    rw [get_tab keys g i (hall i List.mem_cons_self)]
    cases hgi : g i with
    | nil =>
      simp only [bind, Except.bind]
      rw [ih acc (fun j hj => hall j (List.mem_cons_of_mem _ hj))]
      simp [List.filter_cons, hgi]
    | cons v vs =>
      simp only [hf (v :: vs) (by simp), bind, Except.bind]
      rw [ih _ (fun j hj => hall j (List.mem_cons_of_mem _ hj))]
      simp [List.filter_cons, hgi]

/-- **The interval loop reports, in listing order, the statistic of every non-empty group.** -/
theorem intervalOp_spec (keys : List κ) (g : κ → List α) (f : List α → β)
    (funct : List α → Except Err β) (hf : ∀ l, l ≠ [] → funct l = .ok (f l))
    (dates : List κ) (hall : ∀ i ∈ dates, i ∈ keys) :
    intervalOp (tab keys g) dates funct
      = .ok ((dates.filter fun i => !(g i).isEmpty).map fun i => (i, f (g i))) := by
  unfold intervalOp
  rw [intervalOp_fold keys g f funct hf dates [] hall]
  simp

/-- A listed key that the dictionary does not have raises `KeyError`. -/
theorem intervalOp_missing (keys : List κ) (g : κ → List α) (funct : List α → Except Err β)
    (i : κ) (rest : List κ) (hi : i ∉ keys) :
    intervalOp (tab keys g) (i :: rest) funct = .error .key := by
  unfold intervalOp
  simp only [List.foldlM_cons, intervalStep]
  rw [get_tab_none keys g i hi]
  rfl

end Grp
