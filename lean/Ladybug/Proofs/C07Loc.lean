/-
  C07 — laws shared by the composite codecs: Location (moved here from Props/C07 so that the
  design-day and Wea proofs can use it), Date construction.  No Mathlib.
-/
import Ladybug.Model.Serial.Basic

namespace Codec
open Cal

/-- `Date(month, day, leap)` on a valid date (same statement as `date_make_of_valid` of
    Props/C08, re-proved here because Proofs files do not import Props). -/
theorem D.make_of_valid' (d : D) (hv : d.valid) : D.make d.month d.day d.leap = .ok d := by
  obtain ⟨h1, h2, h3, h4⟩ := hv
  have : (D.mk (Int.toNat (d.month : Int)) (Int.toNat (d.day : Int)) d.leap) = d := by simp
  have hv' : (D.mk d.month d.day d.leap).valid := ⟨h1, h2, h3, h4⟩
  simp only [D.make]
  have c1 : (1 : Int) ≤ (d.month : Int) ∧ (1 : Int) ≤ (d.day : Int) := by omega
  simp [c1, hv']

/-! ### Location -/

theorem locArg_str (s : String) : locArg (some (.str s)) = .str s := by simp [locArg, PyVal.isTag]
theorem locArg_num (n : Num) : locArg (some n.enc) = n.enc := by
  cases n <;> simp [locArg, PyVal.isTag, Num.enc]
theorem locArg_optStr (o : Option String) : locArg (some (optStr o)) = optStr o := by
  cases o <;> simp [locArg, PyVal.isTag, optStr]

theorem dashStr_str (s : String) (h : s ≠ "") : dashStr (.str s) = some s := by
  simp [dashStr, PyVal.truthy, h]

theorem angle_wf (n : Num) (lo hi : Int)
    (h : n = .int 0 ∨ ∃ b, n = .flt b ∧ n.truthy = true ∧ n.inRange lo hi = true) :
    angle n.enc lo hi = some n := by
  rcases h with rfl | ⟨b, rfl, ht, hr⟩
  · simp [angle, Num.enc, PyVal.truthy]
  · simp only [Num.truthy, Num.enc] at ht
    simp [angle, Num.enc, ht, PyVal.num?, Num.toFloat, hr]

theorem Loc.law : Law Loc.enc Loc.rd.dec Loc.wf := by
  intro l h
  rcases l with ⟨city, state, country, lat, lon, tz, elev, sid, source⟩
  obtain ⟨hc, hs, hco, hlat, hlon, ⟨tb, htz, htzr⟩, ⟨eb, hel, hel2⟩, hsid, hsrc, hsrc2⟩ := h
  simp only at hc hs hco hlat hlon htz htzr hel hel2 hsid hsrc hsrc2
  subst htz hel
  have a1 := angle_wf lat (-90) 90 hlat
  have a2 := angle_wf lon (-180) 180 hlon
  have t1 : tzOf (Num.flt tb).enc lon = some (.flt tb) := by
    simp [tzOf, Num.enc, PyVal.num?, Num.toFloat, htzr]
  have e1 : elevOf (Num.flt eb).enc = some (.flt eb) := by
    rcases hel2 with ht | rfl
    · simp only [Num.truthy, Num.enc] at ht
      simp [elevOf, Num.enc, ht, PyVal.num?, Num.toFloat]
    · simp [elevOf, Num.enc, PyVal.truthy]
  have s1 : sidOf (optStr sid) = some sid := by
    cases sid with
    | none => simp [sidOf, optStr, PyVal.truthy]
    | some s =>
      have : s ≠ "" := hsid s rfl
      simp [sidOf, optStr, PyVal.truthy, this, dashStr]
  have src : locArg (some (jsonRT source)) = source := by
    rw [hsrc]; simp [locArg, hsrc2]
  simp only [Loc.enc, Loc.rd, RecDec.dec, PyVal.env?, jsonRT_dict, kv, Loc.run, List.map,
    keyStr_str, jsonRT_str, jsonRT_num, lookupKV_cons_str]
  have jo : jsonRT (optStr sid) = optStr sid := by cases sid <;> simp [optStr]
  simp [jo, locArg_str, locArg_num, locArg_optStr, src, Loc.make, dashStr_str, hc, hs, hco, a1, a2,
    t1, e1, s1]

theorem Loc.law_autotz (l : Loc) (i : Int)
    (h : Loc.wf { l with tz := .flt (floatBitsOfInt i) }) (hl : l.tz = .int i) :
    Loc.rd.dec (jsonRT l.enc) = some { l with tz := .flt (floatBitsOfInt i) } := by
  have := Loc.law _ h
  rcases l with ⟨city, state, country, lat, lon, tz, elev, sid, source⟩
  simp only at hl
  subst hl
  simp only [Loc.enc, Loc.rd, RecDec.dec, PyVal.env?, jsonRT_dict, kv, Loc.run, List.map,
    keyStr_str, jsonRT_str, jsonRT_num, lookupKV_cons_str, Num.enc] at this ⊢
  simp only [locArg, PyVal.isTag, Loc.make, tzOf, PyVal.num?, Num.toFloat, Option.map] at this ⊢
  exact this


end Codec
