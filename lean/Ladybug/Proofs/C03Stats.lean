/-
  Helper lemmas for C03: order statistics over exact rationals.  Single Mathlib tactic modules only.
-/
import Ladybug.Model.Stats
import Mathlib.Tactic.Linarith
import Mathlib.Tactic.Ring
import Mathlib.Tactic.NormNum

namespace Stats

open Grp (Err)

/-! ### `sorted` -/

theorem sorted_perm (vals : List Rat) : (sorted vals).Perm vals := List.mergeSort_perm _ _

theorem sorted_length (vals : List Rat) : (sorted vals).length = vals.length := by
  simp [sorted]

theorem sorted_pairwise (vals : List Rat) : (sorted vals).Pairwise (· ≤ ·) := by
  have h := List.pairwise_mergeSort (le := fun a b : Rat => decide (a ≤ b))
    (by intro a b c; simp only [decide_eq_true_eq]; exact le_trans)
    (by intro a b; simp only [Bool.or_eq_true, decide_eq_true_eq]; exact le_total a b) vals
  simpa [sorted] using h

/-- The `i`-th order statistic (0-based) of `vals`. -/
def ordStat (vals : List Rat) (i : Nat) : Rat := (sorted vals).getD i 0

theorem getElem?_getD {s : List Rat} {i : Nat} (h : i < s.length) : s[i]? = some (s.getD i 0) := by
  simp [List.getD, List.getElem?_eq_getElem h]

theorem ordStat_mono (vals : List Rat) {i j : Nat} (hij : i ≤ j) (hj : j < vals.length) :
    ordStat vals i ≤ ordStat vals j := by
  have hp := sorted_pairwise vals
  have hl := sorted_length vals
  unfold ordStat
  rcases Nat.lt_or_eq_of_le hij with h | h
  · have hi' : i < (sorted vals).length := by omega
    have hj' : j < (sorted vals).length := by omega
    have := (List.pairwise_iff_getElem.mp hp) i j hi' hj' h
    simpa [List.getD, List.getElem?_eq_getElem hi', List.getElem?_eq_getElem hj'] using this
  · subst h; exact le_refl _

theorem ordStat_mem (vals : List Rat) {i : Nat} (hi : i < vals.length) : ordStat vals i ∈ vals := by
  have hi' : i < (sorted vals).length := by rw [sorted_length]; exact hi
  have : ordStat vals i = (sorted vals)[i] := by
    simp [ordStat, List.getD, List.getElem?_eq_getElem hi']
  rw [this]
  exact (sorted_perm vals).mem_iff.mp (List.getElem_mem hi')

theorem exists_ordStat (vals : List Rat) {v : Rat} (hv : v ∈ vals) :
    ∃ i, i < vals.length ∧ ordStat vals i = v := by
  have hv' : v ∈ sorted vals := (sorted_perm vals).mem_iff.mpr hv
  obtain ⟨i, hi, h⟩ := List.getElem_of_mem hv'
  refine ⟨i, by rw [← sorted_length]; exact hi, ?_⟩
  simp [ordStat, List.getD, List.getElem?_eq_getElem hi, h]

/-! ### percentile = linear interpolation between neighbouring order statistics -/

/-- Textbook definition: at the (real) rank `k`, interpolate linearly between the order statistics
    `⌊k⌋` and `⌊k⌋ + 1`. -/
def interp (vals : List Rat) (k : Rat) : Rat :=
  ordStat vals k.floor.toNat +
    (k - (k.floor : Rat)) * (ordStat vals (k.floor.toNat + 1) - ordStat vals k.floor.toNat)

/-- The rank used by `_percentile`. -/
def rank (vals : List Rat) (p : Rat) : Rat := (((vals.length : Int) - 1 : Int) : Rat) * (p / 100)

theorem rank_bounds (vals : List Rat) (hne : vals ≠ []) (p : Rat) (h0 : 0 ≤ p) (h1 : p ≤ 100) :
    0 ≤ rank vals p ∧ rank vals p ≤ (((vals.length : Int) - 1 : Int) : Rat) := by
  have hn : 1 ≤ vals.length := List.length_pos_iff.mpr hne
  have hc : (0 : Rat) ≤ (((vals.length : Int) - 1 : Int) : Rat) := by
    have : (0 : Int) ≤ (vals.length : Int) - 1 := by omega
    exact_mod_cast this
  have hp0 : 0 ≤ p / 100 := by linarith
  have hp1 : p / 100 ≤ 1 := by linarith
  unfold rank
  constructor
  · exact mul_nonneg hc hp0
  · calc _ ≤ (((vals.length : Int) - 1 : Int) : Rat) * 1 := mul_le_mul_of_nonneg_left hp1 hc
      _ = _ := by ring

theorem floor_facts (k : Rat) (m : Int) (h0 : 0 ≤ k) (h1 : k ≤ (m : Rat)) :
    0 ≤ k.floor ∧ k.floor ≤ m ∧ k.ceil ≤ m ∧
      (k.ceil = k.floor ∧ k = (k.floor : Rat) ∨ k.ceil = k.floor + 1 ∧ (k.floor : Rat) < k) := by
  have hf0 : 0 ≤ k.floor := Rat.le_floor_iff.mpr (by exact_mod_cast h0)
  have hfm : k.floor ≤ m := by
    have := Rat.floor_monotone h1
    rwa [Rat.floor_intCast] at this
  have hcm : k.ceil ≤ m := Rat.ceil_le_iff.mpr h1
  refine ⟨hf0, hfm, hcm, ?_⟩
  have hfl := Rat.floor_le k
  have hlt := Rat.lt_floor_add_one k
  have hle := @Rat.le_ceil k
  have hc1 : k.ceil ≤ k.floor + 1 := Rat.ceil_le_iff.mpr (le_of_lt hlt)
  have hfc : k.floor ≤ k.ceil := by
    have : (k.floor : Rat) ≤ (k.ceil : Rat) := le_trans hfl hle
    exact_mod_cast this
  rcases Int.lt_or_eq_of_le hfc with h | h
  · right
    refine ⟨by omega, ?_⟩
    rcases lt_or_eq_of_le hfl with h' | h'
    · exact h'
    · exfalso
      have : k.ceil ≤ k.floor := Rat.ceil_le_iff.mpr (le_of_eq h'.symm)
      omega
  · left
    refine ⟨h.symm, ?_⟩
    have : k ≤ (k.floor : Rat) := by rw [h]; exact hle
    exact le_antisymm this hfl

theorem getIdx_nonneg (s : List Rat) (i : Int) (h0 : 0 ≤ i) (h1 : i.toNat < s.length) :
    Py.getIdx? s i = some (s.getD i.toNat 0) := by
  unfold Py.getIdx?
  simp only [h0, ↓reduceIte]
  exact getElem?_getD h1

/-- **`_percentile` is the textbook interpolation** for every non-empty list and `0 ≤ p ≤ 100`. -/
theorem percentile_eq_interp (vals : List Rat) (hne : vals ≠ []) (p : Rat) (h0 : 0 ≤ p) (h1 : p ≤ 100) :
    percentile vals p = .ok (interp vals (rank vals p)) := by
  obtain ⟨hk0, hk1⟩ := rank_bounds vals hne p h0 h1
  have hn : 1 ≤ vals.length := List.length_pos_iff.mpr hne
  obtain ⟨hf0, hfm, hcm, hcase⟩ := floor_facts (rank vals p) _ hk0 hk1
  have hlen := sorted_length vals
  unfold percentile
  have hr : (((vals.length : Int) - 1 : Int) : Rat) * (p / 100) = rank vals p := rfl
  simp only [hlen, hr]
  rcases hcase with ⟨hc, hk⟩ | ⟨hc, hk⟩
  · simp only [hc, ↓reduceIte]
    have ht : Py.truncRat (rank vals p) = (rank vals p).floor := by
      unfold Py.truncRat; simp [hk0]
    rw [ht, getIdx_nonneg _ _ hf0 (by rw [hlen]; omega)]
    simp only [interp, ordStat]
    congr 1
    have : rank vals p - ((rank vals p).floor : Rat) = 0 := by linarith
    rw [this]; ring
  · have hne' : ¬ (rank vals p).floor = (rank vals p).ceil := by omega
    simp only [hne', ↓reduceIte]
    rw [getIdx_nonneg _ _ hf0 (by rw [hlen]; omega),
      getIdx_nonneg _ _ (by omega) (by rw [hlen]; omega)]
    simp only [interp, ordStat]
    have e1 : (rank vals p).ceil.toNat = (rank vals p).floor.toNat + 1 := by omega
    have e2 : ((rank vals p).ceil : Rat) = ((rank vals p).floor : Rat) + 1 := by
      rw [hc]; push_cast; ring
    rw [e1, e2]
    congr 1
    ring

/-- `interp` at an integer rank is that order statistic. -/
theorem interp_natCast (vals : List Rat) (i : Nat) : interp vals (i : Rat) = ordStat vals i := by
  have h : ((i : Rat)).floor = (i : Int) := by
    have : ((i : Int) : Rat) = (i : Rat) := by push_cast; rfl
    rw [← this, Rat.floor_intCast]
  unfold interp
  rw [h]
  simp

/-- `interp` lies between the neighbouring order statistics. -/
theorem interp_between (vals : List Rat) (k : Rat) (h0 : 0 ≤ k)
    (h1 : k ≤ (((vals.length : Int) - 1 : Int) : Rat)) :
    ordStat vals k.floor.toNat ≤ interp vals k ∧
    interp vals k ≤ ordStat vals (min (k.floor.toNat + 1) (vals.length - 1)) := by
  obtain ⟨hf0, hfm, _, _⟩ := floor_facts k _ h0 h1
  have hfl := Rat.floor_le k
  have hlt := Rat.lt_floor_add_one k
  have hr0 : 0 ≤ k - (k.floor : Rat) := by linarith
  have hr1 : k - (k.floor : Rat) ≤ 1 := by push_cast at hlt; linarith
  by_cases hlast : k.floor.toNat + 1 ≤ vals.length - 1
  · have hd : ordStat vals k.floor.toNat ≤ ordStat vals (k.floor.toNat + 1) :=
      ordStat_mono vals (by omega) (by omega)
    rw [Nat.min_eq_left hlast]
    unfold interp
    constructor
    · have := mul_nonneg hr0 (sub_nonneg.mpr hd)
      linarith
    · have := mul_le_mul_of_nonneg_right hr1 (sub_nonneg.mpr hd)
      linarith
  · -- the rank is the last index: the fractional part is 0
    have hfe : k.floor = (vals.length : Int) - 1 := by omega
    have hk : k = (k.floor : Rat) := by
      apply le_antisymm _ hfl
      rw [hfe]; exact h1
    have hr : k - (k.floor : Rat) = 0 := by linarith
    have hmin : min (k.floor.toNat + 1) (vals.length - 1) = k.floor.toNat := by omega
    rw [hmin]
    unfold interp
    rw [hr]
    constructor <;> simp

/-- **`interp` is monotone in the rank** (hence the percentile is monotone in `p`). -/
theorem interp_mono (vals : List Rat) (k₁ k₂ : Rat) (h0 : 0 ≤ k₁) (h12 : k₁ ≤ k₂)
    (h2 : k₂ ≤ (((vals.length : Int) - 1 : Int) : Rat)) : interp vals k₁ ≤ interp vals k₂ := by
  have h1 : k₁ ≤ (((vals.length : Int) - 1 : Int) : Rat) := le_trans h12 h2
  have h0' : 0 ≤ k₂ := le_trans h0 h12
  obtain ⟨hf0, hfm, _, _⟩ := floor_facts k₁ _ h0 h1
  obtain ⟨hg0, hgm, _, _⟩ := floor_facts k₂ _ h0' h2
  have hfg := Rat.floor_monotone h12
  rcases Int.lt_or_eq_of_le hfg with hlt | heq
  · -- different cells: go through the order statistic between them
    have a := (interp_between vals k₁ h0 h1).2
    have b := (interp_between vals k₂ h0' h2).1
    have c : ordStat vals (min (k₁.floor.toNat + 1) (vals.length - 1)) ≤ ordStat vals k₂.floor.toNat :=
      ordStat_mono vals (by omega) (by omega)
    linarith
  · -- same cell: linear with non-negative slope
    unfold interp
    rw [← heq]
    by_cases hlast : k₁.floor.toNat + 1 ≤ vals.length - 1
    · have hd : ordStat vals k₁.floor.toNat ≤ ordStat vals (k₁.floor.toNat + 1) :=
        ordStat_mono vals (by omega) (by omega)
      have := mul_le_mul_of_nonneg_right (sub_le_sub_right h12 (k₁.floor : Rat)) (sub_nonneg.mpr hd)
      linarith
    · have hfe : k₁.floor = (vals.length : Int) - 1 := by omega
      have e1 : k₁ = (k₁.floor : Rat) := by
        apply le_antisymm _ (Rat.floor_le k₁); rw [hfe]; exact h1
      have e2 : k₂ = (k₁.floor : Rat) := by
        apply le_antisymm _ (by rw [heq]; exact Rat.floor_le k₂); rw [hfe]; exact h2
      have : k₁ = k₂ := e1.trans e2.symm
      subst this
      exact le_refl _

/-! ### min / max -/

theorem minV_eq (vals : List Rat) (hne : vals ≠ []) : minV vals = .ok (ordStat vals 0) := by
  have hn : 0 < vals.length := List.length_pos_iff.mpr hne
  have hm : vals.min? = some (ordStat vals 0) := by
    rw [List.min?_eq_some_iff]
    refine ⟨ordStat_mem vals hn, ?_⟩
    intro b hb
    obtain ⟨i, hi, rfl⟩ := exists_ordStat vals hb
    exact ordStat_mono vals (Nat.zero_le _) hi
  simp [minV, hm]

theorem maxV_eq (vals : List Rat) (hne : vals ≠ []) :
    maxV vals = .ok (ordStat vals (vals.length - 1)) := by
  have hn : 0 < vals.length := List.length_pos_iff.mpr hne
  have hm : vals.max? = some (ordStat vals (vals.length - 1)) := by
    rw [List.max?_eq_some_iff]
    refine ⟨ordStat_mem vals (by omega), ?_⟩
    intro b hb
    obtain ⟨i, hi, rfl⟩ := exists_ordStat vals hb
    exact ordStat_mono vals (by omega) (by omega)
  simp [maxV, hm]

/-! ### total / average -/

theorem foldl_add (l : List Rat) (a : Rat) : l.foldl (· + ·) a = a + l.foldl (· + ·) 0 := by
  induction l generalizing a with
  | nil => simp
  | cons x xs ih => simp only [List.foldl_cons]; rw [ih (a + x), ih (0 + x)]; ring

theorem total_cons (x : Rat) (xs : List Rat) : total (x :: xs) = x + total xs := by
  unfold total
  simp only [List.foldl_cons]
  rw [foldl_add]; ring

theorem total_append (a b : List Rat) : total (a ++ b) = total a + total b := by
  induction a with
  | nil => simp [total]
  | cons x xs ih => rw [List.cons_append, total_cons, total_cons, ih]; ring

theorem total_perm {a b : List Rat} (h : a.Perm b) : total a = total b := by
  induction h with
  | nil => rfl
  | cons x _ ih => rw [total_cons, total_cons, ih]
  | swap x y l => simp only [total_cons]; ring
  | trans _ _ ih1 ih2 => rw [ih1, ih2]

/-! ### highest / lowest values -/

theorem range_map_getD (vals : List Rat) : (List.range vals.length).map (fun i => vals.getD i 0) = vals := by
  apply List.ext_getElem
  · simp
  · intro i h1 h2
    simp [List.getD, List.getElem?_eq_getElem h2]

/-- Sorting the indices by their value and reading the values back is sorting the values
    (descending; ties keep their original order on both sides). -/
theorem argsortDesc_values (vals : List Rat) :
    (argsortDesc vals).map (fun i => vals.getD i 0) = sortedDesc vals := by
  unfold argsortDesc sortedDesc
  rw [List.map_mergeSort (s := fun a b : Rat => decide (b ≤ a)) (fun _ _ _ _ => rfl), range_map_getD]

theorem argsortAsc_values (vals : List Rat) :
    (argsortAsc vals).map (fun i => vals.getD i 0) = sorted vals := by
  unfold argsortAsc sorted
  rw [List.map_mergeSort (s := fun a b : Rat => decide (a ≤ b)) (fun _ _ _ _ => rfl), range_map_getD]

theorem argsortDesc_perm (vals : List Rat) : (argsortDesc vals).Perm (List.range vals.length) :=
  List.mergeSort_perm _ _

theorem argsortAsc_perm (vals : List Rat) : (argsortAsc vals).Perm (List.range vals.length) :=
  List.mergeSort_perm _ _

theorem sortedDesc_pairwise (vals : List Rat) : (sortedDesc vals).Pairwise (· ≥ ·) := by
  have h := List.pairwise_mergeSort (le := fun a b : Rat => decide (b ≤ a))
    (by intro a b c; simp only [decide_eq_true_eq]; exact fun h1 h2 => le_trans h2 h1)
    (by intro a b; simp only [Bool.or_eq_true, decide_eq_true_eq]; exact le_total b a) vals
  simpa [sortedDesc] using h

/-! ### Stability of the index lists -/

theorem pair_sublist_range (n a b : Nat) (hab : a < b) (hb : b < n) : List.Sublist [a, b] (List.range n) := by
  induction n with
  | zero => omega
  | succ n ih =>
    rw [List.range_succ]
    rcases Nat.lt_or_ge b n with h | h
    · exact (ih h).trans (List.sublist_append_left _ _)
    · have hbn : b = n := by omega
      subst hbn
      have h1 : List.Sublist [a] (List.range b) := List.singleton_sublist.mpr (List.mem_range.mpr hab)
      exact List.Sublist.append h1 (List.Sublist.refl [b])

/-- A stable sort of `0 .. n-1` by a total preorder `le` on the indices: entries appear in
    `le`-order, and of two entries that are `le` both ways the smaller index comes first. -/
theorem stable_range_sort (n : Nat) (le : Nat → Nat → Bool)
    (trans : ∀ a b c, le a b → le b c → le a c) (total : ∀ a b, le a b || le b a) :
    ((List.range n).mergeSort le).Pairwise fun i j => le i j = true ∧ (le j i = true → i < j) := by
  have hsorted := List.pairwise_mergeSort trans total (List.range n)
  have hperm := List.mergeSort_perm (List.range n) le
  have hnd : ((List.range n).mergeSort le).Nodup := hperm.nodup_iff.mpr List.nodup_range
  rw [List.pairwise_iff_forall_sublist]
  intro a b hab
  have h1 : le a b = true := (List.pairwise_iff_forall_sublist.mp hsorted) hab
  refine ⟨h1, ?_⟩
  intro h2
  have hne : a ≠ b := by
    have := hab.nodup hnd
    simpa using this
  rcases Nat.lt_or_ge a b with h | h
  · exact h
  · exfalso
    have hlt : b < a := by omega
    have ha : a < n := by
      have := hperm.mem_iff.mp (hab.subset (by simp : a ∈ [a, b]))
      simpa using this
    have hba : List.Sublist [b, a] ((List.range n).mergeSort le) :=
      List.pair_sublist_mergeSort trans total h2 (pair_sublist_range n b a hlt ha)
    -- both [a, b] and [b, a] inside a list without repetition
    have key : ∀ (l : List Nat), l.Nodup → List.Sublist [a, b] l → List.Sublist [b, a] l → False := by
      intro l
      induction l with
      | nil => intro _ h; cases h
      | cons x t ih =>
        intro hn s1 s2
        have hn' := List.nodup_cons.mp hn
        cases s1 with
        | cons _ s1' =>
          cases s2 with
          | cons _ s2' => exact ih hn'.2 s1' s2'
          | cons_cons _ s2' =>
            have : b ∈ t := (s1'.subset (by simp : b ∈ [a, b]))
            exact hn'.1 this
        | cons_cons _ s1' =>
          cases s2 with
          | cons _ s2' =>
            have : a ∈ t := (s2'.subset (by simp : a ∈ [b, a]))
            exact hn'.1 this
          | cons_cons _ s2' => exact hne rfl
    exact key _ hnd hab hba

/-- **Stability of `highest_values`' index list**: values descend along the list and equal values
    keep their original order (Python's `sorted(..., reverse=True)` is stable). -/
theorem argsortDesc_stable (vals : List Rat) :
    (argsortDesc vals).Pairwise fun i j =>
      vals.getD j 0 ≤ vals.getD i 0 ∧ (vals.getD i 0 = vals.getD j 0 → i < j) := by
  have h := stable_range_sort vals.length (fun i j => decide (vals.getD j 0 ≤ vals.getD i 0))
    (by intro a b c; simp only [decide_eq_true_eq]; exact fun h1 h2 => le_trans h2 h1)
    (by intro a b; simp only [Bool.or_eq_true, decide_eq_true_eq]; exact le_total _ _)
  unfold argsortDesc
  apply List.Pairwise.imp _ h
  intro i j ⟨h1, h2⟩
  simp only [decide_eq_true_eq] at h1 h2
  exact ⟨h1, fun e => h2 (le_of_eq e)⟩

/-- **Stability of `lowest_values`' index list**. -/
theorem argsortAsc_stable (vals : List Rat) :
    (argsortAsc vals).Pairwise fun i j =>
      vals.getD i 0 ≤ vals.getD j 0 ∧ (vals.getD i 0 = vals.getD j 0 → i < j) := by
  have h := stable_range_sort vals.length (fun i j => decide (vals.getD i 0 ≤ vals.getD j 0))
    (by intro a b c; simp only [decide_eq_true_eq]; exact le_trans)
    (by intro a b; simp only [Bool.or_eq_true, decide_eq_true_eq]; exact le_total _ _)
  unfold argsortAsc
  apply List.Pairwise.imp _ h
  intro i j ⟨h1, h2⟩
  simp only [decide_eq_true_eq] at h1 h2
  exact ⟨h1, fun e => h2 (le_of_eq e.symm)⟩

end Stats
