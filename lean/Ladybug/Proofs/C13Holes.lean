/-
  Helper lemmas for C13, hole filling at full strength: the hole-filling loop over an equally
  spaced cyclic grid puts every source value on its own step (`Good`), and what that means
  position by position (`good_spec`).
-/
import Ladybug.Proofs.C13Interp
import Ladybug.Proofs.C13Contain
import Ladybug.Props.C04

open Cal

namespace Resample

/-! ### arithmetic of an equally spaced grid that may wrap the year end -/

/-- Distance, counted cyclically through the year end, between grid points `cur ≤ i`. -/
theorem grid_dist (Y s g0 i cur : Nat) (hY : Y = 525600 ∨ Y = 527040) (hic : cur ≤ i)
    (hlt : (i - cur) * s < Y) :
    ((g0 + i * s) % Y + Y - (g0 + cur * s) % Y) % Y = (i - cur) * s := by
  have e : i * s = cur * s + (i - cur) * s := by
    rw [← Nat.add_mul]; congr 1; omega
  rw [e]
  generalize cur * s = A
  generalize (i - cur) * s = D at hlt ⊢
  rcases hY with rfl | rfl <;> omega

theorem grid_inj (Y s g0 i cur : Nat) (hY : Y = 525600 ∨ Y = 527040) (hs : 0 < s) (hic : cur ≤ i)
    (hlt : (i - cur) * s < Y) (h : (g0 + cur * s) % Y = (g0 + i * s) % Y) : i = cur := by
  have hd := grid_dist Y s g0 i cur hY hic hlt
  rw [h] at hd
  have h0 : (i - cur) * s = 0 := by
    rw [← hd]
    rcases hY with rfl | rfl <;> omega
  rcases Nat.mul_eq_zero.mp h0 with h1 | h1 <;> omega

/-! ### the loop puts every source value on its own step -/

/-- `Good idx prev cur out`: `out` is the output of the loop that starts at step number `cur` for
    the source items `idx` (step number, value): for each item a block of exactly as many filled
    values as there are missing steps (each between the previous source value and this one)
    followed by the source value itself. -/
def Good : List (Nat × Rat) → Rat → Nat → List Rat → Prop
  | [], _, _, out => out = []
  | (i, v) :: rest, prev, cur, out =>
    ∃ fill out', out = fill ++ v :: out' ∧ fill.length = i - cur ∧
      (∀ x ∈ fill, min prev v ≤ x ∧ x ≤ max prev v) ∧ Good rest v (i + 1) out'

theorem holesGo_good (Y s g0 : Nat) (G : List Nat) (hs : 0 < s) (hY : Y = 525600 ∨ Y = 527040)
    (hG : ∀ i, i < G.length → G[i]? = some ((g0 + i * s) % Y)) (hN : (G.length - 1) * s < Y) :
    ∀ (idx : List (Nat × Rat)) (prev : Rat) (cur : Nat),
      (idx.map (·.1)).Pairwise (· < ·) → (∀ p ∈ idx, cur ≤ p.1 ∧ p.1 < G.length) →
      ∃ out, holesGo Y s (idx.map fun p => ((g0 + p.1 * s) % Y, p.2)) (G.drop cur) prev = .ok out ∧
        Good idx prev cur out
  | [], prev, cur, _, _ => ⟨[], by simp [holesGo], rfl⟩
  | (i, v) :: rest, prev, cur, hp, hb => by
    obtain ⟨hci, hiN⟩ := hb (i, v) (by simp)
    simp only at hci hiN
    have hcN : cur < G.length := by omega
    have hlt : (i - cur) * s < Y := by
      have : (i - cur) * s ≤ (G.length - 1) * s := Nat.mul_le_mul_right s (by omega)
      omega
    have hp' := List.pairwise_cons.mp (show (i :: rest.map (·.1)).Pairwise (· < ·) from hp)
    have hrest : ∀ p ∈ rest, i + 1 ≤ p.1 ∧ p.1 < G.length := by
      intro p hpm
      have := hp'.1 p.1 (List.mem_map.mpr ⟨p, hpm, rfl⟩)
      exact ⟨by omega, (hb p (List.mem_cons_of_mem _ hpm)).2⟩
    have hdrop : G.drop cur = ((g0 + cur * s) % Y) :: G.drop (cur + 1) := by
      rw [List.drop_eq_getElem_cons hcN]
      congr 1
      have := hG cur hcN
      rw [List.getElem?_eq_getElem hcN] at this
      exact Option.some.inj this
    simp only [List.map_cons]
    unfold holesGo
    rw [hdrop]
    simp only
    by_cases hg : (g0 + cur * s) % Y = (g0 + i * s) % Y
    · have hic : i = cur := grid_inj Y s g0 i cur hY hs hci hlt hg
      subst hic
      obtain ⟨out', ho, hgood⟩ := holesGo_good Y s g0 G hs hY hG hN rest v (i + 1) hp'.2 hrest
      rw [if_pos hg, ho]
      exact ⟨v :: out', rfl, [], out', rfl, by simp, by simp, hgood⟩
    · rw [if_neg hg]
      have hd := grid_dist Y s g0 i cur hY hci hlt
      have hn : ((g0 + i * s) % Y + Y - (g0 + cur * s) % Y) % Y / s + 1 = i - cur + 1 := by
        rw [hd, Nat.mul_div_cancel _ hs]
      rw [hn]
      have hdd : List.drop (i - cur + 1) ((g0 + cur * s) % Y :: G.drop (cur + 1)) = G.drop (i + 1) := by
        rw [← hdrop, List.drop_drop]
        congr 1; omega
      rw [hdd]
      obtain ⟨out', ho, hgood⟩ := holesGo_good Y s g0 G hs hY hG hN rest v (i + 1) hp'.2 hrest
      rw [ho]
      refine ⟨_, rfl, (xxrange prev v (i - cur + 1)).tail, out', rfl, ?_, ?_, hgood⟩
      · simp [xxrange_length]
      · intro x hx
        exact xxrange_between prev v _ x (List.mem_of_mem_tail hx)

/-! ### what `Good` means position by position -/

theorem good_shift (fill out' : List Rat) (v : Rat) (i cur k : Nat) (hf : fill.length = i - cur)
    (hci : cur ≤ i) (hk : i + 1 ≤ k) : (fill ++ v :: out')[k - cur]? = out'[k - (i + 1)]? := by
  rw [List.getElem?_append_right (by omega)]
  have : k - cur - fill.length = (k - (i + 1)) + 1 := by omega
  rw [this, List.getElem?_cons_succ]

theorem good_spec : ∀ (idx : List (Nat × Rat)) (prev : Rat) (cur : Nat) (out : List Rat),
    Good idx prev cur out → (idx.map (·.1)).Pairwise (· < ·) → (∀ p ∈ idx, cur ≤ p.1) →
    (out.length = match idx.getLast? with
      | some l => l.1 + 1 - cur
      | none => 0) ∧
    (∀ p ∈ idx, out[p.1 - cur]? = some p.2) ∧
    (∀ f, idx.head? = some f → ∀ k, cur ≤ k → k < f.1 →
      ∃ x, out[k - cur]? = some x ∧ min prev f.2 ≤ x ∧ x ≤ max prev f.2) ∧
    (∀ q ∈ idx.zip idx.tail, ∀ k, q.1.1 < k → k < q.2.1 →
      ∃ x, out[k - cur]? = some x ∧ min q.1.2 q.2.2 ≤ x ∧ x ≤ max q.1.2 q.2.2)
  | [], prev, cur, out, hg, _, _ => by
    simp only [Good] at hg
    subst hg
    simp
  | (i, v) :: rest, prev, cur, out, hg, hp, hb => by
    obtain ⟨fill, out', rfl, hfl, hfb, hg'⟩ := hg
    have hci : cur ≤ i := hb (i, v) (by simp)
    have hp' := List.pairwise_cons.mp (show (i :: rest.map (·.1)).Pairwise (· < ·) from hp)
    have hrest : ∀ p ∈ rest, i + 1 ≤ p.1 := by
      intro p hpm
      have := hp'.1 p.1 (List.mem_map.mpr ⟨p, hpm, rfl⟩)
      omega
    obtain ⟨ih1, ih2, ih3, ih4⟩ := good_spec rest v (i + 1) out' hg' hp'.2 hrest
    refine ⟨?_, ?_, ?_, ?_⟩
    · cases rest with
      | nil =>
        simp only [Good] at hg'
        subst hg'
        simp [hfl]; omega
      | cons r0 rt =>
        have hl : ((i, v) :: r0 :: rt).getLast? = (r0 :: rt).getLast? := by simp [List.getLast?_cons_cons]
        rw [hl]
        cases hgl : (r0 :: rt).getLast? with
        | none => simp at hgl
        | some l =>
          rw [hgl] at ih1
          simp only at ih1 ⊢
          have hlm : l ∈ r0 :: rt := List.mem_of_mem_getLast? hgl
          have := hrest l hlm
          simp only [List.length_append, List.length_cons, hfl, ih1]
          omega
    · intro p hpm
      rcases List.mem_cons.mp hpm with rfl | hpm
      · simp only
        rw [List.getElem?_append_right (by omega)]
        simp [hfl]
      · have := hrest p hpm
        rw [good_shift fill out' v i cur p.1 hfl hci this]
        exact ih2 p hpm
    · intro f hf k hk1 hk2
      simp at hf
      subst hf
      simp only at hk2 ⊢
      have hkl : k - cur < fill.length := by omega
      rw [List.getElem?_append_left hkl]
      refine ⟨fill[k - cur], by simp [hkl], ?_⟩
      exact hfb _ (List.getElem_mem hkl)
    · intro q hq k hk1 hk2
      cases rest with
      | nil => simp at hq
      | cons r0 rt =>
        simp only [List.tail_cons, List.zip_cons_cons] at hq
        rcases List.mem_cons.mp hq with rfl | hq
        · simp only at hk1 hk2 ⊢
          rw [good_shift fill out' v i cur k hfl hci (by omega)]
          exact ih3 r0 (by simp) k (by omega) hk2
        · have hq1 : q.1 ∈ r0 :: rt := (List.of_mem_zip hq).1
          have := hrest q.1 hq1
          rw [good_shift fill out' v i cur k hfl hci (by omega)]
          exact ih4 q (by simpa using hq) k hk1 hk2

/-! ### the steps of a whole-day period are equally spaced, cyclically through the year end -/

/-- A strictly increasing list of multiples of `s` that contains, with each member, every smaller
    multiple of `s`, is `0, s, 2s, …`. -/
theorem multiples_of_closed (s : Nat) (hs : 0 < s) (L : List Nat) (hinc : L.Pairwise (· < ·))
    (hmul : ∀ c ∈ L, c % s = 0) (hcl : ∀ c ∈ L, ∀ c', c' < c → c' % s = 0 → c' ∈ L) :
    ∀ i (hi : i < L.length), L[i] = i * s := by
  have hmono : ∀ a b (ha : a < L.length) (hb : b < L.length), a < b → L[a] < L[b] :=
    fun a b ha hb hab => List.pairwise_iff_getElem.mp hinc a b ha hb hab
  intro i
  induction i using Nat.strong_induction_on with
  | _ i ih =>
    intro hi
    have hlow : i * s ≤ L[i] := by
      cases i with
      | zero => simp
      | succ k =>
        have hk := ih k (by omega) (by omega)
        have hlt := hmono k (k + 1) (by omega) hi (by omega)
        have hm := hmul L[k + 1] (List.getElem_mem hi)
        obtain ⟨q, hq⟩ : ∃ q, L[k + 1] = q * s :=
          ⟨L[k + 1] / s, (Nat.div_mul_cancel (Nat.dvd_of_mod_eq_zero hm)).symm⟩
        rw [hq, hk] at hlt
        have : k < q := Nat.lt_of_mul_lt_mul_right hlt
        rw [hq]
        exact Nat.mul_le_mul_right s (by omega)
    by_contra hne
    have hgt : i * s < L[i] := by omega
    have hin := hcl L[i] (List.getElem_mem hi) (i * s) hgt (Nat.mul_mod_left i s)
    obtain ⟨j, hj, hje⟩ := List.mem_iff_getElem.mp hin
    have hji : j < i := by
      by_contra hnl
      rcases Nat.lt_or_ge i j with h1 | h1
      · have := hmono i j hi hj h1; omega
      · have : j = i := by omega
        subst this; omega
    have := ih j hji hj
    rw [this] at hje
    have : j = i := Nat.eq_of_mul_eq_mul_right hs hje
    omega

/-- Every valid step length divides whole days. -/
theorem step_dvd_of_1440 (s : Nat)
    (hs : s = 60 ∨ s = 30 ∨ s = 20 ∨ s = 15 ∨ s = 12 ∨ s = 10 ∨ s = 6 ∨ s = 5 ∨ s = 4 ∨ s = 3 ∨ s = 2 ∨ s = 1)
    (a : Nat) (ha : a % 1440 = 0) : s ∣ a := by
  rcases hs with rfl | rfl | rfl | rfl | rfl | rfl | rfl | rfl | rfl | rfl | rfl | rfl <;>
    exact Nat.dvd_of_mod_eq_zero (by omega)

/-- The year-end arithmetic behind the closure of the steps of a whole-day period: with a step
    `m` of the period, every earlier grid point (counted cyclically from the start) is a step too. -/
theorem closure_arith (Y s st en m c' : Nat) (hY : Y = 525600 ∨ Y = 527040)
    (hsst : s ∣ st) (hsY : s ∣ Y) (hst' : st < Y) (hen' : en + 60 ≤ Y) (hm : m < Y)
    (hrange : (st ≤ en ∧ st ≤ m ∧ m < en + 60) ∨ (en < st ∧ (st ≤ m ∨ m < en + 60)))
    (hc' : c' < (m + Y - st) % Y) (hc's : s ∣ c') :
    (st + c') % Y < Y ∧ s ∣ (st + c') % Y ∧
    ((st ≤ en ∧ st ≤ (st + c') % Y ∧ (st + c') % Y < en + 60) ∨
      (en < st ∧ (st ≤ (st + c') % Y ∨ (st + c') % Y < en + 60))) ∧
    ((st + c') % Y + Y - st) % Y = c' := by
  have hX : (st + c') % Y = st + c' ∨ (st + c') % Y + Y = st + c' := by
    rcases hY with rfl | rfl <;> omega
  have hd : s ∣ (st + c') % Y := by
    rcases hX with h | h
    · rw [h]; exact Nat.dvd_add hsst hc's
    · have : s ∣ (st + c') % Y + Y := by rw [h]; exact Nat.dvd_add hsst hc's
      exact (Nat.dvd_add_left hsY).mp this
  refine ⟨?_, hd, ?_, ?_⟩ <;> rcases hY with rfl | rfl <;> omega

theorem key_arith (Y s st m : Nat) (hY : Y = 525600 ∨ Y = 527040)
    (hsst : s ∣ st) (hsY : s ∣ Y) (hst' : st < Y) (hm : m < Y) (hms : s ∣ m) :
    s ∣ (m + Y - st) % Y ∧ (m + Y - st) % Y < Y ∧ (st + (m + Y - st) % Y) % Y = m := by
  have hX : (m + Y - st) % Y + st = m ∨ (m + Y - st) % Y + st = m + Y := by
    rcases hY with rfl | rfl <;> omega
  have hd : s ∣ (m + Y - st) % Y := by
    rcases hX with h | h
    · have : s ∣ (m + Y - st) % Y + st := by rw [h]; exact hms
      exact (Nat.dvd_add_left hsst).mp this
    · have : s ∣ (m + Y - st) % Y + st := by rw [h]; exact Nat.dvd_add hms hsY
      exact (Nat.dvd_add_left hsst).mp this
  refine ⟨hd, ?_, ?_⟩ <;> rcases hY with rfl | rfl <;> omega

/-- **The steps of a whole-day period are equally spaced.**  For a well-formed period with the hour
    window 0..23, wrapping the year end or not, step number `i` is
    `(start + i · step) mod year`, and the whole list spans less than a year. -/
theorem moys_grid (ap : AP) (hwf : ap.WF) (h0 : ap.st_hour = 0) (h23 : ap.end_hour = 23) :
    0 < ap.step ∧ ap.stMoy < minutesInYear ap.leap ∧
    (minutesInYear ap.leap = 525600 ∨ minutesInYear ap.leap = 527040) ∧
    (∀ i, i < ap.moys.length →
      ap.moys[i]? = some ((ap.stMoy + i * ap.step) % minutesInYear ap.leap)) ∧
    (ap.moys.length - 1) * ap.step < minutesInYear ap.leap := by
  have hY : minutesInYear ap.leap = 525600 ∨ minutesInYear ap.leap = 527040 := by
    cases ap.leap <;> simp [minutesInYear, daysInYear]
  have hYd : minutesInYear ap.leap = 1440 * daysInYear ap.leap := rfl
  obtain ⟨⟨w1, w2, w3, w4, w5, -⟩, ⟨w6, w7, w8, w9, w10, -⟩, hts⟩ := hwf
  have hwf : ap.WF := ⟨⟨w1, w2, w3, w4, w5, by simp [AP.stTime]⟩, ⟨w6, w7, w8, w9, w10, by simp [AP.endTime]⟩, hts⟩
  simp only [AP.stTime, AP.endTime] at w1 w2 w3 w4 w5 w6 w7 w8 w9 w10
  have hs12 : ap.step = 60 ∨ ap.step = 30 ∨ ap.step = 20 ∨ ap.step = 15 ∨ ap.step = 12 ∨ ap.step = 10 ∨
      ap.step = 6 ∨ ap.step = 5 ∨ ap.step = 4 ∨ ap.step = 3 ∨ ap.step = 2 ∨ ap.step = 1 := by
    unfold AP.step
    simp [Gen.Ap.validTimesteps] at hts
    rcases hts with h | h | h | h | h | h | h | h | h | h | h | h <;> rw [h] <;> decide
  have spos : 0 < ap.step := by omega
  have d1 := doy_le_year ap.leap ap.st_month ap.st_day w1 w2 w4
  have d2 := doy_le_year ap.leap ap.end_month ap.end_day w6 w7 w9
  have hst : ap.stMoy = (daysBefore ap.leap ap.st_month + ap.st_day - 1) * 1440 := by
    simp only [AP.stMoy, AP.stTime, moy_of_fields, h0]; omega
  have hen : ap.endMoy + 60 = (daysBefore ap.leap ap.end_month + ap.end_day) * 1440 := by
    simp only [AP.endMoy, AP.endTime, moy_of_fields, h23]; omega
  have hstY : ap.stMoy < minutesInYear ap.leap := by rw [hst, hYd]; omega
  have henY : ap.endMoy + 60 ≤ minutesInYear ap.leap := by rw [hen, hYd]; omega
  have hsst : ap.step ∣ ap.stMoy := step_dvd_of_1440 _ hs12 _ (by rw [hst]; omega)
  have hsY : ap.step ∣ minutesInYear ap.leap := step_dvd_of_1440 _ hs12 _ (by rw [hYd]; omega)
  have hP : ∀ m, m ∈ ap.moys ↔ (m < minutesInYear ap.leap ∧ m % ap.step = 0 ∧
      ((ap.stMoy ≤ ap.endMoy ∧ ap.stMoy ≤ m ∧ m < ap.endMoy + 60) ∨
       (ap.endMoy < ap.stMoy ∧ (ap.stMoy ≤ m ∨ m < ap.endMoy + 60)))) := by
    intro m
    rw [AP.C04_mem_moys ap hwf m]
    unfold AP.Pred AP.inWindow
    rw [h0, h23]
    simp
  have hck : ∀ m, ap.chronoKey m = (m + minutesInYear ap.leap - ap.stMoy) % minutesInYear ap.leap :=
    fun m => rfl
  have hKinc := AP.C04_moys_chrono ap hwf
  have hmul : ∀ c ∈ ap.moys.map ap.chronoKey, c % ap.step = 0 := by
    intro c hc
    obtain ⟨m, hm, rfl⟩ := List.mem_map.mp hc
    obtain ⟨p1, p2, -⟩ := (hP m).mp hm
    have := (key_arith _ ap.step ap.stMoy m hY hsst hsY hstY p1 (Nat.dvd_of_mod_eq_zero p2)).1
    rw [hck]; exact Nat.mod_eq_zero_of_dvd this
  have hcl : ∀ c ∈ ap.moys.map ap.chronoKey, ∀ c', c' < c → c' % ap.step = 0 →
      c' ∈ ap.moys.map ap.chronoKey := by
    intro c hc c' hlt hc's
    obtain ⟨m, hm, rfl⟩ := List.mem_map.mp hc
    obtain ⟨p1, p2, p3⟩ := (hP m).mp hm
    rw [hck] at hlt
    obtain ⟨q1, q2, q3, q4⟩ := closure_arith _ ap.step ap.stMoy ap.endMoy m c' hY hsst hsY hstY henY p1 p3
      hlt (Nat.dvd_of_mod_eq_zero hc's)
    refine List.mem_map.mpr ⟨(ap.stMoy + c') % minutesInYear ap.leap, ?_, ?_⟩
    · exact (hP _).mpr ⟨q1, Nat.mod_eq_zero_of_dvd q2, q3⟩
    · rw [hck]; exact q4
  have hKi := multiples_of_closed ap.step spos _ hKinc hmul hcl
  refine ⟨spos, hstY, hY, ?_, ?_⟩
  · intro i hi
    have hiK : i < (ap.moys.map ap.chronoKey).length := by simpa using hi
    have hk := hKi i hiK
    rw [List.getElem_map, hck] at hk
    have hmem : ap.moys[i] ∈ ap.moys := List.getElem_mem hi
    obtain ⟨p1, p2, -⟩ := (hP _).mp hmem
    have := (key_arith _ ap.step ap.stMoy ap.moys[i] hY hsst hsY hstY p1 (Nat.dvd_of_mod_eq_zero p2)).2.2
    rw [hk] at this
    rw [List.getElem?_eq_getElem hi, this]
  · cases hN : ap.moys.length with
    | zero => simp; omega
    | succ n =>
      have hn : n < ap.moys.length := by omega
      have hiK : n < (ap.moys.map ap.chronoKey).length := by simpa using hn
      have hk := hKi n hiK
      rw [List.getElem_map, hck] at hk
      have hmem : ap.moys[n] ∈ ap.moys := List.getElem_mem hn
      obtain ⟨p1, p2, -⟩ := (hP _).mp hmem
      have := (key_arith _ ap.step ap.stMoy ap.moys[n] hY hsst hsY hstY p1 (Nat.dvd_of_mod_eq_zero p2)).2.1
      simp only [Nat.add_sub_cancel]
      omega

/-! ### `interpolate_holes` at full strength -/

/-- The data of the collection that holds value `p.2` at step number `p.1` of its period. -/
def dataOf (ap : AP) (idx : List (Nat × Rat)) : List (Nat × Rat) :=
  idx.map fun p => (ap.moys.getD p.1 0, p.2)

theorem holes_full (ap : AP) (hwf : ap.WF) (h0 : ap.st_hour = 0) (h23 : ap.end_hour = 23)
    (idx : List (Nat × Rat)) (hinc : (idx.map (·.1)).Pairwise (· < ·))
    (hlt : ∀ p ∈ idx, p.1 < ap.moys.length) (first last : Nat × Rat)
    (hfirst : idx.head? = some first) (hlast : idx.getLast? = some last) :
    ∃ r, interpolateHoles ap true (dataOf ap idx) = .ok r ∧ r.length = ap.len ∧
      (∀ p ∈ idx, r[p.1]? = some p.2) ∧
      (∀ k, k < first.1 → r[k]? = some first.2) ∧
      (∀ k, last.1 < k → k < ap.len → r[k]? = some last.2) ∧
      (∀ q ∈ idx.zip idx.tail, ∀ k, q.1.1 < k → k < q.2.1 →
        ∃ x, r[k]? = some x ∧ min q.1.2 q.2.2 ≤ x ∧ x ≤ max q.1.2 q.2.2) := by
  obtain ⟨spos, hstY, hY, hG, hN⟩ := moys_grid ap hwf h0 h23
  have hlen := AP.C04_len ap hwf
  have hfm : first ∈ idx := List.mem_of_mem_head? hfirst
  have hlm : last ∈ idx := List.mem_of_mem_getLast? hlast
  have hfN := hlt first hfm
  have hlN := hlt last hlm
  have hfle : ∀ p ∈ idx, first.1 ≤ p.1 := by
    intro p hp
    cases idx with
    | nil => simp at hp
    | cons a t =>
      simp at hfirst; subst hfirst
      rcases List.mem_cons.mp hp with rfl | hp
      · exact Nat.le_refl _
      · have := (List.pairwise_cons.mp (show (a.1 :: t.map (·.1)).Pairwise (· < ·) from hinc)).1 p.1
          (List.mem_map.mpr ⟨p, hp, rfl⟩)
        omega
  -- the data in grid form
  have hdata : dataOf ap idx = idx.map fun p =>
      ((ap.stMoy + p.1 * ap.step) % minutesInYear ap.leap, p.2) := by
    unfold dataOf
    apply List.map_congr_left
    intro p hp
    have := hG p.1 (hlt p hp)
    rw [List.getD_eq_getElem?_getD, this]
    rfl
  obtain ⟨mid, hgo, hgood⟩ := holesGo_good (minutesInYear ap.leap) ap.step ap.stMoy ap.moys spos hY hG hN
    idx last.2 first.1 hinc (fun p hp => ⟨hfle p hp, hlt p hp⟩)
  obtain ⟨g1, g2, g3, g4⟩ := good_spec idx last.2 first.1 mid hgood hinc hfle
  rw [hlast] at g1
  simp only at g1
  have hlf : first.1 ≤ last.1 := hfle last hlm
  -- the three scrutinees of `interpolate_holes`
  have hgh : ap.moys.head? = some ap.stMoy := by
    have := hG 0 (by omega)
    rw [List.head?_eq_getElem?, this]
    simp [Nat.mod_eq_of_lt hstY]
  have hdh : (dataOf ap idx).head? =
      some ((ap.stMoy + first.1 * ap.step) % minutesInYear ap.leap, first.2) := by
    rw [hdata, List.head?_map, hfirst]; rfl
  have hdl : (dataOf ap idx).getLast? =
      some ((ap.stMoy + last.1 * ap.step) % minutesInYear ap.leap, last.2) := by
    rw [hdata, List.getLast?_map, hlast]; rfl
  have hfs : first.1 * ap.step < minutesInYear ap.leap := by
    have : first.1 * ap.step ≤ (ap.moys.length - 1) * ap.step := Nat.mul_le_mul_right _ (by omega)
    omega
  have hlead : (if ap.stMoy ≠ (ap.stMoy + first.1 * ap.step) % minutesInYear ap.leap then
      ((ap.stMoy + first.1 * ap.step) % minutesInYear ap.leap + minutesInYear ap.leap - ap.stMoy) %
        minutesInYear ap.leap / ap.step else 0) = first.1 := by
    have hd := grid_dist (minutesInYear ap.leap) ap.step ap.stMoy first.1 0 hY (by omega) (by simpa using hfs)
    simp only [Nat.zero_mul, Nat.add_zero, Nat.mod_eq_of_lt hstY, Nat.sub_zero] at hd
    split
    · rw [hd, Nat.mul_div_cancel _ spos]
    · rename_i hne
      have he : ap.stMoy = (ap.stMoy + first.1 * ap.step) % minutesInYear ap.leap := by
        by_contra hc; exact hne hc
      have := grid_inj (minutesInYear ap.leap) ap.step ap.stMoy first.1 0 hY spos (by omega)
        (by simpa using hfs) (by simpa [Nat.mod_eq_of_lt hstY] using he)
      omega
  have hr : interpolateHoles ap true (dataOf ap idx) =
      .ok (List.replicate first.1 first.2 ++ mid ++
        List.replicate (ap.moys.length - (List.replicate first.1 first.2 ++ mid).length) last.2) := by
    unfold interpolateHoles
    simp only [Bool.true_eq_false, if_false]
    rw [hgh, hdh, hdl]
    simp only
    rw [show (60 / ap.timestep) = ap.step from rfl]
    rw [hlead]
    have hgo' : holesGo (minutesInYear ap.leap) ap.step (dataOf ap idx) (List.drop first.1 ap.moys) last.2 =
        .ok mid := by rw [hdata]; exact hgo
    rw [hgo']
    simp only
    rw [if_neg (by omega)]
    rw [if_neg (by simp [g1, hlen]; omega)]
  refine ⟨_, hr, ?_, ?_, ?_, ?_, ?_⟩
  · simp [g1, hlen]; omega
  · intro p hp
    have h1 := hfle p hp
    have h2 := g2 p hp
    have h3 : p.1 - first.1 < mid.length := by
      rcases Nat.lt_or_ge (p.1 - first.1) mid.length with h | h
      · exact h
      · rw [List.getElem?_eq_none h] at h2; cases h2
    rw [List.append_assoc, List.getElem?_append_right (by simp; omega)]
    simp only [List.length_replicate]
    rw [List.getElem?_append_left h3]
    exact h2
  · intro k hk
    rw [List.append_assoc, List.getElem?_append_left (by simpa using hk)]
    simp [hk]
  · intro k hk1 hk2
    rw [List.getElem?_append_right (by simp [g1]; omega)]
    rw [List.getElem?_replicate]
    rw [if_pos (by simp [g1, hlen] at hk2 ⊢; omega)]
  · intro q hq k hk1 hk2
    have hq1 : q.1 ∈ idx := (List.of_mem_zip hq).1
    have hq2 : q.2 ∈ idx.tail := (List.of_mem_zip hq).2
    have h1 := hfle q.1 hq1
    obtain ⟨x, hx, hb⟩ := g4 q hq k hk1 hk2
    have h3 : k - first.1 < mid.length := by
      rcases Nat.lt_or_ge (k - first.1) mid.length with h | h
      · exact h
      · rw [List.getElem?_eq_none h] at hx; cases hx
    refine ⟨x, ?_, hb⟩
    rw [List.append_assoc, List.getElem?_append_right (by simp; omega)]
    simp only [List.length_replicate]
    rw [List.getElem?_append_left h3]
    exact hx

end Resample
