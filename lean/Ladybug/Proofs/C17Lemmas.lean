/-
  Helper lemmas for C17 (plots).  No Mathlib.
-/
import Ladybug.Model.Plot
import Ladybug.Props.C04

open Cal

namespace Plot

/-! ### The greedy pattern -/

/-- The entries of `M` at the `True` positions of a pattern. -/
def pickTrue {α : Type} : List α → List Bool → List α
  | m :: ms, b :: bs => if b then m :: pickTrue ms bs else pickTrue ms bs
  | _, _ => []

theorem pattern_length (M D : List Nat) : (pattern M D).length = M.length := by
  induction M generalizing D with
  | nil => simp [pattern]
  | cons m ms ih =>
    cases D with
    | nil => simp [pattern, ih]
    | cons d ds =>
      simp only [pattern]
      split <;> simp [ih]

theorem pattern_nil (M : List Nat) : pattern M [] = List.replicate M.length false := by
  induction M with
  | nil => simp [pattern]
  | cons m ms ih => simp [pattern, ih, List.replicate_succ]

theorem pickTrue_replicate_false {α : Type} (M : List α) (n : Nat) :
    pickTrue M (List.replicate n false) = [] := by
  induction M generalizing n with
  | nil => cases n <;> simp [pickTrue, List.replicate_succ]
  | cons m ms ih =>
    cases n with
    | zero => simp [pickTrue]
    | succ n => simp [pickTrue, List.replicate_succ, ih]

/-- The greedy loop marks exactly the data: picking the steps at the marked positions gives the data
    list back, whenever the data is a sub-list (same order) of the steps. -/
theorem pickTrue_pattern (M D : List Nat) (h : D.Sublist M) : pickTrue M (pattern M D) = D := by
  induction M generalizing D with
  | nil => cases D with
    | nil => simp [pattern, pickTrue]
    | cons d ds => simp at h
  | cons m ms ih =>
    cases D with
    | nil => simp [pattern_nil, pickTrue_replicate_false]
    | cons d ds =>
      simp only [pattern]
      by_cases hmd : m = d
      · subst hmd
        simp only [if_true, pickTrue]
        rw [ih ds (List.cons_sublist_cons.mp h)]
      · simp only [hmd, if_false, pickTrue]
        cases h with
        | cons _ h' => exact ih _ h'
        | cons_cons _ h' => exact absurd rfl hmd

theorem keptFrom_ge (pat : List Bool) (i j : Nat) (hj : j ∈ keptFrom i pat) : i ≤ j := by
  induction pat generalizing i with
  | nil => simp [keptFrom] at hj
  | cons b bs ih =>
    simp only [keptFrom] at hj
    split at hj
    · cases hj with
      | head => exact Nat.le_refl _
      | tail _ h => exact Nat.le_of_succ_le (ih (i + 1) h)
    · exact Nat.le_of_succ_le (ih (i + 1) hj)

theorem keptFrom_lt (pat : List Bool) (i j : Nat) (hj : j ∈ keptFrom i pat) : j < i + pat.length := by
  induction pat generalizing i with
  | nil => simp [keptFrom] at hj
  | cons b bs ih =>
    simp only [keptFrom] at hj
    split at hj
    · cases hj with
      | head => simp
      | tail _ h => have := ih (i + 1) h; simp; omega
    · have := ih (i + 1) hj; simp; omega

/-- Positions and picked entries agree. -/
theorem keptFrom_pick {α : Type} (M : List α) (pat : List Bool) (d : α) (i : Nat)
    (hl : pat.length = M.length) :
    (keptFrom i pat).map (fun j => M.getD (j - i) d) = pickTrue M pat := by
  induction M generalizing pat i with
  | nil => cases pat with
    | nil => simp [keptFrom, pickTrue]
    | cons b bs => simp at hl
  | cons m ms ih =>
    cases pat with
    | nil => simp at hl
    | cons b bs =>
      have hl' : bs.length = ms.length := by simpa using hl
      have key : (keptFrom (i + 1) bs).map (fun j => (m :: ms).getD (j - i) d) =
          (keptFrom (i + 1) bs).map (fun j => ms.getD (j - (i + 1)) d) := by
        apply List.map_congr_left
        intro j hj
        have := keptFrom_ge bs (i + 1) j hj
        have e : j - i = (j - (i + 1)) + 1 := by omega
        rw [e]; simp
      cases b with
      | true =>
        simp only [keptFrom, pickTrue, if_true, List.map_cons, Nat.sub_self]
        rw [key, ih bs (i + 1) hl']
        simp
      | false =>
        simp only [keptFrom, pickTrue, Bool.false_eq_true, if_false]
        rw [key, ih bs (i + 1) hl']

theorem keptFrom_length_pick {α : Type} (M : List α) (pat : List Bool) (i : Nat)
    (hl : pat.length = M.length) : (keptFrom i pat).length = (pickTrue M pat).length := by
  induction M generalizing pat i with
  | nil => cases pat with
    | nil => simp [keptFrom, pickTrue]
    | cons b bs => simp at hl
  | cons m ms ih =>
    cases pat with
    | nil => simp at hl
    | cons b bs =>
      have hl' : bs.length = ms.length := by simpa using hl
      cases b <;> simp [keptFrom, pickTrue, ih bs (i + 1) hl']

/-! ### The steps of a period as a day × time-of-day grid -/

/-- Column by column: `st + c * 1440 + r * S` for day column `c < nx`, row `r < ny`. -/
def gridList (st nx ny S : Nat) : List Nat :=
  (List.range nx).flatMap fun c => (List.range ny).map fun r => st + c * 1440 + r * S

theorem mem_gridList (st nx ny S x : Nat) :
    x ∈ gridList st nx ny S ↔ ∃ c, c < nx ∧ ∃ r, r < ny ∧ st + c * 1440 + r * S = x := by
  simp [gridList, List.mem_flatMap, List.mem_map, List.mem_range]

theorem gridList_length (st nx ny S : Nat) : (gridList st nx ny S).length = nx * ny := by
  unfold gridList
  induction nx with
  | zero => simp
  | succ n ih =>
    rw [List.range_succ, List.flatMap_append, List.length_append, ih]
    simp [Nat.succ_mul]

theorem gridList_sorted (st nx ny S : Nat) (hS : 0 < S) (h : ∀ r, r < ny → r * S < 1440) :
    (gridList st nx ny S).Pairwise (· < ·) := by
  unfold gridList
  rw [List.pairwise_flatMap]
  constructor
  · intro c _
    rw [List.pairwise_map]
    refine List.Pairwise.imp ?_ List.pairwise_lt_range
    intro a b hab
    have : a * S < b * S := Nat.mul_lt_mul_of_pos_right hab hS
    omega
  · refine List.Pairwise.imp ?_ List.pairwise_lt_range
    intro a b hab x hx y hy
    simp only [List.mem_map, List.mem_range] at hx hy
    obtain ⟨r1, hr1, rfl⟩ := hx
    obtain ⟨r2, _, rfl⟩ := hy
    have := h r1 hr1
    omega

/-- The entry at position `c * ny + r`. -/
theorem gridList_get (st nx ny S c r : Nat) (hc : c < nx) (hr : r < ny) :
    (gridList st nx ny S)[c * ny + r]? = some (st + c * 1440 + r * S) := by
  unfold gridList
  induction nx generalizing c with
  | zero => omega
  | succ n ih =>
    rw [List.range_succ, List.flatMap_append]
    have hlen : ((List.range n).flatMap fun c => (List.range ny).map fun r => st + c * 1440 + r * S).length
        = n * ny := gridList_length st n ny S
    by_cases hcn : c < n
    · rw [List.getElem?_append_left]
      · exact ih c hcn
      · rw [hlen]
        have : c * ny + ny ≤ n * ny := by
          have := Nat.mul_le_mul_right ny (Nat.succ_le_of_lt hcn)
          rw [Nat.succ_mul] at this; exact this
        omega
    · have hcn' : c = n := by omega
      subst hcn'
      rw [List.getElem?_append_right (by rw [hlen]; omega), hlen]
      simp [hr]

/-- Two strictly increasing lists with the same members are equal. -/
theorem sorted_ext : ∀ (l₁ l₂ : List Nat), l₁.Pairwise (· < ·) → l₂.Pairwise (· < ·) →
    (∀ x, x ∈ l₁ ↔ x ∈ l₂) → l₁ = l₂
  | [], [], _, _, _ => rfl
  | [], b :: bs, _, _, h => by have := (h b).mpr (by simp); simp at this
  | a :: as, [], _, _, h => by have := (h a).mp (by simp); simp at this
  | a :: as, b :: bs, h1, h2, h => by
    rw [List.pairwise_cons] at h1 h2
    have ha : a ∈ b :: bs := (h a).mp (by simp)
    have hb : b ∈ a :: as := (h b).mpr (by simp)
    have hab : a = b := by
      rcases List.mem_cons.mp ha with e | e
      · exact e
      · rcases List.mem_cons.mp hb with e' | e'
        · exact e'.symm
        · have := h1.1 b e'; have := h2.1 a e; omega
    subst hab
    have : as = bs := by
      apply sorted_ext as bs h1.2 h2.2
      intro x
      constructor
      · intro hx
        rcases List.mem_cons.mp ((h x).mp (List.mem_cons_of_mem _ hx)) with e | e
        · have := h1.1 x hx; omega
        · exact e
      · intro hx
        rcases List.mem_cons.mp ((h x).mpr (List.mem_cons_of_mem _ hx)) with e | e
        · have := h2.1 x hx; omega
        · exact e
    rw [this]

/-- Pure arithmetic core: the description of the steps of a non-wrapping period with a daytime
    window is the day × row grid. -/
theorem pred_grid_nat (ts S sh eh A B Y x : Nat)
    (hts : (ts = 1 ∧ S = 60) ∨ (ts = 2 ∧ S = 30) ∨ (ts = 3 ∧ S = 20) ∨ (ts = 4 ∧ S = 15) ∨
      (ts = 5 ∧ S = 12) ∨ (ts = 6 ∧ S = 10) ∨ (ts = 10 ∧ S = 6) ∨ (ts = 12 ∧ S = 5) ∨
      (ts = 15 ∧ S = 4) ∨ (ts = 20 ∧ S = 3) ∨ (ts = 30 ∧ S = 2) ∨ (ts = 60 ∧ S = 1))
    (hse : sh ≤ eh) (he : eh ≤ 23) (hA : 1 ≤ A) (hAB : A ≤ B)
    (hY : ((B - 1) * 24 + eh) * 60 + 60 ≤ Y) :
    (x < Y ∧ x % S = 0 ∧ ((sh * 60 ≤ x % 1440 ∧ x % 1440 ≤ eh * 60) ∨ (sh = 0 ∧ eh = 23)) ∧
      ((A - 1) * 24 + sh) * 60 ≤ x ∧ x < ((B - 1) * 24 + eh) * 60 + 60) ↔
    ∃ c, c < B - A + 1 ∧ ∃ r, r < (if sh = 0 ∧ eh = 23 then 24 * ts else (eh - sh) * ts + 1) ∧
      ((A - 1) * 24 + sh) * 60 + c * 1440 + r * S = x := by
  by_cases hw : sh = 0 ∧ eh = 23
  · rw [if_pos hw]
    obtain ⟨rfl, rfl⟩ := hw
    constructor
    · rintro ⟨h1, h2, _, h4, h5⟩
      refine ⟨x / 1440 - (A - 1), ?_, x % 1440 / S, ?_, ?_⟩ <;>
        rcases hts with ⟨rfl, rfl⟩ | ⟨rfl, rfl⟩ | ⟨rfl, rfl⟩ | ⟨rfl, rfl⟩ | ⟨rfl, rfl⟩ | ⟨rfl, rfl⟩ |
          ⟨rfl, rfl⟩ | ⟨rfl, rfl⟩ | ⟨rfl, rfl⟩ | ⟨rfl, rfl⟩ | ⟨rfl, rfl⟩ | ⟨rfl, rfl⟩ <;> omega
    · rintro ⟨c, hc, r, hr, rfl⟩
      rcases hts with ⟨rfl, rfl⟩ | ⟨rfl, rfl⟩ | ⟨rfl, rfl⟩ | ⟨rfl, rfl⟩ | ⟨rfl, rfl⟩ | ⟨rfl, rfl⟩ |
          ⟨rfl, rfl⟩ | ⟨rfl, rfl⟩ | ⟨rfl, rfl⟩ | ⟨rfl, rfl⟩ | ⟨rfl, rfl⟩ | ⟨rfl, rfl⟩ <;>
        refine ⟨by omega, by omega, Or.inr ⟨rfl, rfl⟩, by omega, by omega⟩
  · rw [if_neg hw]
    constructor
    · rintro ⟨h1, h2, h3, h4, h5⟩
      have h3' : sh * 60 ≤ x % 1440 ∧ x % 1440 ≤ eh * 60 := by
        rcases h3 with h | h
        · exact h
        · exact absurd h hw
      refine ⟨x / 1440 - (A - 1), ?_, (x % 1440 - sh * 60) / S, ?_, ?_⟩ <;>
        rcases hts with ⟨rfl, rfl⟩ | ⟨rfl, rfl⟩ | ⟨rfl, rfl⟩ | ⟨rfl, rfl⟩ | ⟨rfl, rfl⟩ | ⟨rfl, rfl⟩ |
          ⟨rfl, rfl⟩ | ⟨rfl, rfl⟩ | ⟨rfl, rfl⟩ | ⟨rfl, rfl⟩ | ⟨rfl, rfl⟩ | ⟨rfl, rfl⟩ <;> omega
    · rintro ⟨c, hc, r, hr, rfl⟩
      rcases hts with ⟨rfl, rfl⟩ | ⟨rfl, rfl⟩ | ⟨rfl, rfl⟩ | ⟨rfl, rfl⟩ | ⟨rfl, rfl⟩ | ⟨rfl, rfl⟩ |
          ⟨rfl, rfl⟩ | ⟨rfl, rfl⟩ | ⟨rfl, rfl⟩ | ⟨rfl, rfl⟩ | ⟨rfl, rfl⟩ | ⟨rfl, rfl⟩ <;>
        refine ⟨by omega, by omega, Or.inl (by omega), by omega, by omega⟩

theorem ts_pairs (mp : AP) (hts : mp.timestep ∈ Gen.Ap.validTimesteps) :
    (mp.timestep = 1 ∧ mp.step = 60) ∨ (mp.timestep = 2 ∧ mp.step = 30) ∨ (mp.timestep = 3 ∧ mp.step = 20) ∨
    (mp.timestep = 4 ∧ mp.step = 15) ∨ (mp.timestep = 5 ∧ mp.step = 12) ∨ (mp.timestep = 6 ∧ mp.step = 10) ∨
    (mp.timestep = 10 ∧ mp.step = 6) ∨ (mp.timestep = 12 ∧ mp.step = 5) ∨ (mp.timestep = 15 ∧ mp.step = 4) ∨
    (mp.timestep = 20 ∧ mp.step = 3) ∨ (mp.timestep = 30 ∧ mp.step = 2) ∨ (mp.timestep = 60 ∧ mp.step = 1) := by
  unfold AP.step
  rcases AP.ts_cases hts with h | h | h | h | h | h | h | h | h | h | h | h <;> simp [h]

theorem rows_fit (ts S sh eh r : Nat)
    (hts : (ts = 1 ∧ S = 60) ∨ (ts = 2 ∧ S = 30) ∨ (ts = 3 ∧ S = 20) ∨ (ts = 4 ∧ S = 15) ∨
      (ts = 5 ∧ S = 12) ∨ (ts = 6 ∧ S = 10) ∨ (ts = 10 ∧ S = 6) ∨ (ts = 12 ∧ S = 5) ∨
      (ts = 15 ∧ S = 4) ∨ (ts = 20 ∧ S = 3) ∨ (ts = 30 ∧ S = 2) ∨ (ts = 60 ∧ S = 1))
    (hse : sh ≤ eh) (he : eh ≤ 23)
    (hr : r < (if sh = 0 ∧ eh = 23 then 24 * ts else (eh - sh) * ts + 1)) : r * S < 1440 ∧ 0 < S := by
  by_cases hw : sh = 0 ∧ eh = 23
  · rw [if_pos hw] at hr
    rcases hts with ⟨rfl, rfl⟩ | ⟨rfl, rfl⟩ | ⟨rfl, rfl⟩ | ⟨rfl, rfl⟩ | ⟨rfl, rfl⟩ | ⟨rfl, rfl⟩ |
      ⟨rfl, rfl⟩ | ⟨rfl, rfl⟩ | ⟨rfl, rfl⟩ | ⟨rfl, rfl⟩ | ⟨rfl, rfl⟩ | ⟨rfl, rfl⟩ <;> omega
  · rw [if_neg hw] at hr
    rcases hts with ⟨rfl, rfl⟩ | ⟨rfl, rfl⟩ | ⟨rfl, rfl⟩ | ⟨rfl, rfl⟩ | ⟨rfl, rfl⟩ | ⟨rfl, rfl⟩ |
      ⟨rfl, rfl⟩ | ⟨rfl, rfl⟩ | ⟨rfl, rfl⟩ | ⟨rfl, rfl⟩ | ⟨rfl, rfl⟩ | ⟨rfl, rfl⟩ <;> omega

theorem numY_daytime (mp : AP) (hno : mp.st_hour ≤ mp.end_hour) :
    numY mp = if mp.st_hour = 0 ∧ mp.end_hour = 23 then 24 * mp.timestep
      else (mp.end_hour - mp.st_hour) * mp.timestep + 1 := by
  unfold numY
  by_cases hw : mp.st_hour = 0 ∧ mp.end_hour = 23
  · rw [if_pos hw, if_pos hw]
  · rw [if_neg hw, if_neg hw, if_pos hno]

/-- **The enumeration of a non-wrapping period with a daytime (or whole-day) window is the grid**:
    day column by day column, `numY` rows each, starting at the start moment. -/
theorem moys_eq_grid (mp : AP) (hwf : mp.WF) (hno : mp.st_hour ≤ mp.end_hour)
    (hnr : mp.isReversed = false) :
    mp.moys = gridList mp.stMoy (numX mp) (numY mp) mp.step := by
  obtain ⟨hs, he, _, _, _, _, _, m6, hrev⟩ := AP.moment_facts mp hwf
  have hle : mp.stMoy ≤ mp.endMoy := hrev.mp hnr
  have hts := ts_pairs mp hwf.2.2
  have e1 : mp.stMoy = ((mp.stTime.doy - 1) * 24 + mp.st_hour) * 60 := by
    simp [AP.stMoy, DT.moy, DT.intHoy, AP.stTime]
  have e2 : mp.endMoy = ((mp.endTime.doy - 1) * 24 + mp.end_hour) * 60 := by
    simp [AP.endMoy, DT.moy, DT.intHoy, AP.endTime]
  have hA : 1 ≤ mp.stTime.doy := by
    have := hwf.1.2.2.1
    unfold DT.doy; omega
  have hB : 1 ≤ mp.endTime.doy := by
    have := hwf.2.1.2.2.1
    unfold DT.doy; omega
  have hAB : mp.stTime.doy ≤ mp.endTime.doy := by rw [e1, e2] at hle; omega
  have hnx : numX mp = mp.endTime.doy - mp.stTime.doy + 1 := by unfold numX; rw [if_pos hnr]
  have hny := numY_daytime mp hno
  apply sorted_ext _ _ (AP.C04_moys_sorted mp hwf hnr)
  · apply gridList_sorted
    · exact (rows_fit _ _ _ _ 0 hts hno he (by rw [← hny]; unfold numY; split <;> (try split) <;> omega)).2
    · intro r hr
      rw [hny] at hr
      exact (rows_fit _ _ _ _ r hts hno he hr).1
  · intro x
    rw [AP.C04_mem_moys mp hwf, mem_gridList, hnx, hny]
    have key := pred_grid_nat mp.timestep mp.step mp.st_hour mp.end_hour mp.stTime.doy mp.endTime.doy
      (minutesInYear mp.leap) x hts hno he hA hAB (by rw [← e2]; exact m6)
    rw [← e1, ← e2] at key
    rw [← key]
    unfold AP.Pred AP.inWindow
    rw [if_pos hno]
    constructor
    · rintro ⟨h1, h2, h3, h4⟩
      refine ⟨h1, h2, h3, ?_⟩
      rcases h4 with h | h
      · exact ⟨h.2.1, h.2.2⟩
      · omega
    · rintro ⟨h1, h2, h3, h4, h5⟩
      exact ⟨h1, h2, h3, Or.inl ⟨hle, h4, h5⟩⟩

theorem moys_length_grid (mp : AP) (hwf : mp.WF) (hno : mp.st_hour ≤ mp.end_hour)
    (hnr : mp.isReversed = false) : mp.moys.length = numX mp * numY mp := by
  rw [moys_eq_grid mp hwf hno hnr, gridList_length]

/-! ### Cells of the grid entries -/

/-- Day column of a minute of the year in the plot of `ap`: whole days since the start day. -/
def colOf (ap : AP) (m : Nat) : Nat := m / 1440 - ap.stMoy / 1440

/-- Row of a minute of the year: steps since the first hour of the plotted window. -/
def rowOf (ap : AP) (m : Nat) : Nat := (m % 1440 - (mAper ap).st_hour * 60) / ap.step

theorem cell_nat (ts S sh eh A c r ny : Nat)
    (hts : (ts = 1 ∧ S = 60) ∨ (ts = 2 ∧ S = 30) ∨ (ts = 3 ∧ S = 20) ∨ (ts = 4 ∧ S = 15) ∨
      (ts = 5 ∧ S = 12) ∨ (ts = 6 ∧ S = 10) ∨ (ts = 10 ∧ S = 6) ∨ (ts = 12 ∧ S = 5) ∨
      (ts = 15 ∧ S = 4) ∨ (ts = 20 ∧ S = 3) ∨ (ts = 30 ∧ S = 2) ∨ (ts = 60 ∧ S = 1))
    (hse : sh ≤ eh) (he : eh ≤ 23)
    (hny : ny = (if sh = 0 ∧ eh = 23 then 24 * ts else (eh - sh) * ts + 1)) (hr : r < ny) :
    (((A - 1) * 24 + sh) * 60 + c * 1440 + r * S) / 1440 - (((A - 1) * 24 + sh) * 60) / 1440 = c ∧
    ((((A - 1) * 24 + sh) * 60 + c * 1440 + r * S) % 1440 - sh * 60) / S = r := by
  subst hny
  by_cases hw : sh = 0 ∧ eh = 23
  · rw [if_pos hw] at hr
    rcases hts with ⟨rfl, rfl⟩ | ⟨rfl, rfl⟩ | ⟨rfl, rfl⟩ | ⟨rfl, rfl⟩ | ⟨rfl, rfl⟩ | ⟨rfl, rfl⟩ |
      ⟨rfl, rfl⟩ | ⟨rfl, rfl⟩ | ⟨rfl, rfl⟩ | ⟨rfl, rfl⟩ | ⟨rfl, rfl⟩ | ⟨rfl, rfl⟩ <;> omega
  · rw [if_neg hw] at hr
    rcases hts with ⟨rfl, rfl⟩ | ⟨rfl, rfl⟩ | ⟨rfl, rfl⟩ | ⟨rfl, rfl⟩ | ⟨rfl, rfl⟩ | ⟨rfl, rfl⟩ |
      ⟨rfl, rfl⟩ | ⟨rfl, rfl⟩ | ⟨rfl, rfl⟩ | ⟨rfl, rfl⟩ | ⟨rfl, rfl⟩ | ⟨rfl, rfl⟩ <;> omega

/-- In a daytime/whole-day, non-wrapping period the step at grid position `i` lies in day column
    `i / numY` and row `i % numY`. -/
theorem grid_cell (mp : AP) (hwf : mp.WF) (hno : mp.st_hour ≤ mp.end_hour)
    (hnr : mp.isReversed = false) (i : Nat) (hi : i < numX mp * numY mp) :
    ∃ m, mp.moys[i]? = some m ∧ m / 1440 - mp.stMoy / 1440 = i / numY mp ∧
      (m % 1440 - mp.st_hour * 60) / mp.step = i % numY mp := by
  have hny0 : 0 < numY mp := by
    rcases Nat.eq_zero_or_pos (numY mp) with h | h
    · rw [h] at hi; omega
    · exact h
  have hc : i / numY mp < numX mp := by
    rw [Nat.div_lt_iff_lt_mul hny0]; exact hi
  have hr : i % numY mp < numY mp := Nat.mod_lt _ hny0
  have hget := gridList_get mp.stMoy (numX mp) (numY mp) mp.step _ _ hc hr
  rw [Nat.div_add_mod' i (numY mp)] at hget
  rw [moys_eq_grid mp hwf hno hnr]
  refine ⟨_, hget, ?_⟩
  obtain ⟨_, he, _, _, _, _, _, _, _⟩ := AP.moment_facts mp hwf
  have e1 : mp.stMoy = ((mp.stTime.doy - 1) * 24 + mp.st_hour) * 60 := by
    simp [AP.stMoy, DT.moy, DT.intHoy, AP.stTime]
  rw [e1]
  exact cell_nat mp.timestep mp.step mp.st_hour mp.end_hour mp.stTime.doy _ _ (numY mp)
    (ts_pairs mp hwf.2.2) hno he (numY_daytime mp hno) hr

/-! ### From the period of the collection to the period that indexes the faces -/

theorem mAper_facts (ap : AP) (hwf : ap.WF) (hnr : ap.isReversed = false) :
    (mAper ap).WF ∧ (mAper ap).st_hour ≤ (mAper ap).end_hour ∧ (mAper ap).isReversed = false ∧
    numX (mAper ap) = numX ap ∧ numY (mAper ap) = numY ap ∧
    (mAper ap).stMoy / 1440 = ap.stMoy / 1440 ∧ (mAper ap).step = ap.step := by
  unfold mAper
  by_cases h : ap.st_hour ≤ ap.end_hour
  · rw [if_pos h]; exact ⟨hwf, h, hnr, rfl, rfl, rfl, rfl⟩
  · rw [if_neg h]
    obtain ⟨hv1, hv2, hts⟩ := hwf
    have hs : ap.st_hour ≤ 23 := hv1.2.2.2.2.1
    have hr : ¬ (ap.endTime.intHoy < ap.stTime.intHoy) := by
      simpa [AP.isReversed] using hnr
    simp only [DT.intHoy, AP.stTime, AP.endTime, DT.doy] at hr
    have h2 : (decide ((⟨ap.end_month, ap.end_day, 23, 0, ap.leap⟩ : DT).intHoy <
        (⟨ap.st_month, ap.st_day, 0, 0, ap.leap⟩ : DT).intHoy)) = false := by
      rw [decide_eq_false_iff_not]
      show ¬ ((daysBefore ap.leap ap.end_month + ap.end_day - 1) * 24 + 23 <
        (daysBefore ap.leap ap.st_month + ap.st_day - 1) * 24 + 0)
      omega
    have h1 : (decide (ap.endTime.intHoy < ap.stTime.intHoy)) = false := by simpa [AP.isReversed] using hnr
    refine ⟨⟨?_, ?_, hts⟩, by simp, ?_, ?_, ?_, ?_, rfl⟩
    · exact ⟨hv1.1, hv1.2.1, hv1.2.2.1, hv1.2.2.2.1, by simp [AP.stTime], by simp [AP.stTime]⟩
    · exact ⟨hv2.1, hv2.2.1, hv2.2.2.1, hv2.2.2.2.1, by simp [AP.endTime], by simp [AP.endTime]⟩
    · exact h2
    · show (if (decide ((⟨ap.end_month, ap.end_day, 23, 0, ap.leap⟩ : DT).intHoy <
          (⟨ap.st_month, ap.st_day, 0, 0, ap.leap⟩ : DT).intHoy)) = false then _ else _) =
        (if (decide (ap.endTime.intHoy < ap.stTime.intHoy)) = false then _ else _)
      rw [if_pos h2, if_pos h1]
      rfl
    · have h0 : ¬ (ap.st_hour = 0 ∧ ap.end_hour = 23) := by omega
      simp [numY, h0, h]
    · show (((daysBefore ap.leap ap.st_month + ap.st_day - 1) * 24 + 0) * 60 + 0) / 1440 =
        (((daysBefore ap.leap ap.st_month + ap.st_day - 1) * 24 + ap.st_hour) * 60 + 0) / 1440
      omega

/-- Map/zip bookkeeping for the face list. -/
theorem faces_of_kept {α β : Type} (kept : List Nat) (data : List (Nat × α)) (M : List Nat)
    (f : Nat → β) (g : Nat → β)
    (hk : kept.map (fun j => M.getD j 0) = data.map (·.1))
    (hfg : ∀ j ∈ kept, f j = g (M.getD j 0)) :
    (kept.zip (data.map (·.2))).map (fun p => (f p.1, p.2)) = data.map fun p => (g p.1, p.2) := by
  have h1 : kept.map f = (data.map (·.1)).map g := by
    rw [← hk, List.map_map]
    exact List.map_congr_left hfg
  have h2 : (kept.zip (data.map (·.2))).map (fun p => (f p.1, p.2)) =
      (kept.map f).zip (data.map (·.2)) := by
    rw [List.zip_map_left]
    apply List.map_congr_left; intro p _; rfl
  rw [h2, h1, List.map_map, List.zip_map']
  rfl

end Plot
