/-
  Helper lemmas for the header round trip of C01 (insertion-ordered dictionaries, the per-line
  parse / render pairs).  Core Lean only.
-/
import Ladybug.Proofs.C01Lemmas

namespace Epw

/-! ### mapE / mapO by index -/

theorem mapE_of_forall {α β ε : Type} {f : α → Except ε β} :
    ∀ (l : List α) (l' : List β), l.length = l'.length →
      (∀ i (h1 : i < l.length) (h2 : i < l'.length), f l[i] = .ok l'[i]) → mapE f l = .ok l'
  | [], [], _, _ => rfl
  | [], _ :: _, h, _ => by simp at h
  | _ :: _, [], h, _ => by simp at h
  | a :: l, b :: l', hl, h => by
    have h0 := h 0 (by simp) (by simp)
    simp only [List.getElem_cons_zero] at h0
    have ih := mapE_of_forall l l' (by simpa using hl)
      (fun i h1 h2 => by
        have := h (i + 1) (by simpa using h1) (by simpa using h2)
        simp only [List.getElem_cons_succ] at this
        exact this)
    simp [mapE, h0, ih]

theorem mapO_map {α β : Type} (f : β → Option α) (g : α → β) :
    ∀ (l : List α), (∀ v ∈ l, f (g v) = some v) → mapO f (l.map g) = some l
  | [], _ => rfl
  | a :: l, h => by
    have h0 := h a (by simp)
    have ih := mapO_map f g l (fun v hv => h v (by simp [hv]))
    simp [mapO, h0, ih]

/-! ### insertion-ordered dictionaries -/

section dict
variable {K V : Type} [DecidableEq K]

theorem dictSet_fresh (d : List (K × V)) (k : K) (v : V) (h : ∀ p ∈ d, p.1 ≠ k) :
    dictSet d k v = d ++ [(k, v)] := by
  unfold dictSet
  rw [if_neg]
  simp only [List.any_eq_true, beq_iff_eq, not_exists, not_and]
  exact fun p hp => h p hp

theorem foldl_dictSet_append : ∀ (l acc : List (K × V)), (l.map Prod.fst).Nodup →
    (∀ p ∈ acc, ∀ q ∈ l, p.1 ≠ q.1) → l.foldl (fun d p => dictSet d p.1 p.2) acc = acc ++ l
  | [], acc, _, _ => by simp
  | q :: l, acc, hnd, hdis => by
    simp only [List.map_cons, List.nodup_cons] at hnd
    simp only [List.foldl_cons]
    rw [dictSet_fresh acc q.1 q.2 (fun p hp => hdis p hp q (by simp))]
    rw [foldl_dictSet_append l (acc ++ [(q.1, q.2)]) hnd.2]
    · simp
    · intro p hp r hr
      rcases List.mem_append.mp hp with hp | hp
      · exact hdis p hp r (by simp [hr])
      · simp only [List.mem_singleton] at hp
        subst hp
        intro heq
        exact hnd.1 (by simp only at heq; rw [heq]; exact List.mem_map_of_mem hr)

omit [DecidableEq K] in
theorem zip_fst_nodup : ∀ (keys : List K) (vals : List V), keys.Nodup → ((keys.zip vals).map Prod.fst).Nodup
  | [], _, _ => by simp
  | _ :: _, [], _ => by simp
  | k :: ks, v :: vs, h => by
    simp only [List.nodup_cons] at h
    simp only [List.zip_cons_cons, List.map_cons, List.nodup_cons]
    refine ⟨?_, zip_fst_nodup ks vs h.2⟩
    intro hm
    rw [List.mem_map] at hm
    obtain ⟨p, hp, rfl⟩ := hm
    exact h.1 (List.of_mem_zip hp).1

theorem dictGet?_zip : ∀ (keys : List K) (vals : List V) (i : Nat) (h1 : i < keys.length) (h2 : i < vals.length),
    keys.Nodup → dictGet? (keys.zip vals) keys[i] = some vals[i]
  | [], _, _, h1, _, _ => by simp at h1
  | _ :: _, [], _, _, h2, _ => by simp at h2
  | k :: ks, v :: vs, 0, _, _, _ => by simp [dictGet?]
  | k :: ks, v :: vs, i + 1, h1, h2, hnd => by
    simp only [List.nodup_cons] at hnd
    have hne : k ≠ ks[i]'(by simpa using h1) := fun h => hnd.1 (h ▸ List.getElem_mem _)
    have ih := dictGet?_zip ks vs i (by simpa using h1) (by simpa using h2) hnd.2
    simp only [List.getElem_cons_succ, dictGet?, List.zip_cons_cons] at ih ⊢
    rw [List.find?_cons_of_neg (by simpa using hne)]
    exact ih

end dict

theorem dictOfZip_eq (keys vals : List String) (h : keys.Nodup) : dictOfZip keys vals = keys.zip vals := by
  unfold dictOfZip
  rw [foldl_dictSet_append _ [] (zip_fst_nodup keys vals h) (by simp)]
  simp

/-- Looking up the first `n` keys of a zipped dictionary returns the first `n` values. -/
theorem lookAll_zip_take (keys vals : List String) (n : Nat) (hnd : keys.Nodup) (h1 : n ≤ keys.length)
    (h2 : n ≤ vals.length) : lookAll (keys.zip vals) (keys.take n) = .ok (vals.take n) := by
  unfold lookAll
  apply mapE_of_forall
  · simp [Nat.min_eq_left h1, Nat.min_eq_left h2]
  · intro i hi1 hi2
    simp only [List.length_take] at hi1 hi2
    have hk : i < keys.length := by omega
    have hv : i < vals.length := by omega
    simp only [List.getElem_take]
    rw [dictGet?_zip keys vals i hk hv hnd]

theorem lookAll_zip (keys vals : List String) (hnd : keys.Nodup) (h : keys.length = vals.length) :
    lookAll (keys.zip vals) keys = .ok vals := by
  have := lookAll_zip_take keys vals keys.length hnd (Nat.le_refl _) (by omega)
  rw [List.take_length, h, List.take_length] at this
  exact this

/-! ### line 2: design conditions -/

theorem seg_shape {α : Type} (A H C E : List α) (x y : α) (a h c : Nat)
    (ha : A.length = a) (hh : H.length = h) (hc : C.length = c) :
    (A ++ H ++ (x :: (C ++ (y :: E))))[a + h]? = some x ∧
    (A ++ H ++ (x :: (C ++ (y :: E))))[a + h + 1 + c]? = some y ∧
    sl (A ++ H ++ (x :: (C ++ (y :: E)))) a (a + h) = H ∧
    sl (A ++ H ++ (x :: (C ++ (y :: E)))) (a + h + 1) (a + h + 1 + c) = C ∧
    (A ++ H ++ (x :: (C ++ (y :: E)))).drop (a + h + 1 + c + 1) = E := by
  subst ha hh hc
  refine ⟨?_, ?_, ?_, ?_, ?_⟩
  · rw [List.getElem?_append_right (by simp)]; simp
  · rw [List.getElem?_append_right (by simp; omega)]
    have : A.length + H.length + 1 + C.length - (A ++ H).length = C.length + 1 := by simp; omega
    rw [this, List.getElem?_cons_succ, List.getElem?_append_right (by omega)]; simp
  · unfold sl
    rw [List.append_assoc, List.drop_left' rfl]
    have : A.length + H.length - A.length = H.length := by omega
    rw [this, List.take_left' rfl]
  · unfold sl
    have e : A ++ H ++ x :: (C ++ y :: E) = (A ++ H ++ [x]) ++ (C ++ y :: E) := by simp
    rw [e, List.drop_left' (by simp; omega)]
    have : A.length + H.length + 1 + C.length - (A.length + H.length + 1) = C.length := by omega
    rw [this, List.take_left' rfl]
  · have e : A ++ H ++ x :: (C ++ y :: E) = (A ++ H ++ [x] ++ C ++ [y]) ++ E := by simp
    rw [e, List.drop_left' (by simp; omega)]

/-- The design dictionaries that `header` writes back unchanged: none at all, or all three complete in
    the key order of the file (2009 or 2021 layout). -/
def Design.Canonical (d : Design) : Prop :=
  d = ⟨false, [], [], []⟩ ∨
  (∃ hv cv ev, hv.length = 15 ∧ cv.length = 32 ∧ ev.length = 16 ∧
    d = ⟨true, Gen.DD.heatingKeys.zip hv, Gen.DD.coolingKeys.zip cv, Gen.DD.extremeKeys.zip ev⟩) ∨
  (∃ hv cv ev, hv.length = 16 ∧ cv.length = 32 ∧ ev.length = 15 ∧
    d = ⟨false, Gen.DD.heatingKeys.zip hv, coolingKeys2021.zip cv, extremeKeys2021.zip ev⟩)

theorem isEmpty_false_of_length {α : Type} (l : List α) (n : Nat) (h : l.length = n + 1) : l.isEmpty = false := by
  cases l <;> simp at h ⊢

theorem key_facts :
    Gen.DD.heatingKeys.Nodup ∧ Gen.DD.coolingKeys.Nodup ∧ Gen.DD.extremeKeys.Nodup ∧
    coolingKeys2021.Nodup ∧ extremeKeys2021.Nodup ∧
    Gen.DD.heatingKeys.length = 16 ∧ Gen.DD.coolingKeys.length = 32 ∧ Gen.DD.extremeKeys.length = 16 ∧
    coolingKeys2021.length = 32 ∧ extremeKeys2021.length = 15 ∧
    heatingKeys2009 = Gen.DD.heatingKeys.take 15 ∧
    (Gen.DD.coolingKeys.map fun k => if k == "Hrs_8-4_&_DB" then "WBmax" else k) = coolingKeys2021 := by
  decide

theorem src_facts : hasSub src2009 "2009" = true ∧ hasSub src2021 "2009" = false := by decide +kernel

theorem lit_eqs : ("Heating" == "Heating") = true ∧ ("Cooling" == "Cooling") = true ∧
    ("Extremes" == "Extremes") = true := by decide

theorem design_roundtrip {F : Type} (nc : NumCodec F) (h1 : nc.pi "1" = some 1) (h0 : nc.pi "0" = some 0)
    (d : Design) (hd : d.Canonical) : ∃ t, renderDesign d = .ok t ∧ parseDesign nc t = .ok d := by
  obtain ⟨nh, nc', ne, nc21, ne21, lh, lc, le, lc21, le21, hk09, ck21⟩ := key_facts
  rcases hd with rfl | ⟨hv, cv, ev, hlh, hlc, hle, rfl⟩ | ⟨hv, cv, ev, hlh, hlc, hle, rfl⟩
  · refine ⟨["DESIGN CONDITIONS", "0"], by simp [renderDesign], ?_⟩
    simp [parseDesign, h0]
  · -- 2009 layout
    have e1 : (Gen.DD.heatingKeys.zip hv).isEmpty = false :=
      isEmpty_false_of_length _ 14 (by simp [List.length_zip, lh, hlh])
    have e2 : (Gen.DD.coolingKeys.zip cv).isEmpty = false :=
      isEmpty_false_of_length _ 31 (by simp [List.length_zip, lc, hlc])
    have e3 : (Gen.DD.extremeKeys.zip ev).isEmpty = false :=
      isEmpty_false_of_length _ 15 (by simp [List.length_zip, le, hle])
    have l1 : lookAll (Gen.DD.heatingKeys.zip hv) heatingKeys2009 = .ok hv := by
      rw [hk09]
      have := lookAll_zip_take Gen.DD.heatingKeys hv 15 nh (by omega) (by omega)
      rw [List.take_of_length_le (by omega : hv.length ≤ 15)] at this
      exact this
    have l2 := lookAll_zip Gen.DD.coolingKeys cv nc' (by omega)
    have l3 := lookAll_zip Gen.DD.extremeKeys ev ne (by omega)
    refine ⟨["DESIGN CONDITIONS", "1", src2009, "", "Heating"] ++ hv ++ ("Cooling" :: (cv ++ ("Extremes" :: ev))),
      by simp [renderDesign, e1, e2, e3, l1, l2, l3], ?_⟩
    obtain ⟨s1, s2, s3, s4, s5⟩ := seg_shape ["DESIGN CONDITIONS", "1", src2009, "", "Heating"] hv cv ev
      "Cooling" "Extremes" 5 15 32 rfl hlh hlc
    simp only [Nat.reduceAdd] at s1 s2 s3 s4 s5
    have s5' : sl (["DESIGN CONDITIONS", "1", src2009, "", "Heating"] ++ hv ++ "Cooling" :: (cv ++ "Extremes" :: ev)) 54 70 = ev := by
      unfold sl; rw [s5, List.take_of_length_le (by omega)]
    unfold parseDesign
    have g1 : (["DESIGN CONDITIONS", "1", src2009, "", "Heating"] ++ hv ++ "Cooling" :: (cv ++ "Extremes" :: ev))[1]? = some "1" := by simp
    have g2 : (["DESIGN CONDITIONS", "1", src2009, "", "Heating"] ++ hv ++ "Cooling" :: (cv ++ "Extremes" :: ev))[2]? = some src2009 := by simp
    have g4 : (["DESIGN CONDITIONS", "1", src2009, "", "Heating"] ++ hv ++ "Cooling" :: (cv ++ "Extremes" :: ev))[4]? = some "Heating" := by simp
    simp only [g1, h1, g2, g4, s1, s2, s3, s4, s5', src_facts.1, ne_eq, not_true_eq_false, if_false, if_true,
      dictOfZip_eq _ _ nh, dictOfZip_eq _ _ nc', dictOfZip_eq _ _ ne, lit_eqs.1, lit_eqs.2.1, lit_eqs.2.2]
  · -- 2021 layout
    have e1 : (Gen.DD.heatingKeys.zip hv).isEmpty = false :=
      isEmpty_false_of_length _ 15 (by simp [List.length_zip, lh, hlh])
    have e2 : (coolingKeys2021.zip cv).isEmpty = false :=
      isEmpty_false_of_length _ 31 (by simp [List.length_zip, lc21, hlc])
    have e3 : (extremeKeys2021.zip ev).isEmpty = false :=
      isEmpty_false_of_length _ 14 (by simp [List.length_zip, le21, hle])
    have l1 := lookAll_zip Gen.DD.heatingKeys hv nh (by omega)
    have l2 := lookAll_zip coolingKeys2021 cv nc21 (by omega)
    have l3 := lookAll_zip extremeKeys2021 ev ne21 (by omega)
    refine ⟨["DESIGN CONDITIONS", "1", src2021, "", "Heating"] ++ hv ++ ("Cooling" :: (cv ++ ("Extremes" :: ev))),
      by simp [renderDesign, e1, e2, e3, l1, l2, l3], ?_⟩
    obtain ⟨s1, s2, s3, s4, s5⟩ := seg_shape ["DESIGN CONDITIONS", "1", src2021, "", "Heating"] hv cv ev
      "Cooling" "Extremes" 5 16 32 rfl hlh hlc
    simp only [Nat.reduceAdd] at s1 s2 s3 s4 s5
    have s5' : sl (["DESIGN CONDITIONS", "1", src2021, "", "Heating"] ++ hv ++ "Cooling" :: (cv ++ "Extremes" :: ev)) 55 71 = ev := by
      unfold sl; rw [s5, List.take_of_length_le (by omega)]
    unfold parseDesign
    have g1 : (["DESIGN CONDITIONS", "1", src2021, "", "Heating"] ++ hv ++ "Cooling" :: (cv ++ "Extremes" :: ev))[1]? = some "1" := by simp
    have g2 : (["DESIGN CONDITIONS", "1", src2021, "", "Heating"] ++ hv ++ "Cooling" :: (cv ++ "Extremes" :: ev))[2]? = some src2021 := by simp
    have g4 : (["DESIGN CONDITIONS", "1", src2021, "", "Heating"] ++ hv ++ "Cooling" :: (cv ++ "Extremes" :: ev))[4]? = some "Heating" := by simp
    simp only [g1, h1, g2, g4, s1, s2, s3, s4, s5', src_facts.2, ne_eq, not_true_eq_false, if_false, if_true,
      ck21, dictOfZip_eq _ _ nh, dictOfZip_eq _ _ nc21, dictOfZip_eq _ _ ne21, lit_eqs.1, lit_eqs.2.1, lit_eqs.2.2,
      Bool.false_eq_true]

/-! ### line 3: typical / extreme weeks -/

/-- What makes a week survive the text form: valid dates (as `AnalysisPeriod` checks them) and a date token
    that `split('/')` + `int` reads back (codec law, stated for the tokens of this week). -/
def WeekOk {F : Type} (nc : NumCodec F) (w : Week) : Prop :=
  nc.pd (nc.sd w.stM w.stD) = some [(w.stM : Int), (w.stD : Int)] ∧
  nc.pd (nc.sd w.endM w.endD) = some [(w.endM : Int), (w.endD : Int)] ∧
  dateOk w.stM w.stD = true ∧ dateOk w.endM w.endD = true

instance {F : Type} (nc : NumCodec F) (w : Week) : Decidable (WeekOk nc w) := by
  unfold WeekOk; infer_instance

theorem mkWeek_ok (w : Week) (h1 : dateOk w.stM w.stD = true) (h2 : dateOk w.endM w.endD = true) :
    mkWeek [(w.stM : Int), (w.stD : Int)] [(w.endM : Int), (w.endD : Int)] = .ok w := by
  simp [mkWeek, h1, h2, Int.toNat_natCast]

theorem parseWeekList_flatten {F : Type} (nc : NumCodec F) :
    ∀ (ws : List (String × String × Week)) (rest : List String) (acc : Weeks),
      (∀ x ∈ ws, WeekOk nc x.2.2) →
      parseWeekList nc ws.length ((ws.map fun x => fmtWeek nc x.1 x.2).flatten ++ rest) acc =
        .ok (ws.foldl (fun a x => classify a x.2.1 x.1 x.2.2) acc)
  | [], _, _, _ => by simp [parseWeekList]
  | (kind, name, w) :: ws, rest, acc, h => by
    obtain ⟨p1, p2, d1, d2⟩ := h (kind, name, w) (by simp)
    have ih := parseWeekList_flatten nc ws rest (classify acc name kind w) (fun x hx => h x (by simp [hx]))
    simp only [List.length_cons, List.map_cons, List.flatten_cons, fmtWeek, List.foldl_cons]
    unfold parseWeekList
    simp only [List.cons_append, List.nil_append, List.take_succ_cons, List.take_zero, List.drop_succ_cons,
      List.drop_zero, p1, p2, mkWeek_ok w d1 d2]
    exact ih

theorem fold_hot (l : List (String × Week)) : ∀ (acc : Weeks), (∀ p ∈ l, hasSub p.1 "Max" = true) →
    (l.map fun p => ("Extreme", p)).foldl (fun a x => classify a x.2.1 x.1 x.2.2) acc =
      { acc with hot := l.foldl (fun d p => dictSet d p.1 p.2) acc.hot } := by
  induction l with
  | nil => intro acc _; rfl
  | cons p l ih =>
    intro acc h
    have hp := h p (by simp)
    have e : ("Extreme" == "Extreme") = true := by decide
    have step : classify acc p.1 "Extreme" p.2 = { acc with hot := dictSet acc.hot p.1 p.2 } := by
      simp only [classify, hp, e, Bool.and_self, if_true]
    simp only [List.map_cons, List.foldl_cons]
    rw [step, ih _ (fun q hq => h q (by simp [hq]))]

theorem fold_cold (l : List (String × Week)) : ∀ (acc : Weeks),
    (∀ p ∈ l, hasSub p.1 "Max" = false ∧ hasSub p.1 "Min" = true) →
    (l.map fun p => ("Extreme", p)).foldl (fun a x => classify a x.2.1 x.1 x.2.2) acc =
      { acc with cold := l.foldl (fun d p => dictSet d p.1 p.2) acc.cold } := by
  induction l with
  | nil => intro acc _; rfl
  | cons p l ih =>
    intro acc h
    have hp := h p (by simp)
    have e : ("Extreme" == "Extreme") = true := by decide
    have step : classify acc p.1 "Extreme" p.2 = { acc with cold := dictSet acc.cold p.1 p.2 } := by
      simp only [classify, hp.1, hp.2, e, Bool.and_self, Bool.false_and, Bool.false_eq_true, if_false, if_true]
    simp only [List.map_cons, List.foldl_cons]
    rw [step, ih _ (fun q hq => h q (by simp [hq]))]

theorem fold_typ (l : List (String × Week)) : ∀ (acc : Weeks),
    (l.map fun p => ("Typical", p)).foldl (fun a x => classify a x.2.1 x.1 x.2.2) acc =
      { acc with typical := l.foldl (fun d p => dictSet d p.1 p.2) acc.typical } := by
  induction l with
  | nil => intro acc; rfl
  | cons p l ih =>
    intro acc
    have e1 : ("Typical" == "Extreme") = false := by decide
    have e2 : ("Typical" == "Typical") = true := by decide
    have step : classify acc p.1 "Typical" p.2 = { acc with typical := dictSet acc.typical p.1 p.2 } := by
      simp only [classify, e1, e2, Bool.and_false, Bool.false_eq_true, if_false, if_true]
    simp only [List.map_cons, List.foldl_cons]
    rw [step, ih]

/-- The week dictionaries that `header` writes back unchanged. -/
structure Weeks.Canonical {F : Type} (nc : NumCodec F) (w : Weeks) : Prop where
  hotMax : ∀ p ∈ w.hot, hasSub p.1 "Max" = true
  coldMin : ∀ p ∈ w.cold, hasSub p.1 "Max" = false ∧ hasSub p.1 "Min" = true
  hotNodup : (w.hot.map Prod.fst).Nodup
  coldNodup : (w.cold.map Prod.fst).Nodup
  typNodup : (w.typical.map Prod.fst).Nodup
  typSorted : sortBy (fun a b => a.1 < b.1) w.typical = w.typical
  weekOk : ∀ p ∈ w.hot ++ w.cold ++ w.typical, WeekOk nc p.2
  count : nc.pi (nc.sn (w.hot.length + w.cold.length + w.typical.length)) =
    some ((w.hot.length + w.cold.length + w.typical.length : Nat) : Int)
  countNe : nc.sn (w.hot.length + w.cold.length + w.typical.length) ≠ ""

theorem weeks_roundtrip {F : Type} (nc : NumCodec F) (w : Weeks) (hw : w.Canonical nc) :
    parseWeeks nc (renderWeeks nc w) = .ok w := by
  obtain ⟨hot, cold, typ⟩ := w
  have hs := hw.typSorted
  simp only at hs
  let items : List (String × String × Week) :=
    hot.map (fun p => ("Extreme", p)) ++ cold.map (fun p => ("Extreme", p)) ++ typ.map (fun p => ("Typical", p))
  have hflat : hot.map (fmtWeek nc "Extreme") ++ cold.map (fmtWeek nc "Extreme") ++ typ.map (fmtWeek nc "Typical") =
      items.map fun x => fmtWeek nc x.1 x.2 := by
    simp only [items, List.map_append, List.map_map]
    rfl
  have hlen : items.length = hot.length + cold.length + typ.length := by simp [items]; omega
  have hok : ∀ x ∈ items, WeekOk nc x.2.2 := by
    intro x hx
    simp only [items, List.mem_append, List.mem_map] at hx
    rcases hx with (⟨p, hp, rfl⟩ | ⟨p, hp, rfl⟩) | ⟨p, hp, rfl⟩
    · exact hw.weekOk p (by simp [hp])
    · exact hw.weekOk p (by simp [hp])
    · exact hw.weekOk p (by simp [hp])
  have hfold : items.foldl (fun a x => classify a x.2.1 x.1 x.2.2) ⟨[], [], []⟩ = ⟨hot, cold, typ⟩ := by
    simp only [items, List.foldl_append]
    rw [fold_hot hot _ hw.hotMax, fold_cold cold _ hw.coldMin, fold_typ typ]
    simp only
    rw [foldl_dictSet_append hot [] hw.hotNodup (by simp), foldl_dictSet_append cold [] hw.coldNodup (by simp),
      foldl_dictSet_append typ [] hw.typNodup (by simp)]
    simp
  unfold renderWeeks parseWeeks
  simp only [hs, hflat]
  have hc := hw.count
  have hne := hw.countNe
  simp only at hc hne
  rw [← hlen] at hc hne
  have hcount : countTok nc (["TYPICAL/EXTREME PERIODS", nc.sn (items.map fun x => fmtWeek nc x.1 x.2).length] ++
      (if (items.map fun x => fmtWeek nc x.1 x.2).isEmpty then [""] else (items.map fun x => fmtWeek nc x.1 x.2).flatten))
      = .ok items.length := by
    simp [countTok, hc, hne]
  rw [hcount]
  simp only [List.cons_append, List.nil_append, List.drop_succ_cons, List.drop_zero]
  by_cases he : (items.map fun x => fmtWeek nc x.1 x.2).isEmpty = true
  · rw [if_pos he]
    have : (items.map fun x => fmtWeek nc x.1 x.2).flatten ++ [""] = [""] := by
      have : (items.map fun x => fmtWeek nc x.1 x.2) = [] := by simpa using he
      simp [this]
    rw [← this, parseWeekList_flatten nc items [""] _ hok, hfold]
  · rw [if_neg he]
    have : (items.map fun x => fmtWeek nc x.1 x.2).flatten = (items.map fun x => fmtWeek nc x.1 x.2).flatten ++ [] := by simp
    rw [this, parseWeekList_flatten nc items [] _ hok, hfold]

/-! ### line 4: ground temperatures -/

/-- What makes one depth survive the text form: the depth token reads back, 12 monthly values, and every
    value is one that `'%.2f'` prints without loss (`float('%.2f' % v) == v`). -/
def GroundOk {F : Type} (nc : NumCodec F) (g : Ground F) : Prop :=
  nc.pf (nc.sf g.depth) = some g.depth ∧ g.vals.length = 12 ∧ ∀ v ∈ g.vals, nc.pf (nc.f2 v) = some v

instance {F : Type} [DecidableEq F] (nc : NumCodec F) (g : Ground F) : Decidable (GroundOk nc g) := by
  unfold GroundOk; infer_instance

theorem groundSet_fresh {F : Type} [DecidableEq F] (gs : List (Ground F)) (g : Ground F)
    (h : ∀ x ∈ gs, x.depth ≠ g.depth) : groundSet gs g = gs ++ [g] := by
  unfold groundSet
  rw [if_neg]
  simp only [List.any_eq_true, beq_iff_eq, not_exists, not_and]
  exact fun x hx => h x hx

theorem foldl_groundSet_append {F : Type} [DecidableEq F] : ∀ (l acc : List (Ground F)),
    (l.map (·.depth)).Nodup → (∀ p ∈ acc, ∀ q ∈ l, p.depth ≠ q.depth) → l.foldl groundSet acc = acc ++ l
  | [], acc, _, _ => by simp
  | q :: l, acc, hnd, hdis => by
    simp only [List.map_cons, List.nodup_cons] at hnd
    simp only [List.foldl_cons]
    rw [groundSet_fresh acc q (fun p hp => hdis p hp q (by simp))]
    rw [foldl_groundSet_append l (acc ++ [q]) hnd.2]
    · simp
    · intro p hp r hr
      rcases List.mem_append.mp hp with hp | hp
      · exact hdis p hp r (by simp [hr])
      · simp only [List.mem_singleton] at hp
        subst hp
        intro heq
        exact hnd.1 (by rw [heq]; exact List.mem_map_of_mem (f := (·.depth)) hr)

theorem block16 {α : Type} (a b c d : α) (V R : List α) (hV : V.length = 12) :
    ((a :: b :: c :: d :: (V ++ R)).drop 4).take 12 = V ∧ (a :: b :: c :: d :: (V ++ R)).drop 16 = R := by
  constructor
  · show (V ++ R).take 12 = V
    exact List.take_left' hV
  · show (V ++ R).drop 12 = R
    exact List.drop_left' hV

theorem parseGroundList_flatten {F : Type} [DecidableEq F] (nc : NumCodec F) :
    ∀ (gs : List (Ground F)) (rest : List String) (acc : List (Ground F)), (∀ g ∈ gs, GroundOk nc g) →
      parseGroundList nc gs.length ((gs.map (fmtGround nc)).flatten ++ rest) acc = .ok (gs.foldl groundSet acc)
  | [], _, _, _ => by simp [parseGroundList]
  | g :: gs, rest, acc, h => by
    obtain ⟨hd, hl, hv⟩ := h g (by simp)
    have ih := parseGroundList_flatten nc gs rest (groundSet acc g) (fun x hx => h x (by simp [hx]))
    have hV : (g.vals.map nc.f2).length = 12 := by simp [hl]
    have e : ((g :: gs).map (fmtGround nc)).flatten ++ rest =
        nc.sf g.depth :: g.cond :: g.dens :: g.heat :: (g.vals.map nc.f2 ++ ((gs.map (fmtGround nc)).flatten ++ rest)) := by
      simp [fmtGround]
    obtain ⟨b1, b2⟩ := block16 (nc.sf g.depth) g.cond g.dens g.heat (g.vals.map nc.f2)
      ((gs.map (fmtGround nc)).flatten ++ rest) hV
    rw [e]
    simp only [List.length_cons, List.foldl_cons]
    unfold parseGroundList
    simp only [List.getElem?_cons_zero, List.getElem?_cons_succ, hd, b1, b2, mapO_map nc.pf nc.f2 g.vals hv, hl,
      if_true]
    exact ih

/-- The ground-temperature dictionary that `header` writes back unchanged. -/
structure GroundCanonical {F : Type} (nc : NumCodec F) (fltLt : F → F → Bool) (gs : List (Ground F)) : Prop where
  ok : ∀ g ∈ gs, GroundOk nc g
  nodup : (gs.map (·.depth)).Nodup
  sorted : sortBy (fun a b => fltLt a.depth b.depth) gs = gs
  count : nc.pi (nc.sn gs.length) = some (gs.length : Int)
  countNe : nc.sn gs.length ≠ ""

theorem ground_roundtrip {F : Type} [DecidableEq F] (nc : NumCodec F) (fltLt : F → F → Bool) (gs : List (Ground F))
    (hg : GroundCanonical nc fltLt gs) : parseGround nc (renderGround nc fltLt gs) = .ok gs := by
  unfold renderGround parseGround
  simp only [hg.sorted]
  have hcount : countTok nc (["GROUND TEMPERATURES", nc.sn gs.length] ++ (gs.map (fmtGround nc)).flatten)
      = .ok gs.length := by
    simp [countTok, hg.count, hg.countNe]
  rw [hcount]
  simp only [List.cons_append, List.nil_append, List.drop_succ_cons, List.drop_zero]
  have : (gs.map (fmtGround nc)).flatten = (gs.map (fmtGround nc)).flatten ++ [] := by simp
  rw [this, parseGroundList_flatten nc gs [] [] hg.ok, foldl_groundSet_append gs [] hg.nodup (by simp)]
  simp

end Epw
