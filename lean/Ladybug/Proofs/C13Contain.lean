/-
  Helper lemmas for C13: calendar facts behind the containment theorem (the date of a datum,
  the start/end minute of a period in terms of day numbers).  Mathlib-free.
-/
import Ladybug.Proofs.C13Lemmas
import Ladybug.Props.C04

open Cal

namespace Resample

/-- The `(month, day)` of a datum inside the year: a valid date of that year whose day number is
    `m / 1440 + 1`; in a non-leap year it is never 29 Feb. -/
theorem mdOf_spec (leap : Bool) (m : Nat) (hm : m < minutesInYear leap) :
    1 ≤ (mdOf leap m).1 ∧ (mdOf leap m).1 ≤ 12 ∧ 1 ≤ (mdOf leap m).2 ∧
    (mdOf leap m).2 ≤ monthLen leap (mdOf leap m).1 ∧
    daysBefore leap (mdOf leap m).1 + (mdOf leap m).2 = m / 1440 + 1 ∧
    (leap = false → mdOf leap m ≠ (2, 29)) := by
  obtain ⟨d, hd, hv, -, -, -, hdoy, hl⟩ := C08_fromMoy_moy leap m hm
  have hnat : fromMoyNat leap m = .ok d := by
    unfold fromMoy at hd
    simp at hd
    exact hd
  have e : mdOf leap m = (d.month, d.day) := by
    unfold mdOf; rw [hnat]
  obtain ⟨v1, v2, v3, v4, -, -⟩ := hv
  rw [hl] at v4
  rw [e]
  refine ⟨v1, v2, v3, v4, ?_, ?_⟩
  · unfold DT.doy at hdoy; rw [hl] at hdoy; exact hdoy
  · intro hf h29
    injection h29 with hm2 hd29
    subst hf
    rw [hm2, hd29] at v4
    revert v4; decide

/-- `st_time.moy` / `end_time.moy` of a period from the day number of its date. -/
theorem moy_of_fields (mo da h : Nat) (leap : Bool) :
    (⟨mo, da, h, 0, leap⟩ : DT).moy = ((daysBefore leap mo + da - 1) * 24 + h) * 60 := by
  simp [DT.moy, DT.intHoy, DT.doy]

theorem doy_of_fields (mo da h mi : Nat) (leap : Bool) :
    (⟨mo, da, h, mi, leap⟩ : DT).doy = daysBefore leap mo + da := rfl

/-- A valid date lies inside the year. -/
theorem doy_le_year (leap : Bool) (mo da : Nat) (h1 : 1 ≤ mo) (h2 : mo ≤ 12) (h3 : da ≤ monthLen leap mo) :
    daysBefore leap mo + da ≤ daysInYear leap := by
  have : mo = 1 ∨ mo = 2 ∨ mo = 3 ∨ mo = 4 ∨ mo = 5 ∨ mo = 6 ∨ mo = 7 ∨ mo = 8 ∨ mo = 9 ∨ mo = 10 ∨
      mo = 11 ∨ mo = 12 := by omega
  cases leap <;> rcases this with rfl | rfl | rfl | rfl | rfl | rfl | rfl | rfl | rfl | rfl | rfl | rfl <;>
    simp [daysBefore, monthLen, monthLens, daysInYear] at h3 ⊢ <;> omega

end Resample
