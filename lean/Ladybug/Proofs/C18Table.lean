/-
  C18: soundness of the table machine (Model/Lazy.lean part (b)) for well-formed tables.
  Invariant `Inv`: nothing cached is stale, every cached entry was made by a block of the table
  (or assigned by a setter), and the slots of a block whose guard attributes are all present are
  all present.  Mathlib-free.
-/
import Ladybug.Model.Lazy

namespace Lazy

open ClassTable

/-! ### the conjuncts of `wellFormed` as propositions -/

structure WF (t : ClassTable) : Prop where
  oneExpr : ∀ g ∈ t.getters, ∀ a ∈ g.direct, t.isSlot a = true →
    (∀ s ∈ t.allSites, a ∈ s.slots → s.expr ∈ g.ownExprs a) ∧
    (∀ r ∈ t.allRefines, r.1 = a → r.2 ∈ g.ownExprs a)
  selfFill : ∀ g ∈ t.getters, ∀ a ∈ g.direct, t.isSlot a = true → a ∈ g.ownSlots
  guardOwn : ∀ s ∈ t.allSites, s.guard ≠ [] ∧ ∀ b ∈ s.guard, b ∈ s.slots
  resetsOk : ∀ st ∈ t.setters, ∀ s ∈ t.allSites, (∃ r ∈ s.reads, r ∈ st.writes) →
    ∀ a ∈ s.slots, a ∈ st.clears ∨ a ∈ st.writes
  allGuarded : ∀ s ∈ t.allSites, s.guarded = true ∧ s.clears = []
  groupClosed : ∀ s ∈ t.allSites, ∀ s' ∈ t.allSites, (∃ b ∈ s'.guard, b ∈ s.slots) →
    ∀ a ∈ s'.slots, a ∈ s.slots
  putWhole : ∀ st ∈ t.setters, ∀ s ∈ t.allSites,
    (∀ a ∈ s.slots, a ∉ st.clears ∧ a ∉ st.writes) ∨
    (∃ b ∈ s.guard, b ∈ st.clears ∧ b ∉ st.writes) ∨
    (∀ a ∈ s.slots, a ∈ st.writes)
  getClearsWhole : ∀ g ∈ t.getters, ∀ s ∈ t.allSites, (∃ a ∈ s.slots, a ∈ g.clears) →
    ∃ b ∈ s.guard, b ∈ g.clears

theorem wf_of_wellFormed {t : ClassTable} (h : t.wellFormed = true) : WF t := by
  simp only [wellFormed, Bool.and_eq_true] at h
  obtain ⟨⟨⟨⟨⟨⟨⟨⟨h1, h2⟩, h3⟩, h4⟩, _⟩, h6⟩, h7⟩, h8⟩, h9⟩ := h
  exact ⟨of_decide_eq_true h1, of_decide_eq_true h2, of_decide_eq_true h3, of_decide_eq_true h4,
    of_decide_eq_true h6, of_decide_eq_true h7, of_decide_eq_true h8, of_decide_eq_true h9⟩

theorem site_mem_allSites {t : ClassTable} {g : Getter} {s : Site} (hg : g ∈ t.getters) (hs : s ∈ g.sites) :
    s ∈ t.allSites := by
  unfold allSites
  exact List.mem_flatMap.2 ⟨g, hg, hs⟩

theorem isSlot_of_site {t : ClassTable} {s : Site} {a : Nat} (hs : s ∈ t.allSites) (ha : a ∈ s.slots) :
    t.isSlot a = true := by
  unfold isSlot
  apply Bool.or_eq_true_iff.2
  left
  exact List.any_eq_true.2 ⟨s, hs, by simpa using ha⟩

/-! ### the cache as a set of entries -/

namespace TState

def present (st : TState) (a : Nat) : Prop := ∃ p ∈ st.cache, p.1 = a

theorem mem_erase {st : TState} {as : List Nat} {p : Nat × Entry} :
    p ∈ (st.erase as).cache ↔ p ∈ st.cache ∧ p.1 ∉ as := by
  simp [erase]

theorem mem_fill {st : TState} {as : List Nat} {e : Entry} {p : Nat × Entry} :
    p ∈ (st.fill as e).cache ↔ (p.1 ∈ as ∧ p.2 = e) ∨ (p ∈ st.cache ∧ p.1 ∉ as) := by
  simp only [fill, List.mem_append, List.mem_map, mem_erase]
  constructor
  · rintro (⟨a, ha, rfl⟩ | h)
    · exact Or.inl ⟨ha, rfl⟩
    · exact Or.inr h
  · rintro (⟨ha, he⟩ | h)
    · exact Or.inl ⟨p.1, ha, by rw [← he]⟩
    · exact Or.inr h

theorem present_erase {st : TState} {as : List Nat} {a : Nat} :
    (st.erase as).present a ↔ st.present a ∧ a ∉ as := by
  unfold present
  constructor
  · rintro ⟨p, hp, rfl⟩
    obtain ⟨h1, h2⟩ := mem_erase.1 hp
    exact ⟨⟨p, h1, rfl⟩, h2⟩
  · rintro ⟨⟨p, hp, rfl⟩, h2⟩
    exact ⟨p, mem_erase.2 ⟨hp, h2⟩, rfl⟩

theorem present_fill {st : TState} {as : List Nat} {e : Entry} {a : Nat} :
    (st.fill as e).present a ↔ a ∈ as ∨ st.present a := by
  unfold present
  constructor
  · rintro ⟨p, hp, rfl⟩
    rcases mem_fill.1 hp with ⟨h, _⟩ | ⟨h, _⟩
    · exact Or.inl h
    · exact Or.inr ⟨p, h, rfl⟩
  · rintro (h | ⟨p, hp, rfl⟩)
    · exact ⟨(a, e), mem_fill.2 (Or.inl ⟨h, rfl⟩), rfl⟩
    · by_cases h : p.1 ∈ as
      · exact ⟨(p.1, e), mem_fill.2 (Or.inl ⟨h, rfl⟩), rfl⟩
      · exact ⟨p, mem_fill.2 (Or.inr ⟨hp, h⟩), rfl⟩

theorem lookup_some_mem {st : TState} {a : Nat} {e : Entry} (h : st.lookup a = some e) :
    (a, e) ∈ st.cache := by
  unfold lookup at h
  cases hf : st.cache.find? (fun p => p.1 == a) with
  | none => rw [hf] at h; cases h
  | some p =>
    rw [hf] at h
    simp only [Option.map_some, Option.some.injEq] at h
    have hm := List.mem_of_find?_eq_some hf
    have hp := List.find?_some hf
    simp only [beq_iff_eq] at hp
    rw [← hp, ← h]
    exact hm

theorem lookup_isNone_iff {st : TState} {a : Nat} : (st.lookup a).isNone = true ↔ ¬ st.present a := by
  unfold lookup present
  rw [Option.isNone_iff_eq_none, Option.map_eq_none_iff, List.find?_eq_none]
  constructor
  · intro h ⟨p, hp, hpa⟩
    exact h p hp (by simpa using hpa)
  · intro h p hp hpa
    exact h ⟨p, hp, by simpa using hpa⟩

theorem lookup_some_of_present {st : TState} {a : Nat} (h : st.present a) : ∃ e, st.lookup a = some e := by
  cases hl : st.lookup a with
  | some e => exact ⟨e, rfl⟩
  | none =>
    have : (st.lookup a).isNone = true := by rw [hl]; rfl
    exact absurd h (lookup_isNone_iff.1 this)

end TState

open TState

/-! ### the invariant -/

/-- An entry was assigned by a setter, or made by a block of the table. -/
def MadeBy (t : ClassTable) (p : Nat × Entry) : Prop :=
  (p.2.user = true ∧ p.2.reads = []) ∨
  (p.2.user = false ∧ ∃ s ∈ t.allSites, p.1 ∈ s.slots ∧ p.2.expr = s.expr ∧ p.2.reads = s.reads)

structure Inv (t : ClassTable) (st : TState) : Prop where
  fresh : ∀ p ∈ st.cache, p.2.stale = false
  made : ∀ p ∈ st.cache, MadeBy t p
  group : ∀ s ∈ t.allSites, (∀ b ∈ s.guard, st.present b) → ∀ a ∈ s.slots, st.present a

theorem inv_empty {t : ClassTable} (w : WF t) : Inv t TState.empty := by
  refine ⟨?_, ?_, ?_⟩
  · intro p hp; simp [TState.empty] at hp
  · intro p hp; simp [TState.empty] at hp
  intro s hs hg
  obtain ⟨hne, _⟩ := w.guardOwn s hs
  cases hgd : s.guard with
  | nil => exact absurd hgd hne
  | cons b bs =>
    obtain ⟨p, hp, _⟩ := hg b (by rw [hgd]; exact List.mem_cons_self)
    simp [TState.empty] at hp

theorem erase_nil (st : TState) : st.erase [] = st := by
  cases st; simp [TState.erase]

/-! ### one block -/

theorem not_dirty {t : ClassTable} {st : TState} (hi : Inv t st) (s : Site) :
    (s.reads.any fun a => !s.slots.contains a && ((st.lookup a).map (·.stale)).getD false) = false := by
  rw [List.any_eq_false]
  intro a _
  cases hl : st.lookup a with
  | none => simp
  | some e =>
    have := hi.fresh _ (lookup_some_mem hl)
    simp at this
    simp [this]

theorem runSite_eq {t : ClassTable} (w : WF t) {st : TState} (hi : Inv t st) {s : Site} (hs : s ∈ t.allSites) :
    runSite st s = if (s.guard.any fun a => (st.lookup a).isNone) = true
      then st.fill s.slots ⟨s.expr, s.reads, false, false⟩ else st := by
  obtain ⟨hg, hc⟩ := w.allGuarded s hs
  unfold runSite
  simp only [hg, hc, Bool.not_true, Bool.false_or, erase_nil, not_dirty hi s]

theorem runSite_inv {t : ClassTable} (w : WF t) {st : TState} (hi : Inv t st) {s : Site} (hs : s ∈ t.allSites) :
    Inv t (runSite st s) := by
  rw [runSite_eq w hi hs]
  split
  · refine ⟨?_, ?_, ?_⟩
    · intro p hp
      rcases mem_fill.1 hp with ⟨_, he⟩ | ⟨h, _⟩
      · rw [he]
      · exact hi.fresh p h
    · intro p hp
      rcases mem_fill.1 hp with ⟨ha, he⟩ | ⟨h, _⟩
      · right
        rw [he]
        exact ⟨rfl, s, hs, ha, rfl, rfl⟩
      · exact hi.made p h
    · intro s' hs' hg a ha
      apply present_fill.2
      by_cases hx : ∃ b ∈ s'.guard, b ∈ s.slots
      · exact Or.inl (w.groupClosed s hs s' hs' hx a ha)
      · right
        apply hi.group s' hs' _ a ha
        intro b hb
        rcases present_fill.1 (hg b hb) with h | h
        · exact absurd ⟨b, hb, h⟩ hx
        · exact h
  · exact hi

theorem runSite_mono {t : ClassTable} (w : WF t) {st : TState} (hi : Inv t st) {s : Site} (hs : s ∈ t.allSites)
    {a : Nat} (h : st.present a) : (runSite st s).present a := by
  rw [runSite_eq w hi hs]
  split
  · exact present_fill.2 (Or.inr h)
  · exact h

theorem runSite_fills {t : ClassTable} (w : WF t) {st : TState} (hi : Inv t st) {s : Site} (hs : s ∈ t.allSites)
    {a : Nat} (ha : a ∈ s.slots) : (runSite st s).present a := by
  rw [runSite_eq w hi hs]
  split
  · exact present_fill.2 (Or.inl ha)
  · rename_i hf
    apply hi.group s hs _ a ha
    intro b hb
    apply Classical.byContradiction
    intro hn
    apply hf
    exact List.any_eq_true.2 ⟨b, hb, lookup_isNone_iff.2 hn⟩

theorem foldl_runSite {t : ClassTable} (w : WF t) :
    ∀ (ss : List Site) (st : TState), (∀ s ∈ ss, s ∈ t.allSites) → Inv t st →
      Inv t (ss.foldl runSite st) ∧
      (∀ a, st.present a → (ss.foldl runSite st).present a) ∧
      (∀ s ∈ ss, ∀ a ∈ s.slots, (ss.foldl runSite st).present a) := by
  intro ss
  induction ss with
  | nil => intro st _ hi; exact ⟨hi, fun _ h => h, by intro s hs; cases hs⟩
  | cons s ss ih =>
    intro st hss hi
    have hs : s ∈ t.allSites := hss s List.mem_cons_self
    have hi' := runSite_inv w hi hs
    obtain ⟨r1, r2, r3⟩ := ih (runSite st s) (fun x hx => hss x (List.mem_cons_of_mem _ hx)) hi'
    simp only [List.foldl_cons]
    refine ⟨r1, fun a h => r2 a (runSite_mono w hi hs h), ?_⟩
    intro s' hs' a ha
    rcases List.mem_cons.1 hs' with rfl | h
    · exact r2 a (runSite_fills w hi hs ha)
    · exact r3 s' h a ha

/-! ### a getter read -/

theorem erase_clears_inv {t : ClassTable} (w : WF t) {st : TState} (hi : Inv t st) {g : Getter}
    (hg : g ∈ t.getters) : Inv t (st.erase g.clears) := by
  refine ⟨fun p hp => hi.fresh p (mem_erase.1 hp).1, fun p hp => hi.made p (mem_erase.1 hp).1, ?_⟩
  intro s hs hgd a ha
  have hno : ¬ ∃ a ∈ s.slots, a ∈ g.clears := by
    intro hx
    obtain ⟨b, hb, hbc⟩ := w.getClearsWhole g hg s hs hx
    exact (present_erase.1 (hgd b hb)).2 hbc
  apply present_erase.2
  refine ⟨hi.group s hs (fun b hb => (present_erase.1 (hgd b hb)).1) a ha, ?_⟩
  intro hac
  exact hno ⟨a, ha, hac⟩

theorem verdictAt_ok {t : ClassTable} (w : WF t) {st : TState} (hi : Inv t st) {g : Getter}
    (hg : g ∈ t.getters) {a : Nat} (had : a ∈ g.direct) (hsl : t.isSlot a = true) (hp : st.present a) :
    verdictAt t g st a = Verdict.ok := by
  obtain ⟨e, he⟩ := lookup_some_of_present hp
  have hm := lookup_some_mem he
  unfold verdictAt
  rw [he]
  simp only
  rcases hi.made _ hm with ⟨hu, _⟩ | ⟨hu, s, hs, has, hex, _⟩
  · simp at hu; simp [hu]
  · simp at hu has hex
    have h1 : e.expr ∈ g.ownExprs a := by
      rw [hex]
      exact (w.oneExpr g hg a had hsl).1 s hs has
    have h2 : e.stale = false := by simpa using hi.fresh _ hm
    simp [hu, h1, h2]

theorem stepGet_spec {t : ClassTable} (w : WF t) {st : TState} (hi : Inv t st) {g : Getter}
    (hg : g ∈ t.getters) : (stepGet t g st).1 = Verdict.ok ∧ Inv t (stepGet t g st).2 := by
  have h0 := erase_clears_inv w hi hg
  obtain ⟨r1, _, r3⟩ := foldl_runSite w g.sites (st.erase g.clears)
    (fun s hs => site_mem_allSites hg hs) h0
  refine ⟨?_, r1⟩
  unfold stepGet verdictOf
  simp only
  have hall : ∀ v ∈ (g.direct.filter t.isSlot).map
      (verdictAt t g (g.sites.foldl runSite (st.erase g.clears))), v = Verdict.ok := by
    intro v hv
    obtain ⟨a, ha, rfl⟩ := List.mem_map.1 hv
    obtain ⟨had, hsl⟩ := List.mem_filter.1 ha
    have hown := w.selfFill g hg a had hsl
    obtain ⟨s, hs, has⟩ := List.mem_flatMap.1 hown
    exact verdictAt_ok w r1 hg had hsl (r3 s hs a has)
  have hnone : ((g.direct.filter t.isSlot).map
      (verdictAt t g (g.sites.foldl runSite (st.erase g.clears)))).find? (· != Verdict.ok) = none := by
    rw [List.find?_eq_none]
    intro v hv
    simp [hall v hv]
  rw [hnone]

/-! ### a setter call -/

theorem markStale_id {t : ClassTable} (w : WF t) {st : TState} (hi : Inv t st) {s : Setter}
    (hs : s ∈ t.setters) {p : Nat × Entry} (hp : p ∈ (st.erase (s.clears ++ s.writes)).cache) :
    markStale s p = p := by
  obtain ⟨hp1, hp2⟩ := mem_erase.1 hp
  unfold markStale
  split
  · rename_i hany
    exfalso
    obtain ⟨r, hr, hrw⟩ := List.any_eq_true.1 hany
    rcases hi.made p hp1 with ⟨_, hreads⟩ | ⟨_, site, hsite, hslot, _, hreads⟩
    · rw [hreads] at hr; cases hr
    · have := w.resetsOk s hs site hsite ⟨r, by rw [← hreads]; exact hr, by simpa using hrw⟩ p.1 hslot
      apply hp2
      rcases this with h | h
      · exact List.mem_append_left _ h
      · exact List.mem_append_right _ h
  · rfl

theorem stepPut_inv {t : ClassTable} (w : WF t) {st : TState} (hi : Inv t st) {s : Setter}
    (hs : s ∈ t.setters) : Inv t (stepPut t s st) := by
  unfold stepPut
  simp only
  have hmap : (st.erase (s.clears ++ s.writes)).cache.map (markStale s) =
      (st.erase (s.clears ++ s.writes)).cache := by
    conv => rhs; rw [← List.map_id (st.erase (s.clears ++ s.writes)).cache]
    apply List.map_congr_left
    intro p hp
    exact markStale_id w hi hs hp
  rw [hmap]
  have hst : (⟨(st.erase (s.clears ++ s.writes)).cache⟩ : TState) = st.erase (s.clears ++ s.writes) := rfl
  rw [hst]
  refine ⟨?_, ?_, ?_⟩
  · intro p hp
    rcases mem_fill.1 hp with ⟨_, he⟩ | ⟨h, _⟩
    · rw [he]
    · exact hi.fresh p (mem_erase.1 h).1
  · intro p hp
    rcases mem_fill.1 hp with ⟨_, he⟩ | ⟨h, _⟩
    · left; rw [he]; exact ⟨rfl, rfl⟩
    · exact hi.made p (mem_erase.1 h).1
  · intro site hsite hgd a ha
    apply present_fill.2
    rcases w.putWhole s hs site hsite with h | ⟨b, hb, hbc, hbw⟩ | h
    · right
      apply present_erase.2
      have hna : a ∉ s.clears ++ s.writes := by
        intro hx
        rcases List.mem_append.1 hx with hx | hx
        · exact (h a ha).1 hx
        · exact (h a ha).2 hx
      refine ⟨hi.group site hsite ?_ a ha, hna⟩
      intro b hb
      have hbs := (w.guardOwn site hsite).2 b hb
      rcases present_fill.1 (hgd b hb) with hx | hx
      · exact absurd (List.mem_filter.1 hx).1 (h b hbs).2
      · exact (present_erase.1 hx).1
    · exfalso
      rcases present_fill.1 (hgd b hb) with hx | hx
      · exact hbw (List.mem_filter.1 hx).1
      · exact (present_erase.1 hx).2 (List.mem_append_left _ hbc)
    · left
      exact List.mem_filter.2 ⟨h a ha, isSlot_of_site hsite ha⟩

/-! ### all histories -/

theorem runT_ok {t : ClassTable} (w : WF t) :
    ∀ (ops : List TOp) (st : TState), Inv t st → ∀ v ∈ runT t st ops, v = Verdict.ok := by
  intro ops
  induction ops with
  | nil => intro st _ v hv; simp [runT] at hv
  | cons op ops ih =>
    intro st hi v hv
    cases op with
    | get gi =>
      simp only [runT] at hv
      cases hg : t.getters[gi]? with
      | none => rw [hg] at hv; exact ih st hi v hv
      | some g =>
        rw [hg] at hv
        have hgm : g ∈ t.getters := List.mem_of_getElem? hg
        obtain ⟨h1, h2⟩ := stepGet_spec w hi hgm
        simp only at hv
        rcases List.mem_cons.1 hv with rfl | hv
        · exact h1
        · exact ih _ h2 v hv
    | put si =>
      simp only [runT] at hv
      cases hs : t.setters[si]? with
      | none => rw [hs] at hv; exact ih st hi v hv
      | some s =>
        rw [hs] at hv
        exact ih _ (stepPut_inv w hi (List.mem_of_getElem? hs)) v hv

end Lazy

namespace Lazy

/-- The memo object denoted by a well-formed table satisfies the frame condition of the generic
theorems: a slot that a setter neither clears nor rewrites does not read anything the setter writes. -/
theorem denote_frame {t : ClassTable} (w : WF t) :
    ∀ (k : Nat) (x : Unit) (i : Nat) (c : Nat → Nat), i ∉ (t.denote).resets k →
      (t.denote).f i ((t.denote).upd k x c) = (t.denote).f i c := by
  intro k x i c hi
  simp only [ClassTable.denote] at hi ⊢
  cases hk : t.setters[k]? with
  | none => rfl
  | some st =>
    rw [hk] at hi
    simp only at hi
    cases hs : t.siteOf i with
    | none => rfl
    | some s =>
      simp only
      have hsm : s ∈ t.allSites := List.mem_of_find?_eq_some hs
      have hsl : i ∈ s.slots := by
        have := List.find?_some hs
        simpa using this
      have hno : ¬ ∃ r ∈ s.reads, r ∈ st.writes := by
        intro hx
        rcases w.resetsOk st (List.mem_of_getElem? hk) s hsm hx i hsl with h | h
        · exact hi (List.mem_append_left _ h)
        · exact hi (List.mem_append_right _ h)
      congr 1
      apply List.map_congr_left
      intro r hr
      have : r ∉ st.writes := fun hw => hno ⟨r, hr, hw⟩
      simp [this]

end Lazy
