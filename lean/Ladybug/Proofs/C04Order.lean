/-
  C04 round 2: list ORDER of the listings (adjacent-dedup of the enumeration), the exact image form
  of months_per_hour, non-emptiness.  Only additions: new definitions used by the new theorems live
  here (Model/AP.lean is frozen).  No Mathlib.
-/
import Ladybug.Proofs.C04Listings

open Cal

namespace AP

/-! ### Adjacent de-duplication -/

/-- Remove immediate repetitions: `[a, a, b, b, a] ↦ [a, b, a]`. -/
def dedupAdj : List Nat → List Nat
  | [] => []
  | [x] => [x]
  | x :: y :: t => if x = y then dedupAdj (y :: t) else x :: dedupAdj (y :: t)

#guard dedupAdj [5, 5, 6, 6, 6, 365, 1, 1, 5] = [5, 6, 365, 1, 5]

theorem mem_dedupAdj (x : Nat) : ∀ l : List Nat, x ∈ dedupAdj l ↔ x ∈ l
  | [] => by simp [dedupAdj]
  | [a] => by simp [dedupAdj]
  | a :: b :: t => by
    have ih := mem_dedupAdj x (b :: t)
    unfold dedupAdj
    by_cases h : a = b
    · rw [if_pos h, ih]; subst h; simp
    · rw [if_neg h, List.mem_cons, ih]; simp

theorem dedupAdj_sorted : ∀ l : List Nat, l.Pairwise (· ≤ ·) → (dedupAdj l).Pairwise (· < ·)
  | [], _ => by simp [dedupAdj]
  | [a], _ => by simp [dedupAdj]
  | a :: b :: t, h => by
    have h' := List.pairwise_cons.mp h
    have ih := dedupAdj_sorted (b :: t) h'.2
    unfold dedupAdj
    by_cases e : a = b
    · rw [if_pos e]; exact ih
    · rw [if_neg e, List.pairwise_cons]
      refine ⟨?_, ih⟩
      intro z hz
      rw [mem_dedupAdj] at hz
      have hab : a ≤ b := h'.1 b (by simp)
      have hbz : b ≤ z := by
        rcases List.mem_cons.mp hz with rfl | hz
        · exact Nat.le_refl _
        · exact (List.pairwise_cons.mp h'.2).1 z hz
      omega

/-- Two strictly increasing lists with the same members are equal. -/
theorem sorted_ext : ∀ l₁ l₂ : List Nat, l₁.Pairwise (· < ·) → l₂.Pairwise (· < ·) →
    (∀ x, x ∈ l₁ ↔ x ∈ l₂) → l₁ = l₂
  | [], [], _, _, _ => rfl
  | [], b :: t, _, _, h => by have := (h b).mpr (by simp); simp at this
  | a :: t, [], _, _, h => by have := (h a).mp (by simp); simp at this
  | a :: t₁, b :: t₂, h1, h2, h => by
    have p1 := List.pairwise_cons.mp h1
    have p2 := List.pairwise_cons.mp h2
    have hab : a = b := by
      have ha := (h a).mp (by simp)
      have hb := (h b).mpr (by simp)
      rcases List.mem_cons.mp ha with e | ha
      · exact e
      · rcases List.mem_cons.mp hb with e | hb
        · exact e.symm
        · have := p2.1 a ha
          have := p1.1 b hb
          omega
    subst hab
    congr 1
    apply sorted_ext t₁ t₂ p1.2 p2.2
    intro x
    constructor
    · intro hx
      have := (h x).mp (List.mem_cons_of_mem _ hx)
      rcases List.mem_cons.mp this with e | hx2
      · have := p1.1 x hx; omega
      · exact hx2
    · intro hx
      have := (h x).mpr (List.mem_cons_of_mem _ hx)
      rcases List.mem_cons.mp this with e | hx2
      · have := p2.1 x hx; omega
      · exact hx2

/-- De-duplication distributes over `++` when the junction does not merge. -/
theorem dedupAdj_append : ∀ (a b : List Nat),
    (∀ x y, a.getLast? = some x → b.head? = some y → x ≠ y) →
    dedupAdj (a ++ b) = dedupAdj a ++ dedupAdj b
  | [], b, _ => by simp [dedupAdj]
  | [x], [], _ => by simp [dedupAdj]
  | [x], y :: t, h => by
    have hne : x ≠ y := h x y (by simp) (by simp)
    show dedupAdj (x :: y :: t) = [x] ++ dedupAdj (y :: t)
    rw [dedupAdj, if_neg hne]; rfl
  | x :: y :: t, b, h => by
    have ih := dedupAdj_append (y :: t) b (by
      intro u v hu hv
      exact h u v (by simpa using hu) hv)
    show dedupAdj (x :: y :: (t ++ b)) = dedupAdj (x :: y :: t) ++ dedupAdj b
    have e : y :: (t ++ b) = (y :: t) ++ b := rfl
    have eq1 : ∀ u v w, dedupAdj (u :: v :: w) =
        if u = v then dedupAdj (v :: w) else u :: dedupAdj (v :: w) := by
      intro u v w; rw [dedupAdj]
    rw [eq1 x y (t ++ b), eq1 x y t]
    by_cases hxy : x = y
    · rw [if_pos hxy, if_pos hxy, e, ih]
    · rw [if_neg hxy, if_neg hxy, e, ih]; rfl

theorem getLast?_of_max : ∀ (l : List Nat) (x : Nat), l.Pairwise (· ≤ ·) → x ∈ l →
    (∀ y ∈ l, y ≤ x) → l.getLast? = some x
  | [], _, _, h, _ => by simp at h
  | [z], x, _, h, _ => by simp at h; simp [h]
  | z :: w :: t, x, hp, hx, hmax => by
    have p := List.pairwise_cons.mp hp
    have : (z :: w :: t).getLast? = (w :: t).getLast? := by simp [List.getLast?_cons_cons]
    rw [this]
    apply getLast?_of_max (w :: t) x p.2
    · rcases List.mem_cons.mp hx with e | hx
      · have h1 : z ≤ w := p.1 w (by simp)
        have h2 : w ≤ x := hmax w (by simp)
        have : w = x := by omega
        simp [this]
      · exact hx
    · intro y hy; exact hmax y (List.mem_cons_of_mem _ hy)

theorem head?_of_min (l : List Nat) (x : Nat) (hp : l.Pairwise (· ≤ ·)) (hx : x ∈ l)
    (hmin : ∀ y ∈ l, x ≤ y) : l.head? = some x := by
  cases l with
  | nil => simp at hx
  | cons z t =>
    have p := List.pairwise_cons.mp hp
    rcases List.mem_cons.mp hx with e | hx
    · simp [e]
    · have h1 := p.1 x hx
      have h2 := hmin z (by simp)
      have : z = x := by omega
      simp [this]

/-- A list whose `f`-values never decrease, and whose set of `f`-values is the range `a, …, a+n-1`:
    the adjacent-dedup of its `f`-image is that range in ascending order. -/
theorem dedupAdj_map_eq_range' (l : List Nat) (f : Nat → Nat) (a n : Nat)
    (hs : (l.map f).Pairwise (· ≤ ·))
    (hmem : ∀ d, (a ≤ d ∧ d < a + n) ↔ ∃ m ∈ l, f m = d) :
    dedupAdj (l.map f) = List.range' a n := by
  apply sorted_ext _ _ (dedupAdj_sorted _ hs) List.pairwise_lt_range'
  intro d
  rw [mem_dedupAdj, List.mem_range'_1, hmem, List.mem_map]

/-! ### Non-emptiness -/

theorem stMoy_mem_moys (ap : AP) (hwf : ap.WF) : ap.stMoy ∈ ap.moys := by
  obtain ⟨hs, he, m1, m2, m3, m4, m5, m6, hrev⟩ := moment_facts ap hwf
  rw [mem_moys ap hwf]
  refine ⟨by omega, step_dvd_of_60 ap hwf.2.2 _ m1, ?_, ?_⟩
  · have : ap.stMoy % 1440 = ap.st_hour * 60 := by omega
    rw [this]; unfold inWindow; split <;> omega
  · by_cases h : ap.stMoy ≤ ap.endMoy
    · exact Or.inl ⟨h, Nat.le_refl _, by omega⟩
    · exact Or.inr ⟨by omega, Or.inl (Nat.le_refl _)⟩

/-! ### The two runs of a wrapping period, by membership -/

theorem mem_run1 (ap : AP) (hwf : ap.WF) (m : Nat) :
    m ∈ ap.segment ap.stMoy (lastHourMoy ap.leap) ↔
      ap.stMoy ≤ m ∧ m < minutesInYear ap.leap ∧ m % ap.step = 0 ∧ ap.inWindow (m % 1440) := by
  obtain ⟨hs, he, m1, m2, m3, m4, m5, m6, hrev⟩ := moment_facts ap hwf
  obtain ⟨l1, l2, l3, l4⟩ := lastHour_facts ap.leap
  rw [mem_segment ap hwf _ _ m1 l1 (by omega) (Or.inl l2), l3]

theorem mem_run2 (ap : AP) (hwf : ap.WF) (m : Nat) :
    m ∈ ap.segment (firstHourMoy ap.leap) ap.endMoy ↔
      m < ap.endMoy + 60 ∧ m % ap.step = 0 ∧ ap.inWindow (m % 1440) := by
  obtain ⟨hs, he, m1, m2, m3, m4, m5, m6, hrev⟩ := moment_facts ap hwf
  obtain ⟨l1, l2, l3, l4⟩ := lastHour_facts ap.leap
  rw [mem_segment ap hwf _ _ (by rw [l4]) m2 (by rw [l4]; omega) (Or.inr m3), l4]
  simp

/-- A minute `h:00` of day `d` with `h` the start or end hour is on the grid and in the window. -/
theorem hour_probe (ap : AP) (hwf : ap.WF) (d h : Nat) (hh : h = ap.st_hour ∨ h = ap.end_hour) :
    ((d - 1) * 1440 + h * 60) % ap.step = 0 ∧ ap.inWindow (((d - 1) * 1440 + h * 60) % 1440) := by
  obtain ⟨hs, he, _⟩ := moment_facts ap hwf
  refine ⟨step_dvd_of_60 ap hwf.2.2 _ (by omega), ?_⟩
  have : ((d - 1) * 1440 + h * 60) % 1440 = h * 60 := by omega
  rw [this]; unfold inWindow; split <;> omega

/-! ### doys_int in list order -/

theorem day_mono (l : List Nat) (h : l.Pairwise (· < ·)) :
    (l.map fun m => m / 1440 + 1).Pairwise (· ≤ ·) := by
  rw [List.pairwise_map]
  exact h.imp (fun {a b} hab => by omega)

theorem doys_eq_dedup (ap : AP) (hwf : ap.WF) :
    ap.doysInt = dedupAdj (ap.moys.map fun m => m / 1440 + 1) := by
  obtain ⟨hs, he, m1, m2, m3, m4, m5, m6, hrev⟩ := moment_facts ap hwf
  obtain ⟨d1, d2, d3, d4, e1, e2, eN⟩ := doy_facts ap hwf
  by_cases hr : ap.isReversed = false
  · have shape : ap.doysInt = List.range' (doyOf ap.leap ap.stTime.month ap.stTime.day)
        (doyOf ap.leap ap.endTime.month ap.endTime.day + 1 - doyOf ap.leap ap.stTime.month ap.stTime.day) := by
      unfold doysInt calcDaystamps; rw [if_pos hr]
    rw [shape]
    symm
    apply dedupAdj_map_eq_range' _ _ _ _ (day_mono _ (moys_sorted ap hwf hr))
    intro d
    rw [← List.mem_range'_1, ← shape, doys_iff ap hwf]
  · have hr' : ap.isReversed = true := by simpa using hr
    have hlt : ap.endMoy < ap.stMoy := by
      have : ¬ ap.stMoy ≤ ap.endMoy := fun h => hr (hrev.mpr h)
      omega
    have hl : (⟨12, 31, 23, 0, ap.leap⟩ : DT).doy = daysInYear ap.leap ∧
        (⟨1, 1, 0, 0, ap.leap⟩ : DT).doy = 1 := by cases ap.leap <;> decide
    have a1 : doyOf ap.leap ap.st_month ap.st_day = ap.stTime.doy := doyOf_eq _ _ _
    have a2 : doyOf ap.leap ap.end_month ap.end_day = ap.endTime.doy := doyOf_eq _ _ _
    have a3 : doyOf ap.leap 12 31 = daysInYear ap.leap := by rw [doyOf_eq]; exact hl.1
    have a4 : doyOf ap.leap 1 1 = 1 := by rw [doyOf_eq]; exact hl.2
    have shape : ap.doysInt = List.range' ap.stTime.doy (daysInYear ap.leap + 1 - ap.stTime.doy) ++
        List.range' 1 (ap.endTime.doy + 1 - 1) := by
      unfold doysInt calcDaystamps; rw [if_neg hr]
      simp only [stTime, endTime] at a1 a2 ⊢
      simp only [a1, a2, a3, a4]
    have hm : ap.moys = ap.segment ap.stMoy (lastHourMoy ap.leap) ++
        ap.segment (firstHourMoy ap.leap) ap.endMoy := by unfold moys; rw [if_neg hr]
    rw [shape, hm, List.map_append]
    have s1 := day_mono _ (segment_sorted ap hwf ap.stMoy (lastHourMoy ap.leap))
    have s2 := day_mono _ (segment_sorted ap hwf (firstHourMoy ap.leap) ap.endMoy)
    -- membership of the two day lists
    have mem1 : ∀ d, (ap.stTime.doy ≤ d ∧ d < ap.stTime.doy + (daysInYear ap.leap + 1 - ap.stTime.doy)) ↔
        ∃ m ∈ ap.segment ap.stMoy (lastHourMoy ap.leap), m / 1440 + 1 = d := by
      intro d
      constructor
      · rintro ⟨h1, h2⟩
        obtain ⟨g1, g2⟩ := hour_probe ap hwf d ap.st_hour (Or.inl rfl)
        exact ⟨(d - 1) * 1440 + ap.st_hour * 60,
          (mem_run1 ap hwf _).mpr ⟨by omega, by omega, g1, g2⟩, by omega⟩
      · rintro ⟨m, hm, rfl⟩
        obtain ⟨h1, h2, _⟩ := (mem_run1 ap hwf m).mp hm
        omega
    have mem2 : ∀ d, (1 ≤ d ∧ d < 1 + (ap.endTime.doy + 1 - 1)) ↔
        ∃ m ∈ ap.segment (firstHourMoy ap.leap) ap.endMoy, m / 1440 + 1 = d := by
      intro d
      constructor
      · rintro ⟨h1, h2⟩
        obtain ⟨g1, g2⟩ := hour_probe ap hwf d ap.end_hour (Or.inr rfl)
        exact ⟨(d - 1) * 1440 + ap.end_hour * 60,
          (mem_run2 ap hwf _).mpr ⟨by omega, g1, g2⟩, by omega⟩
      · rintro ⟨m, hm, rfl⟩
        obtain ⟨h1, _⟩ := (mem_run2 ap hwf m).mp hm
        omega
    rw [dedupAdj_append, dedupAdj_map_eq_range' _ _ _ _ s1 mem1, dedupAdj_map_eq_range' _ _ _ _ s2 mem2]
    -- the junction: the first run ends on the last day of the year, the second starts on day 1
    intro x y hx hy
    have hN : (List.map (fun m => m / 1440 + 1) (ap.segment ap.stMoy (lastHourMoy ap.leap))).getLast? =
        some (daysInYear ap.leap) := by
      apply getLast?_of_max _ _ s1
      · rw [List.mem_map]; exact (mem1 _).mp ⟨by omega, by omega⟩
      · intro z hz
        rw [List.mem_map] at hz
        obtain ⟨m, hm, rfl⟩ := hz
        obtain ⟨_, h2, _⟩ := (mem_run1 ap hwf m).mp hm
        omega
    have h1 : (List.map (fun m => m / 1440 + 1) (ap.segment (firstHourMoy ap.leap) ap.endMoy)).head? = some 1 := by
      apply head?_of_min _ _ s2
      · rw [List.mem_map]; exact (mem2 _).mp ⟨by omega, by omega⟩
      · intro z hz
        rw [List.mem_map] at hz
        obtain ⟨m, _, rfl⟩ := hz
        omega
    rw [hN] at hx
    rw [h1] at hy
    injection hx with hx
    injection hy with hy
    have : 1 < daysInYear ap.leap := by unfold daysInYear; split <;> omega
    omega

/-! ### months_int in list order -/

/-- Month of a minute of the year (`DateTime.from_moy(m).month`; 0 outside the year). -/
def monthOf (leap : Bool) (m : Nat) : Nat :=
  match fromMoy leap m with
  | .ok d => d.month
  | .error _ => 0

theorem monthOf_spec (leap : Bool) (m : Nat) (h : m < minutesInYear leap) :
    ∃ d, fromMoy leap m = .ok d ∧ d.valid ∧ d.moy = m ∧ d.leap = leap ∧ monthOf leap m = d.month := by
  obtain ⟨d, h1, h2, h3, _, _, _, h4⟩ := C08_fromMoy_moy leap m h
  exact ⟨d, h1, h2, h3, h4, by unfold monthOf; rw [h1]⟩

theorem monthOf_moy (w : DT) (hv : w.valid) : monthOf w.leap w.moy = w.month := by
  unfold monthOf; rw [C08_moy_fromMoy w hv]

theorem monthOf_mono (leap : Bool) (a b : Nat) (hab : a < b) (hb : b < minutesInYear leap) :
    monthOf leap a ≤ monthOf leap b := by
  obtain ⟨da, _, va, ma, la, ea⟩ := monthOf_spec leap a (by omega)
  obtain ⟨db, _, vb, mb, lb, eb⟩ := monthOf_spec leap b hb
  rw [ea, eb]
  by_cases hc : db.month < da.month
  · have := (C08_order db da vb va (by rw [la, lb])).mpr (Or.inl hc)
    omega
  · omega

theorem month_mono (ap : AP) (l : List Nat) (h : l.Pairwise (· < ·))
    (hin : ∀ m ∈ l, m < minutesInYear ap.leap) : (l.map (monthOf ap.leap)).Pairwise (· ≤ ·) := by
  rw [List.pairwise_map]
  exact h.imp_of_mem (fun {a b} _ hb hab => monthOf_mono ap.leap a b hab (hin b hb))

theorem months_iff' (ap : AP) (hwf : ap.WF) (mo : Nat) :
    mo ∈ ap.monthsInt ↔ ∃ m ∈ ap.moys, monthOf ap.leap m = mo := by
  rw [months_iff ap hwf]
  constructor
  · rintro ⟨m, hm, d, hd, rfl⟩
    exact ⟨m, hm, by unfold monthOf; rw [hd]⟩
  · rintro ⟨m, hm, rfl⟩
    obtain ⟨d, h1, _, _, _, h5⟩ := monthOf_spec ap.leap m ((mem_moys ap hwf m).mp hm).1
    exact ⟨m, hm, d, h1, h5.symm⟩

theorem months_eq_dedup (ap : AP) (hwf : ap.WF) :
    ap.monthsInt = dedupAdj (ap.moys.map (monthOf ap.leap)) := by
  obtain ⟨hs, he, m1, m2, m3, m4, m5, m6, hrev⟩ := moment_facts ap hwf
  have hin : ∀ m ∈ ap.moys, m < minutesInYear ap.leap := fun m hm => ((mem_moys ap hwf m).mp hm).1
  by_cases hr : ap.isReversed = false
  · have shape : ap.monthsInt = List.range' ap.st_month (ap.end_month + 1 - ap.st_month) := by
      unfold monthsInt; rw [if_pos hr]
    rw [shape]
    symm
    apply dedupAdj_map_eq_range' _ _ _ _ (month_mono ap _ (moys_sorted ap hwf hr) hin)
    intro d
    rw [← List.mem_range'_1, ← shape, months_iff' ap hwf]
  · have hlt : ap.endMoy < ap.stMoy := by
      have : ¬ ap.stMoy ≤ ap.endMoy := fun h => hr (hrev.mpr h)
      omega
    obtain ⟨hv1, hv2, hts⟩ := hwf
    have hwf : ap.WF := ⟨hv1, hv2, hts⟩
    have sv := hv1
    have ev := hv2
    obtain ⟨a1, a2, a3, a4, a5, a6⟩ := hv1
    obtain ⟨b1, b2, b3, b4, b5, b6⟩ := hv2
    have a1' : 1 ≤ ap.st_month := a1
    have a2' : ap.st_month ≤ 12 := a2
    have b1' : 1 ≤ ap.end_month := b1
    have b2' : ap.end_month ≤ 12 := b2
    have shape : ap.monthsInt = List.range' ap.st_month (13 - ap.st_month) ++ List.range' 1 ap.end_month := by
      unfold monthsInt; rw [if_neg hr]
    have hm : ap.moys = ap.segment ap.stMoy (lastHourMoy ap.leap) ++
        ap.segment (firstHourMoy ap.leap) ap.endMoy := by unfold moys; rw [if_neg hr]
    have hin1 : ∀ m ∈ ap.segment ap.stMoy (lastHourMoy ap.leap), m < minutesInYear ap.leap :=
      fun m h => hin m (by rw [hm]; exact List.mem_append_left _ h)
    have hin2 : ∀ m ∈ ap.segment (firstHourMoy ap.leap) ap.endMoy, m < minutesInYear ap.leap :=
      fun m h => hin m (by rw [hm]; exact List.mem_append_right _ h)
    have s1 := month_mono ap _ (segment_sorted ap hwf ap.stMoy (lastHourMoy ap.leap)) hin1
    have s2 := month_mono ap _ (segment_sorted ap hwf (firstHourMoy ap.leap) ap.endMoy) hin2
    -- an on-the-hour probe date-time is on the grid and in the window
    have onhour : ∀ w : DT, w.valid → w.minute = 0 → w.leap = ap.leap →
        (w.hour = ap.st_hour ∨ w.hour = ap.end_hour) →
        w.moy < minutesInYear ap.leap ∧ w.moy % ap.step = 0 ∧ ap.inWindow (w.moy % 1440) := by
      intro w hv h0 hl hh
      obtain ⟨q1, q2⟩ := moy_on_hour w hv h0
      have hlt := C08_moy_lt w hv
      rw [hl] at hlt
      refine ⟨hlt, step_dvd_of_60 ap hts _ q1, ?_⟩
      rw [q2]; unfold inWindow; split <;> omega
    have probe : ∀ mo h, h ≤ 23 → 1 ≤ mo → mo ≤ 12 → (⟨mo, 1, h, 0, ap.leap⟩ : DT).valid := by
      intro mo h hh h1 h2
      exact ⟨h1, h2, Nat.le_refl 1, monthLen_pos ap.leap mo h1 h2, hh, Nat.zero_le _⟩
    have mem1 : ∀ mo, (ap.st_month ≤ mo ∧ mo < ap.st_month + (13 - ap.st_month)) ↔
        ∃ m ∈ ap.segment ap.stMoy (lastHourMoy ap.leap), monthOf ap.leap m = mo := by
      intro mo
      constructor
      · rintro ⟨h1, h2⟩
        by_cases e : mo = ap.st_month
        · obtain ⟨g0, g1, g2⟩ := onhour ap.stTime sv rfl rfl (Or.inl rfl)
          refine ⟨ap.stMoy, (mem_run1 ap hwf _).mpr ⟨Nat.le_refl _, g0, g1, g2⟩, ?_⟩
          rw [e]; exact monthOf_moy ap.stTime sv
        · have pv := probe mo ap.st_hour hs (by omega) (by omega)
          obtain ⟨g0, g1, g2⟩ := onhour _ pv rfl rfl (Or.inl rfl)
          have o1 : ap.stMoy < (⟨mo, 1, ap.st_hour, 0, ap.leap⟩ : DT).moy :=
            (C08_order ap.stTime _ sv pv rfl).mpr (Or.inl (by change ap.st_month < mo; omega))
          exact ⟨_, (mem_run1 ap hwf _).mpr ⟨by omega, g0, g1, g2⟩, monthOf_moy _ pv⟩
      · rintro ⟨m, hm, rfl⟩
        obtain ⟨h1, h2, _⟩ := (mem_run1 ap hwf m).mp hm
        obtain ⟨d, _, dv, dm, dl, de⟩ := monthOf_spec ap.leap m h2
        rw [de]
        have dm2 : d.month ≤ 12 := dv.2.1
        by_cases hc : d.month < ap.st_month
        · have := (C08_order d ap.stTime dv sv dl).mpr (Or.inl hc)
          change _ < ap.stMoy at this
          omega
        · omega
    have mem2 : ∀ mo, (1 ≤ mo ∧ mo < 1 + ap.end_month) ↔
        ∃ m ∈ ap.segment (firstHourMoy ap.leap) ap.endMoy, monthOf ap.leap m = mo := by
      intro mo
      constructor
      · rintro ⟨h1, h2⟩
        by_cases e : mo = ap.end_month
        · obtain ⟨g0, g1, g2⟩ := onhour ap.endTime ev rfl rfl (Or.inr rfl)
          refine ⟨ap.endMoy, (mem_run2 ap hwf _).mpr ⟨by omega, g1, g2⟩, ?_⟩
          rw [e]; exact monthOf_moy ap.endTime ev
        · have pv := probe mo ap.end_hour he h1 (by omega)
          obtain ⟨g0, g1, g2⟩ := onhour _ pv rfl rfl (Or.inr rfl)
          have o2 : (⟨mo, 1, ap.end_hour, 0, ap.leap⟩ : DT).moy < ap.endMoy :=
            (C08_order _ ap.endTime pv ev rfl).mpr (Or.inl (by change mo < ap.end_month; omega))
          exact ⟨_, (mem_run2 ap hwf _).mpr ⟨by omega, g1, g2⟩, monthOf_moy _ pv⟩
      · rintro ⟨m, hm, rfl⟩
        obtain ⟨h1, _⟩ := (mem_run2 ap hwf m).mp hm
        obtain ⟨d, _, dv, dm, dl, de⟩ := monthOf_spec ap.leap m (hin2 m hm)
        rw [de]
        have dm1 : 1 ≤ d.month := dv.1
        have ev59 : (⟨ap.end_month, ap.end_day, ap.end_hour, 59, ap.leap⟩ : DT).valid :=
          ⟨b1, b2, b3, b4, b5, Nat.le_refl _⟩
        have e59 : (⟨ap.end_month, ap.end_day, ap.end_hour, 59, ap.leap⟩ : DT).moy = ap.endMoy + 59 := by
          simp [DT.moy, DT.intHoy, DT.doy, endMoy, endTime]
        by_cases hc : ap.end_month < d.month
        · have := (C08_order _ d ev59 dv dl.symm).mpr (Or.inl hc)
          rw [e59] at this
          omega
        · omega
    rw [shape, hm, List.map_append, dedupAdj_append,
      dedupAdj_map_eq_range' _ _ _ _ s1 mem1, dedupAdj_map_eq_range' _ _ _ _ s2 mem2]
    -- the junction: the first run ends in December, the second starts in January
    intro x y hx hy
    have h12 : (List.map (monthOf ap.leap) (ap.segment ap.stMoy (lastHourMoy ap.leap))).getLast? = some 12 := by
      apply getLast?_of_max _ _ s1
      · rw [List.mem_map]; exact (mem1 12).mp ⟨by omega, by omega⟩
      · intro z hz
        rw [List.mem_map] at hz
        have := (mem1 z).mpr hz
        omega
    have h1 : (List.map (monthOf ap.leap) (ap.segment (firstHourMoy ap.leap) ap.endMoy)).head? = some 1 := by
      apply head?_of_min _ _ s2
      · rw [List.mem_map]; exact (mem2 1).mp ⟨by omega, by omega⟩
      · intro z hz
        rw [List.mem_map] at hz
        have := (mem2 z).mpr hz
        omega
    rw [h12] at hx
    rw [h1] at hy
    injection hx with hx
    injection hy with hy
    omega

/-! ### months_per_hour as the exact image of the enumeration -/

/-- Month `mo` contains a whole day of the period: some day `day` of that month (day of the year
    `D`) lies with all its 1440 minutes between the start moment and the end of the end hour
    (cyclically for wrapping periods). -/
def wholeDayIn (ap : AP) (mo : Nat) : Prop :=
  ∃ day, 1 ≤ day ∧ day ≤ monthLen ap.leap mo ∧
    ((ap.stMoy ≤ ap.endMoy ∧ ap.stMoy ≤ (daysBefore ap.leap mo + day - 1) * 1440 ∧
        (daysBefore ap.leap mo + day) * 1440 ≤ ap.endMoy + 60) ∨
     (ap.endMoy < ap.stMoy ∧ (ap.stMoy ≤ (daysBefore ap.leap mo + day - 1) * 1440 ∨
        (daysBefore ap.leap mo + day) * 1440 ≤ ap.endMoy + 60)))

theorem mph_image (ap : AP) (hwf : ap.WF) (hall : ∀ mo ∈ ap.monthsInt, ap.wholeDayIn mo)
    (t : Nat × Nat × Nat) :
    t ∈ ap.monthsPerHour ↔
      ∃ m ∈ ap.moys, ∃ d, fromMoy ap.leap m = .ok d ∧ (d.month, d.hour, d.minute) = t := by
  constructor
  · intro ht
    obtain ⟨hmo, x, hx, hg, hw, e1, e2⟩ := (mem_monthsPerHour ap hwf t).mp ht
    obtain ⟨day, hd1, hd2, hrange⟩ := hall t.1 hmo
    -- the month is a calendar month
    have hmo12 : 1 ≤ t.1 ∧ t.1 ≤ 12 := by
      have a1 : 1 ≤ ap.st_month := hwf.1.1
      have b2 : ap.end_month ≤ 12 := hwf.2.1.2.1
      rcases (mem_monthsInt ap t.1).mp hmo with ⟨_, h1, h2⟩ | ⟨_, (⟨h1, h2⟩ | ⟨h1, h2⟩)⟩ <;> omega
    let w : DT := ⟨t.1, day, x / 60, x % 60, ap.leap⟩
    have wv : w.valid := ⟨hmo12.1, hmo12.2, hd1, hd2, by show x / 60 ≤ 23; omega, by show x % 60 ≤ 59; omega⟩
    have wmoy : w.moy = (daysBefore ap.leap t.1 + day - 1) * 1440 + x := by
      show ((daysBefore ap.leap t.1 + day - 1) * 24 + x / 60) * 60 + x % 60 = _
      omega
    have hlt := C08_moy_lt w wv
    have hfm := C08_moy_fromMoy w wv
    change w.moy < minutesInYear ap.leap at hlt
    change fromMoy ap.leap w.moy = .ok w at hfm
    have wf : (w.month, w.hour, w.minute) = (t.1, x / 60, x % 60) := rfl
    clear_value w
    refine ⟨w.moy, (mem_moys ap hwf _).mpr ⟨hlt, ?_, ?_, ?_⟩, w, hfm, ?_⟩
    · rw [wmoy]
      have h1 : ((daysBefore ap.leap t.1 + day - 1) * 1440) % ap.step = 0 :=
        step_dvd_of_60 ap hwf.2.2 _ (by omega)
      rw [Nat.add_mod, h1, hg]; simp
    · have : w.moy % 1440 = x := by rw [wmoy]; omega
      rw [this]; exact hw
    · rw [wmoy]
      rcases hrange with ⟨h0, h1, h2⟩ | ⟨h0, (h1 | h2)⟩
      · exact Or.inl ⟨h0, Nat.le_trans h1 (Nat.le_add_right _ _), by omega⟩
      · right
        refine ⟨h0, ?_⟩
        left
        exact Nat.le_trans h1 (Nat.le_add_right _ _)
      · right
        refine ⟨h0, ?_⟩
        right
        omega
    · rw [wf, ← e1, ← e2]
  · rintro ⟨m, hm, d, hd, rfl⟩
    exact mph_complete ap hwf m hm d hd

/-! ### First element -/

theorem moys_head (ap : AP) (hwf : ap.WF) : ap.moys.head? = some ap.stMoy := by
  obtain ⟨hs, he, m1, m2, m3, m4, m5, m6, hrev⟩ := moment_facts ap hwf
  by_cases hr : ap.isReversed = false
  · apply head?_of_min _ _ ((moys_sorted ap hwf hr).imp (fun h => Nat.le_of_lt h)) (stMoy_mem_moys ap hwf)
    intro y hy
    have hle := hrev.mp hr
    rcases ((mem_moys ap hwf y).mp hy).2.2.2 with h | h <;> omega
  · have hm : ap.moys = ap.segment ap.stMoy (lastHourMoy ap.leap) ++
        ap.segment (firstHourMoy ap.leap) ap.endMoy := by unfold moys; rw [if_neg hr]
    have h1 : (ap.segment ap.stMoy (lastHourMoy ap.leap)).head? = some ap.stMoy := by
      apply head?_of_min _ _ ((segment_sorted ap hwf _ _).imp (fun h => Nat.le_of_lt h))
      · have := (mem_moys ap hwf ap.stMoy).mp (stMoy_mem_moys ap hwf)
        exact (mem_run1 ap hwf _).mpr ⟨Nat.le_refl _, this.1, this.2.1, this.2.2.1⟩
      · intro y hy; exact ((mem_run1 ap hwf y).mp hy).1
    rw [hm, List.head?_append, h1]; rfl

end AP
