/-
  Helper lemmas for the object state machine of C11 (Model/SunpathObj.lean): validity is kept by every
  step, `run` over an appended history, a valid object is the fresh object of its own public state.
-/
import Ladybug.Proofs.C11Lemmas
import Ladybug.Model.SunpathObj

namespace SunpathObj

section

variable {α : Type} [Add α] [Sub α] [Mul α] [Div α] [Neg α] [OfScientific α] [LT α] [LE α]
  [DecidableLT α] [DecidableLE α] [Transc α]
variable (ofN : Nat → α) (toRat : α → Option Rat) (ofI : Int → α)

theorem step_valid (o : Obj α) (h : o.Valid) (op : Op α) : (step ofN toRat ofI o op).1.Valid := by
  obtain ⟨h1, h2, h3, h4⟩ := h
  cases op with
  | setLat v =>
    cases v with
    | error e => exact ⟨h1, h2, h3, h4⟩
    | ok v =>
      unfold step
      by_cases hv : latOk v = true
      · simp only [hv, if_true]; exact ⟨hv, h2, h3, h4⟩
      · simp only [hv]; exact ⟨h1, h2, h3, h4⟩
  | setLon v =>
    cases v with
    | error e => exact ⟨h1, h2, h3, h4⟩
    | ok v =>
      unfold step
      by_cases hv : lonOk v = true
      · simp only [hv, if_true]; exact ⟨h1, hv, h3, h4⟩
      · simp only [hv]; exact ⟨h1, h2, h3, h4⟩
  | setNorth v =>
    cases v with
    | error e => exact ⟨h1, h2, h3, h4⟩
    | ok v =>
      unfold step
      by_cases hv : northOk v = true
      · simp only [hv, if_true]; exact ⟨h1, h2, h3, hv⟩
      · simp only [hv]; exact ⟨h1, h2, h3, h4⟩
  | setTz v =>
    cases v with
    | error e => exact ⟨h1, h2, h3, h4⟩
    | ok v =>
      unfold step
      by_cases hv : tzOk (Sun.timeZoneOf (Sun.rad o.lon) v) = true
      · simp only [hv, if_true]; exact ⟨h1, h2, hv, h4⟩
      · simp only [hv]; exact ⟨h1, h2, h3, h4⟩
  | setLeap b => exact ⟨h1, h2, h3, h4⟩
  | setPeriod p =>
    cases p with
    | error e => exact ⟨h1, h2, h3, h4⟩
    | ok p => exact ⟨h1, h2, h3, h4⟩
  | argErr e => exact ⟨h1, h2, h3, h4⟩
  | rd q => exact ⟨h1, h2, h3, h4⟩

theorem run_valid (ops : List (Op α)) : ∀ (o : Obj α), o.Valid → (run ofN toRat ofI o ops).1.Valid := by
  induction ops with
  | nil => intro o h; exact h
  | cons op ops ih =>
    intro o h
    unfold run
    exact ih _ (step_valid ofN toRat ofI o h op)

theorem run_append (a b : List (Op α)) : ∀ (o : Obj α),
    run ofN toRat ofI o (a ++ b) =
      ((run ofN toRat ofI (run ofN toRat ofI o a).1 b).1,
       (run ofN toRat ofI o a).2 ++ (run ofN toRat ofI (run ofN toRat ofI o a).1 b).2) := by
  induction a with
  | nil => intro o; simp [run]
  | cons op a ih =>
    intro o
    simp only [List.cons_append, run, ih, List.cons_append]

theorem fresh_of_valid (o : Obj α) (h : o.Valid) : fresh ofN toRat ofI o = .ok o := by
  obtain ⟨h1, h2, h3, h4⟩ := h
  cases o with
  | mk lat lon tz north leap period =>
    simp only at h1 h2 h3 h4
    simp [fresh, construct, h1, h2, h3, h4, Sun.timeZoneOf, step]

omit [Add α] [Sub α] [LT α] [DecidableLT α] in
theorem construct_valid (lat lon : α) (tz : Option α) (north : α) (period : Option AP) (o : Obj α)
    (h : construct lat lon tz north period = .ok o) : o.Valid := by
  unfold construct at h
  by_cases h1 : latOk lat = false
  · simp [h1] at h
  by_cases h2 : lonOk lon = false
  · simp [h1, h2] at h
  by_cases h3 : tzOk (Sun.timeZoneOf (Sun.rad lon) tz) = false
  · simp [h1, h2, h3] at h
  by_cases h4 : northOk north = false
  · simp [h1, h2, h3, h4] at h
  simp [h1, h2, h3, h4] at h
  subst h
  simp only [Bool.not_eq_false] at h1 h2 h3 h4
  exact ⟨h1, h2, h3, h4⟩

end

end SunpathObj
