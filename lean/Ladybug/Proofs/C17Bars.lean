/-
  Lemmas for the bar-column theorems of C17 (monthly / daily bars).  Rat arithmetic via Mathlib tactics.
-/
import Ladybug.Model.Plot
import Mathlib.Tactic.Linarith
import Mathlib.Tactic.FieldSimp
import Mathlib.Tactic.Positivity
import Mathlib.Tactic.Ring

namespace Plot

/-- x position and width of the `i`-th bar produced by `barsOfData`. -/
theorem barsOfData_geom (c : BarCfg) (sx w : Nat → Rat) : ∀ (vs : List Rat) (start : Nat)
    (lines : List (Rat × Rat)) (i : Nat) (b : Bar),
    (barsOfData c sx w start vs lines).1[i]? = some b → i < vs.length ∧ b.x = sx (start + i) ∧ b.w = w (start + i) := by
  intro vs
  induction vs with
  | nil => intro start lines i b h; simp [barsOfData] at h
  | cons v vs ih =>
    intro start lines i b h
    simp only [barsOfData] at h
    cases i with
    | zero =>
      simp at h
      subst h
      exact ⟨by simp, rfl, rfl⟩
    | succ i =>
      simp only [List.getElem?_cons_succ] at h
      obtain ⟨h1, h2, h3⟩ := ih (start + 1) lines.tail i b h
      refine ⟨by simp; omega, ?_, ?_⟩
      · rw [h2]; congr 1; omega
      · rw [h3]; congr 1; omega

theorem barsOfData_length (c : BarCfg) (sx w : Nat → Rat) : ∀ (vs : List Rat) (start : Nat)
    (lines : List (Rat × Rat)), (barsOfData c sx w start vs lines).1.length = vs.length := by
  intro vs
  induction vs with
  | nil => intro start lines; simp [barsOfData]
  | cons v vs ih => intro start lines; simp [barsOfData, ih]

/-- A monthly bar stands inside the column of its month. -/
theorem monthly_bar_in_column (baseX xDim : Rat) (nBars bc mi : Nat) (hx : 0 < xDim) (hbc : bc + 1 ≤ nBars) :
    let bw : Rat := xDim / ((nBars : Rat) + 1)
    let x := baseX + (mi : Rat) * xDim + bw / 2 + (bc : Rat) * bw
    baseX + (mi : Rat) * xDim ≤ x ∧ x + bw ≤ baseX + ((mi : Rat) + 1) * xDim ∧ 0 < bw := by
  intro bw x
  have hn : (0 : Rat) < (nBars : Rat) + 1 := by positivity
  have hbw : 0 < bw := div_pos hx hn
  have hxd : xDim = ((nBars : Rat) + 1) * bw := by
    simp only [bw]; field_simp
  have hc : (bc : Rat) + 1 ≤ (nBars : Rat) := by exact_mod_cast hbc
  have h0 : 0 ≤ (bc : Rat) := by positivity
  have hprod : 0 ≤ ((nBars : Rat) - (bc : Rat) - 1 / 2) * bw := mul_nonneg (by linarith) (le_of_lt hbw)
  have hprod2 : 0 ≤ (bc : Rat) * bw := mul_nonneg h0 (le_of_lt hbw)
  refine ⟨?_, ?_, hbw⟩
  · simp only [x]; linarith
  · simp only [x]
    have : baseX + ((mi : Rat) + 1) * xDim = baseX + (mi : Rat) * xDim + ((nBars : Rat) + 1) * bw := by
      rw [← hxd]; ring
    rw [this]
    nlinarith [hprod]

theorem monthlyGroup_columns (c : BarCfg) (nBars : Nat) (hx : 0 < c.xDim) :
    ∀ (datas : List (List Rat)) (bc : Nat) (lines : List (Rat × Rat)), bc + datas.length ≤ nBars →
      ∀ bars ∈ (monthlyGroup c nBars bc datas lines).1, ∀ (mi : Nat) (b : Bar), bars[mi]? = some b →
        c.baseX + (mi : Rat) * c.xDim ≤ b.x ∧ b.x + b.w ≤ c.baseX + ((mi : Rat) + 1) * c.xDim ∧ 0 < b.w := by
  intro datas
  induction datas with
  | nil => intro bc lines _ bars hb; simp [monthlyGroup] at hb
  | cons data rest ih =>
    intro bc lines hle bars hb mi b hget
    simp only [monthlyGroup] at hb
    simp only [List.length_cons] at hle
    rcases List.mem_cons.mp hb with rfl | hb'
    · obtain ⟨_, h2, h3⟩ := barsOfData_geom c _ _ data 0 lines mi b hget
      rw [h2, h3]
      simp only [Nat.zero_add]
      exact monthly_bar_in_column c.baseX c.xDim nBars bc mi hx (by omega)
    · refine ih _ _ ?_ bars hb' mi b hget
      split <;> omega

/-! ### Daily bars: the calendar walk -/

/-- The day after day `d` (0-based) of month `m` (index into `dpm`). -/
def nextDay (dpm : List Nat) (md : Nat × Nat) : Nat × Nat :=
  if md.2 + 1 < dpm.getD md.1 0 then (md.1, md.2 + 1) else (md.1 + 1, 0)

/-- The (month index, 0-based day) of the `i`-th day counted from `(m, d)`. -/
def dayAt (dpm : List Nat) (md : Nat × Nat) : Nat → Nat × Nat
  | 0 => md
  | i + 1 => dayAt dpm (nextDay dpm md) i

/-- A day of the listed months. -/
def validDay (dpm : List Nat) (md : Nat × Nat) : Prop := md.1 < dpm.length ∧ md.2 < dpm.getD md.1 0

/-- The slot the code computes for the `i`-th value is the slot of the `i`-th calendar day. -/
theorem dailySlots_walk (xDim big : Rat) (dpm : List Nat) : ∀ (n dayCount mc : Nat) (i : Nat),
    (∀ j, j ≤ i → validDay dpm (dayAt dpm (mc, dayCount) j)) → i < n →
    (dailySlots xDim big dpm n dayCount mc (((dayCount : Nat) : Rat) * (big / ((dpm.getD mc 1 : Nat) : Rat)))).getD i (0, 0) =
      (let md := dayAt dpm (mc, dayCount) i
       let bw : Rat := big / ((dpm.getD md.1 1 : Nat) : Rat)
       ((md.2 : Rat) * bw + (md.1 : Rat) * xDim, bw)) := by
  intro n
  induction n with
  | zero => intro dayCount mc i _ hi; omega
  | succ n ih =>
    intro dayCount mc i hvalid hi
    have hv0 := hvalid 0 (Nat.zero_le _)
    simp only [dayAt, validDay] at hv0
    cases i with
    | zero =>
      simp only [dailySlots, dayAt]
      split
      · split <;> simp
      · simp
    | succ i =>
      have hnext : ∀ j, j ≤ i → validDay dpm (dayAt dpm (nextDay dpm (mc, dayCount)) j) := by
        intro j hj; exact hvalid (j + 1) (by omega)
      have hv1 := hnext 0 (Nat.zero_le _)
      simp only [dayAt] at hv1
      simp only [dayAt]
      unfold dailySlots
      simp only
      by_cases hlast : dayCount + 1 = dpm.getD mc 0
      · rw [if_pos hlast]
        have hnd : nextDay dpm (mc, dayCount) = (mc + 1, 0) := by
          simp only [nextDay]; rw [if_neg (by omega)]
        rw [hnd] at hv1 hnext ⊢
        have hne : mc ≠ dpm.length - 1 := by
          have := hv1.1; simp at this; omega
        rw [if_pos hne]
        simp only [List.getD_cons_succ]
        have := ih 0 (mc + 1) i hnext (by omega)
        simpa using this
      · rw [if_neg hlast]
        have hnd : nextDay dpm (mc, dayCount) = (mc, dayCount + 1) := by
          simp only [nextDay]; rw [if_pos (by have := hv0.2; simp at this; omega)]
        rw [hnd] at hnext ⊢
        simp only [List.getD_cons_succ]
        have := ih (dayCount + 1) mc i hnext (by omega)
        have e : ((dayCount : Nat) : Rat) * (big / ((dpm.getD mc 1 : Nat) : Rat)) + big / ((dpm.getD mc 1 : Nat) : Rat) =
            ((dayCount + 1 : Nat) : Rat) * (big / ((dpm.getD mc 1 : Nat) : Rat)) := by
          push_cast; ring
        rw [e]
        exact this

/-- A daily bar stands inside the column of its month (and inside the strip of its collection). -/
theorem daily_bar_in_column (baseX xDim : Rat) (nBig bc m d len : Nat) (hx : 0 < xDim)
    (hbc : bc + 1 ≤ nBig) (hd : d < len) :
    let big : Rat := xDim / (nBig : Rat)
    let bw : Rat := big / (len : Rat)
    let x := baseX + ((d : Rat) * bw + (m : Rat) * xDim) + (bc : Rat) * big
    baseX + (m : Rat) * xDim ≤ x ∧ x + bw ≤ baseX + ((m : Rat) + 1) * xDim ∧ 0 < bw := by
  intro big bw x
  have hn : (0 : Rat) < (nBig : Rat) := by
    have : 0 < nBig := by omega
    exact_mod_cast this
  have hl : (0 : Rat) < (len : Rat) := by
    have : 0 < len := by omega
    exact_mod_cast this
  have hbig : 0 < big := div_pos hx hn
  have hbw : 0 < bw := div_pos hbig hl
  have hxd : xDim = (nBig : Rat) * big := by simp only [big]; field_simp
  have hbg : big = (len : Rat) * bw := by simp only [bw]; field_simp
  have hc : (bc : Rat) + 1 ≤ (nBig : Rat) := by exact_mod_cast hbc
  have hdl : (d : Rat) + 1 ≤ (len : Rat) := by exact_mod_cast hd
  have h0 : 0 ≤ (bc : Rat) := by positivity
  have h0d : 0 ≤ (d : Rat) := by positivity
  have p1 : 0 ≤ (d : Rat) * bw := mul_nonneg h0d (le_of_lt hbw)
  have p2 : 0 ≤ (bc : Rat) * big := mul_nonneg h0 (le_of_lt hbig)
  have p3 : 0 ≤ ((len : Rat) - (d : Rat) - 1) * bw := mul_nonneg (by linarith) (le_of_lt hbw)
  have p4 : 0 ≤ ((nBig : Rat) - (bc : Rat) - 1) * big := mul_nonneg (by linarith) (le_of_lt hbig)
  refine ⟨?_, ?_, hbw⟩
  · simp only [x]; linarith
  · simp only [x]
    have : baseX + ((m : Rat) + 1) * xDim = baseX + (m : Rat) * xDim + (nBig : Rat) * big := by
      rw [← hxd]; ring
    rw [this]
    nlinarith [p3, p4, hbg]

theorem dailyGroup_columns (c : BarCfg) (nBig : Nat) (dpm : List Nat) (stDay : Nat) (hx : 0 < c.xDim) :
    ∀ (datas : List (List Rat)) (bc : Nat) (lines : List (Rat × Rat)), bc + datas.length ≤ nBig →
      ∀ (k : Nat) (bars : List Bar), (dailyGroup c nBig dpm stDay bc datas lines).1[k]? = some bars →
      ∀ (i : Nat) (b : Bar), bars[i]? = some b →
        (∀ j, j ≤ i → validDay dpm (dayAt dpm (0, stDay - 1) j)) →
        let md := dayAt dpm (0, stDay - 1) i
        c.baseX + (md.1 : Rat) * c.xDim ≤ b.x ∧ b.x + b.w ≤ c.baseX + ((md.1 : Rat) + 1) * c.xDim ∧ 0 < b.w := by
  intro datas
  induction datas with
  | nil => intro bc lines _ k bars hb; simp [dailyGroup] at hb
  | cons data rest ih =>
    intro bc lines hle k bars hb i b hget hvalid
    simp only [dailyGroup] at hb
    simp only [List.length_cons] at hle
    cases k with
    | zero =>
      simp only [List.getElem?_cons_zero, Option.some.injEq] at hb
      subst hb
      obtain ⟨hi, h2, h3⟩ := barsOfData_geom c _ _ data 0 lines i b hget
      have hslot := dailySlots_walk c.xDim (c.xDim / (nBig : Rat)) dpm data.length (stDay - 1) 0 i hvalid hi
      simp only [Nat.zero_add] at h2 h3
      intro md
      have hv := hvalid i (Nat.le_refl _)
      have hd1 : dpm.getD md.1 1 = dpm.getD md.1 0 := by
        have hlt : md.1 < dpm.length := hv.1
        rw [List.getD_eq_getElem?_getD, List.getD_eq_getElem?_getD, List.getElem?_eq_getElem hlt]
        rfl
      rw [h2, h3, hslot]
      simp only
      rw [hd1]
      exact daily_bar_in_column c.baseX c.xDim nBig bc md.1 md.2 (dpm.getD md.1 0) hx (by omega) hv.2
    | succ k =>
      simp only [List.getElem?_cons_succ] at hb
      refine ih _ _ ?_ k bars hb i b hget hvalid
      split <;> omega

end Plot
