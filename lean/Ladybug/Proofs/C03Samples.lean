/-
  C03: facts established by kernel evaluation (`decide +kernel`) on finite domains / sample periods.
  Kept in their own module because they are the slow part of the build (about 20 s CPU).  No Mathlib.
-/
import Ladybug.Model.Group

open Cal

namespace Grp

def monthChk (leap : Bool) (n : Nat) : Bool :=
  match fromDoy leap n, monthOfDoy leap n with
  | .ok d, .ok m => d.month == m
  | _, _ => false

/-- All 365 + 366 day numbers: `DailyCollection.group_by_month` uses the month of `Date.from_doy`. -/
theorem monthChk_all (leap : Bool) : (List.range' 1 (daysInYear leap)).all (monthChk leap) = true := by
  cases leap <;> decide +kernel

end Grp
