/-
  C03: facts established by kernel evaluation (`decide +kernel`) on finite domains / sample periods.
  Kept in their own module because they are the slow part of the build (about 20 s CPU).  No Mathlib.
-/
import Ladybug.Model.Group

open Cal

namespace Grp

/-- The datetimes of a period as plain `DT`s (every step of a well-formed period builds one). -/
def dtsOf (ap : AP) : List DT := ap.moys.filterMap fun (m : Nat) => (fromMoy ap.leap (m : Int)).toOption

/-- Sample periods (a test, not a general theorem): continuous grouping = keyed grouping. -/
theorem samples_ok :
    (∀ ap ∈ ([⟨12, 26, 0, 1, 3, 23, 1, false⟩] : List AP),
      discDay ap ((dtsOf ap).zip (List.range ap.len)) = .ok (contDay ap (List.range ap.len))) ∧
    (∀ ap ∈ ([⟨1, 30, 0, 2, 2, 23, 1, false⟩, ⟨12, 30, 0, 1, 2, 23, 1, false⟩] : List AP),
      discMonth ((dtsOf ap).zip (List.range ap.len)) = contMonth ap (List.range ap.len)) := by
  decide +kernel

def monthChk (leap : Bool) (n : Nat) : Bool :=
  match fromDoy leap n, monthOfDoy leap n with
  | .ok d, .ok m => d.month == m
  | _, _ => false

/-- All 365 + 366 day numbers: `DailyCollection.group_by_month` uses the month of `Date.from_doy`. -/
theorem monthChk_all (leap : Bool) : (List.range' 1 (daysInYear leap)).all (monthChk leap) = true := by
  cases leap <;> decide +kernel

theorem mph_example : (mphKeys 1).Nodup ∧ (3, 23, 0) ∈ mphKeys 1 ∧ (3, 23, 30) ∉ mphKeys 1 := by
  decide +kernel

end Grp
