/-
  C07 (round 3) — lemmas about the object state machines of Model/Serial/Hist.lean:
  generic facts (refused operations, reads, invariants along histories) and the two
  instances (Location, data collections).  No Mathlib.
-/
import Ladybug.Model.Serial.Hist
import Ladybug.Proofs.C07Loc

namespace Codec
namespace Hist

variable {σ ω ρ : Type}

/-! ### Generic facts -/

theorem step_refused (m : Machine σ ω ρ) (s : σ) (o : Op ω ρ)
    (h : (m.step s o).2 = .refused) : (m.step s o).1 = s := by
  cases o with
  | read r => rfl
  | asg o =>
    simp only [Machine.step] at h ⊢
    cases hm : m.apply s o with
    | none => rfl
    | some s' => rw [hm] at h; cases h

theorem step_read_state (m : Machine σ ω ρ) (s : σ) (r : ρ) : (m.step s (.read r)).1 = s := rfl

theorem run_reads (m : Machine σ ω ρ) (s : σ) (rs : List ρ) :
    m.run s (rs.map Op.read) = s := by
  induction rs with
  | nil => rfl
  | cons r rs ih => simpa [Machine.run, Machine.step] using ih

theorem run_append (m : Machine σ ω ρ) (s : σ) (a b : List (Op ω ρ)) :
    m.run s (a ++ b) = m.run (m.run s a) b := by
  induction a generalizing s with
  | nil => rfl
  | cons o a ih => simp [Machine.run, ih]

/-- An invariant kept by every accepted assignment of the domain holds after every history. -/
theorem run_inv (m : Machine σ ω ρ) (inv : σ → Prop) (dom : ω → Prop)
    (hp : ∀ s o s', inv s → dom o → m.apply s o = some s' → inv s') :
    ∀ (ops : List (Op ω ρ)) (s : σ), inv s → (∀ o, Op.asg o ∈ ops → dom o) → inv (m.run s ops) := by
  intro ops
  induction ops with
  | nil => intro s hs _; exact hs
  | cons o ops ih =>
    intro s hs hd
    simp only [Machine.run]
    apply ih
    · cases o with
      | read r => exact hs
      | asg o =>
        simp only [Machine.step]
        cases hm : m.apply s o with
        | none => exact hs
        | some s' => exact hp s o s' hs (hd o (by simp)) hm
    · intro o' ho'; exact hd o' (by simp [ho'])

/-! ### Location -/

theorem angle_result (v : PyVal) (lo hi : Int) (n : Num) (hd : ∀ i, v = .int i → i = 0)
    (h : angle v lo hi = some n) :
    n = .int 0 ∨ ∃ b, n = .flt b ∧ n.truthy = true ∧ n.inRange lo hi = true := by
  unfold angle at h
  by_cases ht : v.truthy = true
  · simp only [ht, Bool.not_true, Bool.false_eq_true, if_false] at h
    cases v with
    | flt b =>
      simp only [PyVal.num?, Num.toFloat] at h
      by_cases hr : (Num.flt b).inRange lo hi = true
      · simp only [hr, if_true, Option.some.injEq] at h
        subst h
        exact Or.inr ⟨b, rfl, by simpa [Num.truthy, Num.enc] using ht, hr⟩
      · simp [hr] at h
    | int i =>
      have := hd i rfl
      subst this
      simp [PyVal.truthy] at ht
    | none => simp [PyVal.num?] at h
    | bool b => simp [PyVal.num?] at h
    | str s => simp [PyVal.num?] at h
    | list l => simp [PyVal.num?] at h
    | tuple l => simp [PyVal.num?] at h
    | dict d => simp [PyVal.num?] at h
  · simp only [ht, Bool.not_false, if_true, Option.some.injEq] at h
    · exact Or.inl h.symm

theorem tz_result (v : PyVal) (lon n : Num) (h1 : v ≠ .none) (h2 : ∀ i, v ≠ .int i)
    (h : tzOf v lon = some n) : ∃ b, n = .flt b ∧ n.inRange (-12) 14 = true := by
  unfold tzOf at h
  cases v with
  | none => exact absurd rfl h1
  | int i => exact absurd rfl (h2 i)
  | flt b =>
    simp only [PyVal.num?, Option.map, Num.toFloat, Option.bind_eq_bind, Option.bind] at h
    by_cases hr : (Num.flt b).inRange (-12) 14 = true
    · simp only [hr, if_true, Option.some.injEq] at h
      subst h
      exact ⟨b, rfl, hr⟩
    · simp [hr] at h
  | bool b => simp [PyVal.num?] at h
  | str s => simp [PyVal.num?] at h
  | list l => simp [PyVal.num?] at h
  | tuple l => simp [PyVal.num?] at h
  | dict d => simp [PyVal.num?] at h

theorem elev_result (v : PyVal) (n : Num) (h1 : ∀ i, v ≠ .int i) (h2 : v ≠ .flt (2 ^ 63))
    (h : elevSet v = some n) : ∃ b, n = .flt b ∧ (n.truthy = true ∨ b = 0) := by
  unfold elevSet at h
  cases v with
  | int i => exact absurd rfl (h1 i)
  | flt b =>
    simp only [PyVal.num?, Option.map, Num.toFloat, Option.some.injEq] at h
    subst h
    refine ⟨b, rfl, ?_⟩
    by_cases h0 : b = 0
    · exact Or.inr h0
    · left
      have h63 : b ≠ 2 ^ 63 := fun e => h2 (by rw [e])
      simp [Num.truthy, Num.enc, PyVal.truthy, h0, h63]
  | none => simp [PyVal.num?] at h
  | bool b => simp [PyVal.num?] at h
  | str s => simp [PyVal.num?] at h
  | list l => simp [PyVal.num?] at h
  | tuple l => simp [PyVal.num?] at h
  | dict d => simp [PyVal.num?] at h

/-- Every accepted assignment of the modelled domain keeps a Location in constructor normal form. -/
theorem locApply_wf (l : Loc) (o : LocSet) (l' : Loc) (hw : l.wf) (hd : o.modelled)
    (h : locApply l o = some l') : l'.wf := by
  rcases l with ⟨city, state, country, lat, lon, tz, elev, sid, source⟩
  obtain ⟨hc, hs, hco, hlat, hlon, htz, hel, hsid, hsrc, hsrc2⟩ := hw
  cases o with
  | lat v =>
    simp only [locApply, Option.map_eq_some_iff] at h
    obtain ⟨n, hn, rfl⟩ := h
    exact ⟨hc, hs, hco, angle_result v _ _ n hd hn, hlon, htz, hel, hsid, hsrc, hsrc2⟩
  | lon v =>
    simp only [locApply, Option.map_eq_some_iff] at h
    obtain ⟨n, hn, rfl⟩ := h
    exact ⟨hc, hs, hco, hlat, angle_result v _ _ n hd hn, htz, hel, hsid, hsrc, hsrc2⟩
  | tz v =>
    simp only [locApply, Option.map_eq_some_iff] at h
    obtain ⟨n, hn, rfl⟩ := h
    exact ⟨hc, hs, hco, hlat, hlon, tz_result v _ n hd.1 hd.2 hn, hel, hsid, hsrc, hsrc2⟩
  | elev v =>
    simp only [locApply, Option.map_eq_some_iff] at h
    obtain ⟨n, hn, rfl⟩ := h
    exact ⟨hc, hs, hco, hlat, hlon, htz, elev_result v n hd.1 hd.2 hn, hsid, hsrc, hsrc2⟩
  | city s =>
    simp only [locApply, Option.some.injEq] at h; subst h
    exact ⟨hd, hs, hco, hlat, hlon, htz, hel, hsid, hsrc, hsrc2⟩
  | state s =>
    simp only [locApply, Option.some.injEq] at h; subst h
    exact ⟨hc, hd, hco, hlat, hlon, htz, hel, hsid, hsrc, hsrc2⟩
  | country s =>
    simp only [locApply, Option.some.injEq] at h; subst h
    exact ⟨hc, hs, hd, hlat, hlon, htz, hel, hsid, hsrc, hsrc2⟩
  | station s =>
    simp only [locApply, Option.some.injEq] at h; subst h
    exact ⟨hc, hs, hco, hlat, hlon, htz, hel, hd, hsrc, hsrc2⟩
  | source v =>
    simp only [locApply, Option.some.injEq] at h; subst h
    exact ⟨hc, hs, hco, hlat, hlon, htz, hel, hsid, hd.1, hd.2⟩

/-- `duplicate()` (the constructor on the object's own public fields) of a well-formed Location. -/
theorem Loc.copy_of_wf (l : Loc) (h : l.wf) : l.copy = some l := by
  rcases l with ⟨city, state, country, lat, lon, tz, elev, sid, source⟩
  obtain ⟨hc, hs, hco, hlat, hlon, ⟨tb, htz, htzr⟩, ⟨eb, hel, hel2⟩, hsid, hsrc, hsrc2⟩ := h
  simp only at hc hs hco hlat hlon htz htzr hel hel2 hsid hsrc hsrc2
  subst htz hel
  have a1 := angle_wf lat (-90) 90 hlat
  have a2 := angle_wf lon (-180) 180 hlon
  have t1 : tzOf (Num.flt tb).enc lon = some (.flt tb) := by
    simp [tzOf, Num.enc, PyVal.num?, Num.toFloat, htzr]
  have e1 : elevOf (Num.flt eb).enc = some (.flt eb) := by
    rcases hel2 with ht | rfl
    · simp only [Num.truthy, Num.enc] at ht
      simp [elevOf, Num.enc, ht, PyVal.num?, Num.toFloat]
    · simp [elevOf, Num.enc, PyVal.truthy]
  have s1 : sidOf (optStr sid) = some sid := by
    cases sid with
    | none => simp [sidOf, optStr, PyVal.truthy]
    | some s =>
      have : s ≠ "" := hsid s rfl
      simp [sidOf, optStr, PyVal.truthy, this, dashStr]
  simp [Loc.copy, Loc.make, dashStr_str, hc, hs, hco, a1, a2, t1, e1, s1]

/-! ### Data collections -/

theorem collApply_wf (c : Coll) (o : CollSet) (c' : Coll) (hw : c.wf) (hd : o.modelled)
    (h : collApply c o = some c') : c'.wf := by
  rcases c with ⟨kind, hdr, vals, times, valid, imm⟩
  obtain ⟨hh, hv, hvb, hk⟩ := hw
  simp only at hh hv hvb hk
  cases o with
  | values v =>
    cases imm with
    | true => simp [collApply] at h
    | false =>
      simp only [collApply, Bool.false_eq_true, if_false] at h
      cases hl : v.list? with
      | none => simp [hl] at h
      | some l =>
        simp only [hl] at h
        split at h
        · rename_i hc
          simp only [Option.some.injEq] at h
          subst h
          obtain ⟨h1, h2⟩ := hc
          refine ⟨hh, hd l hl, hvb, ?_⟩
          cases kind <;> cases times <;> simp_all [slots]
        · cases h
  | item i v =>
    cases imm with
    | true => simp [collApply] at h
    | false =>
      simp only [collApply, Bool.false_eq_true, if_false] at h
      have key : ∀ k : Nat, Coll.wf ⟨kind, hdr, vals.set k v, times, valid, false⟩ := by
        intro k
        refine ⟨hh, ?_, hvb, ?_⟩
        · intro x hx
          rcases List.mem_or_eq_of_mem_set hx with h1 | h1
          · exact hv x h1
          · rw [h1]; exact hd
        · cases kind <;> cases times <;> simp_all
      split at h
      · simp only [Option.some.injEq] at h
        subst h; exact key _
      · split at h
        · simp only [Option.some.injEq] at h
          subst h; exact key _
        · cases h
  | mdata v =>
    obtain ⟨hdt, hap, hu, hm⟩ := hh
    cases v with
    | none =>
      simp only [collApply, Option.some.injEq] at h
      subst h
      refine ⟨⟨hdt, hap, hu, by simp⟩, hv, hvb, ?_⟩
      cases kind <;> cases times <;> simp_all
    | dict d =>
      simp only [collApply, Option.some.injEq] at h
      subst h
      refine ⟨⟨hdt, hap, hu, hd d rfl⟩, hv, hvb, ?_⟩
      cases kind <;> cases times <;> simp_all
    | bool b => simp [collApply] at h
    | int i => simp [collApply] at h
    | flt b => simp [collApply] at h
    | str s => simp [collApply] at h
    | list l => simp [collApply] at h
    | tuple l => simp [collApply] at h

end Hist
end Codec
