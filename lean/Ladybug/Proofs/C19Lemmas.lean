/-
  Helper lemmas for C19 (list layer of Model/Sql.lean).  No Mathlib.
-/
import Ladybug.Model.Sql

namespace Sql

variable {α : Type}

theorem div_ceil_mul (n T : Nat) (hn : 0 < n) : (n * T + n - 1) / n = T := by
  have h1 : n * T + n - 1 = n * T + (n - 1) := by omega
  rw [h1, Nat.mul_add_div hn, Nat.div_eq_of_lt (by omega)]
  rfl

theorem chunksOf_length (n T : Nat) (l : List α) (hn : 0 < n) (hl : l.length = n * T) :
    (chunksOf n l).length = T := by
  simp [chunksOf, hl, div_ceil_mul n T hn]

theorem chunksOf_getElem? (n T : Nat) (l : List α) (hn : 0 < n) (hl : l.length = n * T) (t : Nat)
    (ht : t < T) : (chunksOf n l)[t]? = some ((l.drop (t * n)).take n) := by
  have h : t < (l.length + n - 1) / n := by rw [hl, div_ceil_mul n T hn]; exact ht
  simp [chunksOf, List.getElem?_map, List.getElem?_range h]

theorem foldl_min_const (n : Nat) (rs : List (List α)) (h : ∀ r ∈ rs, r.length = n) :
    rs.foldl (fun m r' => min m r'.length) n = n := by
  induction rs with
  | nil => rfl
  | cons r rs ih =>
    simp only [List.foldl_cons]
    have hr : r.length = n := h r (by simp)
    rw [hr, Nat.min_self]
    exact ih (fun r' hr' => h r' (by simp [hr']))

/-- All rows have length `n` and there is at least one row: `zip(*rows)` has `n` tuples. -/
theorem minLen_rect (n : Nat) (rows : List (List α)) (h : ∀ r ∈ rows, r.length = n) (hne : rows ≠ []) :
    minLen rows = n := by
  cases rows with
  | nil => exact absurd rfl hne
  | cons r rs =>
    simp only [minLen]
    rw [h r (by simp)]
    exact foldl_min_const n rs (fun r' hr' => h r' (by simp [hr']))

theorem column_getElem? (rows : List (List α)) (k : Nat) (h : ∀ r ∈ rows, k < r.length) (t : Nat) :
    (column rows k)[t]? = (rows[t]?).bind (·[k]?) := by
  induction rows generalizing t with
  | nil => simp [column]
  | cons r rs ih =>
    have hr : k < r.length := h r (by simp)
    have hsome : r[k]? = some r[k] := List.getElem?_eq_getElem hr
    have hc : column (r :: rs) k = r[k] :: column rs k := by
      simp [column, List.filterMap_cons, hsome]
    rw [hc]
    cases t with
    | zero => simp [hsome]
    | succ t =>
      simp only [List.getElem?_cons_succ]
      exact ih (fun r' hr' => h r' (by simp [hr'])) t

theorem column_length (rows : List (List α)) (k : Nat) (h : ∀ r ∈ rows, k < r.length) :
    (column rows k).length = rows.length := by
  induction rows with
  | nil => simp [column]
  | cons r rs ih =>
    have hr : k < r.length := h r (by simp)
    have hsome : r[k]? = some r[k] := List.getElem?_eq_getElem hr
    have hc : column (r :: rs) k = r[k] :: column rs k := by
      simp [column, List.filterMap_cons, hsome]
    rw [hc]
    simp [ih (fun r' hr' => h r' (by simp [hr']))]

theorem zipStar_rect_length (n : Nat) (rows : List (List α)) (h : ∀ r ∈ rows, r.length = n)
    (hne : rows ≠ []) : (zipStar rows).length = n := by
  simp [zipStar, minLen_rect n rows h hne]

theorem zipStar_rect_getElem? (n : Nat) (rows : List (List α)) (h : ∀ r ∈ rows, r.length = n)
    (hne : rows ≠ []) (k : Nat) (hk : k < n) : (zipStar rows)[k]? = some (column rows k) := by
  have hk' : k < minLen rows := by rw [minLen_rect n rows h hne]; exact hk
  simp [zipStar, List.getElem?_map, List.getElem?_range hk']

/-- Every chunk of a list whose length is a multiple of `n` has length `n`. -/
theorem chunksOf_rect (n T : Nat) (l : List α) (hn : 0 < n) (hl : l.length = n * T) :
    ∀ r ∈ chunksOf n l, r.length = n := by
  intro r hr
  simp only [chunksOf, List.mem_map, List.mem_range] at hr
  obtain ⟨i, hi, rfl⟩ := hr
  rw [hl, div_ceil_mul n T hn] at hi
  simp only [List.length_take, List.length_drop, hl]
  have : i * n + n ≤ n * T := by
    have : (i + 1) * n ≤ T * n := Nat.mul_le_mul_right n hi
    rw [Nat.mul_comm n T]; rw [Nat.add_mul] at this; omega
  omega

theorem chunksOf_ne_nil (n T : Nat) (l : List α) (hn : 0 < n) (hl : l.length = n * T) (hT : 0 < T) :
    chunksOf n l ≠ [] := by
  intro h
  have := chunksOf_length n T l hn hl
  rw [h] at this
  simp at this
  omega

end Sql

namespace Sql
variable {α : Type}

/-- The chunk `t` of the flattening of a rectangular matrix is its row `t`. -/
theorem flatten_drop_take (n : Nat) (M : List (List α)) (h : ∀ r ∈ M, r.length = n) (t : Nat)
    (ht : t < M.length) : (M.flatten.drop (t * n)).take n = M[t] := by
  induction M generalizing t with
  | nil => simp at ht
  | cons r rs ih =>
    have hr : r.length = n := h r (by simp)
    cases t with
    | zero =>
      simp only [Nat.zero_mul, List.drop_zero, List.flatten_cons, List.getElem_cons_zero]
      rw [← hr, List.take_left']
      rfl
    | succ t =>
      have e : (t + 1) * n = r.length + t * n := by rw [hr, Nat.add_mul]; omega
      simp only [List.flatten_cons, List.getElem_cons_succ, e, List.drop_append]
      have h0 : List.drop (r.length + t * n) r = [] := List.drop_eq_nil_of_le (by omega)
      have h1 : r.length + t * n - r.length = t * n := by omega
      rw [h0, h1, List.nil_append]
      exact ih (fun r' hr' => h r' (by simp [hr'])) t (by simpa using ht)

theorem flatten_rect_length (n : Nat) (M : List (List α)) (h : ∀ r ∈ M, r.length = n) :
    M.flatten.length = n * M.length := by
  induction M with
  | nil => simp
  | cons r rs ih =>
    simp only [List.flatten_cons, List.length_append, List.length_cons]
    rw [ih (fun r' hr' => h r' (by simp [hr'])), h r (by simp), Nat.mul_add]
    omega

/-- Cutting the flattening of a rectangular matrix into rows of width `n` gives the matrix back. -/
theorem chunksOf_flatten (n : Nat) (M : List (List α)) (hn : 0 < n) (h : ∀ r ∈ M, r.length = n) :
    chunksOf n M.flatten = M := by
  have hl := flatten_rect_length n M h
  have hlen := chunksOf_length n M.length M.flatten hn hl
  apply List.ext_getElem?
  intro i
  by_cases hi : i < M.length
  · rw [chunksOf_getElem? n M.length M.flatten hn hl i hi, flatten_drop_take n M h i hi]
    exact (List.getElem?_eq_getElem hi).symm
  · have h1 : (chunksOf n M.flatten)[i]? = none := List.getElem?_eq_none (by omega)
    have h2 : M[i]? = none := List.getElem?_eq_none (by omega)
    rw [h1, h2]

/-- `zip(*zip(*cols)) = cols` for a non-empty rectangular matrix. -/
theorem zipStar_zipStar (n T : Nat) (cols : List (List α)) (hlen : cols.length = n) (hn : 0 < n)
    (hT : 0 < T) (h : ∀ c ∈ cols, c.length = T) : zipStar (zipStar cols) = cols := by
  have hne : cols ≠ [] := by intro e; rw [e] at hlen; simp at hlen; omega
  have hMlen : (zipStar cols).length = T := zipStar_rect_length T cols h hne
  have hMrows : ∀ r ∈ zipStar cols, r.length = n := by
    intro r hr
    simp only [zipStar, List.mem_map, List.mem_range] at hr
    obtain ⟨t, ht, rfl⟩ := hr
    rw [minLen_rect T cols h hne] at ht
    rw [column_length cols t (fun c hc => by rw [h c hc]; exact ht), hlen]
  have hMne : zipStar cols ≠ [] := by intro e; rw [e] at hMlen; simp at hMlen; omega
  apply List.ext_getElem?
  intro k
  by_cases hk : k < n
  · rw [zipStar_rect_getElem? n _ hMrows hMne k hk, List.getElem?_eq_getElem (by omega : k < cols.length)]
    congr 1
    have hck : (cols[k]'(by omega)).length = T := h _ (List.getElem_mem _)
    have hcolM : ∀ r ∈ zipStar cols, k < r.length := fun r hr => by rw [hMrows r hr]; exact hk
    apply List.ext_getElem?
    intro t
    by_cases ht : t < T
    · rw [column_getElem? _ k hcolM t, zipStar_rect_getElem? T cols h hne t ht]
      simp only [Option.bind_some]
      rw [column_getElem? cols t (fun c hc => by rw [h c hc]; exact ht) k,
        List.getElem?_eq_getElem (by omega : k < cols.length)]
      simp
    · have h1 : (column (zipStar cols) k)[t]? = none :=
        List.getElem?_eq_none (by rw [column_length _ k hcolM, hMlen]; omega)
      have h2 : (cols[k]'(by omega))[t]? = none := List.getElem?_eq_none (by omega)
      rw [h1, h2]
  · have h1 : (zipStar (zipStar cols))[k]? = none :=
      List.getElem?_eq_none (by rw [zipStar_rect_length n _ hMrows hMne]; omega)
    have h2 : cols[k]? = none := List.getElem?_eq_none (by omega)
    rw [h1, h2]

theorem cumBefore_add_le (cs : List Nat) (j : Nat) (hj : j < cs.length) :
    cumBefore cs j + cs.getD j 0 ≤ cs.sum := by
  induction cs generalizing j with
  | nil => simp at hj
  | cons c cs ih =>
    cases j with
    | zero => simp [cumBefore]
    | succ j =>
      have := ih j (by simpa using hj)
      simp only [cumBefore, List.take_succ_cons, List.sum_cons, List.getD_cons_succ] at this ⊢
      omega

/-- The rows the chunked partition cuts for one run period are the rows of that period's slice. -/
theorem chunkRows_eq (data : List α) (n a c : Nat) (hn : 0 < n) (hle : a + c * n ≤ data.length) :
    chunkRows data n a c = chunksOf n ((data.drop a).take (c * n)) := by
  have hlen : ((data.drop a).take (c * n)).length = n * c := by
    simp only [List.length_take, List.length_drop]
    rw [Nat.mul_comm n c]; omega
  unfold chunkRows chunksOf
  rw [hlen, div_ceil_mul n c hn]
  apply List.map_congr_left
  intro i hi
  have hi' : i < c := List.mem_range.mp hi
  rw [List.drop_take, List.drop_drop, List.take_take]
  have : i * n + n ≤ c * n := by
    have : (i + 1) * n ≤ c * n := Nat.mul_le_mul_right n hi'
    rw [Nat.add_mul] at this; omega
  rw [Nat.min_eq_left (by omega)]

/-! ### Time table -/

theorem dtMake_ok (m d h : Nat) (leap : Bool) (hv : (⟨m, d, h, 0, leap⟩ : Cal.DT).valid) :
    dtMake m d h leap = .ok ⟨m, d, h, 0, leap⟩ := by
  unfold dtMake Cal.DT.make Cal.normHM
  simp [hv]

theorem valid_leap (m d h : Nat) (l : Bool) (hv : (⟨m, d, h, 0, false⟩ : Cal.DT).valid) :
    (⟨m, d, h, 0, l⟩ : Cal.DT).valid := by
  cases l
  · exact hv
  · unfold Cal.DT.valid at hv ⊢
    simp only at hv ⊢
    obtain ⟨h1, h2, h3, h4, h5, h6⟩ := hv
    refine ⟨h1, h2, h3, ?_, h5, h6⟩
    have hm : m = 1 ∨ m = 2 ∨ m = 3 ∨ m = 4 ∨ m = 5 ∨ m = 6 ∨ m = 7 ∨ m = 8 ∨ m = 9 ∨ m = 10 ∨ m = 11 ∨ m = 12 := by omega
    rcases hm with rfl | rfl | rfl | rfl | rfl | rfl | rfl | rfl | rfl | rfl | rfl | rfl <;>
      simp [Cal.monthLen, Cal.monthLens] at h4 ⊢ <;> omega

theorem mkPeriod_ok (sm sd em ed ts : Nat) (leap : Bool)
    (hs : (⟨sm, sd, 0, 0, leap⟩ : Cal.DT).valid) (he : (⟨em, ed, 23, 0, leap⟩ : Cal.DT).valid)
    (hts : ts ∈ validTimesteps) :
    mkPeriod sm sd 0 em ed 23 ts leap = .ok ⟨sm, sd, 0, em, ed, 23, ts, leap⟩ := by
  have hs' := hs
  have he' := he
  unfold Cal.DT.valid at hs' he'
  simp only at hs' he'
  have hts0 : ts ≠ 0 := by intro h; rw [h] at hts; simp [validTimesteps] at hts
  unfold mkPeriod
  have a1 : sm ≠ 0 := by omega
  have a2 : sd ≠ 0 := by omega
  have a3 : em ≠ 0 := by omega
  have a4 : ed ≠ 0 := by omega
  have a5 : ¬ (em < 1 ∨ 12 < em) := by omega
  have a6 : ¬ (ed > Cal.monthLen leap em) := by omega
  simp only [a1, a2, a3, a4, hts0, if_false, a5, a6, dtMake_ok _ _ _ _ hs, dtMake_ok _ _ _ _ he, hts, if_true]
  rfl


/-! ### Chunked partition = per-period partition of the period's slice -/

section
variable {α : Type}

/-- The rows of run period `j` inside the time-ordered stream of `n` keys, when the periods have
    `cs[0], cs[1], …` time steps. -/
def periodSlice (data : List α) (cs : List Nat) (n j : Nat) : List α :=
  (data.drop (cumBefore cs j * n)).take (cs.getD j 0 * n)

/-- For periods of `c₀ … c_m` time steps and `n` keys (stream length `n · Σ cᵢ`), the chunked
    partition is, period after period, the plain de-interleaving of that period's rows. -/
theorem partitionChunks_eq_slices (data : List α) (cs : List Nat) (n : Nat) (hn : 0 < n) (hs : 0 < cs.sum)
    (hl : data.length = n * cs.sum) :
    partitionChunks data cs =
      .ok ((List.range cs.length).flatMap fun j => zipStar (chunksOf n (periodSlice data cs n j))) := by
  have hdiv : data.length / cs.sum = n := by rw [hl, Nat.mul_div_cancel _ hs]
  simp only [partitionChunks, Nat.ne_of_gt hs, if_false, hdiv, Nat.ne_of_gt hn]
  congr 1
  simp only [List.flatMap_def]
  congr 1
  apply List.map_congr_left
  intro j hj
  have hj' : j < cs.length := List.mem_range.mp hj
  have hle := cumBefore_add_le cs j hj'
  have : cumBefore cs j * n + cs.getD j 0 * n ≤ data.length := by
    rw [hl, ← Nat.add_mul, Nat.mul_comm n]; exact Nat.mul_le_mul_right n hle
  rw [chunkRows_eq data n _ _ hn this]
  rfl

end

end Sql
