/-
  C17, round 4: the order in which the data is handed over, and month number versus column.

  `HourlyPlot` (and `WindRose`, `MonthlyChart`) accept a collection that is not yet validated and
  validate it themselves: `validate_analysis_period` sorts the (date-time, value) pairs into the
  chronological order of the period.  `handOver` models that step (stable merge sort by the
  chronological position of the date-time); the lemmas show that it erases the hand-over order.
-/
import Ladybug.Model.Plot

namespace Plot

/-- The order `validate_analysis_period` gives the data of an unvalidated collection: sorted by the
    chronological position `pos` of each date-time in the period (for a period that wraps the year end
    `pos` is the rotation that puts the start of the period first). -/
def handOver {α : Type} (pos : Nat → Nat) (data : List (Nat × α)) : List (Nat × α) :=
  data.mergeSort fun a b => decide (pos a.1 ≤ pos b.1)

theorem handOver_perm {α : Type} (pos : Nat → Nat) (d : List (Nat × α)) : (handOver pos d).Perm d :=
  List.mergeSort_perm _ _

theorem handOver_pairwise {α : Type} (pos : Nat → Nat) (d : List (Nat × α)) :
    (handOver pos d).Pairwise fun a b => decide (pos a.1 ≤ pos b.1) = true := by
  unfold handOver
  apply List.pairwise_mergeSort
  · intro a b c hab hbc
    simp only [decide_eq_true_eq] at hab hbc ⊢
    omega
  · intro a b
    simp only [Bool.or_eq_true, decide_eq_true_eq]
    omega

/-- Data that already is in chronological order is left as it is. -/
theorem handOver_sorted {α : Type} (pos : Nat → Nat) (d : List (Nat × α))
    (h : d.Pairwise fun a b => pos a.1 ≤ pos b.1) : handOver pos d = d := by
  unfold handOver
  apply List.mergeSort_of_pairwise
  exact h.imp (by intro a b hab; simpa using hab)

/-- Two hand-over orders of the same data (no date-time twice) are validated into the same list. -/
theorem handOver_perm_eq {α : Type} (pos : Nat → Nat) (d1 d2 : List (Nat × α)) (hp : d1.Perm d2)
    (hinj : ∀ a ∈ d1, ∀ b ∈ d1, pos a.1 = pos b.1 → a = b) : handOver pos d1 = handOver pos d2 := by
  apply List.Perm.eq_of_pairwise (le := fun a b => decide (pos a.1 ≤ pos b.1) = true)
  · intro a b ha hb hab hba
    simp only [decide_eq_true_eq] at hab hba
    have ha' : a ∈ d1 := (handOver_perm pos d1).subset ha
    have hb' : b ∈ d1 := hp.symm.subset ((handOver_perm pos d2).subset hb)
    exact hinj a ha' b hb' (by omega)
  · exact handOver_pairwise pos d1
  · exact handOver_pairwise pos d2
  · exact (handOver_perm pos d1).trans (hp.trans (handOver_perm pos d2).symm)

/-- Month shown in column `i` of a chart whose period starts in month `st` (1..12): the months are
    visited in the order of the period, December being followed by January. -/
def monthOfColumn (st i : Nat) : Nat := (st - 1 + i) % 12 + 1

/-- Column of month `m` in that chart. -/
def columnOfMonth (st m : Nat) : Nat := (m + 12 - st) % 12

end Plot
