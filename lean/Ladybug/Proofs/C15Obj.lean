/-
  Helper lemmas for the object state machines of C15 (Model/C15Obj.lean).
-/
import Ladybug.Model.C15Obj
import Ladybug.Proofs.C15Lemmas

namespace Obj15

open Col Leg

/-- What the constructor and every setter of plain `LegendParameters` guarantee. -/
structure WFPlain (p : Par) : Prop where
  plain : p.cat = none
  ordered : ∀ a b, p.min = some a → p.max = some b → a ≤ b
  count_pos : 1 ≤ p.segCount
  count_default : p.segCountDefault = true → p.segCount = 11
  colors_two : 2 ≤ p.colors.length
  segH : posOpt p.segHeight = true
  segW : posOpt p.segWidth = true
  textH : posOpt p.textHeight = true

/-- Parameters built in one go (constructor + the setters the constructor does not cover) from the
    public attributes of `p`. -/
def freshPlain (p : Par) : Except Err Par :=
  Par.mkPlain p.min p.max (if p.segCountDefault then none else some p.segCount) (some p.colors)
    p.continuousLegend p.vertical p.decimalCount p.includeLS p.ordinal
    p.segHeight p.segWidth p.textHeight

theorem posOpt_iff (x : Option Rat) : posOpt x = true ↔ ¬ (x.any (fun v => decide (v ≤ 0)) = true) := by
  unfold posOpt
  simp

/-- A well-formed parameters object is exactly the object its public attributes construct. -/
theorem freshPlain_eq (p : Par) (wf : WFPlain p) : freshPlain p = .ok p := by
  obtain ⟨hplain, hord, hpos, hdef, hcol, h1, h2, h3⟩ := wf
  rw [posOpt_iff] at h1 h2 h3
  cases p with
  | mk mn mx sc scd cols cl vert dc ils ord sh sw th cat =>
    simp only at hplain hord hpos hdef hcol h1 h2 h3
    subst hplain
    have hc : ¬ cols.length ≤ 1 := by omega
    cases mn with
    | none =>
      cases scd with
      | true => simp [freshPlain, Par.mkPlain, hc, h1, h2, h3, hdef rfl]
      | false => simp [freshPlain, Par.mkPlain, hc, h1, h2, h3]; omega
    | some a =>
      cases mx with
      | none =>
        cases scd with
        | true => simp [freshPlain, Par.mkPlain, hc, h1, h2, h3, hdef rfl]
        | false => simp [freshPlain, Par.mkPlain, hc, h1, h2, h3]; omega
      | some b =>
        have hab : a ≤ b := hord a b rfl rfl
        cases scd with
        | true => simp [freshPlain, Par.mkPlain, hc, h1, h2, h3, hdef rfl, hab]
        | false => simp [freshPlain, Par.mkPlain, hc, h1, h2, h3, hab]; omega

/-- The constructor of plain parameters yields well-formed parameters. -/
theorem mkPlain_wf {mn mx : Option Rat} {sc : Option Nat} {cols : Option (List RGB)}
    {cl vert : Bool} {dc : Nat} {ils : Bool} {ord : Option (List (Int × String))}
    {sh sw th : Option Rat} {p : Par}
    (hp : Par.mkPlain mn mx sc cols cl vert dc ils ord sh sw th = .ok p) : WFPlain p := by
  unfold Par.mkPlain at hp
  simp only at hp
  split_ifs at hp with h1 h2 h3 h4
  injection hp with hp
  subst hp
  rw [not_or, not_or] at h4
  refine ⟨rfl, ?_, ?_, ?_, ?_, ?_, ?_, ?_⟩
  · intro a b ha hb
    simp only at ha hb
    subst ha hb
    simpa using h1
  · cases sc with
    | none => simp
    | some n => simp at h2 ⊢; omega
  · intro hd
    cases sc with
    | none => simp
    | some n => simp at hd
  · simp only; omega
  · rw [posOpt_iff]; simpa using h4.1
  · rw [posOpt_iff]; simpa using h4.2.1
  · rw [posOpt_iff]; simpa using h4.2.2

/-- Every accepted assignment keeps plain parameters well formed. -/
theorem setPlain_wf (p : Par) (wf : WFPlain p) (f : Field) (p' : Par)
    (h : setPlain p f = .ok p') : WFPlain p' := by
  obtain ⟨hplain, hord, hpos, hdef, hcol, h1, h2, h3⟩ := wf
  cases f with
  | min x =>
    cases x with
    | none =>
      simp only [setPlain] at h
      injection h with h; subst h
      exact ⟨hplain, (by intro a b ha; simp at ha), hpos, hdef, hcol, h1, h2, h3⟩
    | some a =>
      cases hmx : p.max with
      | none =>
        simp only [setPlain, hmx] at h
        injection h with h; subst h
        exact ⟨hplain, (by intro a' b' _ hb'; simp only at hb'; cases hb'),
          hpos, hdef, hcol, h1, h2, h3⟩
      | some b =>
        simp only [setPlain, hmx] at h
        split_ifs at h with hab
        injection h with h; subst h
        exact ⟨hplain, (by
          intro a' b' ha' hb'; simp only at ha' hb'; cases ha'; cases hb'; exact hab),
          hpos, hdef, hcol, h1, h2, h3⟩
  | max x =>
    cases x with
    | none =>
      cases hmn : p.min with
      | none =>
        simp only [setPlain, hmn] at h
        injection h with h; subst h
        exact ⟨hplain, (by intro a b _ hb; simp at hb), hpos, hdef, hcol, h1, h2, h3⟩
      | some a =>
        simp only [setPlain, hmn] at h
        injection h with h; subst h
        exact ⟨hplain, (by intro a b _ hb; simp at hb), hpos, hdef, hcol, h1, h2, h3⟩
    | some b =>
      cases hmn : p.min with
      | none =>
        simp only [setPlain, hmn] at h
        injection h with h; subst h
        exact ⟨hplain, (by intro a' b' ha' _; simp only at ha'; cases ha'),
          hpos, hdef, hcol, h1, h2, h3⟩
      | some a =>
        simp only [setPlain, hmn] at h
        split_ifs at h with hab
        injection h with h; subst h
        exact ⟨hplain, (by
          intro a' b' ha' hb'; simp only at ha' hb'; cases ha'; cases hb'; exact hab),
          hpos, hdef, hcol, h1, h2, h3⟩
  | count n =>
    cases n with
    | none =>
      simp only [setPlain] at h
      injection h with h; subst h
      exact ⟨hplain, hord, (by simp), (by simp), hcol, h1, h2, h3⟩
    | some k =>
      simp only [setPlain] at h
      split_ifs at h with hk
      injection h with h; subst h
      exact ⟨hplain, hord, (by simp only; omega), (by simp), hcol, h1, h2, h3⟩
  | colors c =>
    cases c with
    | none =>
      simp only [setPlain] at h
      injection h with h; subst h
      exact ⟨hplain, hord, hpos, hdef, (by show 2 ≤ defaultColors.length; decide), h1, h2, h3⟩
    | some cs =>
      simp only [setPlain] at h
      split_ifs at h with hk
      injection h with h; subst h
      exact ⟨hplain, hord, hpos, hdef, (by simp only; omega), h1, h2, h3⟩
  | contLegend b =>
    simp only [setPlain] at h; injection h with h; subst h
    exact ⟨hplain, hord, hpos, hdef, hcol, h1, h2, h3⟩
  | vertical b =>
    simp only [setPlain] at h; injection h with h; subst h
    exact ⟨hplain, hord, hpos, hdef, hcol, h1, h2, h3⟩
  | decimals n =>
    simp only [setPlain] at h; injection h with h; subst h
    exact ⟨hplain, hord, hpos, hdef, hcol, h1, h2, h3⟩
  | ils b =>
    simp only [setPlain] at h; injection h with h; subst h
    exact ⟨hplain, hord, hpos, hdef, hcol, h1, h2, h3⟩
  | ordinal d =>
    simp only [setPlain] at h; injection h with h; subst h
    exact ⟨hplain, hord, hpos, hdef, hcol, h1, h2, h3⟩
  | segH x =>
    simp only [setPlain] at h
    split_ifs at h with hx
    injection h with h; subst h
    exact ⟨hplain, hord, hpos, hdef, hcol, hx, h2, h3⟩
  | segW x =>
    simp only [setPlain] at h
    split_ifs at h with hx
    injection h with h; subst h
    exact ⟨hplain, hord, hpos, hdef, hcol, h1, hx, h3⟩
  | textH x =>
    simp only [setPlain] at h
    split_ifs at h with hx
    injection h with h; subst h
    exact ⟨hplain, hord, hpos, hdef, hcol, h1, h2, hx⟩
  | catDomain d => simp [setPlain] at h
  | catNames n => simp [setPlain] at h
  | catCC b => simp [setPlain] at h
  | bad name =>
    simp only [setPlain] at h
    split_ifs at h

theorem parSet_wf (p : Par) (wf : WFPlain p) (f : Field) (p' : Par)
    (h : parSet p f = .ok p') : WFPlain p' := by
  unfold parSet at h
  rw [wf.plain] at h
  exact setPlain_wf p wf f p' h

theorem viaDict_wf (p : Par) (wf : WFPlain p) : WFPlain (viaDict p) := by
  obtain ⟨hplain, hord, hpos, hdef, hcol, h1, h2, h3⟩ := wf
  simp only [viaDict, hplain]
  refine ⟨rfl, hord, ?_, ?_, hcol, h1, h2, h3⟩
  · simp only; split_ifs <;> omega
  · intro hd; simp only at hd ⊢; rw [if_pos hd]

/-- A step of a session keeps the parameters object well formed. -/
theorem lStep_par_wf (s : Sess) (wf : WFPlain s.par) (op : LOp) : WFPlain (lStep s op).1.par := by
  cases op with
  | setP f =>
    simp only [lStep]
    cases h : parSet s.par f with
    | ok p => exact parSet_wf s.par wf f p h
    | error e => exact wf
  | setL f =>
    simp only [lStep]
    cases s.live with
    | none => exact wf
    | some o =>
      simp only
      cases parSet o.par f with
      | ok p => exact wf
      | error e => exact wf
  | build vals =>
    simp only [lStep]
    cases build vals s.par with
    | ok o => exact wf
    | error e => exact wf
  | buildG x0 y0 x1 y1 vals =>
    simp only [lStep]
    cases buildGraphic vals s.par x0 y0 x1 y1 with
    | ok o => exact wf
    | error e => exact wf
  | obsL =>
    simp only [lStep]
    cases s.live with
    | none => exact wf
    | some o => exact wf
  | obsP => exact wf
  | dupP => exact wf
  | dupL =>
    simp only [lStep]
    cases s.live with
    | none => exact wf
    | some o =>
      simp only
      cases o.duplicate with
      | ok n => exact wf
      | error e => exact wf
  | dictP => exact viaDict_wf s.par wf
  | dictL =>
    simp only [lStep]
    cases s.live with
    | none => exact wf
    | some o =>
      simp only
      cases Live.duplicate { o with par := viaDict o.par } with
      | ok n => exact wf
      | error e => exact wf

theorem lRun_par_wf (ops : List LOp) : ∀ (s : Sess), WFPlain s.par → WFPlain (lRun s ops).1.par := by
  induction ops with
  | nil => intro s wf; exact wf
  | cons op ops ih =>
    intro s wf
    simp only [lRun]
    exact ih _ (lStep_par_wf s wf op)

end Obj15
