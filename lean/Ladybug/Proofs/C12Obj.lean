/-
  Helper lemmas for the object state machine of C12 (Model/WeaObj.lean).
-/
import Ladybug.Model.WeaObj

open Cal

namespace Wea

theorem alignedC_iff (a b : Coll1) :
    alignedC a b = true ↔ a.cont = b.cont ∧ a.vals.length = b.vals.length ∧
      (if a.cont = true then a.ap = b.ap else a.dts = b.dts) := by
  unfold alignedC
  cases h : a.cont <;> simp [and_assoc]

theorem alignedC_symm (a b : Coll1) (h : alignedC a b = true) : alignedC b a = true := by
  rw [alignedC_iff] at h ⊢
  obtain ⟨h1, h2, h3⟩ := h
  refine ⟨h1.symm, h2.symm, ?_⟩
  rw [← h1]
  cases hc : a.cont <;> simp [hc] at h3 ⊢ <;> exact h3.symm

/-- Two continuous collections that are aligned with a third one have its header period. -/
theorem alignedC_ap (a b : Coll1) (h : alignedC a b = true) (hc : a.cont = true) : a.ap = b.ap := by
  rw [alignedC_iff] at h
  simpa [hc] using h.2.2

theorem alignedC_cont (a b : Coll1) (h : alignedC a b = true) : a.cont = b.cont :=
  ((alignedC_iff a b).1 h).1

theorem mk?_inv (loc : Loc) (dni dhi : Coll1) (o : Obj) (h : Obj.mk? loc dni dhi = .ok o) : o.Inv := by
  unfold Obj.mk? at h
  split at h
  · next ha =>
    cases h
    exact ⟨rfl, rfl, ha⟩
  · cases h

/-- An object whose slots agree with its first header IS the fresh object of its public state. -/
theorem fresh_of_inv (o : Obj) (h : o.Inv) : Pub.fresh o.pub = .ok o := by
  obtain ⟨h1, h2, h3⟩ := h
  unfold Pub.fresh Obj.mk? Obj.pub
  simp only [h3, if_true]
  cases o
  simp_all

theorem step_inv (o : Obj) (op : Op) (h : o.Inv) (hf : op.headerFits o) : (step o op).1.Inv := by
  obtain ⟨h1, h2, h3⟩ := h
  cases op with
  | setOnHour b => exact ⟨h1, h2, h3⟩
  | setLoc l => cases l <;> exact ⟨h1, h2, h3⟩
  | read => exact ⟨h1, h2, h3⟩
  | setDhi c =>
    simp only [step]
    split
    · next hacc =>
      simp only [Bool.and_eq_true] at hacc
      exact ⟨h1, h2, alignedC_symm _ _ hacc.1.2⟩
    · exact ⟨h1, h2, h3⟩
  | setDni c =>
    simp only [step]
    split
    · next hacc =>
      simp only [Bool.and_eq_true] at hacc
      have hal := hacc.1.2
      refine ⟨?_, ?_, hal⟩
      · show o.tsSlot = c.c.ap.timestep
        cases hc : c.c.cont
        · exact (hf hc).1.symm
        · have e1 := alignedC_ap _ _ hal hc
          have hd : o.dni.cont = true := by
            rw [alignedC_cont _ _ h3, ← alignedC_cont _ _ hal, hc]
          have e2 := alignedC_ap _ _ h3 hd
          rw [h1, e2, ← e1]
      · show o.leapSlot = c.c.ap.leap
        cases hc : c.c.cont
        · exact (hf hc).2.symm
        · have e1 := alignedC_ap _ _ hal hc
          have hd : o.dni.cont = true := by
            rw [alignedC_cont _ _ h3, ← alignedC_cont _ _ hal, hc]
          have e2 := alignedC_ap _ _ h3 hd
          rw [h2, e2, ← e1]
    · exact ⟨h1, h2, h3⟩

theorem step_pub (o : Obj) (op : Op) : (step o op).1.pub = o.pub.apply op := by
  cases op with
  | setOnHour b => rfl
  | setLoc l => cases l <;> rfl
  | read => rfl
  | setDni c =>
    simp only [step, Pub.apply, show o.pub.dhi = o.dhi from rfl]
    by_cases hacc : (c.isColl && alignedC c.c o.dhi && c.typeOk) = true
    · simp only [hacc, if_true]; rfl
    · simp only [hacc]; rfl
  | setDhi c =>
    simp only [step, Pub.apply, show o.pub.dni = o.dni from rfl]
    by_cases hacc : (c.isColl && alignedC c.c o.dni && c.typeOk) = true
    · simp only [hacc, if_true]; rfl
    · simp only [hacc]; rfl

/-- The header condition along a history: every assigned discontinuous direct-normal collection carries
    the timestep / leap flag of the Wea in its header. -/
def HistFits : Obj → List Op → Prop
  | _, [] => True
  | o, op :: rest => op.headerFits o ∧ HistFits (step o op).1 rest

theorem run_inv_pub (ops : List Op) : ∀ (o : Obj), o.Inv → HistFits o ops →
    (run o ops).Inv ∧ (run o ops).pub = o.pub.applyAll ops := by
  induction ops with
  | nil => intro o h _; exact ⟨h, rfl⟩
  | cons op rest ih =>
    intro o h hf
    have hs := step_inv o op h hf.1
    have := ih (step o op).1 hs hf.2
    refine ⟨this.1, ?_⟩
    show (run (step o op).1 rest).pub = Pub.applyAll (o.pub.apply op) rest
    rw [this.2, step_pub]

/-- With the slots in step, the view handed to the pure functions is just the pair of collections. -/
theorem asW_of_inv (o : Obj) (h : o.Inv) :
    o.asW = ⟨o.dni.cont, o.dni.ap, o.dni.dts, o.dni.vals, o.dhi.vals, o.onHour⟩ := by
  obtain ⟨h1, h2, _⟩ := h
  unfold Obj.asW
  rw [h1, h2]

/-- A continuous collection carries the datetimes of its header period. -/
def Coll1.WF (c : Coll1) : Prop := c.cont = true → c.dts = contDts c.ap

def Op.candWF : Op → Prop
  | .setDni c => c.c.WF
  | .setDhi c => c.c.WF
  | _ => True

theorem aligned_dts (a b : Coll1) (ha : a.WF) (hb : b.WF) (h : alignedC a b = true) :
    a.dts = b.dts ∧ a.vals.length = b.vals.length := by
  rw [alignedC_iff] at h
  obtain ⟨h1, h2, h3⟩ := h
  refine ⟨?_, h2⟩
  cases hc : a.cont
  · simpa [hc] using h3
  · have e : a.ap = b.ap := by simpa [hc] using h3
    rw [ha hc, hb (by rw [← h1, hc]), e]

theorem step_wf (o : Obj) (op : Op) (h1 : o.dni.WF) (h2 : o.dhi.WF) (hc : op.candWF) :
    (step o op).1.dni.WF ∧ (step o op).1.dhi.WF := by
  cases op with
  | setOnHour b => exact ⟨h1, h2⟩
  | setLoc l => cases l <;> exact ⟨h1, h2⟩
  | read => exact ⟨h1, h2⟩
  | setDni c =>
    simp only [step]
    split
    · exact ⟨hc, h2⟩
    · exact ⟨h1, h2⟩
  | setDhi c =>
    simp only [step]
    split
    · exact ⟨h1, hc⟩
    · exact ⟨h1, h2⟩

theorem run_wf (ops : List Op) : ∀ (o : Obj), o.dni.WF → o.dhi.WF → (∀ op ∈ ops, op.candWF) →
    (run o ops).dni.WF ∧ (run o ops).dhi.WF := by
  induction ops with
  | nil => intro o h1 h2 _; exact ⟨h1, h2⟩
  | cons op rest ih =>
    intro o h1 h2 hc
    have hs := step_wf o op h1 h2 (hc op (List.mem_cons_self ..))
    exact ih (step o op).1 hs.1 hs.2 (fun op' hm => hc op' (List.mem_cons_of_mem _ hm))

end Wea
