/-
  Helper lemmas for the round-4 theorems of C19: leap flag / timestep of every period the model builds,
  and the name query as a membership test.  No Mathlib.
-/
import Ladybug.Model.Sql

namespace Sql

/-- A period built by `mkPeriod` carries the leap flag it was given. -/
theorem mkPeriod_leap (sm sd sh em ed eh ts : Nat) (leap : Bool) (p : Period)
    (h : mkPeriod sm sd sh em ed eh ts leap = .ok p) : p.leap = leap := by
  unfold mkPeriod at h
  simp only [bind, Except.bind, pure, Except.pure] at h
  repeat' split at h
  all_goals first
    | (injection h with h; subst h; rfl)
    | (cases h)

/-- `_extract_run_period`: whenever it answers with a period, the period's leap flag is the rule applied
    to the year of the LAST row. -/
theorem extractRunPeriodRows_leap (s e : TimeRow) (p : Period) (f : Freq) (m : Bool)
    (h : extractRunPeriodRows (some s) (some e) = .ok (some p, f, m)) : p.leap = leapOfYear e.year := by
  unfold extractRunPeriodRows at h
  simp only [bind, Except.bind, pure, Except.pure] at h
  repeat' split at h
  all_goals first
    | (cases h; done)
    | (cases h; exact mkPeriod_leap _ _ _ _ _ _ _ _ _ (by assumption))

theorem closePeriod_leap (st : Nat × Nat) (e : TimeRow) (ts : Nat) (leap : Bool) (p : Period)
    (h : closePeriod st e ts leap = .ok p) : p.leap = leap := by
  unfold closePeriod at h
  simp only [bind, Except.bind] at h
  split at h
  · cases h
  · exact mkPeriod_leap _ _ _ _ _ _ _ _ _ h

/-- Every period of the loop of `_extract_all_run_period` carries the leap flag passed in. -/
theorem allGo_leap (monthly : Bool) (ts : Nat) (leap : Bool) (rs : List TimeRow) :
    ∀ (st : Nat × Nat) (env : Nat) (prev : TimeRow) (ps : List Period),
      allGo monthly ts leap st env prev rs = .ok ps → ∀ p ∈ ps, p.leap = leap := by
  induction rs with
  | nil =>
    intro st env prev ps h p hp
    simp only [allGo, bind, Except.bind, pure, Except.pure] at h
    split at h
    · cases h
    · injection h with h
      subst h
      simp only [List.mem_singleton] at hp
      subst hp
      exact closePeriod_leap _ _ _ _ _ (by assumption)
  | cons r rs ih =>
    intro st env prev ps h p hp
    simp only [allGo] at h
    split at h
    · simp only [bind, Except.bind, pure, Except.pure] at h
      split at h
      · cases h
      · split at h
        · cases h
        · split at h
          · cases h
          · injection h with h
            subst h
            rcases List.mem_cons.mp hp with hp | hp
            · subst hp
              exact closePeriod_leap _ _ _ _ _ (by assumption)
            · exact ih _ _ _ _ (by assumption) p hp
    · exact ih _ _ _ _ h p hp

theorem allRunPeriods_leap (time : List TimeRow) (monthly : Bool) (ts : Nat) (leap : Bool) (ps : List Period)
    (h : allRunPeriods time monthly ts leap = .ok ps) : ∀ p ∈ ps, p.leap = leap := by
  unfold allRunPeriods at h
  split at h
  · cases h
  · split at h
    · cases h
    · simp only [bind, Except.bind] at h
      split at h
      · cases h
      · exact allGo_leap _ _ _ _ _ _ _ _ h

/-! ### The name query is a membership test -/

theorem selects_many_mem (ns : List String) (hl : ns.length ≠ 1) (r : DictRow) :
    (NameQuery.many ns).selects r = ns.contains r.name := by
  unfold NameQuery.selects
  split
  · rename_i h; cases h
  · rename_i n h
    injection h with h
    subst h
    exact absurd rfl hl
  · rename_i h
    injection h with h
    subst h
    rfl

theorem contains_congr (ns ns' : List String) (h : ∀ n, n ∈ ns ↔ n ∈ ns') (x : String) :
    ns.contains x = ns'.contains x := by
  cases h1 : ns.contains x <;> cases h2 : ns'.contains x <;> try rfl
  · rw [List.contains_iff_mem] at h2
    have := (h x).mpr h2
    rw [← List.contains_iff_mem, h1] at this
    cases this
  · rw [List.contains_iff_mem] at h1
    have := (h x).mp h1
    rw [← List.contains_iff_mem, h2] at this
    cases this

theorem selects_many_congr (ns ns' : List String) (h : ∀ n, n ∈ ns ↔ n ∈ ns')
    (hl : ns.length ≠ 1) (hl' : ns'.length ≠ 1) :
    (NameQuery.many ns).selects = (NameQuery.many ns').selects := by
  funext r
  rw [selects_many_mem ns hl, selects_many_mem ns' hl', contains_congr ns ns' h]

theorem selects_one (n : String) : (NameQuery.many [n]).selects = (NameQuery.single n).selects := by
  funext r
  rfl

end Sql
