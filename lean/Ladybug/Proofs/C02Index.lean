/-
  Helper lemmas for C02, part 2 (no Mathlib): the rational index arithmetic of continuous
  collections computes the position of a minute in the collection.
-/
import Ladybug.Proofs.C02Lemmas

open Cal

namespace Filter

theorem trunc_int (z : Int) : Py.truncRat (z : Rat) = z := by
  unfold Py.truncRat; split <;> simp [Rat.floor_intCast, Rat.ceil_intCast]

/-- `t_s = 60 / timestep` is the step in minutes, for the 12 valid timesteps. -/
theorem tS_eq (ap : AP) (hts : ap.timestep ∈ Gen.Ap.validTimesteps) :
    tS ap = ((ap.step : Int) : Rat) ∧ (0 : Rat) < tS ap := by
  unfold tS
  rcases step_cases ap hts with h | h | h | h | h | h | h | h | h | h | h | h <;>
    rw [h.1, h.2] <;> constructor <;> simp <;> grind

/-- `int(a / t − b / t)` when `a − b` is a whole number `k` of steps `t`. -/
theorem idx_sub (a : Int) (b : Nat) (k T : Int) (t : Rat) (ht : t = (T : Rat)) (hpos : (0 : Rat) < t)
    (h : a - (b : Int) = k * T) : Py.truncRat ((a : Rat) / t - (b : Rat) / t) = k := by
  have h' : (a : Rat) - ((b : Int) : Rat) = (k : Rat) * (T : Rat) := by
    have := congrArg (fun z : Int => (z : Rat)) h
    simpa using this
  rw [Rat.intCast_natCast] at h'
  have e : (a : Rat) / t - (b : Rat) / t = (k : Rat) := by
    subst ht; grind
  rw [e, trunc_int]

/-- `int(a / t + (y − b / t))` when `a + y·t − b` is a whole number `k` of steps. -/
theorem idx_add (a : Int) (b : Nat) (y k T : Int) (t : Rat) (ht : t = (T : Rat)) (hpos : (0 : Rat) < t)
    (h : a + y * T - (b : Int) = k * T) :
    Py.truncRat ((a : Rat) / t + ((y : Rat) - (b : Rat) / t)) = k := by
  have h' : (a : Rat) + (y : Rat) * (T : Rat) - ((b : Int) : Rat) = (k : Rat) * (T : Rat) := by
    have := congrArg (fun z : Int => (z : Rat)) h
    simpa using this
  rw [Rat.intCast_natCast] at h'
  have e : (a : Rat) / t + ((y : Rat) - (b : Rat) / t) = (k : Rat) := by
    subst ht; grind
  rw [e, trunc_int]

/-- Comparison of the two quotients is comparison of the minutes. -/
theorem div_le_div_iff (a : Int) (b : Nat) (t : Rat) (hpos : (0 : Rat) < t) :
    (b : Rat) / t ≤ (a : Rat) / t ↔ (b : Int) ≤ a := by
  rw [← Rat.intCast_le_intCast, Rat.intCast_natCast]
  constructor
  · intro h
    have h1 : (b : Rat) / t * t ≤ (a : Rat) / t * t := Rat.mul_le_mul_of_nonneg_right h (Rat.le_of_lt hpos)
    have e1 : (b : Rat) / t * t = (b : Rat) := by grind
    have e2 : (a : Rat) / t * t = (a : Rat) := by grind
    rw [e1, e2] at h1; exact h1
  · intro h
    have hi : (0 : Rat) ≤ t⁻¹ := Rat.le_of_lt (Rat.inv_pos.mpr hpos)
    rw [Rat.div_def, Rat.div_def]
    exact Rat.mul_le_mul_of_nonneg_right h hi

theorem yearSteps_mul (ap : AP) (hts : ap.timestep ∈ Gen.Ap.validTimesteps) :
    yearSteps ap * (ap.step : Int) = (minutesInYear ap.leap : Int) ∧ 0 < yearSteps ap := by
  unfold yearSteps minutesInYear daysInYear
  rcases step_cases ap hts with h | h | h | h | h | h | h | h | h | h | h | h <;>
    rw [h.1, h.2] <;> cases ap.leap <;> simp

/-- **The index arithmetic finds the position.**  For a whole-day period (non-wrapping or wrapping,
    any of the 12 timesteps, leap or not) and every position `k` of the collection, the index
    computed from the minute of step `k` is `k`. -/
theorem moyIndex_spec (ap : AP) (hwf : ap.WF) (h0 : ap.st_hour = 0) (h23 : ap.end_hour = 23)
    (k : Nat) (hk : k < ap.moys.length) :
    moyIndex ap (((ap.stMoy + k * ap.step) % minutesInYear ap.leap : Nat) : Int) = (k : Int) := by
  obtain ⟨hs, he, m1, m2, m3, m4, m5, m6, hrev⟩ := AP.moment_facts ap hwf
  obtain ⟨hspan, _⟩ := moys_getElem ap hwf h0 h23
  obtain ⟨htS, hpos⟩ := tS_eq ap hwf.2.2
  obtain ⟨hY, hYpos⟩ := yearSteps_mul ap hwf.2.2
  have hkT : k * ap.step < ap.moys.length * ap.step :=
    Nat.mul_lt_mul_of_pos_right hk (AP.step_pos ap hwf.2.2)
  unfold moyIndex
  by_cases hr : ap.isReversed = false
  · have hle := hrev.mp hr
    rw [if_pos hle] at hspan
    rw [if_pos hr, Nat.mod_eq_of_lt (by omega)]
    apply idx_sub _ _ _ (ap.step : Int) _ htS hpos
    push_cast
    omega
  · have hlt : ¬ ap.stMoy ≤ ap.endMoy := fun h => hr (hrev.mpr h)
    rw [if_neg hlt] at hspan
    rw [if_neg hr]
    dsimp only
    by_cases hc : ap.stMoy + k * ap.step < minutesInYear ap.leap
    · rw [Nat.mod_eq_of_lt hc]
      have hcmp : (ap.stMoy : Rat) / tS ap ≤ (((ap.stMoy + k * ap.step : Nat) : Int) : Rat) / tS ap :=
        (div_le_div_iff _ _ _ hpos).mpr (by push_cast; omega)
      rw [if_pos hcmp]
      apply idx_sub _ _ _ (ap.step : Int) _ htS hpos
      push_cast
      omega
    · have hmod : (ap.stMoy + k * ap.step) % minutesInYear ap.leap =
          ap.stMoy + k * ap.step - minutesInYear ap.leap := by
        rw [Nat.mod_eq_sub_mod (by omega), Nat.mod_eq_of_lt (by omega)]
      rw [hmod]
      have hcmp : ¬ (ap.stMoy : Rat) / tS ap ≤
          (((ap.stMoy + k * ap.step - minutesInYear ap.leap : Nat) : Int) : Rat) / tS ap := by
        rw [div_le_div_iff _ _ _ hpos]; omega
      rw [if_neg hcmp]
      apply idx_add _ _ _ _ (ap.step : Int) _ htS hpos
      rw [hY]
      have : ((ap.stMoy + k * ap.step - minutesInYear ap.leap : Nat) : Int) =
          (ap.stMoy : Int) + (k : Int) * (ap.step : Int) - (minutesInYear ap.leap : Int) := by
        omega
      rw [this]
      omega

/-- Every minute of a whole-day period sits at some position `k`, and is `(start + k·step) mod year`. -/
theorem pos_of_mem (ap : AP) (hwf : ap.WF) (h0 : ap.st_hour = 0) (h23 : ap.end_hour = 23) (m : Nat)
    (hm : m ∈ ap.moys) :
    ∃ k, k < ap.moys.length ∧ ap.moys[k]? = some m ∧ m = (ap.stMoy + k * ap.step) % minutesInYear ap.leap := by
  obtain ⟨k, hk⟩ := List.getElem?_of_mem hm
  have hlt : k < ap.moys.length := by
    rcases Nat.lt_or_ge k ap.moys.length with h | h
    · exact h
    · rw [List.getElem?_eq_none h] at hk; cases hk
  have := (moys_getElem ap hwf h0 h23).2 k hlt
  rw [hk] at this
  exact ⟨k, hlt, hk, by injection this⟩

/-- The start moment of a period is always one of its steps (so no period is empty). -/
theorem stMoy_mem (ap : AP) (hwf : ap.WF) : ap.stMoy ∈ ap.moys := by
  obtain ⟨hs, he, m1, m2, m3, m4, m5, m6, hrev⟩ := AP.moment_facts ap hwf
  rw [AP.mem_moys ap hwf]
  have hmod : ap.stMoy % 1440 = ap.st_hour * 60 := by omega
  refine ⟨by omega, ?_, ?_, by omega⟩
  · rcases step_cases ap hwf.2.2 with h | h | h | h | h | h | h | h | h | h | h | h <;> rw [h.2] <;> omega
  · rw [hmod]; unfold AP.inWindow; split <;> omega

/-! ### Picking by index -/

theorem getIdx_nat {β : Type} (l : List β) (k : Nat) : Py.getIdx? l (k : Int) = l[k]? := by
  unfold Py.getIdx?
  rw [if_pos (by omega)]
  simp

theorem pick_cons {β : Type} (l : List β) (i : Int) (is : List Int) (v : β) (vs : List β)
    (h1 : Py.getIdx? l i = some v) (h2 : pick l is = .ok vs) : pick l (i :: is) = .ok (v :: vs) := by
  unfold pick at h2 ⊢
  rw [List.mapM_cons, h1, h2]
  rfl

/-- The continuous minute filter on minutes of the collection: values and date-times at the
    positions of the requested minutes, in request order. -/
theorem pick_moys {α : Type} (c : Cont α) (hc : c.WF) : ∀ (req : List Nat), (∀ m ∈ req, m ∈ c.ap.moys) →
    ∃ vs, pick c.vals ((req.map Int.ofNat).map (moyIndex c.ap)) = .ok vs ∧
      pick c.ap.moys ((req.map Int.ofNat).map (moyIndex c.ap)) = .ok req ∧
      vs.length = req.length ∧ ∀ p ∈ req.zip vs, p ∈ c.pairs
  | [], _ => ⟨[], rfl, rfl, rfl, by simp⟩
  | m :: ms, h => by
    obtain ⟨hwf, h0, h23, hlen⟩ := hc
    obtain ⟨vs, e1, e2, e3, e4⟩ := pick_moys c ⟨hwf, h0, h23, hlen⟩ ms (fun x hx => h x (List.mem_cons_of_mem _ hx))
    obtain ⟨k, hk, hget, hmk⟩ := pos_of_mem c.ap hwf h0 h23 m (h m (by simp))
    have hidx : moyIndex c.ap (Int.ofNat m) = (k : Int) := by
      rw [hmk]; exact moyIndex_spec c.ap hwf h0 h23 k hk
    have hkv : k < c.vals.length := by rw [hlen, AP.len_eq_length c.ap hwf]; exact hk
    obtain ⟨v, hv⟩ : ∃ v, c.vals[k]? = some v := ⟨c.vals[k], List.getElem?_eq_getElem hkv⟩
    refine ⟨v :: vs, ?_, ?_, by simp [e3], ?_⟩
    · simp only [List.map_cons]
      exact pick_cons _ _ _ _ _ (by rw [hidx, getIdx_nat]; exact hv) e1
    · simp only [List.map_cons]
      exact pick_cons _ _ _ _ _ (by rw [hidx, getIdx_nat]; exact hget) e2
    · intro p hp
      rw [List.zip_cons_cons, List.mem_cons] at hp
      rcases hp with rfl | hp
      · unfold Cont.pairs
        rw [List.mem_iff_getElem?]
        exact ⟨k, by rw [List.getElem?_zip_eq_some]; exact ⟨hget, hv⟩⟩
      · exact e4 p hp

end Filter
