/-
  Helper lemmas for C12 (Wea).  Single Mathlib tactic modules only.
-/
import Ladybug.Model.Wea
import Ladybug.Props.C04
import Mathlib.Tactic.Linarith
import Mathlib.Tactic.NormNum
import Mathlib.Tactic.Ring
import Mathlib.Tactic.SplitIfs

open Cal

namespace Wea

/-! ### Python's `round` / `int` on exact rationals -/

theorem round_intCast (n : Int) : Py.round (n : Rat) = n := by
  unfold Py.round
  simp only [Rat.floor_intCast]
  have : ((n : Rat) - (n : Rat)) < 1 / 2 := by norm_num
  simp

theorem trunc_intCast (n : Int) : Py.truncRat (n : Rat) = n := by
  unfold Py.truncRat; split <;> simp [Rat.floor_intCast, Rat.ceil_intCast]

/-- An integer within less than one half of `x` is `round(x)`. -/
theorem round_eq_of_near (n : Int) (x : Rat) (h1 : x - (n : Rat) < 1 / 2) (h2 : (n : Rat) - x < 1 / 2) :
    Py.round x = n := by
  obtain ⟨g1, g2⟩ := Cal.round_near x
  have a1 : ((Py.round x : Int) : Rat) - (n : Rat) < 1 := by linarith
  have a2 : (n : Rat) - ((Py.round x : Int) : Rat) < 1 := by linarith
  have b1 : ((Py.round x - n : Int) : Rat) < ((1 : Int) : Rat) := by push_cast; linarith
  have b2 : ((n - Py.round x : Int) : Rat) < ((1 : Int) : Rat) := by push_cast; linarith
  have c1 : Py.round x - n < 1 := by exact_mod_cast b1
  have c2 : n - Py.round x < 1 := by exact_mod_cast b2
  omega

/-- `round(x)` is within one half of `x` (restated from C08). -/
theorem round_within (x : Rat) :
    ((Py.round x : Int) : Rat) - x ≤ 1 / 2 ∧ x - ((Py.round x : Int) : Rat) ≤ 1 / 2 := Cal.round_near x

/-! ### The `%.3f` hour token: all 1440 minutes of the day (finite, complete) -/

/-- Facts about one (hour, minute): the token's integer part is the hour, the rounded product is
    the minute of the day, the exact product is within 3/100 of it, and the truncated product is
    right exactly when `minute % 3 ≠ 2`. -/
def minuteFact (h m : Nat) : Bool :=
  milliOf h m / 1000 == h &&
  minuteOfDay (prod60Exact (milliOf h m)) == 60 * h + m &&
  decide (prod60Exact (milliOf h m) - ((60 * h + m : Nat) : Rat) ≤ 3 / 100) &&
  decide (((60 * h + m : Nat) : Rat) - prod60Exact (milliOf h m) ≤ 3 / 100) &&
  (minuteOfDayTrunc (prod60Exact (milliOf h m)) == 60 * h + m) == (m % 3 != 2) &&
  milliOf h m == 1000 * h + (50 * m + 1) / 3

theorem minuteFact_all : (List.range 24).all (fun h => (List.range 60).all (fun m => minuteFact h m)) = true := by
  decide +kernel

theorem minuteFact_of_lt (h m : Nat) (hh : h < 24) (hm : m < 60) : minuteFact h m = true := by
  have := minuteFact_all
  rw [List.all_eq_true] at this
  have h1 := this h (List.mem_range.mpr hh)
  rw [List.all_eq_true] at h1
  exact h1 m (List.mem_range.mpr hm)

/-! ### Closed form of the enumeration of whole-day periods -/

/-- Two strictly increasing lists with the same members are equal. -/
theorem eq_of_sorted_of_mem_iff : ∀ (l₁ l₂ : List Nat), l₁.Pairwise (· < ·) → l₂.Pairwise (· < ·) →
    (∀ a, a ∈ l₁ ↔ a ∈ l₂) → l₁ = l₂
  | [], [], _, _, _ => rfl
  | [], b :: _, _, _, h => by have := (h b).mpr (by simp); simp at this
  | a :: _, [], _, _, h => by have := (h a).mp (by simp); simp at this
  | a :: l₁, b :: l₂, h₁, h₂, h => by
    rw [List.pairwise_cons] at h₁ h₂
    have hab : a = b := by
      have ha := (h a).mp (by simp)
      have hb := (h b).mpr (by simp)
      rw [List.mem_cons] at ha hb
      rcases ha with ha | ha
      · exact ha
      · rcases hb with hb | hb
        · exact hb.symm
        · have := h₂.1 a ha
          have := h₁.1 b hb
          omega
    subst hab
    congr 1
    apply eq_of_sorted_of_mem_iff l₁ l₂ h₁.2 h₂.2
    intro x
    constructor
    · intro hx
      have := (h x).mp (List.mem_cons_of_mem _ hx)
      rw [List.mem_cons] at this
      rcases this with e | e
      · have := h₁.1 x hx; omega
      · exact e
    · intro hx
      have := (h x).mpr (List.mem_cons_of_mem _ hx)
      rw [List.mem_cons] at this
      rcases this with e | e
      · have := h₂.1 x hx; omega
      · exact e

/-- The arithmetic progression `st, st + S, …` with `n` terms. -/
def prog (st S n : Nat) : List Nat := (List.range n).map fun k => st + k * S

theorem prog_sorted (st S n : Nat) (hS : 0 < S) : (prog st S n).Pairwise (· < ·) := by
  unfold prog
  rw [List.pairwise_map]
  have : (List.range n).Pairwise (· < ·) := List.pairwise_lt_range
  refine this.imp ?_
  intro a b hab
  have : a * S < b * S := Nat.mul_lt_mul_of_pos_right hab hS
  omega

theorem mem_prog (st S n m : Nat) (hS : 0 < S) :
    m ∈ prog st S n ↔ st ≤ m ∧ (m - st) % S = 0 ∧ m < st + n * S := by
  unfold prog
  rw [List.mem_map]
  constructor
  · rintro ⟨k, hk, rfl⟩
    rw [List.mem_range] at hk
    refine ⟨by omega, ?_, ?_⟩
    · have : st + k * S - st = k * S := by omega
      rw [this]; exact Nat.mul_mod_left k S
    · have : k * S < n * S := Nat.mul_lt_mul_of_pos_right hk hS
      omega
  · rintro ⟨h1, h2, h3⟩
    refine ⟨(m - st) / S, ?_, ?_⟩
    · rw [List.mem_range]
      have hd : (m - st) / S * S = m - st := Nat.div_mul_cancel (Nat.dvd_of_mod_eq_zero h2)
      have : (m - st) / S * S < n * S := by omega
      exact Nat.lt_of_mul_lt_mul_right this
    · have hd : (m - st) / S * S = m - st := Nat.div_mul_cancel (Nat.dvd_of_mod_eq_zero h2)
      omega

/-- Facts about the start/end moments of a whole-day, non-wrapping period. -/
theorem wholeDay_facts (ap : AP) (hwf : ap.WF) (hnr : ap.isReversed = false) :
    ap.stMoy % 60 = 0 ∧ ap.endMoy % 60 = 0 ∧ ap.stMoy ≤ ap.endMoy ∧ ap.endMoy + 60 ≤ minutesInYear ap.leap := by
  have hlt := Cal.C08_moy_lt ap.endTime hwf.2.1
  have hr : ¬ (ap.endTime.intHoy < ap.stTime.intHoy) := by
    simpa [AP.isReversed] using hnr
  have e1 : ap.stMoy = ap.stTime.intHoy * 60 := by simp [AP.stMoy, DT.moy, AP.stTime]
  have e2 : ap.endMoy = ap.endTime.intHoy * 60 := by simp [AP.endMoy, DT.moy, AP.endTime]
  have e3 : ap.endTime.moy = ap.endMoy := rfl
  have e4 : ap.endTime.leap = ap.leap := rfl
  rw [e3, e4] at hlt
  have hy : minutesInYear ap.leap = 1440 * daysInYear ap.leap := rfl
  refine ⟨by omega, by omega, by omega, by omega⟩

theorem moys_wholeDay (ap : AP) (hwf : ap.WF) (h0 : ap.st_hour = 0) (h23 : ap.end_hour = 23)
    (hnr : ap.isReversed = false) :
    ap.moys = prog ap.stMoy ap.step ((ap.endMoy + 60 - ap.stMoy) / ap.step) := by
  have hS := AP.step_pos ap hwf.2.2
  obtain ⟨f1, f2, f3, f4⟩ := wholeDay_facts ap hwf hnr
  apply eq_of_sorted_of_mem_iff _ _ (AP.moys_sorted ap hwf hnr) (prog_sorted _ _ _ hS)
  intro m
  rw [AP.mem_moys ap hwf, mem_prog _ _ _ _ hS]
  have hw : ap.inWindow (m % 1440) := by
    unfold AP.inWindow; rw [h0, h23]; simp
  unfold AP.Pred
  simp only [hw, true_and]
  rcases AP.ts_cases hwf.2.2 with h | h | h | h | h | h | h | h | h | h | h | h <;>
    simp only [AP.step, h] at hS ⊢ <;> omega

theorem step_cases (ap : AP) (hwf : ap.WF) :
    ap.step = 60 ∨ ap.step = 30 ∨ ap.step = 20 ∨ ap.step = 15 ∨ ap.step = 12 ∨ ap.step = 10 ∨ ap.step = 6 ∨
    ap.step = 5 ∨ ap.step = 4 ∨ ap.step = 3 ∨ ap.step = 2 ∨ ap.step = 1 := by
  rcases AP.ts_cases hwf.2.2 with h | h | h | h | h | h | h | h | h | h | h | h <;> simp [AP.step, h]

theorem wrap_facts (ap : AP) (hwf : ap.WF) (hr : ap.isReversed = true) :
    ap.stMoy % 60 = 0 ∧ ap.endMoy % 60 = 0 ∧ ap.endMoy + 60 ≤ ap.stMoy ∧ ap.stMoy + 60 ≤ minutesInYear ap.leap ∧
    minutesInYear ap.leap % 1440 = 0 := by
  have hlt := Cal.C08_moy_lt ap.stTime hwf.1
  have hr' : ap.endTime.intHoy < ap.stTime.intHoy := by
    simpa [AP.isReversed] using hr
  have e1 : ap.stMoy = ap.stTime.intHoy * 60 := by simp [AP.stMoy, DT.moy, AP.stTime]
  have e2 : ap.endMoy = ap.endTime.intHoy * 60 := by simp [AP.endMoy, DT.moy, AP.endTime]
  have e3 : ap.stTime.moy = ap.stMoy := rfl
  have e4 : ap.stTime.leap = ap.leap := rfl
  rw [e3, e4] at hlt
  have hy : minutesInYear ap.leap = 1440 * daysInYear ap.leap := rfl
  refine ⟨by omega, by omega, by omega, by omega, by omega⟩

theorem moys_wholeDay_wrap (ap : AP) (hwf : ap.WF) (h0 : ap.st_hour = 0) (h23 : ap.end_hour = 23)
    (hr : ap.isReversed = true) :
    ap.moys = prog ap.stMoy ap.step ((minutesInYear ap.leap - ap.stMoy) / ap.step) ++
              prog 0 ap.step ((ap.endMoy + 60) / ap.step) := by
  have hS := AP.step_pos ap hwf.2.2
  obtain ⟨f1, f2, f3, f4, f5⟩ := wrap_facts ap hwf hr
  obtain ⟨l₁, l₂, hm, s1, s2, b1, b2, _⟩ := AP.moys_segments ap hwf hr
  have hw : ∀ m, ap.inWindow (m % 1440) := by
    intro m; unfold AP.inWindow; rw [h0, h23]; simp
  have hmem : ∀ m, m ∈ l₁ ∨ m ∈ l₂ ↔ ap.Pred m := by
    intro m; rw [← AP.mem_moys ap hwf, hm, List.mem_append]
  rw [hm]
  congr 1
  · apply eq_of_sorted_of_mem_iff _ _ s1 (prog_sorted _ _ _ hS)
    intro m
    rw [mem_prog _ _ _ _ hS]
    constructor
    · intro h
      have hp := (hmem m).mp (Or.inl h)
      have hb := b1 m h
      unfold AP.Pred at hp
      simp only [hw, true_and] at hp
      rcases step_cases ap hwf with e | e | e | e | e | e | e | e | e | e | e | e <;>
        rw [e] at hp ⊢ <;> omega
    · intro h
      have hp : ap.Pred m := by
        unfold AP.Pred
        simp only [hw, true_and]
        rcases step_cases ap hwf with e | e | e | e | e | e | e | e | e | e | e | e <;>
          rw [e] at h ⊢ <;> omega
      rcases (hmem m).mpr hp with h1 | h2
      · exact h1
      · have := b2 m h2; omega
  · apply eq_of_sorted_of_mem_iff _ _ s2 (prog_sorted _ _ _ hS)
    intro m
    rw [mem_prog _ _ _ _ hS]
    constructor
    · intro h
      have hp := (hmem m).mp (Or.inr h)
      have hb := b2 m h
      unfold AP.Pred at hp
      simp only [hw, true_and] at hp
      rcases step_cases ap hwf with e | e | e | e | e | e | e | e | e | e | e | e <;>
        rw [e] at hp ⊢ <;> omega
    · intro h
      have hp : ap.Pred m := by
        unfold AP.Pred
        simp only [hw, true_and]
        rcases step_cases ap hwf with e | e | e | e | e | e | e | e | e | e | e | e <;>
          rw [e] at h ⊢ <;> omega
      rcases (hmem m).mpr hp with h1 | h2
      · have := b1 m h1
        have := Nat.div_mul_le_self (ap.endMoy + 60) ap.step
        omega
      · exact h2


/-! ### Datetimes of a continuous collection -/

theorem filterMap_map_of_forall {β : Type} (f : Nat → Option β) (g : β → Nat) :
    ∀ (l : List Nat), (∀ m ∈ l, ∃ d, f m = some d ∧ g d = m) → (l.filterMap f).map g = l
  | [], _ => rfl
  | a :: l, h => by
    obtain ⟨d, hd, hg⟩ := h a (by simp)
    rw [List.filterMap_cons, hd]
    simp only [List.map_cons, hg]
    congr 1
    exact filterMap_map_of_forall f g l (fun m hm => h m (List.mem_cons_of_mem _ hm))

/-- Every step of a well-formed period converts: `contDts` reads back the enumeration. -/
theorem contDts_moys (ap : AP) (hwf : ap.WF) : (contDts ap).map DT.moy = ap.moys := by
  unfold contDts
  apply filterMap_map_of_forall
  intro m hm
  obtain ⟨d, h1, _, h3, _⟩ := (AP.C04_datetimes ap hwf).2.2 m hm
  exact ⟨d, by rw [h1]; rfl, h3⟩

theorem contDts_length (ap : AP) (hwf : ap.WF) : (contDts ap).length = ap.moys.length := by
  have := congrArg List.length (contDts_moys ap hwf)
  simpa using this

/-- The datetimes of a continuous collection are valid date-times of the period's year. -/
theorem contDts_valid (ap : AP) (hwf : ap.WF) : ∀ d ∈ contDts ap, d.valid ∧ d.leap = ap.leap ∧ d.moy ∈ ap.moys := by
  intro d hd
  unfold contDts at hd
  rw [List.mem_filterMap] at hd
  obtain ⟨m, hm, he⟩ := hd
  obtain ⟨d', h1, h2, h3, h4⟩ := (AP.C04_datetimes ap hwf).2.2 m hm
  rw [h1] at he
  have : d' = d := by simpa [Except.toOption] using he
  subst this
  exact ⟨h2, h4, by rw [h3]; exact hm⟩

end Wea
