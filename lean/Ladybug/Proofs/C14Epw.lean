/-
  C14 helper lemmas, part 5: EPW exports (`to_file_string`, `to_wea`) change the object and put it back.
  No Mathlib.
-/
import Ladybug.Proofs.C14Comp

namespace LbHeap

theorem allocMd_next_le (h : Heap) (m : List (Nat × OV)) : h.next ≤ (allocMd h m).1.next := by
  induction m generalizing h with
  | nil => exact Nat.le_refl _
  | cons p rest ih =>
    obtain ⟨k, v⟩ := p
    cases v with
    | tok s => simp only [allocMd]; exact ih h
    | bad => simp only [allocMd]; exact ih h
    | lst l =>
      simp only [allocMd]
      have := ih (h.alloc (.mlist l)).1
      have h1 : (h.alloc (.mlist l)).1.next = h.next + 1 := rfl
      omega

/-- Mutators never shrink the heap. -/
theorem mutate_next_le {m : Mode} {h h' : Heap} {a : Nat} {op : MOp} (e : mutate m h a op = .ok h') :
    h.next ≤ h'.next := by
  unfold mutate at e
  cases hs : src h a with
  | error x => simp [hs, bind, Except.bind] at e
  | ok s =>
    simp only [hs, bind, Except.bind, pure, Except.pure] at e
    cases op <;> simp only [setVals] at e
    case metaReplace nm =>
      cases e
      have := allocMd_next_le h nm
      simp only [write_next, alloc_next]
      omega
    all_goals
      repeat' (split at e)
    all_goals first
      | (cases e; done)
      | (cases e; exact Nat.le_refl _)
      | (cases e; simp only [convertTo, Heap.write, Heap.alloc]; omega)

/-- Two local steps on the same object compose. -/
theorem Local.trans {α : Type} {fp : FP α} {h h1 h2 : Heap} {a : Nat} (l1 : Local fp h h1 a)
    (nle : h.next ≤ h1.next) (l2 : Local fp h1 h2 a) : Local fp h h2 a := by
  refine ⟨l2.wf, ?_, l2.typed, ?_, ?_⟩
  · intro r hr ho
    have e1 := l1.frame r hr ho
    have : r ∉ fp.owned h1 a := by
      intro h1'
      rcases l1.owned_sub r h1' with h2' | h2'
      · exact ho h2'
      · omega
    rw [l2.frame r (by omega) this, e1]
  · intro r hr
    rcases l2.owned_sub r hr with h1' | h1'
    · exact l1.owned_sub r h1'
    · exact Or.inr (by omega)
  · intro r hr
    rcases l2.reads_sub r hr with h1' | h1'
    · exact l1.reads_sub r h1'
    · exact Or.inr (by omega)

/-! ### what the export's internal steps do to the snapshot of a field collection -/

theorem obs_of_src {h : Heap} {c : Nat} {s : Src} (hs : src h c = .ok s) :
    obs h c = some ⟨s.k.cls, s.k.isMut, s.k.validated, s.hd.dtype, s.hd.unit, s.ap, s.md, s.k.dts, s.vals⟩ := by
  obtain ⟨e1, e2, e3, e4, e5, e6⟩ := src_ok hs
  simp [obs, getColl, getHdr, getMeta, getAP, getVals, e1, e2, e3, e4, e5, e6]

/-- An in-place edit of the values list changes the values of the snapshot and nothing else. -/
theorem obs_write_vals {h : Heap} {c : Nat} {s : Src} (wf : WF h) (ty : Typed h c) (hs : src h c = .ok s)
    (v' : List Rat) :
    obs (h.write s.k.vals (.vals v' s.tuple)) c =
      some ⟨s.k.cls, s.k.isMut, s.k.validated, s.hd.dtype, s.hd.unit, s.ap, s.md, s.k.dts, v'⟩ := by
  obtain ⟨e1, e2, e3, e4, e5, e6⟩ := src_ok hs
  obtain ⟨_, _, m0, _, _, _, t1, t2, t3, _, _, _, e7⟩ := ty
  rw [e1] at t1; cases t1
  rw [e2] at t2; cases t2
  rw [e3] at t3; cases t3
  have n15 : c ≠ s.k.vals := ne_of_kind e1 e5 (by simp)
  have n25 : s.k.hdr ≠ s.k.vals := ne_of_kind e2 e5 (by simp)
  have n35 : s.hd.md ≠ s.k.vals := ne_of_kind e3 e5 (by simp)
  have n45 : s.hd.ap ≠ s.k.vals := ne_of_kind e4 e5 (by simp)
  have om : obsMeta (h.write s.k.vals (.vals v' s.tuple)).cells s.rmd = obsMeta h.cells s.rmd := by
    apply obsMeta_congr
    intro r hr
    obtain ⟨l, hl⟩ := e7 r hr
    exact write_other h _ (ne_of_kind hl e5 (by simp))
  have w1 := (write_other h (.vals v' s.tuple) n15).trans e1
  have w2 := (write_other h (.vals v' s.tuple) n25).trans e2
  have w3 := (write_other h (.vals v' s.tuple) n35).trans e3
  have w4 := (write_other h (.vals v' s.tuple) n45).trans e4
  have w5 := write_same h s.k.vals (.vals v' s.tuple)
  simp [obs, getColl, getHdr, getMeta, getAP, getVals, w1, w2, w3, w4, w5, om, e6]

/-- A unit conversion in place changes unit and values of the snapshot and nothing else. -/
theorem obs_convertTo {h : Heap} {c : Nat} {s : Src} (wf : WF h) (ty : Typed h c) (hs : src h c = .ok s)
    (u : Nat) :
    obs (convertTo h c s u) c =
      some ⟨s.k.cls, s.k.isMut, s.k.validated, s.hd.dtype, u, s.ap, s.md, s.k.dts,
            convVals s.hd.unit u s.vals⟩ := by
  obtain ⟨e1, e2, e3, e4, e5, e6⟩ := src_ok hs
  obtain ⟨_, _, m0, _, _, _, t1, t2, t3, _, _, _, e7⟩ := ty
  rw [e1] at t1; cases t1
  rw [e2] at t2; cases t2
  rw [e3] at t3; cases t3
  have l1 := lt_next_of_some wf e1
  have l2 := lt_next_of_some wf e2
  have l3 := lt_next_of_some wf e3
  have l4 := lt_next_of_some wf e4
  have n12 : c ≠ s.k.hdr := ne_of_kind e1 e2 (by simp)
  have n13 : c ≠ s.hd.md := ne_of_kind e1 e3 (by simp)
  have n14 : c ≠ s.hd.ap := ne_of_kind e1 e4 (by simp)
  have n23 : s.k.hdr ≠ s.hd.md := ne_of_kind e2 e3 (by simp)
  have n24 : s.k.hdr ≠ s.hd.ap := ne_of_kind e2 e4 (by simp)
  have f1 : c ≠ h.next := by omega
  have f2 : s.k.hdr ≠ h.next := Nat.ne_of_lt l2
  have f3 : s.hd.md ≠ h.next := Nat.ne_of_lt l3
  have f4 : s.hd.ap ≠ h.next := Nat.ne_of_lt l4
  have om : obsMeta (convertTo h c s u).cells s.rmd = obsMeta h.cells s.rmd := by
    apply obsMeta_congr
    intro r hr
    obtain ⟨l, hl⟩ := e7 r hr
    have r1 : r ≠ c := ne_of_kind hl e1 (by simp)
    have r2 : r ≠ s.k.hdr := ne_of_kind hl e2 (by simp)
    have r3 : r ≠ h.next := Nat.ne_of_lt (lt_next_of_some wf hl)
    simp [convertTo, Heap.write, Heap.alloc, r1, r2, r3]
  have c1 : (convertTo h c s u).cells c = some (.coll { s.k with vals := h.next }) := by
    simp [convertTo, Heap.write, Heap.alloc, n12]
  have c2 : (convertTo h c s u).cells s.k.hdr = some (.hdr { s.hd with unit := u }) := by
    simp [convertTo, Heap.write, Heap.alloc]
  have c3 : (convertTo h c s u).cells s.hd.md = some (.md s.rmd) := by
    simp [convertTo, Heap.write, Heap.alloc, n23.symm, n13.symm, f3, e3]
  have c4 : (convertTo h c s u).cells s.hd.ap = some (.ap s.ap) := by
    simp [convertTo, Heap.write, Heap.alloc, n24.symm, n14.symm, f4, e4]
  have c5 : (convertTo h c s u).cells h.next = some (.vals (convVals s.hd.unit u s.vals) false) := by
    simp [convertTo, Heap.write, Heap.alloc, f2.symm, f1.symm]
  simp [obs, getColl, getHdr, getMeta, getAP, getVals, c1, c2, c3, c4, c5, om, e6]

theorem rotR_rotL (v : List Rat) : rotR (rotL v) = v := by
  cases v with
  | nil => rfl
  | cons a t =>
    simp [rotL, rotR, List.getLast?_append, List.dropLast_append_of_ne_nil]

theorem toC_one (x : Rat) : toC 1 x = (x - 32) * 5 / 9 := by simp [toC]
theorem toC_zero (x : Rat) : toC 0 x = x := by simp [toC]
theorem fromC_one (x : Rat) : fromC 1 x = x * 9 / 5 + 32 := by simp [fromC]
theorem fromC_zero (x : Rat) : fromC 0 x = x := by simp [fromC]

/-- F -> C -> F gives the value back (exact arithmetic). -/
theorem conv_roundtrip (v : List Rat) : convVals 0 1 (convVals 1 0 v) = v := by
  simp only [convVals, List.map_map]
  conv => rhs; rw [← List.map_id v]
  apply List.map_congr_left
  intro x _
  simp only [Function.comp, toC_one, toC_zero, fromC_one, fromC_zero, id]
  grind

/-- The effect of the export's internal steps on a snapshot. -/
def opObs : MOp → Obs → Obs
  | .rotate left, o => { o with vals := if left then rotL o.vals else rotR o.vals }
  | .convSi, o => { o with unit := siUnit o.unit, vals := convVals o.unit (siUnit o.unit) o.vals }
  | .convIp, o => { o with unit := ipUnit o.unit, vals := convVals o.unit (ipUnit o.unit) o.vals }
  | _, o => o

def IsExportOp : MOp → Prop
  | .rotate _ => True
  | .convSi => True
  | .convIp => True
  | _ => False

theorem mutate_obs {h h' : Heap} {c : Nat} {op : MOp} (wf : WF h) (ty : Typed h c) (hop : IsExportOp op)
    (e : mutate .fixed h c op = .ok h') : ∃ o, obs h c = some o ∧ obs h' c = some (opObs op o) := by
  obtain ⟨s, hs, _, _⟩ := src_of_typed ty
  refine ⟨_, obs_of_src hs, ?_⟩
  unfold mutate at e
  simp only [hs, bind, Except.bind, pure, Except.pure] at e
  cases op <;> simp only [IsExportOp] at hop <;> simp only at e
  case convIp =>
    repeat' (split at e)
    all_goals try (cases e; done)
    cases e
    rw [obs_convertTo wf ty hs]; rfl
  case convSi =>
    repeat' (split at e)
    all_goals try (cases e; done)
    cases e
    rw [obs_convertTo wf ty hs]; rfl
  case rotate left =>
    repeat' (split at e)
    all_goals try (cases e; done)
    all_goals
      cases e
      rw [obs_write_vals wf ty hs]
      simp_all [opObs]

/-- A sequence of in-place steps on one member of a composite: a local step on the composite that leaves
    the siblings and the composite's own cells alone. -/
theorem mutSeq_step {h h' : Heap} {w mb : Nat} {x : Comp} {ops : List MOp} (wf : WF h)
    (hk : h.cells w = some (.comp x)) (cty : CompTyped h x) (hmb : mb ∈ x.members)
    (e : mutSeq h mb ops = .ok h') :
    Local anyFP h h' w ∧ h.next ≤ h'.next ∧ h'.cells w = some (.comp x) ∧ CompTyped h' x ∧
    (∀ b ∈ x.members, b ≠ mb → obs h' b = obs h b) ∧ h'.cells x.md = h.cells x.md ∧
    (∀ r ∈ mdRefsAt h x.md, h'.cells r = h.cells r) ∧ (∀ s ∈ x.shared, h'.cells s = h.cells s) := by
  induction ops generalizing h with
  | nil =>
    have e' : h = h' := by simpa [mutSeq] using e
    subst e'
    have ty : TypedA h w := by simp only [TypedA, hk]; exact cty
    refine ⟨⟨wf, fun _ _ _ => rfl, ty, fun r hr => Or.inl hr, fun r hr => Or.inl hr⟩, Nat.le_refl _, hk, cty,
      fun _ _ _ => rfl, rfl, fun _ _ => rfl, fun _ _ => rfl⟩
  | cons op rest ih =>
    simp only [mutSeq] at e
    split at e
    · rename_i h1 e1
      obtain ⟨L1, k1, sib1, md1, n1, s1, _, cty1⟩ := member_step wf hk cty hmb e1
      have nle := mutate_next_le e1
      obtain ⟨L2, nle2, k2, cty2, sib2, md2, n2, s2⟩ := ih L1.wf k1 cty1 e
      have mra : mdRefsAt h1 x.md = mdRefsAt h x.md := by simp [mdRefsAt, md1]
      refine ⟨L1.trans nle L2, Nat.le_trans nle nle2, k2, cty2, fun b hb ne => ?_, md2.trans md1,
        fun r hr => ?_, fun s hs => (s2 s hs).trans (s1 s hs)⟩
      · rw [sib2 b hb ne, sib1 b hb ne]
      · rw [n2 r (by rw [mra]; exact hr), n1 r hr]
    · cases e

/-- ... and the snapshot of that member is transformed step by step. -/
theorem mutSeq_obs {h h' : Heap} {mb : Nat} {ops : List MOp} (wf : WF h) (ty : Typed h mb)
    (hops : ∀ op ∈ ops, IsExportOp op) (e : mutSeq h mb ops = .ok h') :
    ∃ o, obs h mb = some o ∧ obs h' mb = some (ops.foldl (fun o op => opObs op o) o) := by
  induction ops generalizing h with
  | nil =>
    have e' : h = h' := by simpa [mutSeq] using e
    subst e'
    obtain ⟨s, hs, _, _⟩ := src_of_typed ty
    exact ⟨_, obs_of_src hs, obs_of_src hs⟩
  | cons op rest ih =>
    simp only [mutSeq] at e
    split at e
    · rename_i h1 e1
      obtain ⟨o, ho, ho1⟩ := mutate_obs wf ty (hops op (by simp)) e1
      have L := mutate_local wf ty e1
      obtain ⟨o1, ho1', hr⟩ := ih L.wf L.typed (fun op' h' => hops op' (List.mem_cons_of_mem _ h')) e
      rw [ho1] at ho1'
      cases ho1'
      exact ⟨o, ho, by simpa using hr⟩
    · cases e

theorem export_ops_ok (ip : Bool) : ∀ op ∈ exportOps ip, IsExportOp op := by
  intro op hop
  cases ip <;> simp [exportOps] at hop <;> rcases hop with rfl | rfl | rfl | rfl <;> trivial

theorem wea_ops_ok (ip : Bool) : ∀ op ∈ weaOps ip, IsExportOp op := by
  intro op hop
  cases ip <;> simp [weaOps] at hop
  rcases hop with rfl | rfl <;> trivial

/-- The export's steps give the snapshot back: the rotation is undone; an IP field (unit F) goes to C
    and back to F. -/
theorem export_ops_restore (ip : Bool) (o : Obs) (hu : ip = true → o.unit = 1) :
    (exportOps ip).foldl (fun o op => opObs op o) o = o := by
  cases ip
  · simp [exportOps, opObs, rotR_rotL]
  · have := hu rfl
    cases o
    simp only at this
    subst this
    simp [exportOps, opObs, siUnit, ipUnit, rotR_rotL, conv_roundtrip]

theorem wea_ops_restore (ip : Bool) (o : Obs) (hu : ip = true → o.unit = 1) :
    (weaOps ip).foldl (fun o op => opObs op o) o = o := by
  cases ip
  · simp [weaOps]
  · have := hu rfl
    cases o
    simp only at this
    subst this
    simp [weaOps, opObs, siUnit, ipUnit, conv_roundtrip]

/-- Folding a restoring cycle over (some of) the members of a composite: a local step on the composite
    after which every member reports what it reported before. -/
theorem fold_cycle {h h' : Heap} {w : Nat} {x : Comp} {ops : List MOp} (ms : List Nat)
    (wf : WF h) (hk : h.cells w = some (.comp x)) (cty : CompTyped h x) (hms : ∀ mb ∈ ms, mb ∈ x.members)
    (hops : ∀ op ∈ ops, IsExportOp op)
    (hres : ∀ mb ∈ ms, ∀ o, obs h mb = some o → ops.foldl (fun o op => opObs op o) o = o)
    (e : foldMembers (fun h mb => mutSeq h mb ops) h ms = .ok h') :
    Local anyFP h h' w ∧ h.next ≤ h'.next ∧ h'.cells w = some (.comp x) ∧
    (∀ b ∈ x.members, obs h' b = obs h b) ∧ h'.cells x.md = h.cells x.md ∧
    (∀ r ∈ mdRefsAt h x.md, h'.cells r = h.cells r) ∧ (∀ s ∈ x.shared, h'.cells s = h.cells s) := by
  induction ms generalizing h with
  | nil =>
    have e' : h = h' := by simpa [foldMembers] using e
    subst e'
    have ty : TypedA h w := by simp only [TypedA, hk]; exact cty
    exact ⟨⟨wf, fun _ _ _ => rfl, ty, fun r hr => Or.inl hr, fun r hr => Or.inl hr⟩, Nat.le_refl _, hk,
      fun _ _ => rfl, rfl, fun _ _ => rfl, fun _ _ => rfl⟩
  | cons mb rest ih =>
    simp only [foldMembers] at e
    split at e
    · rename_i h1 e1
      have hmb := hms mb (by simp)
      obtain ⟨L1, nle1, k1, cty1, sib1, md1, n1, s1⟩ := mutSeq_step wf hk cty hmb e1
      obtain ⟨o, ho, ho1⟩ := mutSeq_obs wf (cty.2.2.1 mb hmb) hops e1
      rw [hres mb (by simp) o ho] at ho1
      have all1 : ∀ b ∈ x.members, obs h1 b = obs h b := by
        intro b hb
        by_cases eb : b = mb
        · subst eb; rw [ho1, ho]
        · exact sib1 b hb eb
      have mra : mdRefsAt h1 x.md = mdRefsAt h x.md := by simp [mdRefsAt, md1]
      obtain ⟨L2, nle2, k2, all2, md2, n2, s2⟩ := ih L1.wf k1 cty1
        (fun b hb => hms b (List.mem_cons_of_mem _ hb))
        (fun b hb o' ho' => hres b (List.mem_cons_of_mem _ hb) o' (by rw [← all1 b (hms b (List.mem_cons_of_mem _ hb))]; exact ho'))
        e
      refine ⟨L1.trans nle1 L2, Nat.le_trans nle1 nle2, k2, fun b hb => ?_, md2.trans md1,
        fun r hr => ?_, fun s hs => (s2 s hs).trans (s1 s hs)⟩
      · rw [all2 b hb, all1 b hb]
      · rw [n2 r (by rw [mra]; exact hr), n1 r hr]
    · cases e

/-- If every cell a composite's observation depends on outside its members is unchanged and every member
    reports the same snapshot, the composite reports the same. -/
theorem obsComp_eq {h h' : Heap} {x : Comp} (hm : ∀ b ∈ x.members, obs h' b = obs h b)
    (hmd : h'.cells x.md = h.cells x.md) (hn : ∀ r ∈ mdRefsAt h x.md, h'.cells r = h.cells r)
    (hs : ∀ s ∈ x.shared, h'.cells s = h.cells s) : obsComp h' x = obsComp h x := by
  simp only [obsComp, hmd]
  congr 1
  · cases hc : h.cells x.md with
    | none => rfl
    | some cell =>
      cases cell <;> try rfl
      rename_i m
      simp only
      apply obsMeta_congr
      intro r hr
      exact hn r (by simp [mdRefsAt, hc, hr])
  · apply List.map_congr_left
    intro s hs'
    simp only [getLoc, hs s hs']
  · apply List.map_congr_left
    intro b hb
    exact hm b hb

/-- Folding in-place steps over (some of) the members of a composite is a local step on the composite. -/
theorem fold_local {h h' : Heap} {w : Nat} {x : Comp} {ops : List MOp} (ms : List Nat)
    (wf : WF h) (hk : h.cells w = some (.comp x)) (cty : CompTyped h x) (hms : ∀ mb ∈ ms, mb ∈ x.members)
    (e : foldMembers (fun h mb => mutSeq h mb ops) h ms = .ok h') :
    Local anyFP h h' w ∧ h.next ≤ h'.next ∧ h'.cells w = some (.comp x) ∧ CompTyped h' x := by
  induction ms generalizing h with
  | nil =>
    have e' : h = h' := by simpa [foldMembers] using e
    subst e'
    have ty : TypedA h w := by simp only [TypedA, hk]; exact cty
    exact ⟨⟨wf, fun _ _ _ => rfl, ty, fun r hr => Or.inl hr, fun r hr => Or.inl hr⟩, Nat.le_refl _, hk, cty⟩
  | cons mb rest ih =>
    simp only [foldMembers] at e
    split at e
    · rename_i h1 e1
      obtain ⟨L1, nle1, k1, cty1, _⟩ := mutSeq_step wf hk cty (hms mb (by simp)) e1
      obtain ⟨L2, nle2, k2, cty2⟩ := ih L1.wf k1 cty1 (fun b hb => hms b (List.mem_cons_of_mem _ hb)) e
      exact ⟨L1.trans nle1 L2, Nat.le_trans nle1 nle2, k2, cty2⟩
    · cases e

/-- Rewriting the tags of a composite (the IP flag of an EPW) is a local step. -/
theorem compSetTags_local {h h' : Heap} {w : Nat} {tags : List Nat} (wf : WF h) (ty : TypedA h w)
    (e : compSetTags h w tags = .ok h') : Local anyFP h h' w := by
  unfold compSetTags at e
  split at e
  · rename_i x hx
    have hk := getComp_some hx
    have e' := (Except.ok.inj e).symm
    subst e'
    have cty : CompTyped h x := by simpa only [TypedA, hk] using ty
    obtain ⟨⟨m, hm, hn⟩, hsh, hmem, hsep, hmd⟩ := cty
    have keep : ∀ r, r ≠ w → (h.write w (.comp { x with tags := tags })).cells r = h.cells r :=
      fun r hr => write_other h _ hr
    have k_w := write_same h w (.comp { x with tags := tags })
    have n_md : x.md ≠ w := ne_of_kind hm hk (by simp)
    have memb : ∀ b ∈ x.members, obs (h.write w (.comp { x with tags := tags })) b = obs h b ∧
        reads (h.write w (.comp { x with tags := tags })) b = reads h b ∧
        owned (h.write w (.comp { x with tags := tags })) b = owned h b ∧
        Typed (h.write w (.comp { x with tags := tags })) b := by
      intro b hb
      refine obs_congr (hmem b hb) fun r hr => keep r ?_
      intro e'
      subst e'
      obtain ⟨k, hd, m', a, v, t, e1, e2, e3, e4, e5, _, e7⟩ := hmem b hb
      rcases (mem_reads e1 e2 e3).1 hr with h1 | h1 | h1 | h1 | h1 | h1
      · rw [h1, e1] at hk; cases hk
      · rw [h1, e2] at hk; cases hk
      · rw [h1, e3] at hk; cases hk
      · rw [h1, e4] at hk; cases hk
      · rw [h1, e5] at hk; cases hk
      · obtain ⟨l, hl⟩ := e7 _ h1; rw [hl] at hk; cases hk
    have mra : mdRefsAt h x.md = mdRefs m := by simp [mdRefsAt, hm]
    have k_md := (keep x.md n_md).trans hm
    have mra' : mdRefsAt (h.write w (.comp { x with tags := tags })) x.md = mdRefs m := by
      simp [mdRefsAt, k_md]
    have ro : compReads (h.write w (.comp { x with tags := tags })) w { x with tags := tags }
          = compReads h w x ∧
        compOwned (h.write w (.comp { x with tags := tags })) w { x with tags := tags }
          = compOwned h w x := by
      simp only [compReads, compOwned, mra, mra']
      rw [flatMap_congr' (fun mb hmb => (memb mb hmb).2.1), flatMap_congr' (fun mb hmb => (memb mb hmb).2.2.1)]
      exact ⟨rfl, rfl⟩
    have A : readsA h w = compReads h w x ∧ ownedA h w = compOwned h w x := by simp [readsA, ownedA, hk]
    refine ⟨write_wf wf _ (lt_next_of_some wf hk), ?_, ?_, ?_, ?_⟩
    · intro r _ ho
      apply keep
      intro e'
      apply ho
      change r ∈ ownedA h w
      rw [A.2, e']
      exact mem_compOwned.2 (Or.inl rfl)
    · show TypedA _ w
      simp only [TypedA, k_w]
      refine ⟨⟨m, k_md, fun r hr => ?_⟩, fun s hs => ?_, fun b hb => (memb b hb).2.2.2, ?_, fun b hb => ?_⟩
      · obtain ⟨l, hl⟩ := hn r hr
        exact ⟨l, by rw [keep r (ne_of_kind hl hk (by simp))]; exact hl⟩
      · obtain ⟨t, ht⟩ := hsh s hs
        exact ⟨t, by rw [keep s (ne_of_kind ht hk (by simp))]; exact ht⟩
      · intro a ha b hb nab r hr hr'
        change r ∈ owned _ a at hr
        change r ∈ reads _ b at hr'
        rw [(memb a ha).2.2.1] at hr
        rw [(memb b hb).2.1] at hr'
        exact hsep a ha b hb nab r hr hr'
      · simp only
        rw [(memb b hb).2.1, mra']
        have := hmd b hb
        rw [mra] at this
        exact this
    · intro r hr
      change r ∈ ownedA _ w at hr
      simp only [ownedA, k_w, ro.2] at hr
      left; change r ∈ ownedA h w; rw [A.2]; exact hr
    · intro r hr
      change r ∈ readsA _ w at hr
      simp only [readsA, k_w, ro.1] at hr
      left; change r ∈ readsA h w; rw [A.1]; exact hr
  · cases e

/-- `EPW.convert_to_ip()` / `convert_to_si()` is a local step on the EPW. -/
theorem epwConvert_local {h h' : Heap} {w : Nat} {toIp : Bool} (wf : WF h) (ty : TypedA h w)
    (e : epwConvert h w toIp = .ok h') : Local anyFP h h' w := by
  unfold epwConvert at e
  split at e
  · rename_i x hx
    have hk := getComp_some hx
    have cty : CompTyped h x := by simpa only [TypedA, hk] using ty
    split at e
    · have e' : h = h' := Except.ok.inj e
      subst e'
      exact ⟨wf, fun _ _ _ => rfl, ty, fun r hr => Or.inl hr, fun r hr => Or.inl hr⟩
    · split at e
      · rename_i h1 e1
        obtain ⟨L1, nle1, k1, cty1⟩ := fold_local x.members wf hk cty (fun _ hmb => hmb) e1
        have ty1 : TypedA h1 w := by simp only [TypedA, k1]; exact cty1
        exact L1.trans nle1 (compSetTags_local L1.wf ty1 e)
      · cases e
  · cases e

/-- **`EPW.to_file_string` / `to_wea` (f030132, 77cbf95).**  The export converts an IP object to SI,
    rotates the lists of the point-in-time fields, and undoes both in `finally` blocks: whether it
    succeeds or fails it is a local step on the EPW after which every field collection reports what it
    reported before (values, unit, …), hence the EPW does. -/
theorem export_restores {h h' : Heap} {w : Nat} {x : Comp} {ops : List MOp} (wf : WF h)
    (hk : h.cells w = some (.comp x)) (cty : CompTyped h x) (hops : ∀ op ∈ ops, IsExportOp op)
    (hres : ∀ mb ∈ x.members, ∀ o, obs h mb = some o → ops.foldl (fun o op => opObs op o) o = o)
    (e : foldMembers (fun h mb => mutSeq h mb ops) h x.members = .ok h') :
    Local anyFP h h' w ∧ obsA h' w = obsA h w := by
  obtain ⟨L, _, k', hm, hmd, hn, hs⟩ := fold_cycle x.members wf hk cty (fun _ hmb => hmb) hops hres e
  refine ⟨L, ?_⟩
  simp only [obsA, hk, k']
  rw [obsComp_eq hm hmd hn hs]

/-- `EPW.from_missing_values()` (two fields modelled) builds a fresh EPW. -/
theorem epwNew_fresh {h h' : Heap} {w : Nat} (wf : WF h) {ap dts : List Nat} {db dp : List Rat}
    (e : epwNew h ap dts db dp = .ok (h', w)) : Fresh anyFP h h' w := by
  unfold epwNew at e
  simp only at e
  split at e
  · cases e
  have cp1 := build_spec_copying h Cls.hc true true 0 0 ap [] dts db
  have f1 := mkColl_fresh wf cp1
  split at e
  · cases e
  rename_i ra hra
  obtain ⟨ra', a, hra', hcell⟩ := ap_of_typed f1.typed
  rw [hra] at hra'
  cases hra'
  have cp2 : NewSpec.Copying (mkColl h ⟨.new 0 0 (.new ap) (.new []), newVals true db, dts, true, Cls.hc, true⟩).1
      ⟨.new 0 0 (.share ra) (.new []), newVals true dp, dts, true, Cls.hc, true⟩ := by
    refine ⟨⟨_, _, _, _, rfl, fun r hr => ?_⟩, fun r hr => by simp [newVals] at hr, ?_⟩
    · simp only [ApSrc.share.injEq] at hr; subst hr; exact ⟨a, hcell⟩
    · intro v t hv hb
      simp only [newVals, ValSrc.new.injEq] at hv
      rw [← hv.2]; rfl
  have f2 := mkColl_fresh f1.wf cp2
  obtain ⟨inv, ext02, own, rd⟩ := two_fresh wf f1 f2
  have e' := Except.ok.inj e
  have fr := mkComp_fresh ext02 inv own rd 1 [0] [] [] (fun s hs => by cases hs)
  rw [e'] at fr
  exact fr

theorem epwSky_fresh {h h' : Heap} {w r : Nat} {ap dts : List Nat} {vals : List Rat} (wf : WF h)
    (e : epwSky h w ap dts vals = .ok (h', r)) : Fresh collFP h h' r := by
  unfold epwSky at e
  split at e
  · split at e
    · rename_i m hm
      have fr := mkColl_fresh wf (build_spec_copying h Cls.hc true true 0 0 ap (obsMeta h.cells m) dts vals)
      have e' := Except.ok.inj e
      rw [e'] at fr
      exact fr
    · cases e
  · cases e

end LbHeap
