/-
  Helper lemmas for C02, part 3 (no Mathlib): cyclic arithmetic progressions and the two slice
  shapes of the continuous period filter on them.  Everything here is symbolic in the step `T`,
  the year length `N = Y·T` and the steps per hour – no case split over timesteps.
-/
import Ladybug.Model.Filter

namespace Filter

/-- Step `j` of the progression that starts at minute `S`, advances by `T` and wraps at `N`. -/
def cyc (S T N j : Nat) : Nat := (S + j * T) % N

theorem cyc_mod (S T N Y j : Nat) (hN : N = Y * T) : cyc S T N j = cyc S T N (j % Y) := by
  unfold cyc
  have h := Nat.mod_add_div j Y
  have e : j * T = j % Y * T + j / Y * N := by
    calc j * T = (j % Y + Y * (j / Y)) * T := by rw [h]
      _ = j % Y * T + j / Y * N := by rw [Nat.add_mul, Nat.mul_comm Y (j / Y), Nat.mul_assoc, hN]
  rw [e, ← Nat.add_assoc, Nat.add_mul_mod_self_right]

theorem cyc_offset (S T N Y j : Nat) (hN : N = Y * T) (hS : S < N) (hj : j < Y) (hT : 0 < T) :
    (cyc S T N j + N - S) % N = j * T := by
  have hx : j * T < N := by rw [hN]; exact Nat.mul_lt_mul_of_pos_right hj hT
  unfold cyc
  generalize j * T = x at hx ⊢
  by_cases h : S + x < N
  · rw [Nat.mod_eq_of_lt h]
    have : S + x + N - S = x + N := by omega
    rw [this, Nat.add_mod_right, Nat.mod_eq_of_lt hx]
  · have e : (S + x) % N = S + x - N := by
      rw [Nat.mod_eq_sub_mod (show S + x ≥ N by omega), Nat.mod_eq_of_lt (by omega)]
    have : S + x - N + N - S = x := by omega
    rw [e, this, Nat.mod_eq_of_lt hx]

theorem cyc_inj (S T N Y j j' : Nat) (hN : N = Y * T) (hS : S < N) (hT : 0 < T) (hj : j < Y) (hj' : j' < Y)
    (h : cyc S T N j = cyc S T N j') : j = j' := by
  have h1 := cyc_offset S T N Y j hN hS hj hT
  have h2 := cyc_offset S T N Y j' hN hS hj' hT
  rw [h, h2] at h1
  exact (Nat.eq_of_mul_eq_mul_right hT h1).symm

theorem cyc_shift (S T N a k : Nat) : (cyc S T N a + k * T) % N = cyc S T N (a + k) := by
  unfold cyc
  rw [Nat.mod_add_mod, Nat.add_mul, Nat.add_assoc]

/-! ### Python slices with natural bounds -/

theorem slice_nat {β : Type} (l : List β) (a b : Nat) (hab : a ≤ b) (hb : b ≤ l.length) :
    Py.slice l (a : Int) (b : Int) = (l.drop a).take (b - a) := by
  unfold Py.slice Py.clampIdx
  rw [if_pos (Int.natCast_nonneg a), if_pos (Int.natCast_nonneg b)]
  simp only [Int.toNat_natCast]
  rw [Nat.min_eq_left (show a ≤ l.length by omega), Nat.min_eq_left hb]

theorem slice_zero {β : Type} (l : List β) (b : Nat) (hb : b ≤ l.length) :
    Py.slice l 0 (b : Int) = l.take b := by
  have := slice_nat l 0 b (Nat.zero_le _) hb
  simpa using this

/-- **The two slice shapes on a cyclic progression.**  A list `vals` holds the first
    `vals.length ≤ Y` steps of a cycle of `Y` positions.  A run of `L` positions starts at position
    `a`; every position of the run, taken modulo `Y`, is held by the list (`hin`); whole hours of `ts`
    steps are never split by the end of the cycle (`hsplit`).  Then the slice from `a` to the position
    of the run's last hour plus `ts` – `vals[a:e]` when `a < e`, else `vals[a:] + vals[:e]` – has `L`
    elements and its `k`-th element is the value at position `(a + k) mod Y`. -/
theorem sliceVals_cyc {β : Type} (vals : List β) (Y a L ts : Nat)
    (hnY : vals.length ≤ Y) (hLY : L ≤ Y) (hts0 : 0 < ts) (hts : ts ≤ L) (haY : a < Y)
    (hsplit : a + L ≤ Y ∨ Y + ts ≤ a + L)
    (hin : ∀ k, k < L → (a + k) % Y < vals.length) :
    (sliceVals vals (a : Int) (((a + L - ts) % Y + ts : Nat) : Int)).length = L ∧
    ∀ k, k < L → (sliceVals vals (a : Int) (((a + L - ts) % Y + ts : Nat) : Int))[k]? = vals[(a + k) % Y]? := by
  rcases hsplit with h | h
  · -- one slice
    have he : (a + L - ts) % Y + ts = a + L := by rw [Nat.mod_eq_of_lt (by omega)]; omega
    have hlast := hin (L - 1) (by omega)
    rw [Nat.mod_eq_of_lt (by omega)] at hlast
    rw [he]
    unfold sliceVals
    rw [if_pos (by omega), slice_nat vals a (a + L) (by omega) (by omega)]
    refine ⟨by rw [List.length_take, List.length_drop]; omega, ?_⟩
    intro k hk
    rw [List.getElem?_take, if_pos (by omega), List.getElem?_drop, Nat.mod_eq_of_lt (by omega)]
  · -- the run passes the end of the cycle: the list holds the whole cycle
    have he : (a + L - ts) % Y + ts = a + L - Y := by
      rw [Nat.mod_eq_sub_mod (by omega), Nat.mod_eq_of_lt (by omega)]; omega
    have hfull := hin (Y - 1 - a) (by omega)
    have hY1 : a + (Y - 1 - a) = Y - 1 := by omega
    rw [hY1, Nat.mod_eq_of_lt (by omega)] at hfull
    have hn : vals.length = Y := by omega
    rw [he]
    unfold sliceVals
    rw [if_neg (by omega), slice_nat vals a vals.length (by omega) (Nat.le_refl _),
      slice_zero vals (a + L - Y) (by omega), List.take_of_length_le (by rw [List.length_drop]; omega)]
    refine ⟨by rw [List.length_append, List.length_take, List.length_drop]; omega, ?_⟩
    intro k hk
    rw [List.getElem?_append, List.length_drop]
    by_cases hk1 : k < vals.length - a
    · rw [if_pos hk1, List.getElem?_drop, Nat.mod_eq_of_lt (by omega)]
    · rw [if_neg hk1, List.getElem?_take, if_pos (by omega), Nat.mod_eq_sub_mod (by omega),
        Nat.mod_eq_of_lt (by omega)]
      congr 1
      omega

end Filter
