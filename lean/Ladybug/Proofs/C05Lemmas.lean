/-
  Helper lemmas for Props/C05.lean: integer part (day counts, float-hour split), literal
  normalisation over ℝ, the ladybug_geometry rotations specialised to the Sun's use.
-/
import Ladybug.Proofs.C05Real
import Ladybug.Props.C08

open Real

namespace Sun


/-! ### Integer part -/

theorem round_intCast (m : Int) : Py.round (m : Rat) = m := by
  unfold Py.round
  simp [Rat.floor_intCast]

/-- Leap years (Gregorian rule) among the years 1 .. y-1. -/
def leapsBefore (y : Nat) : Nat := (y - 1) / 4 - (y - 1) / 100 + (y - 1) / 400

theorem isLeapYear_iff (y : Nat) :
    isLeapYear y = true ↔ (y % 4 = 0 ∧ (y % 100 ≠ 0 ∨ y % 400 = 0)) := by
  unfold isLeapYear
  simp only [Bool.and_eq_true, Bool.or_eq_true, beq_iff_eq, bne_iff_ne, ne_eq]

theorem leapsBefore_succ (y : Nat) (h : 1 ≤ y) :
    leapsBefore (y + 1) = leapsBefore y + (if isLeapYear y then 1 else 0) := by
  unfold leapsBefore
  by_cases hl : isLeapYear y = true
  · rw [if_pos hl]
    rw [isLeapYear_iff] at hl
    omega
  · rw [if_neg hl]
    rw [isLeapYear_iff] at hl
    omega

theorem sub1900 (k : Nat) : 1900 + k - 1900 = k := by omega

theorem daysInPrecedingYearsGeneral_succ (k : Nat) :
    daysInPrecedingYearsGeneral (1900 + (k + 1)) =
      daysInPrecedingYearsGeneral (1900 + k) + (if isLeapYear (1900 + k) then 366 else 365) := by
  unfold daysInPrecedingYearsGeneral
  rw [sub1900, sub1900, List.range'_1_concat, List.map_append, List.sum_append]
  simp

theorem daysInPrecedingYearsGeneral_closed (n : Nat) :
    daysInPrecedingYearsGeneral (1900 + n) + 460 = 365 * n + leapsBefore (1900 + n) := by
  induction n with
  | zero => simp [daysInPrecedingYearsGeneral, leapsBefore]
  | succ k ih =>
    have e := daysInPrecedingYearsGeneral_succ k
    have s := leapsBefore_succ (1900 + k) (Nat.le_add_right_of_le (by decide))
    have e2 : 1900 + (k + 1) = 1900 + k + 1 := rfl
    rw [e, e2, s]
    generalize daysInPrecedingYearsGeneral (1900 + k) = a at ih ⊢
    generalize leapsBefore (1900 + k) = b at ih ⊢
    by_cases hl : isLeapYear (1900 + k) = true
    · simp only [hl, if_true]; omega
    · simp only [hl]; simp; omega

/-! ### Literals over ℝ -/

theorem lit0 : (0.0 : ℝ) = 0 := by norm_num
theorem lit1 : (1.0 : ℝ) = 1 := by norm_num
theorem lit2 : (2.0 : ℝ) = 2 := by norm_num
theorem lit90 : (90.0 : ℝ) = 90 := by norm_num
theorem lit180 : (180.0 : ℝ) = 180 := by norm_num
theorem lit360 : (360.0 : ℝ) = 360 := by norm_num
theorem lit540 : (540.0 : ℝ) = 540 := by norm_num

/-! ### ladybug_geometry rotations as the Sun uses them -/

/-- Rotating the north vector (0, 1, 0) about the x axis by `a`: (0, cos a, sin a). -/
theorem rotate3_north (a : ℝ) :
    rotate3 (0.0 : ℝ) 1.0 0.0 1.0 0.0 0.0 a = (0, Real.cos a, Real.sin a) := by
  unfold rotate3
  simp only [t_pow, t_sqrt, t_cos, t_sin, lit0, lit1, lit2]
  have h0 : (0 : ℝ) ^ (2 : ℝ) = 0 := Real.zero_rpow (by norm_num)
  simp [h0]

theorem rotateXY_eq (x y a : ℝ) :
    rotateXY x y a = (Real.cos a * x - Real.sin a * y, Real.sin a * x + Real.cos a * y) := by
  unfold rotateXY; simp

/-- `rad` maps [-90, 90] degrees into [-π/2, π/2]. -/
theorem rad_mem (x : ℝ) (h1 : -90 ≤ x) (h2 : x ≤ 90) : -(π / 2) ≤ rad x ∧ rad x ≤ π / 2 := by
  rw [rad_eq]
  have hp := Real.pi_pos
  constructor
  · have : -(π / 2) = (-90) * (π / 180) := by ring
    rw [this]
    exact mul_le_mul_of_nonneg_right h1 (by positivity)
  · have : π / 2 = 90 * (π / 180) := by ring
    rw [this]
    exact mul_le_mul_of_nonneg_right h2 (by positivity)

theorem rad_pos_iff (x : ℝ) : 0 < rad x ↔ 0 < x := by
  rw [rad_eq]
  have hp : 0 < π / 180 := by positivity
  constructor
  · intro h; exact (mul_pos_iff_of_pos_right hp).mp h
  · intro h; exact mul_pos h hp

theorem rad_nonneg_iff (x : ℝ) : 0 ≤ rad x ↔ 0 ≤ x := by
  rw [rad_eq]
  have hp : 0 < π / 180 := by positivity
  constructor
  · intro h
    by_contra hx
    rw [not_le] at hx
    have := mul_neg_of_neg_of_pos hx hp
    linarith
  · intro h; exact mul_nonneg h hp.le

/-- On [-π/2, π/2]: sin x ≥ 0 ⇔ x ≥ 0 and sin x > 0 ⇔ x > 0. -/
theorem sin_nonneg_iff (x : ℝ) (h1 : -(π / 2) ≤ x) (h2 : x ≤ π / 2) : 0 ≤ Real.sin x ↔ 0 ≤ x := by
  have hp := Real.pi_pos
  constructor
  · intro h
    by_contra hx
    rw [not_le] at hx
    have := Real.sin_neg_of_neg_of_neg_pi_lt hx (by linarith)
    linarith
  · intro h; exact Real.sin_nonneg_of_nonneg_of_le_pi h (by linarith)

theorem sin_pos_iff (x : ℝ) (h1 : -(π / 2) ≤ x) (h2 : x ≤ π / 2) : 0 < Real.sin x ↔ 0 < x := by
  have hp := Real.pi_pos
  constructor
  · intro h
    by_contra hx
    rw [not_lt] at hx
    rcases hx.lt_or_eq with hx | hx
    · have := Real.sin_neg_of_neg_of_neg_pi_lt hx (by linarith)
      linarith
    · rw [hx, Real.sin_zero] at h; exact lt_irrefl _ h
  · intro h; exact Real.sin_pos_of_pos_of_lt_pi h (by linarith)

end Sun
