/-
  Lemmas for C19 about the time-table stage: `_extract_all_run_period` over a Time table that is a
  concatenation of environments.  No Mathlib.
-/
import Ladybug.Proofs.C19Lemmas

namespace Sql

/-- The run period of one environment from its first and last `Time` rows, with the timestep and the
    leap flag `_extract_all_run_period` is given. -/
def periodOfRows (monthly : Bool) (ts : Nat) (leap : Bool) (f l : TimeRow) : Except Err Period := do
  let st ← mkStart monthly leap f
  closePeriod st l ts leap

/-- One run period per block of `Time` rows (first and last row of the block). -/
def blockPeriods (monthly : Bool) (ts : Nat) (leap : Bool) : List (List TimeRow) → Except Err (List Period)
  | [] => .ok []
  | b :: bs =>
    match b.head?, b.getLast? with
    | some f, some l => do
      let p ← periodOfRows monthly ts leap f l
      let ps ← blockPeriods monthly ts leap bs
      pure (p :: ps)
    | _, _ => .error .index

/-- The `Time` table is a concatenation of environments: every block is non-empty, carries one
    environment index, and differs in that index from the block before it (`env` = index of the
    previous block, if any). -/
def blockedFrom : Option Nat → List (List TimeRow) → Prop
  | _, [] => True
  | env, b :: bs => ∃ f b', b = f :: b' ∧ (∀ r ∈ b', r.env = f.env) ∧ (∀ e, env = some e → f.env ≠ e) ∧
      blockedFrom (some f.env) bs

theorem allGo_same_env (monthly : Bool) (ts : Nat) (leap : Bool) (st : Nat × Nat) (env : Nat)
    (b rest : List TimeRow) (prev : TimeRow) (h : ∀ r ∈ b, r.env = env) :
    allGo monthly ts leap st env prev (b ++ rest) =
      allGo monthly ts leap st env (b.getLast?.getD prev) rest := by
  induction b generalizing prev with
  | nil => simp
  | cons r b ih =>
    have hr : r.env = env := h r (by simp)
    have : (r.env != env) = false := by simp [hr]
    simp only [List.cons_append, allGo, this]
    rw [ih r (fun r' hr' => h r' (by simp [hr']))]
    simp [List.getLast?_cons]

theorem allGo_blocks (monthly : Bool) (ts : Nat) (leap : Bool) (st : Nat × Nat) (env : Nat)
    (prev : TimeRow) (bs : List (List TimeRow)) (h : blockedFrom (some env) bs) :
    allGo monthly ts leap st env prev bs.flatten =
      (do let p ← closePeriod st prev ts leap
          let ps ← blockPeriods monthly ts leap bs
          pure (p :: ps)) := by
  induction bs generalizing st env prev with
  | nil =>
    simp only [List.flatten_nil, allGo, blockPeriods]
    cases closePeriod st prev ts leap <;> rfl
  | cons b bs ih =>
    obtain ⟨f, b', rfl, hsame, hne, hrest⟩ := h
    have hfe : (f.env != env) = true := by simpa using hne env rfl
    simp only [List.flatten_cons, List.cons_append, allGo, hfe, if_true]
    have hG := fun st' => allGo_same_env monthly ts leap st' f.env b' bs.flatten f hsame
    have hI := fun st' => ih st' f.env (b'.getLast?.getD f) hrest
    have hl : (f :: b').getLast? = some (b'.getLast?.getD f) := by simp [List.getLast?_cons]
    simp only [hG, hI, blockPeriods, List.head?_cons, hl, periodOfRows]
    cases closePeriod st prev ts leap with
    | error e => rfl
    | ok p =>
      cases mkStart monthly leap f with
      | error e => rfl
      | ok st' =>
        simp only [bind, Except.bind]

/-- `_extract_all_run_period` over a `Time` table that is a concatenation of environments gives one
    run period per environment, built from the environment's first and last rows. -/
theorem allRunPeriods_blocks (monthly : Bool) (ts : Nat) (leap : Bool) (blocks : List (List TimeRow))
    (hne : blocks ≠ []) (hts : ts ≠ 0) (h : blockedFrom none blocks) :
    allRunPeriods blocks.flatten monthly ts leap = blockPeriods monthly ts leap blocks := by
  cases blocks with
  | nil => exact absurd rfl hne
  | cons b bs =>
    obtain ⟨f, b', rfl, hsame, _, hrest⟩ := h
    have hl : (f :: b').getLast? = some (b'.getLast?.getD f) := by simp [List.getLast?_cons]
    simp only [List.flatten_cons, List.cons_append, allRunPeriods, hts, if_false, blockPeriods,
      List.head?_cons, hl, periodOfRows]
    cases hms : mkStart monthly leap f with
    | error e => simp [bind, Except.bind]
    | ok st =>
      simp only [bind, Except.bind]
      rw [allGo_same_env monthly ts leap st f.env b' bs.flatten f hsame,
        allGo_blocks monthly ts leap st f.env _ bs hrest]
      cases closePeriod st (b'.getLast?.getD f) ts leap with
      | error e => rfl
      | ok p =>
        simp only [bind, Except.bind]
        try (cases blockPeriods monthly ts leap bs <;> rfl)

theorem dtMake_hour0 (m d : Nat) (leap : Bool) (x : Cal.DT) (h : dtMake m d 0 leap = .ok x) : x.hour = 0 := by
  unfold dtMake Cal.DT.make Cal.normHM at h
  simp only [Nat.zero_div, Nat.add_zero, Nat.zero_mod] at h
  split at h
  · rename_i d' hd
    split at hd
    · simp only [Except.ok.injEq] at hd h
      subst hd
      subst h
      rfl
    · simp at hd
  · simp at h

/-- `_extract_run_period` on the first and last rows of one environment is the run period
    `_extract_all_run_period` builds for that environment, when timestep and leap flag agree. -/
theorem extractRunPeriodRows_eq (f l : TimeRow) (freq : Freq) (ts mps : Nat)
    (hf : freqOf f = .ok (freq, ts, mps)) (hfr : freq ≠ .annual)
    (hend : endHourOf mps = endHourOf (60 / ts)) :
    extractRunPeriodRows (some f) (some l) =
      (periodOfRows (freq == .monthly) ts (leapOfYear l.year) f l).map
        fun p => (some p, freq, f.env != l.env) := by
  have hb : (freq == Freq.monthly) = decide (freq = Freq.monthly) := by
    cases freq <;> rfl
  simp only [extractRunPeriodRows, hf, bind, Except.bind, hfr, if_false, periodOfRows, mkStart, closePeriod,
    pure, Except.pure, hend, hb, decide_eq_true_eq]
  cases h1 : dtMake f.month (if freq = Freq.monthly then 1 else f.day) 0 (leapOfYear l.year) with
  | error e => rfl
  | ok st =>
    have h0 := dtMake_hour0 _ _ _ st h1
    simp only [Except.map]
    cases h2 : dtMake l.month l.day 0 (leapOfYear l.year) with
    | error e => rfl
    | ok en =>
      simp only [h0]
      try (cases mkPeriod st.month st.day 0 en.month en.day (endHourOf (60 / ts)) ts (leapOfYear l.year) <;> rfl)

end Sql
