/-
  Helper lemmas for C01 (rotation, flagged columns, transposition).  Core Lean only.
-/
import Ladybug.Model.Epw

namespace Epw

variable {α : Type}

theorem unrot_rot (l : List α) : unrot (rot l) = l := by
  unfold rot
  cases h : l.getLast? with
  | none => simp [List.getLast?_eq_none_iff] at h; simp [h, unrot]
  | some x =>
    simp only [unrot]
    grind [List.dropLast_concat_getLast, List.getLast?_eq_some_iff]

theorem rot_unrot (l : List α) : rot (unrot l) = l := by
  cases l with
  | nil => simp [unrot, rot]
  | cons x t => simp [unrot, rot, List.getLast?_append, List.dropLast_append_of_ne_nil]

theorem rot_length (l : List α) : (rot l).length = l.length := by
  unfold rot
  cases h : l.getLast? with
  | none => simp [List.getLast?_eq_none_iff] at h; simp [h]
  | some x =>
    have : l ≠ [] := by intro hl; simp [hl] at h
    simp [List.length_dropLast]; have := List.length_pos_iff.mpr this; omega

theorem unrot_length (l : List α) : (unrot l).length = l.length := by
  cases l <;> simp [unrot]

theorem onFlagged_length (flag : Nat → Bool) (f : List α → List α) (cols : List (List α)) :
    (onFlagged flag f cols).length = cols.length := by simp [onFlagged]

theorem onFlagged_comp (flag : Nat → Bool) (f g : List α → List α) (h : ∀ l, f (g l) = l)
    (cols : List (List α)) : onFlagged flag f (onFlagged flag g cols) = cols := by
  apply List.ext_getElem
  · simp [onFlagged]
  · intro i h1 h2
    simp only [onFlagged, List.getElem_mapIdx]
    cases flag i <;> simp [h]

theorem onFlagged_getElem (flag : Nat → Bool) (f : List α → List α) (cols : List (List α)) (k : Nat)
    (h : k < cols.length) :
    (onFlagged flag f cols)[k]'(by simp [onFlagged, h]) = if flag k then f cols[k] else cols[k] := by
  simp [onFlagged]

/-- Where the rotation puts things: the element at position `i` moves to `(i + 1) % n`. -/
theorem rot_getElem? (l : List α) (i : Nat) (h : i < l.length) :
    (rot l)[(i + 1) % l.length]? = l[i]? := by
  unfold rot
  cases hl : l.getLast? with
  | none => simp [List.getLast?_eq_none_iff] at hl; simp [hl] at h
  | some x =>
    obtain ⟨ys, rfl⟩ : ∃ ys, l = ys ++ [x] := by
      rw [List.getLast?_eq_some_iff] at hl; exact hl
    simp only [List.dropLast_concat, List.length_append, List.length_singleton] at *
    by_cases hi : i + 1 = ys.length + 1
    · have : i = ys.length := by omega
      subst this
      simp
    · have h3 : i < ys.length := by omega
      have : (i + 1) % (ys.length + 1) = i + 1 := Nat.mod_eq_of_lt (by omega)
      rw [this]
      simp [List.getElem?_append_left h3]

/-! ### transposition -/

theorem transp_eq_range (n : Nat) (t : List (List α)) :
    transp n t = (List.range n).map fun i => t.filterMap (·[i]?) := by
  induction n generalizing t with
  | zero => simp [transp]
  | succ n ih =>
    rw [transp, ih, List.range_succ_eq_map]
    simp only [List.map_cons, List.map_map]
    congr 1
    · congr 1; funext r; cases r <;> simp
    · apply List.map_congr_left
      intro i _
      simp only [Function.comp, List.filterMap_map]
      congr 1; funext r; cases r <;> simp

theorem filterMap_get_rect (t : List (List α)) (k : Nat) (h : ∀ row ∈ t, k < row.length) (r : Nat) :
    (t.filterMap (·[k]?))[r]? = t[r]?.bind (·[k]?) := by
  induction t generalizing r with
  | nil => simp
  | cons row rest ih =>
    have hk : k < row.length := h row (by simp)
    have hrow : row[k]? = some row[k] := List.getElem?_eq_getElem hk
    simp only [List.filterMap_cons, hrow]
    cases r with
    | zero => simp [hrow]
    | succ r => simpa using ih (fun x hx => h x (by simp [hx])) r

theorem filterMap_range_getElem? (l : List α) : (List.range l.length).filterMap (l[·]?) = l := by
  induction l with
  | nil => simp
  | cons x l ih =>
    rw [List.length_cons, List.range_succ_eq_map]
    simp only [List.filterMap_cons, List.getElem?_cons_zero, List.filterMap_map]
    have : ((fun i => (x :: l)[i]?) ∘ Nat.succ) = fun i => l[i]? := by funext i; simp
    rw [this, ih]

theorem filterMap_congr' {β : Type} {f g : α → Option β} : ∀ (l : List α), (∀ x ∈ l, f x = g x) →
    l.filterMap f = l.filterMap g
  | [], _ => rfl
  | a :: l, h => by
    have ha := h a (by simp)
    have := filterMap_congr' l (fun x hx => h x (by simp [hx]))
    simp [List.filterMap_cons, ha, this]

theorem filterMap_get_length (t : List (List α)) (k : Nat) (h : ∀ row ∈ t, k < row.length) :
    (t.filterMap (·[k]?)).length = t.length := by
  induction t with
  | nil => simp
  | cons row rest ih =>
    have hk : k < row.length := h row (by simp)
    have hrow : row[k]? = some row[k] := List.getElem?_eq_getElem hk
    simp [List.filterMap_cons, hrow, ih (fun x hx => h x (by simp [hx]))]

theorem transp_transp (t : List (List α)) (N nf : Nat) (hN : t.length = N) (hrect : ∀ row ∈ t, row.length = nf) :
    transp N (transp nf t) = t := by
  rw [transp_eq_range N, transp_eq_range nf]
  apply List.ext_getElem?
  intro r
  rw [List.getElem?_map]
  by_cases hr : r < N
  · have hr' : r < t.length := by omega
    rw [List.getElem?_range hr, List.getElem?_eq_getElem hr']
    simp only [Option.map_some, List.filterMap_map, Function.comp]
    congr 1
    have hlen : t[r].length = nf := hrect _ (List.getElem_mem hr')
    rw [← filterMap_range_getElem? t[r], hlen]
    apply filterMap_congr'
    intro k hk
    rw [List.mem_range] at hk
    show (t.filterMap (·[k]?))[r]? = t[r][k]?
    rw [filterMap_get_rect t k (fun row hrow => by rw [hrect row hrow]; exact hk) r,
      List.getElem?_eq_getElem hr']
    simp
  · have : t.length ≤ r := by omega
    simp [List.getElem?_eq_none, this, hN, Nat.le_of_not_lt hr]

theorem transp_length (n : Nat) (t : List (List α)) : (transp n t).length = n := by
  rw [transp_eq_range]; simp

theorem transp_col_length (t : List (List α)) (nf : Nat) (hrect : ∀ row ∈ t, row.length = nf) :
    ∀ col ∈ transp nf t, col.length = t.length := by
  intro col hcol
  rw [transp_eq_range, List.mem_map] at hcol
  obtain ⟨k, hk, rfl⟩ := hcol
  rw [List.mem_range] at hk
  exact filterMap_get_length t k (fun row hrow => by rw [hrect row hrow]; exact hk)

/-! ### mapE -/

variable {β γ ε : Type}

theorem mapE_length {f : α → Except ε β} : ∀ {l : List α} {l' : List β}, mapE f l = .ok l' → l'.length = l.length
  | [], l', h => by unfold mapE at h; cases h; simp
  | a :: l, l', h => by
    simp only [mapE] at h
    split at h
    · cases h
    · split at h
      · cases h
      · rename_i bs hbs
        cases h
        simp [mapE_length hbs]

theorem mapE_all {f : α → Except ε β} {P : β → Prop} (hf : ∀ a b, f a = .ok b → P b) :
    ∀ {l : List α} {l' : List β}, mapE f l = .ok l' → ∀ b ∈ l', P b
  | [], l', h => by unfold mapE at h; cases h; simp
  | a :: l, l', h => by
    simp only [mapE] at h
    split at h
    · cases h
    · rename_i b hb
      split at h
      · cases h
      · rename_i bs hbs
        cases h
        intro x hx
        rcases List.mem_cons.mp hx with rfl | hx
        · exact hf a _ hb
        · exact mapE_all hf hbs x hx

theorem mapE_map_eq {f : α → Except ε β} {g : α → γ} {h : β → γ} (hfg : ∀ a b, f a = .ok b → g a = h b) :
    ∀ {l : List α} {l' : List β}, mapE f l = .ok l' → l.map g = l'.map h
  | [], l', e => by unfold mapE at e; cases e; simp
  | a :: l, l', e => by
    simp only [mapE] at e
    split at e
    · cases e
    · rename_i b hb
      split at e
      · cases e
      · rename_i bs hbs
        cases e
        simp [hfg a b hb, mapE_map_eq hfg hbs]

end Epw
