/-
  Helper lemmas for C02, part 5 (no Mathlib): the object state machine of Model/FilterObj.lean.
  The hidden slot `_datetimes` of a continuous collection never shows in what a filter answers.
-/
import Ladybug.Model.FilterObj
import Ladybug.Proofs.C02Index

open Cal

namespace Filter

/-- Under the coherence invariant `.datetimes` of a continuous object are the steps of its header period. -/
theorem datetimes_of_inv_cont (o : Obj) (h : o.Inv) (hk : o.kind = .cont) : o.datetimes = o.ap.moys := by
  unfold Obj.Inv at h
  rw [hk] at h
  unfold Obj.datetimes
  rcases h with h | h <;> rw [h]

/-- A fresh object built from the public state shows the same to every filter. -/
theorem view_fresh (o : Obj) (h : o.Inv) : o.fresh.view = o.view := by
  unfold Obj.fresh
  cases hk : o.kind with
  | cont =>
    have hd := datetimes_of_inv_cont o h hk
    simp only [Obj.view, Obj.datetimes] at hd ⊢
    rw [hd, hk]
  | disc => simp only [Obj.view, Obj.datetimes, hk]
  | daily => simp only [Obj.view, Obj.datetimes, hk]
  | monthly => simp only [Obj.view, Obj.datetimes, hk]

theorem mutable_fresh (o : Obj) : o.fresh.mutable = o.mutable := by
  unfold Obj.fresh; cases o.kind <;> rfl

theorem inv_fresh (o : Obj) : o.fresh.Inv := by
  unfold Obj.fresh Obj.Inv
  cases o.kind <;> simp

/-- Reading `.datetimes` does not change what a filter sees. -/
theorem view_touch (o : Obj) : o.touch.view = o.view := by
  simp only [Obj.touch, Obj.view, Obj.datetimes]

theorem inv_touch (o : Obj) (h : o.Inv) : o.touch.Inv := by
  cases hk : o.kind with
  | cont =>
    have hd := datetimes_of_inv_cont o h hk
    unfold Obj.Inv Obj.touch
    simp only [hk]
    right; rw [hd]
  | disc => unfold Obj.Inv Obj.touch; simp [hk]
  | daily => unfold Obj.Inv Obj.touch; simp [hk]
  | monthly => unfold Obj.Inv Obj.touch; simp [hk]

/-- The object after a read: same view, same mutability, still coherent. -/
theorem observe_obj (hoyOf : Nat → Rat) (o : Obj) (r : Read) :
    (o.observe hoyOf r).2.view = o.view ∧ (o.observe hoyOf r).2.mutable = o.mutable ∧
    (o.Inv → (o.observe hoyOf r).2.Inv) := by
  unfold Obj.observe
  simp only []
  split
  · exact ⟨view_touch o, rfl, inv_touch o⟩
  · exact ⟨rfl, rfl, id⟩

/-- The side condition of a history: an in-place cull of a continuous object keeps date-times and
    header period in step (`cullCoherent`; true when the new timestep divides the old one). -/
def Op.coherentAt (o : Obj) : Op → Prop
  | .cull ts => o.kind = .cont → cullCoherent o ts
  | _ => True

/-- Every operation keeps the slot coherent with the public state. -/
theorem step_inv (hoyOf : Nat → Rat) (o : Obj) (op : Op) (h : o.Inv) (hc : op.coherentAt o) :
    (step hoyOf o op).1.Inv := by
  cases op with
  | read r => simp only [step]; exact (observe_obj hoyOf o r).2.2 h
  | chain r =>
    simp only [step]
    split
    · rename_i k ap v ps _
      cases k <;> simp [Obj.ofOut, Obj.Inv]
    · simp [Obj.ofOut, Obj.Inv]
    · exact (observe_obj hoyOf o r).2.2 h
  | setValues vs =>
    simp only [step]
    split
    · exact h
    · split <;> split <;> exact h
  | setBad k =>
    simp only [step]
    split
    · exact h
    · split <;> exact h
  | setItem i v =>
    simp only [step]
    split
    · exact h
    · split <;> exact h
  | cull ts =>
    simp only [step]
    split
    · exact h
    · exact h
    · rename_i hd hm
      split
      · exact h
      · split
        · exact h
        · cases hk : o.kind with
          | daily => exact absurd hk hd
          | monthly => exact absurd hk hm
          | disc => simp [Obj.Inv]
          | cont =>
            have hco : cullCoherent o ts := hc hk
            unfold cullCoherent at hco
            simp only [Obj.Inv]
            right; rw [hco]
  | dup => simp only [step, Obj.copy]; cases o.kind <;> simp [Obj.Inv]
  | toImmutable => simp only [step, Obj.copy]; cases o.kind <;> simp [Obj.Inv]
  | toMutable => simp only [step, Obj.copy]; cases o.kind <;> simp [Obj.Inv]
  | toDisc =>
    simp only [step]
    split
    · simp [Obj.Inv]
    · exact h

/-- A refused operation (the caller sees an exception) returns an object with the same public state. -/
theorem step_refused (hoyOf : Nat → Rat) (o : Obj) (op : Op) (e : OErr)
    (herr : (step hoyOf o op).2 = .err e) :
    (step hoyOf o op).1.view = o.view ∧ (step hoyOf o op).1.mutable = o.mutable := by
  cases op with
  | read r => simp only [step]; exact ⟨(observe_obj hoyOf o r).1, (observe_obj hoyOf o r).2.1⟩
  | chain r =>
    simp only [step] at herr ⊢
    split at herr
    · cases herr
    · cases herr
    · exact ⟨(observe_obj hoyOf o r).1, (observe_obj hoyOf o r).2.1⟩
  | setValues vs =>
    simp only [step] at herr ⊢
    by_cases hm : o.mutable = false
    · rw [if_pos hm]; exact ⟨rfl, rfl⟩
    · rw [if_neg hm] at herr ⊢
      cases hk : o.kind <;> simp only [hk] at herr ⊢ <;> split at herr <;>
        first
        | (simp at herr; done)
        | (rename_i hl; rw [if_neg hl]; exact ⟨rfl, rfl⟩)
  | setBad k =>
    simp only [step]
    split
    · exact ⟨rfl, rfl⟩
    · split <;> exact ⟨rfl, rfl⟩
  | setItem i v =>
    simp only [step] at herr ⊢
    split
    · exact ⟨rfl, rfl⟩
    · rename_i hm
      rw [if_neg hm] at herr
      split
      · rename_i l hl; rw [hl] at herr; cases herr
      · exact ⟨rfl, rfl⟩
  | cull ts =>
    simp only [step] at herr ⊢
    split
    · exact ⟨rfl, rfl⟩
    · exact ⟨rfl, rfl⟩
    · split
      · exact ⟨rfl, rfl⟩
      · rename_i hm
        split
        · exact ⟨rfl, rfl⟩
        · rename_i ht
          split at herr
          · rename_i hk; exact absurd hk (by assumption)
          · rename_i hk; exact absurd hk (by assumption)
          · rw [if_neg hm, if_neg ht] at herr; cases herr
  | dup => simp only [step] at herr; cases herr
  | toImmutable => simp only [step] at herr; cases herr
  | toMutable => simp only [step] at herr; cases herr
  | toDisc =>
    simp only [step] at herr ⊢
    split
    · rename_i hk; rw [hk] at herr; cases herr
    · exact ⟨rfl, rfl⟩

/-- The side condition along a whole history. -/
def Coherent (hoyOf : Nat → Rat) : Obj → List Op → Prop
  | _, [] => True
  | o, op :: ops => op.coherentAt o ∧ Coherent hoyOf (step hoyOf o op).1 ops

theorem run_inv (hoyOf : Nat → Rat) : ∀ (ops : List Op) (o : Obj), o.Inv → Coherent hoyOf o ops →
    (run hoyOf o ops).1.Inv
  | [], o, h, _ => h
  | op :: ops, o, h, hc => by
    simp only [run]
    exact run_inv hoyOf ops _ (step_inv hoyOf o op h hc.1) hc.2

/-- On a coherent continuous object the object-level minute filter is the pure `Cont.filterByMoys`. -/
theorem contMoys_eq (o : Obj) (h : o.Inv) (hk : o.kind = .cont) (req : List Int) :
    o.view.contMoys req = Cont.filterByMoys req ⟨o.ap, o.vals⟩ := by
  unfold View.contMoys Cont.filterByMoys
  simp only [Obj.view, datetimes_of_inv_cont o h hk]

/-- … and the object-level period filter is the pure `Cont.filterByAP`. -/
theorem contPeriod_eq (o : Obj) (h : o.Inv) (hk : o.kind = .cont) (f : AP) :
    o.view.contPeriod f = Cont.filterByAP f ⟨o.ap, o.vals⟩ := by
  unfold View.contPeriod Cont.filterByAP
  have := contMoys_eq o h hk
  simp only [Obj.view] at this ⊢
  simp only [this]

/-! ### The strict machine (`stepS`, `runS`) -/

theorem stepS_false (hoyOf : Nat → Rat) (o : Obj) (op : Op) : stepS false hoyOf o op = step hoyOf o op := by
  unfold stepS
  have : strictRefuses false o op = false := by
    cases op <;> simp [strictRefuses]
    cases o.kind <;> rfl
  rw [this]
  rfl

theorem stepS_cases (strict : Bool) (hoyOf : Nat → Rat) (o : Obj) (op : Op) :
    (strictRefuses strict o op = true ∧ stepS strict hoyOf o op = (o, .err .assert)) ∨
    (strictRefuses strict o op = false ∧ stepS strict hoyOf o op = step hoyOf o op) := by
  unfold stepS
  cases h : strictRefuses strict o op
  · exact Or.inr ⟨rfl, by simp⟩
  · exact Or.inl ⟨rfl, by simp⟩

/-- The side condition along a history of the strict machine: a cull that the strict class refuses needs none. -/
def CoherentS (strict : Bool) (hoyOf : Nat → Rat) : Obj → List Op → Prop
  | _, [] => True
  | o, op :: ops => (strictRefuses strict o op = true ∨ op.coherentAt o) ∧
      CoherentS strict hoyOf (stepS strict hoyOf o op).1 ops

theorem runS_inv (strict : Bool) (hoyOf : Nat → Rat) : ∀ (ops : List Op) (o : Obj), o.Inv →
    CoherentS strict hoyOf o ops → (runS strict hoyOf o ops).1.Inv
  | [], o, h, _ => h
  | op :: ops, o, h, hc => by
    simp only [runS]
    apply runS_inv strict hoyOf ops _ _ hc.2
    rcases stepS_cases strict hoyOf o op with ⟨_, e⟩ | ⟨hr, e⟩
    · rw [e]; exact h
    · rw [e]
      rcases hc.1 with h1 | h1
      · rw [hr] at h1; cases h1
      · exact step_inv hoyOf o op h h1

end Filter
