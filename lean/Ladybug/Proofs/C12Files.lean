/-
  Helper lemmas for C12, part 2: list plumbing of `to_file_string`, `from_file`, `to_dict`,
  `from_dict` (whole files / dictionaries).  Single Mathlib tactic modules only.
-/
import Ladybug.Proofs.C12Lemmas

open Cal

namespace Wea

/-! ### `mapM` in `Except` -/

/-- If `f` succeeds with `g x` on every element, `mapM f` is `map g`. -/
theorem mapM_eq_map {α β ε : Type} (f : α → Except ε β) (g : α → β) :
    ∀ (l : List α), (∀ x ∈ l, f x = .ok (g x)) → l.mapM f = .ok (l.map g)
  | [], _ => rfl
  | a :: l, h => by
    have ha := h a (by simp)
    have ih := mapM_eq_map f g l (fun x hx => h x (List.mem_cons_of_mem _ hx))
    rw [List.mapM_cons, ha, ih]
    rfl

/-! ### Arithmetic progressions by index -/

theorem prog_length (st S n : Nat) : (prog st S n).length = n := by simp [prog]

theorem prog_getElem? (st S n i : Nat) : (prog st S n)[i]? = if i < n then some (st + i * S) else none := by
  unfold prog
  rw [List.getElem?_map]
  split
  · rename_i h; rw [List.getElem?_range h]; rfl
  · rename_i h
    have : (List.range n)[i]? = none := by
      rw [List.getElem?_eq_none_iff]; simp; omega
    rw [this]; rfl

theorem div_mul_of_step (S x : Nat) (hx : x % 60 = 0)
    (hS : S = 60 ∨ S = 30 ∨ S = 20 ∨ S = 15 ∨ S = 12 ∨ S = 10 ∨ S = 6 ∨ S = 5 ∨ S = 4 ∨ S = 3 ∨ S = 2 ∨ S = 1) :
    x / S * S = x := by
  rcases hS with e | e | e | e | e | e | e | e | e | e | e | e <;> subst e <;> omega

/-- First and last step of a whole-day period (non-wrapping and wrapping): the start moment and
    the last grid point of hour 23 of the end day. -/
theorem moys_first_last (ap : AP) (hwf : ap.WF) (h0 : ap.st_hour = 0) (h23 : ap.end_hour = 23) :
    0 < ap.moys.length ∧ ap.moys[0]? = some ap.stMoy ∧
    ap.moys[ap.moys.length - 1]? = some (ap.endMoy + 60 - ap.step) := by
  have hS := AP.step_pos ap hwf.2.2
  have hSc := step_cases ap hwf
  have hS60 : ap.step ≤ 60 := by rcases hSc with e | e | e | e | e | e | e | e | e | e | e | e <;> omega
  cases hr : ap.isReversed with
  | false =>
    obtain ⟨f1, f2, f3, f4⟩ := wholeDay_facts ap hwf hr
    have hm := moys_wholeDay ap hwf h0 h23 hr
    have hn : (ap.endMoy + 60 - ap.stMoy) / ap.step * ap.step = ap.endMoy + 60 - ap.stMoy :=
      div_mul_of_step _ _ (by omega) hSc
    have hpos : 0 < (ap.endMoy + 60 - ap.stMoy) / ap.step := by
      apply Nat.pos_of_ne_zero; intro h; rw [h] at hn; omega
    rw [hm, prog_length]
    refine ⟨hpos, ?_, ?_⟩
    · rw [prog_getElem?]; simp [hpos]
    · rw [prog_getElem?]
      have : (ap.endMoy + 60 - ap.stMoy) / ap.step - 1 < (ap.endMoy + 60 - ap.stMoy) / ap.step := by omega
      simp only [this, if_true]
      congr 1
      have e : ((ap.endMoy + 60 - ap.stMoy) / ap.step - 1) * ap.step
          = (ap.endMoy + 60 - ap.stMoy) / ap.step * ap.step - ap.step := by
        rw [Nat.sub_mul, Nat.one_mul]
      rw [e, hn]
      have : ap.step ≤ ap.endMoy + 60 - ap.stMoy := by
        have := Nat.le_mul_of_pos_left ap.step hpos
        omega
      omega
  | true =>
    obtain ⟨f1, f2, f3, f4, f5⟩ := wrap_facts ap hwf hr
    have hm := moys_wholeDay_wrap ap hwf h0 h23 hr
    have hn1 : (minutesInYear ap.leap - ap.stMoy) / ap.step * ap.step = minutesInYear ap.leap - ap.stMoy :=
      div_mul_of_step _ _ (by omega) hSc
    have hn2 : (ap.endMoy + 60) / ap.step * ap.step = ap.endMoy + 60 := div_mul_of_step _ _ (by omega) hSc
    have hp1 : 0 < (minutesInYear ap.leap - ap.stMoy) / ap.step := by
      apply Nat.pos_of_ne_zero; intro h; rw [h] at hn1; omega
    have hp2 : 0 < (ap.endMoy + 60) / ap.step := by
      apply Nat.pos_of_ne_zero; intro h; rw [h] at hn2; omega
    rw [hm, List.length_append, prog_length, prog_length]
    refine ⟨by omega, ?_, ?_⟩
    · rw [List.getElem?_append, prog_length, prog_getElem?]; simp [hp1]
    · rw [List.getElem?_append, prog_length]
      have a1 : ¬ ((minutesInYear ap.leap - ap.stMoy) / ap.step + (ap.endMoy + 60) / ap.step - 1
          < (minutesInYear ap.leap - ap.stMoy) / ap.step) := by omega
      have a2 : (minutesInYear ap.leap - ap.stMoy) / ap.step + (ap.endMoy + 60) / ap.step - 1
          - (minutesInYear ap.leap - ap.stMoy) / ap.step = (ap.endMoy + 60) / ap.step - 1 := by omega
      have a3 : (ap.endMoy + 60) / ap.step - 1 < (ap.endMoy + 60) / ap.step := by omega
      simp only [a1, if_false, a2]
      rw [prog_getElem?]
      simp only [a3, if_true]
      congr 1
      have e : ((ap.endMoy + 60) / ap.step - 1) * ap.step = (ap.endMoy + 60) / ap.step * ap.step - ap.step := by
        rw [Nat.sub_mul, Nat.one_mul]
      rw [e, hn2]; omega

/-! ### `to_file_string` as a closed form -/

/-- Value of a successful `from_moy` (only used where it succeeds). -/
def dtGet (r : Except Cal.Err DT) : DT := match r with | .ok d => d | .error _ => default

def lineOf (p : Except Cal.Err DT × Rat × Rat) : Line := fmtLine (dtGet p.1) p.2.1 p.2.2

theorem toLines_eq (w : W Rat) (h : ∀ r ∈ w.datetimes, ∃ d, r = .ok d) :
    toLines w = .ok ((List.zip w.datetimes (List.zip w.dni w.dhi)).map lineOf) := by
  unfold toLines
  apply mapM_eq_map
  intro p hp
  obtain ⟨r, ab⟩ := p
  have hr := (List.of_mem_zip hp).1
  obtain ⟨d, hd⟩ := h r hr
  subst hd
  rfl

/-- The public datetime of every step of a well-formed period exists (`add_minute(30)` never
    leaves the year: hourly steps are whole hours). -/
theorem public_ok (ap : AP) (hwf : ap.WF) (onHour : Bool) (d : DT) (hd : d ∈ contDts ap) :
    ∃ d', fromMoy d.leap ((d.moy + shift ap.timestep onHour : Nat) : Int) = .ok d' ∧ d'.valid ∧
      d'.moy = d.moy + shift ap.timestep onHour ∧ d'.leap = ap.leap := by
  obtain ⟨hv, hl, hm⟩ := contDts_valid ap hwf d hd
  have hp := (AP.mem_moys ap hwf d.moy).mp hm
  obtain ⟨p1, p2, _, _⟩ := hp
  have hb : d.moy + shift ap.timestep onHour < minutesInYear d.leap := by
    rw [hl]
    unfold shift
    have hy : minutesInYear ap.leap = 1440 * daysInYear ap.leap := rfl
    split
    · rename_i h
      have : ap.step = 60 := by simp [AP.step, h.1]
      rw [this] at p2
      omega
    · omega
  obtain ⟨d', h1, h2, h3, _, _, _, h7⟩ := C08_fromMoy_moy d.leap _ hb
  exact ⟨d', h1, h2, h3, by rw [h7, hl]⟩

theorem zip3_getElem? {α β γ : Type} (D : List α) (a : List β) (b : List γ) (i : Nat) (x : α) (u : β) (v : γ)
    (h1 : D[i]? = some x) (h2 : a[i]? = some u) (h3 : b[i]? = some v) :
    (List.zip D (List.zip a b))[i]? = some (x, (u, v)) := by
  rw [List.getElem?_zip_eq_some]
  refine ⟨h1, ?_⟩
  rw [List.getElem?_zip_eq_some]
  exact ⟨h2, h3⟩

/-! ### Dictionary plumbing -/

theorem arrDT_toArray (d : DT) (hv : d.valid) : arrDT d.toArray = .ok d := by
  have := make_of_valid d hv
  unfold DT.toArray
  cases hl : d.leap <;> simp [arrDT, liftCal, hl] at this ⊢ <;> rw [this]

theorem mapM_arrDT (dts : List DT) (hv : ∀ d ∈ dts, d.valid) : (dts.map DT.toArray).mapM arrDT = .ok dts := by
  have := mapM_eq_map arrDT (fun a => match arrDT a with | .ok d => d | .error _ => default) (dts.map DT.toArray)
    (by
      intro a ha
      rw [List.mem_map] at ha
      obtain ⟨d, hd, rfl⟩ := ha
      rw [arrDT_toArray d (hv d hd)])
  rw [this]
  congr 1
  rw [List.map_map]
  conv => rhs; rw [← List.map_id dts]
  apply List.map_congr_left
  intro d hd
  simp [arrDT_toArray d (hv d hd)]

theorem dt_eq_of_moy (d d' : DT) (hv : d.valid) (hv' : d'.valid) (hl : d.leap = d'.leap) (hm : d.moy = d'.moy) :
    d = d' := by
  have h1 := C08_moy_fromMoy d hv
  have h2 := C08_moy_fromMoy d' hv'
  rw [hl, hm, h2] at h1
  cases h1; rfl

/-- A whole-day period with the six annual fields is *the* annual period. -/
theorem eq_annual_of_isAnnual (ap : AP) (h : ap.isAnnual = true) : ap = AP.annual ap.leap ap.timestep := by
  obtain ⟨a, b, c, d, e, f, g, l⟩ := ap
  simp [AP.isAnnual] at h
  obtain ⟨⟨⟨⟨⟨h1, h2⟩, h3⟩, h4⟩, h5⟩, h6⟩ := h
  simp [AP.annual, h1, h2, h3, h4, h5, h6]

/-- The period `from_file` / `from_dict` derive from the first and the last datetime. -/
def spanAP (first last : DT) (ts : Nat) (leap : Bool) : AP :=
  ⟨first.month, first.day, first.hour, last.month, last.day, last.hour, ts, leap⟩

theorem spanAP_mk (first last : DT) (hf : first.valid) (hl : last.valid) (ts : Nat)
    (hts : ts ∈ Gen.Ap.validTimesteps) (leap : Bool) (h1 : first.leap = leap) (h2 : last.leap = leap) :
    (spanAP first last ts leap).WF ∧
    AP.mk? first.month first.day first.hour last.month last.day last.hour ts leap = .ok (spanAP first last ts leap) := by
  have hwf : (spanAP first last ts leap).WF := by
    obtain ⟨a1, a2, a3, a4, a5, _⟩ := hf
    obtain ⟨b1, b2, b3, b4, b5, _⟩ := hl
    subst h1
    refine ⟨⟨a1, a2, a3, a4, a5, by simp [spanAP, AP.stTime]⟩, ⟨b1, b2, b3, ?_, b5, by simp [spanAP, AP.endTime]⟩, hts⟩
    simp only [spanAP, AP.endTime]; rw [← h2]; exact b4
  refine ⟨hwf, ?_⟩
  have := AP.C04_mk_accepts _ hwf
  unfold AP.duplicate at this
  exact this

/-- The header period the readers give discontinuous data: the span of first and last datetime
    when it has exactly `n` steps, else the annual period. -/
def rederivedAP (first last : DT) (ts : Nat) (leap : Bool) (n : Nat) : AP :=
  if (spanAP first last ts leap).len = n then spanAP first last ts leap else AP.annual leap ts

/-! ### Sorting of the sparse path -/

theorem sortRows_of_sorted {β : Type} : ∀ (l : List (DT × β)), l.Pairwise (fun a b => a.1.moy < b.1.moy) →
    sortRows l = l
  | [], _ => rfl
  | [x], _ => rfl
  | x :: y :: ys, h => by
    rw [List.pairwise_cons] at h
    have ih := sortRows_of_sorted (y :: ys) h.2
    have : sortRows (x :: y :: ys) = insertRow x (sortRows (y :: ys)) := rfl
    rw [this, ih]
    have hxy := h.1 y (by simp)
    simp [insertRow, hxy]

theorem hasDupMoy_of_sorted {β : Type} : ∀ (l : List (DT × β)), l.Pairwise (fun a b => a.1.moy < b.1.moy) →
    hasDupMoy l = false
  | [], _ => rfl
  | [x], _ => rfl
  | x :: y :: ys, h => by
    rw [List.pairwise_cons] at h
    have ih := hasDupMoy_of_sorted (y :: ys) h.2
    have hxy := h.1 y (by simp)
    simp only [hasDupMoy, ih, Bool.or_false]
    simp; omega

theorem validateRows_of_sorted {β : Type} (l : List (DT × β)) (h : l.Pairwise (fun a b => a.1.moy < b.1.moy)) :
    validateRows l = .ok l := by
  unfold validateRows
  simp [sortRows_of_sorted l h, hasDupMoy_of_sorted l h]

/-- `sortRows` only permutes (rows as a multiset are kept), whatever the order of the lines. -/
theorem insertRow_perm {β : Type} (r : DT × β) : ∀ (l : List (DT × β)), (insertRow r l).Perm (r :: l)
  | [] => List.Perm.refl _
  | x :: xs => by
    unfold insertRow
    split
    · exact List.Perm.refl _
    · exact ((List.perm_cons x).mpr (insertRow_perm r xs)).trans (List.Perm.swap r x xs)

theorem sortRows_perm {β : Type} : ∀ (l : List (DT × β)), (sortRows l).Perm l
  | [] => List.Perm.refl _
  | x :: xs => by
    have : sortRows (x :: xs) = insertRow x (sortRows xs) := rfl
    rw [this]
    exact (insertRow_perm x _).trans ((List.perm_cons x).mpr (sortRows_perm xs))

/-- Pairwise on the zip with anything, from pairwise on the first components. -/
theorem pairwise_zip_fst {β : Type} (R : DT → DT → Prop) : ∀ (l : List DT) (m : List β), l.Pairwise R →
    (List.zip l m).Pairwise (fun a b => R a.1 b.1)
  | [], _, _ => by simp
  | _ :: _, [], _ => by simp
  | x :: xs, y :: ys, h => by
    rw [List.pairwise_cons] at h
    rw [List.zip_cons_cons, List.pairwise_cons]
    refine ⟨?_, pairwise_zip_fst R xs ys h.2⟩
    intro p hp
    exact h.1 p.1 (List.of_mem_zip (show (p.1, p.2) ∈ List.zip xs ys from hp)).1


theorem insertRow_sorted {β : Type} (r : DT × β) : ∀ (l : List (DT × β)),
    l.Pairwise (fun a b => a.1.moy ≤ b.1.moy) → (insertRow r l).Pairwise (fun a b => a.1.moy ≤ b.1.moy)
  | [], _ => by simp [insertRow]
  | x :: xs, h => by
    rw [List.pairwise_cons] at h
    unfold insertRow
    split
    · rename_i hlt
      rw [List.pairwise_cons]
      refine ⟨?_, List.pairwise_cons.mpr h⟩
      intro z hz
      rw [List.mem_cons] at hz
      rcases hz with rfl | hz
      · omega
      · have := h.1 z hz; omega
    · rename_i hge
      rw [List.pairwise_cons]
      refine ⟨?_, insertRow_sorted r xs h.2⟩
      intro z hz
      have := (insertRow_perm r xs).mem_iff.mp hz
      rw [List.mem_cons] at this
      rcases this with rfl | hz'
      · omega
      · exact h.1 z hz'

theorem sortRows_sorted {β : Type} : ∀ (l : List (DT × β)), (sortRows l).Pairwise (fun a b => a.1.moy ≤ b.1.moy)
  | [] => by simp [sortRows]
  | x :: xs => by
    have : sortRows (x :: xs) = insertRow x (sortRows xs) := rfl
    rw [this]
    exact insertRow_sorted x _ (sortRows_sorted xs)

theorem strict_of_noDup {β : Type} : ∀ (l : List (DT × β)), l.Pairwise (fun a b => a.1.moy ≤ b.1.moy) →
    hasDupMoy l = false → l.Pairwise (fun a b => a.1.moy < b.1.moy)
  | [], _, _ => by simp
  | [x], _, _ => by simp
  | x :: y :: rest, h, hd => by
    rw [List.pairwise_cons] at h
    simp only [hasDupMoy, Bool.or_eq_false_iff, beq_eq_false_iff_ne, ne_eq] at hd
    have ih := strict_of_noDup (y :: rest) h.2 hd.2
    rw [List.pairwise_cons]
    refine ⟨?_, ih⟩
    intro z hz
    have hxy := h.1 y (by simp)
    rw [List.mem_cons] at hz
    rcases hz with rfl | hz
    · omega
    · have := (List.pairwise_cons.mp h.2).1 z hz; omega

/-- What the sparse path does with rows in any order: they come back as the same multiset of
    rows, in strictly increasing time order (a repeated datetime is the `AssertionError`). -/
theorem validateRows_spec {β : Type} (l s : List (DT × β)) (h : validateRows l = .ok s) :
    s.Perm l ∧ s.Pairwise (fun a b => a.1.moy < b.1.moy) := by
  unfold validateRows at h
  simp only at h
  split at h
  · cases h
  · rename_i hnd
    cases h
    exact ⟨sortRows_perm l, strict_of_noDup _ (sortRows_sorted l) (by simpa using hnd)⟩


end Wea
