/-
  Lemmas about the object state machine of `AnalysisPeriod` (Model/APObj.lean): the slot invariant,
  one step meets the specification `AP.observe`, histories.  Used by Props/C04.lean (round 3).
-/
import Ladybug.Model.APObj

open Cal

namespace AP

theorem fresh_inv (ap : AP) : (fresh ap).Inv := Or.inl ⟨rfl, rfl⟩

/-- After `fill` both slots hold the enumeration of the fields, whatever (invariant-respecting)
    state the object was in. -/
theorem fill_facts (o : Obj) (h : o.Inv) :
    o.fill.ap = o.ap ∧ o.fill.ts = some o.ap.moys ∧ o.fill.dts = some o.ap.datetimes := by
  obtain ⟨ap, ts, dts⟩ := o
  rcases h with ⟨h1, h2⟩ | ⟨h1, h2⟩
  · simp only at h1 h2; subst h1; subst h2; exact ⟨rfl, rfl, rfl⟩
  · simp only at h1 h2; subst h1; subst h2; exact ⟨rfl, rfl, rfl⟩

theorem fill_inv (o : Obj) (h : o.Inv) : o.fill.Inv := by
  obtain ⟨h1, h2, h3⟩ := fill_facts o h
  exact Or.inr ⟨by rw [h1]; exact h2, by rw [h1]; exact h3⟩

theorem fill_tsList (o : Obj) (h : o.Inv) : o.fill.tsList = o.ap.moys := by
  unfold Obj.tsList; rw [(fill_facts o h).2.1]; rfl

theorem fill_dtList (o : Obj) (h : o.Inv) : o.fill.dtList = o.ap.datetimes := by
  unfold Obj.dtList; rw [(fill_facts o h).2.2]; rfl

theorem len_eq (ap : AP) :
    ap.len = if ap.st_hour = 0 ∧ ap.end_hour = 23 then lenFast ap else ap.moys.length := rfl

/-- One operation on an object whose slots respect the invariant: the invariant is kept, the public
    fields are untouched, and the answer is the specification's. -/
theorem step_spec (o : Obj) (h : o.Inv) (op : Op) :
    (o.step op).1.Inv ∧ (o.step op).1.ap = o.ap ∧ (o.step op).2 = observe o.ap op := by
  have hf := fill_facts o h
  have hi := fill_inv o h
  have ht := fill_tsList o h
  have hd := fill_dtList o h
  cases op <;> simp only [Obj.step, observe]
  case moys => exact ⟨hi, hf.1, by rw [ht]⟩
  case hoys => exact ⟨hi, hf.1, by rw [ht]⟩
  case hoysInt => exact ⟨hi, hf.1, by rw [ht]; rfl⟩
  case datetimes => exact ⟨hi, hf.1, by rw [hd]⟩
  case len =>
    rw [len_eq]
    by_cases hc : o.ap.st_hour = 0 ∧ o.ap.end_hour = 23
    · rw [if_pos hc, if_pos hc]; exact ⟨h, rfl, rfl⟩
    · rw [if_neg hc, if_neg hc]; exact ⟨hi, hf.1, by rw [ht]⟩
  case included m => exact ⟨hi, hf.1, by rw [ht]; rfl⟩
  case includedBad => (refine ⟨?_, ?_, ?_⟩ <;> first | exact h | exact hi | exact hf.1 | rfl | trivial)
  all_goals (refine ⟨?_, ?_, ?_⟩ <;> first | exact h | rfl | trivial)

theorem run_spec (o : Obj) (h : o.Inv) (ops : List Op) : (o.run ops).Inv ∧ (o.run ops).ap = o.ap := by
  induction ops generalizing o with
  | nil => exact ⟨h, rfl⟩
  | cons op ops ih =>
    obtain ⟨h1, h2, _⟩ := step_spec o h op
    obtain ⟨h3, h4⟩ := ih _ h1
    exact ⟨h3, by rw [← h2]; exact h4⟩

theorem outs_spec (o : Obj) (h : o.Inv) (ops : List Op) : o.outs ops = ops.map (observe o.ap) := by
  induction ops generalizing o with
  | nil => rfl
  | cons op ops ih =>
    obtain ⟨h1, h2, h3⟩ := step_spec o h op
    simp only [Obj.outs, List.map_cons, h3, ih _ h1, h2]

/-! ### Several objects -/

/-- Every object of the world respects the slot invariant. -/
def World.Inv (w : World) : Prop := ∀ o ∈ w, o.Inv

theorem push_inv (w : World) (hw : World.Inv w) (r : Except Err AP) : World.Inv (World.push w r).1 := by
  unfold World.push
  cases r with
  | error e => exact hw
  | ok ap =>
    intro o ho
    rcases List.mem_append.1 ho with h | h
    · exact hw o h
    · rw [List.mem_singleton.1 h]; exact fresh_inv ap

theorem push_get (w : World) (r : Except Err AP) (j : Nat) (hj : j < w.length) :
    (World.push w r).1[j]? = w[j]? := by
  unfold World.push
  cases r with
  | error e => rfl
  | ok ap => exact List.getElem?_append_left hj

end AP
