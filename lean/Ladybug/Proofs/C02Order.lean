/-
  Helper lemmas for C02, part 5 (no Mathlib): the stable sort of the discontinuous period filter.
-/
import Ladybug.Proofs.C02Lemmas

open Cal

namespace Filter

theorem sortByPeriod_perm {α : Type} (f : AP) (ps : List (Nat × α)) : (sortByPeriod f ps).Perm ps := by
  unfold sortByPeriod
  have h := (List.mergeSort_perm (ps.map fun p => (f.moys.idxOf p.1, p))
    (fun x y => decide (x.1 ≤ y.1))).map Prod.snd
  rw [List.map_map] at h
  have e : (ps.map (Prod.snd ∘ fun p => (f.moys.idxOf p.1, p))) = ps := by
    rw [List.map_congr_left (g := id) (by intro p _; rfl), List.map_id]
  rw [e] at h
  exact h

/-- The result is ordered by the position of the minutes in the period's enumeration. -/
theorem sortByPeriod_sorted {α : Type} (f : AP) (ps : List (Nat × α)) :
    (sortByPeriod f ps).Pairwise (fun p q => f.moys.idxOf p.1 ≤ f.moys.idxOf q.1) := by
  unfold sortByPeriod
  rw [List.pairwise_map]
  have hs := List.pairwise_mergeSort (le := fun (x y : Nat × (Nat × α)) => decide (x.1 ≤ y.1))
    (by intro a b c h1 h2; simp at h1 h2 ⊢; omega)
    (by intro a b; simp; omega)
    (ps.map fun p => (f.moys.idxOf p.1, p))
  refine List.Pairwise.imp_of_mem ?_ hs
  intro x y hx hy hxy
  have hx' := (List.mergeSort_perm _ _).mem_iff.mp hx
  have hy' := (List.mergeSort_perm _ _).mem_iff.mp hy
  rw [List.mem_map] at hx' hy'
  obtain ⟨p, _, rfl⟩ := hx'
  obtain ⟨q, _, rfl⟩ := hy'
  simpa using hxy

/-- Positions in the enumeration of a period are its chronological order (`C04_moys_chrono`). -/
theorem chrono_of_idx (f : AP) (hf : f.WF) (a b : Nat) (ha : a ∈ f.moys) (hb : b ∈ f.moys)
    (h : f.moys.idxOf a ≤ f.moys.idxOf b) : f.chronoKey a ≤ f.chronoKey b := by
  have hi := List.idxOf_lt_length_of_mem ha
  have hj := List.idxOf_lt_length_of_mem hb
  have ea : f.moys[f.moys.idxOf a] = a := List.getElem_idxOf hi
  have eb : f.moys[f.moys.idxOf b] = b := List.getElem_idxOf hj
  rcases Nat.lt_or_ge (f.moys.idxOf a) (f.moys.idxOf b) with hlt | hge
  · have hc := AP.moys_chrono f hf
    rw [List.pairwise_iff_getElem] at hc
    have := hc _ _ (by rw [List.length_map]; exact hi) (by rw [List.length_map]; exact hj) hlt
    simp only [List.getElem_map, ea, eb] at this
    omega
  · have : f.moys.idxOf a = f.moys.idxOf b := by omega
    have e : a = b := by rw [← ea, ← eb]; simp only [this]
    rw [e]; exact Nat.le_refl _

/-- The discontinuous period filter, spelled out. -/
theorem disc_filterByAP_spec {α : Type} (f : AP) (c r : Disc α) (h : Disc.filterByAP f c = .ok r) :
    checkAP c.ap f = true ∧
    r = ⟨f, sortByPeriod f (c.pairs.filter fun p => decide (p.1 ∈ f.moys)), c.validated⟩ := by
  unfold Disc.filterByAP at h
  split at h
  · cases h
  · rename_i hchk
    have hchk' : checkAP c.ap f = true := by simpa using hchk
    unfold Disc.filterByMoys Keyed.mk? at h
    rw [slow_eq_filter] at h
    split at h
    · cases h
    · simp only [Except.map] at h
      injection h with h
      subst h
      refine ⟨hchk', ?_⟩
      have e : (c.pairs.filter fun p => decide ((p.1 : Int) ∈ f.moys.map Int.ofNat)) =
          c.pairs.filter fun p => decide (p.1 ∈ f.moys) := by
        congr 1; funext p
        apply decide_eq_decide.mpr
        rw [List.mem_map]
        constructor
        · rintro ⟨a, ha, e⟩
          have : a = p.1 := Int.ofNat.inj e
          rw [← this]; exact ha
        · intro h; exact ⟨p.1, h, rfl⟩
      rw [e]

/-- Membership in the result of the key search, without any `decide`. -/
theorem mem_keyFilter {κ α : Type} [DecidableEq κ] (req : List κ) (ps : List (κ × α)) (p : κ × α) :
    p ∈ keyFilter req ps ↔ p ∈ ps ∧ p.1 ∈ req := by
  induction ps with
  | nil => simp [keyFilter]
  | cons q qs ih =>
    unfold keyFilter
    by_cases h : q.1 ∈ req
    · rw [if_pos h, List.mem_cons, List.mem_cons, ih]
      constructor
      · rintro (rfl | ⟨h1, h2⟩)
        · exact ⟨Or.inl rfl, h⟩
        · exact ⟨Or.inr h1, h2⟩
      · rintro ⟨rfl | h1, h2⟩
        · exact Or.inl rfl
        · exact Or.inr ⟨h1, h2⟩
    · rw [if_neg h, List.mem_cons, ih]
      constructor
      · rintro ⟨h1, h2⟩; exact ⟨Or.inr h1, h2⟩
      · rintro ⟨rfl | h1, h2⟩
        · exact absurd h2 h
        · exact ⟨h1, h2⟩

end Filter
