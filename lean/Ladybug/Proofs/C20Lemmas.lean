/-
  Helper lemmas for C20 that need no Mathlib: list algebra for the row layout and the mesh index structure.
-/
import Ladybug.Model.Dome

namespace Dome

theorem sum_replicate_nat (k x : Nat) : (List.replicate k x).sum = k * x := by
  induction k with
  | zero => simp
  | succ k ih => simp [List.replicate_succ, ih, Nat.succ_mul, Nat.add_comm]

/-- Sum of a subdivided row table: every entry `c` becomes `k` rows of `c·k` patches. -/
theorem sum_flatMap_replicate (base : List Nat) (k : Nat) :
    (base.flatMap fun c => List.replicate k (c * k)).sum = k * k * base.sum := by
  induction base with
  | nil => simp
  | cons c rest ih =>
    simp only [List.flatMap_cons, List.sum_append, List.sum_cons, ih, sum_replicate_nat]
    rw [Nat.mul_add, Nat.mul_assoc k k c, Nat.mul_comm c k]

theorem sum_rowCountsOf (base : List Nat) (n : Int) (hn : 1 ≤ n) :
    (rowCountsOf base n).sum = n.toNat * n.toNat * base.sum := by
  unfold rowCountsOf
  split
  · next h => subst h; simp
  · exact sum_flatMap_replicate base n.toNat

/-- Every entry of a subdivided table is a positive multiple when the base entries are positive. -/
theorem rowCountsOf_pos (base : List Nat) (n : Int) (hn : 1 ≤ n) (hb : ∀ c ∈ base, 0 < c) :
    ∀ c ∈ rowCountsOf base n, 0 < c := by
  intro c hc
  unfold rowCountsOf at hc
  split at hc
  · exact hb c hc
  · simp only [List.mem_flatMap, List.mem_replicate] at hc
    obtain ⟨b, hb', _, rfl⟩ := hc
    have : 0 < n.toNat := by omega
    exact Nat.mul_pos (hb b hb') this

theorem getLast?_flatMap_replicate (base : List Nat) (k : Nat) (hk : 0 < k) (last : Nat)
    (h : base.getLast? = some last) :
    (base.flatMap fun c => List.replicate k (c * k)).getLast? = some (last * k) := by
  induction base with
  | nil => simp at h
  | cons c rest ih =>
    cases rest with
    | nil =>
      simp at h; subst h
      simp [List.getLast?_replicate, Nat.ne_of_gt hk]
    | cons d rest' =>
      have h' : (d :: rest').getLast? = some last := by simpa [List.getLast?_cons_cons] using h
      have := ih h'
      rw [List.flatMap_cons, List.getLast?_append, this]
      rfl

theorem getLast?_rowCountsOf (base : List Nat) (n : Int) (hn : 1 ≤ n) (last : Nat)
    (h : base.getLast? = some last) :
    (rowCountsOf base n).getLast? = some (last * n.toNat) := by
  unfold rowCountsOf
  split
  · next h1 => subst h1; simpa using h
  · exact getLast?_flatMap_replicate base n.toNat (by omega) last h

theorem length_rowFaces (start c : Nat) : (rowFaces start c).length = c := by
  simp [rowFaces]

theorem length_quadFaces (rows : List Nat) (start : Nat) : (quadFaces rows start).length = rows.sum := by
  induction rows generalizing start with
  | nil => simp [quadFaces]
  | cons c rest ih => simp [quadFaces, length_rowFaces, ih]

theorem length_capFaces (apex last : Nat) : (capFaces apex last).length = last := by
  simp [capFaces]

theorem quadVertexCount_eq (rows : List Nat) : quadVertexCount rows = 2 * rows.sum + 2 * rows.length := by
  unfold quadVertexCount
  induction rows with
  | nil => simp
  | cons c rest ih => simp only [List.map_cons, List.sum_cons, List.length_cons, ih]; omega

/-- All vertex indices used by the quad rows are below the number of row vertices. -/
theorem quadFaces_bound (rows : List Nat) (start : Nat) :
    ∀ f ∈ quadFaces rows start, ∀ i ∈ f, start ≤ i ∧ i < start + quadVertexCount rows := by
  induction rows generalizing start with
  | nil => simp [quadFaces]
  | cons c rest ih =>
    intro f hf i hi
    simp only [quadFaces, List.mem_append] at hf
    have hq : quadVertexCount (c :: rest) = 2 * (c + 1) + quadVertexCount rest := by
      simp [quadVertexCount]
    rcases hf with hf | hf
    · simp only [rowFaces, List.mem_map, List.mem_range] at hf
      obtain ⟨j, hj, rfl⟩ := hf
      simp only [List.mem_cons, List.not_mem_nil, or_false] at hi
      rcases hi with rfl | rfl | rfl | rfl <;> omega
    · have := ih (start + 2 * (c + 1)) f hf i hi
      omega

/-- Slot invariant: every cache slot is empty or holds what its property is documented to return. -/
def LazyInv (st : LState) : Prop := ∀ q, st q = none ∨ st q = some q.designated

theorem lazy_assign_inv (st : LState) (ws : List (LazyProp × Content)) (h : LazyInv st)
    (hw : ∀ w ∈ ws, w.2 = w.1.designated) : LazyInv (st.assign ws) := by
  induction ws generalizing st with
  | nil => simpa [LState.assign] using h
  | cons w rest ih =>
    have hrest : ∀ w' ∈ rest, w'.2 = w'.1.designated := fun w' hw' => hw w' (by simp [hw'])
    have hw0 := hw w (by simp)
    simp only [LState.assign, List.foldl_cons]
    apply ih _ _ hrest
    intro q
    by_cases hq : q = w.1
    · right; simp [hq, hw0]
    · simpa [hq] using h q

theorem lazy_assign_own (st : LState) (p : LazyProp) :
    (st.assign p.writes) p.slot = some p.designated := by
  cases p <;> simp [LState.assign, LazyProp.writes, LazyProp.slot, LazyProp.designated]

end Dome
