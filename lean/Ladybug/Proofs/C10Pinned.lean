/-
  The numeric literals of the formula functions of skymodel.py (source order, per function) that the
  hand-written model Model/Sky.lean was transcribed from.  Theorem `C10_constants_pinned` (Props/C10)
  states that the list regenerated from the current source (Gen.Sky.formulaLiterals) is this one, so a
  changed coefficient, exponent or threshold in the source stops the proof from checking.
-/
namespace Sky

def pinnedLiterals : List (String × List Rat) := [
  ("disc_kn", [((3 : Rat) / 5), ((64 : Rat) / 125), ((39 : Rat) / 25), ((1143 : Rat) / 500), ((1111 : Rat) / 500), ((37 : Rat) / 100), ((481 : Rat) / 500), ((-7 : Rat) / 25), ((233 : Rat) / 250), ((256 : Rat) / 125), ((-5743 : Rat) / 1000), ((2177 : Rat) / 100), ((2749 : Rat) / 100), ((289 : Rat) / 25), ((207 : Rat) / 5), ((237 : Rat) / 2), ((1321 : Rat) / 20), ((319 : Rat) / 10), ((-4701 : Rat) / 100), ((921 : Rat) / 5), ((222 : Rat) / 1), ((7381 : Rat) / 100), ((433 : Rat) / 500), ((61 : Rat) / 500), ((121 : Rat) / 10000), ((2 : Rat) / 1), ((653 : Rat) / 1000000), ((3 : Rat) / 1), ((7 : Rat) / 500000), ((4 : Rat) / 1)]),
  ("revised_clear_sky", [((727 : Rat) / 500), ((203 : Rat) / 500), ((67 : Rat) / 250), ((21 : Rat) / 1000), ((507 : Rat) / 1000), ((41 : Rat) / 200), ((2 : Rat) / 25), ((19 : Rat) / 100), ((1219 : Rat) / 1000), ((43 : Rat) / 1000), ((151 : Rat) / 1000), ((51 : Rat) / 250), ((101 : Rat) / 500), ((213 : Rat) / 250), ((7 : Rat) / 1000), ((357 : Rat) / 1000), ((0 : Rat) / 1), ((1415 : Rat) / 1), ((1415 : Rat) / 1), ((0 : Rat) / 1), ((0 : Rat) / 1)]),
  ("clear_sky", [((0 : Rat) / 1), ((1 : Rat) / 1), ((1 : Rat) / 1), ((17 : Rat) / 100), ((0 : Rat) / 1), ((0 : Rat) / 1), ((0 : Rat) / 1), ((0 : Rat) / 1)]),
  ("zhang_huang", [((2799 : Rat) / 5000), ((2491 : Rat) / 5000), ((-3381 : Rat) / 5000), ((1421 : Rat) / 50000), ((-317 : Rat) / 100000), ((7 : Rat) / 500), ((-17853 : Rat) / 1000), ((843 : Rat) / 1000), ((0 : Rat) / 1), ((0 : Rat) / 1), ((10 : Rat) / 1), ((2 : Rat) / 1), ((0 : Rat) / 1), ((0 : Rat) / 1)]),
  ("extra_radiation", [((2 : Rat) / 1), ((365 : Rat) / 1), ((1 : Rat) / 1), ((100011 : Rat) / 100000), ((34221 : Rat) / 1000000), ((4 : Rat) / 3125), ((719 : Rat) / 1000000), ((2 : Rat) / 1), ((77 : Rat) / 1000000), ((2 : Rat) / 1)]),
  ("horizontal_infrared", [((56697 : Rat) / 1000000000000), ((5463 : Rat) / 20), ((5463 : Rat) / 20), ((787 : Rat) / 1000), ((191 : Rat) / 250), ((5463 : Rat) / 20), ((1 : Rat) / 1), ((11 : Rat) / 500), ((7 : Rat) / 2000), ((2 : Rat) / 1), ((7 : Rat) / 25000), ((3 : Rat) / 1), ((4 : Rat) / 1)]),
  ("sky_temperature", [((56697 : Rat) / 1000000000000), ((1 : Rat) / 4), ((5463 : Rat) / 20)]),
  ("clearness_index", [((0 : Rat) / 1)]),
  ("kt_prime", [((1031 : Rat) / 1000), ((-7 : Rat) / 5), ((9 : Rat) / 10), ((47 : Rat) / 5), ((1 : Rat) / 10), ((0 : Rat) / 1), ((0 : Rat) / 1)]),
  ("absolute_airmass", [((101325 : Rat) / 1)]),
  ("disc", [((0 : Rat) / 1), ((1370 : Rat) / 1), ((1 : Rat) / 1), ((0 : Rat) / 1), ((0 : Rat) / 1), ((0 : Rat) / 1)]),
  ("dirint", [((1 : Rat) / 1), ((1 : Rat) / 1), ((0 : Rat) / 1), ((1 : Rat) / 2), ((1 : Rat) / 1), ((-1 : Rat) / 1), ((7 : Rat) / 100), ((3 : Rat) / 40), ((-1 : Rat) / 1)]),
  ("dirint_bins", [((-1 : Rat) / 1), ((0 : Rat) / 1), ((6 : Rat) / 25), ((0 : Rat) / 1), ((6 : Rat) / 25), ((2 : Rat) / 5), ((1 : Rat) / 1), ((2 : Rat) / 5), ((14 : Rat) / 25), ((2 : Rat) / 1), ((14 : Rat) / 25), ((7 : Rat) / 10), ((3 : Rat) / 1), ((7 : Rat) / 10), ((4 : Rat) / 5), ((4 : Rat) / 1), ((4 : Rat) / 5), ((1 : Rat) / 1), ((5 : Rat) / 1), ((-1 : Rat) / 1), ((90 : Rat) / 1), ((65 : Rat) / 1), ((0 : Rat) / 1), ((65 : Rat) / 1), ((50 : Rat) / 1), ((1 : Rat) / 1), ((50 : Rat) / 1), ((35 : Rat) / 1), ((2 : Rat) / 1), ((35 : Rat) / 1), ((20 : Rat) / 1), ((3 : Rat) / 1), ((20 : Rat) / 1), ((10 : Rat) / 1), ((4 : Rat) / 1), ((10 : Rat) / 1), ((5 : Rat) / 1), ((-1 : Rat) / 1), ((0 : Rat) / 1), ((1 : Rat) / 1), ((0 : Rat) / 1), ((1 : Rat) / 1), ((2 : Rat) / 1), ((1 : Rat) / 1), ((2 : Rat) / 1), ((3 : Rat) / 1), ((2 : Rat) / 1), ((3 : Rat) / 1), ((3 : Rat) / 1), ((-1 : Rat) / 1), ((4 : Rat) / 1), ((-1 : Rat) / 1), ((0 : Rat) / 1), ((3 : Rat) / 200), ((0 : Rat) / 1), ((3 : Rat) / 200), ((7 : Rat) / 200), ((1 : Rat) / 1), ((7 : Rat) / 200), ((7 : Rat) / 100), ((2 : Rat) / 1), ((7 : Rat) / 100), ((3 : Rat) / 20), ((3 : Rat) / 1), ((3 : Rat) / 20), ((3 : Rat) / 10), ((4 : Rat) / 1), ((3 : Rat) / 10), ((1 : Rat) / 1), ((5 : Rat) / 1), ((-1 : Rat) / 1), ((6 : Rat) / 1)]),
  ("illuminance", [((0 : Rat) / 1), ((0 : Rat) / 1), ((0 : Rat) / 1), ((0 : Rat) / 1), ((0 : Rat) / 1), ((90 : Rat) / 1), ((0 : Rat) / 1), ((1 : Rat) / 10), ((3 : Rat) / 1), ((1 : Rat) / 1), ((3 : Rat) / 1), ((1360 : Rat) / 1), ((2 : Rat) / 25), ((3 : Rat) / 40), ((1 : Rat) / 1), ((213 : Rat) / 200), ((0 : Rat) / 1), ((213 : Rat) / 200), ((123 : Rat) / 100), ((1 : Rat) / 1), ((123 : Rat) / 100), ((3 : Rat) / 2), ((2 : Rat) / 1), ((3 : Rat) / 2), ((39 : Rat) / 20), ((3 : Rat) / 1), ((39 : Rat) / 20), ((14 : Rat) / 5), ((4 : Rat) / 1), ((14 : Rat) / 5), ((9 : Rat) / 2), ((5 : Rat) / 1), ((9 : Rat) / 2), ((31 : Rat) / 5), ((6 : Rat) / 1), ((31 : Rat) / 5), ((7 : Rat) / 1), ((0 : Rat) / 1), ((573 : Rat) / 100), ((5 : Rat) / 1), ((-3 : Rat) / 1)]),
  ("airmass:kastenyoung1989", [((1 : Rat) / 1), ((12643 : Rat) / 25000), ((121599 : Rat) / 20000), ((-4091 : Rat) / 2500)]),
  ("airmass:kasten1966", [((1 : Rat) / 1), ((3 : Rat) / 20), ((777 : Rat) / 200), ((-1253 : Rat) / 1000)]),
  ("airmass:simple", [((1 : Rat) / 1)]),
  ("airmass:pickering2002", [((1 : Rat) / 1), ((244 : Rat) / 1), ((165 : Rat) / 1), ((47 : Rat) / 1), ((11 : Rat) / 10)]),
  ("airmass:youngirvine1967", [((1 : Rat) / 1), ((1 : Rat) / 1), ((3 : Rat) / 2500), ((1 : Rat) / 1)]),
  ("airmass:young1994", [((15663 : Rat) / 15625), ((2 : Rat) / 1), ((74193 : Rat) / 500000), ((96467 : Rat) / 10000000), ((3 : Rat) / 1), ((18733 : Rat) / 125000), ((2 : Rat) / 1), ((102963 : Rat) / 10000000), ((151989 : Rat) / 500000000)]),
  ("airmass:gueymard1993", [((1 : Rat) / 1), ((176759 : Rat) / 100000000), ((90 : Rat) / 1), ((1887503 : Rat) / 20000), ((90 : Rat) / 1), ((-121563 : Rat) / 100000)])]

end Sky
