/-
  What the formula translation (Gen/SkyFormulas.lean, tied by Proofs/C10Gen.lean) does not see: the numeric
  default arguments of skymodel.py's functions that the hand-written model relies on (disc / dirint defaults
  used by the Zhang-Huang split, the default air-mass model used by the revised clear sky and the luminous
  efficacy model, the `0.1 if dhi == 0` replacement).  Theorem `C10_constants_pinned` (Props/C10) states that
  the values regenerated from the current source (Gen/SkyTables.lean) are these.
-/
namespace Sky

def pinnedAirmassDefaultModel : String := "kastenyoung1989"

def pinnedAirmassModelNames : List String :=
  ["kastenyoung1989", "kasten1966", "simple", "pickering2002", "youngirvine1967", "young1994", "gueymard1993"]

def pinnedDefaults : List (String × List Rat) := [
  ("ashrae_clear_sky", [((1 : Rat) / 1)]),
  ("zhang_huang_solar", [((1355 : Rat) / 1)]),
  ("calc_sky_temperature", [((1 : Rat) / 1)]),
  ("dirint", [((13 : Rat) / 200), ((3 : Rat) / 1)]),
  ("disc", [((101325 : Rat) / 1), ((13 : Rat) / 200), ((3 : Rat) / 1), ((12 : Rat) / 1)]),
  ("_disc_kn", [((12 : Rat) / 1)]),
  ("get_extra_radiation", [((13661 : Rat) / 10)]),
  ("clearness_index", [((13 : Rat) / 200), ((2 : Rat) / 1)]),
  ("clearness_index_zenith_independent", [((2 : Rat) / 1)]),
  ("get_absolute_airmass", [((101325 : Rat) / 1)]),
  ("illuminance:dhi_if_zero", [((0 : Rat) / 1), ((1 : Rat) / 10)])]

end Sky
