/-
  Helper lemmas for C15 (colour ranges and legends).  Single Mathlib tactic modules only.
-/
import Ladybug.Model.Legend
import Mathlib.Tactic.Linarith
import Mathlib.Tactic.Ring
import Mathlib.Tactic.FieldSimp
import Mathlib.Tactic.NormNum
import Mathlib.Tactic.SplitIfs

namespace Col

/-! ### Python's `round` (half to even) on exact rationals -/

theorem round_intCast (n : Int) : Py.round (n : Rat) = n := by
  unfold Py.round
  simp only [Rat.floor_intCast]
  have : ((n : Rat) - (n : Rat)) < 1 / 2 := by norm_num
  simp

/-- `round` is one of the two neighbouring integers. -/
theorem round_floor_or (x : Rat) : Py.round x = x.floor ∨ Py.round x = x.floor + 1 := by
  unfold Py.round
  simp only []
  split_ifs <;> simp

theorem round_mono {x y : Rat} (h : x ≤ y) : Py.round x ≤ Py.round y := by
  have hfx := Rat.floor_le x
  have hfx' := Rat.lt_floor_add_one x
  have hfy := Rat.floor_le y
  have hfy' := Rat.lt_floor_add_one y
  have hm := Rat.floor_monotone h
  rcases Int.lt_or_eq_of_le hm with hlt | heq
  · rcases round_floor_or x with hx | hx <;> rcases round_floor_or y with hy | hy <;> omega
  · unfold Py.round
    simp only []
    rw [← heq]
    have hxy : x - (x.floor : Rat) ≤ y - (x.floor : Rat) := by linarith
    split_ifs <;> first | omega | (exfalso; linarith)

theorem round_between {a b : Int} {x : Rat} (ha : (a : Rat) ≤ x) (hb : x ≤ (b : Rat)) :
    a ≤ Py.round x ∧ Py.round x ≤ b := by
  have h1 := round_mono ha
  have h2 := round_mono hb
  rw [round_intCast] at h1 h2
  exact ⟨h1, h2⟩

/-! ### The linear blend of one channel -/

theorem blend_zero (a b : Int) : blend 0 a b = a := by
  unfold blend blendExact
  have : (0 : Rat) * ((b : Rat) - (a : Rat)) + (a : Rat) = (a : Rat) := by ring
  rw [this, round_intCast]

theorem blend_one (a b : Int) : blend 1 a b = b := by
  unfold blend blendExact
  have : (1 : Rat) * ((b : Rat) - (a : Rat)) + (a : Rat) = (b : Rat) := by ring
  rw [this, round_intCast]

theorem blendExact_le_of_le {f g : Rat} {a b : Int} (hfg : f ≤ g) (hab : a ≤ b) :
    blendExact f a b ≤ blendExact g a b := by
  unfold blendExact
  have h : (0 : Rat) ≤ (b : Rat) - (a : Rat) := by
    have : (a : Rat) ≤ (b : Rat) := by exact_mod_cast hab
    linarith
  have := mul_le_mul_of_nonneg_right hfg h
  linarith

theorem blendExact_ge_of_le {f g : Rat} {a b : Int} (hfg : f ≤ g) (hab : b ≤ a) :
    blendExact g a b ≤ blendExact f a b := by
  unfold blendExact
  have h : (0 : Rat) ≤ (a : Rat) - (b : Rat) := by
    have : (b : Rat) ≤ (a : Rat) := by exact_mod_cast hab
    linarith
  have := mul_le_mul_of_nonneg_right hfg h
  nlinarith

/-- The channel moves monotonically toward the upper stop as the factor grows (rising channel). -/
theorem blend_mono_up {f g : Rat} {a b : Int} (hfg : f ≤ g) (hab : a ≤ b) :
    blend f a b ≤ blend g a b := round_mono (blendExact_le_of_le hfg hab)

/-- The channel moves monotonically toward the upper stop as the factor grows (falling channel). -/
theorem blend_mono_down {f g : Rat} {a b : Int} (hfg : f ≤ g) (hab : b ≤ a) :
    blend g a b ≤ blend f a b := round_mono (blendExact_ge_of_le hfg hab)

/-- For a factor in `[0, 1]` the channel lies between the two stop channels. -/
theorem blend_between {f : Rat} (a b : Int) (h0 : 0 ≤ f) (h1 : f ≤ 1) :
    min a b ≤ blend f a b ∧ blend f a b ≤ max a b := by
  rcases Int.le_total a b with hab | hab
  · have l := blend_mono_up (a := a) (b := b) h0 hab
    have u := blend_mono_up (a := a) (b := b) h1 hab
    rw [blend_zero] at l
    rw [blend_one] at u
    omega
  · have l := blend_mono_down (a := a) (b := b) h0 hab
    have u := blend_mono_down (a := a) (b := b) h1 hab
    rw [blend_zero] at l
    rw [blend_one] at u
    omega

/-! ### The blend factor -/

theorem factor_lo {lo hi : Rat} : factor lo hi lo = 0 := by
  unfold factor
  split_ifs <;> simp

theorem factor_hi {lo hi : Rat} (h : lo < hi) : factor lo hi hi = 1 := by
  unfold factor
  have : hi - lo ≠ 0 := by intro h0; linarith
  rw [if_neg this]
  exact div_self this

theorem factor_nonneg {lo hi v : Rat} (h : lo ≤ hi) (hv : lo ≤ v) : 0 ≤ factor lo hi v := by
  unfold factor
  split_ifs
  · exact le_refl 0
  · apply div_nonneg <;> linarith

theorem factor_le_one {lo hi v : Rat} (h : lo ≤ hi) (hv : v ≤ hi) : factor lo hi v ≤ 1 := by
  unfold factor
  split_ifs with h0
  · norm_num
  · have hpos : 0 < hi - lo := by
      rcases lt_or_eq_of_le h with h' | h'
      · linarith
      · exact absurd (by rw [h']; ring) h0
    have h2 : (v - lo) / (hi - lo) ≤ (hi - lo) / (hi - lo) :=
      div_le_div_of_nonneg_right (by linarith) (le_of_lt hpos)
    rwa [div_self h0] at h2

theorem factor_mono {lo hi v w : Rat} (h : lo ≤ hi) (hvw : v ≤ w) : factor lo hi v ≤ factor lo hi w := by
  unfold factor
  split_ifs with h0
  · exact le_refl 0
  · have hpos : 0 < hi - lo := by
      rcases lt_or_eq_of_le h with h' | h'
      · linarith
      · exact absurd (by rw [h']; ring) h0
    apply div_le_div_of_nonneg_right _ (le_of_lt hpos)
    linarith

/-! ### The interval search -/

/-- On a strictly increasing domain, a value in the closed interval `k` is found either in interval
    `k`, or (only when it sits exactly on stop `k`) in the interval just before. -/
theorem findInterval_strict (v : Rat) : ∀ (l : List Rat) (i k : Nat) (a b : Rat),
    l.Pairwise (· < ·) → l[k]? = some a → l[k + 1]? = some b → a ≤ v → v ≤ b →
    findInterval v l i = some (i + k) ∨
      (∃ k', k = k' + 1 ∧ v = a ∧ findInterval v l i = some (i + k'))
  | [], _, k, _, _, _, hk, _, _, _ => by simp at hk
  | [_], _, k, _, _, _, _, hk1, _, _ => by simp at hk1
  | d :: d' :: rest, i, k, a, b, hs, hk, hk1, hav, hvb => by
    unfold findInterval
    by_cases hc : d ≤ v ∧ v ≤ d'
    · rw [if_pos hc]
      cases k with
      | zero => left; simp
      | succ k' =>
        right
        cases k' with
        | zero =>
          simp at hk
          subst hk
          exact ⟨0, rfl, le_antisymm hc.2 hav, by simp⟩
        | succ k'' =>
          exfalso
          have hmem : a ∈ rest := by
            simp at hk
            exact List.mem_of_getElem? hk
          have hs' := (List.pairwise_cons.mp (List.pairwise_cons.mp hs).2).1 a hmem
          linarith [hc.2]
    · rw [if_neg hc]
      cases k with
      | zero =>
        simp at hk hk1
        subst hk; subst hk1
        exact absurd ⟨hav, hvb⟩ hc
      | succ k' =>
        have hs' : (d' :: rest).Pairwise (· < ·) := (List.pairwise_cons.mp hs).2
        have ih := findInterval_strict v (d' :: rest) (i + 1) k' a b hs'
          (by simpa using hk) (by simpa using hk1) hav hvb
        rcases ih with h | ⟨k'', hk'', hva, h⟩
        · left; rw [h]; congr 1; omega
        · right; exact ⟨k'' + 1, by omega, hva, by rw [h]; congr 1; omega⟩

theorem strict_lt_of_lt {l : List Rat} (hs : l.Pairwise (· < ·)) {i j : Nat} {a b : Rat}
    (hi : l[i]? = some a) (hj : l[j]? = some b) (hij : i < j) : a < b := by
  obtain ⟨hi', rfl⟩ := List.getElem?_eq_some_iff.mp hi
  obtain ⟨hj', rfl⟩ := List.getElem?_eq_some_iff.mp hj
  exact (List.pairwise_iff_getElem.mp hs) i j hi' hj' hij

theorem strict_le_of_le {l : List Rat} (hs : l.Pairwise (· < ·)) {i j : Nat} {a b : Rat}
    (hi : l[i]? = some a) (hj : l[j]? = some b) (hij : i ≤ j) : a ≤ b := by
  rcases Nat.lt_or_eq_of_le hij with h | rfl
  · exact le_of_lt (strict_lt_of_lt hs hi hj h)
  · rw [hi] at hj; injection hj with h; exact le_of_eq h

theorem blendRGB_zero (a b : RGB) : blendRGB 0 a b = a := by
  cases a; simp [blendRGB, blend_zero]

theorem blendRGB_one (a b : RGB) : blendRGB 1 a b = b := by
  cases b; simp [blendRGB, blend_one]

/-- Key lemma: on a strictly increasing domain a value in the closed interval `k` gets the blend
    of the colours `k` and `k + 1` with the factor of that interval — whichever interval the
    first-match search actually stopped at. -/
theorem color_eq (cr : ColorRange) (hs : cr.domain.Pairwise (· < ·)) (hc : cr.continuous = true)
    {k : Nat} {a b v : Rat} {ca cb : RGB}
    (hk : cr.domain[k]? = some a) (hk1 : cr.domain[k + 1]? = some b)
    (hca : cr.colors[k]? = some ca) (hcb : cr.colors[k + 1]? = some cb)
    (hav : a ≤ v) (hvb : v ≤ b) :
    cr.color v = .ok (blendRGB (factor a b v) ca cb) := by
  have hklen : k + 1 < cr.domain.length := (List.getElem?_eq_some_iff.mp hk1).1
  have h0 : cr.domain[0]? = some cr.domain[0] := List.getElem?_eq_getElem (by omega)
  have hl : cr.domain.getLast? = some cr.domain[cr.domain.length - 1] := by
    rw [List.getLast?_eq_getElem?]
    exact List.getElem?_eq_getElem (by omega)
  have hl' : cr.domain[cr.domain.length - 1]? = some cr.domain[cr.domain.length - 1] :=
    List.getElem?_eq_getElem (by omega)
  have hd0 : cr.domain[0] ≤ a := strict_le_of_le hs h0 hk (Nat.zero_le _)
  have hdl : b ≤ cr.domain[cr.domain.length - 1] := strict_le_of_le hs hk1 hl' (by omega)
  unfold ColorRange.color
  simp only [h0, hl]
  rw [if_neg (by intro h; linarith), if_neg (by intro h; linarith)]
  rcases findInterval_strict v cr.domain 0 k a b hs hk hk1 hav hvb with h | ⟨k', hk', hva, h⟩
  · rw [h]
    simp only [Nat.zero_add, hc, if_true, hk, hk1, hca, hcb]
  · rw [h]
    subst hk'
    have hk'len : k' < cr.domain.length := by omega
    have hck'len : k' < cr.colors.length := by
      have := (List.getElem?_eq_some_iff.mp hca).1
      omega
    have hdk' : cr.domain[k']? = some cr.domain[k'] := List.getElem?_eq_getElem hk'len
    have hck' : cr.colors[k']? = some cr.colors[k'] := List.getElem?_eq_getElem hck'len
    have hlt : cr.domain[k'] < a := strict_lt_of_lt hs hdk' hk (Nat.lt_succ_self _)
    simp only [Nat.zero_add, hc, if_true, hdk', hk, hck', hca]
    subst hva
    rw [factor_hi hlt, factor_lo, blendRGB_one, blendRGB_zero]

/-- Discrete intermediate value: a value above the first stop and at most the last one lies in
    some half-open interval `(d k, d (k+1)]`. -/
theorem interval_exists (v : Rat) : ∀ (l : List Rat) (d0 dl : Rat), l[0]? = some d0 →
    l.getLast? = some dl → d0 < v → v ≤ dl →
    ∃ k a b, l[k]? = some a ∧ l[k + 1]? = some b ∧ a < v ∧ v ≤ b
  | [], _, _, h0, _, _, _ => by simp at h0
  | [x], d0, dl, h0, hl, h1, h2 => by
    simp at h0 hl
    subst h0; subst hl
    exact absurd h1 (not_lt.mpr h2)
  | x :: y :: rest, d0, dl, h0, hl, h1, h2 => by
    simp at h0
    subst h0
    by_cases hy : v ≤ y
    · exact ⟨0, x, y, by simp, by simp, h1, hy⟩
    · have hl' : (y :: rest).getLast? = some dl := by
        rw [List.getLast?_cons_cons] at hl; exact hl
      obtain ⟨k, a, b, ha, hb, hav, hvb⟩ :=
        interval_exists v (y :: rest) y dl (by simp) hl' (not_le.mp hy) h2
      exact ⟨k + 1, a, b, by simpa using ha, by simpa using hb, hav, hvb⟩

theorem round_neg (x : Rat) : Py.round (-x) = -Py.round x := by
  have hfx := Rat.floor_le x
  have hfx' := Rat.lt_floor_add_one x
  by_cases hint : x = (x.floor : Rat)
  · have h1 : -x = ((-x.floor : Int) : Rat) := by rw [hint]; simp
    rw [h1, round_intCast]
    have h2 : Py.round x = x.floor := by rw [hint]; simp [round_intCast]
    rw [h2]
  · have hlt : (x.floor : Rat) < x := lt_of_le_of_ne hfx (fun h => hint h.symm)
    have hfl : (-x).floor = -x.floor - 1 := by
      have a1 : -x.floor - 1 ≤ (-x).floor := by
        rw [Rat.le_floor_iff]; push_cast at hfx' ⊢; linarith
      have a2 : (-x).floor < -x.floor - 1 + 1 := by
        rw [Rat.floor_lt_iff]; push_cast; linarith
      omega
    unfold Py.round
    simp only [hfl]
    push_cast
    split_ifs <;> first | omega | (exfalso; linarith)

/-! ### Weakly increasing domains (duplicated stops) -/

theorem weak_le_of_le {l : List Rat} (hs : l.Pairwise (· ≤ ·)) {i j : Nat} {a b : Rat}
    (hi : l[i]? = some a) (hj : l[j]? = some b) (hij : i ≤ j) : a ≤ b := by
  rcases Nat.lt_or_eq_of_le hij with h | rfl
  · obtain ⟨hi', rfl⟩ := List.getElem?_eq_some_iff.mp hi
    obtain ⟨hj', rfl⟩ := List.getElem?_eq_some_iff.mp hj
    exact (List.pairwise_iff_getElem.mp hs) i j hi' hj' h
  · rw [hi] at hj; injection hj with h; exact le_of_eq h

/-- On a weakly increasing domain a value *strictly above* stop `k` and at most stop `k + 1` is
    found in interval `k` (first match: every earlier interval ends below the value). -/
theorem findInterval_weak (v : Rat) : ∀ (l : List Rat) (i k : Nat) (a b : Rat),
    l.Pairwise (· ≤ ·) → l[k]? = some a → l[k + 1]? = some b → a < v → v ≤ b →
    findInterval v l i = some (i + k)
  | [], _, k, _, _, _, hk, _, _, _ => by simp at hk
  | [_], _, k, _, _, _, _, hk1, _, _ => by simp at hk1
  | d :: d' :: rest, i, k, a, b, hs, hk, hk1, hav, hvb => by
    unfold findInterval
    by_cases hc : d ≤ v ∧ v ≤ d'
    · rw [if_pos hc]
      cases k with
      | zero => simp
      | succ k' =>
        exfalso
        have hs' : (d' :: rest).Pairwise (· ≤ ·) := (List.pairwise_cons.mp hs).2
        have h0 : (d' :: rest)[0]? = some d' := by simp
        have hk' : (d' :: rest)[k']? = some a := by simpa using hk
        have := weak_le_of_le hs' h0 hk' (Nat.zero_le _)
        linarith [hc.2]
    · rw [if_neg hc]
      cases k with
      | zero =>
        simp at hk hk1
        subst hk; subst hk1
        exact absurd ⟨le_of_lt hav, hvb⟩ hc
      | succ k' =>
        have hs' : (d' :: rest).Pairwise (· ≤ ·) := (List.pairwise_cons.mp hs).2
        have ih := findInterval_weak v (d' :: rest) (i + 1) k' a b hs'
          (by simpa using hk) (by simpa using hk1) hav hvb
        rw [ih]; congr 1; omega

/-- Key lemma for weakly increasing domains: a value in the half-open interval `(d k, d (k+1)]`
    gets the blend of colours `k` and `k + 1` with that interval's factor. -/
theorem color_eq_weak (cr : ColorRange) (hs : cr.domain.Pairwise (· ≤ ·)) (hc : cr.continuous = true)
    {k : Nat} {a b v : Rat} {ca cb : RGB}
    (hk : cr.domain[k]? = some a) (hk1 : cr.domain[k + 1]? = some b)
    (hca : cr.colors[k]? = some ca) (hcb : cr.colors[k + 1]? = some cb)
    (hav : a < v) (hvb : v ≤ b) :
    cr.color v = .ok (blendRGB (factor a b v) ca cb) := by
  have hklen : k + 1 < cr.domain.length := (List.getElem?_eq_some_iff.mp hk1).1
  have h0 : cr.domain[0]? = some cr.domain[0] := List.getElem?_eq_getElem (by omega)
  have hl : cr.domain.getLast? = some cr.domain[cr.domain.length - 1] := by
    rw [List.getLast?_eq_getElem?]
    exact List.getElem?_eq_getElem (by omega)
  have hl' : cr.domain[cr.domain.length - 1]? = some cr.domain[cr.domain.length - 1] :=
    List.getElem?_eq_getElem (by omega)
  have hd0 : cr.domain[0] ≤ a := weak_le_of_le hs h0 hk (Nat.zero_le _)
  have hdl : b ≤ cr.domain[cr.domain.length - 1] := weak_le_of_le hs hk1 hl' (by omega)
  unfold ColorRange.color
  simp only [h0, hl]
  rw [if_neg (by intro h; linarith), if_neg (by intro h; linarith),
    findInterval_weak v cr.domain 0 k a b hs hk hk1 hav hvb]
  simp only [Nat.zero_add, hc, if_true, hk, hk1, hca, hcb]

/-- The same for segmented ranges: the colour of the interval. -/
theorem color_seg_weak (cr : ColorRange) (hs : cr.domain.Pairwise (· ≤ ·)) (hc : cr.continuous = false)
    {k : Nat} {a b v : Rat} {cb : RGB}
    (hk : cr.domain[k]? = some a) (hk1 : cr.domain[k + 1]? = some b)
    (hcb : cr.colors[k + 1]? = some cb) (hav : a < v) (hvb : v ≤ b) :
    cr.color v = .ok cb := by
  have hklen : k + 1 < cr.domain.length := (List.getElem?_eq_some_iff.mp hk1).1
  have h0 : cr.domain[0]? = some cr.domain[0] := List.getElem?_eq_getElem (by omega)
  have hl : cr.domain.getLast? = some cr.domain[cr.domain.length - 1] := by
    rw [List.getLast?_eq_getElem?]
    exact List.getElem?_eq_getElem (by omega)
  have hl' : cr.domain[cr.domain.length - 1]? = some cr.domain[cr.domain.length - 1] :=
    List.getElem?_eq_getElem (by omega)
  have hd0 : cr.domain[0] ≤ a := weak_le_of_le hs h0 hk (Nat.zero_le _)
  have hdl : b ≤ cr.domain[cr.domain.length - 1] := weak_le_of_le hs hk1 hl' (by omega)
  unfold ColorRange.color
  simp only [h0, hl]
  rw [if_neg (by intro h; linarith), if_neg (by intro h; linarith),
    findInterval_weak v cr.domain 0 k a b hs hk hk1 hav hvb]
  simp [hc, getE, hcb]

/-- The value of the first stop is found in the first interval. -/
theorem color_first_stop (cr : ColorRange) (hs : cr.domain.Pairwise (· ≤ ·))
    (h2 : 2 ≤ cr.domain.length) :
    ∃ d0 d1, cr.domain[0]? = some d0 ∧ cr.domain[1]? = some d1 ∧ d0 ≤ d1 ∧
      findInterval d0 cr.domain 0 = some 0 ∧ cr.domain.getLast? = some cr.domain[cr.domain.length - 1] ∧
      d0 ≤ cr.domain[cr.domain.length - 1] := by
  have h0 : cr.domain[0]? = some cr.domain[0] := List.getElem?_eq_getElem (by omega)
  have h1 : cr.domain[1]? = some cr.domain[1] := List.getElem?_eq_getElem (by omega)
  have hl' : cr.domain[cr.domain.length - 1]? = some cr.domain[cr.domain.length - 1] :=
    List.getElem?_eq_getElem (by omega)
  have hl : cr.domain.getLast? = some cr.domain[cr.domain.length - 1] := by
    rw [List.getLast?_eq_getElem?]; exact hl'
  have h01 := weak_le_of_le hs h0 h1 (by omega)
  refine ⟨_, _, h0, h1, h01, ?_, hl, weak_le_of_le hs h0 hl' (by omega)⟩
  obtain ⟨d, ds, hds⟩ := List.exists_cons_of_ne_nil (l := cr.domain) (by intro h; simp [h] at h2)
  obtain ⟨d', ds', hds'⟩ := List.exists_cons_of_ne_nil (l := ds) (by
    intro h; simp [hds, h] at h2)
  subst hds'
  simp only [hds] at h01 ⊢
  simp at h01 ⊢
  simp [findInterval, h01]

/-! ### The domain setter -/

theorem sortDom_pair (x y : Rat) : sortDom [x, y] = if x ≤ y then [x, y] else [y, x] := by
  unfold sortDom
  simp [List.mergeSort, List.MergeSort.Internal.splitInTwo, List.merge]

theorem sortDom_sorted (l : List Rat) : (sortDom l).Pairwise (· ≤ ·) := by
  have h := List.pairwise_mergeSort (le := fun (a b : Rat) => decide (a ≤ b))
    (by intro a b c hab hbc; simp at *; exact le_trans hab hbc)
    (by intro a b; simp; exact le_total a b) l
  unfold sortDom
  exact h.imp (by intro a b hab; simpa using hab)

/-- Sorting distinct numbers gives a strictly increasing list. -/
theorem sortDom_strict (l : List Rat) (hnd : l.Nodup) : (sortDom l).Pairwise (· < ·) := by
  have hle := sortDom_sorted l
  have hne : (sortDom l).Pairwise (· ≠ ·) := ((List.mergeSort_perm l _).nodup_iff).mpr hnd
  exact (hle.and hne).imp (by intro a b h; exact lt_of_le_of_ne h.1 h.2)

theorem remap_length (n : Nat) (lo hi : Rat) : (remap n lo hi).length = n := by
  simp [remap]

theorem remap_getElem? (n : Nat) (lo hi : Rat) (k : Nat) (hk : k < n) :
    (remap n lo hi)[k]? = some (lo + (k : Rat) * ((hi - lo) / ((n : Rat) - 1))) := by
  simp [remap, hk]

theorem remap_const (n : Nat) (a : Rat) : remap n a a = List.replicate n a := by
  unfold remap
  simp [List.map_const']

theorem remap_strict (n : Nat) (hn : 2 ≤ n) (lo hi : Rat) (h : lo < hi) :
    (remap n lo hi).Pairwise (· < ·) := by
  unfold remap
  rw [List.pairwise_map]
  have hn1 : (0 : Rat) < (n : Rat) - 1 := by
    have : (2 : Rat) ≤ (n : Rat) := by exact_mod_cast hn
    linarith
  have hstep : 0 < (hi - lo) / ((n : Rat) - 1) := div_pos (by linarith) hn1
  exact List.pairwise_lt_range.imp (by
    intro a b hab
    have : (a : Rat) < (b : Rat) := by exact_mod_cast hab
    have := mul_lt_mul_of_pos_right this hstep
    linarith)

/-! ### Lists built by `mapM` in `Except` -/

theorem mapM_ok_length {α β : Type} (f : α → Except Err β) :
    ∀ (l : List α) (r : List β), l.mapM f = .ok r → r.length = l.length
  | [], r, h => by
    simp [List.mapM_nil, pure, Except.pure] at h
    subst h; rfl
  | a :: as, r, h => by
    rw [List.mapM_cons] at h
    cases hfa : f a with
    | error e => simp [hfa, bind, Except.bind] at h
    | ok b =>
      cases hrest : as.mapM f with
      | error e => simp [hfa, hrest, bind, Except.bind] at h
      | ok bs =>
        simp [hfa, hrest, bind, Except.bind, pure, Except.pure] at h
        subst h
        simp [mapM_ok_length f as bs hrest]

theorem mapM_ok_getElem {α β : Type} (f : α → Except Err β) :
    ∀ (l : List α) (r : List β), l.mapM f = .ok r →
      ∀ (i : Nat) (a : α), l[i]? = some a → ∃ b, r[i]? = some b ∧ f a = .ok b
  | [], r, h, i, a, hi => by simp at hi
  | x :: xs, r, h, i, a, hi => by
    rw [List.mapM_cons] at h
    cases hfa : f x with
    | error e => simp [hfa, bind, Except.bind] at h
    | ok b =>
      cases hrest : xs.mapM f with
      | error e => simp [hfa, hrest, bind, Except.bind] at h
      | ok bs =>
        simp [hfa, hrest, bind, Except.bind, pure, Except.pure] at h
        subst h
        cases i with
        | zero =>
          simp at hi
          subst hi
          exact ⟨b, by simp, hfa⟩
        | succ j =>
          simp at hi
          obtain ⟨b', hb', hfb'⟩ := mapM_ok_getElem f xs bs hrest j a hi
          exact ⟨b', by simpa using hb', hfb'⟩

end Col

namespace Leg

open Col

/-! ### Python `min` / `max` of a list -/

theorem foldl_min_spec : ∀ (xs : List Rat) (x : Rat),
    (xs.foldl (fun m y => if y < m then y else m) x = x ∨
      xs.foldl (fun m y => if y < m then y else m) x ∈ xs) ∧
    xs.foldl (fun m y => if y < m then y else m) x ≤ x ∧
    ∀ y ∈ xs, xs.foldl (fun m y => if y < m then y else m) x ≤ y
  | [], x => by simp
  | y :: ys, x => by
    simp only [List.foldl_cons]
    obtain ⟨h1, h2, h3⟩ := foldl_min_spec ys (if y < x then y else x)
    by_cases hyx : y < x
    · simp only [hyx, if_true] at h1 h2 h3 ⊢
      refine ⟨?_, by linarith, ?_⟩
      · rcases h1 with h | h
        · right; rw [h]; simp
        · right; exact List.mem_cons_of_mem _ h
      · intro z hz
        rcases List.mem_cons.mp hz with rfl | hz
        · exact h2
        · exact h3 z hz
    · simp only [hyx, if_false] at h1 h2 h3 ⊢
      refine ⟨?_, h2, ?_⟩
      · rcases h1 with h | h
        · left; exact h
        · right; exact List.mem_cons_of_mem _ h
      · intro z hz
        rcases List.mem_cons.mp hz with rfl | hz
        · linarith [not_lt.mp hyx]
        · exact h3 z hz

theorem foldl_max_spec : ∀ (xs : List Rat) (x : Rat),
    (xs.foldl (fun m y => if m < y then y else m) x = x ∨
      xs.foldl (fun m y => if m < y then y else m) x ∈ xs) ∧
    x ≤ xs.foldl (fun m y => if m < y then y else m) x ∧
    ∀ y ∈ xs, y ≤ xs.foldl (fun m y => if m < y then y else m) x
  | [], x => by simp
  | y :: ys, x => by
    simp only [List.foldl_cons]
    obtain ⟨h1, h2, h3⟩ := foldl_max_spec ys (if x < y then y else x)
    by_cases hyx : x < y
    · simp only [hyx, if_true] at h1 h2 h3 ⊢
      refine ⟨?_, by linarith, ?_⟩
      · rcases h1 with h | h
        · right; rw [h]; simp
        · right; exact List.mem_cons_of_mem _ h
      · intro z hz
        rcases List.mem_cons.mp hz with rfl | hz
        · exact h2
        · exact h3 z hz
    · simp only [hyx, if_false] at h1 h2 h3 ⊢
      refine ⟨?_, h2, ?_⟩
      · rcases h1 with h | h
        · left; exact h
        · right; exact List.mem_cons_of_mem _ h
      · intro z hz
        rcases List.mem_cons.mp hz with rfl | hz
        · linarith [not_lt.mp hyx]
        · exact h3 z hz

/-- `min(values)` is a member of the list and a lower bound of it. -/
theorem minList_spec {vals : List Rat} {m : Rat} (h : minList vals = some m) :
    m ∈ vals ∧ ∀ y ∈ vals, m ≤ y := by
  cases vals with
  | nil => simp [minList] at h
  | cons x xs =>
    simp only [minList, Option.some.injEq] at h
    obtain ⟨h1, h2, h3⟩ := foldl_min_spec xs x
    rw [h] at h1 h2 h3
    refine ⟨?_, ?_⟩
    · rcases h1 with h | h
      · rw [h]; simp
      · exact List.mem_cons_of_mem _ h
    · intro y hy
      rcases List.mem_cons.mp hy with rfl | hy
      · exact h2
      · exact h3 y hy

/-- `max(values)` is a member of the list and an upper bound of it. -/
theorem maxList_spec {vals : List Rat} {m : Rat} (h : maxList vals = some m) :
    m ∈ vals ∧ ∀ y ∈ vals, y ≤ m := by
  cases vals with
  | nil => simp [maxList] at h
  | cons x xs =>
    simp only [maxList, Option.some.injEq] at h
    obtain ⟨h1, h2, h3⟩ := foldl_max_spec xs x
    rw [h] at h1 h2 h3
    refine ⟨?_, ?_⟩
    · rcases h1 with h | h
      · rw [h]; simp
      · exact List.mem_cons_of_mem _ h
    · intro y hy
      rcases List.mem_cons.mp hy with rfl | hy
      · exact h2
      · exact h3 y hy

/-! ### Label helpers -/

theorem markEnds_length (t : List String) : (markEnds t).length = t.length := by
  unfold markEnds
  cases t with
  | nil => simp
  | cons x xs =>
    simp only
    cases h : (("<" ++ x) :: xs).reverse with
    | nil => simp at h
    | cons y ys =>
      have : (y :: ys).length = (("<" ++ x) :: xs).reverse.length := by rw [h]
      simp at this ⊢
      omega

theorem catNames_length (dom : List Rat) (dc : Nat) (ils : Bool) (h : dom ≠ []) :
    (catNames dom dc ils).length = dom.length + 1 := by
  have : 0 < dom.length := List.length_pos_iff.mpr h
  unfold catNames
  cases ils <;> simp <;> omega

/-- In exact arithmetic `_frange(0, step * n, step)` has exactly `n` points. -/
theorem frange_length (step : Rat) (n : Nat) (h : 0 < step) : (frange 0 (step * n) step).length = n := by
  unfold frange
  rw [if_neg (by intro h'; linarith)]
  have hq : (step * (n : Rat) - 0) / step = ((n : Int) : Rat) := by
    field_simp
    simp
  rw [List.length_map, List.length_range, hq, Rat.ceil_intCast]
  simp

/-! ### Label content -/

theorem pow10_pos (n : Nat) : (0 : Rat) < Py.pow10 n := by
  unfold Py.pow10
  have : 0 < 10 ^ n := Nat.pos_of_ne_zero (by positivity)
  exact_mod_cast this

theorem round_nonneg {x : Rat} (h : 0 ≤ x) : 0 ≤ Py.round x := by
  have := round_mono h
  rwa [show ((0 : Rat)) = ((0 : Int) : Rat) by simp, round_intCast] at this

/-- Token level of `'%.nf'`: the label denotes `round(x, n)` (half to even at the n-th decimal). -/
theorem tokenValue_fmtToken (x : Rat) (n : Nat) : tokenValue (fmtToken x n) n = Py.roundN x n := by
  have hp := pow10_pos n
  unfold tokenValue fmtToken Py.roundN
  by_cases hx : x < 0
  · have hnn : 0 ≤ Py.round (-x * Py.pow10 n) := round_nonneg (by nlinarith)
    have hcast : (((Py.round (-x * Py.pow10 n)).toNat : Nat) : Rat) = (Py.round (-x * Py.pow10 n) : Rat) := by
      have := Int.toNat_of_nonneg hnn
      exact_mod_cast congrArg (fun z : Int => (z : Rat)) this
    have hneg : Py.round (-x * Py.pow10 n) = -Py.round (x * Py.pow10 n) := by
      rw [show -x * Py.pow10 n = -(x * Py.pow10 n) by ring, round_neg]
    simp only [hx, decide_true, if_true]
    rw [hcast, hneg]
    push_cast
    ring
  · have hx0 : 0 ≤ x := not_lt.mp hx
    have hnn : 0 ≤ Py.round (x * Py.pow10 n) := round_nonneg (by nlinarith)
    have hcast : (((Py.round (x * Py.pow10 n)).toNat : Nat) : Rat) = (Py.round (x * Py.pow10 n) : Rat) := by
      have := Int.toNat_of_nonneg hnn
      exact_mod_cast congrArg (fun z : Int => (z : Rat)) this
    simp only [hx, decide_false, Bool.false_eq_true, if_false]
    rw [hcast]
    ring

theorem markEnds_single (x : String) : markEnds [x] = [">" ++ ("<" ++ x)] := by
  simp [markEnds]

/-- With two or more labels the first gets `<`, the last gets `>`, the others are untouched. -/
theorem markEnds_ends (x y : String) (mid : List String) :
    markEnds (x :: (mid ++ [y])) = ("<" ++ x) :: (mid ++ [">" ++ y]) := by
  simp [markEnds, List.reverse_append]

/-- `ordinal_dictionary[x]`: no integer key equal to the number -> `''`. -/
theorem ordLookup_none (d : List (Int × String)) (x : Rat) (h : ∀ kv ∈ d, (kv.1 : Rat) ≠ x) :
    ordLookup d x = "" := by
  unfold ordLookup
  have : d.find? (fun kv => decide ((kv.1 : Rat) = x)) = none := by
    rw [List.find?_eq_none]
    intro kv hkv
    simpa using h kv hkv
  rw [this]

/-- `ordinal_dictionary[x]`: the text of the (unique) key equal to the number. -/
theorem ordLookup_some (d : List (Int × String)) (x : Rat) (k : Int) (t : String)
    (hmem : (k, t) ∈ d) (hx : (k : Rat) = x)
    (huniq : ∀ kv ∈ d, kv.1 = k → kv.2 = t) : ordLookup d x = t := by
  unfold ordLookup
  cases hf : d.find? (fun kv => decide ((kv.1 : Rat) = x)) with
  | none =>
    rw [List.find?_eq_none] at hf
    have := hf (k, t) hmem
    simp [hx] at this
  | some kv =>
    have hp := List.find?_some hf
    have hm := List.mem_of_find?_eq_some hf
    simp only [decide_eq_true_eq] at hp
    have hk : kv.1 = k := by
      have : (kv.1 : Rat) = (k : Rat) := by rw [hp, hx]
      exact_mod_cast this
    exact huniq kv hm hk

/-- What the constructors guarantee about a legend (proved below for both kinds of parameters). -/
structure Legend.WF (l : Legend) : Prop where
  seg_pos : 1 ≤ l.segCount
  segH_pos : 0 < l.segH
  segW_pos : 0 < l.segW
  cat : ∀ c, l.par.cat = some c → c.domain ≠ [] ∧ c.domain.length + 1 = l.segCount ∧
    l.par.colors.length = l.segCount ∧ ∀ ns, c.names = some ns → ns.length = l.segCount

theorem dims_pos (sh sw th : Option Rat) (vertical : Bool)
    (h : ¬ (sh.any (fun x => decide (x ≤ 0)) ∨ sw.any (fun x => decide (x ≤ 0))
      ∨ th.any (fun x => decide (x ≤ 0)))) :
    0 < sh.getD 1 ∧ 0 < th.getD (sh.getD 1 * (33 / 100)) ∧
    0 < (match sw with
      | some w => w
      | none => if vertical then 1 else th.getD (sh.getD 1 * (33 / 100)) * 5) := by
  have h1 : 0 < sh.getD 1 := by
    cases sh with
    | none => simp
    | some x => simp at h ⊢; linarith [h.1]
  have h2 : 0 < th.getD (sh.getD 1 * (33 / 100)) := by
    cases th with
    | none => simp; linarith
    | some x => simp at h ⊢; linarith [h.2.2]
  refine ⟨h1, h2, ?_⟩
  cases sw with
  | none =>
    cases vertical
    · simp; linarith
    · simp
  | some w => simp at h ⊢; linarith [h.2.1]

end Leg
