/-
  C18 round 4 — lemmas about histories with read-only query methods.  Mathlib-free.
-/
import Ladybug.Model.LazyQuery
import Ladybug.Proofs.C18Lemmas

namespace Lazy

section
variable {Cfg Slot Val Field FVal Q Ans : Type} [DecidableEq Slot]

/-- a run of reads does not change the configuration -/
theorem reads_cfg (S : Spec Cfg Slot Val Field FVal) :
    ∀ (is : List Slot) (o : Obj Cfg Slot Val), (run S o (is.map Op.read)).2.cfg = o.cfg
  | [], _ => rfl
  | i :: is, o => by
    have hc : (read S o i).2.cfg = o.cfg := by
      unfold read; split <;> rfl
    simp only [List.map, run]
    rw [reads_cfg S is, hc]

/-- one step: on a coherent object the output is the specified one, the object stays coherent and its
configuration is the public state -/
theorem stepQ_spec (S : Spec Cfg Slot Val Field FVal) (H : Frame S) (valid : Field → FVal → Cfg → Bool)
    (Qs : Q → Query Cfg Slot Val Ans) (o : Obj Cfg Slot Val) (h : Coh S o) (op : QOp Slot Field FVal Q) :
    (stepQ S valid Qs o op).2 :: [] = expectedQ S valid Qs o.cfg [op] ∧
    Coh S (stepQ S valid Qs o op).1 ∧
    (stepQ S valid Qs o op).1.cfg = publicCfgQ S valid o.cfg [op] := by
  cases op with
  | read i =>
    obtain ⟨h1, h2, h3⟩ := read_spec S o i h
    simp only [stepQ, expectedQ, publicCfgQ]
    exact ⟨by rw [h1], h2, h3⟩
  | set k x =>
    by_cases hv : valid k x o.cfg = true
    · refine ⟨by simp [stepQ, expectedQ, hv], ?_, by simp [stepQ, publicCfgQ, hv, set]⟩
      have : (stepQ S valid Qs o (.set k x)).1 = set S o k x := by simp [stepQ, hv]
      rw [this]; exact set_coh S o k x H h
    · have hv' : valid k x o.cfg = false := by simpa using hv
      refine ⟨by simp [stepQ, expectedQ, hv'], ?_, by simp [stepQ, publicCfgQ, hv']⟩
      have : (stepQ S valid Qs o (.set k x)).1 = o := by simp [stepQ, hv']
      rw [this]; exact h
  | use q =>
    obtain ⟨r1, r2⟩ := reads_spec S (Qs q).loads o h
    simp only [stepQ, expectedQ, publicCfgQ, Query.spec]
    exact ⟨by rw [r1], r2, reads_cfg S (Qs q).loads o⟩

theorem expectedQ_cons (S : Spec Cfg Slot Val Field FVal) (valid : Field → FVal → Cfg → Bool)
    (Qs : Q → Query Cfg Slot Val Ans) (c : Cfg) (op : QOp Slot Field FVal Q)
    (ops : List (QOp Slot Field FVal Q)) :
    expectedQ S valid Qs c (op :: ops) =
      expectedQ S valid Qs c [op] ++ expectedQ S valid Qs (publicCfgQ S valid c [op]) ops := by
  cases op with
  | read i => simp [expectedQ, publicCfgQ]
  | use q => simp [expectedQ, publicCfgQ]
  | set k x =>
    by_cases hv : valid k x c = true
    · simp [expectedQ, publicCfgQ, hv]
    · simp [expectedQ, publicCfgQ, hv]

theorem publicCfgQ_cons (S : Spec Cfg Slot Val Field FVal) (valid : Field → FVal → Cfg → Bool) (c : Cfg)
    (op : QOp Slot Field FVal Q) (ops : List (QOp Slot Field FVal Q)) :
    publicCfgQ S valid c (op :: ops) = publicCfgQ S valid (publicCfgQ S valid c [op]) ops := by
  cases op with
  | read i => simp [publicCfgQ]
  | use q => simp [publicCfgQ]
  | set k x =>
    by_cases hv : valid k x c = true
    · simp [publicCfgQ, hv]
    · simp [publicCfgQ, hv]

/-- whole histories -/
theorem runQ_spec (S : Spec Cfg Slot Val Field FVal) (H : Frame S) (valid : Field → FVal → Cfg → Bool)
    (Qs : Q → Query Cfg Slot Val Ans) :
    ∀ (ops : List (QOp Slot Field FVal Q)) (o : Obj Cfg Slot Val), Coh S o →
      (runQ S valid Qs o ops).1 = expectedQ S valid Qs o.cfg ops ∧
      Coh S (runQ S valid Qs o ops).2 ∧
      (runQ S valid Qs o ops).2.cfg = publicCfgQ S valid o.cfg ops := by
  intro ops
  induction ops with
  | nil => intro o h; exact ⟨rfl, h, rfl⟩
  | cons op ops ih =>
    intro o h
    obtain ⟨s1, s2, s3⟩ := stepQ_spec S H valid Qs o h op
    obtain ⟨r1, r2, r3⟩ := ih (stepQ S valid Qs o op).1 s2
    simp only [runQ]
    refine ⟨?_, r2, ?_⟩
    · rw [expectedQ_cons, ← s1, r1, s3]; rfl
    · rw [r3, s3, ← publicCfgQ_cons]

/-- query-method calls do not enter the public state -/
theorem publicCfgQ_dropUse (S : Spec Cfg Slot Val Field FVal) (valid : Field → FVal → Cfg → Bool) :
    ∀ (ops : List (QOp Slot Field FVal Q)) (c : Cfg),
      publicCfgQ S valid c (dropUse ops) = publicCfgQ S valid c ops
  | [], _ => rfl
  | .use _ :: ops, c => by simp only [dropUse, publicCfgQ]; exact publicCfgQ_dropUse S valid ops c
  | .read _ :: ops, c => by simp only [dropUse, publicCfgQ]; exact publicCfgQ_dropUse S valid ops c
  | .set k x :: ops, c => by
    by_cases hv : valid k x c = true
    · simp only [dropUse, publicCfgQ, hv, if_true]; exact publicCfgQ_dropUse S valid ops _
    · simp only [dropUse, publicCfgQ, hv]; simpa using publicCfgQ_dropUse S valid ops c

@[simp] theorem isAns_val (v : Val) : (QOut.val v : QOut Val Ans).isAns = false := rfl
@[simp] theorem isAns_done : (QOut.done : QOut Val Ans).isAns = false := rfl
@[simp] theorem isAns_refused : (QOut.refused : QOut Val Ans).isAns = false := rfl
@[simp] theorem isAns_ans (a : Ans) : (QOut.ans a : QOut Val Ans).isAns = true := rfl

/-- the specified outputs of the reads and setter calls are those of the history without the queries -/
theorem expectedQ_dropUse (S : Spec Cfg Slot Val Field FVal) (valid : Field → FVal → Cfg → Bool)
    (Qs : Q → Query Cfg Slot Val Ans) :
    ∀ (ops : List (QOp Slot Field FVal Q)) (c : Cfg),
      (expectedQ S valid Qs c ops).filter (fun o => !o.isAns) = expectedQ S valid Qs c (dropUse ops)
  | [], _ => rfl
  | .use _ :: ops, c => by
    have ih := expectedQ_dropUse S valid Qs ops c
    simp [dropUse, expectedQ, ih]
  | .read _ :: ops, c => by
    have ih := expectedQ_dropUse S valid Qs ops c
    simp [dropUse, expectedQ, ih]
  | .set k x :: ops, c => by
    by_cases hv : valid k x c = true
    · have ih := expectedQ_dropUse S valid Qs ops (S.upd k x c)
      simp [dropUse, expectedQ, hv, ih]
    · have ih := expectedQ_dropUse S valid Qs ops c
      simp [dropUse, expectedQ, hv, ih]

end

end Lazy

namespace Lazy

section
variable {Cfg Slot Val Field FVal Q Ans : Type} [DecidableEq Slot]

theorem stepW_other (S : Spec Cfg Slot Val Field FVal) (valid : Field → FVal → Cfg → Bool)
    (Qs : Q → Query Cfg Slot Val Ans) (w : Nat → Obj Cfg Slot Val) (j k : Nat)
    (op : QOp Slot Field FVal Q) (h : k ≠ j) : stepW S valid Qs w j op k = w k := by
  simp [stepW, h]

/-- operations addressed to other objects leave object `k` as it is -/
theorem runW_other (S : Spec Cfg Slot Val Field FVal) (valid : Field → FVal → Cfg → Bool)
    (Qs : Q → Query Cfg Slot Val Ans) (k : Nat) :
    ∀ (ops : List (Nat × QOp Slot Field FVal Q)) (w : Nat → Obj Cfg Slot Val),
      (∀ p ∈ ops, p.1 ≠ k) → runW S valid Qs w ops k = w k
  | [], _, _ => rfl
  | (j, op) :: ops, w, h => by
    have hj : k ≠ j := fun e => h (j, op) (List.mem_cons_self ..) e.symm
    simp only [runW]
    rw [runW_other S valid Qs k ops _ (fun p hp => h p (List.mem_cons_of_mem _ hp))]
    exact stepW_other S valid Qs w j k op hj

end

end Lazy
