/-
  C07 — round-trip laws of the ColorRange / LegendParameters / LegendParametersCategorized /
  Legend codecs (Model/Serial/Legend.lean).  No Mathlib.
-/
import Ladybug.Model.Serial.Legend

namespace Codec

theorem Col.law : Law Col.enc Col.rd.dec Col.wf := by
  intro c h
  obtain ⟨h1, h2, h3, h4⟩ := h
  simp [Col.enc, Col.rd, RecDec.dec, PyVal.env?, jsonRT_dict, kv, Col.run, chan, h1, h2, h3, h4]

theorem decColors_roundtrip (cs : List Col) (h : ∀ x ∈ cs, x.wf) :
    decColors (cs.map (jsonRT ∘ Col.enc)) = some cs :=
  decList_map _ _ _ (fun a ha => Col.law a (h a ha))

theorem decNums_enc (d : List Num) : decNums (d.map Num.enc) = some d :=
  decList_map _ _ _ (fun a _ => num?_enc a)

theorem map_toFloat_flt (d : List Num) (h : ∀ n ∈ d, ∃ b, n = .flt b) : d.map Num.toFloat = d := by
  induction d with
  | nil => rfl
  | cons x xs ih =>
    obtain ⟨b, rfl⟩ := h x (by simp)
    simp [Num.toFloat, ih (fun n hn => h n (by simp [hn]))]

theorem jsonRT_comp_numEnc : (jsonRT ∘ Num.enc) = Num.enc := by
  funext n; simp

theorem map_jsonRT_numEnc (d : List Num) : (d.map Num.enc).map jsonRT = d.map Num.enc := by
  rw [List.map_map, jsonRT_comp_numEnc]

theorem strList_stable : ∀ l : List String, (l.map PyVal.str).map jsonRT = l.map PyVal.str
  | [] => rfl
  | x :: xs => by
    have ih := strList_stable xs
    simp only [List.map_cons, jsonRT_str, ih]

/-! ### ColorRange -/

theorem CRange.mkDomain_wf (cols : List Col) (dom : List Num) (cont : Bool) (hcw : ∀ x ∈ cols, x.wf)
   (hflt : ∀ n ∈ dom, ∃ b, n = .flt b) (hs : SortedNum dom) (hd : dom ≠ [])
   (hde : (dom.map Num.enc).isEmpty = false)
   (hlen : (if cont then
      dom.length ≤ cols.length ∧
      (∀ lo hi, dom = [lo, hi] → 2 ≤ cols.length ∧ remapBits cols.length lo hi = [lo, hi])
   else dom.length < cols.length)) :
   CRange.mkDomain cols.length cont (.list (dom.map Num.enc)) = some dom := by
  have e2 := decNums_enc dom
  have e3 := map_toFloat_flt dom hflt
  have e4 := sortNum_sorted dom hs
  simp only [CRange.mkDomain, PyVal.truthy, hde, PyVal.list?, e2, e3, e4, Bool.not_false,
      Bool.not_true, Bool.false_eq_true, if_false, Option.bind_eq_bind, Option.bind_some,
      Option.pure_def]
  cases cont with
  | false =>
    simp only [Bool.false_eq_true, if_false] at hlen ⊢
    simp [hlen]
  | true =>
    simp only [if_true] at hlen ⊢
    obtain ⟨hl, hr⟩ := hlen
    rcases dom with _ | ⟨a, _ | ⟨b, _ | ⟨c, r⟩⟩⟩
    · exact absurd rfl hd
    · simp at hl ⊢; intro e; subst e; simp at hl
    · obtain ⟨h2, hre⟩ := hr a b rfl
      have : ¬ cols.length ≤ 1 := by omega
      show (if cols.length ≤ 1 then none else some (remapBits cols.length a b)) = some [a, b]
      rw [if_neg this, hre]
    · simp at hl ⊢; omega

theorem CRange.law : Law CRange.enc CRange.rd.dec CRange.wf := by
  intro c h
  rcases c with ⟨cols, dom, cont⟩
  obtain ⟨hc, hcw, hd, hflt, hs, hlen⟩ := h
  have e1 := decColors_roundtrip cols hcw
  have hce : cols.isEmpty = false := by
    cases cols with
    | nil => exact absurd rfl hc
    | cons _ _ => rfl
  have hde : (dom.map Num.enc).isEmpty = false := by
    cases dom with
    | nil => exact absurd rfl hd
    | cons _ _ => rfl
  have hdom := CRange.mkDomain_wf cols dom cont hcw hflt hs hd hde hlen
  simp only [CRange.enc, RecDec.dec_dict, CRange.rd, CRange.run, jsonRT_dict, kv]
  simp only [List.map_cons, List.map_nil, keyStr_str, jsonRT_list, jsonRT_tuple, jsonRT_bool,
    jsonRT_str]
  simp [CRange.make, noneArg, PyVal.list?]
  have hne : cols ≠ [] := hc
  rw [e1, jsonRT_comp_numEnc]
  simp [hne, hdom]

/-! ### LegendParameters -/

theorem defArg_bool (b : Bool) : defArg (some (.bool b)) = .bool b := by simp [defArg, PyVal.isTag]
theorem defArg_int (i : Int) : defArg (some (.int i)) = .int i := by simp [defArg, PyVal.isTag]
theorem defArg_str (s : String) : defArg (some (.str s)) = .str s := by simp [defArg, PyVal.isTag]
theorem defArg_none : defArg (some .none) = .none := by simp [defArg, PyVal.isTag]
theorem defArg_missing : defArg Option.none = .none := rfl
theorem defArg_list (l : List PyVal) : defArg (some (.list l)) = .list l := by
  simp [defArg, PyVal.isTag]
theorem defArg_num (n : Num) : defArg (some n.enc) = n.enc := by
  cases n <;> simp [defArg, PyVal.isTag, Num.enc]

theorem optNum_enc (n : Num) : optNum n.enc = some (some n) := by cases n <;> rfl

theorem decOrdKV_roundtrip (o : List (Int × PyVal)) (h : ∀ q ∈ o, jsonRT q.2 = q.2) :
    decOrdKV ((o.map fun p => (Key.int p.1, p.2)).map fun p => (keyStr p.1, jsonRT p.2)) = some o := by
  induction o with
  | nil => rfl
  | cons x xs ih =>
    rcases x with ⟨i, v⟩
    have hv : jsonRT v = v := h (i, v) (by simp)
    simp only [List.map, decOrdKV, keyStr_toInt, hv, ih (fun q hq => h q (by simp [hq])),
      Option.bind_eq_bind, Option.bind_some, Option.pure_def]

/-- A dictionary with integer keys is never the `{'type': 'Default'}` placeholder. -/
theorem isTag_intKeys (o : List (Int × PyVal)) (tag : String) :
    (PyVal.dict ((o.map fun p => (Key.int p.1, p.2)).map fun p => (keyStr p.1, jsonRT p.2))).isTag tag
      = false ∨ o.length = 1 := by
  rcases o with _ | ⟨a, _ | ⟨b, r⟩⟩
  · left; rfl
  · right; rfl
  · left; simp [PyVal.isTag]

/-! ### lookups in dictionaries built from optional keys -/

def orElse' (a b : Option PyVal) : Option PyVal := match a with | some v => some v | Option.none => b

theorem lookupKV_append (k : String) (a b : List (Key × PyVal)) :
    lookupKV k (a ++ b) = orElse' (lookupKV k a) (lookupKV k b) := by
  induction a with
  | nil => rfl
  | cons x xs ih =>
    rcases x with ⟨kx, v⟩
    cases kx with
    | str s =>
      by_cases hs : s = k
      · simp [lookupKV, hs, orElse']
      · simp [lookupKV, hs, ih]
    | int i => simp [lookupKV, ih]

theorem lookupKV_optKV (k k' : String) (o : Option PyVal) :
    lookupKV k (optKV k' o) = if k' = k then o else Option.none := by
  cases o <;> simp [optKV, kv, lookupKV]

/-- `jsonRT` of a dictionary, key/value-wise (`jm` = the map applied to every binding). -/
def jm (p : Key × PyVal) : Key × PyVal := (keyStr p.1, jsonRT p.2)

theorem jsonRT_dict' (l : List (Key × PyVal)) : jsonRT (.dict l) = .dict (l.map jm) := jsonRT_dict l

theorem map_optKV (k : String) (o : Option PyVal) :
    (optKV k o).map jm = optKV k (o.map jsonRT) := by
  cases o <;> simp [optKV, kv, jm]

theorem jm_kv (k : String) (v : PyVal) : jm (kv k v) = kv k (jsonRT v) := rfl

@[simp] theorem orElse'_some (v : PyVal) (b : Option PyVal) : orElse' (some v) b = some v := rfl
@[simp] theorem orElse'_none (b : Option PyVal) : orElse' Option.none b = b := rfl

theorem lookupKV_kv_cons (k k' : String) (v : PyVal) (r : List (Key × PyVal)) :
    lookupKV k (kv k' v :: r) = if k' = k then some v else lookupKV k r := rfl

/-! field-wise facts used by the LegendParameters laws -/

theorem optNum_field (o : Option Num) :
    optNum (defArg (o.map (jsonRT ∘ Num.enc))) = some o := by
  cases o with
  | none => rfl
  | some n => cases n <;> simp [defArg, PyVal.isTag, Num.enc, optNum, PyVal.num?]

theorem seg_field (o : Option Nat) (h : ∀ n, o = some n → 1 ≤ n) :
    segOf (defArg (o.map (jsonRT ∘ natV))) = some o := by
  cases o with
  | none => rfl
  | some n =>
    have := h n rfl
    simp [defArg, PyVal.isTag, natV, segOf]
    omega

theorem colors_field (o : Option (List Col)) (h : ∀ cs, o = some cs → 2 ≤ cs.length ∧ ∀ x ∈ cs, x.wf) :
    optColors (defArg (o.map (jsonRT ∘ fun cs => PyVal.list (cs.map Col.enc)))) = some o := by
  cases o with
  | none => rfl
  | some cs =>
    obtain ⟨h2, hw⟩ := h cs rfl
    have e := decColors_roundtrip cs hw
    simp only [Option.map, Function.comp, jsonRT_list, List.map_map, defArg_list, optColors,
      PyVal.list?, e, Option.bind_eq_bind, Option.bind_some, h2, if_true]

theorem title_field (o : Option String) :
    optStrD (defArg (o.map (jsonRT ∘ PyVal.str))) = some o := by
  cases o <;> simp [defArg, PyVal.isTag, optStrD]

theorem user_field (o : Option (List (Key × PyVal))) (h : ∀ u, o = some u → jsonRT (.dict u) = .dict u) :
    optUser (noneArg (o.map (jsonRT ∘ PyVal.dict))) = some o := by
  cases o with
  | none => rfl
  | some u => simp [noneArg, h u rfl, optUser]

/-- An ordinal dictionary with no or several entries is never mistaken for the
    `{'type': 'Default'}` placeholder (with exactly one entry the key would have to be the text
    "type", which no decimal number is; that fact about `Int.repr` is not proved here and is a
    side condition of `LP.wf`). -/
theorem ordinal_notTag_of_length (l : List (Int × PyVal)) (h : l.length ≠ 1) :
    (jsonRT (encOrdinal (some l))).isTag "Default" = false := by
  simp only [encOrdinal, jsonRT_dict]
  rcases l with _ | ⟨a, _ | ⟨b, r⟩⟩
  · rfl
  · exact absurd rfl h
  · simp [PyVal.isTag]

theorem ordinal_field (o : Option (List (Int × PyVal)))
    (h : ∀ l, o = some l → ∀ q ∈ l, jsonRT q.2 = q.2)
    (ht : (jsonRT (encOrdinal o)).isTag "Default" = false) :
    decOrdinal (defArg (some (jsonRT (encOrdinal o)))) = some o := by
  cases o with
  | none => simp [encOrdinal, defArg, PyVal.isTag, decOrdinal]
  | some l =>
    have e := decOrdKV_roundtrip l (h l rfl)
    simp only [defArg, ht, Bool.false_eq_true, if_false]
    simp only [encOrdinal, jsonRT_dict, decOrdinal, e, Option.map]

@[simp] theorem orElse'_none_right (a : Option PyVal) : orElse' a Option.none = a := by
  cases a <;> rfl


end Codec

namespace Codec

theorem LP.law : Law LP.enc LP.rd.dec LP.wf := by
  intro p h
  rcases p with ⟨mn, mx, seg, cols, title, cont, ord, dec, ils, vert, font, user⟩
  obtain ⟨hmm, hseg, hcols, hord, hordt, huser⟩ := h
  simp only at hmm hseg hcols hord hordt huser
  simp only [LP.enc, LP.baseKV, jsonRT_dict', List.map_append, map_optKV, List.map_cons,
    List.map_nil, jm_kv, List.append_assoc]
  rw [RecDec.dec_dict]
  simp only [LP.rd, LP.run]
  simp [lookupKV_append, lookupKV_optKV, kv, typeIs]
  simp only [LP.make, optNum_field, seg_field seg hseg, colors_field cols hcols, title_field,
    user_field user huser, ordinal_field ord hord hordt, defArg_bool, defArg_int, defArg_str,
    optBoolD, decOf, fontOf, PyVal.truthy, hmm, Option.bind_eq_bind, Option.bind_some, Option.pure_def,
    Bool.not_true, Bool.false_eq_true, if_false]

end Codec

namespace Codec

theorem decNames_str (ns : List String) : decNames (ns.map PyVal.str) = some ns :=
  decList_map _ _ _ (fun _ _ => rfl)

theorem isEmpty_map_toFloat (d : List Num) (h : d ≠ []) : (d.map Num.toFloat).isEmpty = false := by
  cases d with
  | nil => exact absurd rfl h
  | cons _ _ => rfl

/-- What reading the written dictionary of categorized parameters gives: the parameters with
    the *written* names stored as explicit names. -/
theorem LPC.read (gen : LPC → List String) (p : LPC) (h : p.wfBase)
    (hn : (LPC.writtenNames gen p).length = p.domain.length + 1) :
    LPC.rd.dec (jsonRT (LPC.enc gen p)) = some { p with names := some (LPC.writtenNames gen p) } := by
  obtain ⟨hd, hflt, hs, hcl, hcw, huser⟩ := h
  generalize hw : LPC.writtenNames gen p = wn at hn ⊢
  rcases p with ⟨dom, cols, names, title, ccol, cleg, dec, ils, vert, font, user⟩
  simp only at hd hflt hs hcl hcw huser hn
  have e1 := decColors_roundtrip cols hcw
  have e2 := decNums_enc dom
  have e3 := map_toFloat_flt dom hflt
  have e4 := sortNum_sorted dom hs
  have e5 := decNames_str wn
  have e6 := isEmpty_map_toFloat dom hd
  simp only [LPC.enc, LP.baseKV, hw, jsonRT_dict', List.map_append, map_optKV, List.map_cons,
    List.map_nil, jm_kv, List.append_assoc]
  rw [RecDec.dec_dict]
  simp only [LPC.rd, LPC.run]
  simp [lookupKV_append, lookupKV_optKV, kv, typeIs]
  simp only [LPC.make, Function.comp, jsonRT_list, jsonRT_tuple, List.map_map, jsonRT_comp_numEnc,
    Option.bind_eq_bind, Option.bind_some, PyVal.list?, e1, e2, e4, e3, e6, hcl, title_field,
    user_field user huser, defArg_bool, defArg_int, defArg_str, defArg_list, optBoolD, decOf, fontOf,
    Option.pure_def, Bool.false_eq_true, if_false, bne_self_eq_false]
  have : (List.map (jsonRT ∘ PyVal.str) wn) = wn.map PyVal.str := by
    apply List.map_congr_left; intro a _; simp
  simp [this, e5, hn, hd]

end Codec

namespace Codec

theorem LPC.law (gen : LPC → List String) : Law (LPC.enc gen) LPC.rd.dec LPC.wf := by
  intro p h
  obtain ⟨hd, hflt, hs, hcl, hcw, ⟨ns, hns, hlen⟩, huser⟩ := h
  have hne : ns ≠ [] := by intro e; subst e; simp at hlen
  have hw : LPC.writtenNames gen p = ns := by
    cases ns with
    | nil => exact absurd rfl hne
    | cons a r => simp [LPC.writtenNames, hns]
  have := LPC.read gen p ⟨hd, hflt, hs, hcl, hcw, huser⟩ (by rw [hw]; exact hlen)
  rw [this, hw]
  rcases p with ⟨dom, cols, names, title, ccol, cleg, dec, ils, vert, font, user⟩
  simp only at hns
  simp [hns]

/-- Categorized parameters created *without* category names do not read back as themselves: the
    generated names are written, and the reader stores them as explicit names, which
    `LegendParametersCategorized.__eq__` compares (`_category_names`).
    Finding C07-legend-categorized-default-names. -/
theorem LPC.default_names (gen : LPC → List String) (p : LPC) (h : p.wfBase) (hn : p.names = Option.none)
    (hg : (gen p).length = p.domain.length + 1) :
    LPC.rd.dec (jsonRT (LPC.enc gen p)) = some { p with names := some (gen p) } := by
  have hw : LPC.writtenNames gen p = gen p := by simp [LPC.writtenNames, hn]
  have := LPC.read gen p h (by rw [hw]; exact hg)
  rw [this, hw]

/-! ### Legend -/

theorem Leg.law : Law Leg.enc Leg.rd.dec Leg.wf := by
  intro l h
  rcases l with ⟨vals, par, mnD, mxD⟩
  obtain ⟨hv, hp, ⟨a, ha⟩, ⟨b, hb⟩, ⟨b1, h1⟩, ⟨b2, h2⟩⟩ := h
  simp only at hv hp ha hb h1 h2
  subst h1 h2
  have lp := LP.law par hp
  have e2 := decNums_enc vals
  have hve : vals.isEmpty = false := by
    cases vals with
    | nil => exact absurd rfl hv
    | cons _ _ => rfl
  have hmm : minLeMax (some a) (some b) = true := by
    have := hp.1; rw [ha, hb] at this; exact this
  have hdict : ∃ kvs, jsonRT par.enc = .dict kvs := ⟨_, jsonRT_dict _⟩
  obtain ⟨kvs, hk⟩ := hdict
  rw [hk] at lp
  simp only [Leg.enc, jsonRT_dict', List.map_cons, List.map_nil, jm_kv, hk, jsonRT_tuple,
    map_jsonRT_numEnc, jsonRT_bool, jsonRT_str]
  rw [RecDec.dec_dict]
  simp only [Leg.rd, Leg.run]
  simp [kv]
  rcases par with ⟨mn, mx, seg, cols, title, cont, ord, dec, ils, vert, font, user⟩
  simp only at ha hb
  subst ha hb
  simp [Leg.make, PyVal.list?, e2, hv, noneArg, lp, hmm]

end Codec
