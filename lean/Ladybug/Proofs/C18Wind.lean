/-
  Real-analysis facts behind the WindProfile clauses of C18 (power law / log law over ℝ).
-/
import Mathlib.Analysis.SpecialFunctions.Pow.Real
import Ladybug.Model.WindProfile

namespace Wind

noncomputable def rpw (x y : ℝ) : ℝ := x ^ y
noncomputable def rlg (x : ℝ) : ℝ := Real.log x

theorem pow_identity (h blh a v : ℝ) (hh : 0 < h) (hb : 0 < blh) :
    rpw (h / blh) a * (v * rpw (blh / h) a) = v := by
  unfold rpw
  have h1 : (h / blh) ^ a * (blh / h) ^ a = 1 := by
    rw [← Real.mul_rpow (le_of_lt (div_pos hh hb)) (le_of_lt (div_pos hb hh))]
    have : h / blh * (blh / h) = 1 := by field_simp
    rw [this, Real.one_rpow]
  calc (h / blh) ^ a * (v * (blh / h) ^ a) = v * ((h / blh) ^ a * (blh / h) ^ a) := by ring
    _ = v := by rw [h1, mul_one]

theorem log_pos_of_gt (h z : ℝ) (hz : 0 < z) (hh : z < h) : 0 < rlg (h / z) := by
  unfold rlg
  apply Real.log_pos
  rw [lt_div_iff₀ hz]; linarith

theorem log_identity (h z v : ℝ) (hz : 0 < z) (hh : z < h) :
    v * (rlg (h / z) / rlg (h / z)) = v := by
  have := log_pos_of_gt h z hz hh
  rw [div_self (ne_of_gt this), mul_one]

theorem pow_mono (h1 h2 blh a v d : ℝ) (h0 : 0 ≤ h1) (h12 : h1 ≤ h2) (hb : 0 < blh) (ha : 0 ≤ a)
    (hv : 0 ≤ v) (hd : 0 ≤ d) :
    rpw (h1 / blh) a * (v * d) ≤ rpw (h2 / blh) a * (v * d) := by
  unfold rpw
  apply mul_le_mul_of_nonneg_right _ (mul_nonneg hv hd)
  apply Real.rpow_le_rpow (div_nonneg h0 (le_of_lt hb)) _ ha
  exact div_le_div_of_nonneg_right h12 (le_of_lt hb)

theorem log_mono (h1 h2 z v d : ℝ) (hz : 0 < z) (h1z : z < h1) (h12 : h1 ≤ h2) (hv : 0 ≤ v) (hd : 0 < d) :
    v * (rlg (h1 / z) / d) ≤ v * (rlg (h2 / z) / d) := by
  unfold rlg
  apply mul_le_mul_of_nonneg_left _ hv
  apply div_le_div_of_nonneg_right _ (le_of_lt hd)
  apply Real.log_le_log (div_pos (lt_trans hz h1z) hz)
  exact div_le_div_of_nonneg_right h12 (le_of_lt hz)

theorem log_nonneg_val (h z v d : ℝ) (hz : 0 < z) (hh : z < h) (hv : 0 ≤ v) (hd : 0 < d) :
    0 ≤ v * (rlg (h / z) / d) :=
  mul_nonneg hv (div_nonneg (le_of_lt (log_pos_of_gt h z hz hh)) (le_of_lt hd))

end Wind
