/-
  C06 (round 3) — lemmas about the history machines of `Model/UnitsHist.lean`:
  the reference-level machine (objects hold references to Header cells, in-place conversions write through
  them, constructors allocate a fresh Header) simulates the value-level machine on every heap built by the
  operations.  Core Lean only.
-/
import Ladybug.Model.UnitsHist

namespace Units
namespace Hist

theorem coll_eta (c : Coll) : ({ T := c.T, unit := c.unit, values := c.values, immutable := c.immutable } : Coll) = c := by
  cases c; rfl

theorem abs_length (h : RHeap) : h.abs.length = h.objs.length := by
  simp [RHeap.abs]

theorem abs_getElem? (h : RHeap) (k : Nat) : h.abs[k]? = (h.objs[k]?).map (view h.cells) := by
  simp [RHeap.abs]

/-- The view of an object only depends on the Header cell it refers to. -/
theorem view_congr {cells cells' : List Cell} {o : RObj} (h : cells'[o.hdr]? = cells[o.hdr]?) :
    view cells' o = view cells o := by
  simp only [view, h]

/-- An in-place operation on object `t` (writing Header cell `t` and the values of object `t`). -/
theorem abs_upd (h : RHeap) (hinv : h.Inv) {t : Nat} {o : RObj} (ho : h.objs[t]? = some o) (c' : Coll) :
    (RHeap.abs { cells := h.cells.set o.hdr ⟨c'.T, c'.unit⟩,
                 objs := h.objs.set t { o with values := c'.values, imm := c'.immutable } }) = h.abs.set t c' := by
  have hhdr : o.hdr = t := hinv.2 t o ho
  have htl : t < h.objs.length := by
    rcases List.getElem?_eq_some_iff.1 ho with ⟨hl, _⟩
    exact hl
  have htc : t < h.cells.length := by rw [hinv.1]; exact htl
  apply List.ext_getElem?
  intro k
  rw [abs_getElem?]
  simp only
  by_cases hk : t = k
  · subst hk
    rw [List.getElem?_set_self htl, List.getElem?_set_self (by rw [abs_length]; exact htl)]
    simp only [Option.map_some, view, hhdr, List.getElem?_set_self htc]
  · rw [List.getElem?_set_ne hk, List.getElem?_set_ne hk, abs_getElem?]
    cases hok : h.objs[k]? with
    | none => rfl
    | some ok =>
      have hkh : ok.hdr = k := hinv.2 k ok hok
      simp only [Option.map_some]
      congr 1
      apply view_congr
      rw [hhdr, hkh, List.getElem?_set_ne hk]

theorem inv_upd (h : RHeap) (hinv : h.Inv) {t : Nat} {o : RObj} (ho : h.objs[t]? = some o) (c' : Coll) :
    RHeap.Inv { cells := h.cells.set o.hdr ⟨c'.T, c'.unit⟩,
                objs := h.objs.set t { o with values := c'.values, imm := c'.immutable } } := by
  refine ⟨by simp [hinv.1], ?_⟩
  intro k ok hok
  simp only at hok
  by_cases hk : t = k
  · subst hk
    have htl : t < h.objs.length := by
      rcases List.getElem?_eq_some_iff.1 ho with ⟨hl, _⟩
      exact hl
    rw [List.getElem?_set_self htl] at hok
    cases hok
    exact hinv.2 t o ho
  · rw [List.getElem?_set_ne hk] at hok
    exact hinv.2 k ok hok

/-- A constructor: one new Header cell, one new object referring to it. -/
theorem abs_new (h : RHeap) (hinv : h.Inv) (c' : Coll) :
    (RHeap.abs { cells := h.cells ++ [⟨c'.T, c'.unit⟩],
                 objs := h.objs ++ [⟨h.cells.length, c'.values, c'.immutable⟩] }) = h.abs ++ [c'] := by
  simp only [RHeap.abs, List.map_append, List.map_cons, List.map_nil]
  congr 1
  · apply List.map_congr_left
    intro ok hmem
    rcases List.getElem?_of_mem hmem with ⟨k, hk⟩
    have hkh : ok.hdr = k := hinv.2 k ok hk
    have hkl : k < h.cells.length := by
      rw [hinv.1]
      rcases List.getElem?_eq_some_iff.1 hk with ⟨hl, _⟩
      exact hl
    apply view_congr
    rw [hkh, List.getElem?_append_left hkl]
  · simp only [view, List.getElem?_append_right (Nat.le_refl _), Nat.sub_self, List.getElem?_cons_zero]

theorem inv_new (h : RHeap) (hinv : h.Inv) (c' : Coll) :
    RHeap.Inv { cells := h.cells ++ [⟨c'.T, c'.unit⟩],
                objs := h.objs ++ [⟨h.cells.length, c'.values, c'.immutable⟩] } := by
  refine ⟨by simp [hinv.1], ?_⟩
  intro k ok hok
  simp only at hok
  by_cases hk : k < h.objs.length
  · rw [List.getElem?_append_left hk] at hok
    exact hinv.2 k ok hok
  · have hge : h.objs.length ≤ k := Nat.le_of_not_lt hk
    rw [List.getElem?_append_right hge] at hok
    cases hkk : k - h.objs.length with
    | zero =>
      rw [hkk] at hok
      simp only [List.getElem?_cons_zero, Option.some.injEq] at hok
      subst hok
      simp only
      rw [hinv.1]
      omega
    | succ m =>
      rw [hkk] at hok
      simp at hok

/-- ONE STEP: on a heap built by the operations, the reference-level machine does what the value-level machine
    does on the public states, gives the same output, and stays a heap built by the operations. -/
theorem rstep_sim (R : Reg) (h : RHeap) (hinv : h.Inv) (op : Op) :
    (rstep R h op).1.Inv ∧ (rstep R h op).1.abs = (step R h.abs op).1 ∧ (rstep R h op).2 = (step R h.abs op).2 := by
  unfold rstep step
  rw [abs_getElem?]
  cases ho : h.objs[op.target]? with
  | none => exact ⟨hinv, rfl, rfl⟩
  | some o =>
    simp only [Option.map_some]
    cases hact : act R (view h.cells o) op with
    | upd c' => exact ⟨inv_upd h hinv ho c', abs_upd h hinv ho c', rfl⟩
    | new c' => exact ⟨inv_new h hinv c', abs_new h hinv c', by simp [abs_length]⟩
    | obs b => exact ⟨hinv, rfl, rfl⟩
    | refuse e => exact ⟨hinv, rfl, rfl⟩

/-- HISTORIES (induction over the op list). -/
theorem rrun_sim (R : Reg) (ops : List Op) : ∀ (h : RHeap), h.Inv →
    (rrun R h ops).1.Inv ∧ (rrun R h ops).1.abs = (run R h.abs ops).1 ∧ (rrun R h ops).2 = (run R h.abs ops).2 := by
  induction ops with
  | nil => intro h hinv; exact ⟨hinv, rfl, rfl⟩
  | cons op ops ih =>
    intro h hinv
    obtain ⟨hi, ha, ho⟩ := rstep_sim R h hinv op
    obtain ⟨hi2, ha2, ho2⟩ := ih (rstep R h op).1 hi
    simp only [rrun, run]
    rw [← ha]
    exact ⟨hi2, ha2, by rw [ho, ho2]⟩

theorem fresh_inv (cs : List Coll) : (RHeap.fresh cs).Inv := by
  refine ⟨by simp [RHeap.fresh], ?_⟩
  intro k o hk
  simp only [RHeap.fresh, List.getElem?_zipWith] at hk
  cases h1 : (List.range cs.length)[k]? with
  | none => simp [h1] at hk
  | some a =>
    cases h2 : cs[k]? with
    | none => simp [h1, h2] at hk
    | some c =>
      simp only [h1, h2, Option.some.injEq] at hk
      have : a = k := by
        rcases List.getElem?_eq_some_iff.1 h1 with ⟨hl, he⟩
        simpa using he.symm
      subst hk
      exact this

theorem fresh_abs (cs : List Coll) : (RHeap.fresh cs).abs = cs := by
  apply List.ext_getElem?
  intro k
  rw [abs_getElem?]
  simp only [RHeap.fresh, List.getElem?_zipWith]
  cases h2 : cs[k]? with
  | none => simp
  | some c =>
    have hk : k < cs.length := by
      rcases List.getElem?_eq_some_iff.1 h2 with ⟨hl, _⟩
      exact hl
    have h1 : (List.range cs.length)[k]? = some k := by simp [hk]
    simp only [h1, Option.map_some, view, List.getElem?_map, h2]

/-- A refused operation changes nothing (value level). -/
theorem step_refused (R : Reg) (h : List Coll) (op : Op) (e : HErr) (hr : (step R h op).2 = .err e) :
    (step R h op).1 = h := by
  unfold step at hr ⊢
  cases ho : h[op.target]? with
  | none => rfl
  | some c =>
    simp only [ho] at hr ⊢
    cases hact : act R c op with
    | upd c' => simp [hact] at hr
    | new c' => simp [hact] at hr
    | obs b => rfl
    | refuse e' => rfl

/-- A refused operation changes nothing (reference level: no Header cell, no object). -/
theorem rstep_refused (R : Reg) (h : RHeap) (op : Op) (e : HErr) (hr : (rstep R h op).2 = .err e) :
    (rstep R h op).1 = h := by
  unfold rstep at hr ⊢
  cases ho : h.objs[op.target]? with
  | none => rfl
  | some o =>
    simp only [ho] at hr ⊢
    cases hact : act R (view h.cells o) op with
    | upd c' => simp [hact] at hr
    | new c' => simp [hact] at hr
    | obs b => rfl
    | refuse e' => rfl

/-- A read changes nothing. -/
theorem step_read (R : Reg) (h : List Coll) (op : Op) (hr : op.isRead = true) : (step R h op).1 = h := by
  cases op <;> simp [Op.isRead] at hr
  unfold step
  cases ho : h[(Op.rng _).target]? with
  | none => rfl
  | some c =>
    simp only [act]
    cases c.T.isInRange c.values (some c.unit) <;> rfl

/-- Objects other than the target keep their public state, whatever the operation. -/
theorem step_frame (R : Reg) (h : List Coll) (op : Op) (j : Nat) (hj : j ≠ op.target) (hjl : j < h.length) :
    (step R h op).1[j]? = h[j]? := by
  unfold step
  cases ho : h[op.target]? with
  | none => rfl
  | some c =>
    simp only
    cases hact : act R c op with
    | upd c' => simp only; rw [List.getElem?_set_ne (Ne.symm hj)]
    | new c' => simp only; rw [List.getElem?_append_left hjl]
    | obs b => rfl
    | refuse e => rfl

end Hist
end Units
