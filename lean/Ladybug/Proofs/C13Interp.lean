/-
  Helper lemmas for C13: linear interpolation over `Rat` (`xxrange`, `refine`, `holesGo`).
  Imports single Mathlib tactic modules.
-/
import Ladybug.Model.Resample
import Mathlib.Tactic.Ring
import Mathlib.Tactic.FieldSimp
import Mathlib.Tactic.Linarith
import Mathlib.Tactic.NormNum
import Mathlib.Tactic.Positivity

namespace Resample

/-! ### `_xxrange` -/

theorem xxrange_length (a b : Rat) (n : Nat) : (xxrange a b n).length = n := by
  simp [xxrange]

theorem xxrange_getElem? (a b : Rat) (n i : Nat) (hi : i < n) :
    (xxrange a b n)[i]? = some (a + (i : Rat) * ((b - a) / (n : Rat))) := by
  simp [xxrange, hi]

theorem xxrange_zero (a b : Rat) (n : Nat) (hn : 0 < n) : (xxrange a b n)[0]? = some a := by
  rw [xxrange_getElem? a b n 0 hn]; simp

/-- Every value produced by `_xxrange(a, b, n)` lies between `a` and `b`. -/
theorem xxrange_between (a b : Rat) (n : Nat) (x : Rat) (hx : x ∈ xxrange a b n) :
    min a b ≤ x ∧ x ≤ max a b := by
  unfold xxrange at hx
  obtain ⟨i, hi, rfl⟩ := List.mem_map.mp hx
  have hin : i < n := List.mem_range.mp hi
  have hn : (0 : Rat) < n := by exact_mod_cast (by omega : 0 < n)
  have hi0 : (0 : Rat) ≤ i := by positivity
  have hi1 : (i : Rat) ≤ n := by exact_mod_cast (by omega : i ≤ n)
  have e : a + (i : Rat) * ((b - a) / (n : Rat)) = a + ((i : Rat) / n) * (b - a) := by
    field_simp
  rw [e]
  have ht0 : (0 : Rat) ≤ (i : Rat) / n := by positivity
  have ht1 : (i : Rat) / n ≤ 1 := by rw [div_le_one hn]; exact hi1
  rcases le_total a b with hab | hab
  · rw [min_eq_left hab, max_eq_right hab]
    constructor <;> nlinarith [mul_nonneg ht0 (sub_nonneg.2 hab),
      mul_nonneg (sub_nonneg.2 ht1) (sub_nonneg.2 hab)]
  · rw [min_eq_right hab, max_eq_left hab]
    constructor <;> nlinarith [mul_nonneg ht0 (sub_nonneg.2 hab),
      mul_nonneg (sub_nonneg.2 ht1) (sub_nonneg.2 hab)]

theorem sum_range_affine (a c : Rat) (k : Nat) :
    ((List.range k).map fun (i : Nat) => a + (i : Rat) * c).sum = k * a + c * ((k : Rat) * (k - 1) / 2) := by
  induction k with
  | zero => simp
  | succ k ih =>
    rw [List.range_succ, List.map_append, List.sum_append, ih]
    simp
    ring

/-- Sum of one interpolated block: `n·a + (n − 1)/2 · (b − a)`. -/
theorem sum_xxrange (a b : Rat) (n : Nat) (hn : 0 < n) :
    (xxrange a b n).sum = n * a + ((n : Rat) - 1) / 2 * (b - a) := by
  unfold xxrange
  rw [sum_range_affine]
  have : (n : Rat) ≠ 0 := by exact_mod_cast (by omega : n ≠ 0)
  field_simp

/-! ### sums over lists -/

theorem sum_flatMap {γ : Type} (l : List γ) (f : γ → List Rat) :
    (l.flatMap f).sum = (l.map fun x => (f x).sum).sum := by
  induction l with
  | nil => simp
  | cons x xs ih => simp [List.flatMap_cons, List.sum_append, ih]

theorem sum_map_lin {γ : Type} (l : List γ) (f g : γ → Rat) (n c : Rat) :
    (l.map fun d => n * f d + c * (g d - f d)).sum =
      n * (l.map f).sum + c * ((l.map g).sum - (l.map f).sum) := by
  induction l with
  | nil => simp
  | cons x xs ih => simp only [List.map_cons, List.sum_cons, ih]; ring

theorem sum_map_div (l : List Rat) (c : Rat) : (l.map (· / c)).sum = l.sum / c := by
  induction l with
  | nil => simp
  | cons x xs ih => simp only [List.map_cons, List.sum_cons, ih]; ring

/-- The cyclic successor visits every index once: `Σ g((d+1) mod m) = Σ g(d)`. -/
theorem sum_cyclic_succ (g : Nat → Rat) (m : Nat) :
    ((List.range (m + 1)).map fun d => g ((d + 1) % (m + 1))).sum = ((List.range (m + 1)).map g).sum := by
  have h1 : ((List.range (m + 1)).map fun d => g ((d + 1) % (m + 1))) =
      ((List.range m).map fun d => g (d + 1)) ++ [g 0] := by
    rw [List.range_succ, List.map_append]
    congr 1
    · apply List.map_congr_left
      intro d hd
      have : d < m := List.mem_range.mp hd
      rw [Nat.mod_eq_of_lt (by omega)]
    · simp
  have h2 : (List.range (m + 1)).map g = g 0 :: ((List.range m).map fun d => g (d + 1)) := by
    rw [List.range_succ_eq_map]
    simp [Function.comp_def]
  rw [h1, h2, List.sum_append, List.sum_cons]
  simp
  ring

theorem range_map_getD (vals : List Rat) :
    (List.range vals.length).map (fun d => vals.getD d 0) = vals := by
  apply List.ext_getElem
  · simp
  · intro i h1 h2
    simp at h1
    simp [h1]

/-! ### `interpolate_to_timestep` -/

/-- The un-shifted, un-divided refinement sums to `n` times the source total. -/
theorem sum_refine_raw (vals : List Rat) (n : Nat) (hn : 0 < n) :
    (refine vals n false false).sum = n * vals.sum := by
  unfold refine
  simp only [Bool.false_eq_true, if_false]
  rw [sum_flatMap]
  have hb : ∀ d, (xxrange (vals.getD d 0) (vals.getD ((d + 1) % vals.length) 0) n).sum =
      n * vals.getD d 0 + (((n : Rat) - 1) / 2) *
        (vals.getD ((d + 1) % vals.length) 0 - vals.getD d 0) := fun d => sum_xxrange _ _ n hn
  simp only [hb]
  rw [sum_map_lin (List.range vals.length) (fun d => vals.getD d 0)
    (fun d => vals.getD ((d + 1) % vals.length) 0)]
  have hs : ((List.range vals.length).map fun d => vals.getD ((d + 1) % vals.length) 0).sum =
      ((List.range vals.length).map fun d => vals.getD d 0).sum := by
    cases hl : vals.length with
    | zero => simp
    | succ m => exact sum_cyclic_succ (fun d => vals.getD d 0) m
  rw [hs, range_map_getD]
  ring

/-- Indexing a `flatMap` whose blocks all have length `n`. -/
theorem flatMap_getElem? {γ : Type} (f : γ → List Rat) (n : Nat) (hf : ∀ x, (f x).length = n) :
    ∀ (l : List γ) (k i : Nat), i < n →
      (l.flatMap f)[k * n + i]? = (l[k]?).bind fun x => (f x)[i]?
  | [], k, i, _ => by simp
  | x :: xs, 0, i, hi => by
    simp only [List.flatMap_cons, Nat.zero_mul, Nat.zero_add, List.getElem?_cons_zero, Option.bind_some]
    rw [List.getElem?_append_left (by rw [hf]; exact hi)]
  | x :: xs, k + 1, i, hi => by
    simp only [List.flatMap_cons, List.getElem?_cons_succ]
    rw [List.getElem?_append_right (by rw [hf]; nlinarith)]
    rw [hf]
    have : (k + 1) * n + i - n = k * n + i := by
      have : (k + 1) * n = k * n + n := by ring
      omega
    rw [this]
    exact flatMap_getElem? f n hf xs k i hi

/-! ### the hole-filling loop -/

/-- `Filled prev data out`: `out` is the concatenation, over the source data in order, of one block
    per source value; the block ends with the source value itself and everything before it in
    the block lies between the previous source value and this one. -/
inductive Filled : Rat → List (Nat × Rat) → List Rat → Prop
  | nil (prev : Rat) : Filled prev [] []
  | cons (prev : Rat) (m : Nat) (v : Rat) (rest : List (Nat × Rat)) (fill out : List Rat) :
      (∀ x ∈ fill, min prev v ≤ x ∧ x ≤ max prev v) → Filled v rest out →
      Filled prev ((m, v) :: rest) (fill ++ v :: out)

theorem holesGo_filled (year step : Nat) :
    ∀ (data : List (Nat × Rat)) (grid : List Nat) (prev : Rat) (r : List Rat),
      holesGo year step data grid prev = .ok r → Filled prev data r
  | [], _, prev, r, h => by
    simp [holesGo] at h; subst h; exact Filled.nil prev
  | (m, v) :: rest, grid, prev, r, h => by
    unfold holesGo at h
    split at h
    next => cases h
    next g gs =>
      split at h
      next hg =>
        split at h
        next r' hr' =>
          injection h with h
          subst h
          have := holesGo_filled year step rest gs v r' hr'
          exact Filled.cons prev m v rest [] r' (by simp) this
        next => cases h
      next hg =>
        dsimp only at h
        split at h
        next r' hr' =>
          injection h with h
          subst h
          have := holesGo_filled year step rest _ v r' hr'
          refine Filled.cons prev m v rest _ r' ?_ this
          intro x hx
          exact xxrange_between prev v _ x (List.mem_of_mem_tail hx)
        next => cases h

/-! ### more facts about `refine` -/

theorem length_flatMap_const {γ : Type} (f : γ → List Rat) (n : Nat) (hf : ∀ x, (f x).length = n) :
    ∀ l : List γ, (l.flatMap f).length = l.length * n
  | [] => by simp
  | x :: xs => by
    simp only [List.flatMap_cons, List.length_append, List.length_cons, hf,
      length_flatMap_const f n hf xs]
    ring

/-- Python `l[-s:] + l[:-s]` is a rotation of `l`, hence a permutation. -/
theorem shiftRight_perm (l : List Rat) (s : Nat) : (shiftRight l s).Perm l := by
  unfold shiftRight
  by_cases hs : s = 0
  · subst hs
    simp [Py.slice, Py.clampIdx]
  · rw [if_neg hs]
    have hneg : ¬ (0 : Int) ≤ -(s : Int) := by omega
    have e1 : Py.clampIdx l.length (-(s : Int)) = if s ≤ l.length then l.length - s else 0 := by
      unfold Py.clampIdx
      rw [if_neg hneg]
      simp
    have e2 : Py.clampIdx l.length (l.length : Int) = l.length := by
      unfold Py.clampIdx
      simp
    have e3 : Py.clampIdx l.length (0 : Int) = 0 := by
      unfold Py.clampIdx
      simp
    unfold Py.slice
    simp only [e1, e2, e3]
    by_cases hle : s ≤ l.length
    · simp only [hle, if_true, List.drop_zero, Nat.sub_zero]
      have : l.length - (l.length - s) = s := by omega
      rw [this]
      have ht : (List.drop (l.length - s) l).take s = List.drop (l.length - s) l := by
        apply List.take_of_length_le
        simp; omega
      rw [ht]
      exact (List.perm_append_comm).trans (by rw [List.take_append_drop])
    · simp only [hle, if_false, List.drop_zero, Nat.sub_zero, List.take_zero, List.append_nil]
      rw [List.take_of_length_le (by omega)]

theorem sum_perm {l₁ l₂ : List Rat} (h : l₁.Perm l₂) : l₁.sum = l₂.sum := by
  induction h with
  | nil => rfl
  | cons x _ ih => simp [ih]
  | swap x y l => simp only [List.sum_cons]; ring
  | trans _ _ ih1 ih2 => exact ih1.trans ih2

/-- Sum of the refined values for every combination of the two flags. -/
theorem sum_refine (vals : List Rat) (n : Nat) (hn : 0 < n) (divide shift : Bool) :
    (refine vals n divide shift).sum = if divide then vals.sum else n * vals.sum := by
  have hraw := sum_refine_raw vals n hn
  unfold refine at hraw ⊢
  simp only [Bool.false_eq_true, if_false] at hraw
  have hn0 : (n : Rat) ≠ 0 := by exact_mod_cast (by omega : n ≠ 0)
  cases divide <;> cases shift <;> simp only [Bool.false_eq_true, if_false, if_true]
  · exact hraw
  · rw [sum_perm (shiftRight_perm _ _)]; exact hraw
  · rw [sum_map_div, hraw]; field_simp
  · rw [sum_perm (shiftRight_perm _ _), sum_map_div, hraw]; field_simp

theorem length_refine (vals : List Rat) (n : Nat) (divide shift : Bool) :
    (refine vals n divide shift).length = vals.length * n := by
  have hraw : ((List.range vals.length).flatMap fun d =>
      xxrange (vals.getD d 0) (vals.getD ((d + 1) % vals.length) 0) n).length = vals.length * n := by
    rw [length_flatMap_const _ n (fun d => xxrange_length _ _ n)]; simp
  unfold refine
  cases divide <;> cases shift <;>
    simp only [Bool.false_eq_true, if_false, if_true, List.length_map, (shiftRight_perm _ _).length_eq, hraw]

/-- Point-in-time refinement keeps the source values at the source steps. -/
theorem refine_point (vals : List Rat) (n : Nat) (hn : 0 < n) (k : Nat) (hk : k < vals.length) :
    (refine vals n false false)[k * n]? = vals[k]? := by
  unfold refine
  simp only [Bool.false_eq_true, if_false]
  have := flatMap_getElem? (fun d => xxrange (vals.getD d 0) (vals.getD ((d + 1) % vals.length) 0) n) n
    (fun d => xxrange_length _ _ n) (List.range vals.length) k 0 hn
  rw [Nat.add_zero] at this
  rw [this]
  simp [hk, xxrange_zero _ _ n hn]

/-! ### extraction of results -/

theorem interpolateToTimestep_ok (ap : AP) (vals : List Rat) (ts : Nat) (cum : Option Bool)
    (nc pit : Bool) (nap : AP) (out : List Rat)
    (h : interpolateToTimestep ap vals ts cum nc pit = .ok (nap, out)) :
    ts % ap.timestep = 0 ∧
    out = refine vals (ts / ap.timestep) (decide (cum = some true ∨ (cum = none ∧ nc = true))) (!pit) ∧
    out.length = nap.len ∧
    AP.mk? ap.st_month ap.st_day ap.st_hour ap.end_month ap.end_day ap.end_hour ts ap.leap = .ok nap := by
  unfold interpolateToTimestep at h
  split at h
  next => cases h
  next hm =>
    dsimp only at h
    split at h
    next => cases h
    next =>
      split at h
      next => cases h
      next nap' hn =>
        split at h
        next => cases h
        next =>
          split at h
          next => cases h
          next hlen =>
            injection h with h
            injection h with h1 h2
            subst h1; subst h2
            unfold liftAP at hn
            split at hn
            next a ha =>
              injection hn with hn
              subst hn
              exact ⟨by omega, rfl, by omega, ha⟩
            next => cases hn

theorem interpolateHoles_ok (ap : AP) (data : List (Nat × Rat)) (r : List Rat)
    (h : interpolateHoles ap true data = .ok r) :
    ∃ (lead k : Nat) (mid : List Rat) (m0 : Nat) (v0 : Rat) (ml : Nat) (vl : Rat),
      data.head? = some (m0, v0) ∧ data.getLast? = some (ml, vl) ∧
      r = List.replicate lead v0 ++ mid ++ List.replicate k vl ∧ Filled vl data mid ∧
      r.length = ap.len ∧ ap.st_hour = 0 ∧ ap.end_hour = 23 := by
  unfold interpolateHoles at h
  simp only [Bool.true_eq_false, if_false] at h
  split at h
  next g0 m0 v0 ml vl hg hd hl =>
    generalize (if g0 ≠ m0 then
      (m0 + Cal.minutesInYear ap.leap - g0) % Cal.minutesInYear ap.leap / (60 / ap.timestep) else 0) = lead at h
    split at h
    next => cases h
    next vals hv =>
      split at h
      next => cases h
      next hw =>
        split at h
        next => cases h
        next hlen =>
          injection h with h
          subst h
          refine ⟨_, _, vals, m0, v0, ml, vl, hd, hl, rfl, holesGo_filled _ _ _ _ _ _ hv, by omega, by omega, by omega⟩
  next => cases h

end Resample
