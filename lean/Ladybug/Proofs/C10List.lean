/-
  Helper lemmas for the list-level theorems of Props/C10 (round 4): the one-pass loop `mapE` of
  Model/SkyList.  Core Lean only.
-/
import Ladybug.Model.SkyList

namespace Sky

variable {α β : Type}

theorem mapE_cons_ok (f : α → Except Err β) (x : α) (xs : List α) (ys : List β)
    (h : mapE f (x :: xs) = .ok ys) :
    ∃ y zs, f x = .ok y ∧ mapE f xs = .ok zs ∧ ys = y :: zs := by
  simp only [mapE] at h
  cases hfx : f x with
  | error e => rw [hfx] at h; cases h
  | ok y =>
    rw [hfx] at h
    simp only [] at h
    cases hm : mapE f xs with
    | error e => rw [hm] at h; cases h
    | ok zs =>
      rw [hm] at h
      simp only [] at h
      cases h
      exact ⟨y, zs, rfl, rfl, rfl⟩

theorem mapE_length (f : α → Except Err β) : ∀ (xs : List α) (ys : List β),
    mapE f xs = .ok ys → ys.length = xs.length
  | [], ys, h => by
    simp only [mapE] at h
    cases h
    rfl
  | x :: xs, ys, h => by
    obtain ⟨y, zs, _, hz, rfl⟩ := mapE_cons_ok f x xs ys h
    simp [mapE_length f xs zs hz]

/-- Element `i` of the answer is the answer for element `i` of the input alone. -/
theorem mapE_get (f : α → Except Err β) : ∀ (xs : List α) (ys : List β),
    mapE f xs = .ok ys → ∀ (i : Nat) (x : α), xs[i]? = some x → ∃ y, ys[i]? = some y ∧ f x = .ok y
  | [], ys, _, i, x, hx => by simp at hx
  | a :: xs, ys, h, i, x, hx => by
    obtain ⟨y, zs, hy, hz, rfl⟩ := mapE_cons_ok f a xs ys h
    cases i with
    | zero =>
      simp at hx
      subst hx
      exact ⟨y, by simp, hy⟩
    | succ j =>
      simp at hx
      obtain ⟨y', h1, h2⟩ := mapE_get f xs zs hz j x hx
      exact ⟨y', by simpa using h1, h2⟩

/-- The pass over a concatenation is the pass over the first part followed by the pass over the second:
    the answer does not depend on how the sequence of numbers is delivered. -/
theorem mapE_append (f : α → Except Err β) : ∀ (xs zs : List α),
    mapE f (xs ++ zs) =
      match mapE f xs with
      | .error e => .error e
      | .ok a =>
        match mapE f zs with
        | .error e => .error e
        | .ok b => .ok (a ++ b)
  | [], zs => by
    simp only [List.nil_append, mapE]
    cases mapE f zs <;> rfl
  | x :: xs, zs => by
    simp only [List.cons_append, mapE]
    cases hfx : f x with
    | error e => rfl
    | ok y =>
      simp only []
      rw [mapE_append f xs zs]
      cases mapE f xs with
      | error e => rfl
      | ok a =>
        simp only []
        cases mapE f zs with
        | error e => rfl
        | ok b => rfl

/-- Where every element has the answer `g x`, the pass returns `map g`. -/
theorem mapE_of_forall (f : α → Except Err β) (g : α → β) : ∀ (xs : List α),
    (∀ x ∈ xs, f x = .ok (g x)) → mapE f xs = .ok (xs.map g)
  | [], _ => rfl
  | x :: xs, h => by
    simp only [mapE, List.map_cons]
    rw [h x (by simp), mapE_of_forall f g xs (fun y hy => h y (by simp [hy]))]

/-! ### two / three result lists -/

theorem pairList_ok {γ : Type} (f : γ → Except Err (γ × γ)) (alts dn dh : List γ)
    (h : pairList f alts = .ok (dn, dh)) :
    ∃ rs, mapE f alts = .ok rs ∧ dn = rs.map Prod.fst ∧ dh = rs.map (fun r => r.2) := by
  unfold pairList at h
  cases hm : mapE f alts with
  | error e => rw [hm] at h; cases h
  | ok rs =>
    rw [hm] at h
    simp only [] at h
    cases h
    exact ⟨rs, rfl, rfl, rfl⟩

theorem pairList_length {γ : Type} (f : γ → Except Err (γ × γ)) (alts dn dh : List γ)
    (h : pairList f alts = .ok (dn, dh)) : dn.length = alts.length ∧ dh.length = alts.length := by
  obtain ⟨rs, hm, rfl, rfl⟩ := pairList_ok f alts dn dh h
  simp [mapE_length f alts rs hm]

theorem pairList_get {γ : Type} (f : γ → Except Err (γ × γ)) (alts dn dh : List γ)
    (h : pairList f alts = .ok (dn, dh)) (i : Nat) (a : γ) (ha : alts[i]? = some a) :
    ∃ x y, dn[i]? = some x ∧ dh[i]? = some y ∧ f a = .ok (x, y) := by
  obtain ⟨rs, hm, rfl, rfl⟩ := pairList_ok f alts dn dh h
  obtain ⟨r, hr, hf⟩ := mapE_get f alts rs hm i a ha
  exact ⟨r.1, r.2, by simp [hr], by simp [hr], hf⟩

theorem pairList_append {γ : Type} (f : γ → Except Err (γ × γ)) (xs zs : List γ) :
    pairList f (xs ++ zs) = joinPairs (pairList f xs) (pairList f zs) := by
  unfold pairList joinPairs
  rw [mapE_append]
  cases mapE f xs with
  | error e => rfl
  | ok a =>
    simp only []
    cases mapE f zs with
    | error e => rfl
    | ok b => simp

theorem tripleList_ok {γ : Type} (f : γ → Except Err (γ × γ × γ)) (alts dn dh gh : List γ)
    (h : tripleList f alts = .ok (dn, dh, gh)) :
    ∃ rs, mapE f alts = .ok rs ∧ dn = rs.map (fun r => r.1) ∧ dh = rs.map (fun r => r.2.1) ∧
      gh = rs.map (fun r => r.2.2) := by
  unfold tripleList at h
  cases hm : mapE f alts with
  | error e => rw [hm] at h; cases h
  | ok rs =>
    rw [hm] at h
    simp only [] at h
    cases h
    exact ⟨rs, rfl, rfl, rfl, rfl⟩

theorem tripleList_length {γ : Type} (f : γ → Except Err (γ × γ × γ)) (alts dn dh gh : List γ)
    (h : tripleList f alts = .ok (dn, dh, gh)) :
    dn.length = alts.length ∧ dh.length = alts.length ∧ gh.length = alts.length := by
  obtain ⟨rs, hm, rfl, rfl, rfl⟩ := tripleList_ok f alts dn dh gh h
  simp [mapE_length f alts rs hm]

theorem tripleList_get {γ : Type} (f : γ → Except Err (γ × γ × γ)) (alts dn dh gh : List γ)
    (h : tripleList f alts = .ok (dn, dh, gh)) (i : Nat) (a : γ) (ha : alts[i]? = some a) :
    ∃ x y z, dn[i]? = some x ∧ dh[i]? = some y ∧ gh[i]? = some z ∧ f a = .ok (x, y, z) := by
  obtain ⟨rs, hm, rfl, rfl, rfl⟩ := tripleList_ok f alts dn dh gh h
  obtain ⟨r, hr, hf⟩ := mapE_get f alts rs hm i a ha
  exact ⟨r.1, r.2.1, r.2.2, by simp [hr], by simp [hr], by simp [hr], hf⟩

/-- The first two lists of a sky condition are the two lists of the stand-alone model it calls, when each
    step's triple extends the model's pair. -/
theorem tripleList_pair {γ : Type} (f : γ → Except Err (γ × γ × γ)) (g : γ → Except Err (γ × γ))
    (hfg : ∀ a r, f a = .ok r → g a = .ok (r.1, r.2.1)) : ∀ (alts : List γ) (rs : List (γ × γ × γ)),
    mapE f alts = .ok rs → mapE g alts = .ok (rs.map fun r => (r.1, r.2.1))
  | [], rs, h => by
    simp only [mapE] at h
    cases h
    rfl
  | a :: alts, rs, h => by
    obtain ⟨y, zs, hy, hz, rfl⟩ := mapE_cons_ok f a alts rs h
    simp only [mapE, List.map_cons]
    rw [hfg a y hy, tripleList_pair f g hfg alts zs hz]

end Sky
