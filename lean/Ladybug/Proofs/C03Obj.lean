/-
  Lemmas about the object state machine of Model/GroupObj.lean (C03, round 3).
-/
import Ladybug.Model.GroupObj
import Ladybug.Props.C04

open Cal

namespace Grp

/-! ### Reads -/

theorem touch_datetimes (o : Obj) : o.touch.datetimes = o.datetimes := by
  obtain ⟨k, i, a, v, d, dy⟩ := o
  cases d <;> rfl

theorem touch_kind (o : Obj) : o.touch.kind = o.kind := by
  unfold Obj.touch; cases o.dts <;> rfl
theorem touch_imm (o : Obj) : o.touch.imm = o.imm := by
  unfold Obj.touch; cases o.dts <;> rfl
theorem touch_ap (o : Obj) : o.touch.ap = o.ap := by
  unfold Obj.touch; cases o.dts <;> rfl
theorem touch_vals (o : Obj) : o.touch.vals = o.vals := by
  unfold Obj.touch; cases o.dts <;> rfl
theorem touch_doys (o : Obj) : o.touch.doys = o.doys := by
  unfold Obj.touch; cases o.dts <;> rfl

/-- Two objects are observationally the same when they agree on everything a read looks at. -/
def Same (a b : Obj) : Prop :=
  a.kind = b.kind ∧ a.imm = b.imm ∧ a.ap = b.ap ∧ a.vals = b.vals ∧ a.doys = b.doys ∧
    a.datetimes = b.datetimes

theorem Same.rfl' (a : Obj) : Same a a := ⟨rfl, rfl, rfl, rfl, rfl, rfl⟩

theorem Same.symm {a b : Obj} (h : Same a b) : Same b a :=
  ⟨h.1.symm, h.2.1.symm, h.2.2.1.symm, h.2.2.2.1.symm, h.2.2.2.2.1.symm, h.2.2.2.2.2.symm⟩

theorem Same.trans {a b c : Obj} (h : Same a b) (g : Same b c) : Same a c :=
  ⟨h.1.trans g.1, h.2.1.trans g.2.1, h.2.2.1.trans g.2.2.1, h.2.2.2.1.trans g.2.2.2.1,
   h.2.2.2.2.1.trans g.2.2.2.2.1, h.2.2.2.2.2.trans g.2.2.2.2.2⟩

theorem touch_same (o : Obj) : Same o.touch o :=
  ⟨touch_kind o, touch_imm o, touch_ap o, touch_vals o, touch_doys o, touch_datetimes o⟩

/-- The state after a read is the same object, possibly with the slot filled. -/
theorem read_state (o : Obj) (r : Read) : (o.read r).1 = o ∨ (o.read r).1 = o.touch := by
  unfold Obj.read
  by_cases h : (r.needsDts && o.kind != .daily) = true
  · right; simp [h]
  · left; simp [h]

theorem read_same (o : Obj) (r : Read) : Same (o.read r).1 o := by
  rcases read_state o r with h | h <;> rw [h]
  · exact Same.rfl' o
  · exact touch_same o

/-- The answer of a read is a function of class, period, values, day numbers and `self.datetimes`. -/
theorem read_out (o : Obj) (r : Read) :
    (o.read r).2 = observe o.kind o.ap o.vals o.datetimes o.doys r := by
  have hs := read_same o r
  obtain ⟨h1, _, h3, h4, h5, h6⟩ := hs
  show observe (o.read r).1.kind (o.read r).1.ap (o.read r).1.vals (o.read r).1.datetimes (o.read r).1.doys r = _
  rw [h1, h3, h4, h5, h6]

theorem same_read_out {a b : Obj} (h : Same a b) (r : Read) : (a.read r).2 = (b.read r).2 := by
  rw [read_out, read_out]
  obtain ⟨h1, _, h3, h4, h5, h6⟩ := h
  rw [h1, h3, h4, h5, h6]

theorem same_pub {a b : Obj} (h : Same a b) : a.pub = b.pub := by
  obtain ⟨h1, h2, h3, h4, h5, h6⟩ := h
  unfold Obj.pub
  rw [h1, h2, h3, h4, h5, h6]

/-! ### Refused operations -/

theorem mutate_refused (o : Obj) (m : Mut) (e : Refusal) (h : (o.mutate m).2 = .refused e) :
    (o.mutate m).1 = o := by
  unfold Obj.mutate at h ⊢
  by_cases hi : o.imm = true
  · simp [hi]
  · simp only [hi] at h ⊢
    cases m with
    | setvals v =>
      cases v with
      | none => rfl
      | some v =>
        by_cases hc : v.length = o.expectedLen ∧ (o.kind = .cont ∨ v ≠ [])
        · simp [hc] at h
        · simp [hc]
    | setitem i v =>
      by_cases hc : 0 ≤ (if i < 0 then i + (o.vals.length : Int) else i) ∧
          (if i < 0 then i + (o.vals.length : Int) else i) < (o.vals.length : Int)
      · simp [hc] at h
      · simp [hc]
    | cull ts =>
      by_cases hd : o.kind = .daily
      · simp [hd]
      · by_cases hc : 0 ≤ ts ∧ ts.toNat ∈ Gen.Ap.validTimesteps
        · by_cases hn : o.kind = .cont ∧ o.ap.timestep % ts.toNat ≠ 0
          · simp [hd, hc, hn]
          · simp [hd, hc, hn] at h
        · simp [hd, hc]

/-! ### The slot invariant -/

/-- The lazily filled `_datetimes` slot of a continuous collection is never stale: when filled, it
    holds the datetimes of the CURRENT header period. -/
def Inv (o : Obj) : Prop := o.kind = .cont → ∀ d, o.dts = some d → d = contDts o.ap

theorem inv_fresh (p : Pub) : Inv p.fresh := by
  intro hk d hd
  unfold Pub.fresh at hk hd
  simp only at hk hd
  simp [hk] at hd

theorem inv_touch (o : Obj) (h : Inv o) : Inv o.touch := by
  intro hk d hd
  unfold Obj.touch at hk hd ⊢
  cases hs : o.dts with
  | none => simp [hs] at hd ⊢; exact hd.symm
  | some d' =>
    simp [hs] at hk hd ⊢
    exact h hk d (by rw [hs, hd])

theorem inv_read (o : Obj) (r : Read) (h : Inv o) : Inv (o.read r).1 := by
  rcases read_state o r with e | e <;> rw [e]
  · exact h
  · exact inv_touch o h

/-- With the invariant, the object answers like the fresh object built from its public state. -/
theorem inv_same_fresh (o : Obj) (h : Inv o) : Same o o.pub.fresh := by
  refine ⟨rfl, rfl, rfl, rfl, rfl, ?_⟩
  unfold Obj.pub Pub.fresh
  by_cases hk : o.kind = .cont
  · simp only [hk, ↓reduceIte]
    unfold Obj.datetimes
    cases hs : o.dts with
    | none => rfl
    | some d => simp only; exact h hk d hs
  · simp only [hk, ↓reduceIte]
    rfl

/-- A culling step on a continuous collection is *grid-faithful* when the datetimes that survive are
    the datetimes of the period at the new timestep (true when the new timestep divides the old one;
    proved below for the unchanged timestep, evaluated on samples otherwise). -/
def Faithful (o : Obj) : Op → Prop
  | .mut (.cull ts) =>
    o.kind = .cont → o.imm = false → (0 ≤ ts ∧ ts.toNat ∈ Gen.Ap.validTimesteps) →
      o.ap.timestep % ts.toNat = 0 →
      cullDts ts.toNat o.datetimes = contDts { o.ap with timestep := ts.toNat }
  | _ => True

/-- Every culling step of the history is grid-faithful at the state in which it is executed. -/
def FaithfulHist : Obj → List Op → Prop
  | _, [] => True
  | o, op :: rest => Faithful o op ∧ FaithfulHist (o.step op).1 rest

theorem inv_mutate (o : Obj) (m : Mut) (h : Inv o) (hf : Faithful o (.mut m)) : Inv (o.mutate m).1 := by
  unfold Obj.mutate
  by_cases hi : o.imm = true
  · simpa [hi] using h
  · simp only [hi]
    cases m with
    | setvals v =>
      cases v with
      | none => exact h
      | some v =>
        by_cases hc : v.length = o.expectedLen ∧ (o.kind = .cont ∨ v ≠ [])
        · simp only [hc, and_self, ↓reduceIte]
          intro hk d hd
          exact h hk d hd
        · simp only [hc, ↓reduceIte]; exact h
    | setitem i v =>
      by_cases hc : 0 ≤ (if i < 0 then i + (o.vals.length : Int) else i) ∧
          (if i < 0 then i + (o.vals.length : Int) else i) < (o.vals.length : Int)
      · simp only [hc, and_self, ↓reduceIte]
        intro hk d hd
        exact h hk d hd
      · simp only [hc, ↓reduceIte]; exact h
    | cull ts =>
      by_cases hd : o.kind = .daily
      · simp only [hd, ↓reduceIte]; exact h
      · by_cases hc : 0 ≤ ts ∧ ts.toNat ∈ Gen.Ap.validTimesteps
        · simp only [hd, hc, and_self, ↓reduceIte]
          by_cases hn : o.kind = .cont ∧ o.ap.timestep % ts.toNat ≠ 0
          · rw [if_pos hn]; exact h
          · rw [if_neg hn]
            intro hk d hdd
            have hdiv : o.ap.timestep % ts.toNat = 0 := by
              by_cases h0 : o.ap.timestep % ts.toNat = 0
              · exact h0
              · exact absurd ⟨hk, h0⟩ hn
            have := hf hk (by simpa using hi) hc hdiv
            have hdd' : cullDts ts.toNat o.datetimes = d := Option.some.inj hdd
            rw [← hdd', this]
            simp
        · simp only [hd, hc, ↓reduceIte]; exact h

theorem inv_step (o : Obj) (op : Op) (h : Inv o) (hf : Faithful o op) : Inv (o.step op).1 := by
  rcases op with r | m
  · exact inv_read o r h
  · exact inv_mutate o m h hf

theorem inv_after (ops : List Op) : ∀ (o : Obj), Inv o → FaithfulHist o ops → Inv (o.after ops) := by
  induction ops with
  | nil => intro o h _; exact h
  | cons op rest ih =>
    intro o h hf
    exact ih (o.step op).1 (inv_step o op h hf.1) hf.2

theorem run_fst (ops : List Op) : ∀ (o : Obj), (o.run ops).1 = o.after ops := by
  induction ops with
  | nil => intro o; rfl
  | cons op rest ih =>
    intro o
    show ((o.step op).1.run rest).1 = (o.step op).1.after rest
    exact ih _

/-! ### Culling to the unchanged timestep keeps every datetime -/

theorem contDts_on_grid (ap : AP) (hwf : ap.WF) (d : DT) (hd : d ∈ contDts ap) : d.moy % ap.step = 0 := by
  unfold contDts at hd
  obtain ⟨m, hm, he⟩ := List.mem_filterMap.mp hd
  obtain ⟨_, _, hdt⟩ := AP.C04_datetimes ap hwf
  obtain ⟨d', h1, _, h3, _⟩ := hdt m hm
  rw [h1] at he
  simp [Except.toOption] at he
  rw [← he, h3]
  exact ((AP.C04_mem_moys ap hwf m).mp hm).2.1

end Grp
