/-
  Helper lemmas for C14 (heap model of data collections).  No Mathlib.
-/
import Ladybug.Model.Heap

namespace LbHeap

/-- Cells at and above `next` are unused. -/
def WF (h : Heap) : Prop := ∀ r, h.next ≤ r → h.cells r = none

/-- `h'` extends `h`: every cell that existed is unchanged (only allocations happened). -/
def Ext (h h' : Heap) : Prop := h.next ≤ h'.next ∧ ∀ r, r < h.next → h'.cells r = h.cells r

theorem Ext.refl (h : Heap) : Ext h h := ⟨Nat.le_refl _, fun _ _ => rfl⟩

theorem Ext.trans {a b c : Heap} (h1 : Ext a b) (h2 : Ext b c) : Ext a c :=
  ⟨Nat.le_trans h1.1 h2.1, fun r hr => by
    rw [h2.2 r (Nat.lt_of_lt_of_le hr h1.1), h1.2 r hr]⟩

theorem lt_next_of_some {h : Heap} (wf : WF h) {r : Nat} {c : Cell} (e : h.cells r = some c) :
    r < h.next := by
  rcases Nat.lt_or_ge r h.next with h1 | h1
  · exact h1
  · rw [wf r h1] at e; cases e

theorem alloc_ext (h : Heap) (c : Cell) : Ext h (h.alloc c).1 := by
  refine ⟨Nat.le_succ _, fun r hr => ?_⟩
  simp only [Heap.alloc]
  have : r ≠ h.next := Nat.ne_of_lt hr
  simp [this]

theorem alloc_wf {h : Heap} (wf : WF h) (c : Cell) : WF (h.alloc c).1 := by
  intro r hr
  simp only [Heap.alloc] at hr ⊢
  have : r ≠ h.next := by omega
  simp only [this, if_false]
  exact wf r (by omega)

theorem alloc_get (h : Heap) (c : Cell) : (h.alloc c).1.cells (h.alloc c).2 = some c := by
  simp [Heap.alloc]

theorem alloc_ref (h : Heap) (c : Cell) : (h.alloc c).2 = h.next := rfl
theorem alloc_next (h : Heap) (c : Cell) : (h.alloc c).1.next = h.next + 1 := rfl

theorem write_other (h : Heap) {r r' : Nat} (c : Cell) (ne : r' ≠ r) :
    (h.write r c).cells r' = h.cells r' := by
  simp [Heap.write, ne]

theorem write_same (h : Heap) (r : Nat) (c : Cell) : (h.write r c).cells r = some c := by
  simp [Heap.write]

theorem write_next (h : Heap) (r : Nat) (c : Cell) : (h.write r c).next = h.next := rfl

theorem write_wf {h : Heap} (wf : WF h) {r : Nat} (c : Cell) (hr : r < h.next) : WF (h.write r c) := by
  intro r' hr'
  have hr'' : h.next ≤ r' := hr'
  have : r' ≠ r := by omega
  rw [write_other h c this]
  exact wf r' hr''

/-! ### allocation of a derived collection only allocates -/

theorem allocAp_ext {h : Heap} (wf : WF h) (s : ApSrc) :
    Ext h (allocAp h s).1 ∧ WF (allocAp h s).1 := by
  cases s with
  | share r => exact ⟨Ext.refl h, wf⟩
  | new a => exact ⟨alloc_ext h _, alloc_wf wf _⟩

theorem allocMeta_ext {h : Heap} (wf : WF h) (s : MetaSrc) :
    Ext h (allocMeta h s).1 ∧ WF (allocMeta h s).1 := by
  cases s with
  | share r => exact ⟨Ext.refl h, wf⟩
  | new a => exact ⟨alloc_ext h _, alloc_wf wf _⟩

theorem allocVals_ext {h : Heap} (wf : WF h) (s : ValSrc) :
    Ext h (allocVals h s).1 ∧ WF (allocVals h s).1 := by
  cases s with
  | share r => exact ⟨Ext.refl h, wf⟩
  | new a t => exact ⟨alloc_ext h _, alloc_wf wf _⟩

theorem allocHdr_ext {h : Heap} (wf : WF h) (s : HdrSrc) :
    Ext h (allocHdr h s).1 ∧ WF (allocHdr h s).1 := by
  cases s with
  | share r => exact ⟨Ext.refl h, wf⟩
  | new dt u ap m =>
    simp only [allocHdr]
    have h1 := allocAp_ext wf ap
    have h2 := allocMeta_ext h1.2 m
    exact ⟨(h1.1.trans h2.1).trans (alloc_ext _ _), alloc_wf h2.2 _⟩

theorem mkColl_ext {h : Heap} (wf : WF h) (s : NewSpec) :
    Ext h (mkColl h s).1 ∧ WF (mkColl h s).1 := by
  simp only [mkColl]
  have h1 := allocHdr_ext wf s.hdr
  have h2 := allocVals_ext h1.2 s.vals
  exact ⟨(h1.1.trans h2.1).trans (alloc_ext _ _), alloc_wf h2.2 _⟩

/-- Every deriving operation (pinned or fixed code) only allocates: no existing cell changes. -/
theorem derive_ext {m : Mode} {h h' : Heap} {c r : Nat} {op : DOp} (wf : WF h)
    (e : derive m h c op = .ok (h', r)) : Ext h h' ∧ WF h' := by
  unfold derive at e
  split at e
  · cases e
  · rename_i s _
    cases e
    exact mkColl_ext wf s

/-! ### what a collection reads and owns -/

/-- A well-formed collection: all five cells exist, have the right kind, and a mutable collection
    holds a list. -/
def Typed (h : Heap) (c : Nat) : Prop :=
  ∃ k hd m a v t, h.cells c = some (.coll k) ∧ h.cells k.hdr = some (.hdr hd) ∧
    h.cells hd.md = some (.md m) ∧ h.cells hd.ap = some (.ap a) ∧
    h.cells k.vals = some (.vals v t) ∧ (k.isMut = true → t = false)

/-- The cells `obs h c` depends on. -/
def reads (h : Heap) (c : Nat) : List Nat :=
  match foot h c with
  | some f => [f.coll, f.hdr, f.md, f.ap, f.vals]
  | none => []

/-- The cells a mutator applied to `c` may overwrite: the collection, its header, its metadata dict and
    – for a mutable collection – its values list.  Never a period, never a tuple. -/
def owned (h : Heap) (c : Nat) : List Nat :=
  match foot h c with
  | some f => [f.coll, f.hdr, f.md] ++ (if f.isMut then [f.vals] else [])
  | none => []

theorem foot_of_typed {h : Heap} {c : Nat} {k : Coll} {hd : Hdr}
    (e1 : h.cells c = some (.coll k)) (e2 : h.cells k.hdr = some (.hdr hd)) :
    foot h c = some ⟨c, k.hdr, hd.md, hd.ap, k.vals, k.isMut⟩ := by
  simp [foot, getColl, getHdr, e1, e2]

/-- `obs` and `foot` depend only on the cells in `reads`. -/
theorem obs_congr {h h' : Heap} {c : Nat} (ty : Typed h c)
    (same : ∀ r ∈ reads h c, h'.cells r = h.cells r) :
    obs h' c = obs h c ∧ foot h' c = foot h c ∧ Typed h' c := by
  obtain ⟨k, hd, m, a, v, t, e1, e2, e3, e4, e5, e6⟩ := ty
  have hf := foot_of_typed e1 e2
  have hr : reads h c = [c, k.hdr, hd.md, hd.ap, k.vals] := by simp [reads, hf]
  rw [hr] at same
  have s1 := same c (by simp)
  have s2 := same k.hdr (by simp)
  have s3 := same hd.md (by simp)
  have s4 := same hd.ap (by simp)
  have s5 := same k.vals (by simp)
  rw [e1] at s1; rw [e2] at s2; rw [e3] at s3; rw [e4] at s4; rw [e5] at s5
  refine ⟨?_, ?_, ⟨k, hd, m, a, v, t, s1, s2, s3, s4, s5, e6⟩⟩
  · simp [obs, getColl, getHdr, getMeta, getAP, getVals, e1, e2, e3, e4, e5, s1, s2, s3, s4, s5]
  · rw [hf]; exact foot_of_typed s1 s2

theorem reads_lt {h : Heap} (wf : WF h) {c : Nat} (ty : Typed h c) : ∀ r ∈ reads h c, r < h.next := by
  obtain ⟨k, hd, m, a, v, t, e1, e2, e3, e4, e5, _⟩ := ty
  have hf := foot_of_typed e1 e2
  intro r hr
  simp only [reads, hf, List.mem_cons, List.not_mem_nil, or_false] at hr
  rcases hr with rfl | rfl | rfl | rfl | rfl
  · exact lt_next_of_some wf e1
  · exact lt_next_of_some wf e2
  · exact lt_next_of_some wf e3
  · exact lt_next_of_some wf e4
  · exact lt_next_of_some wf e5

theorem owned_sub_reads {h : Heap} {c : Nat} : ∀ r ∈ owned h c, r ∈ reads h c := by
  intro r hr
  unfold owned at hr; unfold reads
  split at hr
  · rename_i f _
    simp only [List.mem_append, List.mem_cons, List.not_mem_nil, or_false] at hr
    rcases hr with (rfl | rfl | rfl) | hr
    · simp
    · simp
    · simp
    · split at hr
      · simp only [List.mem_cons, List.not_mem_nil, or_false] at hr; subst hr; simp
      · cases hr
  · cases hr

/-- Extension preserves every well-formed collection. -/
theorem obs_ext {h h' : Heap} (wf : WF h) (ext : Ext h h') {c : Nat} (ty : Typed h c) :
    obs h' c = obs h c ∧ foot h' c = foot h c ∧ Typed h' c :=
  obs_congr ty fun r hr => ext.2 r (reads_lt wf ty r hr)

/-! ### separation -/

/-- Live collections are separated: nothing a mutator applied to `a` may overwrite is read by `b`.
    (Two collections may share an analysis-period object or a values *tuple*: neither is ever edited.) -/
def Sep (h : Heap) (live : List Nat) : Prop :=
  ∀ a ∈ live, ∀ b ∈ live, a ≠ b → ∀ r ∈ owned h a, r ∉ reads h b

def Inv (h : Heap) (live : List Nat) : Prop :=
  WF h ∧ (∀ c ∈ live, Typed h c) ∧ Sep h live

theorem reads_eq_of_foot {h h' : Heap} {c : Nat} (e : foot h' c = foot h c) :
    reads h' c = reads h c ∧ owned h' c = owned h c := by
  simp [reads, owned, e]

theorem ne_of_kind {h : Heap} {r1 r2 : Nat} {x y : Cell} (e1 : h.cells r1 = some x)
    (e2 : h.cells r2 = some y) (ne : x ≠ y) : r1 ≠ r2 := by
  intro e; subst e; rw [e1] at e2; exact ne (Option.some.inj e2)

/-- The kind of an owned cell: never a period, never a tuple. -/
def OwnKind (h : Heap) (r : Nat) : Prop :=
  (∃ k, h.cells r = some (.coll k)) ∨ (∃ x, h.cells r = some (.hdr x)) ∨
  (∃ m, h.cells r = some (.md m)) ∨ (∃ v, h.cells r = some (.vals v false))

theorem owned_kind {h : Heap} {c : Nat} (ty : Typed h c) : ∀ r ∈ owned h c, OwnKind h r := by
  obtain ⟨k, hd, m, a, v, t, e1, e2, e3, e4, e5, e6⟩ := ty
  have hf := foot_of_typed e1 e2
  intro r hr
  simp only [owned, hf, List.mem_append, List.mem_cons, List.not_mem_nil, or_false] at hr
  rcases hr with (rfl | rfl | rfl) | hr
  · exact Or.inl ⟨k, e1⟩
  · exact Or.inr (Or.inl ⟨hd, e2⟩)
  · exact Or.inr (Or.inr (Or.inl ⟨m, e3⟩))
  · split at hr
    · rename_i hm
      simp only [List.mem_cons, List.not_mem_nil, or_false] at hr
      subst hr
      have := e6 hm; subst this
      exact Or.inr (Or.inr (Or.inr ⟨v, e5⟩))
    · cases hr

/-- A step that only touches what `a` owns (plus new cells). -/
structure Local (h h' : Heap) (a : Nat) : Prop where
  wf : WF h'
  frame : ∀ r, r < h.next → r ∉ owned h a → h'.cells r = h.cells r
  typed : Typed h' a
  owned_sub : ∀ r ∈ owned h' a, r ∈ owned h a ∨ h.next ≤ r
  reads_sub : ∀ r ∈ reads h' a, r ∈ reads h a ∨ h.next ≤ r

/-- Frame + preservation for a local step. -/
theorem local_inv {h h' : Heap} {live : List Nat} {a : Nat} (inv : Inv h live) (ha : a ∈ live)
    (loc : Local h h' a) :
    Inv h' live ∧ ∀ b ∈ live, b ≠ a → obs h' b = obs h b := by
  obtain ⟨wf, ty, sep⟩ := inv
  have other : ∀ b ∈ live, b ≠ a →
      obs h' b = obs h b ∧ foot h' b = foot h b ∧ Typed h' b := by
    intro b hb ne
    refine obs_congr (ty b hb) fun r hr => ?_
    exact loc.frame r (reads_lt wf (ty b hb) r hr) (fun ho => sep a ha b hb (Ne.symm ne) r ho hr)
  refine ⟨⟨loc.wf, ?_, ?_⟩, fun b hb ne => (other b hb ne).1⟩
  · intro c hc
    by_cases e : c = a
    · subst e; exact loc.typed
    · exact (other c hc e).2.2
  · intro x hx y hy nxy r hr hr'
    by_cases ex : x = a
    · subst ex
      have hy' := other y hy (Ne.symm nxy)
      rw [(reads_eq_of_foot hy'.2.1).1] at hr'
      rcases loc.owned_sub r hr with h1 | h1
      · exact sep x hx y hy nxy r h1 hr'
      · have := reads_lt wf (ty y hy) r hr'; omega
    · have hx' := other x hx ex
      rw [(reads_eq_of_foot hx'.2.1).2] at hr
      have rlt : r < h.next := reads_lt wf (ty x hx) r (owned_sub_reads r hr)
      by_cases ey : y = a
      · subst ey
        rcases loc.reads_sub r hr' with h1 | h1
        · exact sep x hx y hy nxy r hr h1
        · omega
      · have hy' := other y hy ey
        rw [(reads_eq_of_foot hy'.2.1).1] at hr'
        exact sep x hx y hy nxy r hr hr'

/-- A new collection whose own cells are all new, and which reads – besides new cells – only periods
    and tuples of the old heap. -/
structure Fresh (h h' : Heap) (c : Nat) : Prop where
  ext : Ext h h'
  wf : WF h'
  typed : Typed h' c
  owned_new : ∀ r ∈ owned h' c, h.next ≤ r
  reads_new : ∀ r ∈ reads h' c, h.next ≤ r ∨ (∃ a, h.cells r = some (.ap a)) ∨
      (∃ v, h.cells r = some (.vals v true))

theorem fresh_inv {h h' : Heap} {live : List Nat} {c : Nat} (inv : Inv h live) (fr : Fresh h h' c) :
    Inv h' (live ++ [c]) ∧ ∀ b ∈ live, obs h' b = obs h b := by
  obtain ⟨wf, ty, sep⟩ := inv
  have old : ∀ b ∈ live, obs h' b = obs h b ∧ foot h' b = foot h b ∧ Typed h' b :=
    fun b hb => obs_ext wf fr.ext (ty b hb)
  have cnew : h.next ≤ c := by
    obtain ⟨k, hd, _, _, _, _, e1, e2, _⟩ := fr.typed
    exact fr.owned_new c (by simp [owned, foot_of_typed e1 e2])
  have notlive : ∀ b ∈ live, b ≠ c := by
    intro b hb e
    obtain ⟨k, _, _, _, _, _, e1, _⟩ := ty b hb
    have := lt_next_of_some wf e1
    omega
  refine ⟨⟨fr.wf, ?_, ?_⟩, fun b hb => (old b hb).1⟩
  · intro x hx
    rcases List.mem_append.1 hx with hx | hx
    · exact (old x hx).2.2
    · simp only [List.mem_cons, List.not_mem_nil, or_false] at hx; subst hx; exact fr.typed
  · intro x hx y hy nxy r hr hr'
    rcases List.mem_append.1 hx with hx1 | hx1 <;> rcases List.mem_append.1 hy with hy1 | hy1
    · rw [(reads_eq_of_foot (old x hx1).2.1).2] at hr
      rw [(reads_eq_of_foot (old y hy1).2.1).1] at hr'
      exact sep x hx1 y hy1 nxy r hr hr'
    · simp only [List.mem_cons, List.not_mem_nil, or_false] at hy1
      rw [(reads_eq_of_foot (old x hx1).2.1).2] at hr
      have rlt : r < h.next := reads_lt wf (ty x hx1) r (owned_sub_reads r hr)
      have kind := owned_kind (ty x hx1) r hr
      rw [hy1] at hr'
      rcases fr.reads_new r hr' with h1 | ⟨a, h1⟩ | ⟨v, h1⟩
      · omega
      · rcases kind with ⟨_, k⟩ | ⟨_, k⟩ | ⟨_, k⟩ | ⟨_, k⟩ <;> rw [h1] at k <;> cases k
      · rcases kind with ⟨_, k⟩ | ⟨_, k⟩ | ⟨_, k⟩ | ⟨_, k⟩ <;> rw [h1] at k <;> cases k
    · simp only [List.mem_cons, List.not_mem_nil, or_false] at hx1
      rw [(reads_eq_of_foot (old y hy1).2.1).1] at hr'
      have := reads_lt wf (ty y hy1) r hr'
      rw [hx1] at hr
      have := fr.owned_new r hr
      omega
    · simp only [List.mem_cons, List.not_mem_nil, or_false] at hx1 hy1
      exact absurd (hx1.trans hy1.symm) nxy

theorem ext_cell {h h' : Heap} (wf : WF h) (ext : Ext h h') {r : Nat} {x : Cell}
    (e : h.cells r = some x) : h'.cells r = some x := by
  rw [ext.2 r (lt_next_of_some wf e)]; exact e

/-- A copying spec builds a fresh collection. -/
theorem mkColl_fresh {h : Heap} (wf : WF h) {s : NewSpec} (cp : s.Copying h) :
    Fresh h (mkColl h s).1 (mkColl h s).2 := by
  obtain ⟨⟨dt, u, ap, m, hh, hap⟩, hshare, hnew⟩ := cp
  have hext := mkColl_ext wf s
  -- the period cell
  have A := allocAp_ext wf ap
  have Aref : (∃ a, (allocAp h ap).1.cells (allocAp h ap).2 = some (.ap a)) ∧
      (h.next ≤ (allocAp h ap).2 ∨ ∃ a, h.cells (allocAp h ap).2 = some (.ap a)) := by
    cases ap with
    | share r => obtain ⟨a, ha⟩ := hap r rfl; exact ⟨⟨a, ha⟩, Or.inr ⟨a, ha⟩⟩
    | new a => exact ⟨⟨a, alloc_get h _⟩, Or.inl (Nat.le_refl _)⟩
  obtain ⟨⟨apv, hapv⟩, hapn⟩ := Aref
  generalize hA : allocAp h ap = pa at A hapv hapn
  obtain ⟨h1, ra⟩ := pa
  simp only at A hapv hapn
  -- metadata and header cells
  have B := alloc_ext h1 (.md m)
  have Bwf := alloc_wf A.2 (.md m)
  have Bget := alloc_get h1 (.md m)
  generalize hB : h1.alloc (.md m) = pb at B Bwf Bget
  obtain ⟨h2, rm⟩ := pb
  have rm_eq : @Eq Nat rm h1.next := by have := congrArg Prod.snd hB; simpa [alloc_ref] using this.symm
  simp only at B Bwf Bget
  have C := alloc_ext h2 (.hdr ⟨dt, u, ra, rm⟩)
  have Cwf := alloc_wf Bwf (.hdr ⟨dt, u, ra, rm⟩)
  have Cget := alloc_get h2 (.hdr ⟨dt, u, ra, rm⟩)
  generalize hC : h2.alloc (.hdr ⟨dt, u, ra, rm⟩) = pc at C Cwf Cget
  obtain ⟨h3, rh⟩ := pc
  have rh_eq : @Eq Nat rh h2.next := by have := congrArg Prod.snd hC; simpa [alloc_ref] using this.symm
  simp only at C Cwf Cget
  have e03 : Ext h h3 := (A.1.trans B).trans C
  -- the values cell
  have D := allocVals_ext Cwf s.vals
  have Dref : (∃ v t, (allocVals h3 s.vals).1.cells (allocVals h3 s.vals).2 = some (.vals v t) ∧
        (s.isMut = true → t = false)) ∧
      ((h3.next ≤ (allocVals h3 s.vals).2 ) ∨
        (s.isMut = false ∧ ∃ v, h.cells (allocVals h3 s.vals).2 = some (.vals v true))) := by
    cases hv : s.vals with
    | share r =>
      obtain ⟨⟨v, hv1⟩, hm⟩ := hshare r hv
      refine ⟨⟨v, true, ext_cell wf e03 hv1, fun hm' => by rw [hm] at hm'; cases hm'⟩, Or.inr ⟨hm, v, hv1⟩⟩
    | new v t =>
      exact ⟨⟨v, t, alloc_get h3 _, hnew v t hv⟩, Or.inl (Nat.le_refl _)⟩
  obtain ⟨⟨vv, vt, hvv, hvt⟩, hvn⟩ := Dref
  generalize hD : allocVals h3 s.vals = pd at D hvv hvn
  obtain ⟨h4, rv⟩ := pd
  simp only at D hvv hvn
  have E := alloc_ext h4 (.coll ⟨rh, rv, s.dts, s.isMut, s.cls, s.validated, false⟩)
  have Ewf := alloc_wf D.2 (.coll ⟨rh, rv, s.dts, s.isMut, s.cls, s.validated, false⟩)
  have Eget := alloc_get h4 (.coll ⟨rh, rv, s.dts, s.isMut, s.cls, s.validated, false⟩)
  have hmk : mkColl h s = h4.alloc (.coll ⟨rh, rv, s.dts, s.isMut, s.cls, s.validated, false⟩) := by
    simp only [mkColl, hh, allocHdr, allocMeta, hA, hB, hC, hD]
  rw [hmk]
  generalize hE : h4.alloc (.coll ⟨rh, rv, s.dts, s.isMut, s.cls, s.validated, false⟩) = pe at E Ewf Eget
  obtain ⟨h5, rc⟩ := pe
  have rc_eq : @Eq Nat rc h4.next := by have := congrArg Prod.snd hE; simpa [alloc_ref] using this.symm
  simp only at E Ewf Eget ⊢
  have e35 : Ext h3 h5 := D.1.trans E
  have e45 : Ext h4 h5 := E
  -- cells of the final heap
  have c_hdr : h5.cells rh = some (.hdr ⟨dt, u, ra, rm⟩) := ext_cell Cwf e35 Cget
  have c_md : h5.cells rm = some (.md m) := ext_cell Bwf (C.trans e35) Bget
  have c_ap : h5.cells ra = some (.ap apv) := ext_cell A.2 ((B.trans C).trans e35) hapv
  have c_vals : h5.cells rv = some (.vals vv vt) := ext_cell D.2 e45 hvv
  have hf := foot_of_typed Eget c_hdr
  have n01 : h.next ≤ h1.next := A.1.1
  have n12 : h1.next ≤ h2.next := B.1
  have n23 : h2.next ≤ h3.next := C.1
  have n34 : h3.next ≤ h4.next := D.1.1
  refine ⟨e03.trans e35, Ewf, ⟨_, _, m, apv, vv, vt, Eget, c_hdr, c_md, c_ap, c_vals, hvt⟩, ?_, ?_⟩
  · intro r hr
    simp only [owned, hf, List.mem_append, List.mem_cons, List.not_mem_nil, or_false] at hr
    rcases hr with (rfl | rfl | rfl) | hr
    · omega
    · omega
    · omega
    · split at hr
      · rename_i hm
        simp only [List.mem_cons, List.not_mem_nil, or_false] at hr
        subst hr
        rcases hvn with h1' | ⟨h1', _⟩
        · omega
        · rw [h1'] at hm; cases hm
      · cases hr
  · intro r hr
    simp only [reads, hf, List.mem_cons, List.not_mem_nil, or_false] at hr
    rcases hr with rfl | rfl | rfl | rfl | rfl
    · left; omega
    · left; omega
    · left; omega
    · rcases hapn with h1' | h1'
      · left; exact h1'
      · right; left; exact h1'
    · rcases hvn with h1' | ⟨_, h1'⟩
      · left; omega
      · right; right; exact h1'

end LbHeap
