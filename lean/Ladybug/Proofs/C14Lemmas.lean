/-
  Helper lemmas for C14 (heap model of data collections).  No Mathlib.

  Part 1: heaps (allocation extends, writes are local).
  Part 2: a generic "footprint system" `FP` (what an object reads / may overwrite / how it is observed)
          with the two generic theorems `local_inv` (frame + preservation for a step that only touches
          what its target owns) and `fresh_inv` (a new object made of new cells is separated).
  Part 3: the footprint system of data collections (`collFP`).
-/
import Ladybug.Model.Heap

namespace LbHeap

/-- Cells at and above `next` are unused. -/
def WF (h : Heap) : Prop := ∀ r, h.next ≤ r → h.cells r = none

/-- `h'` extends `h`: every cell that existed is unchanged (only allocations happened). -/
def Ext (h h' : Heap) : Prop := h.next ≤ h'.next ∧ ∀ r, r < h.next → h'.cells r = h.cells r

theorem Ext.refl (h : Heap) : Ext h h := ⟨Nat.le_refl _, fun _ _ => rfl⟩

theorem Ext.trans {a b c : Heap} (h1 : Ext a b) (h2 : Ext b c) : Ext a c :=
  ⟨Nat.le_trans h1.1 h2.1, fun r hr => by
    rw [h2.2 r (Nat.lt_of_lt_of_le hr h1.1), h1.2 r hr]⟩

theorem lt_next_of_some {h : Heap} (wf : WF h) {r : Nat} {c : Cell} (e : h.cells r = some c) :
    r < h.next := by
  rcases Nat.lt_or_ge r h.next with h1 | h1
  · exact h1
  · rw [wf r h1] at e; cases e

theorem ext_cell {h h' : Heap} (wf : WF h) (ext : Ext h h') {r : Nat} {x : Cell}
    (e : h.cells r = some x) : h'.cells r = some x := by
  rw [ext.2 r (lt_next_of_some wf e)]; exact e

theorem alloc_ext (h : Heap) (c : Cell) : Ext h (h.alloc c).1 := by
  refine ⟨Nat.le_succ _, fun r hr => ?_⟩
  simp only [Heap.alloc]
  have : r ≠ h.next := Nat.ne_of_lt hr
  simp [this]

theorem alloc_wf {h : Heap} (wf : WF h) (c : Cell) : WF (h.alloc c).1 := by
  intro r hr
  simp only [Heap.alloc] at hr ⊢
  have : r ≠ h.next := by omega
  simp only [this, if_false]
  exact wf r (by omega)

theorem alloc_get (h : Heap) (c : Cell) : (h.alloc c).1.cells (h.alloc c).2 = some c := by
  simp [Heap.alloc]

theorem alloc_ref (h : Heap) (c : Cell) : @Eq Nat (h.alloc c).2 h.next := rfl
theorem alloc_next (h : Heap) (c : Cell) : (h.alloc c).1.next = h.next + 1 := rfl

theorem write_other (h : Heap) {r r' : Nat} (c : Cell) (ne : r' ≠ r) :
    (h.write r c).cells r' = h.cells r' := by
  simp [Heap.write, ne]

theorem write_same (h : Heap) (r : Nat) (c : Cell) : (h.write r c).cells r = some c := by
  simp [Heap.write]

theorem write_next (h : Heap) (r : Nat) (c : Cell) : (h.write r c).next = h.next := rfl

theorem write_wf {h : Heap} (wf : WF h) {r : Nat} (c : Cell) (hr : r < h.next) : WF (h.write r c) := by
  intro r' hr'
  have hr'' : h.next ≤ r' := hr'
  have : r' ≠ r := by omega
  rw [write_other h c this]
  exact wf r' hr''

theorem ne_of_kind {h : Heap} {r1 r2 : Nat} {x y : Cell} (e1 : h.cells r1 = some x)
    (e2 : h.cells r2 = some y) (ne : x ≠ y) : r1 ≠ r2 := by
  intro e; subst e; rw [e1] at e2; exact ne (Option.some.inj e2)

/-! ### Part 2: footprint systems -/

/-- Cells that may be shared between objects because nothing ever overwrites them: analysis periods
    (no setters), tuples, Location objects (not edited by any modelled operation). -/
def Shareable (h : Heap) (r : Nat) : Prop :=
  (∃ a, h.cells r = some (.ap a)) ∨ (∃ v, h.cells r = some (.vals v true)) ∨
  (∃ t, h.cells r = some (.loc t))

/-- How a kind of object sits in the heap. -/
structure FP (α : Type) where
  /-- the cells the observation depends on -/
  reads : Heap → Nat → List Nat
  /-- the cells a mutator applied to the object may overwrite -/
  owned : Heap → Nat → List Nat
  Typed : Heap → Nat → Prop
  obs : Heap → Nat → α
  congr : ∀ {h h' : Heap} {c : Nat}, Typed h c → (∀ r ∈ reads h c, h'.cells r = h.cells r) →
    obs h' c = obs h c ∧ reads h' c = reads h c ∧ owned h' c = owned h c ∧ Typed h' c
  lt : ∀ {h : Heap} {c : Nat}, WF h → Typed h c → ∀ r ∈ reads h c, r < h.next
  sub : ∀ {h : Heap} {c : Nat}, ∀ r ∈ owned h c, r ∈ reads h c
  kind : ∀ {h : Heap} {c : Nat}, Typed h c → ∀ r ∈ owned h c, ¬ Shareable h r

variable {α : Type} (fp : FP α)

/-- Live objects are separated: nothing a mutator applied to `a` may overwrite is read by `b`. -/
def Sep (h : Heap) (live : List Nat) : Prop :=
  ∀ a ∈ live, ∀ b ∈ live, a ≠ b → ∀ r ∈ fp.owned h a, r ∉ fp.reads h b

def Inv (h : Heap) (live : List Nat) : Prop :=
  WF h ∧ (∀ c ∈ live, fp.Typed h c) ∧ Sep fp h live

/-- Extension preserves every well-formed object. -/
theorem FP.ext {h h' : Heap} (wf : WF h) (ext : Ext h h') {c : Nat} (ty : fp.Typed h c) :
    fp.obs h' c = fp.obs h c ∧ fp.reads h' c = fp.reads h c ∧ fp.owned h' c = fp.owned h c ∧
    fp.Typed h' c :=
  fp.congr ty fun r hr => ext.2 r (fp.lt wf ty r hr)

/-- A step that only touches what `a` owns (plus new cells). -/
structure Local (h h' : Heap) (a : Nat) : Prop where
  wf : WF h'
  frame : ∀ r, r < h.next → r ∉ fp.owned h a → h'.cells r = h.cells r
  typed : fp.Typed h' a
  owned_sub : ∀ r ∈ fp.owned h' a, r ∈ fp.owned h a ∨ h.next ≤ r
  reads_sub : ∀ r ∈ fp.reads h' a, r ∈ fp.reads h a ∨ h.next ≤ r

/-- Frame + preservation for a local step. -/
theorem local_inv {h h' : Heap} {live : List Nat} {a : Nat} (inv : Inv fp h live) (ha : a ∈ live)
    (loc : Local fp h h' a) :
    Inv fp h' live ∧ ∀ b ∈ live, b ≠ a → fp.obs h' b = fp.obs h b := by
  obtain ⟨wf, ty, sep⟩ := inv
  have other : ∀ b ∈ live, b ≠ a →
      fp.obs h' b = fp.obs h b ∧ fp.reads h' b = fp.reads h b ∧ fp.owned h' b = fp.owned h b ∧
      fp.Typed h' b := by
    intro b hb ne
    refine fp.congr (ty b hb) fun r hr => ?_
    exact loc.frame r (fp.lt wf (ty b hb) r hr) (fun ho => sep a ha b hb (Ne.symm ne) r ho hr)
  refine ⟨⟨loc.wf, ?_, ?_⟩, fun b hb ne => (other b hb ne).1⟩
  · intro c hc
    by_cases e : c = a
    · subst e; exact loc.typed
    · exact (other c hc e).2.2.2
  · intro x hx y hy nxy r hr hr'
    by_cases ex : x = a
    · subst ex
      have hy' := other y hy (Ne.symm nxy)
      rw [hy'.2.1] at hr'
      rcases loc.owned_sub r hr with h1 | h1
      · exact sep x hx y hy nxy r h1 hr'
      · have := fp.lt wf (ty y hy) r hr'; omega
    · have hx' := other x hx ex
      rw [hx'.2.2.1] at hr
      have rlt : r < h.next := fp.lt wf (ty x hx) r (fp.sub r hr)
      by_cases ey : y = a
      · subst ey
        rcases loc.reads_sub r hr' with h1 | h1
        · exact sep x hx y hy nxy r hr h1
        · omega
      · have hy' := other y hy ey
        rw [hy'.2.1] at hr'
        exact sep x hx y hy nxy r hr hr'

/-- A new object whose own cells are all new, and which reads – besides new cells – only shareable
    cells of the old heap. -/
structure Fresh (h h' : Heap) (c : Nat) : Prop where
  ext : Ext h h'
  wf : WF h'
  typed : fp.Typed h' c
  self_new : h.next ≤ c
  owned_new : ∀ r ∈ fp.owned h' c, h.next ≤ r
  reads_new : ∀ r ∈ fp.reads h' c, h.next ≤ r ∨ Shareable h r

theorem fresh_inv {h h' : Heap} {live : List Nat} {c : Nat} (inv : Inv fp h live)
    (live_lt : ∀ b ∈ live, b < h.next) (fr : Fresh fp h h' c) :
    Inv fp h' (live ++ [c]) ∧ ∀ b ∈ live, fp.obs h' b = fp.obs h b := by
  obtain ⟨wf, ty, sep⟩ := inv
  have old : ∀ b ∈ live, fp.obs h' b = fp.obs h b ∧ fp.reads h' b = fp.reads h b ∧
      fp.owned h' b = fp.owned h b ∧ fp.Typed h' b :=
    fun b hb => fp.ext wf fr.ext (ty b hb)
  refine ⟨⟨fr.wf, ?_, ?_⟩, fun b hb => (old b hb).1⟩
  · intro x hx
    rcases List.mem_append.1 hx with hx | hx
    · exact (old x hx).2.2.2
    · simp only [List.mem_cons, List.not_mem_nil, or_false] at hx; subst hx; exact fr.typed
  · intro x hx y hy nxy r hr hr'
    rcases List.mem_append.1 hx with hx1 | hx1 <;> rcases List.mem_append.1 hy with hy1 | hy1
    · rw [(old x hx1).2.2.1] at hr
      rw [(old y hy1).2.1] at hr'
      exact sep x hx1 y hy1 nxy r hr hr'
    · simp only [List.mem_cons, List.not_mem_nil, or_false] at hy1
      rw [(old x hx1).2.2.1] at hr
      have rlt : r < h.next := fp.lt wf (ty x hx1) r (fp.sub r hr)
      have kind := fp.kind (ty x hx1) r hr
      rw [hy1] at hr'
      rcases fr.reads_new r hr' with h1 | h1
      · omega
      · exact kind h1
    · simp only [List.mem_cons, List.not_mem_nil, or_false] at hx1
      rw [(old y hy1).2.1] at hr'
      have := fp.lt wf (ty y hy1) r hr'
      rw [hx1] at hr
      have := fr.owned_new r hr
      omega
    · simp only [List.mem_cons, List.not_mem_nil, or_false] at hx1 hy1
      exact absurd (hx1.trans hy1.symm) nxy

/-- A step that allocates but changes nothing that exists and adds no live object. -/
theorem ext_inv {h h' : Heap} {live : List Nat} (inv : Inv fp h live) (ext : Ext h h') (wf' : WF h') :
    Inv fp h' live ∧ ∀ b ∈ live, fp.obs h' b = fp.obs h b := by
  obtain ⟨wf, ty, sep⟩ := inv
  have old := fun b (hb : b ∈ live) => fp.ext wf ext (ty b hb)
  refine ⟨⟨wf', fun c hc => (old c hc).2.2.2, ?_⟩, fun b hb => (old b hb).1⟩
  intro x hx y hy nxy r hr hr'
  rw [(old x hx).2.2.1] at hr
  rw [(old y hy).2.1] at hr'
  exact sep x hx y hy nxy r hr hr'

/-! ### Part 3: data collections -/

theorem mdRefs_cons_lst (k : Nat) (r : Nat) (m : List (Nat × MVal)) :
    mdRefs ((k, .lst r) :: m) = r :: mdRefs m := by
  simp [mdRefs, List.filterMap_cons]

theorem mdRefs_cons_tok (k : Nat) (s : MV) (m : List (Nat × MVal)) :
    mdRefs ((k, .tok s) :: m) = mdRefs m := by
  simp [mdRefs, List.filterMap_cons]

theorem mem_mdRefs {m : List (Nat × MVal)} {r : Nat} :
    r ∈ mdRefs m ↔ ∃ k, (k, MVal.lst r) ∈ m := by
  induction m with
  | nil => simp [mdRefs]
  | cons p rest ih =>
    obtain ⟨k, v⟩ := p
    cases v with
    | tok s =>
      rw [mdRefs_cons_tok, ih]
      constructor
      · rintro ⟨k', hk⟩; exact ⟨k', List.mem_cons_of_mem _ hk⟩
      · rintro ⟨k', hk⟩
        rcases List.mem_cons.1 hk with e | e
        · cases e
        · exact ⟨k', e⟩
    | lst r' =>
      rw [mdRefs_cons_lst, List.mem_cons, ih]
      constructor
      · rintro (e | ⟨k', hk⟩)
        · exact ⟨k, by rw [e]; exact List.mem_cons_self⟩
        · exact ⟨k', List.mem_cons_of_mem _ hk⟩
      · rintro ⟨k', hk⟩
        rcases List.mem_cons.1 hk with e | e
        · left; cases e; rfl
        · exact Or.inr ⟨k', e⟩

theorem obsMeta_congr {c c' : Nat → Option Cell} {m : List (Nat × MVal)}
    (same : ∀ r ∈ mdRefs m, c' r = c r) : obsMeta c' m = obsMeta c m := by
  unfold obsMeta
  apply List.map_congr_left
  intro p hp
  obtain ⟨k, v⟩ := p
  cases v with
  | tok s => rfl
  | lst r => simp only; rw [same r (mem_mdRefs.2 ⟨k, hp⟩)]

/-- A well-formed collection: all cells exist and have the right kind, a mutable collection holds a
    list, and every nested metadata list exists. -/
def Typed (h : Heap) (c : Nat) : Prop :=
  ∃ k hd m a v t, h.cells c = some (.coll k) ∧ h.cells k.hdr = some (.hdr hd) ∧
    h.cells hd.md = some (.md m) ∧ h.cells hd.ap = some (.ap a) ∧
    h.cells k.vals = some (.vals v t) ∧ (k.isMut = true → t = false) ∧
    ∀ r ∈ mdRefs m, ∃ l, h.cells r = some (.mlist l)

/-- The cells `obs h c` depends on. -/
def reads (h : Heap) (c : Nat) : List Nat :=
  match foot h c with
  | some f => [f.coll, f.hdr, f.md, f.ap, f.vals] ++ f.nested
  | none => []

/-- The cells a mutator applied to `c` may overwrite: the collection, its header, its metadata dict, the
    nested metadata lists and – for a mutable collection – its values list.  Never a period or a tuple. -/
def owned (h : Heap) (c : Nat) : List Nat :=
  match foot h c with
  | some f => [f.coll, f.hdr, f.md] ++ f.nested ++ (if f.isMut then [f.vals] else [])
  | none => []

theorem foot_of_typed {h : Heap} {c : Nat} {k : Coll} {hd : Hdr} {m : List (Nat × MVal)}
    (e1 : h.cells c = some (.coll k)) (e2 : h.cells k.hdr = some (.hdr hd))
    (e3 : h.cells hd.md = some (.md m)) :
    foot h c = some ⟨c, k.hdr, hd.md, hd.ap, k.vals, k.isMut, mdRefs m⟩ := by
  simp [foot, getColl, getHdr, getMeta, e1, e2, e3]

theorem reads_of_typed {h : Heap} {c : Nat} {k : Coll} {hd : Hdr} {m : List (Nat × MVal)}
    (e1 : h.cells c = some (.coll k)) (e2 : h.cells k.hdr = some (.hdr hd))
    (e3 : h.cells hd.md = some (.md m)) :
    reads h c = [c, k.hdr, hd.md, hd.ap, k.vals] ++ mdRefs m ∧
    owned h c = [c, k.hdr, hd.md] ++ mdRefs m ++ (if k.isMut then [k.vals] else []) := by
  simp [reads, owned, foot_of_typed e1 e2 e3]

theorem mem_reads {h : Heap} {c : Nat} {k : Coll} {hd : Hdr} {m : List (Nat × MVal)}
    (e1 : h.cells c = some (.coll k)) (e2 : h.cells k.hdr = some (.hdr hd))
    (e3 : h.cells hd.md = some (.md m)) {r : Nat} :
    r ∈ reads h c ↔ r = c ∨ r = k.hdr ∨ r = hd.md ∨ r = hd.ap ∨ r = k.vals ∨ r ∈ mdRefs m := by
  rw [(reads_of_typed e1 e2 e3).1]
  simp only [List.mem_append, List.mem_cons, List.not_mem_nil, or_false]
  constructor
  · rintro ((h1 | h1 | h1 | h1 | h1) | h1) <;> simp [h1]
  · rintro (h1 | h1 | h1 | h1 | h1 | h1) <;> simp [h1]

theorem mem_owned {h : Heap} {c : Nat} {k : Coll} {hd : Hdr} {m : List (Nat × MVal)}
    (e1 : h.cells c = some (.coll k)) (e2 : h.cells k.hdr = some (.hdr hd))
    (e3 : h.cells hd.md = some (.md m)) {r : Nat} :
    r ∈ owned h c ↔ r = c ∨ r = k.hdr ∨ r = hd.md ∨ r ∈ mdRefs m ∨ (k.isMut = true ∧ r = k.vals) := by
  rw [(reads_of_typed e1 e2 e3).2]
  simp only [List.mem_append, List.mem_cons, List.not_mem_nil, or_false]
  constructor
  · rintro (((h1 | h1 | h1) | h1) | h1)
    · simp [h1]
    · simp [h1]
    · simp [h1]
    · simp [h1]
    · split at h1
      · rename_i hm
        simp only [List.mem_cons, List.not_mem_nil, or_false] at h1
        simp [h1, hm]
      · cases h1
  · rintro (h1 | h1 | h1 | h1 | ⟨hm, h1⟩)
    · simp [h1]
    · simp [h1]
    · simp [h1]
    · simp [h1]
    · simp [h1, hm]

/-- `obs` and `foot` depend only on the cells in `reads`. -/
theorem obs_congr {h h' : Heap} {c : Nat} (ty : Typed h c)
    (same : ∀ r ∈ reads h c, h'.cells r = h.cells r) :
    obs h' c = obs h c ∧ reads h' c = reads h c ∧ owned h' c = owned h c ∧ Typed h' c := by
  obtain ⟨k, hd, m, a, v, t, e1, e2, e3, e4, e5, e6, e7⟩ := ty
  have mr := @mem_reads h c k hd m e1 e2 e3
  have s1 := same c (mr.2 (Or.inl rfl))
  have s2 := same k.hdr (mr.2 (Or.inr (Or.inl rfl)))
  have s3 := same hd.md (mr.2 (Or.inr (Or.inr (Or.inl rfl))))
  have s4 := same hd.ap (mr.2 (Or.inr (Or.inr (Or.inr (Or.inl rfl)))))
  have s5 := same k.vals (mr.2 (Or.inr (Or.inr (Or.inr (Or.inr (Or.inl rfl))))))
  have s6 : ∀ r ∈ mdRefs m, h'.cells r = h.cells r :=
    fun r hr => same r (mr.2 (Or.inr (Or.inr (Or.inr (Or.inr (Or.inr hr))))))
  rw [e1] at s1; rw [e2] at s2; rw [e3] at s3; rw [e4] at s4; rw [e5] at s5
  have om : obsMeta h'.cells m = obsMeta h.cells m := obsMeta_congr s6
  refine ⟨?_, ?_, ?_, ⟨k, hd, m, a, v, t, s1, s2, s3, s4, s5, e6, fun r hr => ?_⟩⟩
  · simp [obs, getColl, getHdr, getMeta, getAP, getVals, e1, e2, e3, e4, e5, s1, s2, s3, s4, s5, om]
  · rw [(reads_of_typed e1 e2 e3).1, (reads_of_typed s1 s2 s3).1]
  · rw [(reads_of_typed e1 e2 e3).2, (reads_of_typed s1 s2 s3).2]
  · obtain ⟨l, hl⟩ := e7 r hr
    exact ⟨l, by rw [s6 r hr]; exact hl⟩

theorem reads_lt {h : Heap} (wf : WF h) {c : Nat} (ty : Typed h c) : ∀ r ∈ reads h c, r < h.next := by
  obtain ⟨k, hd, m, a, v, t, e1, e2, e3, e4, e5, _, e7⟩ := ty
  intro r hr
  rcases (mem_reads e1 e2 e3).1 hr with rfl | rfl | rfl | rfl | rfl | h1
  · exact lt_next_of_some wf e1
  · exact lt_next_of_some wf e2
  · exact lt_next_of_some wf e3
  · exact lt_next_of_some wf e4
  · exact lt_next_of_some wf e5
  · obtain ⟨l, hl⟩ := e7 r h1
    exact lt_next_of_some wf hl

theorem owned_sub_reads {h : Heap} {c : Nat} : ∀ r ∈ owned h c, r ∈ reads h c := by
  intro r hr
  unfold owned at hr; unfold reads
  split at hr
  · rename_i f _
    simp only [List.mem_append, List.mem_cons, List.not_mem_nil, or_false] at hr ⊢
    rcases hr with ((h1 | h1 | h1) | h1) | h1
    · simp [h1]
    · simp [h1]
    · simp [h1]
    · exact Or.inr h1
    · split at h1
      · simp only [List.mem_cons, List.not_mem_nil, or_false] at h1; simp [h1]
      · cases h1
  · cases hr

theorem owned_kind {h : Heap} {c : Nat} (ty : Typed h c) : ∀ r ∈ owned h c, ¬ Shareable h r := by
  obtain ⟨k, hd, m, a, v, t, e1, e2, e3, e4, e5, e6, e7⟩ := ty
  intro r hr sh
  have known : ∃ x, h.cells r = some x ∧ (∀ a, x ≠ .ap a) ∧ (∀ v, x ≠ .vals v true) ∧ (∀ t, x ≠ .loc t) := by
    rcases (mem_owned e1 e2 e3).1 hr with rfl | rfl | rfl | h1 | ⟨hm, rfl⟩
    · exact ⟨_, e1, by simp, by simp, by simp⟩
    · exact ⟨_, e2, by simp, by simp, by simp⟩
    · exact ⟨_, e3, by simp, by simp, by simp⟩
    · obtain ⟨l, hl⟩ := e7 r h1
      exact ⟨_, hl, by simp, by simp, by simp⟩
    · have := e6 hm; subst this
      exact ⟨_, e5, by simp, by simp, by simp⟩
  obtain ⟨x, hx, n1, n2, n3⟩ := known
  rcases sh with ⟨a', h1⟩ | ⟨v', h1⟩ | ⟨t', h1⟩
  · rw [hx] at h1; exact n1 a' (Option.some.inj h1)
  · rw [hx] at h1; exact n2 v' (Option.some.inj h1)
  · rw [hx] at h1; exact n3 t' (Option.some.inj h1)

/-- The footprint system of data collections. -/
def collFP : FP (Option Obs) where
  reads := reads
  owned := owned
  Typed := Typed
  obs := obs
  congr := fun ty same => obs_congr ty same
  lt := fun wf ty => reads_lt wf ty
  sub := owned_sub_reads
  kind := fun ty => owned_kind ty

end LbHeap
