/-
  Value-level IDF round trip at token level (Mathlib-free): fields are abstract tokens obeying the laws of
  `TokLaws`; numbers are opaque.
-/
import Ladybug.Model.DesignDay

namespace DD

open Gen.DD Tok NumVal

/-- What is assumed of the tokens (Python: `float(str(x)) == x`, `int(str(n)) == n`, a string is its own
    text, `'Yes'.lower() == 'yes'`, `'No'.lower() != 'yes'`, `str(x) != ''` for a number). -/
structure TokLaws (τ ν : Type) [NumVal ν] [Tok τ ν] : Prop where
  num_ofNum : ∀ x : ν, num? (ofNum x : τ) = some x
  int_ofNat : ∀ n : Nat, int? (ofNat n : τ) = some (n : Int)
  text_ofStr : ∀ s : String, text (ofStr s : τ) = s
  text_ofNum : ∀ x : ν, text (ofNum x : τ) ≠ ""
  yes : isYes (ofStr "Yes" : τ) = true
  no : isYes (ofStr "No" : τ) = false

variable {τ ν : Type} [NumVal ν] [Tok τ ν]

theorem isYes_yesNo (L : TokLaws τ ν) (b : Bool) : isYes (ofStr (yesNo b) : τ) = b := by
  cases b
  · exact L.no
  · exact L.yes

/-- The conditions the constructors assert (and the IDF form can carry). -/
structure Writable (d : DesignDay ν) : Prop where
  dayType : dayTypes.contains d.dayType = true
  range : 0 ≤ toRat d.db.range
  windDir : between 0 d.wind.dir 360 = true
  date : Cal.D.make d.sky.date.month d.sky.date.day false = .ok d.sky.date
  wbr : d.hum.wetBulbRange = .blank
  leap : d.sky.date.leap = false
  sky : match d.sky.kind with
    | .base _ _ => False
    | .clear c => between 0 c (6 / 5) = true
    | .tau _ _ _ => True

end DD

namespace DD
open Gen.DD Tok NumVal
variable {τ ν : Type} [NumVal ν] [Tok τ ν]

theorem fld_of (f : List τ) (k : Nat) (t : τ) (h : f[k]? = some t) : fld f k = .ok t := by
  unfold fld; rw [h]

theorem strFld_of (L : TokLaws τ ν) (f : List τ) (k : Nat) (s : String) (h : f[k]? = some (ofStr s)) :
    strFld f k = .ok s := by
  unfold strFld; rw [fld_of f k _ h]; simp only [bind, Except.bind, pure, Except.pure, L.text_ofStr]

theorem numFld_of (L : TokLaws τ ν) (f : List τ) (k : Nat) (x : ν) (h : f[k]? = some (ofNum x)) :
    numFld f k = .ok x := by
  unfold numFld; rw [fld_of f k _ h]; simp only [bind, Except.bind, L.num_ofNum]

theorem intFld_of (L : TokLaws τ ν) (f : List τ) (k : Nat) (n : Nat) (h : f[k]? = some (ofNat n)) :
    intFld f k = .ok (n : Int) := by
  unfold intFld; rw [fld_of f k _ h]; simp only [bind, Except.bind, L.int_ofNat]

theorem flagFld_of (L : TokLaws τ ν) (f : List τ) (g k : Nat) (b : Bool) (hg : g < f.length)
    (h : f[k]? = some (ofStr (yesNo b))) : flagFld f g k = .ok b := by
  unfold flagFld; rw [if_pos hg, fld_of f k _ h]
  simp only [bind, Except.bind, pure, Except.pure, isYes_yesNo L]

theorem readDryBulb_of (L : TokLaws τ ν) (f : List τ) (a b : ν) (mt ms : String)
    (h1 : f[iDbMax]? = some (ofNum a)) (h2 : f[iDbRange]? = some (ofNum b))
    (h3 : f[iModType]? = some (ofStr mt)) (h4 : f[iModSched]? = some (ofStr ms)) (hb : 0 ≤ toRat b) :
    readDryBulb f = .ok ⟨a, b, mt, ms⟩ := by
  unfold readDryBulb
  rw [numFld_of L f _ a h1, numFld_of L f _ b h2, strFld_of L f _ mt h3, strFld_of L f _ ms h4]
  simp only [bind, Except.bind, pure, Except.pure, check, decide_eq_true hb, if_true]

theorem readWind_of (L : TokLaws τ ν) (f : List τ) (ws wd : ν)
    (h1 : f[iWindSpeed]? = some (ofNum ws)) (h2 : f[iWindDir]? = some (ofNum wd)) (hwd : between 0 wd 360 = true) :
    readWind f = .ok ⟨ws, wd⟩ := by
  unfold readWind
  rw [numFld_of L f _ ws h1, numFld_of L f _ wd h2]
  simp only [bind, Except.bind, pure, Except.pure, check, hwd, if_true]

/-- the generic humidity cell written for a humidity type: the value, or blank -/
def genericCell (ty : Psychro.HumType) (v : ν) : τ :=
  match ty with
  | .wetbulb => ofNum v
  | .dewpoint => ofNum v
  | _ => ofStr ""

theorem readHumidity_of (L : TokLaws τ ν) (f : List τ) (ty : Psychro.HumType) (v p : ν) (r s : Bool) (sch : String)
    (h1 : f[iHumType]? = some (ofStr (humTypeName ty)))
    (h2 : f[iHumValue]? = some (genericCell ty v))
    (h3 : ty = .humidityRatio → f[iHumRatio]? = some (ofNum v))
    (h4 : ty = .enthalpy → f[iEnthalpy]? = some (ofNum v))
    (h5 : f[iPressure]? = some (ofNum p)) (h6 : f[iHumSched]? = some (ofStr sch))
    (g1 : gRain < f.length) (h7 : f[iRain]? = some (ofStr (yesNo r)))
    (g2 : gSnow < f.length) (h8 : f[iSnow]? = some (ofStr (yesNo s))) :
    readHumidity f = .ok ⟨ty, v, p, r, s, sch, .blank⟩ := by
  unfold readHumidity
  rw [strFld_of L f _ _ h1, flagFld_of L f _ _ r g1 h7, flagFld_of L f _ _ s g2 h8,
    numFld_of L f _ p h5, strFld_of L f _ sch h6]
  have hne : (text (ofNum v : τ) == "") = false := by
    simp only [beq_eq_false_iff_ne]; exact L.text_ofNum v
  cases ty
  · -- dewpoint
    have e : strFld f iHumValue = .ok (text (ofNum v : τ)) := by
      unfold strFld; rw [fld_of f _ _ h2]; rfl
    rw [e, numFld_of L f _ v h2]
    have a1 : (humTypeName .dewpoint == "HumidityRatio") = false := by decide
    have a2 : (humTypeName .dewpoint == "Enthalpy") = false := by decide
    have a3 : humTypeOfName? (humTypeName .dewpoint) = some .dewpoint := by decide
    simp only [bind, Except.bind, pure, Except.pure, hne, a1, a2, a3, Bool.false_eq_true, if_false]
  · -- wetbulb
    have e : strFld f iHumValue = .ok (text (ofNum v : τ)) := by
      unfold strFld; rw [fld_of f _ _ h2]; rfl
    rw [e, numFld_of L f _ v h2]
    have a1 : (humTypeName .wetbulb == "HumidityRatio") = false := by decide
    have a2 : (humTypeName .wetbulb == "Enthalpy") = false := by decide
    have a3 : humTypeOfName? (humTypeName .wetbulb) = some .wetbulb := by decide
    simp only [bind, Except.bind, pure, Except.pure, hne, a1, a2, a3, Bool.false_eq_true, if_false]
  · -- humidity ratio
    rw [strFld_of L f _ "" h2, numFld_of L f _ v (h3 rfl)]
    have a1 : (humTypeName .humidityRatio == "HumidityRatio") = true := by decide
    have a3 : humTypeOfName? (humTypeName .humidityRatio) = some .humidityRatio := by decide
    have a4 : (("" : String) == "") = true := by decide
    simp only [bind, Except.bind, pure, Except.pure, a1, a3, a4, if_true]
  · -- enthalpy
    rw [strFld_of L f _ "" h2, numFld_of L f _ v (h4 rfl)]
    have a1 : (humTypeName .enthalpy == "HumidityRatio") = false := by decide
    have a2 : (humTypeName .enthalpy == "Enthalpy") = true := by decide
    have a3 : humTypeOfName? (humTypeName .enthalpy) = some .enthalpy := by decide
    have a4 : (("" : String) == "") = true := by decide
    simp only [bind, Except.bind, pure, Except.pure, a1, a2, a3, a4, Bool.false_eq_true, if_false, if_true]

theorem readSky_clear_of (L : TokLaws τ ν) (f : List τ) (mo da : Nat) (dl : Bool) (c : ν)
    (h1 : f[iMonth]? = some (ofNat mo)) (h2 : f[iDay]? = some (ofNat da))
    (hdate : Cal.D.make mo da false = .ok ⟨mo, da, false⟩)
    (g1 : gDst < f.length) (h3 : f[iDst]? = some (ofStr (yesNo dl)))
    (g2 : gSkyModel < f.length) (h4 : f[iSkyModel]? = some (ofStr "ASHRAEClearSky"))
    (g3 : gClearness < f.length) (h5 : f[iClearness]? = some (ofNum c)) (hc : between 0 c (6 / 5) = true) :
    readSky f = .ok ⟨⟨mo, da, false⟩, dl, .clear c⟩ := by
  unfold readSky
  have a1 : (("ASHRAEClearSky" : String) == "ASHRAEClearSky") = true := by decide
  simp only [intFld_of L f _ mo h1, intFld_of L f _ da h2, flagFld_of L f _ _ dl g1 h3, if_pos g2,
    strFld_of L f _ _ h4, bind, Except.bind, pure, Except.pure, hdate, a1, if_true, if_pos g3, numFld_of L f _ c h5, check, hc]

theorem readSky_tau_of (L : TokLaws τ ν) (f : List τ) (mo da : Nat) (dl : Bool) (tb td : ν) (u : Bool)
    (h1 : f[iMonth]? = some (ofNat mo)) (h2 : f[iDay]? = some (ofNat da))
    (hdate : Cal.D.make mo da false = .ok ⟨mo, da, false⟩)
    (g1 : gDst < f.length) (h3 : f[iDst]? = some (ofStr (yesNo dl)))
    (g2 : gSkyModel < f.length)
    (h4 : f[iSkyModel]? = some (ofStr (if u then "ASHRAETau2017" else "ASHRAETau")))
    (g3 : gTauB < f.length) (h5 : f[iTauB]? = some (ofNum tb))
    (g4 : gTauD < f.length) (h6 : f[iTauD]? = some (ofNum td)) :
    readSky f = .ok ⟨⟨mo, da, false⟩, dl, .tau tb td u⟩ := by
  unfold readSky
  have e := strFld_of L f _ _ h4
  cases u
  · have a1 : (("ASHRAETau" : String) == "ASHRAEClearSky") = false := by decide
    have a2 : (("ASHRAETau" : String) == "ASHRAETau") = true := by decide
    have a3 : (("ASHRAETau" : String) == "ASHRAETau2017") = false := by decide
    simp only [intFld_of L f _ mo h1, intFld_of L f _ da h2, flagFld_of L f _ _ dl g1 h3, if_pos g2, e,
      bind, Except.bind, pure, Except.pure, hdate, a1, a2, a3, Bool.false_eq_true, if_false, if_true,
      Bool.true_or, if_pos g3, if_pos g4, numFld_of L f _ tb h5, numFld_of L f _ td h6]
  · have a1 : (("ASHRAETau2017" : String) == "ASHRAEClearSky") = false := by decide
    have a2 : (("ASHRAETau2017" : String) == "ASHRAETau") = false := by decide
    have a3 : (("ASHRAETau2017" : String) == "ASHRAETau2017") = true := by decide
    simp only [intFld_of L f _ mo h1, intFld_of L f _ da h2, flagFld_of L f _ _ dl g1 h3, if_pos g2, e,
      bind, Except.bind, pure, Except.pure, hdate, a1, a2, a3, Bool.false_eq_true, if_false, if_true,
      Bool.or_true, if_pos g3, if_pos g4, numFld_of L f _ tb h5, numFld_of L f _ td h6]

def hrCell (ty : Psychro.HumType) (v : ν) : τ :=
  match ty with
  | .humidityRatio => ofNum v
  | _ => ofStr ""

def enCell (ty : Psychro.HumType) (v : ν) : τ :=
  match ty with
  | .enthalpy => ofNum v
  | _ => ofStr ""

omit [NumVal ν] in
/-- the fields of a written clear-sky day, spelled out -/
theorem written_clear (nm dt mt ms sch : String) (tail : τ) (a b v p ws wd c : ν) (mo da : Nat) (r s dl : Bool)
    (ty : Psychro.HumType) :
    writtenFields (τ := τ) ⟨nm, dt, ⟨a, b, mt, ms⟩, ⟨ty, v, p, r, s, sch, .blank⟩, ⟨ws, wd⟩,
      ⟨⟨mo, da, false⟩, dl, .clear c⟩⟩ tail =
    [ofStr "SizingPeriod:DesignDay", ofStr nm, ofNat mo, ofNat da, ofStr dt, ofNum a, ofNum b, ofStr mt, ofStr ms,
      ofStr (humTypeName ty), genericCell ty v, ofStr sch, hrCell ty v, enCell ty v, ofStr "", ofNum p, ofNum ws, ofNum wd,
      ofStr (yesNo r), ofStr (yesNo s), ofStr (yesNo dl), ofStr "ASHRAEClearSky", ofStr "", ofStr "", ofStr "", ofStr "", ofNum c, tail] := by
  cases ty <;> rfl

omit [NumVal ν] in
/-- the fields of a written Tau day, spelled out -/
theorem written_tau (nm dt mt ms sch : String) (tail : τ) (a b v p ws wd tb td : ν) (mo da : Nat) (r s dl u : Bool)
    (ty : Psychro.HumType) :
    writtenFields (τ := τ) ⟨nm, dt, ⟨a, b, mt, ms⟩, ⟨ty, v, p, r, s, sch, .blank⟩, ⟨ws, wd⟩,
      ⟨⟨mo, da, false⟩, dl, .tau tb td u⟩⟩ tail =
    [ofStr "SizingPeriod:DesignDay", ofStr nm, ofNat mo, ofNat da, ofStr dt, ofNum a, ofNum b, ofStr mt, ofStr ms,
      ofStr (humTypeName ty), genericCell ty v, ofStr sch, hrCell ty v, enCell ty v, ofStr "", ofNum p, ofNum ws, ofNum wd,
      ofStr (yesNo r), ofStr (yesNo s), ofStr (yesNo dl), ofStr (if u then "ASHRAETau2017" else "ASHRAETau"), ofStr "", ofStr "", ofNum tb, ofNum td, tail] := by
  cases ty <;> cases u <;> rfl

/-- **Value-level round trip.**  For tokens obeying `TokLaws` and every writable design day (any of the four
    humidity types, ASHRAEClearSky / ASHRAETau / ASHRAETau2017, any rain / snow / daylight-saving flags, any
    numbers, names and schedule names, any trailing text), `from_idf` of the fields `to_idf` writes is the
    design day itself. -/
theorem idf_roundtrip_value (L : TokLaws τ ν) (d : DesignDay ν) (W : Writable d) (tail : τ) :
    fromIdfFields (writtenFields d tail) = .ok d := by
  obtain ⟨hdt, hb, hwd, hdate, hwbr, hleap, hsky⟩ := W
  rcases d with ⟨nm, dt, ⟨a, b, mt, ms⟩, ⟨ty, v, p, r, s, sch, wbr⟩, ⟨ws, wd⟩, ⟨⟨mo, da, lp⟩, dl, kind⟩⟩
  simp only at hdt hb hwd hdate hwbr hleap hsky
  subst hwbr
  subst hleap
  cases kind with
  | base b1 b2 => exact absurd hsky id
  | clear c =>
    rw [written_clear]
    unfold fromIdfFields
    rw [strFld_of L _ _ nm rfl, strFld_of L _ _ dt rfl,
      readDryBulb_of L _ a b mt ms rfl rfl rfl rfl hb,
      readHumidity_of L _ ty v p r s sch rfl rfl (fun h => by subst h; rfl) (fun h => by subst h; rfl) rfl rfl
        (Nat.lt_of_lt_of_eq (by decide : _ < 28) rfl) rfl (Nat.lt_of_lt_of_eq (by decide : _ < 28) rfl) rfl,
      readWind_of L _ ws wd rfl rfl hwd,
      readSky_clear_of L _ mo da dl c rfl rfl hdate (Nat.lt_of_lt_of_eq (by decide : _ < 28) rfl) rfl (Nat.lt_of_lt_of_eq (by decide : _ < 28) rfl) rfl (Nat.lt_of_lt_of_eq (by decide : _ < 28) rfl) rfl hsky]
    simp only [bind, Except.bind, pure, Except.pure, check, hdt, if_true]
  | tau tb td u =>
    rw [written_tau]
    unfold fromIdfFields
    rw [strFld_of L _ _ nm rfl, strFld_of L _ _ dt rfl,
      readDryBulb_of L _ a b mt ms rfl rfl rfl rfl hb,
      readHumidity_of L _ ty v p r s sch rfl rfl (fun h => by subst h; rfl) (fun h => by subst h; rfl) rfl rfl
        (Nat.lt_of_lt_of_eq (by decide : _ < 27) rfl) rfl (Nat.lt_of_lt_of_eq (by decide : _ < 27) rfl) rfl,
      readWind_of L _ ws wd rfl rfl hwd,
      readSky_tau_of L _ mo da dl tb td u rfl rfl hdate (Nat.lt_of_lt_of_eq (by decide : _ < 27) rfl) rfl (Nat.lt_of_lt_of_eq (by decide : _ < 27) rfl) rfl (Nat.lt_of_lt_of_eq (by decide : _ < 27) rfl) rfl
        (Nat.lt_of_lt_of_eq (by decide : _ < 27) rfl) rfl]
    simp only [bind, Except.bind, pure, Except.pure, check, hdt, if_true]

/-! ### design days from the ASHRAE header dictionaries -/

theorem numKey_of (L : TokLaws τ ν) (kv : List (String × τ)) (k : String) (x : ν)
    (h : lookup kv k = .ok (ofNum x)) : numKey kv k = .ok x := by
  unfold numKey; rw [h]; simp only [bind, Except.bind, L.num_ofNum]

theorem monthDate_of (L : TokLaws τ ν) (kv : List (String × τ)) (m : Nat)
    (h : lookup kv "Month" = .ok (ofNat m)) (hm : Cal.D.make m 21 false = .ok ⟨m, 21, false⟩) :
    monthDate kv = .ok ⟨m, 21, false⟩ := by
  unfold monthDate; rw [h]; simp only [bind, Except.bind, L.int_ofNat, hm]

theorem ashrae_heating_value (L : TokLaws τ ν) (kv : List (String × τ)) (city : String) (u : Bool) (p db ws wd : ν)
    (m : Nat) (h1 : lookup kv (if u then "DB990" else "DB996") = .ok (ofNum db))
    (h2 : lookup kv "WS_DB996" = .ok (ofNum ws)) (h3 : lookup kv "WD_DB996" = .ok (ofNum wd))
    (hwd : between 0 wd 360 = true) (h4 : lookup kv "Month" = .ok (ofNat m))
    (hm : Cal.D.make m 21 false = .ok ⟨m, 21, false⟩) :
    fromAshraeHeating kv city u p = .ok
      { name := city ++ " Heating Design Day " ++ (if u then "99" else "99.6") ++ "% Condns DB",
        dayType := "WinterDesignDay", db := ⟨db, zero, "DefaultMultipliers", ""⟩,
        hum := ⟨.wetbulb, db, p, false, false, "", .blank⟩, wind := ⟨ws, wd⟩,
        sky := ⟨⟨m, 21, false⟩, false, .clear zero⟩ } := by
  unfold fromAshraeHeating
  simp only [numKey_of L kv _ db h1, numKey_of L kv _ ws h2, numKey_of L kv _ wd h3, monthDate_of L kv m h4 hm,
    bind, Except.bind, pure, Except.pure, check, hwd, if_true]

theorem ashrae_cooling_value (L : TokLaws τ ν) (kv : List (String × τ)) (city : String) (u : Bool)
    (p db rng wb ws wd one : ν) (tau : Option (ν × ν)) (m : Nat)
    (h1 : lookup kv (if u then "DB010" else "DB004") = .ok (ofNum db))
    (h0 : lookup kv "DBR" = .ok (ofNum rng)) (hr : 0 ≤ toRat rng)
    (h5 : lookup kv (if u then "WB_DB010" else "WB_DB004") = .ok (ofNum wb))
    (h2 : lookup kv "WS_DB004" = .ok (ofNum ws)) (h3 : lookup kv "WD_DB004" = .ok (ofNum wd))
    (hwd : between 0 wd 360 = true) (h4 : lookup kv "Month" = .ok (ofNat m))
    (hm : Cal.D.make m 21 false = .ok ⟨m, 21, false⟩) :
    fromAshraeCooling kv city u p tau one = .ok
      { name := city ++ " Cooling Design Day " ++ (if u then "1" else "0.4") ++ "% Condns DB=>MWB",
        dayType := "SummerDesignDay", db := ⟨db, rng, "DefaultMultipliers", ""⟩,
        hum := ⟨.wetbulb, wb, p, false, false, "", .blank⟩, wind := ⟨ws, wd⟩,
        sky := ⟨⟨m, 21, false⟩, false, match tau with
          | some (b, t) => .tau b t false
          | none => .clear one⟩ } := by
  unfold fromAshraeCooling
  rcases tau with _ | ⟨b, t⟩ <;>
  simp only [numKey_of L kv _ db h1, numKey_of L kv _ rng h0, numKey_of L kv _ wb h5, numKey_of L kv _ ws h2,
    numKey_of L kv _ wd h3, monthDate_of L kv m h4 hm, bind, Except.bind, pure, Except.pure, check, hwd,
    decide_eq_true hr, if_true]

/-! ### Location -/

theorem optNum_ofNum (L : TokLaws τ ν) (x : ν) : optNum (ofNum x : τ) = .ok x := by
  unfold optNum
  have hne : (text (ofNum x : τ) == "") = false := by
    simp only [beq_eq_false_iff_ne]; exact L.text_ofNum x
  simp only [hne, Bool.false_eq_true, if_false, L.num_ofNum]

/-- `Location.from_idf(loc.to_idf())` gives the location back (IDF-carried fields; city not empty;
    latitude, longitude and time zone inside the ranges the setters assert). -/
theorem loc_roundtrip_value (L : TokLaws τ ν) (l : Loc ν) (hc : (l.city == "") = false)
    (h1 : between (-90) l.lat 90 = true) (h2 : between (-180) l.lon 180 = true)
    (h3 : between (-12) l.tz 14 = true) :
    locFromFields (locFields l : List τ) = .ok l := by
  rcases l with ⟨city, lat, lon, tz, el⟩
  simp only at hc h1 h2 h3
  unfold locFromFields locFields
  rw [strFld_of L _ 0 city rfl, fld_of _ 1 (ofNum lat) rfl, fld_of _ 2 (ofNum lon) rfl,
    fld_of _ 3 (ofNum tz) rfl, fld_of _ 4 (ofNum el) rfl]
  simp only [bind, Except.bind, pure, Except.pure, optNum_ofNum L, check, h1, h2, h3, if_true, L.num_ofNum, hc,
    Bool.false_eq_true, if_false]

/-! ### the laws are satisfiable: free tokens -/

/-- Free tokens: a text, a number (opaque) or a natural number; each kind parses back only as itself. -/
inductive FreeTok (ν : Type) where
  | str (s : String)
  | num (x : ν)
  | nat (n : Nat)

instance (ν : Type) : Tok (FreeTok ν) ν where
  ofStr := .str
  ofNum := .num
  ofNat := .nat
  text := fun t => match t with
    | .str s => s
    | .num _ => "#"
    | .nat _ => "#"
  num? := fun t => match t with
    | .num x => some x
    | _ => none
  int? := fun t => match t with
    | .nat n => some (n : Int)
    | _ => none
  isYes := fun t => match t with
    | .str s => s == "Yes"
    | _ => false

theorem freeTok_laws (ν : Type) [NumVal ν] : TokLaws (FreeTok ν) ν where
  num_ofNum := fun _ => rfl
  int_ofNat := fun _ => rfl
  text_ofStr := fun _ => rfl
  text_ofNum := fun _ => by show ("#" : String) ≠ ""; decide
  yes := by show (("Yes" : String) == "Yes") = true; decide
  no := by show (("No" : String) == "Yes") = false; decide

end DD
