/-
  Helper lemmas for C09 (psychrometrics) over ℝ: the real-number reading of the generic model
  `Model/Psychro.lean` through `RealInst.lean`.
-/
import Ladybug.RealInst
import Ladybug.Model.Psychro
import Mathlib.Analysis.SpecialFunctions.Log.Deriv
import Mathlib.Analysis.SpecialFunctions.ExpDeriv
import Mathlib.Analysis.Calculus.Deriv.MeanValue
import Mathlib.Analysis.Calculus.Deriv.Shift
import Mathlib.Tactic.Ring
import Mathlib.Tactic.NormNum
import Mathlib.Tactic.Linarith
import Mathlib.Tactic.FieldSimp
import Mathlib.Tactic.Positivity

namespace Psychro

open Transc

/-! ### the two logarithmic branches as ordinary real expressions -/

theorem lnPwsIce_real (t : ℝ) :
    lnPwsIce t = -5674.5359 / t + 6.3925247 - 0.009677843 * t + 6.2215701e-7 * t ^ 2 +
      2.0747825e-9 * t ^ 3 - 9.484024e-13 * t ^ 4 + 4.1635019 * Real.log t := by
  unfold lnPwsIce
  rw [real_pow_two, real_pow_three, real_pow_four, real_log]

theorem lnPwsWater_real (t : ℝ) :
    lnPwsWater t = -5800.2206 / t + 1.3914993 - 0.048640239 * t + 4.1764768e-5 * t ^ 2 -
      1.4452093e-8 * t ^ 3 + 6.5459673 * Real.log t := by
  unfold lnPwsWater
  rw [real_pow_two, real_pow_three, real_log]

theorem dLnPwsIce_real (t : ℝ) :
    dLnPwsIce t = 5674.5359 / t ^ 2 - 0.009677843 + 2 * 6.2215701e-7 * t +
      3 * 2.0747825e-9 * t ^ 2 - 4 * 9.484024e-13 * t ^ 3 + 4.1635019 / t := by
  unfold dLnPwsIce
  rw [real_pow_two, real_pow_three]
  norm_num

theorem dLnPwsWater_real (t : ℝ) :
    dLnPwsWater t = 5800.2206 / t ^ 2 - 0.048640239 + 2 * 4.1764768e-5 * t -
      3 * 1.4452093e-8 * t ^ 2 + 6.5459673 / t := by
  unfold dLnPwsWater
  rw [real_pow_two]
  norm_num

/-- Derivative of the common shape `a/x + b - c x + d x² + e x³ - g x⁴ + k log x` of both branches. -/
theorem hasDerivAt_lnForm (a b c d e g k : ℝ) {t : ℝ} (ht : t ≠ 0) :
    HasDerivAt (fun x : ℝ => a / x + b - c * x + d * x ^ 2 + e * x ^ 3 - g * x ^ 4 + k * Real.log x)
      (-a / t ^ 2 - c + 2 * d * t + 3 * e * t ^ 2 - 4 * g * t ^ 3 + k / t) t := by
  have hinv := (hasDerivAt_inv ht).const_mul a
  have hid := (hasDerivAt_id t).const_mul c
  have h2 := (hasDerivAt_pow 2 t).const_mul d
  have h3 := (hasDerivAt_pow 3 t).const_mul e
  have h4 := (hasDerivAt_pow 4 t).const_mul g
  have hl := (Real.hasDerivAt_log ht).const_mul k
  have h := (((((hinv.add_const b).sub hid).add h2).add h3).sub h4).add hl
  refine (h.congr_of_eventuallyEq (Filter.Eventually.of_forall fun x => ?_)).congr_deriv ?_
  · simp only [id, Pi.add_apply, Pi.sub_apply, div_eq_mul_inv]
  · field_simp
    ring

/-- The ice-branch derivative expression is the derivative of the ice-branch logarithm. -/
theorem hasDerivAt_lnPwsIce {t : ℝ} (ht : t ≠ 0) :
    HasDerivAt (lnPwsIce : ℝ → ℝ) (dLnPwsIce t) t := by
  have h := hasDerivAt_lnForm (-5674.5359) 6.3925247 0.009677843 6.2215701e-7 2.0747825e-9 9.484024e-13
    4.1635019 ht
  refine (h.congr_of_eventuallyEq (Filter.Eventually.of_forall fun x => ?_)).congr_deriv ?_
  · exact lnPwsIce_real x
  · rw [dLnPwsIce_real]; ring

/-- The water-branch derivative expression is the derivative of the water-branch logarithm. -/
theorem hasDerivAt_lnPwsWater {t : ℝ} (ht : t ≠ 0) :
    HasDerivAt (lnPwsWater : ℝ → ℝ) (dLnPwsWater t) t := by
  have h := hasDerivAt_lnForm (-5800.2206) 1.3914993 0.048640239 4.1764768e-5 (-1.4452093e-8) 0
    6.5459673 ht
  refine (h.congr_of_eventuallyEq (Filter.Eventually.of_forall fun x => ?_)).congr_deriv ?_
  · rw [lnPwsWater_real]; ring
  · rw [dLnPwsWater_real]; ring

/-! ### saturation pressure -/

theorem satVapPres_ice {t : ℝ} (h : t ≤ 273.15) : satVapPres t = Real.exp (lnPwsIce t) := by
  unfold satVapPres
  rw [if_pos h]; rfl

theorem satVapPres_water {t : ℝ} (h : 273.15 < t) : satVapPres t = Real.exp (lnPwsWater t) := by
  unfold satVapPres
  rw [if_neg (not_le.mpr h)]; rfl

theorem satVapPres_pos (t : ℝ) : 0 < satVapPres t := by
  rcases le_or_gt t 273.15 with h | h
  · rw [satVapPres_ice h]; exact Real.exp_pos _
  · rw [satVapPres_water h]; exact Real.exp_pos _

theorem log_satVapPres_ice {t : ℝ} (h : t ≤ 273.15) : Real.log (satVapPres t) = lnPwsIce t := by
  rw [satVapPres_ice h, Real.log_exp]

theorem log_satVapPres_water {t : ℝ} (h : 273.15 < t) : Real.log (satVapPres t) = lnPwsWater t := by
  rw [satVapPres_water h, Real.log_exp]

end Psychro

namespace Psychro

open Transc

/-! ### sign of the derivative expressions -/

theorem dLnPwsIce_pos {t : ℝ} (h0 : 0 < t) (h1 : t ≤ 273.15) : 0 < dLnPwsIce t := by
  rw [dLnPwsIce_real]
  have a1 : 0 < 5674.5359 / t ^ 2 := by positivity
  have a2 : 0.009677843 < 4.1635019 / t := by
    rw [lt_div_iff₀ h0]; nlinarith
  have a3 : 0 ≤ 2 * 6.2215701e-7 * t := by positivity
  have a4 : 0 ≤ 3 * 2.0747825e-9 * t ^ 2 - 4 * 9.484024e-13 * t ^ 3 := by
    have : 3 * 2.0747825e-9 * t ^ 2 - 4 * 9.484024e-13 * t ^ 3
        = t ^ 2 * (3 * 2.0747825e-9 - 4 * 9.484024e-13 * t) := by ring
    rw [this]
    apply mul_nonneg (by positivity)
    nlinarith
  linarith

/-- `t² · dLnPwsWater t` as a polynomial, positive on [273.15, 473.15] K. -/
theorem waterPoly_pos {t : ℝ} (h1 : 273.15 ≤ t) (h2 : t ≤ 473.15) :
    0 < 5800.2206 + 6.5459673 * t - 0.048640239 * t ^ 2 + 2 * 4.1764768e-5 * t ^ 3
      - 3 * 1.4452093e-8 * t ^ 4 := by
  have ht : 0 < t := by linarith
  have s1 : 6.3e-5 * t ^ 3 ≤ 2 * 4.1764768e-5 * t ^ 3 - 3 * 1.4452093e-8 * t ^ 4 := by
    have : 2 * 4.1764768e-5 * t ^ 3 - 3 * 1.4452093e-8 * t ^ 4 - 6.3e-5 * t ^ 3
        = t ^ 3 * (2 * 4.1764768e-5 - 6.3e-5 - 3 * 1.4452093e-8 * t) := by ring
    have h3 : 0 ≤ t ^ 3 * (2 * 4.1764768e-5 - 6.3e-5 - 3 * 1.4452093e-8 * t) := by
      apply mul_nonneg (by positivity)
      nlinarith
    linarith
  have s2 : 273.15 ^ 2 * t ≤ t ^ 3 := by
    have : t ^ 3 - 273.15 ^ 2 * t = t * (t - 273.15) * (t + 273.15) := by ring
    have h3 : 0 ≤ t * (t - 273.15) * (t + 273.15) := by
      apply mul_nonneg (mul_nonneg ht.le (by linarith)) (by linarith)
    linarith
  have s3 : t ^ 2 ≤ 473.15 * t := by nlinarith
  nlinarith

theorem dLnPwsWater_pos {t : ℝ} (h1 : 273.15 ≤ t) (h2 : t ≤ 473.15) : 0 < dLnPwsWater t := by
  rw [dLnPwsWater_real]
  have ht : 0 < t := by linarith
  have hp := waterPoly_pos h1 h2
  have : 5800.2206 / t ^ 2 - 0.048640239 + 2 * 4.1764768e-5 * t - 3 * 1.4452093e-8 * t ^ 2 + 6.5459673 / t
      = (5800.2206 + 6.5459673 * t - 0.048640239 * t ^ 2 + 2 * 4.1764768e-5 * t ^ 3
          - 3 * 1.4452093e-8 * t ^ 4) / t ^ 2 := by
    field_simp
    ring
  rw [this]
  positivity

/-! ### monotonicity of the two logarithmic branches -/

theorem lnPwsIce_strictMonoOn : StrictMonoOn (lnPwsIce : ℝ → ℝ) (Set.Ioc 0 273.15) := by
  apply strictMonoOn_of_deriv_pos (convex_Ioc 0 273.15)
  · intro x hx
    exact (hasDerivAt_lnPwsIce hx.1.ne').continuousAt.continuousWithinAt
  · intro x hx
    rw [interior_Ioc] at hx
    rw [(hasDerivAt_lnPwsIce hx.1.ne').deriv]
    exact dLnPwsIce_pos hx.1 hx.2.le

theorem lnPwsWater_strictMonoOn : StrictMonoOn (lnPwsWater : ℝ → ℝ) (Set.Icc 273.15 473.15) := by
  apply strictMonoOn_of_deriv_pos (convex_Icc 273.15 473.15)
  · intro x hx
    have : x ≠ 0 := by have := hx.1; intro h; rw [h] at this; norm_num at this
    exact (hasDerivAt_lnPwsWater this).continuousAt.continuousWithinAt
  · intro x hx
    rw [interior_Icc] at hx
    have : x ≠ 0 := by have := hx.1; intro h; rw [h] at this; norm_num at this
    rw [(hasDerivAt_lnPwsWater this).deriv]
    exact dLnPwsWater_pos hx.1.le hx.2.le

end Psychro
