/-
  Helper lemmas for the typed graphic container of C15 (Model/C15Graphic.lean, round 4).
-/
import Ladybug.Model.C15Graphic
import Ladybug.Proofs.C15Lemmas

namespace Leg

open Col

theorem sortKeys_sorted (l : List Int) : (sortKeys l).Pairwise (· ≤ ·) := by
  have h := List.pairwise_mergeSort (le := fun (a b : Int) => decide (a ≤ b))
    (by intro a b c hab hbc; simp at *; omega)
    (by intro a b; simp; omega) l
  unfold sortKeys
  exact h.imp (by intro a b hab; simpa using hab)

theorem sortKeys_perm_self (l : List Int) : (sortKeys l).Perm l := List.mergeSort_perm l _

/-- `sorted(keys)` does not depend on the order the keys were written in. -/
theorem sortKeys_perm {a b : List Int} (h : a.Perm b) : sortKeys a = sortKeys b := by
  apply List.Perm.eq_of_pairwise (le := fun (x y : Int) => x ≤ y)
  · intro x y _ _ hxy hyx; omega
  · exact sortKeys_sorted a
  · exact sortKeys_sorted b
  · exact (sortKeys_perm_self a).trans (h.trans (sortKeys_perm_self b).symm)

/-- The first sorted key is a key and is the least one. -/
theorem sortKeys_head {l : List Int} {k : Int} (h : (sortKeys l).head? = some k) :
    k ∈ l ∧ ∀ j ∈ l, k ≤ j := by
  have hs := sortKeys_sorted l
  have hp := sortKeys_perm_self l
  cases hl : sortKeys l with
  | nil => rw [hl] at h; simp at h
  | cons x xs =>
    rw [hl] at h hs hp
    simp at h
    subst h
    refine ⟨hp.subset (by simp), ?_⟩
    intro j hj
    have : j ∈ x :: xs := hp.symm.subset hj
    rcases List.mem_cons.mp this with rfl | hmem
    · exact le_refl _
    · exact (List.pairwise_cons.mp hs).1 j hmem

/-- The last sorted key is a key and is the greatest one. -/
theorem sortKeys_last {l : List Int} {k : Int} (h : (sortKeys l).getLast? = some k) :
    k ∈ l ∧ ∀ j ∈ l, j ≤ k := by
  have hs := sortKeys_sorted l
  have hp := sortKeys_perm_self l
  obtain ⟨ys, hy⟩ := List.getLast?_eq_some_iff.mp h
  rw [hy] at hs hp
  refine ⟨hp.subset (by simp), ?_⟩
  intro j hj
  have : j ∈ ys ++ [k] := hp.symm.subset hj
  rcases List.mem_append.mp this with hmem | hmem
  · exact (List.pairwise_append.mp hs).2.2 j hmem k (by simp)
  · simp at hmem; omega

/-- Looking a number up in an ordinal dictionary does not depend on the order of its entries
    (distinct keys, as in every Python dictionary). -/
theorem ordLookup_perm {d1 d2 : List (Int × String)} (h : d1.Perm d2)
    (hnd : (d1.map (·.1)).Nodup) (x : Rat) : ordLookup d1 x = ordLookup d2 x := by
  unfold ordLookup
  suffices hf : d1.find? (fun kv => decide ((kv.1 : Rat) = x)) = d2.find? (fun kv => decide ((kv.1 : Rat) = x)) by
    rw [hf]
  induction h with
  | nil => rfl
  | cons a _ ih =>
    simp only [List.map_cons, List.nodup_cons] at hnd
    simp only [List.find?_cons]
    split
    · rfl
    · exact ih hnd.2
  | swap a b l =>
    simp only [List.map_cons, List.nodup_cons, List.mem_cons, not_or] at hnd
    simp only [List.find?_cons]
    by_cases ha : ((a.1 : Rat) = x) <;> by_cases hb : ((b.1 : Rat) = x) <;> simp [ha, hb]
    exfalso
    have : (a.1 : Rat) = (b.1 : Rat) := ha.trans hb.symm
    have : a.1 = b.1 := by exact_mod_cast this
    exact hnd.1.1 this.symm
  | trans h1 _ ih1 ih2 =>
    exact (ih1 hnd).trans (ih2 ((h1.map (fun (kv : Int × String) => kv.1)).nodup_iff.mp hnd))

theorem sortKeys_one_zero : sortKeys [1, 0] = [0, 1] := by
  simp [sortKeys, List.mergeSort, List.MergeSort.Internal.splitInTwo]

end Leg
