/-
  Lemmas for the reverse_y branch of the hourly plot (C17).  No Mathlib.
-/
import Ladybug.Proofs.C17Lemmas

open Cal

namespace Plot

/-! ### List bookkeeping -/

theorem pattern_append (A B : List Nat) : ∀ (a b : List Nat), a.Sublist A → (∀ d ∈ b, d ∉ A) →
    pattern (A ++ B) (a ++ b) = pattern A a ++ pattern B b := by
  induction A with
  | nil =>
    intro a b ha _
    have : a = [] := by simpa using ha
    subst this
    simp [pattern]
  | cons x A' ih =>
    intro a b ha hb
    cases a with
    | nil =>
      cases b with
      | nil =>
        have := ih [] [] (List.nil_sublist _) (by simp)
        simp only [List.append_nil] at this
        show false :: pattern (A' ++ B) [] = (false :: pattern A' []) ++ pattern B []
        rw [this]; rfl
      | cons d ds =>
        have hxd : x ≠ d := by
          intro h; exact hb d (by simp) (by simp [h])
        have := ih [] (d :: ds) (List.nil_sublist _) (fun e he h => hb e he (List.mem_cons_of_mem _ h))
        simp only [List.nil_append] at this ⊢
        simp only [List.cons_append, pattern, hxd, if_false, this]
    | cons y a' =>
      by_cases hxy : x = y
      · subst hxy
        have := ih a' b (List.cons_sublist_cons.mp ha) (fun e he h => hb e he (List.mem_cons_of_mem _ h))
        simp only [List.cons_append, pattern, if_true, this]
      · have hs : (y :: a').Sublist A' := by
          cases ha with
          | cons _ h => exact h
          | cons_cons _ h => exact absurd rfl hxy
        have := ih (y :: a') b hs (fun e he h => hb e he (List.mem_cons_of_mem _ h))
        simp only [List.cons_append] at this ⊢
        simp only [pattern, hxy, if_false, this]
        rfl

theorem keptFrom_append (A B : List Bool) : ∀ off,
    keptFrom off (A ++ B) = keptFrom off A ++ keptFrom (off + A.length) B := by
  induction A with
  | nil => intro off; simp [keptFrom]
  | cons b bs ih =>
    intro off
    have e : off + (b :: bs).length = off + 1 + bs.length := by simp; omega
    cases b <;> simp [keptFrom, ih] <;> (congr 1; omega)

theorem keptFrom_shift (l : List Bool) : ∀ off k, keptFrom (off + k) l = (keptFrom off l).map (· + k) := by
  induction l with
  | nil => intro off k; simp [keptFrom]
  | cons b bs ih =>
    intro off k
    have e : off + k + 1 = off + 1 + k := by omega
    cases b <;> simp [keptFrom, e, ih]

theorem keptFrom_reverse (l : List Bool) : ∀ off,
    keptFrom off l.reverse = ((keptFrom 0 l).map fun i => off + (l.length - 1 - i)).reverse := by
  induction l with
  | nil => intro off; simp [keptFrom]
  | cons b bs ih =>
    intro off
    rw [List.reverse_cons, keptFrom_append, ih, List.length_reverse]
    have hs : keptFrom 1 bs = (keptFrom 0 bs).map (· + 1) := by
      have := keptFrom_shift bs 0 1; simpa using this
    cases b with
    | true =>
      simp only [keptFrom, if_true, hs, List.map_cons, List.map_map, List.reverse_cons, List.length_cons,
        Bool.false_eq_true, if_false]
      congr 1
      · congr 1
        apply List.map_congr_left
        intro i _
        simp only [Function.comp]
        omega
    | false =>
      simp only [keptFrom, hs, List.map_map, List.length_cons, Bool.false_eq_true, if_false, List.append_nil]
      congr 1
      apply List.map_congr_left
      intro i _
      simp only [Function.comp]
      omega

/-! ### `chunkRev` on a first full chunk -/

theorem chunkRev_nil (n : Nat) (hn : 0 < n) : chunkRev n ([] : List Bool) = [] := by
  unfold chunkRev
  have : (([] : List Bool).length + n - 1) / n = 0 := Nat.div_eq_of_lt (by simp; omega)
  rw [this]; simp

theorem chunkRev_append (n : Nat) (hn : 0 < n) (l r : List Bool) (hl : l.length = n) :
    chunkRev n (l ++ r) = l.reverse ++ chunkRev n r := by
  unfold chunkRev
  have hc : ((l ++ r).length + n - 1) / n = (r.length + n - 1) / n + 1 := by
    rw [List.length_append, hl]
    have : n + r.length + n - 1 = (r.length + n - 1) + n := by omega
    rw [this, Nat.add_div_right _ hn]
  rw [hc, List.range_succ_eq_map, List.flatMap_cons, List.flatMap_map]
  congr 1
  · simp [← hl]
  · congr 1
    funext i
    have : (i + 1) * n = l.length + i * n := by rw [Nat.succ_mul, hl]; omega
    simp only [this, List.drop_append]
    rw [List.drop_of_length_le (by omega), Nat.add_sub_cancel_left]
    simp

/-! ### Per-day reversal -/

/-- `values` under `reverse_y` without the empty-input error. -/
def revAll {β : Type} (l : List (Nat × β)) : List β :=
  match l with
  | [] => []
  | (d, _) :: _ => revDaysGo d [] l

theorem revDays_eq {β : Type} (l : List (Nat × β)) (h : l ≠ []) : revDays l = .ok (revAll l) := by
  cases l with
  | nil => exact absurd rfl h
  | cons p ps => obtain ⟨d, v⟩ := p; rfl

theorem revDaysGo_split {β : Type} (d : Nat) (B : List (Nat × β)) (hB : ∀ p ∈ B, p.1 ≠ d) :
    ∀ (A : List (Nat × β)) (acc : List β), (∀ p ∈ A, p.1 = d) →
      revDaysGo d acc (A ++ B) = (A.map (·.2)).reverse ++ acc ++ revAll B := by
  intro A
  induction A with
  | nil =>
    intro acc _
    cases B with
    | nil => simp [revDaysGo, revAll]
    | cons q qs =>
      obtain ⟨d', v⟩ := q
      have hne : d' ≠ d := hB (d', v) (by simp)
      simp [revDaysGo, revAll, hne]
  | cons p ps ih =>
    intro acc hA
    obtain ⟨d', v⟩ := p
    have hd : d' = d := hA (d', v) (by simp)
    subst hd
    simp only [List.cons_append, revDaysGo, if_true]
    rw [ih (v :: acc) (fun p hp => hA p (List.mem_cons_of_mem _ hp))]
    simp

/-- **Shape of the reversal**: a first day's run comes out reversed, followed by the reversal of the
    later days. -/
theorem revAll_split {β : Type} (d : Nat) (A B : List (Nat × β)) (hA : ∀ p ∈ A, p.1 = d)
    (hB : ∀ p ∈ B, p.1 ≠ d) : revAll (A ++ B) = (A.map (·.2)).reverse ++ revAll B := by
  cases A with
  | nil => simp
  | cons p ps =>
    obtain ⟨d', v⟩ := p
    have hd : d' = d := hA (d', v) (by simp)
    subst hd
    show revDaysGo d' [] ((d', v) :: ps ++ B) = _
    have := revDaysGo_split d' B hB ((d', v) :: ps) [] hA
    simpa using this

theorem revDaysGo_map' {β γ : Type} (f : β → γ) (l : List (Nat × β)) : ∀ (cur : Nat) (acc : List β),
    revDaysGo cur (acc.map f) (l.map fun p => (p.1, f p.2)) = (revDaysGo cur acc l).map f := by
  induction l with
  | nil => intro cur acc; simp [revDaysGo]
  | cons p ps ih =>
    intro cur acc
    obtain ⟨d, v⟩ := p
    simp only [List.map_cons, revDaysGo]
    split
    · rw [← ih]; simp
    · rw [List.map_append, ← ih]; simp

theorem revAll_map {β γ : Type} (f : β → γ) (l : List (Nat × β)) :
    revAll (l.map fun p => (p.1, f p.2)) = (revAll l).map f := by
  cases l with
  | nil => rfl
  | cons p ps =>
    obtain ⟨d, v⟩ := p
    have := revDaysGo_map' f ((d, v) :: ps) d []
    simpa [revAll] using this

theorem revDaysGo_length {β : Type} (l : List (Nat × β)) : ∀ (cur : Nat) (acc : List β),
    (revDaysGo cur acc l).length = acc.length + l.length := by
  induction l with
  | nil => intro cur acc; simp [revDaysGo]
  | cons p ps ih =>
    intro cur acc
    obtain ⟨d, v⟩ := p
    simp only [revDaysGo]
    split
    · rw [ih]; simp; omega
    · rw [List.length_append, ih]; simp; omega

theorem revAll_length {β : Type} (l : List (Nat × β)) : (revAll l).length = l.length := by
  cases l with
  | nil => rfl
  | cons p ps => obtain ⟨d, v⟩ := p; simp [revAll, revDaysGo_length]

end Plot

namespace Plot

theorem revDaysGo_perm {β : Type} (l : List (Nat × β)) : ∀ (cur : Nat) (acc : List β),
    (revDaysGo cur acc l).Perm (acc ++ l.map (·.2)) := by
  induction l with
  | nil => intro cur acc; simp [revDaysGo]
  | cons p ps ih =>
    intro cur acc
    obtain ⟨d, v⟩ := p
    simp only [revDaysGo, List.map_cons]
    split
    · refine (ih cur (v :: acc)).trans ?_
      simp only [List.cons_append]
      exact List.perm_middle.symm
    · exact List.Perm.append_left acc (by simpa using ih d [v])

/-- The per-day reversal only rearranges: every value keeps its single occurrence. -/
theorem revAll_perm {β : Type} (l : List (Nat × β)) : (revAll l).Perm (l.map (·.2)) := by
  cases l with
  | nil => exact List.Perm.refl _
  | cons p ps =>
    obtain ⟨d, v⟩ := p
    have := revDaysGo_perm ((d, v) :: ps) d []
    simpa [revAll] using this

/-! ### The grid, column by column -/

theorem gridList_succ (st nx ny S : Nat) :
    gridList st (nx + 1) ny S = ((List.range ny).map fun r => st + r * S) ++ gridList (st + 1440) nx ny S := by
  unfold gridList
  rw [List.range_succ_eq_map, List.flatMap_cons, List.flatMap_map]
  congr 1
  · have hf : ∀ c, List.map (fun r => st + (c + 1) * 1440 + r * S) (List.range ny) =
        List.map (fun r => st + 1440 + c * 1440 + r * S) (List.range ny) := by
      intro c
      apply List.map_congr_left
      intro r _
      rw [Nat.succ_mul]; omega
    simp only [Function.comp_def, hf]

/-- Face index of minute `m` in the mirrored grid that starts at `st`. -/
def mir (ny S st m : Nat) : Nat := (m / 1440 - st / 1440) * ny + (ny - 1 - (m % 1440 - st % 1440) / S)

theorem sub_one_mul_add (q ny : Nat) (hq : 1 ≤ q) : (q - 1) * ny + ny = q * ny := by
  cases q with
  | zero => omega
  | succ q => simp [Nat.succ_mul]

/-- **Core of the reverse_y branch** (by induction on the day columns): after the per-column reversal
    of the pattern, the kept face positions are, in order, the mirrored positions of the data taken day
    by day with each day's run reversed. -/
theorem rev_core (ny S : Nat) (hny : 0 < ny) (hS : 0 < S) : ∀ (nx st off : Nat) (D : List Nat),
    st % 1440 + (ny - 1) * S < 1440 → D.Sublist (gridList st nx ny S) →
    (chunkRev ny (pattern (gridList st nx ny S) D)).length = nx * ny ∧
    keptFrom off (chunkRev ny (pattern (gridList st nx ny S) D)) =
      (revAll (D.map fun m => (m / 1440, m))).map fun m => off + mir ny S st m := by
  intro nx
  induction nx with
  | zero =>
    intro st off D _ hD
    have : D = [] := by simpa [gridList] using hD
    subst this
    simp [gridList, pattern, chunkRev_nil ny hny, keptFrom, revAll]
  | succ nx ih =>
    intro st off D hfit hD
    rw [gridList_succ] at hD ⊢
    obtain ⟨a, b, rfl, ha, hb⟩ := List.sublist_append_iff.mp hD
    -- facts about the first column and the rest
    have hchunk : ∀ x ∈ (List.range ny).map (fun r => st + r * S),
        ∃ r, r < ny ∧ x = st + r * S ∧ st % 1440 + r * S < 1440 := by
      intro x hx
      obtain ⟨r, hr, rfl⟩ := List.mem_map.mp hx
      have hr' : r < ny := by simpa using hr
      have : r * S ≤ (ny - 1) * S := Nat.mul_le_mul_right S (by omega)
      exact ⟨r, hr', rfl, by omega⟩
    have hrest : ∀ x ∈ gridList (st + 1440) nx ny S, st / 1440 + 1 ≤ x / 1440 := by
      intro x hx
      obtain ⟨c, _, r, _, rfl⟩ := (mem_gridList _ _ _ _ _).mp hx
      omega
    have hdisj : ∀ d ∈ b, d ∉ (List.range ny).map (fun r => st + r * S) := by
      intro d hd hc
      obtain ⟨r, _, rfl, hlt⟩ := hchunk d hc
      have := hrest _ (hb.subset hd)
      omega
    rw [pattern_append _ _ a b ha hdisj]
    have hXl : (pattern ((List.range ny).map fun r => st + r * S) a).length = ny := by
      rw [pattern_length]; simp
    rw [chunkRev_append ny hny _ _ hXl]
    have hfit' : (st + 1440) % 1440 + (ny - 1) * S < 1440 := by
      have : (st + 1440) % 1440 = st % 1440 := by omega
      rw [this]; exact hfit
    obtain ⟨ihl, ihk⟩ := ih (st + 1440) (off + ny) b hfit' hb
    refine ⟨by rw [List.length_append, List.length_reverse, hXl, ihl, Nat.succ_mul]; omega, ?_⟩
    rw [keptFrom_append, List.length_reverse, hXl, ihk, keptFrom_reverse, hXl]
    -- positions of the first column's data
    have hk := keptFrom_pick ((List.range ny).map fun r => st + r * S) _ 0 0
      (pattern_length ((List.range ny).map fun r => st + r * S) a)
    rw [pickTrue_pattern _ _ ha] at hk
    have h1 : (keptFrom 0 (pattern ((List.range ny).map fun r => st + r * S) a)).map
        ((fun m => (m - st) / S) ∘ fun j => ((List.range ny).map fun r => st + r * S).getD (j - 0) 0) =
        keptFrom 0 (pattern ((List.range ny).map fun r => st + r * S) a) := by
      have hid : ∀ j ∈ keptFrom 0 (pattern ((List.range ny).map fun r => st + r * S) a),
          ((fun m => (m - st) / S) ∘ fun j => ((List.range ny).map fun r => st + r * S).getD (j - 0) 0) j = id j := by
        intro j hj
        have hjl := keptFrom_lt _ 0 j hj
        rw [hXl] at hjl
        have hj' : j < ny := by omega
        simp only [Function.comp, Nat.sub_zero, id]
        rw [List.getD_eq_getElem?_getD, List.getElem?_map, List.getElem?_range hj']
        simp only [Option.map_some, Option.getD_some]
        rw [Nat.add_sub_cancel_left, Nat.mul_div_cancel _ hS]
      rw [List.map_congr_left hid, List.map_id]
    have h2 := congrArg (List.map fun m => (m - st) / S) hk
    rw [List.map_map] at h2
    have hkept : keptFrom 0 (pattern ((List.range ny).map fun r => st + r * S) a) =
        a.map fun m => (m - st) / S := h1.symm.trans h2
    rw [hkept]
    -- the reversal of the tagged data
    have htagA : ∀ p ∈ a.map (fun m => (m / 1440, m)), p.1 = st / 1440 := by
      intro p hp
      obtain ⟨m, hm, rfl⟩ := List.mem_map.mp hp
      obtain ⟨r, _, rfl, hlt⟩ := hchunk m (ha.subset hm)
      show (st + r * S) / 1440 = st / 1440
      omega
    have htagB : ∀ p ∈ b.map (fun m => (m / 1440, m)), p.1 ≠ st / 1440 := by
      intro p hp
      obtain ⟨m, hm, rfl⟩ := List.mem_map.mp hp
      have := hrest m (hb.subset hm)
      show m / 1440 ≠ st / 1440
      omega
    rw [List.map_append, revAll_split (st / 1440) _ _ htagA htagB, List.map_append]
    congr 1
    · have e : (a.map fun m => (m / 1440, m)).map (·.2) = a := by
        rw [List.map_map]
        have : ((fun p : Nat × Nat => p.2) ∘ fun m => (m / 1440, m)) = id := by funext m; rfl
        rw [this, List.map_id]
      rw [e, List.map_map, ← List.map_reverse]
      apply List.map_congr_left
      intro m hm
      have hm' : m ∈ a := List.mem_reverse.mp hm
      obtain ⟨r, _, rfl, hlt⟩ := hchunk m (ha.subset hm')
      simp only [Function.comp, mir]
      have e1 : (st + r * S) / 1440 - st / 1440 = 0 := by omega
      have e2 : (st + r * S) % 1440 - st % 1440 = st + r * S - st := by omega
      rw [e1, e2]
      simp
    · apply List.map_congr_left
      intro m hm
      have hmb : m ∈ b := by
        have := (revAll_perm (b.map fun m => (m / 1440, m))).mem_iff.mp hm
        simpa using this
      have hq := hrest m (hb.subset hmb)
      simp only [mir]
      have e1 : (st + 1440) / 1440 = st / 1440 + 1 := by omega
      have e2 : (st + 1440) % 1440 = st % 1440 := by omega
      rw [e1, e2]
      have e3 : m / 1440 - (st / 1440 + 1) = (m / 1440 - st / 1440) - 1 := by omega
      rw [e3]
      have := sub_one_mul_add (m / 1440 - st / 1440) ny (by omega)
      omega

end Plot

namespace Plot

theorem fit_nat (ts S sh eh ny : Nat)
    (hts : (ts = 1 ∧ S = 60) ∨ (ts = 2 ∧ S = 30) ∨ (ts = 3 ∧ S = 20) ∨ (ts = 4 ∧ S = 15) ∨
      (ts = 5 ∧ S = 12) ∨ (ts = 6 ∧ S = 10) ∨ (ts = 10 ∧ S = 6) ∨ (ts = 12 ∧ S = 5) ∨
      (ts = 15 ∧ S = 4) ∨ (ts = 20 ∧ S = 3) ∨ (ts = 30 ∧ S = 2) ∨ (ts = 60 ∧ S = 1))
    (hse : sh ≤ eh) (he : eh ≤ 23)
    (hny : ny = (if sh = 0 ∧ eh = 23 then 24 * ts else (eh - sh) * ts + 1)) :
    sh * 60 + (ny - 1) * S < 1440 ∧ 0 < ny ∧ 0 < S ∧
    (if ts = 1 ∨ (eh - sh) ≠ 23 then ts * (eh - sh) + 1 else ts * (eh - sh + 1)) = ny := by
  subst hny
  by_cases hw : sh = 0 ∧ eh = 23
  · rw [if_pos hw]
    obtain ⟨rfl, rfl⟩ := hw
    rcases hts with ⟨rfl, rfl⟩ | ⟨rfl, rfl⟩ | ⟨rfl, rfl⟩ | ⟨rfl, rfl⟩ | ⟨rfl, rfl⟩ | ⟨rfl, rfl⟩ |
      ⟨rfl, rfl⟩ | ⟨rfl, rfl⟩ | ⟨rfl, rfl⟩ | ⟨rfl, rfl⟩ | ⟨rfl, rfl⟩ | ⟨rfl, rfl⟩ <;> simp
  · rw [if_neg hw]
    have h23 : eh - sh ≠ 23 := by omega
    rcases hts with ⟨rfl, rfl⟩ | ⟨rfl, rfl⟩ | ⟨rfl, rfl⟩ | ⟨rfl, rfl⟩ | ⟨rfl, rfl⟩ | ⟨rfl, rfl⟩ |
      ⟨rfl, rfl⟩ | ⟨rfl, rfl⟩ | ⟨rfl, rfl⟩ | ⟨rfl, rfl⟩ | ⟨rfl, rfl⟩ | ⟨rfl, rfl⟩ <;>
      refine ⟨by omega, by omega, by omega, ?_⟩ <;> simp [h23] <;> omega

theorem tDiff_eq_numY (mp : AP) (hwf : mp.WF) (hno : mp.st_hour ≤ mp.end_hour) :
    tDiff mp = numY mp ∧ mp.stMoy % 1440 + (numY mp - 1) * mp.step < 1440 ∧ 0 < numY mp ∧ 0 < mp.step := by
  obtain ⟨_, he, _, _, _, _, _, _, _⟩ := AP.moment_facts mp hwf
  obtain ⟨f1, f2, f3, f4⟩ := fit_nat mp.timestep mp.step mp.st_hour mp.end_hour (numY mp)
    (ts_pairs mp hwf.2.2) hno he (numY_daytime mp hno)
  have e1 : mp.stMoy = ((mp.stTime.doy - 1) * 24 + mp.st_hour) * 60 := by
    simp [AP.stMoy, DT.moy, DT.intHoy, AP.stTime]
  refine ⟨?_, by rw [e1]; omega, f2, f3⟩
  unfold tDiff
  simp only [hno, if_true]
  exact f4

theorem cellOf_mir (ny c r : Nat) (hr : r < ny) :
    cellOf ny (c * ny + (ny - 1 - r)) = (c, ny - 1 - r) := by
  have hny : 0 < ny := by omega
  have hlt : ny - 1 - r < ny := by omega
  unfold cellOf
  rw [Nat.mul_comm c ny, Nat.mul_add_div hny, Nat.mul_add_mod, Nat.div_eq_of_lt hlt, Nat.mod_eq_of_lt hlt]
  simp

/-- **Each datum at the mirrored cell of its own time** (`reverse_y = True`). -/
theorem hourly_cells_reversed {α : Type} (ap : AP) (hwf : ap.WF) (hnr : ap.isReversed = false)
    (data : List (Nat × α)) (hne : data ≠ []) (hsub : (data.map (·.1)).Sublist (mAper ap).moys) :
    hourlyFaces ap false true data = .ok ((revAll (data.map fun p => (dayOf p.1, p))).map fun p =>
      (colOf ap p.1, numY ap - 1 - rowOf ap p.1, p.2)) := by
  obtain ⟨mwf, mno, mnr, hx, hy, hst, hstep⟩ := mAper_facts ap hwf hnr
  obtain ⟨htd, hfit, hny, hS⟩ := tDiff_eq_numY (mAper ap) mwf mno
  have hgrid := moys_eq_grid (mAper ap) mwf mno mnr
  rw [hgrid] at hsub
  obtain ⟨hlen, hkept⟩ := rev_core (numY (mAper ap)) (mAper ap).step hny hS (numX (mAper ap))
    (mAper ap).stMoy 0 (data.map (·.1)) hfit hsub
  -- the three rearranged lists are images of one list
  have hD : (data.map (·.1)).map (fun m => (m / 1440, m)) =
      (data.map fun p => (dayOf p.1, p)).map (fun q => (q.1, q.2.1)) := by
    simp [List.map_map, Function.comp_def, dayOf]
  have hV : data.map (fun p => (dayOf p.1, p.2)) =
      (data.map fun p => (dayOf p.1, p)).map (fun q => (q.1, q.2.2)) := by
    simp [List.map_map, Function.comp_def]
  rw [hD, revAll_map] at hkept
  have hvals : plotValues true data = .ok ((revAll (data.map fun p => (dayOf p.1, p))).map (·.2)) := by
    simp only [plotValues, if_true]
    rw [revDays_eq _ (by simpa using hne), hV, revAll_map]
  have hRDlen : (revAll (data.map fun p => (dayOf p.1, p))).length = data.length := by
    rw [revAll_length]; simp
  rw [← hgrid] at hlen hkept
  have hlen' : (chunkRev (numY (mAper ap)) (pattern (mAper ap).moys (data.map (·.1)))).length =
      numX ap * numY ap := by rw [hlen, hx, hy]
  simp only [hourlyFaces, facePattern, Bool.false_eq_true, if_false, if_true, hvals, htd, hlen', hkept,
    List.length_map, hRDlen]
  simp only [List.map_map]
  rw [List.zip_map', List.map_map]
  congr 1
  apply List.map_congr_left
  intro p hp
  -- p is a datum, hence a grid member
  have hpd : p ∈ data := by
    have := (revAll_perm (data.map fun p => (dayOf p.1, p))).mem_iff.mp hp
    simpa using this
  have hm : p.1 ∈ gridList (mAper ap).stMoy (numX (mAper ap)) (numY (mAper ap)) (mAper ap).step :=
    hsub.subset (List.mem_map.mpr ⟨p, hpd, rfl⟩)
  obtain ⟨c, _, r, hr, hmr⟩ := (mem_gridList _ _ _ _ _).mp hm
  obtain ⟨_, he, _, _, _, _, _, _, _⟩ := AP.moment_facts (mAper ap) mwf
  have e1 : (mAper ap).stMoy = (((mAper ap).stTime.doy - 1) * 24 + (mAper ap).st_hour) * 60 := by
    simp [AP.stMoy, DT.moy, DT.intHoy, AP.stTime]
  have hcr := cell_nat (mAper ap).timestep (mAper ap).step (mAper ap).st_hour (mAper ap).end_hour
    (mAper ap).stTime.doy c r (numY (mAper ap)) (ts_pairs (mAper ap) mwf.2.2) mno he
    (numY_daytime (mAper ap) mno) hr
  rw [← e1, hmr] at hcr
  have hmod : (mAper ap).stMoy % 1440 = (mAper ap).st_hour * 60 := by rw [e1]; omega
  simp only [Function.comp, Nat.zero_add, mir]
  rw [← hy, hmod, hcr.1, hcr.2, cellOf_mir _ c r hr]
  simp only [colOf, rowOf]
  rw [← hst, ← hstep, hcr.1, hcr.2]

end Plot

namespace Plot

/-! ### Continuous collections: nothing is removed -/

theorem pattern_self (M : List Nat) : pattern M M = List.replicate M.length true := by
  induction M with
  | nil => rfl
  | cons m ms ih => simp [pattern, ih, List.replicate_succ]

theorem chunkRev_replicate (ny : Nat) (hny : 0 < ny) : ∀ nx,
    chunkRev ny (List.replicate (nx * ny) true) = List.replicate (nx * ny) true := by
  intro nx
  induction nx with
  | zero => simp [chunkRev_nil ny hny]
  | succ nx ih =>
    have e : (nx + 1) * ny = ny + nx * ny := by rw [Nat.succ_mul]; omega
    rw [e, ← List.replicate_append_replicate, chunkRev_append ny hny _ _ (by simp), ih]
    simp

/-- For a collection that holds every step of the period (a continuous collection) the
    all-`True` pattern of the continuous branch is what the discontinuous branch computes. -/
theorem hourly_continuous_eq {α : Type} (ap : AP) (rev : Bool) (data : List (Nat × α))
    (hM : data.map (·.1) = (mAper ap).moys) (hlen : (mAper ap).moys.length = numX ap * numY ap)
    (htd : tDiff (mAper ap) = numY ap) (hny : 0 < numY ap) :
    hourlyFaces ap true rev data = hourlyFaces ap false rev data := by
  have hp : facePattern ap rev (data.map (·.1)) = List.replicate (numX ap * numY ap) true := by
    unfold facePattern
    simp only [hM, pattern_self, hlen, htd]
    cases rev with
    | false => simp
    | true => simp [chunkRev_replicate (numY ap) hny (numX ap)]
  unfold hourlyFaces
  simp only [hp, List.length_replicate, if_true, Bool.false_eq_true, if_false]

end Plot
