/- Helper lemmas for the listings of C04 (doys_int, months_int, months_per_hour) and the constructor. -/
import Ladybug.Proofs.C04Lemmas

open Cal

namespace AP

/-! ### doys_int -/

theorem numDaysTable_eq (leap : Bool) : numDaysTable leap = monthLens leap := by
  cases leap <;> decide

theorem doyOf_eq (leap : Bool) (mo d : Nat) : doyOf leap mo d = daysBefore leap mo + d := by
  unfold doyOf daysBefore
  rw [numDaysTable_eq]

theorem step_dvd_of_60 (ap : AP) (hts : ap.timestep ∈ Gen.Ap.validTimesteps) (m : Nat)
    (h : m % 60 = 0) : m % ap.step = 0 := by
  have := (ts_facts ap hts 0 m (by omega) (by omega)).1
  obtain ⟨sm, sd, sh, em, ed, eh, ts, leap⟩ := ap
  simp only [step] at *
  rcases ts_cases hts with rfl | rfl | rfl | rfl | rfl | rfl | rfl | rfl | rfl | rfl | rfl | rfl <;>
    simp only [Nat.reduceDiv] <;> omega

/-- Day-of-year facts of the two moments. -/
theorem doy_facts (ap : AP) (hwf : ap.WF) :
    1 ≤ ap.stTime.doy ∧ ap.stTime.doy ≤ daysInYear ap.leap ∧
    1 ≤ ap.endTime.doy ∧ ap.endTime.doy ≤ daysInYear ap.leap ∧
    ap.stMoy = ((ap.stTime.doy - 1) * 24 + ap.st_hour) * 60 ∧
    ap.endMoy = ((ap.endTime.doy - 1) * 24 + ap.end_hour) * 60 ∧
    minutesInYear ap.leap = 1440 * daysInYear ap.leap := by
  obtain ⟨hv1, hv2, _⟩ := hwf
  obtain ⟨a1, a2, a3, a4, _, _⟩ := hv1
  obtain ⟨b1, b2, b3, b4, _, _⟩ := hv2
  have f1 := (dateFact_of_valid ap.leap ap.st_month ap.st_day ⟨a1, a2, a3, a4⟩).2
  have f2 := (dateFact_of_valid ap.leap ap.end_month ap.end_day ⟨b1, b2, b3, b4⟩).2
  have d1 : ap.stTime.doy = daysBefore ap.leap ap.st_month + ap.st_day := rfl
  have d2 : ap.endTime.doy = daysBefore ap.leap ap.end_month + ap.end_day := rfl
  have a3' : 1 ≤ ap.st_day := a3
  have b3' : 1 ≤ ap.end_day := b3
  refine ⟨by omega, by omega, by omega, by omega, ?_, ?_, rfl⟩
  · simp [stMoy, DT.moy, DT.intHoy, stTime]
  · simp [endMoy, DT.moy, DT.intHoy, endTime]

theorem mem_doysInt (ap : AP) (_hwf : ap.WF) (d : Nat) :
    d ∈ ap.doysInt ↔
      (ap.isReversed = false ∧ ap.stTime.doy ≤ d ∧ d ≤ ap.endTime.doy) ∨
      (ap.isReversed = true ∧ ((ap.stTime.doy ≤ d ∧ d ≤ daysInYear ap.leap) ∨ (1 ≤ d ∧ d ≤ ap.endTime.doy))) := by
  have hl : (⟨12, 31, 23, 0, ap.leap⟩ : DT).doy = daysInYear ap.leap ∧
      (⟨1, 1, 0, 0, ap.leap⟩ : DT).doy = 1 := by cases ap.leap <;> decide
  have e1 : doyOf ap.leap ap.st_month ap.st_day = ap.stTime.doy := doyOf_eq _ _ _
  have e2 : doyOf ap.leap ap.end_month ap.end_day = ap.endTime.doy := doyOf_eq _ _ _
  have e3 : doyOf ap.leap 12 31 = daysInYear ap.leap := by rw [doyOf_eq]; exact hl.1
  have e4 : doyOf ap.leap 1 1 = 1 := by rw [doyOf_eq]; exact hl.2
  unfold doysInt calcDaystamps
  by_cases hr : ap.isReversed = false
  · rw [if_pos hr]
    simp only [stTime, endTime] at e1 e2 ⊢
    simp only [e1, e2, List.mem_range'_1, hr]
    simp
    omega
  · have hr' : ap.isReversed = true := by simpa using hr
    rw [if_neg hr]
    simp only [stTime, endTime] at e1 e2 ⊢
    simp only [e1, e2, e3, e4, List.mem_append, List.mem_range'_1, hr']
    simp
    omega

theorem doys_iff (ap : AP) (hwf : ap.WF) (d : Nat) :
    d ∈ ap.doysInt ↔ ∃ m ∈ ap.moys, m / 1440 + 1 = d := by
  obtain ⟨hs, he, m1, m2, m3, m4, m5, m6, hrev⟩ := moment_facts ap hwf
  obtain ⟨d1, d2, d3, d4, e1, e2, eN⟩ := doy_facts ap hwf
  have hts := hwf.2.2
  rw [mem_doysInt ap hwf]
  constructor
  · -- every listed day contains an enumerated step
    have wit : ∀ h, (h = ap.st_hour ∨ h = ap.end_hour) → 1 ≤ d → d ≤ daysInYear ap.leap →
        ((ap.stMoy ≤ ap.endMoy ∧ ap.stMoy ≤ (d - 1) * 1440 + h * 60 ∧ (d - 1) * 1440 + h * 60 < ap.endMoy + 60) ∨
         (ap.endMoy < ap.stMoy ∧ (ap.stMoy ≤ (d - 1) * 1440 + h * 60 ∨ (d - 1) * 1440 + h * 60 < ap.endMoy + 60))) →
        ∃ m ∈ ap.moys, m / 1440 + 1 = d := by
      intro h hh h1 h2 hrange
      refine ⟨(d - 1) * 1440 + h * 60, (mem_moys ap hwf _).mpr ⟨by omega, ?_, ?_, hrange⟩, by omega⟩
      · exact step_dvd_of_60 ap hts _ (by omega)
      · have : ((d - 1) * 1440 + h * 60) % 1440 = h * 60 := by omega
        rw [this]
        unfold inWindow
        split <;> omega
    rintro (⟨hr, h1, h2⟩ | ⟨hr, (⟨h1, h2⟩ | ⟨h1, h2⟩)⟩)
    · have hle := hrev.mp hr
      by_cases hc : ap.st_hour ≤ ap.end_hour ∨ d < ap.endTime.doy
      · exact wit ap.st_hour (Or.inl rfl) (by omega) (by omega) (Or.inl ⟨hle, by omega, by omega⟩)
      · exact wit ap.end_hour (Or.inr rfl) (by omega) (by omega) (Or.inl ⟨hle, by omega, by omega⟩)
    · have hlt : ap.endMoy < ap.stMoy := by
        have : ¬ ap.stMoy ≤ ap.endMoy := fun h => by simp [hrev.mpr h] at hr
        omega
      exact wit ap.st_hour (Or.inl rfl) (by omega) h2 (Or.inr ⟨hlt, Or.inl (by omega)⟩)
    · have hlt : ap.endMoy < ap.stMoy := by
        have : ¬ ap.stMoy ≤ ap.endMoy := fun h => by simp [hrev.mpr h] at hr
        omega
      exact wit ap.end_hour (Or.inr rfl) h1 (by omega) (Or.inr ⟨hlt, Or.inr (by omega)⟩)
  · rintro ⟨m, hm, rfl⟩
    obtain ⟨p1, _, _, p4⟩ := (mem_moys ap hwf m).mp hm
    rcases p4 with ⟨hle, h1, h2⟩ | ⟨hlt, h⟩
    · exact Or.inl ⟨hrev.mpr hle, by omega, by omega⟩
    · have hr : ap.isReversed = true := by
        cases hx : ap.isReversed
        · have := hrev.mp hx; omega
        · rfl
      rcases h with h | h
      · exact Or.inr ⟨hr, Or.inl ⟨by omega, by omega⟩⟩
      · exact Or.inr ⟨hr, Or.inr ⟨by omega, by omega⟩⟩

/-! ### months_int -/

theorem monthLen_pos (leap : Bool) (mo : Nat) (h1 : 1 ≤ mo) (h2 : mo ≤ 12) : 1 ≤ monthLen leap mo := by
  have : ∀ k : Fin 13, 1 ≤ k.val → 1 ≤ monthLen leap k.val := by cases leap <;> decide
  exact this ⟨mo, by omega⟩ h1

theorem mem_monthsInt (ap : AP) (mo : Nat) :
    mo ∈ ap.monthsInt ↔
      (ap.isReversed = false ∧ ap.st_month ≤ mo ∧ mo ≤ ap.end_month) ∨
      (ap.isReversed = true ∧ ((ap.st_month ≤ mo ∧ mo ≤ 12) ∨ (1 ≤ mo ∧ mo ≤ ap.end_month))) := by
  unfold monthsInt
  by_cases hr : ap.isReversed = false
  · rw [if_pos hr]
    simp only [List.mem_range'_1, hr]
    simp
    omega
  · have hr' : ap.isReversed = true := by simpa using hr
    rw [if_neg hr]
    simp only [List.mem_append, List.mem_range'_1, hr']
    simp
    omega

/-- A date-time on the hour: its minute of the year and time of day. -/
theorem moy_on_hour (w : DT) (hv : w.valid) (h0 : w.minute = 0) :
    w.moy % 60 = 0 ∧ w.moy % 1440 = w.hour * 60 := by
  have : w.moy = ((w.doy - 1) * 24 + w.hour) * 60 + w.minute := rfl
  have h5 : w.hour ≤ 23 := hv.2.2.2.2.1
  omega

/-- A valid date-time on the hour whose hour is the start or the end hour and which lies in the
    moment range is enumerated, and `from_moy` gives it back. -/
theorem witness_mem (ap : AP) (hwf : ap.WF) (w : DT) (hv : w.valid) (h0 : w.minute = 0)
    (hl : w.leap = ap.leap) (hh : w.hour = ap.st_hour ∨ w.hour = ap.end_hour)
    (hrange : (ap.stMoy ≤ ap.endMoy ∧ ap.stMoy ≤ w.moy ∧ w.moy < ap.endMoy + 60) ∨
      (ap.endMoy < ap.stMoy ∧ (ap.stMoy ≤ w.moy ∨ w.moy < ap.endMoy + 60))) :
    w.moy ∈ ap.moys ∧ fromMoy ap.leap w.moy = .ok w := by
  obtain ⟨hs, he, _⟩ := moment_facts ap hwf
  obtain ⟨q1, q2⟩ := moy_on_hour w hv h0
  have hlt := C08_moy_lt w hv
  rw [hl] at hlt
  refine ⟨(mem_moys ap hwf _).mpr ⟨hlt, step_dvd_of_60 ap hwf.2.2 _ q1, ?_, hrange⟩, ?_⟩
  · rw [q2]
    unfold inWindow
    split <;> omega
  · rw [← hl]; exact C08_moy_fromMoy w hv

theorem months_iff (ap : AP) (hwf : ap.WF) (mo : Nat) :
    mo ∈ ap.monthsInt ↔ ∃ m ∈ ap.moys, ∃ d, fromMoy ap.leap m = .ok d ∧ d.month = mo := by
  obtain ⟨hs, he, m1, m2, m3, m4, m5, m6, hrev⟩ := moment_facts ap hwf
  obtain ⟨hv1, hv2, hts⟩ := hwf
  have hwf : ap.WF := ⟨hv1, hv2, hts⟩
  have sv := hv1
  have ev := hv2
  obtain ⟨a1, a2, a3, a4, a5, a6⟩ := hv1
  obtain ⟨b1, b2, b3, b4, b5, b6⟩ := hv2
  have a1' : 1 ≤ ap.st_month := a1
  have a2' : ap.st_month ≤ 12 := a2
  have b1' : 1 ≤ ap.end_month := b1
  have b2' : ap.end_month ≤ 12 := b2
  -- the probe date-time: day 1 of month `mo` at hour `h`
  have probe : ∀ h, h ≤ 23 → 1 ≤ mo → mo ≤ 12 → (⟨mo, 1, h, 0, ap.leap⟩ : DT).valid := by
    intro h hh h1 h2
    exact ⟨h1, h2, Nat.le_refl 1, monthLen_pos ap.leap mo h1 h2, hh, Nat.zero_le _⟩
  have ordS : ∀ w : DT, w.valid → ap.leap = w.leap → ap.st_month < w.month → ap.stMoy < w.moy :=
    fun w hw hl h => (C08_order ap.stTime w sv hw hl).mpr (Or.inl h)
  have ordE : ∀ w : DT, w.valid → w.leap = ap.leap → w.month < ap.end_month → w.moy < ap.endMoy :=
    fun w hw hl h => (C08_order w ap.endTime hw ev hl).mpr (Or.inl h)
  rw [mem_monthsInt]
  constructor
  · rintro (⟨hr, h1, h2⟩ | ⟨hr, (⟨h1, h2⟩ | ⟨h1, h2⟩)⟩)
    · have hle := hrev.mp hr
      by_cases e1 : mo = ap.st_month
      · obtain ⟨w1, w2⟩ := witness_mem ap hwf ap.stTime sv rfl rfl (Or.inl rfl)
          (Or.inl ⟨hle, Nat.le_refl _, by change ap.stMoy < _; omega⟩)
        exact ⟨_, w1, _, w2, e1.symm⟩
      · by_cases e2 : mo = ap.end_month
        · obtain ⟨w1, w2⟩ := witness_mem ap hwf ap.endTime ev rfl rfl (Or.inr rfl)
            (Or.inl ⟨hle, hle, by change ap.endMoy < _; omega⟩)
          exact ⟨_, w1, _, w2, e2.symm⟩
        · have pv := probe ap.st_hour hs (by omega) (by omega)
          have o1 := ordS _ pv rfl (by change ap.st_month < mo; omega)
          have o2 := ordE _ pv rfl (by change mo < ap.end_month; omega)
          obtain ⟨w1, w2⟩ := witness_mem ap hwf _ pv rfl rfl (Or.inl rfl)
            (Or.inl ⟨hle, by omega, by omega⟩)
          exact ⟨_, w1, _, w2, rfl⟩
    · have hlt : ap.endMoy < ap.stMoy := by
        have : ¬ ap.stMoy ≤ ap.endMoy := fun h => by simp [hrev.mpr h] at hr
        omega
      by_cases e1 : mo = ap.st_month
      · obtain ⟨w1, w2⟩ := witness_mem ap hwf ap.stTime sv rfl rfl (Or.inl rfl)
          (Or.inr ⟨hlt, Or.inl (Nat.le_refl _)⟩)
        exact ⟨_, w1, _, w2, e1.symm⟩
      · have pv := probe ap.st_hour hs (by omega) h2
        have o1 := ordS _ pv rfl (by change ap.st_month < mo; omega)
        obtain ⟨w1, w2⟩ := witness_mem ap hwf _ pv rfl rfl (Or.inl rfl)
          (Or.inr ⟨hlt, Or.inl (by omega)⟩)
        exact ⟨_, w1, _, w2, rfl⟩
    · have hlt : ap.endMoy < ap.stMoy := by
        have : ¬ ap.stMoy ≤ ap.endMoy := fun h => by simp [hrev.mpr h] at hr
        omega
      by_cases e2 : mo = ap.end_month
      · obtain ⟨w1, w2⟩ := witness_mem ap hwf ap.endTime ev rfl rfl (Or.inr rfl)
          (Or.inr ⟨hlt, Or.inr (by change ap.endMoy < _; omega)⟩)
        exact ⟨_, w1, _, w2, e2.symm⟩
      · have pv := probe ap.end_hour he h1 (by omega)
        have o2 := ordE _ pv rfl (by change mo < ap.end_month; omega)
        obtain ⟨w1, w2⟩ := witness_mem ap hwf _ pv rfl rfl (Or.inr rfl)
          (Or.inr ⟨hlt, Or.inr (by omega)⟩)
        exact ⟨_, w1, _, w2, rfl⟩
  · rintro ⟨m, hm, d, hd, rfl⟩
    obtain ⟨p1, _, _, p4⟩ := (mem_moys ap hwf m).mp hm
    obtain ⟨d', hd', dv, dm, _, _, _, dl⟩ := C08_fromMoy_moy ap.leap m p1
    rw [hd] at hd'
    have : d = d' := by injection hd'
    subst this
    -- the last minute of the end hour, for comparisons with `m < endMoy + 60`
    have ev59 : (⟨ap.end_month, ap.end_day, ap.end_hour, 59, ap.leap⟩ : DT).valid :=
      ⟨b1, b2, b3, b4, b5, Nat.le_refl _⟩
    have e59 : (⟨ap.end_month, ap.end_day, ap.end_hour, 59, ap.leap⟩ : DT).moy = ap.endMoy + 59 := by
      simp [DT.moy, DT.intHoy, DT.doy, endMoy, endTime]
    have geS : ap.stMoy ≤ m → ap.st_month ≤ d.month := by
      intro h
      by_cases hc : d.month < ap.st_month
      · have := (C08_order d ap.stTime dv sv dl).mpr (Or.inl hc)
        change _ < ap.stMoy at this
        omega
      · omega
    have leE : m < ap.endMoy + 60 → d.month ≤ ap.end_month := by
      intro h
      by_cases hc : ap.end_month < d.month
      · have := (C08_order _ d ev59 dv dl.symm).mpr (Or.inl hc)
        rw [e59] at this
        omega
      · omega
    have dm1 : 1 ≤ d.month := dv.1
    have dm2 : d.month ≤ 12 := dv.2.1
    rcases p4 with ⟨hle, h1, h2⟩ | ⟨hlt, h⟩
    · exact Or.inl ⟨hrev.mpr hle, geS h1, leE h2⟩
    · have hr : ap.isReversed = true := by
        cases hx : ap.isReversed
        · have := hrev.mp hx; omega
        · rfl
      rcases h with h | h
      · exact Or.inr ⟨hr, Or.inl ⟨geS h, dm2⟩⟩
      · exact Or.inr ⟨hr, Or.inr ⟨dm1, leE h⟩⟩

/-! ### months_per_hour -/

theorem ts_mph_fact (ap : AP) (hts : ap.timestep ∈ Gen.Ap.validTimesteps) :
    (∀ x, x < 1440 → x % ap.step = 0 →
      x / ap.step < 24 * ap.timestep ∧ x / ap.step * ap.step = x ∧
      x / ap.step / ap.timestep = x / 60 ∧ x / ap.step % ap.timestep * ap.step = x % 60) ∧
    (∀ hr, hr < 24 * ap.timestep →
      hr * ap.step < 1440 ∧ hr * ap.step % ap.step = 0 ∧ hr / ap.timestep = hr * ap.step / 60 ∧
      hr % ap.timestep * ap.step = hr * ap.step % 60) := by
  obtain ⟨sm, sd, sh, em, ed, eh, ts, leap⟩ := ap
  simp only [step] at *
  rcases ts_cases hts with rfl | rfl | rfl | rfl | rfl | rfl | rfl | rfl | rfl | rfl | rfl | rfl <;>
    simp only [Nat.reduceDiv, Nat.reduceMul] <;> refine ⟨fun x h1 h2 => ?_, fun hr h => ?_⟩ <;> omega

theorem mem_monthsPerHour (ap : AP) (hwf : ap.WF) (t : Nat × Nat × Nat) :
    t ∈ ap.monthsPerHour ↔
      t.1 ∈ ap.monthsInt ∧ ∃ x, x < 1440 ∧ x % ap.step = 0 ∧ ap.inWindow x ∧
        t.2.1 = x / 60 ∧ t.2.2 = x % 60 := by
  obtain ⟨hs, he, _⟩ := moment_facts ap hwf
  obtain ⟨f1, f2⟩ := ts_mph_fact ap hwf.2.2
  unfold monthsPerHour hourRange
  simp only [List.mem_flatMap, List.mem_map, List.mem_filter, List.mem_range]
  constructor
  · rintro ⟨mo, hmo, hr, ⟨hlt, hp⟩, rfl⟩
    obtain ⟨g1, g2, g3, g4⟩ := f2 hr hlt
    exact ⟨hmo, hr * ap.step, g1, g2, (possibleMod_iff ap hs he _ g1).mp hp, g3, g4⟩
  · rintro ⟨hmo, x, hx, hg, hw, e1, e2⟩
    obtain ⟨g1, g2, g3, g4⟩ := f1 x hx hg
    refine ⟨t.1, hmo, x / ap.step, ⟨g1, ?_⟩, ?_⟩
    · rw [g2]; exact (possibleMod_iff ap hs he _ hx).mpr hw
    · rw [g3, g4, ← e1, ← e2]

/-- Completeness: every enumerated step's (month, hour, minute) is listed. -/
theorem mph_complete (ap : AP) (hwf : ap.WF) (m : Nat) (hm : m ∈ ap.moys) (d : DT)
    (hd : fromMoy ap.leap m = .ok d) : (d.month, d.hour, d.minute) ∈ ap.monthsPerHour := by
  obtain ⟨p1, p2, p3, _⟩ := (mem_moys ap hwf m).mp hm
  obtain ⟨d', hd', _, _, dmin, dh, _, _⟩ := C08_fromMoy_moy ap.leap m p1
  rw [hd] at hd'
  have : d = d' := by injection hd'
  subst this
  rw [mem_monthsPerHour ap hwf]
  refine ⟨(months_iff ap hwf d.month).mpr ⟨m, hm, d, hd, rfl⟩, m % 1440, Nat.mod_lt _ (by decide), ?_, p3, ?_, ?_⟩
  · have h1440 : 1440 % ap.step = 0 := step_dvd_of_60 ap hwf.2.2 1440 (by decide)
    have hS := step_pos ap hwf.2.2
    have d1 := Nat.dvd_of_mod_eq_zero p2
    have d2 := Nat.dvd_of_mod_eq_zero h1440
    exact Nat.mod_eq_zero_of_dvd ((Nat.dvd_mod_iff d2).mpr d1)
  · show d.hour = m % 1440 / 60
    omega
  · show d.minute = m % 1440 % 60
    omega

/-! ### Constructor -/

theorem make_ok (month day hour : Nat) (leap : Bool) (d : DT)
    (h : DT.make month day hour 0 leap = .ok d) :
    d = ⟨month, day, hour, 0, leap⟩ ∧ d.valid := by
  unfold DT.make normHM at h
  simp only [Nat.zero_div, Nat.add_zero, Nat.zero_mod] at h
  split at h
  · rename_i hv
    injection h with h
    subst h
    exact ⟨rfl, hv⟩
  · cases h

theorem makeDT_ok (month day hour : Int) (leap : Bool) (d : DT)
    (h : makeDT month day hour leap = .ok d) :
    d.valid ∧ d.minute = 0 ∧ d.leap = leap ∧ (d.month : Int) = month ∧ (d.day : Int) = day ∧
      (d.hour : Int) = hour := by
  unfold makeDT at h
  split at h
  · rename_i hn
    obtain ⟨e, hv⟩ := make_ok _ _ _ _ _ h
    subst e
    refine ⟨hv, rfl, rfl, ?_, ?_, ?_⟩ <;> simp <;> omega
  · cases h

theorem makeDT_valid (d : DT) (hv : d.valid) (h0 : d.minute = 0) :
    makeDT d.month d.day d.hour d.leap = .ok d := by
  unfold makeDT DT.make normHM
  simp only [Int.natCast_nonneg, and_self, if_true, Int.toNat_natCast, Nat.zero_div, Nat.add_zero,
    Nat.zero_mod]
  cases d
  simp only at h0
  subst h0
  exact if_pos hv

/-- The constructor only builds well-formed periods, and the stored fields are the (defaulted,
    clipped) arguments. -/
theorem mkOpt_wf (stM stD stH endM endD endH ts : Option Int) (leap : Bool) (ap : AP)
    (h : mkOpt? stM stD stH endM endD endH ts leap = .ok ap) :
    ap.WF ∧ ap.leap = leap ∧ (ap.st_month : Int) = orD stM 1 ∧ (ap.st_day : Int) = orD stD 1 ∧
      (ap.st_hour : Int) = orD stH 0 ∧ (ap.end_month : Int) = orD endM 12 ∧
      (ap.end_hour : Int) = endH.getD 23 ∧ (ap.timestep : Int) = orD ts 1 ∧
      ((ap.end_day : Int) = orD endD 31 ∨
        ((ap.end_day : Int) < orD endD 31 ∧ ap.end_day = monthLen leap ap.end_month)) := by
  unfold mkOpt? at h
  simp only at h
  split at h
  · cases h
  · rename_i st hst
    split at h
    · cases h
    · rename_i t ht
      split at h
      · cases h
      · rename_i en hen
        split at h
        · rename_i hts
          injection h with h
          subst h
          obtain ⟨s1, s2, s3, s4, s5, s6⟩ := makeDT_ok _ _ _ _ _ hst
          obtain ⟨e1, e2, e3, e4, e5, e6⟩ := makeDT_ok _ _ _ _ _ hen
          have hsv : (⟨st.month, st.day, st.hour, 0, leap⟩ : DT).valid := by
            have : st = ⟨st.month, st.day, st.hour, 0, leap⟩ := by cases st; simp_all
            rw [← this]; exact s1
          have hev : (⟨en.month, en.day, en.hour, 0, leap⟩ : DT).valid := by
            have : en = ⟨en.month, en.day, en.hour, 0, leap⟩ := by cases en; simp_all
            rw [← this]; exact e1
          refine ⟨⟨hsv, hev, hts.2⟩, rfl, s4, s5, s6, e4, e6, ?_, ?_⟩
          · simp only; omega
          · -- end day: either unchanged or clipped to the month length
            simp only
            have hm1 : 1 ≤ en.month := e1.1
            have hm2 : en.month ≤ 12 := e1.2.1
            have htab : t = monthLen leap en.month := by
              rw [← e4] at ht
              unfold Py.getIdx? at ht
              have hnn : (0 : Int) ≤ (en.month : Int) - 1 := by omega
              rw [if_pos hnn] at ht
              have : ((en.month : Int) - 1).toNat = en.month - 1 := by omega
              rw [this, numDaysTable_eq] at ht
              unfold monthLen
              rw [List.getD_eq_getElem?_getD, ht]
              rfl
            split at e5
            · right; rw [htab] at e5; omega
            · left; exact e5
        · cases h

theorem getIdx_table (leap : Bool) (mo : Nat) (h1 : 1 ≤ mo) (h2 : mo ≤ 12) :
    Py.getIdx? (numDaysTable leap) ((mo : Int) - 1) = some (monthLen leap mo) := by
  have : ∀ k : Fin 13, 1 ≤ k.val →
      Py.getIdx? (numDaysTable leap) ((k.val : Int) - 1) = some (monthLen leap k.val) := by
    cases leap <;> decide
  exact this ⟨mo, by omega⟩ h1

theorem orD_pos (n : Nat) (h : 1 ≤ n) (d : Int) : orD (some (n : Int)) d = n := by
  show (if (n : Int) = 0 then d else (n : Int)) = n
  rw [if_neg (by omega)]

theorem orD_zero (n : Nat) : orD (some (n : Int)) 0 = n := by
  unfold orD
  split <;> simp_all

/-- Shared tail of the constructor on well-formed stored fields. -/
theorem ctor_tail (ap : AP) (hwf : ap.WF) :
    (match makeDT ap.st_month ap.st_day ap.st_hour ap.leap with
    | .error e => .error e
    | .ok st =>
      match Py.getIdx? (numDaysTable ap.leap) ((ap.end_month : Int) - 1) with
      | none => .error .index
      | some t =>
        let endD := if (ap.end_day : Int) > (t : Int) then (t : Int) else (ap.end_day : Int)
        match makeDT ap.end_month endD ap.end_hour ap.leap with
        | .error e => .error e
        | .ok en =>
          if 0 ≤ (ap.timestep : Int) ∧ (ap.timestep : Int).toNat ∈ Gen.Ap.validTimesteps then
            .ok ⟨st.month, st.day, st.hour, en.month, en.day, en.hour, (ap.timestep : Int).toNat, ap.leap⟩
          else .error .value : Except Err AP) = .ok ap := by
  obtain ⟨hv1, hv2, hts⟩ := hwf
  have s := makeDT_valid ap.stTime hv1 rfl
  have e := makeDT_valid ap.endTime hv2 rfl
  simp only [stTime, endTime] at s e
  have hclip : ¬ ((ap.end_day : Int) > (monthLen ap.leap ap.end_month : Int)) := by
    have : ap.end_day ≤ monthLen ap.leap ap.end_month := hv2.2.2.2.1
    omega
  rw [s]
  simp only [getIdx_table ap.leap ap.end_month hv2.1 hv2.2.1, hclip, if_false, e]
  have : (0 : Int) ≤ (ap.timestep : Int) ∧ (ap.timestep : Int).toNat ∈ Gen.Ap.validTimesteps := by
    refine ⟨by omega, ?_⟩
    simpa using hts
  rw [if_pos this]
  simp

/-- Well-formed stored fields are accepted unchanged (`duplicate()`, and the basis of the dict and
    text round trips). -/
theorem mk_of_wf (ap : AP) (hwf : ap.WF) :
    mk? ap.st_month ap.st_day ap.st_hour ap.end_month ap.end_day ap.end_hour ap.timestep ap.leap = .ok ap := by
  obtain ⟨hv1, hv2, hts⟩ := hwf
  have hts1 : 1 ≤ ap.timestep := by
    rcases ts_cases hts with h | h | h | h | h | h | h | h | h | h | h | h <;> omega
  unfold mk? mkOpt?
  simp only [orD_pos ap.st_month hv1.1, orD_pos ap.st_day hv1.2.2.1, orD_zero, orD_pos ap.end_month hv2.1,
    orD_pos ap.end_day hv2.2.2.1, orD_pos _ hts1, Option.getD_some]
  exact ctor_tail ap ⟨hv1, hv2, hts⟩

theorem dict_roundtrip (ap : AP) (hwf : ap.WF) : fromDict ap.toDict = .ok ap := by
  have h := mk_of_wf ap hwf
  unfold mk? at h
  unfold fromDict toDict lookup?
  simp only [List.find?, String.reduceBEq, Option.map_some, beq_self_eq_true]
  have hl : (orD (some (if ap.leap = true then (1 : Int) else 0)) 0 != 0) = ap.leap := by
    cases ap.leap <;> decide
  rw [hl]
  exact h

/-- Token-level text round trip. -/
theorem tokens_roundtrip (ap : AP) (hwf : ap.WF) :
    fromTokens (ap.reprTokens.map fun (n : Nat) => some (n : Int)) ap.leap = .ok ap := by
  obtain ⟨hv1, hv2, hts⟩ := hwf
  have hts1 : 1 ≤ ap.timestep := by
    rcases ts_cases hts with h | h | h | h | h | h | h | h | h | h | h | h <;> omega
  have hne : ¬ ((ap.timestep : Int) = 0) := by omega
  have tail := ctor_tail ap ⟨hv1, hv2, hts⟩
  have s := makeDT_valid ap.stTime hv1 rfl
  have e := makeDT_valid ap.endTime hv2 rfl
  simp only [stTime, endTime] at s e
  have hclip : ¬ ((ap.end_day : Int) > (monthLen ap.leap ap.end_month : Int)) := by
    have : ap.end_day ≤ monthLen ap.leap ap.end_month := hv2.2.2.2.1
    omega
  have hts' : (0 : Int) ≤ (ap.timestep : Int) ∧ (ap.timestep : Int).toNat ∈ Gen.Ap.validTimesteps := by
    refine ⟨by omega, ?_⟩
    simpa using hts
  unfold fromTokens reprTokens
  simp only [List.map_cons, List.map_nil, Option.getD_some, hne, if_false, s,
    getIdx_table ap.leap ap.end_month hv2.1 hv2.2.1, hclip, false_and, e, if_pos hts']
  simp

/-- A timestep outside `VALIDTIMESTEPS` is rejected whatever the dates are. -/
theorem mk_reject_timestep (stM stD stH endM endD endH ts : Option Int) (leap : Bool)
    (h : ¬ (0 ≤ orD ts 1 ∧ (orD ts 1).toNat ∈ Gen.Ap.validTimesteps)) :
    ∃ e, mkOpt? stM stD stH endM endD endH ts leap = .error e := by
  cases hr : mkOpt? stM stD stH endM endD endH ts leap with
  | error e => exact ⟨e, rfl⟩
  | ok ap =>
    obtain ⟨hwf, _, _, _, _, _, _, hts, _⟩ := mkOpt_wf _ _ _ _ _ _ _ _ _ hr
    exfalso
    apply h
    rw [← hts]
    exact ⟨by omega, by simpa using hwf.2.2⟩

/-- A start date (after defaults) that does not exist in the year, or a start hour outside 0..23, is
    rejected. -/
theorem mk_reject_start (stM stD stH endM endD endH ts : Option Int) (leap : Bool)
    (h : ¬ (1 ≤ orD stM 1 ∧ orD stM 1 ≤ 12 ∧ 1 ≤ orD stD 1 ∧
      orD stD 1 ≤ monthLen leap (orD stM 1).toNat ∧ 0 ≤ orD stH 0 ∧ orD stH 0 ≤ 23)) :
    ∃ e, mkOpt? stM stD stH endM endD endH ts leap = .error e := by
  cases hr : mkOpt? stM stD stH endM endD endH ts leap with
  | error e => exact ⟨e, rfl⟩
  | ok ap =>
    obtain ⟨hwf, hl, h1, h2, h3, _⟩ := mkOpt_wf _ _ _ _ _ _ _ _ _ hr
    exfalso
    apply h
    obtain ⟨a1, a2, a3, a4, a5, _⟩ := hwf.1
    have a1' : 1 ≤ ap.st_month := a1
    have a2' : ap.st_month ≤ 12 := a2
    have a3' : 1 ≤ ap.st_day := a3
    have a4' : ap.st_day ≤ monthLen ap.leap ap.st_month := a4
    have a5' : ap.st_hour ≤ 23 := a5
    rw [← h1, ← h2, ← h3, ← hl]
    refine ⟨by omega, by omega, by omega, ?_, by omega, by omega⟩
    simp only [Int.toNat_natCast]
    omega

/-- An end month outside 1..12, an end hour outside 0..23 or an end day below 1 is rejected (an end
    day beyond the month length is clipped, see `mkOpt_wf`). -/
theorem mk_reject_end (stM stD stH endM endD endH ts : Option Int) (leap : Bool)
    (h : ¬ (1 ≤ orD endM 12 ∧ orD endM 12 ≤ 12 ∧ 1 ≤ orD endD 31 ∧ 0 ≤ endH.getD 23 ∧ endH.getD 23 ≤ 23)) :
    ∃ e, mkOpt? stM stD stH endM endD endH ts leap = .error e := by
  cases hr : mkOpt? stM stD stH endM endD endH ts leap with
  | error e => exact ⟨e, rfl⟩
  | ok ap =>
    obtain ⟨hwf, hl, _, _, _, h4, h5, _, h7⟩ := mkOpt_wf _ _ _ _ _ _ _ _ _ hr
    exfalso
    apply h
    obtain ⟨b1, b2, b3, _, b5, _⟩ := hwf.2.1
    have b1' : 1 ≤ ap.end_month := b1
    have b2' : ap.end_month ≤ 12 := b2
    have b3' : 1 ≤ ap.end_day := b3
    have b5' : ap.end_hour ≤ 23 := b5
    rw [← h4, ← h5]
    refine ⟨by omega, by omega, ?_, by omega, by omega⟩
    rcases h7 with h7 | h7 <;> omega

end AP
