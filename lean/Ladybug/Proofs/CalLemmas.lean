/-
  Helper lemmas for the calendar model (C08, reused by C04 and later properties).  No Mathlib.
  Recipe (DESIGN.md appendix A): a scale lemma relating the minute table to the day table,
  table-specific facts for all 365/366 day indices by `decide +kernel`, `omega` for the rest.
-/
import Ladybug.Model.Cal

namespace Cal

/-- Cumulative days before each month, plus the year total: `[0, 31, 59, …, 365]`. -/
def cumDays (leap : Bool) : List Nat := (List.range 13).map fun k => daysBefore leap (k + 1)

theorem findMonth_go_scale (tbl : List Nat) (c : Nat) (hc : 0 < c) (x : Nat) (fuel k : Nat) :
    findMonth.go (tbl.map (· * c)) x fuel k = findMonth.go tbl (x / c) fuel k := by
  induction fuel generalizing k with
  | zero => simp [findMonth.go]
  | succ n ih =>
    unfold findMonth.go
    simp only [List.getElem?_map]
    cases h : tbl[k + 1]? with
    | none => simp
    | some t =>
      simp only [Option.map_some]
      have : x < t * c ↔ x / c < t := (Nat.div_lt_iff_lt_mul hc).symm
      by_cases hx : x / c < t
      · simp [hx, this.mpr hx]
      · have hx' : ¬ x < t * c := fun h => hx (this.mp h)
        simp [hx, hx', ih]

theorem findMonth_scale (tbl : List Nat) (c : Nat) (hc : 0 < c) (x : Nat) :
    findMonth (tbl.map (· * c)) x = findMonth tbl (x / c) := by
  unfold findMonth; exact findMonth_go_scale tbl c hc x 12 0

/-- Everything the proofs need to know about day index `q` (0-based) of the year. -/
def dayFact (leap : Bool) (q : Nat) : Bool :=
  match findMonth (cumDays leap) q with
  | none => false
  | some mon =>
    decide (1 ≤ mon ∧ mon ≤ 12 ∧ (cumDays leap).getD (mon - 1) 0 ≤ q ∧
      q - (cumDays leap).getD (mon - 1) 0 + 1 ≤ monthLen leap mon ∧
      daysBefore leap mon = (cumDays leap).getD (mon - 1) 0)

theorem dayFact_all_normal : (List.range 365).all (dayFact false) = true := by decide +kernel
theorem dayFact_all_leap : (List.range 366).all (dayFact true) = true := by decide +kernel

theorem dayFact_of_lt (leap : Bool) (q : Nat) (h : q < daysInYear leap) : dayFact leap q = true := by
  cases leap with
  | false =>
    have := dayFact_all_normal
    rw [List.all_eq_true] at this
    exact this q (List.mem_range.mpr (by simpa [daysInYear] using h))
  | true =>
    have := dayFact_all_leap
    rw [List.all_eq_true] at this
    exact this q (List.mem_range.mpr (by simpa [daysInYear] using h))

theorem findMonth_none_of_ge (leap : Bool) (q : Nat) (h : daysInYear leap ≤ q) :
    findMonth (cumDays leap) q = none := by
  have key : ∀ t ∈ cumDays leap, t ≤ daysInYear leap := by
    cases leap <;> decide
  -- every comparison `q < tbl[k+1]` fails
  have gen : ∀ fuel k, findMonth.go (cumDays leap) q fuel k = none := by
    intro fuel
    induction fuel with
    | zero => intro k; simp [findMonth.go]
    | succ n ih =>
      intro k
      unfold findMonth.go
      cases hk : (cumDays leap)[k + 1]? with
      | none => rfl
      | some t =>
        have ht : t ∈ cumDays leap := List.mem_of_getElem? hk
        have : ¬ q < t := by have := key t ht; omega
        simp [this, ih]
  exact gen 12 0

/-- Finite fact about every calendar date (month, day) of the year. -/
def dateFact (leap : Bool) (mon day : Nat) : Bool :=
  !(decide (1 ≤ mon ∧ mon ≤ 12 ∧ 1 ≤ day ∧ day ≤ monthLen leap mon)) ||
    (findMonth (cumDays leap) (daysBefore leap mon + day - 1) == some mon &&
     decide (daysBefore leap mon + day ≤ daysInYear leap))

theorem dateFact_all (leap : Bool) :
    (List.range 13).all (fun mon => (List.range 32).all (fun day => dateFact leap mon day)) = true := by
  cases leap <;> decide +kernel

theorem monthLen_le_31 (leap : Bool) (mon : Nat) : monthLen leap mon ≤ 31 := by
  unfold monthLen
  by_cases h : mon - 1 < 12
  · have : ∀ k, k < 12 → (monthLens leap).getD k 0 ≤ 31 := by cases leap <;> decide
    exact this _ h
  · have hl : (monthLens leap).length = 12 := by cases leap <;> rfl
    have : (monthLens leap)[mon - 1]? = none := List.getElem?_eq_none (by omega)
    simp [List.getD_eq_getElem?_getD, this]

theorem dateFact_of_valid (leap : Bool) (mon day : Nat)
    (h : 1 ≤ mon ∧ mon ≤ 12 ∧ 1 ≤ day ∧ day ≤ monthLen leap mon) :
    findMonth (cumDays leap) (daysBefore leap mon + day - 1) = some mon ∧
      daysBefore leap mon + day ≤ daysInYear leap := by
  have hall := dateFact_all leap
  rw [List.all_eq_true] at hall
  have h1 := hall mon (List.mem_range.mpr (by omega))
  rw [List.all_eq_true] at h1
  have hd31 := monthLen_le_31 leap mon
  have h2 := h1 day (List.mem_range.mpr (by omega))
  unfold dateFact at h2
  simp only [Bool.or_eq_true, Bool.not_eq_true', decide_eq_false_iff_not, Bool.and_eq_true,
    beq_iff_eq, decide_eq_true_eq] at h2
  rcases h2 with h2 | h2
  · exact absurd h h2
  · exact h2

/-- A valid date is determined by its day of the year. -/
theorem doy_inj (leap : Bool) (m1 d1 m2 d2 : Nat)
    (h1 : 1 ≤ m1 ∧ m1 ≤ 12 ∧ 1 ≤ d1 ∧ d1 ≤ monthLen leap m1)
    (h2 : 1 ≤ m2 ∧ m2 ≤ 12 ∧ 1 ≤ d2 ∧ d2 ≤ monthLen leap m2)
    (h : daysBefore leap m1 + d1 = daysBefore leap m2 + d2) : m1 = m2 ∧ d1 = d2 := by
  have f1 := (dateFact_of_valid leap m1 d1 h1).1
  have f2 := (dateFact_of_valid leap m2 d2 h2).1
  rw [h] at f1
  have hm : m1 = m2 := by
    have := f1.symm.trans f2
    exact Option.some.inj this
  subst hm
  exact ⟨rfl, by omega⟩

/-- Looking a key up in an association list with distinct keys does not depend on the order. -/
theorem find_key_perm {l₁ l₂ : List (String × Nat)} (hp : l₁.Perm l₂)
    (hnd : (l₁.map (·.1)).Nodup) (k : String) :
    l₁.find? (·.1 == k) = l₂.find? (·.1 == k) := by
  induction hp with
  | nil => rfl
  | cons x _ ih =>
    simp only [List.map_cons, List.nodup_cons] at hnd
    simp only [List.find?_cons]
    split
    · rfl
    · exact ih hnd.2
  | swap x y l =>
    simp only [List.map_cons, List.nodup_cons, List.mem_cons, not_or] at hnd
    simp only [List.find?_cons]
    by_cases hx : (x.1 == k) = true <;> by_cases hy : (y.1 == k) = true
    · exfalso
      have := hnd.1.1
      simp only [beq_iff_eq] at hx hy
      exact this (hy.trans hx.symm)
    · simp [hx, hy]
    · simp [hx, hy]
    · simp [hx, hy]
  | trans h₁ _ ih₁ ih₂ =>
    have hnd₂ := (h₁.map (·.1)).nodup_iff.mp hnd
    exact (ih₁ hnd).trans (ih₂ hnd₂)

/-- Finite fact: `from_doy` on day number `k` (1-based). -/
def doyFact (leap : Bool) (k : Nat) : Bool :=
  match fromDoy leap k with
  | .ok d => decide (d.valid ∧ d.doy = k ∧ d.leap = leap)
  | .error _ => false

theorem doyFact_all (leap : Bool) :
    (List.range 367).all (fun k => !(decide (1 ≤ k ∧ k ≤ daysInYear leap)) || doyFact leap k) = true := by
  cases leap <;> decide +kernel

/-- Finite fact: the month names are distinct, so a name identifies its month. -/
theorem monthName_idx : ∀ k : Fin 12,
    Gen.Dt.monthNames.idxOf? (Gen.Dt.monthNames.getD k.val "?") = some k.val := by decide

end Cal
