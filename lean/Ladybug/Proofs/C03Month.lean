/-
  Helper lemmas for C03: the slice arithmetic of HourlyContinuousCollection.group_by_month equals the
  datetime-keyed grouping of the same data, for every whole-day period.  No Mathlib.
-/
import Ladybug.Proofs.C03Cont

open Cal AP

namespace Grp

variable {α : Type}

/-! ### The calendar: months as runs of days -/

/-- Finite facts about `daysBefore` (both years): one month more adds that month's length; it is
    monotone; it starts at 0 and ends at the length of the year. -/
theorem db_facts (leap : Bool) :
    (∀ mo, mo < 13 → 1 ≤ mo → daysBefore leap (mo + 1) = daysBefore leap mo + monthLen leap mo) ∧
    (∀ a, a < 14 → ∀ b, b < 14 → 1 ≤ a → a ≤ b → daysBefore leap a ≤ daysBefore leap b) ∧
    daysBefore leap 1 = 0 ∧ daysBefore leap 13 = daysInYear leap := by
  cases leap <;> decide

/-- **The calendar lemma**: a valid date-time lies in month `mo` iff its day of the year lies in the
    run of days of that month. -/
theorem month_iff_doy (d : DT) (hv : d.valid) (mo : Nat) (h1 : 1 ≤ mo) (h2 : mo ≤ 12) :
    d.month = mo ↔ daysBefore d.leap mo < d.doy ∧ d.doy ≤ daysBefore d.leap (mo + 1) := by
  obtain ⟨a1, a2, a3, a4, _, _⟩ := hv
  obtain ⟨f1, f2, _, _⟩ := db_facts d.leap
  have hd : d.doy = daysBefore d.leap d.month + d.day := rfl
  have e1 := f1 d.month (by omega) a1
  constructor
  · intro h; subst h; omega
  · intro ⟨h3, h4⟩
    rcases Nat.lt_trichotomy d.month mo with h | h | h
    · have := f2 (d.month + 1) (by omega) mo (by omega) (by omega) (by omega); omega
    · exact h
    · have := f2 (mo + 1) (by omega) d.month (by omega) (by omega) (by omega); omega

/-! ### Generic list facts -/

theorem zip_range'_append (l1 l2 : List α) : ∀ (o : Nat),
    (List.range' o (l1 ++ l2).length).zip (l1 ++ l2)
      = (List.range' o l1.length).zip l1 ++ (List.range' (o + l1.length) l2.length).zip l2 := by
  induction l1 with
  | nil => intro o; simp
  | cons v l1 ih =>
    intro o
    simp only [List.cons_append, List.length_cons, List.range'_succ, List.zip_cons_cons]
    rw [ih (o + 1)]
    have : o + 1 + l1.length = o + (l1.length + 1) := by omega
    rw [this]

/-- Grouping when the indices with key `k` form one interval inside the first `l1.length` entries
    and one interval after them. -/
theorem groupOf_index2 [DecidableEq κ] (kf : Nat → κ) (l1 l2 : List α) (k : κ) (lo1 hi1 lo2 hi2 : Nat)
    (h1 : ∀ i, i < l1.length → (kf i = k ↔ lo1 ≤ i ∧ i < hi1))
    (h2 : ∀ i, l1.length ≤ i → i < l1.length + l2.length → (kf i = k ↔ lo2 ≤ i ∧ i < hi2))
    (hlo : l1.length ≤ lo2) :
    groupOf id (((List.range (l1 ++ l2).length).map kf).zip (l1 ++ l2)) k
      = (l1.drop lo1).take (hi1 - lo1) ++ (l2.drop (lo2 - l1.length)).take (hi2 - lo2) := by
  have hz : ((List.range (l1 ++ l2).length).map kf).zip (l1 ++ l2)
      = ((List.range' 0 (l1 ++ l2).length).zip (l1 ++ l2)).map fun x => (kf x.1, x.2) := by
    rw [List.range_eq_range', List.zip_map_left]
    apply List.map_congr_left
    intro x _
    rfl
  rw [groupOf, hz, List.filter_map, List.map_map, zip_range'_append, List.filter_append, List.map_append]
  congr 1
  · have hf : ((List.range' 0 l1.length).zip l1).filter
          ((fun x => decide (id x.1 = k)) ∘ fun x => (kf x.1, x.2))
        = ((List.range' 0 l1.length).zip l1).filter fun x => decide (lo1 ≤ x.1 ∧ x.1 < hi1) := by
      apply List.filter_congr
      intro x hx
      have hx1 : x.1 < l1.length := by
        have := (List.of_mem_zip hx).1
        simp [List.mem_range'] at this
        omega
      simp only [Function.comp, id, decide_eq_decide]
      exact h1 x.1 hx1
    rw [hf]
    have := filter_index_interval lo1 hi1 l1 0
    simp only [Nat.sub_zero, Nat.max_zero] at this
    rw [← this]
    apply List.map_congr_left
    intro x _
    rfl
  · have hf : ((List.range' (0 + l1.length) l2.length).zip l2).filter
          ((fun x => decide (id x.1 = k)) ∘ fun x => (kf x.1, x.2))
        = ((List.range' (0 + l1.length) l2.length).zip l2).filter fun x => decide (lo2 ≤ x.1 ∧ x.1 < hi2) := by
      apply List.filter_congr
      intro x hx
      have hx1 : l1.length ≤ x.1 ∧ x.1 < l1.length + l2.length := by
        have := (List.of_mem_zip hx).1
        simp [List.mem_range'] at this
        omega
      simp only [Function.comp, id, decide_eq_decide]
      exact h2 x.1 hx1.1 hx1.2
    rw [hf]
    have := filter_index_interval lo2 hi2 l2 (0 + l1.length)
    have hmax : max lo2 (0 + l1.length) = lo2 := by omega
    rw [hmax, Nat.zero_add] at this
    rw [Nat.zero_add, ← this]
    apply List.map_congr_left
    intro x _
    rfl

/-- A slice of a prefix that ends inside the prefix is the slice of the whole list. -/
theorem slice_take (l : List α) (n a b : Nat) (h : a + b ≤ n) :
    ((l.take n).drop a).take b = (l.drop a).take b := by
  rw [List.drop_take, List.take_take]
  congr 1
  omega

/-! ### The `assignMonths` loop in closed form -/

/-- What the loop `for mon in ms` appends to key `k`, started at index `indx`. -/
def extra (nd : List Nat) (ts : Nat) (vals : List α) : List Nat → Nat → Nat → List α
  | [], _, _ => []
  | m :: ms, indx, k =>
    (if k = m then sliceLen vals indx (nd.getD (m - 1) 0 * 24 * ts) else []) ++
      extra nd ts vals ms (indx + nd.getD (m - 1) 0 * 24 * ts) k

/-- Value of `indx` after the loop. -/
def endIdx (nd : List Nat) (ts : Nat) : List Nat → Nat → Nat
  | [], indx => indx
  | m :: ms, indx => endIdx nd ts ms (indx + nd.getD (m - 1) 0 * 24 * ts)

theorem assignMonths_tab (nd : List Nat) (ts : Nat) (vals : List α) (keys : List Nat) (hnd : keys.Nodup) :
    ∀ (ms : List Nat) (indx : Nat) (g : Nat → List α), (∀ m ∈ ms, m ∈ keys) →
      assignMonths nd ts vals ms indx (tab keys g) = tab keys fun k => g k ++ extra nd ts vals ms indx k := by
  intro ms
  induction ms with
  | nil =>
    intro indx g _
    simp only [assignMonths, extra, List.append_nil]
  | cons m ms ih =>
    intro indx g hk
    simp only [assignMonths]
    have hm : m ∈ keys := hk m List.mem_cons_self
    rw [getD_tab keys g m hm, set_tab keys hnd g m _ hm,
      ih _ _ (fun x hx => hk x (List.mem_cons_of_mem _ hx))]
    apply List.map_congr_left
    intro k _
    by_cases h : k = m
    · subst h; simp [extra, List.append_assoc]
    · simp [extra, h]

theorem extra_append (nd : List Nat) (ts : Nat) (vals : List α) (k : Nat) : ∀ (a b : List Nat) (indx : Nat),
    extra nd ts vals (a ++ b) indx k = extra nd ts vals a indx k ++ extra nd ts vals b (endIdx nd ts a indx) k := by
  intro a
  induction a with
  | nil => intro b indx; simp [extra, endIdx]
  | cons m ms ih => intro b indx; simp [extra, endIdx, ih, List.append_assoc]

/-- The loop over the consecutive months `a, a+1, …, a+n-1`. -/
theorem extra_range' (leap : Bool) (ts : Nat) (vals : List α) (k : Nat) : ∀ (n a indx : Nat), 1 ≤ a → a + n ≤ 13 →
    extra (monthLens leap) ts vals (List.range' a n) indx k =
      (if a ≤ k ∧ k < a + n then
        sliceLen vals (indx + (daysBefore leap k - daysBefore leap a) * (24 * ts)) (monthLen leap k * (24 * ts))
       else []) ∧
    endIdx (monthLens leap) ts (List.range' a n) indx
      = indx + (daysBefore leap (a + n) - daysBefore leap a) * (24 * ts) := by
  obtain ⟨f1, f2, _, _⟩ := db_facts leap
  intro n
  induction n with
  | zero =>
    intro a indx _ _
    have : ¬ (a ≤ k ∧ k < a) := by omega
    simp only [List.range'_zero, extra, endIdx, Nat.add_zero, Nat.sub_self, Nat.zero_mul, this,
      ↓reduceIte, and_self]
  | succ n ih =>
    intro a indx h1 h2
    have hml : (monthLens leap).getD (a - 1) 0 = monthLen leap a := rfl
    have hstep := f1 a (by omega) h1
    obtain ⟨ih1, ih2⟩ := ih (a + 1) (indx + monthLen leap a * 24 * ts) (by omega) (by omega)
    simp only [List.range'_succ, extra, endIdx, hml]
    constructor
    · rw [ih1]
      by_cases hk : k = a
      · subst hk
        have c1 : ¬ (k + 1 ≤ k ∧ k < k + 1 + n) := by omega
        have c2 : k ≤ k ∧ k < k + (n + 1) := by omega
        simp [c1, c2, Nat.mul_assoc]
      · by_cases hk2 : a + 1 ≤ k ∧ k < a + 1 + n
        · have c2 : a ≤ k ∧ k < a + (n + 1) := by omega
          have hmono := f2 (a + 1) (by omega) k (by omega) (by omega) hk2.1
          have : indx + monthLen leap a * 24 * ts + (daysBefore leap k - daysBefore leap (a + 1)) * (24 * ts)
              = indx + (daysBefore leap k - daysBefore leap a) * (24 * ts) := by
            have e : daysBefore leap k - daysBefore leap a
                = monthLen leap a + (daysBefore leap k - daysBefore leap (a + 1)) := by omega
            rw [e, Nat.add_mul, Nat.mul_assoc]; omega
          simp [hk, hk2, c2, this]
        · have c2 : ¬ (a ≤ k ∧ k < a + (n + 1)) := by omega
          simp [hk, hk2, c2]
    · rw [ih2]
      have hmono := f2 (a + 1) (by omega) (a + 1 + n) (by omega) (by omega) (by omega)
      have e : daysBefore leap (a + (n + 1)) - daysBefore leap a
          = monthLen leap a + (daysBefore leap (a + 1 + n) - daysBefore leap (a + 1)) := by
        have : a + (n + 1) = a + 1 + n := by omega
        rw [this]; omega
      rw [e, Nat.add_mul, Nat.mul_assoc]; omega

/-! ### One run of days: keyed side against loop side -/

theorem drop_take_nil (l : List α) (a b : Nat) (h : l.length ≤ a) : (l.drop a).take b = [] := by
  rw [List.drop_eq_nil_of_le h]; simp

/-- For a run of days that starts on day `s = daysBefore sm + sd` and whose months are `sm .. M`:
    the slice of the values that lies in month `k` (left: the keyed description by day numbers) is
    what the month loop assigns to `k` (right).  `hbeyond`: the data end before any later month. -/
theorem month_run (leap : Bool) (vals : List α) (c s sm sd M k : Nat)
    (hk1 : 1 ≤ k) (hk12 : k ≤ 12) (hsm : 1 ≤ sm) (hM : sm ≤ M) (hM12 : M ≤ 12)
    (hs : s = daysBefore leap sm + sd) (hsd : 1 ≤ sd) (hsd2 : sd ≤ monthLen leap sm)
    (hbeyond : M < k → vals.length ≤ (daysBefore leap k + 1 - s) * c) :
    (vals.drop ((daysBefore leap k + 1 - s) * c)).take
        ((daysBefore leap (k + 1) + 1 - s) * c - (daysBefore leap k + 1 - s) * c)
      = (if k = sm then vals.take ((monthLen leap sm + 1 - sd) * c) else []) ++
        (if sm + 1 ≤ k ∧ k < sm + 1 + (M - sm) then
          sliceLen vals ((monthLen leap sm + 1 - sd) * c + (daysBefore leap k - daysBefore leap (sm + 1)) * c)
            (monthLen leap k * c)
         else []) := by
  obtain ⟨f1, f2, _, _⟩ := db_facts leap
  have esm := f1 sm (by omega) hsm
  have ek := f1 k (by omega) hk1
  rcases Nat.lt_trichotomy k sm with h | h | h
  · -- a month before the run
    have hmono := f2 (k + 1) (by omega) sm (by omega) (by omega) (by omega)
    have z : daysBefore leap (k + 1) + 1 - s = 0 := by omega
    have c1 : ¬ k = sm := by omega
    have c2 : ¬ (sm + 1 ≤ k ∧ k < sm + 1 + (M - sm)) := by omega
    simp [z, c1, c2]
  · -- the first month
    subst h
    have z : daysBefore leap k + 1 - s = 0 := by omega
    have e : daysBefore leap (k + 1) + 1 - s = monthLen leap k + 1 - sd := by omega
    have c2 : ¬ (k + 1 ≤ k ∧ k < k + 1 + (M - k)) := by omega
    simp [z, e, c2]
  · by_cases hkM : k ≤ M
    · -- a later month of the run
      have hmono := f2 (sm + 1) (by omega) k (by omega) (by omega) (by omega)
      have c1 : ¬ k = sm := by omega
      have c2 : sm + 1 ≤ k ∧ k < sm + 1 + (M - sm) := by omega
      have e1 : (monthLen leap sm + 1 - sd) * c + (daysBefore leap k - daysBefore leap (sm + 1)) * c
          = (daysBefore leap k + 1 - s) * c := by
        rw [← Nat.add_mul]; congr 1; omega
      have e2 : (daysBefore leap (k + 1) + 1 - s) * c - (daysBefore leap k + 1 - s) * c
          = monthLen leap k * c := by
        rw [← Nat.sub_mul]; congr 1; omega
      simp [c1, c2, e1, e2, sliceLen]
    · -- a month after the run
      have c1 : ¬ k = sm := by omega
      have c2 : ¬ (sm + 1 ≤ k ∧ k < sm + 1 + (M - sm)) := by omega
      rw [drop_take_nil _ _ _ (hbeyond (by omega))]
      simp [c1, c2]

/-! ### The datetimes of a whole-day period -/

/-- The datetimes `ds` of a period: valid, of the period's year, on the day of their step. -/
theorem ds_facts (ap : AP) (hwf : ap.WF) (ds : List DT) (hds : ap.datetimes = ds.map .ok) :
    ds.length = ap.moys.length ∧
    ∀ i (h : i < ds.length) (h' : i < ap.moys.length),
      ds[i].valid ∧ ds[i].leap = ap.leap ∧ ds[i].doy = ap.moys[i] / 1440 + 1 ∧ ds[i].moy = ap.moys[i] := by
  obtain ⟨_, _, hdt⟩ := AP.C04_datetimes ap hwf
  have hlenD : ds.length = ap.moys.length := by
    have := congrArg List.length hds
    simpa [AP.datetimes] using this.symm
  refine ⟨hlenD, ?_⟩
  intro i hi hi'
  obtain ⟨d, hd1, hd2, hd3, hd4⟩ := hdt (ap.moys[i]) (List.getElem_mem hi')
  have : (ap.datetimes)[i]'(by simpa [AP.datetimes] using hi') = .ok ds[i] := by
    simp [hds]
  simp only [AP.datetimes, List.getElem_map] at this
  rw [hd1] at this
  cases this
  exact ⟨hd2, hd4, by rw [doy_of_moy _ hd2, hd3], hd3⟩

/-- Day numbers of the steps of a whole-day period that does not wrap. -/
theorem doys_nonrev (ap : AP) (hwf : ap.WF) (h0 : ap.st_hour = 0) (h23 : ap.end_hour = 23)
    (hr : ap.isReversed = false) :
    ap.moys.length = (ap.endTime.doy - ap.stTime.doy + 1) * (24 * ap.timestep) ∧
    ∀ i (h : i < ap.moys.length), ap.moys[i] / 1440 + 1 = ap.stTime.doy + i / (24 * ap.timestep) := by
  obtain ⟨_, _, b1, b2, b3, b4, b5⟩ := wholeday_moments ap hwf h0 h23
  have hse := b5.mp hr
  obtain ⟨hSc, hS, hc⟩ := step_ipd ap hwf
  have hm := moys_wholeday ap hwf h0 h23 hr
  generalize hs : ap.stTime.doy = s at *
  generalize he : ap.endTime.doy = e at *
  generalize hcc : 24 * ap.timestep = c at *
  generalize hSS : ap.step = S at *
  have hN : (e * 1440 - (s - 1) * 1440) / S = (e - s + 1) * c := by
    have : e * 1440 - (s - 1) * 1440 = S * ((e - s + 1) * c) := by
      rw [← Nat.mul_assoc, Nat.mul_comm S, Nat.mul_assoc, hSc, ← Nat.sub_mul]
      congr 1; omega
    rw [this, Nat.mul_div_cancel_left _ hS]
  rw [hN] at hm
  refine ⟨by rw [hm]; simp, ?_⟩
  intro i h
  have : ap.moys[i] = (s - 1) * 1440 + S * i := by simp [hm]
  rw [this]
  exact day_of_grid S c s i hSc hS b1

/-- Day numbers of the steps of a whole-day period that wraps the year end. -/
theorem doys_rev (ap : AP) (hwf : ap.WF) (h0 : ap.st_hour = 0) (h23 : ap.end_hour = 23)
    (hr : ap.isReversed = true) :
    ap.endTime.doy < ap.stTime.doy ∧
    ap.moys.length = (daysInYear ap.leap - ap.stTime.doy + 1) * (24 * ap.timestep)
      + ap.endTime.doy * (24 * ap.timestep) ∧
    ∀ i (h : i < ap.moys.length), ap.moys[i] / 1440 + 1 =
      if i < (daysInYear ap.leap - ap.stTime.doy + 1) * (24 * ap.timestep)
      then ap.stTime.doy + i / (24 * ap.timestep)
      else 1 + (i - (daysInYear ap.leap - ap.stTime.doy + 1) * (24 * ap.timestep)) / (24 * ap.timestep) := by
  obtain ⟨_, _, b1, b2, b3, b4, b5⟩ := wholeday_moments ap hwf h0 h23
  have hes : ap.endTime.doy < ap.stTime.doy := by
    rcases Nat.lt_or_ge ap.endTime.doy ap.stTime.doy with h | h
    · exact h
    · have := b5.mpr h; rw [hr] at this; cases this
  obtain ⟨hSc, hS, hc⟩ := step_ipd ap hwf
  have hm := moys_wholeday_rev ap hwf h0 h23 hr
  generalize hs : ap.stTime.doy = s at *
  generalize he : ap.endTime.doy = e at *
  generalize hY : daysInYear ap.leap = Y at *
  generalize hcc : 24 * ap.timestep = c at *
  generalize hSS : ap.step = S at *
  have hN1 : (Y * 1440 - (s - 1) * 1440) / S = (Y - s + 1) * c := by
    have : Y * 1440 - (s - 1) * 1440 = S * ((Y - s + 1) * c) := by
      rw [← Nat.mul_assoc, Nat.mul_comm S, Nat.mul_assoc, hSc, ← Nat.sub_mul]
      congr 1; omega
    rw [this, Nat.mul_div_cancel_left _ hS]
  have hN2 : (e * 1440 - 0) / S = e * c := by
    have : e * 1440 - 0 = S * (e * c) := by
      rw [Nat.sub_zero, ← Nat.mul_assoc, Nat.mul_comm S, Nat.mul_assoc, hSc]
    rw [this, Nat.mul_div_cancel_left _ hS]
  rw [hN1, hN2] at hm
  generalize hn1 : (Y - s + 1) * c = N1 at *
  refine ⟨hes, by rw [hm]; simp, ?_⟩
  intro i h
  by_cases hi : i < N1
  · have : ap.moys[i] = (s - 1) * 1440 + S * i := by
      simp [hm, List.getElem_append, hi]
    rw [this, if_pos hi]
    exact day_of_grid S c s i hSc hS b1
  · have : ap.moys[i] = S * (i - N1) := by
      simp [hm, List.getElem_append, hi]
    rw [this, if_neg hi]
    have := day_of_grid S c 1 (i - N1) hSc hS (by omega)
    simpa using this

/-! ### group_by_month of a continuous collection -/

theorem map_month_eq (ds : List DT) :
    ds.map DT.month = (List.range ds.length).map fun i => (ds.getD i default).month := by
  apply List.ext_getElem
  · simp
  · intro i h1 h2
    have hi : i < ds.length := by simpa using h1
    simp [List.getD, List.getElem?_eq_getElem hi]

/-- Month of a step in terms of its day number `q = doy`, as an index condition. -/
theorem month_index_iff (leap : Bool) (c s q i k : Nat) (hc : 0 < c) (hq : q = i / c) :
    (daysBefore leap k < s + q ∧ s + q ≤ daysBefore leap (k + 1)) ↔
      ((daysBefore leap k + 1 - s) * c ≤ i ∧ i < (daysBefore leap (k + 1) + 1 - s) * c) := by
  rw [← Nat.le_div_iff_mul_le hc, ← Nat.div_lt_iff_lt_mul hc, ← hq]
  omega

theorem indx0_eq (ts sd ml : Nat) (h1 : 1 ≤ sd) (h2 : sd ≤ ml) :
    24 * ts * ((sd : Int) - 1 - (ml : Nat)).natAbs = (ml + 1 - sd) * (24 * ts) := by
  have : ((sd : Int) - 1 - (ml : Nat)).natAbs = ml + 1 - sd := by omega
  rw [this, Nat.mul_comm]

theorem mem_monthKeys (k : Nat) : k ∈ monthKeys ↔ 1 ≤ k ∧ k ≤ 12 := by
  simp only [monthKeys, List.mem_range'_1]; omega

/-- **Non-wrapping whole-day periods**: the slices of the continuous `group_by_month` are the groups
    of the values by the month of their own datetime. -/
theorem contMonth_nonrev (ap : AP) (hwf : ap.WF) (h0 : ap.st_hour = 0) (h23 : ap.end_hour = 23)
    (hr : ap.isReversed = false) (ds : List DT) (hds : ap.datetimes = ds.map .ok)
    (vals : List α) (hlen : vals.length = ap.moys.length) :
    contMonth ap vals = .ok (tab monthKeys (groupOf DT.month (ds.zip vals))) := by
  obtain ⟨_, _, b1, b2, b3, b4, b5⟩ := wholeday_moments ap hwf h0 h23
  have hse := b5.mp hr
  obtain ⟨_, _, hc⟩ := step_ipd ap hwf
  obtain ⟨hN, hdoy⟩ := doys_nonrev ap hwf h0 h23 hr
  obtain ⟨hdl, hdf⟩ := ds_facts ap hwf ds hds
  obtain ⟨f1, f2, _, f4⟩ := db_facts ap.leap
  obtain ⟨v1, v2, v3, v4, _, _⟩ := hwf.1
  obtain ⟨w1, w2, w3, w4, _, _⟩ := hwf.2.1
  have hs : ap.stTime.doy = daysBefore ap.leap ap.st_month + ap.st_day := rfl
  have he : ap.endTime.doy = daysBefore ap.leap ap.end_month + ap.end_day := rfl
  have v1' : 1 ≤ ap.st_month := v1
  have v2' : ap.st_month ≤ 12 := v2
  have v3' : 1 ≤ ap.st_day := v3
  have v4' : ap.st_day ≤ monthLen ap.leap ap.st_month := v4
  have w1' : 1 ≤ ap.end_month := w1
  have w2' : ap.end_month ≤ 12 := w2
  have w3' : 1 ≤ ap.end_day := w3
  have w4' : ap.end_day ≤ monthLen ap.leap ap.end_month := w4
  have hee := f1 ap.end_month (by omega) w1'
  have hsmem : ap.st_month ≤ ap.end_month := by
    rcases Nat.lt_or_ge ap.end_month ap.st_month with h | h
    · have := f2 (ap.end_month + 1) (by omega) ap.st_month (by omega) (by omega) (by omega)
      omega
    · exact h
  generalize hcc : 24 * ap.timestep = c at *
  have hmi : ap.monthsInt = ap.st_month :: List.range' (ap.st_month + 1) (ap.end_month - ap.st_month) := by
    unfold monthsInt
    rw [if_pos hr]
    have : ap.end_month + 1 - ap.st_month = (ap.end_month - ap.st_month) + 1 := by omega
    rw [this, List.range'_succ]
  simp only [contMonth, hmi, numDaysTable_eq]
  congr 1
  have hml : (monthLens ap.leap).getD (ap.st_month - 1) 0 = monthLen ap.leap ap.st_month := rfl
  rw [hml, indx0_eq _ _ _ v3' v4', hcc, init_eq_tab]
  have hnd : monthKeys.Nodup := List.nodup_range' (step := 1) (by omega)
  rw [set_tab _ hnd _ _ _ ((mem_monthKeys _).mpr ⟨v1', v2'⟩)]
  rw [assignMonths_tab _ _ _ _ hnd _ _ _ (by
    intro m hm
    rw [List.mem_range'_1] at hm
    rw [mem_monthKeys]; omega)]
  apply List.map_congr_left
  intro k hk
  rw [mem_monthKeys] at hk
  refine Prod.ext rfl ?_
  dsimp only
  rw [(extra_range' ap.leap ap.timestep vals k _ _ _ (by omega) (by omega)).1, hcc]
  -- the keyed side
  rw [groupOf_zip_key, map_month_eq]
  have hlv : ds.length = vals.length := by rw [hdl, hlen]
  rw [hlv]
  rw [groupOf_index _ vals k ((daysBefore ap.leap k + 1 - ap.stTime.doy) * c)
    ((daysBefore ap.leap (k + 1) + 1 - ap.stTime.doy) * c) (by
      intro i hi
      have hi1 : i < ds.length := by omega
      have hi2 : i < ap.moys.length := by omega
      obtain ⟨g1, g2, g3, _⟩ := hdf i hi1 hi2
      have : ds.getD i default = ds[i] := by simp [List.getD, List.getElem?_eq_getElem hi1]
      rw [this, month_iff_doy _ g1 k hk.1 hk.2, g2, g3, hdoy i hi2]
      exact month_index_iff ap.leap c _ _ i k hc rfl)]
  rw [month_run ap.leap vals c ap.stTime.doy ap.st_month ap.st_day ap.end_month k hk.1 hk.2 v1' hsmem w2'
    hs v3' v4' (by
      intro hkm
      rw [hlen, hN]
      apply Nat.mul_le_mul_right
      have := f2 (ap.end_month + 1) (by omega) k (by omega) (by omega) (by omega)
      omega)]

/-- **Year-wrapping whole-day periods** (also when the period starts and ends in the same month, which
    is then visited twice): the slices of the continuous `group_by_month` are the groups of the values
    by the month of their own datetime. -/
theorem contMonth_rev (ap : AP) (hwf : ap.WF) (h0 : ap.st_hour = 0) (h23 : ap.end_hour = 23)
    (hr : ap.isReversed = true) (ds : List DT) (hds : ap.datetimes = ds.map .ok)
    (vals : List α) (hlen : vals.length = ap.moys.length) :
    contMonth ap vals = .ok (tab monthKeys (groupOf DT.month (ds.zip vals))) := by
  obtain ⟨_, _, b1, b2, b3, b4, _⟩ := wholeday_moments ap hwf h0 h23
  obtain ⟨_, _, hc⟩ := step_ipd ap hwf
  obtain ⟨hes, hN, hdoy⟩ := doys_rev ap hwf h0 h23 hr
  obtain ⟨hdl, hdf⟩ := ds_facts ap hwf ds hds
  obtain ⟨f1, f2, f3, f4⟩ := db_facts ap.leap
  obtain ⟨v1, v2, v3, v4, _, _⟩ := hwf.1
  obtain ⟨w1, w2, w3, w4, _, _⟩ := hwf.2.1
  have hs : ap.stTime.doy = daysBefore ap.leap ap.st_month + ap.st_day := rfl
  have he : ap.endTime.doy = daysBefore ap.leap ap.end_month + ap.end_day := rfl
  have v1' : 1 ≤ ap.st_month := v1
  have v2' : ap.st_month ≤ 12 := v2
  have v3' : 1 ≤ ap.st_day := v3
  have v4' : ap.st_day ≤ monthLen ap.leap ap.st_month := v4
  have w1' : 1 ≤ ap.end_month := w1
  have w2' : ap.end_month ≤ 12 := w2
  have w3' : 1 ≤ ap.end_day := w3
  have w4' : ap.end_day ≤ monthLen ap.leap ap.end_month := w4
  have hee := f1 ap.end_month (by omega) w1'
  have hss := f1 ap.st_month (by omega) v1'
  generalize hcc : 24 * ap.timestep = c at *
  generalize hY : daysInYear ap.leap = Y at *
  generalize hn1 : (Y - ap.stTime.doy + 1) * c = N1 at *
  have hmi : ap.monthsInt = ap.st_month ::
      (List.range' (ap.st_month + 1) (12 - ap.st_month) ++ List.range' 1 ap.end_month) := by
    unfold monthsInt
    rw [if_neg (by rw [hr]; simp)]
    have : 13 - ap.st_month = (12 - ap.st_month) + 1 := by omega
    rw [this, List.range'_succ, List.cons_append]
  simp only [contMonth, hmi, numDaysTable_eq]
  congr 1
  have hml : (monthLens ap.leap).getD (ap.st_month - 1) 0 = monthLen ap.leap ap.st_month := rfl
  rw [hml, indx0_eq _ _ _ v3' v4', hcc, init_eq_tab]
  have hnd : monthKeys.Nodup := List.nodup_range' (step := 1) (by omega)
  rw [set_tab _ hnd _ _ _ ((mem_monthKeys _).mpr ⟨v1', v2'⟩)]
  rw [assignMonths_tab _ _ _ _ hnd _ _ _ (by
    intro m hm
    rw [List.mem_append, List.mem_range'_1, List.mem_range'_1] at hm
    rw [mem_monthKeys]; omega)]
  apply List.map_congr_left
  intro k hk
  rw [mem_monthKeys] at hk
  refine Prod.ext rfl ?_
  dsimp only
  obtain ⟨xa1, xa2⟩ := extra_range' ap.leap ap.timestep vals k (12 - ap.st_month) (ap.st_month + 1)
    ((monthLen ap.leap ap.st_month + 1 - ap.st_day) * c) (by omega) (by omega)
  rw [extra_append, xa1, xa2, hcc]
  have hend : (monthLen ap.leap ap.st_month + 1 - ap.st_day) * c +
      (daysBefore ap.leap (ap.st_month + 1 + (12 - ap.st_month)) - daysBefore ap.leap (ap.st_month + 1)) * c = N1 := by
    have : ap.st_month + 1 + (12 - ap.st_month) = 13 := by omega
    rw [this, f4, ← Nat.add_mul, ← hn1]
    congr 1
    have := f2 (ap.st_month + 1) (by omega) 13 (by omega) (by omega) (by omega)
    omega
  rw [hend, (extra_range' ap.leap ap.timestep vals k ap.end_month 1 N1 (by omega) (by omega)).1, hcc, f3]
  -- the keyed side
  rw [groupOf_zip_key, map_month_eq]
  have hlv : ds.length = vals.length := by rw [hdl, hlen]
  have hN1le : N1 ≤ vals.length := by rw [hlen, hN]; omega
  have hl1 : (vals.take N1).length = N1 := by rw [List.length_take]; omega
  have hl2 : (vals.drop N1).length = ap.endTime.doy * c := by rw [List.length_drop, hlen, hN]; omega
  have hsplit : groupOf id (((List.range ds.length).map fun i => (ds.getD i default).month).zip vals) k
      = groupOf id (((List.range (vals.take N1 ++ vals.drop N1).length).map
          fun i => (ds.getD i default).month).zip (vals.take N1 ++ vals.drop N1)) k := by
    rw [List.take_append_drop, hlv]
  have hmonoK := f2 k (by omega) (k + 1) (by omega) hk.1 (by omega)
  have hmonoY := f2 (k + 1) (by omega) 13 (by omega) (by omega) (by omega)
  have ek := f1 k (by omega) hk.1
  rw [hsplit, groupOf_index2 _ (vals.take N1) (vals.drop N1) k
    ((daysBefore ap.leap k + 1 - ap.stTime.doy) * c) ((daysBefore ap.leap (k + 1) + 1 - ap.stTime.doy) * c)
    (N1 + daysBefore ap.leap k * c) (N1 + daysBefore ap.leap (k + 1) * c)
    (by
      intro i hi
      rw [hl1] at hi
      have hi1 : i < ds.length := by omega
      have hi2 : i < ap.moys.length := by omega
      obtain ⟨g1, g2, g3, _⟩ := hdf i hi1 hi2
      have : ds.getD i default = ds[i] := by simp [List.getD, List.getElem?_eq_getElem hi1]
      rw [this, month_iff_doy _ g1 k hk.1 hk.2, g2, g3, hdoy i hi2, if_pos hi]
      exact month_index_iff ap.leap c _ _ i k hc rfl)
    (by
      intro i hi hi'
      rw [hl1] at hi
      rw [hl1, hl2] at hi'
      have hi1 : i < ds.length := by omega
      have hi2 : i < ap.moys.length := by omega
      obtain ⟨g1, g2, g3, _⟩ := hdf i hi1 hi2
      have : ds.getD i default = ds[i] := by simp [List.getD, List.getElem?_eq_getElem hi1]
      rw [this, month_iff_doy _ g1 k hk.1 hk.2, g2, g3, hdoy i hi2, if_neg (by omega)]
      have := month_index_iff ap.leap c 1 ((i - N1) / c) (i - N1) k hc rfl
      rw [this]
      simp only [Nat.add_sub_cancel]
      omega)
    (by rw [hl1]; omega)]
  rw [hl1]
  -- first run: days s .. end of year
  have hhi : (daysBefore ap.leap (k + 1) + 1 - ap.stTime.doy) * c ≤ N1 := by
    rw [← hn1]; apply Nat.mul_le_mul_right; omega
  have hlohi : (daysBefore ap.leap k + 1 - ap.stTime.doy) * c ≤ (daysBefore ap.leap (k + 1) + 1 - ap.stTime.doy) * c := by
    apply Nat.mul_le_mul_right; omega
  rw [slice_take vals N1 _ _ (by omega)]
  rw [month_run ap.leap vals c ap.stTime.doy ap.st_month ap.st_day 12 k hk.1 hk.2 v1' v2' (by omega)
    hs v3' v4' (by intro h; omega)]
  rw [List.append_assoc]
  congr 1
  congr 1
  -- second run: 1 Jan .. end day
  have e1 : N1 + daysBefore ap.leap k * c - N1 = daysBefore ap.leap k * c := by omega
  have e2 : N1 + daysBefore ap.leap (k + 1) * c - (N1 + daysBefore ap.leap k * c) = monthLen ap.leap k * c := by
    rw [ek, Nat.add_mul]; omega
  rw [e1, e2, List.drop_drop]
  by_cases hke : k ≤ ap.end_month
  · have c1 : 1 ≤ k ∧ k < 1 + ap.end_month := by omega
    simp only [c1, and_self, ↓reduceIte, sliceLen, Nat.sub_zero]
  · have c1 : ¬ (1 ≤ k ∧ k < 1 + ap.end_month) := by omega
    simp only [c1, ↓reduceIte]
    symm
    apply drop_take_nil
    rw [hlen, hN]
    have := f2 (ap.end_month + 1) (by omega) k (by omega) (by omega) (by omega)
    have : ap.endTime.doy * c ≤ daysBefore ap.leap k * c := by
      apply Nat.mul_le_mul_right; omega
    omega

/-- Both cases together. -/
theorem contMonth_eq (ap : AP) (hwf : ap.WF) (h0 : ap.st_hour = 0) (h23 : ap.end_hour = 23)
    (ds : List DT) (hds : ap.datetimes = ds.map .ok) (vals : List α) (hlen : vals.length = ap.moys.length) :
    contMonth ap vals = .ok (tab monthKeys (groupOf DT.month (ds.zip vals))) := by
  cases hr : ap.isReversed
  · exact contMonth_nonrev ap hwf h0 h23 hr ds hds vals hlen
  · exact contMonth_rev ap hwf h0 h23 hr ds hds vals hlen

end Grp
